/-
  C19 — Compiled rules do not depend on how internal storage grew.
  Property theorems only (helpers: Lemmas/Arena*.lean).  The arena model is Model/Arena.lean
  (arena.c); `abs a` is the address-free content of an arena: every buffer's bytes with each
  registered pointer slot replaced by the (buffer, offset) it denotes, plus the relocation list.
  All statements hold for every arena satisfying the protocol `WF`, every buffer, every capacity
  and every address the allocator may return (`Fresh`).

  Main result (`run_abs`, by refinement `exec_refines` / `run_refines`): the arena API refines an
  address-free abstract machine (`astep` / `arun`, Spec/Arena.lean: byte lists + registered slots holding
  references).  For every sequence of client operations inside the protocol (`OpsOK`, decidable), every
  initial size, capacity, base address, always-move setting and admissible realloc schedule, the concrete
  run produces the observations and the abstract content the abstract run prescribes.
-/
import YaraModel.Lemmas.ArenaExample
import YaraModel.Lemmas.ArenaGrow
import YaraModel.Lemmas.ArenaSeq
import YaraModel.Lemmas.ArenaExec
import YaraModel.Lemmas.ArenaFlags
namespace YaraModel.Arena
open YaraModel.Gen.ArenaLayout

/-- **Relocation is invisible.** When buffer `b` grows to any capacity `nc` and realloc returns any
    admissible block `newBase` (the old block extended in place, or a block elsewhere: then the fix-up
    loop runs over the relocation list), the abstract arena is unchanged: no registered pointer is
    left stale, no other byte changes. -/
theorem grow_abs {a : Arena} (h : WF a) {b newBase nc : Nat} (hb : b < a.bufs.length)
    (hf : Fresh a b newBase nc) (zero : Bool) :
    abs (growBuf a b newBase nc zero) = abs a :=
  abs_growBuf h hb hf zero

/-- the hypotheses are satisfiable: a three-buffer arena with two registered pointers whose buffer 1
    (the target of one of them) is moved by realloc from 0x1000 to 0x10000 -/
example : abs (growBuf exArena 1 65536 64 false) = abs exArena :=
  grow_abs exArena_wf (by decide) exArena_fresh false

/-- … and the move really happened and really rewrote the pointer (the statement is not vacuous) -/
example : getSlot (growBuf exArena 1 65536 64 false) ⟨0, 0⟩ = 65538 ∧ getSlot exArena ⟨0, 0⟩ = 4098 := by decide

/-- **No stale reference.** After the growth the protocol still holds: every registered slot holds null
    or a pointer into the used bytes of a buffer *at its new address*. -/
theorem grow_wf {a : Arena} (h : WF a) {b newBase nc : Nat} (hb : b < a.bufs.length)
    (hf : Fresh a b newBase nc) (zero : Bool) : WF (growBuf a b newBase nc zero) :=
  wf_growBuf h hb hf zero

/-- **One allocation is a function of the abstract arena.** Whatever the buffer's capacity, the
    always-move hook and the allocator's (admissible) answer: the bytes are appended to the body of
    buffer `b`, nothing else changes, the protocol is preserved. -/
theorem alloc_abs (cfg : Cfg) (nb : Nat) {a : Arena} (h : WF a) (hinit : 0 < a.init) {b : Nat} {zero : Bool} {fill : Bytes}
    {a' : Arena} {r : Ref} (hres : allocMem cfg nb a b zero fill = .ok (a', r))
    (hfresh : AllocFresh cfg nb a b fill.length) (hsz : (a.bufAt b).data.length + fill.length < 2 ^ 32) :
    WF a' ∧ abs a' = absAppend (abs a) b fill ∧ r = ⟨b, (a.bufAt b).data.length⟩ :=
  let ⟨h1, h2, h3, _⟩ := allocMem_spec cfg nb h hinit hres hfresh hsz
  ⟨h1, h2, h3⟩

/-- **Allocation-only sequences** (special case of `run_abs` below, kept because its admissibility predicate
    and request type are the simplest to read): two runs of the same allocation requests — write_data / zeroed
    memory / the memory of a struct — started from arenas with the same abstract content but different initial
    sizes, capacities, addresses, hook settings and allocator answers end in arenas with the same abstract content. -/
theorem alloc_seq_abs (cfg₁ cfg₂ : Cfg) (reqs : List Req) :
    ∀ (bases₁ bases₂ : List Nat) (a₁ a₂ a₁' a₂' : Arena), WF a₁ → WF a₂ → 0 < a₁.init → 0 < a₂.init → abs a₁ = abs a₂ →
      Admissible cfg₁ bases₁ a₁ reqs → Admissible cfg₂ bases₂ a₂ reqs →
      runAllocs cfg₁ bases₁ a₁ reqs = .ok a₁' → runAllocs cfg₂ bases₂ a₂ reqs = .ok a₂' →
      abs a₁' = abs a₂' ∧ WF a₁' ∧ WF a₂' := by
  induction reqs with
  | nil =>
    intro bases₁ bases₂ a₁ a₂ a₁' a₂' h₁ h₂ _ _ habs _ _ hr₁ hr₂
    rw [runAllocs_nil] at hr₁ hr₂
    simp only [Except.ok.injEq] at hr₁ hr₂
    subst hr₁; subst hr₂
    exact ⟨habs, h₁, h₂⟩
  | cons q qs ih =>
    intro bases₁ bases₂ a₁ a₂ a₁' a₂' h₁ h₂ hi₁ hi₂ habs had₁ had₂ hr₁ hr₂
    cases bases₁ with
    | nil => rw [runAllocs_short] at hr₁; cases hr₁
    | cons nb₁ nbs₁ =>
      cases bases₂ with
      | nil => rw [runAllocs_short] at hr₂; cases hr₂
      | cons nb₂ nbs₂ =>
        rw [runAllocs_cons] at hr₁ hr₂
        obtain ⟨hf₁, hz₁, hn₁⟩ := had₁
        obtain ⟨hf₂, hz₂, hn₂⟩ := had₂
        cases e₁ : allocMem cfg₁ nb₁ a₁ q.b q.zero q.fill with
        | error e => rw [e₁] at hr₁; cases hr₁
        | ok p₁ =>
          cases e₂ : allocMem cfg₂ nb₂ a₂ q.b q.zero q.fill with
          | error e => rw [e₂] at hr₂; cases hr₂
          | ok p₂ =>
            obtain ⟨b₁, r₁⟩ := p₁
            obtain ⟨b₂, r₂⟩ := p₂
            rw [e₁] at hr₁; rw [e₂] at hr₂
            have s₁ := allocMem_spec cfg₁ nb₁ h₁ hi₁ e₁ hf₁ hz₁
            have s₂ := allocMem_spec cfg₂ nb₂ h₂ hi₂ e₂ hf₂ hz₂
            exact ih nbs₁ nbs₂ b₁ b₂ a₁' a₂' s₁.1 s₂.1 (by rw [s₁.2.2.2]; exact hi₁) (by rw [s₂.2.2.2]; exact hi₂)
              (by rw [s₁.2.1, s₂.2.1, habs]) (hn₁ _ _ e₁) (hn₂ _ _ e₂) hr₁ hr₂

/-- the hypotheses of the sequence theorem are satisfiable: 9 bytes written to buffer 1 of the example arena
    (capacity 8, 4 used) make it grow; one run lets realloc move the block to 0x10000, the other run has the
    always-move hook on and gets 0x30000: both runs succeed and are admissible -/
example : ∃ a₁' a₂', runAllocs {} [65536] exArena [⟨1, false, [1, 2, 3, 4, 5, 6, 7, 8, 9]⟩] = .ok a₁' ∧
    runAllocs { alwaysMove := true } [196608] exArena [⟨1, false, [1, 2, 3, 4, 5, 6, 7, 8, 9]⟩] = .ok a₂' ∧
    Admissible {} [65536] exArena [⟨1, false, [1, 2, 3, 4, 5, 6, 7, 8, 9]⟩] ∧
    Admissible { alwaysMove := true } [196608] exArena [⟨1, false, [1, 2, 3, 4, 5, 6, 7, 8, 9]⟩] := by
  have fresh : ∀ nb nc, nb = 65536 ∨ nb = 196608 → nc = 16 → Fresh exArena 1 nb nc := by
    intro nb nc hnb hnc
    subst hnc
    refine ⟨by omega, ⟨by decide, by omega⟩, ?_, by rcases hnb with rfl | rfl <;> decide⟩
    intro j hj hne
    have : j = 0 ∨ j = 2 := by have : j < 3 := hj; omega
    rcases this with rfl | rfl <;> rcases hnb with rfl | rfl <;> decide
  refine ⟨_, _, rfl, rfl, ⟨fun _ => fresh _ _ (Or.inl rfl) (by decide), by decide, fun _ _ _ => trivial⟩,
    ⟨fun _ => fresh _ _ (Or.inr rfl) (by decide), by decide, fun _ _ _ => trivial⟩⟩

/-- The bytes written by `yr_arena_save_stream` are a function of the abstract arena alone
    (never of addresses or capacities). -/
theorem save_of_abs (a : Arena) : save a = saveOfAbs (abs a) := by
  unfold save saveOfAbs abs
  have hl : (bodies (toRefs a)).length = a.bufs.length := by
    rw [toRefs_eq]; simp [bodies]
  have hm : (bodies (toRefs a)).map (·.length) = (bodies a).map (·.length) := by
    rw [toRefs_eq]
    have := keys_mapSlots (fun v => encRef (ptrToRef a.bufs v).2) a.relocs a
    have h2 := congrArg (List.map Prod.snd) this
    simpa [bodies, key, List.map_map, Function.comp_def] using h2
  simp only [hl, hm]

/-- Two arenas with the same abstract content serialise to identical bytes. -/
theorem save_eq_of_abs_eq {a a' : Arena} (h : abs a = abs a') : save a = save a' := by
  rw [save_of_abs, save_of_abs, h]

/-- Hence a growth at any point, to any capacity, at any address, does not change what a later
    save writes. -/
theorem grow_save {a : Arena} (h : WF a) {b newBase nc : Nat} (hb : b < a.bufs.length)
    (hf : Fresh a b newBase nc) (zero : Bool) :
    save (growBuf a b newBase nc zero) = save a :=
  save_eq_of_abs_eq (grow_abs h hb hf zero)

/-- **Refinement, one operation.** For every client operation `op` (allocate raw / zeroed / a struct with
    relocatable fields, make_ptr_relocatable, store a pointer obtained from ref_to_ptr into a registered slot,
    write-and-register a pointer, register-and-fill a slot that held anything, memcpy into allocated bytes, read a
    slot back through ptr_to_ref, ref_to_ptr followed by ptr_to_ref) that the abstract machine accepts on the abstract content of `a` (`astep (abs a) op`
    is defined: the operation is inside the protocol), for every configuration — always-move hook, initial size
    `a.init`, capacities and base addresses of `a`, allocator answer `nb` admissible *if looked at* — the real
    operation succeeds with exactly the observation `o` the abstract machine prescribes, keeps the protocol `WF`
    (no stale pointer) and yields an arena whose abstract content is the abstract machine's; the only other
    outcome is ERROR_INSUFFICIENT_MEMORY (a buffer would exceed its maximum size — which does depend on the
    initial size).  No assert of arena.c fires, nothing is read or written out of bounds. -/
theorem exec_refines (cfg : Cfg) (nb : Nat) {a : Arena} (h : WF a) (hinit : 0 < a.init) {op : Op} {x' : AArena} {o : Out}
    (hspec : astep (abs a) op = some (x', o)) (hfresh : StepFresh cfg nb a op) :
    (∃ a', exec cfg nb a op = .ok (a', o) ∧ WF a' ∧ a'.init = a.init ∧ abs a' = x') ∨
      exec cfg nb a op = .error .insufficientMemory :=
  exec_sim cfg nb h hinit hspec hfresh

/-- **Refinement, any sequence.** By induction over the operation list: a run of the real arena under any
    configuration and any admissible realloc schedule (`AdmRun`) realises the run of the abstract machine — same
    observations step by step, abstract content of the final arena = final abstract arena — or stops with
    ERROR_INSUFFICIENT_MEMORY. -/
theorem run_refines (cfg : Cfg) (ops : List Op) (bases : List Nat) {a : Arena} (h : WF a) (hinit : 0 < a.init)
    {x' : AArena} {outs : List Out} (hspec : arun (abs a) ops = some (x', outs)) (hadm : AdmRun cfg bases a ops) :
    (∃ a', runOut cfg bases a ops = .ok (a', outs) ∧ WF a' ∧ abs a' = x') ∨
      runOut cfg bases a ops = .error .insufficientMemory :=
  runOut_sim cfg ops bases a x' outs h hinit hspec hadm

/-- **Compiled rules do not depend on how internal storage grew** (full statement).  Two runs of the same
    sequence of arena operations obeying the protocol (`OpsOK`, a decidable predicate of the sequence and the
    abstract content it starts from), started from arenas with the same abstract content but with different
    initial buffer sizes, capacities, base addresses, always-move settings (`cfg₁`, `cfg₂`) and allocator answers
    (`bases₁`, `bases₂`: any admissible realloc schedules) produce the same observations at every step (the
    references returned by allocations, the results of pointer → reference queries) and end in arenas with the
    same abstract content — hence byte-identical saved images — in which the protocol still holds. -/
theorem run_abs (ops : List Op) (cfg₁ cfg₂ : Cfg) (bases₁ bases₂ : List Nat) {a₁ a₂ a₁' a₂' : Arena} {outs₁ outs₂ : List Out}
    (h₁ : WF a₁) (h₂ : WF a₂) (hi₁ : 0 < a₁.init) (hi₂ : 0 < a₂.init) (habs : abs a₁ = abs a₂)
    (hok : OpsOK (abs a₁) ops = true)
    (had₁ : AdmRun cfg₁ bases₁ a₁ ops) (had₂ : AdmRun cfg₂ bases₂ a₂ ops)
    (hr₁ : runOut cfg₁ bases₁ a₁ ops = .ok (a₁', outs₁)) (hr₂ : runOut cfg₂ bases₂ a₂ ops = .ok (a₂', outs₂)) :
    outs₁ = outs₂ ∧ abs a₁' = abs a₂' ∧ save a₁' = save a₂' ∧ WF a₁' ∧ WF a₂' := by
  unfold OpsOK at hok
  cases hspec : arun (abs a₁) ops with
  | none => rw [hspec] at hok; cases hok
  | some p =>
    obtain ⟨x', outs⟩ := p
    have hspec₂ : arun (abs a₂) ops = some (x', outs) := by rw [← habs]; exact hspec
    rcases run_refines cfg₁ ops bases₁ h₁ hi₁ hspec had₁ with ⟨b₁, e₁, w₁, ab₁⟩ | e₁
    · rcases run_refines cfg₂ ops bases₂ h₂ hi₂ hspec₂ had₂ with ⟨b₂, e₂, w₂, ab₂⟩ | e₂
      · rw [e₁] at hr₁; rw [e₂] at hr₂
        simp only [Except.ok.injEq, Prod.mk.injEq] at hr₁ hr₂
        obtain ⟨rfl, rfl⟩ := hr₁
        obtain ⟨rfl, rfl⟩ := hr₂
        have habs' : abs b₁ = abs b₂ := by rw [ab₁, ab₂]
        exact ⟨rfl, habs', save_eq_of_abs_eq habs', w₁, w₂⟩
      · rw [e₂] at hr₂; cases hr₂
    · rw [e₁] at hr₁; cases hr₁

/-- … in particular from creation: `yr_arena_create(n, init₁)` and `yr_arena_create(n, init₂)` followed by the same
    protocol-obeying operations give the same observations and the same saved image, whatever the two initial
    buffer sizes, hook settings and allocator schedules. -/
theorem create_run_abs (n : Nat) (hn : n ≤ maxBuffers) (ops : List Op) (hok : OpsOK (aCreate n) ops = true)
    (cfg₁ cfg₂ : Cfg) (init₁ init₂ : Nat) (hi₁ : 0 < init₁) (hi₂ : 0 < init₂) (bases₁ bases₂ : List Nat)
    {a₁' a₂' : Arena} {outs₁ outs₂ : List Out}
    (had₁ : AdmRun cfg₁ bases₁ (create n init₁) ops) (had₂ : AdmRun cfg₂ bases₂ (create n init₂) ops)
    (hr₁ : runOut cfg₁ bases₁ (create n init₁) ops = .ok (a₁', outs₁))
    (hr₂ : runOut cfg₂ bases₂ (create n init₂) ops = .ok (a₂', outs₂)) :
    outs₁ = outs₂ ∧ abs a₁' = abs a₂' ∧ save a₁' = save a₂' ∧ WF a₁' ∧ WF a₂' :=
  run_abs ops cfg₁ cfg₂ bases₁ bases₂ (wf_create init₁ hn) (wf_create init₂ hn) hi₁ hi₂
    (by rw [abs_create, abs_create]) (by rw [abs_create]; exact hok) had₁ had₂ hr₁ hr₂

/-- the hypotheses are satisfiable by a non-trivial session (`exOps`, Lemmas/ArenaExample.lean): 17 operations of
    every kind on two buffers; a pointer is stored in a registered slot, then both the buffer it points into and
    the buffer holding the slot are forced to grow before the slot is read back.  Run 1: initial size 1, hook off,
    ascending addresses (buffer 0 is reallocated 3 times, ends with capacity 256); run 2: initial size 64,
    always-move on, descending addresses (every allocation moves its buffer, final capacity 224).  The sequence
    obeys the protocol, both schedules are admissible, both runs succeed — so the theorem applies, and the
    read-backs return the references stored (1.2 and 0.20) although every address changed in between. -/
example : ∃ a₁' a₂' outs, runOut {} exBases₁ (create 2 1) exOps = .ok (a₁', outs) ∧
    runOut { alwaysMove := true } exBases₂ (create 2 64) exOps = .ok (a₂', outs) ∧
    save a₁' = save a₂' ∧ outs[5]? = some (.found (some ⟨1, 2⟩)) ∧ outs[8]? = some (.found (some ⟨0, 20⟩)) ∧
    (a₁'.bufAt 0).base ≠ (a₂'.bufAt 0).base ∧ (a₁'.bufAt 0).cap ≠ (a₂'.bufAt 0).cap := by
  have hok : OpsOK (aCreate 2) exOps = true := by decide +kernel
  have had₁ : AdmRun {} exBases₁ (create 2 1) exOps := admRun_of_check _ _ _ _ (by decide +kernel)
  have had₂ : AdmRun { alwaysMove := true } exBases₂ (create 2 64) exOps := admRun_of_check _ _ _ _ (by decide +kernel)
  have c₁ : (match runOut {} exBases₁ (create 2 1) exOps with
      | .ok (a, o) => decide (o[5]? = some (.found (some ⟨1, 2⟩)) ∧ o[8]? = some (.found (some ⟨0, 20⟩)) ∧
          (a.bufAt 0).base = 32768 ∧ (a.bufAt 0).cap = 256)
      | .error _ => false) = true := by decide +kernel
  have c₂ : (match runOut { alwaysMove := true } exBases₂ (create 2 64) exOps with
      | .ok (a, _) => decide ((a.bufAt 0).base = 13631488 ∧ (a.bufAt 0).cap = 224)
      | .error _ => false) = true := by decide +kernel
  cases hr₁ : runOut {} exBases₁ (create 2 1) exOps with
  | error e => rw [hr₁] at c₁; cases c₁
  | ok p₁ =>
    cases hr₂ : runOut { alwaysMove := true } exBases₂ (create 2 64) exOps with
    | error e => rw [hr₂] at c₂; cases c₂
    | ok p₂ =>
      obtain ⟨a₁', o₁⟩ := p₁
      obtain ⟨a₂', o₂⟩ := p₂
      rw [hr₁] at c₁; rw [hr₂] at c₂
      simp only [decide_eq_true_eq] at c₁ c₂
      have ⟨ho, _, hs, _, _⟩ := create_run_abs 2 (by decide) exOps hok {} { alwaysMove := true } 1 64 (by decide) (by decide)
        exBases₁ exBases₂ had₁ had₂ hr₁ hr₂
      subst ho
      exact ⟨a₁', a₂', o₁, rfl, rfl, hs, c₁.1, c₁.2.1, by rw [c₁.2.2.1, c₂.1]; decide, by rw [c₁.2.2.2, c₂.2]; decide⟩

/-- **Nothing unspecified.** The abstract content ignores one thing the model tracks: whether a zeroed allocation was
    served from spare capacity that was never cleared (`unspec`; arena.c clears only on the growth path — which
    capacity-dependent runs reach at different moments).  If the operation list never sends a zeroed allocation
    (allocate_zeroed_memory / allocate_struct) to a buffer that earlier received a raw one (write_data) — `KindsOK`,
    decidable, a property of the list alone; the compiler's buffers are each of one kind — then, whatever the
    configuration and the allocator, the flag is never raised: every byte of the final arena is the one `abs` shows. -/
theorem run_defined (cfg : Cfg) (bases : List Nat) (ops : List Op) {a a' : Arena} {raws : List Nat} {outs : List Out}
    (hd : ∀ j, (a.bufAt j).dirty = true → j ∈ raws) (hu : a.unspec = false) (hk : KindsOK raws ops = true)
    (hr : runOut cfg bases a ops = .ok (a', outs)) : a'.unspec = false :=
  runOut_unspec cfg ops bases a raws a' outs hd hu hk hr

/-- … in particular from `yr_arena_create`; the example session sends zeroed allocations to buffer 0 and raw ones to buffer 1 -/
example (cfg : Cfg) (init : Nat) (bases : List Nat) {a' : Arena} {outs : List Out}
    (hr : runOut cfg bases (create 2 init) exOps = .ok (a', outs)) : a'.unspec = false :=
  run_defined cfg bases exOps (dirtyIn_create 2 init) rfl (by decide) hr

end YaraModel.Arena
