/- PLACEHOLDER (replaced by the construction theorems) -/
import YaraModel.Model.AcBuild
namespace YaraModel.AC.Build

theorem empty_root : empty.states.size = 1 := rfl

end YaraModel.AC.Build
