/-
  Aho-Corasick automaton CONSTRUCTION (libyara/ahocorasick.c, modelled function by function in Model/AcBuild.lean) and the
  scan loop of scanner.c `_yr_scanner_scan_mem_block` (Model/AcScan.lean `scan`); used by C01, C05 and, through the shared
  automaton, by every string property.

  What is proved, for EVERY list of atoms (any bytes, any lengths INCLUDING zero, any number < 2^32, duplicates allowed, any
  insertion order) and EVERY buffer:
    `build_scan_exact`  the candidate SEQUENCE the scan of the built tables produces is `expectedScan atoms buf`: position by
                        position (0 … |buf|; the last one is the pass after the loop), at each position the atoms ending
                        there, longest first, among equal atoms the newest first, zero-length atoms (root matches) last, each
                        handed over iff `backtrack ≤ position` — order included;
    `build_sound`       as a set: exactly the occurrences of the atoms (`expectedAt`);
    `root_matches_everywhere`  a zero-length atom is reported at every position 0 … |buf|;
    `build_cert`, `build_candsOK`  the certificate facts / the per-string contract of C01/C05.
  The three layers of the construction are stated separately:
    (a) `failure_links_correct`    failure link = longest proper suffix that is a path; match list = `specList` of the path;
    (b) `optimisation_keeps_delta` the shortened failure links keep the transition function δ;
    (c) `packed_lookup`            the lookup loop on the packed table (first-fit slots, owner-offset tags, growth) computes δ.
  `build_some` discharges the hypothesis `build atoms = some T` for rule sets of bounded size.
  Hypotheses: a zero-length atom has backtrack 0 (what atoms.c produces; with a positive backtrack the C loop
  `match->backtrack > 0` would link the root's list into itself); fewer than 2^32 atoms (32-bit match-table entries);
  `build` returns `some` (`none` exactly when `assert(slot + 257 < YR_AC_MAX_TRANSITION_TABLE_SIZE)` fails).
  Ties to the code (vf/acbuild.py): the built tables EQUAL the real tables token for token, and the real candidate
  sequence (hook yr_verif_on_candidate) EQUALS `scan` of the built tables and `expectedScan`, order included.
-/
import YaraModel.Lemmas.AcBuildFinal
import YaraModel.Lemmas.AcBuildSome
import YaraModel.Lemmas.AcBuildCands
namespace YaraModel.AC.Build
open YaraModel.Text YaraModel.AC

/-- **(a) failure links and match lists** after `_yr_ac_create_failure_links`: for every non-root state `x` the failure
    link is a state whose path is the longest proper suffix of `x`'s path that is a path of the trie, and the match list
    of every state is null-terminated and visits exactly `specList` of its path: the entries of the atoms that are suffixes
    of the path, longest first, among equal atoms the newest first, the root's (zero-length) last. -/
theorem failure_links_correct (atoms : List (Nat × Atom)) (hbt : ∀ a ∈ atoms, a.2.bytes = [] → a.2.backtrack = 0)
    (x : Nat) (hx : x < (addAtoms atoms).states.size) :
    (0 < x → ((createFailureLinks (addAtoms atoms)).st x).failure < (createFailureLinks (addAtoms atoms)).states.size ∧
      ((createFailureLinks (addAtoms atoms)).st ((createFailureLinks (addAtoms atoms)).st x).failure).path =
        lsuf (pathsOf (createFailureLinks (addAtoms atoms))) ((createFailureLinks (addAtoms atoms)).st x).path.tail) ∧
    ChainSeg (createFailureLinks (addAtoms atoms)).pool ((createFailureLinks (addAtoms atoms)).st x).matchesRef
      (specList atoms ((createFailureLinks (addAtoms atoms)).st x).path) 0 := by
  obtain ⟨s2, h2⟩ := createFailureLinks_I2 (addAtoms_P1 atoms) hbt
  generalize createFailureLinks (addAtoms atoms) = A at s2 h2 ⊢
  have h2' : I2 A atoms (allLk A) (allLk A) := by
    apply h2.congr_lk
    · intro y; unfold allLk; rw [s2.1]
    · intro y; unfold allLk; rw [s2.1]
  have hx' : x < A.states.size := by rw [s2.1]; exact hx
  exact ⟨fun h0 => h2.fail x ⟨h0, hx⟩, (MF_of_I2 h2').chain x hx'⟩

/-- **(b) the optimisation keeps the transition function**: after `_yr_ac_optimize_failure_links` the (possibly
    shortened) failure link of every non-root state `x` leads to a strictly shallower state from which every byte `c`
    that `x` has no transition on reaches the same longest path-suffix as from `x`. -/
theorem optimisation_keeps_delta (atoms : List (Nat × Atom)) (hbt : ∀ a ∈ atoms, a.2.bytes = [] → a.2.backtrack = 0)
    (x : Nat) (h0 : 0 < x) (hx : x < (addAtoms atoms).states.size) :
    let A := optimizeFailureLinks (createFailureLinks (addAtoms atoms))
    (A.st x).failure < A.states.size ∧ (A.st (A.st x).failure).depth < (A.st x).depth ∧
    ∀ c : UInt8, (∀ n ∈ (A.st x).children, (A.st n).input ≠ c) →
      lsuf (pathsOf A) ((A.st (A.st x).failure).path ++ [c]) = lsuf (pathsOf A) ((A.st x).path ++ [c]) := by
  intro A
  obtain ⟨s2, h2⟩ := createFailureLinks_I2 (addAtoms_P1 atoms) hbt
  have h2' : I2 (createFailureLinks (addAtoms atoms)) atoms (allLk (createFailureLinks (addAtoms atoms)))
      (allLk (createFailureLinks (addAtoms atoms))) := by
    apply h2.congr_lk
    · intro y; unfold allLk; rw [s2.1]
    · intro y; unfold allLk; rw [s2.1]
  obtain ⟨s3, h3⟩ := optimizeFailureLinks_I3 (I3_of_I2 h2')
  exact h3.fail x h0 (by rw [s3.1, s2.1]; exact hx)

/-- **(c) the packed lookup**: on the tables produced by `_yr_ac_build_transition_table` (first-fit slots, growth by 257),
    the scanner's lookup loop started in the slot of a state with path `p` and fed byte `c` ends in the slot of the state
    whose path is the longest suffix of `p ++ [c]` that is a path. -/
theorem packed_lookup (atoms : List (Nat × Atom)) (hbt : ∀ a ∈ atoms, a.2.bytes = [] → a.2.backtrack = 0) (T : Tables)
    (hb : build atoms = some T) :
    ∃ (slotOf : Bytes → Nat) (P : List Bytes), slotOf [] = 0 ∧ [] ∈ P ∧ PrefixClosed P ∧ (∀ a ∈ atoms, a.2.bytes ∈ P) ∧
      ∀ p ∈ P, ∀ c : UInt8, delta T (fuelOf T) (slotOf p) (c.toNat + 1) = slotOf (lsuf P (p ++ [c])) := by
  obtain ⟨A, ord, hB⟩ := compile_built hbt
  unfold build at hb
  simp only at hb
  split at hb
  · rename_i hok
    simp only [Option.some.injEq] at hb
    have hT : T = tablesOf (compile (addAtoms atoms)) := hb.symm
    -- slot of the state with a given path
    refine ⟨fun p => match (List.range A.states.size).find? (fun x => (A.st x).path == p) with
      | some x => ((compile (addAtoms atoms)).A.st x).slot | none => 0, pathsOf A, ?_, hB.trie.nil_mem, hB.trie.prefixClosed, ?_, ?_⟩
    · have : (List.range A.states.size).find? (fun x => (A.st x).path == []) = some 0 := by
        cases hf : (List.range A.states.size).find? (fun x => (A.st x).path == []) with
        | none =>
          have := (List.find?_eq_none.mp hf) 0 (List.mem_range.mpr hB.trie.size_pos)
          simp [hB.trie.root_path] at this
        | some y =>
          have h1 := List.find?_some hf
          have h2 := List.mem_range.mp (List.mem_of_find?_eq_some hf)
          have : y = 0 := hB.trie.path_inj y 0 h2 hB.trie.size_pos (by rw [hB.trie.root_path]; simpa using h1)
          rw [this]
      simp only [this]
      exact hB.i4.root_slot
    · intro a ha
      obtain ⟨s, hs, hp⟩ := hB.i3.mf.atoms_in a ha
      exact mem_pathsOf.mpr ⟨s, hs, hp⟩
    · have hfind : ∀ x, x < A.states.size → (List.range A.states.size).find? (fun y => (A.st y).path == (A.st x).path) = some x := by
        intro x hx
        cases hf : (List.range A.states.size).find? (fun y => (A.st y).path == (A.st x).path) with
        | none =>
          have := (List.find?_eq_none.mp hf) x (List.mem_range.mpr hx)
          simp at this
        | some y =>
          have h1 := List.find?_some hf
          have h2 := List.mem_range.mp (List.mem_of_find?_eq_some hf)
          have : y = x := hB.trie.path_inj y x h2 hx (by simpa using h1)
          rw [this]
      intro p hp c
      obtain ⟨x, hx, rfl⟩ := mem_pathsOf.mp hp
      obtain ⟨y, hy1, hy2, hy3⟩ := hB.delta_spec hok c (fuelOf (tablesOf (compile (addAtoms atoms)))) x hx (hB.fuel x hx)
      simp only [hfind x hx, ← hy3, hfind y hy1]
      rw [hT]; exact hy2
  · cases hb

/-- **The certificate facts hold for every built automaton** (what `certOK` checks per rule set in Thm/AcCert.lean, here
    for all atom lists at once): there is a slot ↦ path map for which the root, closure, step, match-list and atom
    conditions of `Cert` hold. -/
theorem build_cert (atoms : List (Nat × Atom)) (hbt : ∀ a ∈ atoms, a.2.bytes = [] → a.2.backtrack = 0) (hlen : atoms.length < 2 ^ 32)
    (T : Tables) (hb : build atoms = some T) : ∃ paths, Cert T atoms paths := by
  obtain ⟨A, ord, hB⟩ := compile_built hbt
  unfold build at hb
  simp only at hb
  split at hb
  · rename_i hok
    simp only [Option.some.injEq] at hb
    exact ⟨slotPaths A (compile (addAtoms atoms)), hb ▸ hB.cert hok hlen⟩
  · cases hb

/-- **Correctness of the construction**: for EVERY list of atoms and EVERY buffer, the scan over the tables
    built by the modelled `yr_ac_add_string`* ; `yr_ac_compile` reports exactly the occurrences of the atoms (zero-length atoms
    included: they end everywhere): a candidate
    `(string idx, offset, backtrack)` is reported iff some atom of that string ends at some position `k` of the buffer
    (and fits), with the offset and backtrack of that atom. -/
theorem build_sound (atoms : List (Nat × Atom)) (hbt : ∀ a ∈ atoms, a.2.bytes = [] → a.2.backtrack = 0) (hlen : atoms.length < 2 ^ 32)
    (T : Tables) (hb : build atoms = some T) (buf : Bytes) (x : Nat × Nat × Nat) :
    x ∈ scan T buf ↔ ∃ k, k ≤ buf.length ∧ x ∈ expectedAt atoms (buf.take k) := by
  obtain ⟨paths, h⟩ := build_cert atoms hbt hlen T hb
  have := scanFrom_mem h buf [] 0 (by simpa [lsuf] using h.root) x
  simpa [scan] using this

/-- **The scan of the built automaton, as a sequence** (order included): exactly `expectedScan atoms buf` — for every position
    `k = 0 … |buf|` in turn (the scanner reports the state's matches before consuming byte `k`, and once more after the last
    byte), the atoms that are suffixes of the first `k` bytes, longest first, among atoms with equal bytes the one inserted
    last first, zero-length atoms last; each as (string idx, k − backtrack, backtrack), dropped iff `backtrack > k`. -/
theorem build_scan_exact (atoms : List (Nat × Atom)) (hbt : ∀ a ∈ atoms, a.2.bytes = [] → a.2.backtrack = 0)
    (hlen : atoms.length < 2 ^ 32) (T : Tables) (hb : build atoms = some T) (buf : Bytes) :
    scan T buf = expectedScan atoms buf := by
  obtain ⟨A, ord, hB⟩ := compile_built hbt
  unfold build at hb
  simp only at hb
  split at hb
  · rename_i hok
    simp only [Option.some.injEq] at hb
    subst hb
    have := hB.scanFrom_eq hok hlen buf [] 0 hB.trie.size_pos (by rw [hB.trie.root_path]; rfl)
    rw [hB.i4.root_slot] at this
    simpa [scan, expectedScan, tablesOf] using this
  · cases hb

/-- **Zero-length atoms are reported everywhere**: a string without an extractable atom (its zero-length atom sits in the
    root state) yields a candidate at EVERY position `0 … |buf|` of every buffer, whatever else is in the automaton. -/
theorem root_matches_everywhere (atoms : List (Nat × Atom)) (hbt : ∀ a ∈ atoms, a.2.bytes = [] → a.2.backtrack = 0)
    (hlen : atoms.length < 2 ^ 32) (T : Tables) (hb : build atoms = some T) (sa : Nat × Atom) (hsa : sa ∈ atoms)
    (hz : sa.2.bytes = []) (buf : Bytes) (k : Nat) (hk : k ≤ buf.length) : (sa.1, k, 0) ∈ scan T buf := by
  apply (build_sound atoms hbt hlen T hb buf _).mpr
  refine ⟨k, hk, ?_⟩
  unfold expectedAt
  simp only [List.mem_filterMap]
  refine ⟨sa, hsa, ?_⟩
  have h0 := hbt sa hsa hz
  simp [hz, h0, Nat.min_eq_left hk]

/-- **The automaton contract of C01/C05 for every compiled rule set** (`CandsOK`, cf. `candsOK_of_cert`): whatever else
    shares the automaton, if the atoms inserted for string `sidx` are (as a set) `atomsOf w m s`, then on EVERY buffer the
    candidates the built automaton reports for that string are exactly the occurrences of its atoms. -/
theorem build_candsOK (atoms : List (Nat × Atom)) (hbt : ∀ a ∈ atoms, a.2.bytes = [] → a.2.backtrack = 0) (hlen : atoms.length < 2 ^ 32)
    (T : Tables) (hb : build atoms = some T) (sidx w : Nat) (m : Mods) (s : Bytes)
    (hat : ∀ a, (sidx, a) ∈ atoms ↔ a ∈ atomsOf w m s) (buf : Bytes) :
    CandsOK w m s buf ((scan T buf).filterMap fun x => if x.1 = sidx then some (x.2.1, x.2.2) else none) :=
  candsOK_of_exact T atoms buf (build_sound atoms hbt hlen T hb buf) sidx w m s hat

/-- **The size assertion cannot fail below 32 638 states**: `build` returns tables whenever the atoms have at most 32 637
    bytes in total (each byte adds at most one state to the root; every popped state makes the tables grow by at most 257
    entries, so every slot stays below `YR_AC_MAX_TRANSITION_TABLE_SIZE - 257`). Discharges the hypothesis
    `build atoms = some T` of the theorems above (and of Thm/C01EndToEnd, Thm/C05EndToEnd) for rule sets of that size. -/
theorem build_some (atoms : List (Nat × Atom)) (h : (atoms.map fun a => a.2.bytes.length).sum ≤ 32637) :
    ∃ T, build atoms = some T := by
  have h1 := addAtoms_size atoms
  have h2 : (addAtoms atoms).states.size ≤ 32638 := by omega
  have h3 : 257 * (addAtoms atoms).states.size ≤ 257 * 32638 := Nat.mul_le_mul_left _ h2
  have hok := compile_ok atoms (by
    have e : 257 * 32638 = 8387966 := by decide
    rw [e] at h3
    exact Nat.lt_of_le_of_lt (Nat.add_le_add_left h3 512) (by decide))
  unfold build
  simp only [hok, if_true]
  exact ⟨_, rfl⟩

/-- non-vacuity: a small rule set with a shared prefix, an atom that is a suffix of another, a duplicate and the bytes
    0x00 / 0xFF builds, and its scan reports the expected candidates in arrival order -/
example : (build [(0, ⟨[0x61, 0x62], 0⟩), (1, ⟨[0x62], 1⟩), (2, ⟨[0x61, 0x00, 0xFF], 2⟩), (3, ⟨[0x62], 0⟩)]).map
    (fun T => scan T [0x7A, 0x61, 0x62, 0x61, 0x00, 0xFF]) =
    some [(0, 1, 2), (3, 2, 1), (1, 1, 2), (2, 1, 5)] := by decide +kernel

/-- non-vacuity with a zero-length atom (string 9): it is reported at every position, after the longer atoms -/
example : (build [(0, ⟨[0x61, 0x62], 0⟩), (9, ⟨[], 0⟩), (1, ⟨[0x62], 1⟩)]).map (fun T => scan T [0x61, 0x62]) =
    some [(9, 0, 0), (9, 1, 0), (0, 0, 2), (1, 0, 2), (9, 2, 0)] := by decide +kernel

example : expectedScan [(0, ⟨[0x61, 0x62], 0⟩), (9, ⟨[], 0⟩), (1, ⟨[0x62], 1⟩)] [0x61, 0x62] =
    [(9, 0, 0), (9, 1, 0), (0, 0, 2), (1, 0, 2), (9, 2, 0)] := by decide +kernel

end YaraModel.AC.Build
