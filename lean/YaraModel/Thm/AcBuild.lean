/-
  Aho-Corasick automaton CONSTRUCTION (libyara/ahocorasick.c, modelled function by function in Model/AcBuild.lean;
  used by C01 and C05, and through the shared automaton by every string property).

  What is proved, for EVERY list of atoms (any bytes, any lengths ≥ 1, any number < 2^32, duplicates allowed, in any
  insertion order) and EVERY buffer: scanning with the tables the model builds — trie insertion, BFS failure links with
  match-list inheritance, failure-link optimisation, first-fit packing with table growth — reports exactly the
  occurrences of the atoms (`build_sound`). No per-rule-set certificate is involved: `build_cert` establishes the
  certificate facts of Thm/AcCert.lean once and for all. The three layers are stated separately:
    (a) `failure_links_correct`   failure link = longest proper suffix that is a path; match list = own entries ++ list of
                                  the failure state;
    (b) `optimisation_keeps_delta` the shortened failure links lead, for every byte the state has no transition on, to
                                  the same longest path-suffix (the transition function δ is unchanged);
    (c) `packed_lookup`           the lookup loop of scanner.c on the packed table (first-fit slots, owner-offset tags)
                                  computes δ: slots never overlap, growth keeps the invariant.
  Hypotheses, all necessary: atoms are non-empty (a zero-length atom puts matches into the root state; the model
  implements that path too and it is compared with the code, but the theorem does not cover it); fewer than 2^32 atoms
  (match-table entries are 32-bit); `build` returns `some` (it returns `none` exactly when the C code's
  `assert(slot + 257 < YR_AC_MAX_TRANSITION_TABLE_SIZE)` fails).
  The model is tied to the code by comparing, token for token, the tables it builds with the tables of the real automaton
  for every generated rule set (vf/acbuild.py).
-/
import YaraModel.Lemmas.AcBuildFinal
import YaraModel.Lemmas.AcBuildCands
namespace YaraModel.AC.Build
open YaraModel.Text YaraModel.AC

/-- **(a) failure links and match lists** after `_yr_ac_create_failure_links`: for every non-root state `x` the failure
    link is a state whose path is the longest proper suffix of `x`'s path that is a path of the trie, and the match list
    of `x` is the entries of the atoms equal to its path (newest first) followed by the match list of that state. -/
theorem failure_links_correct (atoms : List (Nat × Atom)) (hne : ∀ a ∈ atoms, a.2.bytes ≠ [])
    (x : Nat) (h0 : 0 < x) (hx : x < (addAtoms atoms).states.size) :
    let A := createFailureLinks (addAtoms atoms)
    (A.st x).failure < A.states.size ∧
    (A.st (A.st x).failure).path = lsuf (pathsOf A) (A.st x).path.tail ∧
    ChainSeg A.pool (A.st x).matchesRef (ownIdx atoms (A.st x).path) (A.st (A.st x).failure).matchesRef := by
  intro A
  obtain ⟨_, h2⟩ := createFailureLinks_I2 (addAtoms_P1 atoms) hne
  obtain ⟨f1, f2⟩ := h2.fail x ⟨h0, hx⟩
  obtain ⟨f, g1, _, g3, g4⟩ := h2.ms.matched x ⟨h0, hx⟩
  have : f = (A.st x).failure := h2.ms.trie.path_inj _ _ g1 f1 (by rw [g3, f2])
  subst this
  exact ⟨f1, f2, g4⟩

/-- **(b) the optimisation keeps the transition function**: after `_yr_ac_optimize_failure_links` the (possibly
    shortened) failure link of every non-root state `x` leads to a strictly shallower state from which every byte `c`
    that `x` has no transition on reaches the same longest path-suffix as from `x`. -/
theorem optimisation_keeps_delta (atoms : List (Nat × Atom)) (hne : ∀ a ∈ atoms, a.2.bytes ≠ [])
    (x : Nat) (h0 : 0 < x) (hx : x < (addAtoms atoms).states.size) :
    let A := optimizeFailureLinks (createFailureLinks (addAtoms atoms))
    (A.st x).failure < A.states.size ∧ (A.st (A.st x).failure).depth < (A.st x).depth ∧
    ∀ c : UInt8, (∀ n ∈ (A.st x).children, (A.st n).input ≠ c) →
      lsuf (pathsOf A) ((A.st (A.st x).failure).path ++ [c]) = lsuf (pathsOf A) ((A.st x).path ++ [c]) := by
  intro A
  obtain ⟨s2, h2⟩ := createFailureLinks_I2 (addAtoms_P1 atoms) hne
  have h2' : I2 (createFailureLinks (addAtoms atoms)) atoms (allLk (createFailureLinks (addAtoms atoms))) := by
    apply h2.congr_lk
    intro y; unfold allLk; rw [s2.1]
  obtain ⟨s3, h3⟩ := optimizeFailureLinks_I3 (I3_of_I2 h2')
  exact h3.fail x h0 (by rw [s3.1, s2.1]; exact hx)

/-- **(c) the packed lookup**: on the tables produced by `_yr_ac_build_transition_table` (first-fit slots, growth by 257),
    the scanner's lookup loop started in the slot of a state with path `p` and fed byte `c` ends in the slot of the state
    whose path is the longest suffix of `p ++ [c]` that is a path. -/
theorem packed_lookup (atoms : List (Nat × Atom)) (hne : ∀ a ∈ atoms, a.2.bytes ≠ []) (T : Tables)
    (hb : build atoms = some T) :
    ∃ (slotOf : Bytes → Nat) (P : List Bytes), slotOf [] = 0 ∧ [] ∈ P ∧ PrefixClosed P ∧ (∀ a ∈ atoms, a.2.bytes ∈ P) ∧
      ∀ p ∈ P, ∀ c : UInt8, delta T (fuelOf T) (slotOf p) (c.toNat + 1) = slotOf (lsuf P (p ++ [c])) := by
  obtain ⟨A, ord, hB⟩ := compile_built hne
  unfold build at hb
  simp only at hb
  split at hb
  · rename_i hok
    simp only [Option.some.injEq] at hb
    have hT : T = tablesOf (compile (addAtoms atoms)) := hb.symm
    -- slot of the state with a given path
    refine ⟨fun p => match (List.range A.states.size).find? (fun x => (A.st x).path == p) with
      | some x => ((compile (addAtoms atoms)).A.st x).slot | none => 0, pathsOf A, ?_, hB.trie.nil_mem, hB.trie.prefixClosed, ?_, ?_⟩
    · have : (List.range A.states.size).find? (fun x => (A.st x).path == []) = some 0 := by
        cases hf : (List.range A.states.size).find? (fun x => (A.st x).path == []) with
        | none =>
          have := (List.find?_eq_none.mp hf) 0 (List.mem_range.mpr hB.trie.size_pos)
          simp [hB.trie.root_path] at this
        | some y =>
          have h1 := List.find?_some hf
          have h2 := List.mem_range.mp (List.mem_of_find?_eq_some hf)
          have : y = 0 := hB.trie.path_inj y 0 h2 hB.trie.size_pos (by rw [hB.trie.root_path]; simpa using h1)
          rw [this]
      simp only [this]
      exact hB.i4.root_slot
    · intro a ha
      obtain ⟨s, hs, hp⟩ := hB.i3.ms.atoms_in a ha
      exact mem_pathsOf.mpr ⟨s, hs, hp⟩
    · have hfind : ∀ x, x < A.states.size → (List.range A.states.size).find? (fun y => (A.st y).path == (A.st x).path) = some x := by
        intro x hx
        cases hf : (List.range A.states.size).find? (fun y => (A.st y).path == (A.st x).path) with
        | none =>
          have := (List.find?_eq_none.mp hf) x (List.mem_range.mpr hx)
          simp at this
        | some y =>
          have h1 := List.find?_some hf
          have h2 := List.mem_range.mp (List.mem_of_find?_eq_some hf)
          have : y = x := hB.trie.path_inj y x h2 hx (by simpa using h1)
          rw [this]
      intro p hp c
      obtain ⟨x, hx, rfl⟩ := mem_pathsOf.mp hp
      obtain ⟨y, hy1, hy2, hy3⟩ := hB.delta_spec hok c (fuelOf (tablesOf (compile (addAtoms atoms)))) x hx (hB.fuel x hx)
      simp only [hfind x hx, ← hy3, hfind y hy1]
      rw [hT]; exact hy2
  · cases hb

/-- **The certificate facts hold for every built automaton** (what `certOK` checks per rule set in Thm/AcCert.lean, here
    for all atom lists at once): there is a slot ↦ path map for which the root, closure, step, match-list and atom
    conditions of `Cert` hold. -/
theorem build_cert (atoms : List (Nat × Atom)) (hne : ∀ a ∈ atoms, a.2.bytes ≠ []) (hlen : atoms.length < 2 ^ 32)
    (T : Tables) (hb : build atoms = some T) : ∃ paths, Cert T atoms paths := by
  obtain ⟨A, ord, hB⟩ := compile_built hne
  unfold build at hb
  simp only at hb
  split at hb
  · rename_i hok
    simp only [Option.some.injEq] at hb
    exact ⟨slotPaths A (compile (addAtoms atoms)), hb ▸ hB.cert hok hlen⟩
  · cases hb

/-- **Correctness of the construction**: for EVERY list of non-empty atoms and EVERY buffer, the scan over the tables
    built by the modelled `yr_ac_add_string`* ; `yr_ac_compile` reports exactly the occurrences of the atoms: a candidate
    `(string idx, offset, backtrack)` is reported iff some atom of that string ends at some position `k` of the buffer
    (and fits), with the offset and backtrack of that atom. -/
theorem build_sound (atoms : List (Nat × Atom)) (hne : ∀ a ∈ atoms, a.2.bytes ≠ []) (hlen : atoms.length < 2 ^ 32)
    (T : Tables) (hb : build atoms = some T) (buf : Bytes) (x : Nat × Nat × Nat) :
    x ∈ scan T buf ↔ ∃ k, k ≤ buf.length ∧ x ∈ expectedAt atoms (buf.take k) := by
  obtain ⟨paths, h⟩ := build_cert atoms hne hlen T hb
  have := scanFrom_mem h buf [] 0 (by simpa [lsuf] using h.root) x
  simpa [scan] using this

/-- **The automaton contract of C01/C05 for every compiled rule set** (`CandsOK`, cf. `candsOK_of_cert`): whatever else
    shares the automaton, if the atoms inserted for string `sidx` are (as a set) `atomsOf w m s`, then on EVERY buffer the
    candidates the built automaton reports for that string are exactly the occurrences of its atoms. -/
theorem build_candsOK (atoms : List (Nat × Atom)) (hne : ∀ a ∈ atoms, a.2.bytes ≠ []) (hlen : atoms.length < 2 ^ 32)
    (T : Tables) (hb : build atoms = some T) (sidx w : Nat) (m : Mods) (s : Bytes)
    (hat : ∀ a, (sidx, a) ∈ atoms ↔ a ∈ atomsOf w m s) (buf : Bytes) :
    CandsOK w m s buf ((scan T buf).filterMap fun x => if x.1 = sidx then some (x.2.1, x.2.2) else none) :=
  candsOK_of_exact T atoms buf (build_sound atoms hne hlen T hb buf) sidx w m s hat

/-- non-vacuity: a small rule set with a shared prefix, an atom that is a suffix of another, a duplicate and the bytes
    0x00 / 0xFF builds, and its scan reports the expected candidates in arrival order -/
example : (build [(0, ⟨[0x61, 0x62], 0⟩), (1, ⟨[0x62], 1⟩), (2, ⟨[0x61, 0x00, 0xFF], 2⟩), (3, ⟨[0x62], 0⟩)]).map
    (fun T => scan T [0x7A, 0x61, 0x62, 0x61, 0x00, 0xFF]) =
    some [(0, 1, 2), (3, 2, 1), (1, 1, 2), (2, 1, 5)] := by decide +kernel

end YaraModel.AC.Build
