/-
  C12 — Shortcuts never change a verdict: the three string flags derived from a condition
  (definitions in Spec/CondFlags.lean, over the condition language `Expr` / `Env` / `eval` of Spec/Cond.lean).
  Each theorem holds for ALL environments and ALL expressions (structural recursion on `Expr`, nested lists included).
-/
import YaraModel.Lemmas.CondFlagsNeeds
namespace YaraModel.Cond

/-- **fixed_offset_sound** (STRING_FLAGS_FIXED_OFFSET): if every use of string `n` in the condition is `$n at k` with the
    one integer literal `k` (or `$ at k` inside a `for..of` over a set containing it), then discarding all matches of
    string `n` at other offsets changes the value of no expression — in any loop context whose placeholder is not `n`. -/
theorem fixed_offset_sound (env : Env) (n : Nat) (k : Int) (l : LEnv) (e : Expr)
    (hl : l.cur ≠ some n) (h : onlyAt n k e = true) :
    eval (restrictAt env n k) l e = eval env l e :=
  agree (sameBut_restrictAt env n k) e false l (fun hc => absurd hc hl) h

/-- …in particular for a rule's condition (evaluated in the empty loop context): the verdict is unchanged. -/
theorem fixed_offset_verdict (env : Env) (n : Nat) (k : Int) (cond : Expr) (h : onlyAt n k cond = true) :
    ruleVerdict (restrictAt env n k) cond = ruleVerdict env cond := by
  unfold ruleVerdict
  rw [fixed_offset_sound env n k {} cond (by simp) h]

example : onlyAt 0 5 (.and (.foundAt (.id 0) (.int 5)) (.cmp .gt (.count (.id 1)) (.int 0))) = true ∧
    onlyAt 0 5 (.or (.foundAt (.id 0) (.int 5)) (.foundAt (.id 0) (.int 6))) = false ∧
    onlyAt 0 5 (.forOf .any (.int 0) [0, 1] (.foundAt .cur (.int 5))) = true ∧
    (restrictAt ⟨[[(0, 2), (5, 2)], [(1, 1)]], [], 9, [], [], [], default⟩ 0 5).strs = [[(5, 2)], [(1, 1)]] := by decide

/-- **single_match_sound** (STRING_FLAGS_SINGLE_MATCH with fast mode): if string `n` is only tested for presence
    (`$n`, membership in a plain `N of` / `P% of` set, `$` in the body of a `for..of`), then keeping only its first
    match changes the value of no expression — in any loop context whose placeholder is not `n`.
    Not covered (rejected by `onlyFound`): `#n`, `@n`, `!n`, `$n at/in`, and sets of `of … at/in` containing `n`. -/
theorem single_match_sound (env : Env) (n : Nat) (l : LEnv) (e : Expr)
    (hl : l.cur ≠ some n) (h : onlyFound n e = true) :
    eval (firstOnly env n) l e = eval env l e :=
  agree (sameBut_firstOnly env n) e false l (fun hc => absurd hc hl) h

theorem single_match_verdict (env : Env) (n : Nat) (cond : Expr) (h : onlyFound n cond = true) :
    ruleVerdict (firstOnly env n) cond = ruleVerdict env cond := by
  unfold ruleVerdict
  rw [single_match_sound env n {} cond (by simp) h]

example : onlyFound 0 (.and (.found (.id 0)) (.ofStr .all (.int 0) [0, 1])) = true ∧
    onlyFound 0 (.forOf .any (.int 0) [0, 1] (.and (.found .cur) (.cmp .lt (.filesize) (.int 9)))) = true ∧
    onlyFound 0 (.cmp .eq (.count (.id 0)) (.int 2)) = false ∧
    (firstOnly ⟨[[(0, 2), (5, 2)], [(1, 1)]], [], 9, [], [], [], default⟩ 0).strs = [[(0, 2)], [(1, 1)]] := by decide

/-- **needs_match_sound** (`required_strings > 0`, exec.c OP_INIT_RULE skipping the rule): a condition that `needsMatch`
    accepts is false — in every loop context, so in particular as a rule condition — whenever no string of the rule
    has a match.  `needsMatch` mirrors grammar.y's `required_strings.count` (`$a`, `$a at e`, `$a in (..)`, `all/any/N of S
    [in (..)] [at e]` and `P% of S` with positive LITERAL N / P, `and` = sum, `or` = minimum, everything else 0).
    Not covered: quantifiers / percentages that are constant EXPRESSIONS folded by the compiler (`(1+1) of them`). -/
theorem needs_match_sound (env : Env) (e : Expr) (h : needsMatch e = true)
    (h0 : ∀ n, env.strs.getD n [] = []) : asBool (eval env {} e) = false :=
  needsMatch_false env h0 e {} h

theorem needs_match_verdict (env : Env) (cond : Expr) (h : needsMatch cond = true)
    (h0 : ∀ n, env.strs.getD n [] = []) : ruleVerdict env cond = false :=
  needs_match_sound env cond h h0

example : needsMatch (.and (.cmp .lt .filesize (.int 9)) (.or (.found (.id 0)) (.ofStr .num (.int 2) [0, 1]))) = true ∧
    needsMatch (.or (.found (.id 0)) (.cmp .lt .filesize (.int 9))) = false ∧
    needsMatch (.not (.found (.id 0))) = false ∧ needsMatch (.ofStr .none (.int 0) [0]) = false := by decide

example : (∀ n, (⟨[[], []], [], 3, [], [], [], default⟩ : Env).strs.getD n [] = []) := by
  intro n
  match n with
  | 0 => rfl
  | 1 => rfl
  | _ + 2 => rfl

end YaraModel.Cond
