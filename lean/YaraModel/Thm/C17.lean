/-
  C17 — Incomplete or damaged compiled-rule files are rejected, never half-loaded.
  Property theorems only (helpers: Lemmas/ArenaLoad.lean).  `save a` is the image written by
  yr_arena_save_stream for an arena `a`; `(save a).take k` is what is on disk when the writer died
  after k bytes; `load` is yr_arena_load_stream on a stream with exactly that content.
  The statements hold for every arena with at most `maxBuffers` buffers, every allocator `alloc`,
  and EVERY cut point k in the stated region.
-/
import YaraModel.Lemmas.ArenaExample
import YaraModel.Lemmas.ArenaRoundTrip
namespace YaraModel.Arena
open YaraModel.Gen.ArenaLayout

/-- **Cut inside the header**: every prefix shorter than the 6-byte header is rejected as an invalid file. -/
theorem prefix_header (cfg : LoaderCfg) (a : Arena) (alloc : Nat → Nat) (k : Nat) (hk : k < headerSize) :
    load cfg alloc ((save a).take k) = .error .invalidFile := by
  have : ((save a).take k).length < headerSize := by rw [List.length_take]; omega
  rw [load_eq, parseHeader_short this]

/-- **Cut inside the buffer table**: every prefix that ends before the table is complete is
    rejected as a corrupt file. -/
theorem prefix_table (cfg : LoaderCfg) (a : Arena) (alloc : Nat → Nat) (hn : a.bufs.length ≤ maxBuffers) (k : Nat)
    (h1 : headerSize ≤ k) (h2 : k < bodiesStart a) :
    load cfg alloc ((save a).take k) = .error .corruptFile := by
  rw [save_split, take_header_append _ _ h1]
  unfold bodiesStart at h2
  have hshort : (List.take (k - headerSize)
      (table (headerSize + tableEntrySize * a.bufs.length) ((bodies a).map (·.length)) ++
        ((bodies (toRefs a)).flatten ++ relocBytes a.relocs))).length < tableEntrySize * a.bufs.length := by
    rw [List.length_take]; omega
  rw [load_eq, parseHeader_header _ hn]
  simp only
  rw [parseTable_short hshort]

/-- **Cut inside the buffer bodies**: every prefix that ends after the table but before the last
    byte of the last buffer is rejected as a corrupt file (the buffer whose `fread` comes back
    short). Buffers are below 2 GiB so that the loader's own allocation does not fail first. -/
theorem prefix_bodies (cfg : LoaderCfg) (a : Arena) (alloc : Nat → Nat) (hn : a.bufs.length ≤ maxBuffers)
    (hs : ∀ b ∈ a.bufs, b.data.length ≤ 2 ^ 31) (k : Nat)
    (h1 : bodiesStart a ≤ k) (h2 : k < bodiesEnd a) :
    load cfg alloc ((save a).take k) = .error .corruptFile := by
  unfold bodiesEnd at h2
  unfold bodiesStart at h1 h2
  rw [save_split, take_header_append _ _ (by omega)]
  have hlen : ((bodies a).map (·.length)).length = a.bufs.length := by simp [bodies]
  have htl := length_table (headerSize + tableEntrySize * a.bufs.length) ((bodies a).map (·.length))
  rw [hlen] at htl
  -- the table is complete, the cut is in the bodies
  have htake : List.take (k - headerSize)
      (table (headerSize + tableEntrySize * a.bufs.length) ((bodies a).map (·.length)) ++
        ((bodies (toRefs a)).flatten ++ relocBytes a.relocs))
      = table (headerSize + tableEntrySize * a.bufs.length) ((bodies a).map (·.length)) ++
        ((bodies (toRefs a)).flatten ++ relocBytes a.relocs).take (k - headerSize - tableEntrySize * a.bufs.length) := by
    rw [List.take_append, htl, List.take_of_length_le (by rw [htl]; omega)]
  rw [htake]
  have hpt := parseTable_table (headerSize + tableEntrySize * a.bufs.length) ((bodies a).map (·.length))
    (((bodies (toRefs a)).flatten ++ relocBytes a.relocs).take (k - headerSize - tableEntrySize * a.bufs.length))
  rw [hlen] at hpt
  have hmod : ((bodies a).map (·.length)).map (· % 2 ^ 32) = (bodies (toRefs a)).map (·.length) := by
    rw [bodies_toRefs_lengths]
    conv => rhs; rw [← List.map_id ((bodies a).map (·.length))]
    apply List.map_congr_left
    intro u hu
    simp only [bodies, List.mem_map] at hu
    obtain ⟨d, ⟨b, hb, rfl⟩, rfl⟩ := hu
    have := hs b hb
    exact Nat.mod_eq_of_lt (by omega)
  rw [hmod] at hpt
  have hsum : ((bodies (toRefs a)).flatten).length = ((bodies a).map (·.length)).sum := by
    rw [List.length_flatten, bodies_toRefs_lengths]
  have hrb := readBodies_short alloc (bodies (toRefs a))
    (by
      intro d hd
      have : d.length ∈ (bodies (toRefs a)).map (·.length) := List.mem_map.2 ⟨d, hd, rfl⟩
      rw [bodies_toRefs_lengths] at this
      simp only [bodies, List.mem_map] at this
      obtain ⟨d', ⟨b, hb, rfl⟩, he⟩ := this
      rw [← he]; exact hs b hb)
    (relocBytes a.relocs) (k - headerSize - tableEntrySize * a.bufs.length) (by rw [hsum]; omega) 0
  have hoff : offsetsOk
      (table (headerSize + tableEntrySize * a.bufs.length) ((bodies a).map (·.length)) ++
        ((bodies (toRefs a)).flatten ++ relocBytes a.relocs).take (k - headerSize - tableEntrySize * a.bufs.length))
      0 (headerSize + tableEntrySize * a.bufs.length) ((bodies (toRefs a)).map (·.length)) = true := by
    have := offsetsOk_table (headerSize + tableEntrySize * a.bufs.length) ((bodies a).map (·.length))
      (((bodies (toRefs a)).flatten ++ relocBytes a.relocs).take (k - headerSize - tableEntrySize * a.bufs.length))
      0 [] ((bodies a).map (·.length)) rfl rfl
    rw [hmod] at this
    simpa using this
  rw [load_eq, parseHeader_header _ hn]
  simp only
  rw [hpt]
  simp only
  rw [hoff]
  simp only [Bool.not_true, Bool.and_false, Bool.false_eq_true, if_false]
  rw [hrb]

/-- the hypotheses of the three prefix theorems are satisfiable by a non-trivial arena (three buffers, one
    unallocated, two registered pointers), whose image is 80 bytes with the bodies ending at byte 64 -/
example : exArena.bufs.length ≤ maxBuffers ∧ (∀ b ∈ exArena.bufs, b.data.length ≤ 2 ^ 31) ∧
    bodiesStart exArena = 42 ∧ bodiesEnd exArena = 64 ∧ (save exArena).length = 80 := by decide

/-- **A trailing partial relocation entry** is silently dropped by a loader that requests entries as one
    8-byte item (`yr_stream_read(…, 8, 1)` returns 0 for it and the loop ends as if the stream had ended at the
    previous entry boundary), and refused by a loader that notices the leftover bytes. -/
theorem applyRelocs_partial (cfg : LoaderCfg) (a : Arena) (tail : Bytes) (ht : tail.length < 8) (hne : tail ≠ []) :
    applyRelocs cfg a tail = if cfg.rejectsPartial then .error .corruptFile else .ok a := by
  match tail, ht, hne with
  | [], _, h => exact absurd rfl h
  | [_], _, _ => rfl
  | [_, _], _, _ => rfl
  | [_, _, _], _, _ => rfl
  | [_, _, _, _], _, _ => rfl
  | [_, _, _, _, _], _, _ => rfl
  | [_, _, _, _, _, _], _, _ => rfl
  | [_, _, _, _, _, _, _], _, _ => rfl
  | _ :: _ :: _ :: _ :: _ :: _ :: _ :: _ :: _, h, _ => simp at h; omega

/-- **Every cut at a relocation-entry boundary is accepted (known finding F9, general form).**
    For every well-formed arena, every loader configuration (with or without the hardening) and every
    k ≤ number of entries, the image cut after its k-th relocation entry loads successfully; the arena
    returned has only the first k entries registered — the slots of all later entries keep their
    on-disk (buffer, offset) references where the scanner expects pointers. -/
theorem reloc_cut_accepted (cfg : LoaderCfg) {a : Arena} (h : WF a) (hs2 : ∀ b ∈ a.bufs, b.data.length ≤ 2 ^ 31)
    (alloc : Nat → Nat) (hA : RangesOk (loadedBufs alloc 0 (bodies (toRefs a)))) (hnz : ∀ i, alloc i ≠ 0) (k : Nat) :
    ∃ a', load cfg alloc ((save a).take (bodiesEnd a + 8 * k)) = .ok a' ∧ a'.relocs = a.relocs.take k := by
  have ⟨h1, _⟩ := load_save_core cfg h hs2 alloc hA hnz
  refine ⟨loadedWith alloc a (a.relocs.take k), ?_, by simp [loadedWith]⟩
  have himg : (save a).take (bodiesEnd a + 8 * k) = imageWith a (a.relocs.take k) := by
    rw [save_split]
    unfold imageWith bodiesEnd bodiesStart
    have hlen : ((bodies a).map (·.length)).length = a.bufs.length := by simp [bodies]
    have htl := length_table (headerSize + tableEntrySize * a.bufs.length) ((bodies a).map (·.length))
    rw [hlen] at htl
    have hfl : ((bodies (toRefs a)).flatten).length = ((bodies a).map (·.length)).sum := by
      rw [List.length_flatten, bodies_toRefs_lengths]
    rw [take_header_append _ _ (by omega)]
    congr 1
    rw [List.take_append, htl, List.take_of_length_le (by rw [htl]; omega)]
    congr 1
    rw [List.take_append, hfl, List.take_of_length_le (by rw [hfl]; omega)]
    congr 1
    rw [← take_relocBytes]
    congr 1
    omega
  rw [himg]
  exact h1 _ (List.Pairwise.sublist (List.take_sublist k a.relocs) h.slots.1) (fun r hr => List.mem_of_mem_take hr)

/-- what the loader returns for the example image cut after its first relocation entry (byte 72 of 80) -/
def exLoaded : Arena :=
  { bufs := [{ data := [2, 0, 32, 0, 0, 0, 0, 0, 1, 2, 255, 255, 255, 255, 255, 255, 255, 255], cap := 10485, base := 1048576, dirty := true },
             { data := [7, 7, 7, 7], cap := 10485, base := 2097152, dirty := true }, {}],
    relocs := [⟨0, 0⟩], init := 10485 }

/-- **Negation witness for cuts inside the relocation section (known finding F9).**
    The format has no entry count and no terminator: the relocation loop reads entries until the
    stream ends.  There is a well-formed arena and a proper prefix of its image, cut after the
    buffer bodies, that the loader ACCEPTS; in the returned arena a slot the writer had registered is
    not registered and still holds the on-disk reference (here ff…ff), not a pointer.  So
    "every proper prefix is rejected" is false for cut points ≥ `bodiesEnd`; it is proved above for
    all cut points < `bodiesEnd`.  The witness is cut at an entry boundary and is evaluated with the
    loader configuration read from the source tree (it stands with and without the hardening of
    notes/C17-loader-validation.diff). -/
theorem reloc_cut_accepted_witness :
    ∃ (a : Arena) (k : Nat), WF a ∧ bodiesEnd a ≤ k ∧ k < (save a).length ∧
      ∃ a', load loaderCfg exAlloc ((save a).take k) = .ok a' ∧
        ∃ r ∈ a.relocs, r ∉ a'.relocs ∧ ¬ ValidPtr a'.bufs (getSlot a' r) :=
  ⟨exArena, 72, exArena_wf, by decide, by decide, exLoaded, by rfl, ⟨0, 10⟩, by decide, by decide, by decide⟩

end YaraModel.Arena
