/-
  C17 — Incomplete or damaged compiled-rule files are rejected, never half-loaded.
  Property theorems only (helpers: Lemmas/ArenaLoad.lean).  `save a` is the image written by
  yr_arena_save_stream for an arena `a`; `(save a).take k` is what is on disk when the writer died
  after k bytes; `load` is yr_arena_load_stream on a stream with exactly that content.
  The statements hold for every arena with at most `maxBuffers` buffers, every allocator `alloc`,
  and EVERY cut point k in the stated region.

  Second half (single-field corruptions): `patch img off bs` overwrites a field; the new value is ANY value of the
  field's type other than the one stored.  `Hardened cfg` = the loader with every test of the current source tree
  (`hardened_loaderCfg`: that is the configuration the translator reads from arena.c).  Magic, version, num_buffers,
  every offset and every size but the last entry's are always refused (`corrupt_*`, with the error code); for the last
  entry's size `size_change_accepted_iff` says exactly when the file is accepted (known finding F51).
-/
import YaraModel.Lemmas.ArenaExample
import YaraModel.Lemmas.ArenaRoundTrip
import YaraModel.Lemmas.ArenaLoadRules
import YaraModel.Lemmas.ArenaPrefix
import YaraModel.Lemmas.RulesFile
import YaraModel.Gen.RulesFile
namespace YaraModel.Arena
open YaraModel.Gen.ArenaLayout

/-- **Cut inside the header**: every prefix shorter than the 6-byte header is rejected as an invalid file. -/
theorem prefix_header (cfg : LoaderCfg) (a : Arena) (alloc : Nat → Nat) (k : Nat) (hk : k < headerSize) :
    load cfg alloc ((save a).take k) = .error .invalidFile := by
  have : ((save a).take k).length < headerSize := by rw [List.length_take]; omega
  rw [load_eq, parseHeader_short this]

/-- **Cut inside the buffer table**: every prefix that ends before the table is complete is
    rejected as a corrupt file. -/
theorem prefix_table (cfg : LoaderCfg) (a : Arena) (alloc : Nat → Nat) (hn : a.bufs.length ≤ maxBuffers) (k : Nat)
    (h1 : headerSize ≤ k) (h2 : k < bodiesStart a) :
    load cfg alloc ((save a).take k) = .error .corruptFile := by
  rw [save_split, take_header_append _ _ h1]
  unfold bodiesStart at h2
  have hshort : (List.take (k - headerSize)
      (table (headerSize + tableEntrySize * a.bufs.length) ((bodies a).map (·.length)) ++
        ((bodies (toRefs a)).flatten ++ relocBytes a.relocs))).length < tableEntrySize * a.bufs.length := by
    rw [List.length_take]; omega
  rw [load_eq, parseHeader_header _ hn]
  simp only
  rw [parseTable_short hshort]

/-- **Cut inside the buffer bodies**: every prefix that ends after the table but before the last
    byte of the last buffer is rejected as a corrupt file (the buffer whose `fread` comes back
    short). Buffers are below 2 GiB so that the loader's own allocation does not fail first. -/
theorem prefix_bodies (cfg : LoaderCfg) (a : Arena) (alloc : Nat → Nat) (hn : a.bufs.length ≤ maxBuffers)
    (hs : ∀ b ∈ a.bufs, b.data.length ≤ 2 ^ 31) (k : Nat)
    (h1 : bodiesStart a ≤ k) (h2 : k < bodiesEnd a) :
    load cfg alloc ((save a).take k) = .error .corruptFile := by
  unfold bodiesEnd at h2
  unfold bodiesStart at h1 h2
  rw [save_split, take_header_append _ _ (by omega)]
  have hlen : ((bodies a).map (·.length)).length = a.bufs.length := by simp [bodies]
  have htl := length_table (headerSize + tableEntrySize * a.bufs.length) ((bodies a).map (·.length))
  rw [hlen] at htl
  -- the table is complete, the cut is in the bodies
  have htake : List.take (k - headerSize)
      (table (headerSize + tableEntrySize * a.bufs.length) ((bodies a).map (·.length)) ++
        ((bodies (toRefs a)).flatten ++ relocBytes a.relocs))
      = table (headerSize + tableEntrySize * a.bufs.length) ((bodies a).map (·.length)) ++
        ((bodies (toRefs a)).flatten ++ relocBytes a.relocs).take (k - headerSize - tableEntrySize * a.bufs.length) := by
    rw [List.take_append, htl, List.take_of_length_le (by rw [htl]; omega)]
  rw [htake]
  have hpt := parseTable_table (headerSize + tableEntrySize * a.bufs.length) ((bodies a).map (·.length))
    (((bodies (toRefs a)).flatten ++ relocBytes a.relocs).take (k - headerSize - tableEntrySize * a.bufs.length))
  rw [hlen] at hpt
  have hmod : ((bodies a).map (·.length)).map (· % 2 ^ 32) = (bodies (toRefs a)).map (·.length) := by
    rw [bodies_toRefs_lengths]
    conv => rhs; rw [← List.map_id ((bodies a).map (·.length))]
    apply List.map_congr_left
    intro u hu
    simp only [bodies, List.mem_map] at hu
    obtain ⟨d, ⟨b, hb, rfl⟩, rfl⟩ := hu
    have := hs b hb
    exact Nat.mod_eq_of_lt (by omega)
  rw [hmod] at hpt
  have hsum : ((bodies (toRefs a)).flatten).length = ((bodies a).map (·.length)).sum := by
    rw [List.length_flatten, bodies_toRefs_lengths]
  have hrb := readBodies_short alloc (bodies (toRefs a))
    (by
      intro d hd
      have : d.length ∈ (bodies (toRefs a)).map (·.length) := List.mem_map.2 ⟨d, hd, rfl⟩
      rw [bodies_toRefs_lengths] at this
      simp only [bodies, List.mem_map] at this
      obtain ⟨d', ⟨b, hb, rfl⟩, he⟩ := this
      rw [← he]; exact hs b hb)
    (relocBytes a.relocs) (k - headerSize - tableEntrySize * a.bufs.length) (by rw [hsum]; omega) 0
  have hoff : offsetsOk
      (table (headerSize + tableEntrySize * a.bufs.length) ((bodies a).map (·.length)) ++
        ((bodies (toRefs a)).flatten ++ relocBytes a.relocs).take (k - headerSize - tableEntrySize * a.bufs.length))
      0 (headerSize + tableEntrySize * a.bufs.length) ((bodies (toRefs a)).map (·.length)) = true := by
    have := offsetsOk_table (headerSize + tableEntrySize * a.bufs.length) ((bodies a).map (·.length))
      (((bodies (toRefs a)).flatten ++ relocBytes a.relocs).take (k - headerSize - tableEntrySize * a.bufs.length))
      0 [] ((bodies a).map (·.length)) rfl rfl
    rw [hmod] at this
    simpa using this
  rw [load_eq, parseHeader_header _ hn]
  simp only
  rw [hpt]
  simp only
  rw [hoff]
  simp only [Bool.not_true, Bool.and_false, Bool.false_eq_true, if_false]
  rw [hrb]

/-- the hypotheses of the three prefix theorems are satisfiable by a non-trivial arena (three buffers, one
    unallocated, two registered pointers), whose image is 80 bytes with the bodies ending at byte 64 -/
example : exArena.bufs.length ≤ maxBuffers ∧ (∀ b ∈ exArena.bufs, b.data.length ≤ 2 ^ 31) ∧
    bodiesStart exArena = 42 ∧ bodiesEnd exArena = 64 ∧ (save exArena).length = 80 := by decide

/-- **A trailing partial relocation entry** is silently dropped by a loader that requests entries as one
    8-byte item (`yr_stream_read(…, 8, 1)` returns 0 for it and the loop ends as if the stream had ended at the
    previous entry boundary), and refused by a loader that notices the leftover bytes. -/
theorem applyRelocs_partial (cfg : LoaderCfg) (a : Arena) (tail : Bytes) (ht : tail.length < 8) (hne : tail ≠ []) :
    applyRelocs cfg a tail = if cfg.rejectsPartial then .error .corruptFile else .ok a := by
  match tail, ht, hne with
  | [], _, h => exact absurd rfl h
  | [_], _, _ => rfl
  | [_, _], _, _ => rfl
  | [_, _, _], _, _ => rfl
  | [_, _, _, _], _, _ => rfl
  | [_, _, _, _, _], _, _ => rfl
  | [_, _, _, _, _, _], _, _ => rfl
  | [_, _, _, _, _, _, _], _, _ => rfl
  | _ :: _ :: _ :: _ :: _ :: _ :: _ :: _ :: _, h, _ => simp at h; omega

/-- **Every cut at a relocation-entry boundary is accepted (known finding F9, general form).**
    For every well-formed arena, every loader configuration (with or without the hardening) and every
    k ≤ number of entries, the image cut after its k-th relocation entry loads successfully; the arena
    returned has only the first k entries registered — the slots of all later entries keep their
    on-disk (buffer, offset) references where the scanner expects pointers. -/
theorem reloc_cut_accepted (cfg : LoaderCfg) {a : Arena} (h : WF a) (hs2 : ∀ b ∈ a.bufs, b.data.length ≤ 2 ^ 31)
    (alloc : Nat → Nat) (hA : RangesOk (loadedBufs alloc 0 (bodies (toRefs a)))) (hnz : ∀ i, alloc i ≠ 0) (k : Nat) :
    ∃ a', load cfg alloc ((save a).take (bodiesEnd a + 8 * k)) = .ok a' ∧ a'.relocs = a.relocs.take k := by
  have ⟨h1, _⟩ := load_save_core cfg h hs2 alloc hA hnz
  refine ⟨loadedWith alloc a (a.relocs.take k), ?_, by simp [loadedWith]⟩
  have himg : (save a).take (bodiesEnd a + 8 * k) = imageWith a (a.relocs.take k) := by
    rw [save_split]
    unfold imageWith bodiesEnd bodiesStart
    have hlen : ((bodies a).map (·.length)).length = a.bufs.length := by simp [bodies]
    have htl := length_table (headerSize + tableEntrySize * a.bufs.length) ((bodies a).map (·.length))
    rw [hlen] at htl
    have hfl : ((bodies (toRefs a)).flatten).length = ((bodies a).map (·.length)).sum := by
      rw [List.length_flatten, bodies_toRefs_lengths]
    rw [take_header_append _ _ (by omega)]
    congr 1
    rw [List.take_append, htl, List.take_of_length_le (by rw [htl]; omega)]
    congr 1
    rw [List.take_append, hfl, List.take_of_length_le (by rw [hfl]; omega)]
    congr 1
    rw [← take_relocBytes]
    congr 1
    omega
  rw [himg]
  exact h1 _ (List.Pairwise.sublist (List.take_sublist k a.relocs) h.slots.1) (fun r hr => List.mem_of_mem_take hr)

/-- what the loader returns for the example image cut after its first relocation entry (byte 72 of 80) -/
def exLoaded : Arena :=
  { bufs := [{ data := [2, 0, 32, 0, 0, 0, 0, 0, 1, 2, 255, 255, 255, 255, 255, 255, 255, 255], cap := 10485, base := 1048576, dirty := true },
             { data := [7, 7, 7, 7], cap := 10485, base := 2097152, dirty := true }, {}],
    relocs := [⟨0, 0⟩], init := 10485 }

/-- **Negation witness for cuts inside the relocation section (known finding F9).**
    The format has no entry count and no terminator: the relocation loop reads entries until the
    stream ends.  There is a well-formed arena and a proper prefix of its image, cut after the
    buffer bodies, that the loader ACCEPTS; in the returned arena a slot the writer had registered is
    not registered and still holds the on-disk reference (here ff…ff), not a pointer.  So
    "every proper prefix is rejected" is false for cut points ≥ `bodiesEnd`; it is proved above for
    all cut points < `bodiesEnd`.  The witness is cut at an entry boundary and is evaluated with the
    loader configuration read from the source tree (it stands with and without the hardening of
    notes/C17-loader-validation.diff). -/
theorem reloc_cut_accepted_witness :
    ∃ (a : Arena) (k : Nat), WF a ∧ bodiesEnd a ≤ k ∧ k < (save a).length ∧
      ∃ a', load loaderCfg exAlloc ((save a).take k) = .ok a' ∧
        ∃ r ∈ a.relocs, r ∉ a'.relocs ∧ ¬ ValidPtr a'.bufs (getSlot a' r) :=
  ⟨exArena, 72, exArena_wf, by decide, by decide, exLoaded, by rfl, ⟨0, 10⟩, by decide, by decide, by decide⟩

/-! ## single-field corruptions of the header and of the buffer table -/

/-- the loader of the source tree performs every validation the corruption theorems ask for (if an edit of arena.c
    drops one — the offset cross-check, the guarded bounds test, the reference-target test, its `>=`, the refusal of a
    trailing partial entry — the translator regenerates the constant and this stops being provable) -/
theorem hardened_loaderCfg : Hardened loaderCfg := ⟨rfl, rfl, rfl, rfl, rfl⟩

/-- **Magic.** Any of the four magic bytes replaced by any other byte: ERROR_INVALID_FILE. Every loader configuration. -/
theorem corrupt_magic (cfg : LoaderCfg) (alloc : Nat → Nat) (a : Arena) (i : Nat) (hi : i < 4) (v : UInt8)
    (hv : v ≠ (save a).getD i 0) : load cfg alloc (patch (save a) i [v]) = .error .invalidFile :=
  save_patch_magic cfg alloc a i hi v hv

/-- **Version.** The version byte replaced by any other byte (older or newer): ERROR_UNSUPPORTED_FILE_VERSION. -/
theorem corrupt_version (cfg : LoaderCfg) (alloc : Nat → Nat) (a : Arena) (v : UInt8)
    (hv : v ≠ (save a).getD hdrVersionOff 0) :
    load cfg alloc (patch (save a) hdrVersionOff [v]) = .error .unsupportedFileVersion :=
  save_patch_version cfg alloc a v hv

/-- **num_buffers.** The buffer count replaced by any other byte: ERROR_INVALID_FILE above `maxBuffers`, otherwise
    ERROR_CORRUPT_FILE (a larger count: the table read comes back short or the first offset no longer equals the table's
    end; a smaller non-zero count: the first offset again; zero: the table is taken for relocation entries into an arena
    without buffers).  Needs the offset cross-check. -/
theorem corrupt_num_buffers (cfg : LoaderCfg) (hoffs : cfg.checksOffsets = true) (alloc : Nat → Nat) {a : Arena} (h : WF a) (v : UInt8)
    (hv : v ≠ (save a).getD hdrNumBuffersOff 0) :
    load cfg alloc (patch (save a) hdrNumBuffersOff [v]) = .error (if v.toNat > maxBuffers then .invalidFile else .corruptFile) :=
  save_patch_numbufs cfg hoffs alloc h v hv

/-- **Offset.** The 64-bit offset of any table entry replaced by any other 64-bit value: ERROR_CORRUPT_FILE. -/
theorem corrupt_offset (cfg : LoaderCfg) (hoffs : cfg.checksOffsets = true) (alloc : Nat → Nat) (a : Arena)
    (hn : a.bufs.length ≤ maxBuffers) (i : Nat) (hi : i < a.bufs.length) (v : Nat) (hv : v < 2 ^ 64)
    (hne : v ≠ rdLE tblOffsetSize (save a) (offsetFieldAt i)) :
    load cfg alloc (patch (save a) (offsetFieldAt i) (leBytes 8 v)) = .error .corruptFile :=
  save_patch_offset cfg hoffs alloc a hn i hi v hv hne

/-- **Size, not the last entry.** The 32-bit size of any table entry but the last replaced by any other 32-bit value:
    ERROR_CORRUPT_FILE (the next entry's offset is no longer the running sum). -/
theorem corrupt_size_not_last (cfg : LoaderCfg) (hoffs : cfg.checksOffsets = true) (alloc : Nat → Nat) (a : Arena)
    (hn : a.bufs.length ≤ maxBuffers) (i : Nat) (hi : i + 1 < a.bufs.length) (z : Nat) (hz : z < 2 ^ 32)
    (hne : z ≠ rdLE tblSizeSize (save a) (sizeFieldAt i)) :
    load cfg alloc (patch (save a) (sizeFieldAt i) (leBytes 4 z)) = .error .corruptFile :=
  save_patch_size_inner cfg hoffs alloc a hn i hi z hz hne

/-- **Size of the last entry, raised.** With `len` the last buffer's size and `z > len` the new value: the file is
    accepted if and only if `z − len` is a multiple of 8, at most 8 × (number of relocation entries), and the loader's own
    allocation of `z` bytes succeeds (`CapOk`: z ≤ 10485·2^18); then the last buffer has swallowed the first
    `(z − len)/8` entries and only the others are applied — the slots of the swallowed entries keep their on-disk
    references (same damage as F9).  Otherwise ERROR_CORRUPT_FILE (ERROR_INSUFFICIENT_MEMORY if the allocation fails). -/
theorem corrupt_size_last_raised (cfg : LoaderCfg) (hh : Hardened cfg) (alloc : Nat → Nat) (hnz : ∀ i, alloc i ≠ 0) {a : Arena} (h : WF a)
    (hs2 : ∀ b ∈ a.bufs, b.data.length ≤ 2 ^ 31) (m : Nat) (hm : a.bufs.length = m + 1) (z : Nat) (hz : z < 2 ^ 32)
    (hgt : (a.bufAt m).data.length < z) :
    ((∃ A, load cfg alloc (patch (save a) (sizeFieldAt m) (leBytes 4 z)) = .ok A) ↔
      ((z - (a.bufAt m).data.length) % 8 = 0 ∧ z - (a.bufAt m).data.length ≤ 8 * a.relocs.length ∧ CapOk z)) ∧
    (((z - (a.bufAt m).data.length) % 8 = 0 ∧ z - (a.bufAt m).data.length ≤ 8 * a.relocs.length ∧ CapOk z) →
      ∃ A, load cfg alloc (patch (save a) (sizeFieldAt m) (leBytes 4 z)) = .ok A ∧
        A.relocs = a.relocs.drop ((z - (a.bufAt m).data.length) / 8)) ∧
    (¬ ((z - (a.bufAt m).data.length) % 8 = 0 ∧ z - (a.bufAt m).data.length ≤ 8 * a.relocs.length ∧ CapOk z) →
      load cfg alloc (patch (save a) (sizeFieldAt m) (leBytes 4 z)) =
        .error (if CapOk z then .corruptFile else .insufficientMemory)) :=
  save_patch_size_raised cfg hh alloc hnz h hs2 m hm z hz hgt

/-- **Size of the last entry, lowered** to `z < len`: header, table and the other bodies are read as before, the last
    buffer keeps its first `z` bytes, and its remaining `len − z` bytes are fed to the relocation loop ahead of the real
    entries.  So the verdict is the loop's verdict on those bytes (it depends on the buffer's contents) … -/
theorem corrupt_size_last_lowered (cfg : LoaderCfg) (alloc : Nat → Nat) {a : Arena} (hn : a.bufs.length ≤ maxBuffers)
    (hs2 : ∀ b ∈ a.bufs, b.data.length ≤ 2 ^ 31) (m : Nat) (hm : a.bufs.length = m + 1) (z : Nat)
    (hlt : z < (a.bufAt m).data.length) :
    load cfg alloc (patch (save a) (sizeFieldAt m) (leBytes 4 z)) =
      applyRelocs cfg { bufs := loadedBufs alloc 0 ((bodies (toRefs a)).take m ++ [((bodies (toRefs a)).getD m []).take z]),
                        relocs := [], init := loadInitialSize }
        (((bodies (toRefs a)).getD m []).drop z ++ relocBytes a.relocs) :=
  save_patch_size_lowered cfg alloc hn hs2 m hm z hlt

/-- … and it is ERROR_CORRUPT_FILE unless a whole number of 8-byte entries was cut off. -/
theorem corrupt_size_last_lowered_dvd (cfg : LoaderCfg) (hh : Hardened cfg) (alloc : Nat → Nat) {a : Arena} (hn : a.bufs.length ≤ maxBuffers)
    (hs2 : ∀ b ∈ a.bufs, b.data.length ≤ 2 ^ 31) (m : Nat) (hm : a.bufs.length = m + 1) (z : Nat)
    (hlt : z < (a.bufAt m).data.length) :
    (∃ A', load cfg alloc (patch (save a) (sizeFieldAt m) (leBytes 4 z)) = .ok A' ∧ ((a.bufAt m).data.length - z) % 8 = 0) ∨
      load cfg alloc (patch (save a) (sizeFieldAt m) (leBytes 4 z)) = .error .corruptFile :=
  save_patch_size_lowered_dvd cfg hh alloc hn hs2 m hm z hlt

/-- **Every size change, every value: exactly when the loader accepts** (the precise extent of known finding F51).
    For a well-formed arena (buffers ≤ 2 GiB), the fully checked loader, any entry `i` and any 32-bit value `z` other than
    the stored size: the corrupted file is accepted iff `i` is the LAST entry and either
    (raised) `z − len` is a positive multiple of 8 not exceeding 8 × #relocation-entries and `z` bytes can be allocated, or
    (lowered) `len − z` is a multiple of 8 and the bytes cut off the last buffer, read as relocation entries and followed
    by the real ones, all pass the loader's tests against the shortened buffer. -/
theorem size_change_accepted_iff (cfg : LoaderCfg) (hh : Hardened cfg) (alloc : Nat → Nat) (hnz : ∀ i, alloc i ≠ 0) {a : Arena} (h : WF a)
    (hs2 : ∀ b ∈ a.bufs, b.data.length ≤ 2 ^ 31) (i : Nat) (hi : i < a.bufs.length) (z : Nat) (hz : z < 2 ^ 32)
    (hne : z ≠ rdLE tblSizeSize (save a) (sizeFieldAt i)) :
    (∃ A, load cfg alloc (patch (save a) (sizeFieldAt i) (leBytes 4 z)) = .ok A) ↔
      i + 1 = a.bufs.length ∧
        (((a.bufAt i).data.length < z ∧ (z - (a.bufAt i).data.length) % 8 = 0 ∧
            z - (a.bufAt i).data.length ≤ 8 * a.relocs.length ∧ CapOk z) ∨
         (z < (a.bufAt i).data.length ∧ ((a.bufAt i).data.length - z) % 8 = 0 ∧
            ∃ A, applyRelocs cfg { bufs := loadedBufs alloc 0 ((bodies (toRefs a)).take i ++ [((bodies (toRefs a)).getD i []).take z]),
                                   relocs := [], init := loadInitialSize }
                  (((bodies (toRefs a)).getD i []).drop z ++ relocBytes a.relocs) = .ok A)) := by
  have hlen31 := hs2 _ (mem_iff_getD.2 ⟨i, hi, rfl⟩)
  have hlen31' : (a.bufAt i).data.length ≤ 2 ^ 31 := hlen31
  rw [save_size_field a i hi, Nat.mod_eq_of_lt (by omega)] at hne
  by_cases hlast : i + 1 = a.bufs.length
  · have hm : a.bufs.length = i + 1 := hlast.symm
    rcases Nat.lt_or_gt_of_ne hne with hlt | hgt
    · -- lowered
      rw [corrupt_size_last_lowered cfg alloc h.count hs2 i hm z hlt]
      constructor
      · intro hok
        refine ⟨hlast, Or.inr ⟨hlt, ?_, hok⟩⟩
        rcases corrupt_size_last_lowered_dvd cfg hh alloc h.count hs2 i hm z hlt with ⟨_, _, h8⟩ | herr
        · exact h8
        · rw [corrupt_size_last_lowered cfg alloc h.count hs2 i hm z hlt] at herr
          obtain ⟨A, hA⟩ := hok
          rw [hA] at herr; cases herr
      · rintro ⟨_, ⟨hc, _⟩ | ⟨_, _, hok⟩⟩
        · omega
        · exact hok
    · -- raised
      have ⟨hiff, _, _⟩ := corrupt_size_last_raised cfg hh alloc hnz h hs2 i hm z hz hgt
      rw [hiff]
      constructor
      · intro hc; exact ⟨hlast, Or.inl ⟨hgt, hc⟩⟩
      · rintro ⟨_, ⟨_, hc⟩ | ⟨hc, _⟩⟩
        · exact hc
        · omega
  · have hi' : i + 1 < a.bufs.length := by omega
    have hs : z ≠ rdLE tblSizeSize (save a) (sizeFieldAt i) := by
      rw [save_size_field a i hi, Nat.mod_eq_of_lt (by omega)]; exact hne
    rw [corrupt_size_not_last cfg hh.offs alloc a h.count i hi' z hz hs]
    constructor
    · rintro ⟨A, hA⟩; cases hA
    · rintro ⟨hc, _⟩; exact absurd hc hlast

/-- **Witness, raised size (F51).** The example arena (last buffer empty, two relocation entries): the last size raised
    from 0 to 8 is accepted by the loader of the source tree; the first registered slot is no longer registered and holds
    its on-disk reference instead of a pointer. -/
theorem size_raised_accepted_witness :
    ∃ (a : Arena) (z : Nat), WF a ∧ z ≠ rdLE tblSizeSize (save a) (sizeFieldAt (a.bufs.length - 1)) ∧
      ∃ A', load loaderCfg exAlloc (patch (save a) (sizeFieldAt (a.bufs.length - 1)) (leBytes 4 z)) = .ok A' ∧
        ∃ r ∈ a.relocs, r ∉ A'.relocs ∧ ¬ ValidPtr A'.bufs (getSlot A' r) := by
  have c : (match load loaderCfg exAlloc (patch (save exArena) (sizeFieldAt 2) (leBytes 4 8)) with
      | .ok A' => decide ((⟨0, 0⟩ : Ref) ∉ A'.relocs ∧ ¬ ValidPtr A'.bufs (getSlot A' ⟨0, 0⟩))
      | .error _ => false) = true := by decide +kernel
  cases hl : load loaderCfg exAlloc (patch (save exArena) (sizeFieldAt 2) (leBytes 4 8)) with
  | error e => rw [hl] at c; cases c
  | ok A' =>
    rw [hl] at c
    simp only [decide_eq_true_eq] at c
    exact ⟨exArena, 8, exArena_wf, by decide +kernel, A', hl, ⟨0, 0⟩, by decide, c.1, c.2⟩

/-- **Witness, lowered size.** `exArena2`: the last buffer's size lowered from 12 to 4; its last 8 bytes read as the entry
    (buffer 0, offset 0), which passes; the real entry for the same slot then finds the pointer just written, takes it for
    the reference (0, 0) and passes too: accepted, with the slot registered twice and a NULL pointer turned into a
    non-NULL one. -/
theorem size_lowered_accepted_witness :
    ∃ A', load loaderCfg exAlloc (patch (save exArena2) (sizeFieldAt 1) (leBytes 4 4)) = .ok A' ∧
      WF exArena2 ∧ getSlot exArena2 ⟨0, 0⟩ = 0 ∧ getSlot A' ⟨0, 0⟩ ≠ 0 ∧ A'.relocs = [⟨0, 0⟩, ⟨0, 0⟩] := by
  have c : (match load loaderCfg exAlloc (patch (save exArena2) (sizeFieldAt 1) (leBytes 4 4)) with
      | .ok A' => decide (getSlot A' ⟨0, 0⟩ ≠ 0 ∧ A'.relocs = [⟨0, 0⟩, ⟨0, 0⟩])
      | .error _ => false) = true := by decide +kernel
  cases hl : load loaderCfg exAlloc (patch (save exArena2) (sizeFieldAt 1) (leBytes 4 4)) with
  | error e => rw [hl] at c; cases c
  | ok A' =>
    rw [hl] at c
    simp only [decide_eq_true_eq] at c
    exact ⟨A', rfl, exArena2_wf, by decide, c.1, c.2⟩

/-- … while the same size lowered from 12 to 8 (4 bytes cut) or to 0 (12 bytes cut) is refused: not a whole number of
    entries (instances of `corrupt_size_last_lowered_dvd`) -/
example : load loaderCfg exAlloc (patch (save exArena2) (sizeFieldAt 1) (leBytes 4 8)) = .error .corruptFile ∧
    load loaderCfg exAlloc (patch (save exArena2) (sizeFieldAt 1) (leBytes 4 0)) = .error .corruptFile := by
  constructor
  · rcases corrupt_size_last_lowered_dvd loaderCfg hardened_loaderCfg exAlloc (a := exArena2) (by decide) (by decide) 1 rfl 8
      (by decide) with ⟨_, _, h8⟩ | h
    · exact absurd h8 (by decide)
    · exact h
  · rcases corrupt_size_last_lowered_dvd loaderCfg hardened_loaderCfg exAlloc (a := exArena2) (by decide) (by decide) 1 rfl 0
      (by decide) with ⟨_, _, h8⟩ | h
    · exact absurd h8 (by decide)
    · exact h

/-- the hypotheses of the corruption theorems are satisfiable, and the refusals are what the theorems say, on the example
    arena: a magic byte, the version, the buffer count (to 2, to 0 and to 200), the offset of entry 1, the size of entry 0 -/
example : load loaderCfg exAlloc (patch (save exArena) 3 [0x42]) = .error .invalidFile ∧
    load loaderCfg exAlloc (patch (save exArena) hdrVersionOff [20]) = .error .unsupportedFileVersion ∧
    load loaderCfg exAlloc (patch (save exArena) hdrNumBuffersOff [2]) = .error .corruptFile ∧
    load loaderCfg exAlloc (patch (save exArena) hdrNumBuffersOff [0]) = .error .corruptFile ∧
    load loaderCfg exAlloc (patch (save exArena) hdrNumBuffersOff [200]) = .error .invalidFile ∧
    load loaderCfg exAlloc (patch (save exArena) (offsetFieldAt 1) (leBytes 8 61)) = .error .corruptFile ∧
    load loaderCfg exAlloc (patch (save exArena) (sizeFieldAt 0) (leBytes 4 26)) = .error .corruptFile :=
  ⟨corrupt_magic _ _ _ 3 (by decide) _ (by decide +kernel), corrupt_version _ _ _ _ (by decide +kernel),
   corrupt_num_buffers _ rfl _ exArena_wf 2 (by decide +kernel), corrupt_num_buffers _ rfl _ exArena_wf 0 (by decide +kernel),
   corrupt_num_buffers _ rfl _ exArena_wf 200 (by decide +kernel),
   corrupt_offset _ rfl _ _ (by decide) 1 (by decide) 61 (by decide) (by decide +kernel),
   corrupt_size_not_last _ rfl _ _ (by decide) 0 (by decide) 26 (by decide) (by decide +kernel)⟩

/-! ## what rules.c adds after a successful arena load -/

/-- **yr_rules_load_stream = arena load + one test.** For ANY stream: after `yr_arena_load_stream` succeeded,
    `yr_rules_from_arena` only asks for the summary buffer (section 11): `yr_arena_get_ptr` asserts 11 < num_buffers
    and a NULL result is ERROR_CORRUPT_FILE; that outcome is a function of two fields of the file alone — the buffer
    count and the size field of table entry 11 (a buffer is unallocated exactly when its size field is 0). -/
theorem rules_summary_test (cfg : LoaderCfg) (alloc : Nat → Nat) (hnz : ∀ i, alloc i ≠ 0) (s : Bytes) :
    loadRules cfg alloc s =
      match load cfg alloc s with
      | .error e => .error e
      | .ok A' =>
        if (s.getD hdrNumBuffersOff 0).toNat ≤ summarySection then .error .assertFail
        else if rdLE tblSizeSize s (sizeFieldAt summarySection) = 0 then .error .corruptFile
        else .ok A' :=
  loadRules_eq cfg alloc hnz s

/-- **Can rules.c refuse what the arena loader let through after a single-field corruption?** Header fields, the buffer
    count, offsets and inner sizes never get that far (`corrupt_*`).  For a size change that the arena loader accepted
    (so: the last entry, `size_change_accepted_iff`) on an image with a non-empty summary buffer: the summary test fires
    exactly when the overwritten field is the summary buffer's own size and the new value is 0 — which the arena loader
    accepts only if the summary's length is a multiple of 8 (`corrupt_size_last_lowered_dvd`; sizeof(YR_SUMMARY) is 12,
    so for files written by the compiler the test is never what rejects a single-field corruption).  rules.c has no
    other test: a summary cut to 4 bytes is used as is (its counters read uninitialised capacity). -/
theorem rules_after_size_corruption (cfg : LoaderCfg) (alloc : Nat → Nat) (hnz : ∀ i, alloc i ≠ 0) (a : Arena)
    (hn : a.bufs.length ≤ maxBuffers) (hsum : summarySection < a.bufs.length)
    (hsz : (a.bufAt summarySection).data.length ≠ 0) (hsz2 : (a.bufAt summarySection).data.length < 2 ^ 32)
    (i : Nat) (hi : i < a.bufs.length) (z : Nat) (hz : z < 2 ^ 32) (A' : Arena)
    (hA : load cfg alloc (patch (save a) (sizeFieldAt i) (leBytes 4 z)) = .ok A') :
    loadRules cfg alloc (patch (save a) (sizeFieldAt i) (leBytes 4 z)) =
      if i = summarySection ∧ z = 0 then .error .corruptFile else .ok A' :=
  loadRules_after_size_patch cfg alloc hnz a hn hsum hsz hsz2 i hi z hz A' hA

/-! ## every cut point classified -/

/-- **Cut inside a relocation entry**: every prefix that ends after the bodies but not on an entry boundary is refused
    (ERROR_CORRUPT_FILE) by the fully checked loader — the entries before the cut may each pass, the trailing partial
    entry does not. -/
theorem prefix_in_entry (cfg : LoaderCfg) (hh : Hardened cfg) (alloc : Nat → Nat) (a : Arena) (hn : a.bufs.length ≤ maxBuffers)
    (hs2 : ∀ b ∈ a.bufs, b.data.length ≤ 2 ^ 31) (m : Nat) (hm : m % 8 ≠ 0) (hlt : m < 8 * a.relocs.length) :
    load cfg alloc ((save a).take (bodiesEnd a + m)) = .error .corruptFile :=
  load_cut_in_entry cfg hh alloc a hn hs2 m hm hlt

/-- **The truncation quantifier, complete.** For every well-formed arena and EVERY proper prefix length k of its image:
    the fully checked loader accepts the prefix if and only if k lies at or after the end of the buffer bodies on a
    relocation-entry boundary.  (Everything else is rejected: prefix_header / prefix_table / prefix_bodies /
    prefix_in_entry; the accepted ones are exactly known finding F9: reloc_cut_accepted.) -/
theorem prefix_accepted_iff (cfg : LoaderCfg) (hh : Hardened cfg) (alloc : Nat → Nat) {a : Arena} (h : WF a)
    (hs2 : ∀ b ∈ a.bufs, b.data.length ≤ 2 ^ 31) (hA : RangesOk (loadedBufs alloc 0 (bodies (toRefs a)))) (hnz : ∀ i, alloc i ≠ 0)
    (k : Nat) (hk : k < (save a).length) :
    (∃ A, load cfg alloc ((save a).take k) = .ok A) ↔ (bodiesEnd a ≤ k ∧ (k - bodiesEnd a) % 8 = 0) := by
  have hse : bodiesStart a ≤ bodiesEnd a := by unfold bodiesEnd; omega
  have hhs : headerSize ≤ bodiesStart a := by unfold bodiesStart; omega
  rw [save_length] at hk
  by_cases h1 : k < bodiesEnd a
  · have herr : ∃ e, load cfg alloc ((save a).take k) = .error e := by
      by_cases h2 : k < headerSize
      · exact ⟨_, prefix_header cfg a alloc k h2⟩
      · by_cases h3 : k < bodiesStart a
        · exact ⟨_, prefix_table cfg a alloc h.count k (by omega) h3⟩
        · exact ⟨_, prefix_bodies cfg a alloc h.count hs2 k (by omega) h1⟩
    obtain ⟨e, he⟩ := herr
    constructor
    · rintro ⟨A, hA'⟩; rw [he] at hA'; cases hA'
    · rintro ⟨h', _⟩; omega
  · obtain ⟨m, rfl⟩ : ∃ m, k = bodiesEnd a + m := ⟨k - bodiesEnd a, by omega⟩
    have hm : m < 8 * a.relocs.length := by omega
    rw [Nat.add_sub_cancel_left]
    by_cases h8 : m % 8 = 0
    · obtain ⟨A, hA', _⟩ := reloc_cut_accepted cfg h hs2 alloc hA hnz (m / 8)
      have : 8 * (m / 8) = m := by omega
      rw [this] at hA'
      exact ⟨fun _ => ⟨by omega, h8⟩, fun _ => ⟨A, hA'⟩⟩
    · rw [prefix_in_entry cfg hh alloc a h.count hs2 m h8 hm]
      constructor
      · rintro ⟨A, hA'⟩; cases hA'
      · rintro ⟨_, h'⟩; exact absurd h' h8

/-- on the example arena (image of 80 bytes, bodies end at 64, two entries): accepted exactly at 64 and 72 -/
example (k : Nat) (hk : k < 80) :
    (∃ A, load loaderCfg exAlloc ((save exArena).take k) = .ok A) ↔ (k = 64 ∨ k = 72) := by
  have h80 : (save exArena).length = 80 := by decide
  have hbe : bodiesEnd exArena = 64 := by decide
  rw [prefix_accepted_iff loaderCfg hardened_loaderCfg exAlloc exArena_wf (by decide) ⟨by decide, by decide, by decide⟩
    (by intro i; unfold exAlloc; omega) k (by rw [h80]; exact hk), hbe]
  omega

/-! ## the file-name API gives its handle back -/

/-- **A rejected file is an error and nothing else — also for the FILE handle.**  `Gen.RulesFile.rulesLoad` /
    `rulesSave` are the bodies of yr_rules_load / yr_rules_save of the source tree, statement by statement (fopen,
    the NULL test, the call of the stream function, fclose, return; regenerated on every run).  Whatever fopen, the
    stream loader / saver answer (every outcome list): the function holds no FILE handle when it returns — the
    damaged file that yr_rules_load_stream refuses is closed like the intact one.  (An early return between fopen and
    fclose, e.g. FAIL_ON_ERROR around the stream call, makes `balanced` false and this theorem unprovable.) -/
theorem file_api_gives_back_handle (outcomes : List Bool) :
    RulesFile.exec Gen.RulesFile.rulesLoad false outcomes = 0 ∧ RulesFile.exec Gen.RulesFile.rulesSave false outcomes = 0 ∧
      Gen.RulesFile.unparsed = false :=
  ⟨RulesFile.balanced_sound _ _ _ (by decide), RulesFile.balanced_sound _ _ _ (by decide), rfl⟩

/-- the statement is not vacuous: the same body with FAIL_ON_ERROR around the stream call keeps the handle when the
    stream loader fails (fopen succeeds, the call fails) -/
example : RulesFile.exec [.fopen, .retIfNull, .failOnError, .fclose, .ret] false [true, false] = 1 := by decide

end YaraModel.Arena
