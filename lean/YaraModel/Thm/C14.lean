/-
  C14 — hash, math and string module functions compute their definitions.
  Property theorems only (helpers: Lemmas/HashMath*.lean).  The model (Model/HashMath.lean) mirrors
  hash.c / math.c / string.c; the definitions the property speaks about are in Spec/HashMath.lean.
  The model follows the code AFTER the fixes 3e6ded9 (unsigned bytes), 5e43bd9 (statistics across
  blocks), d04bbf9 (walker break test), 3070536 (abs); the former behaviour is kept only as frozen
  `…V0` / `signedConv` regression definitions with kernel-checked witnesses of the difference.
  All statements quantify over EVERY block list / byte string / offset / length / call sequence.
  Digest primitives are a parameter `H` (trusted; compared with hashlib by the check).
-/
import YaraModel.Lemmas.HashMathWalk
import YaraModel.Lemmas.HashMathMem
import YaraModel.Lemmas.HashMathCrc
import YaraModel.Lemmas.HashMathCache
import YaraModel.Lemmas.HashMathStat
import YaraModel.Lemmas.HashMathSeq
namespace YaraModel.HM
open Spec

/-! ## The range walk -/

/-- **One block** (a buffer `data` at address `base`): the walker returns exactly
    `data[off-base, min(off-base+len, size))` when `0 ≤ len` and `base ≤ off < base+size`,
    and is undefined for a negative offset or length and for `off ≥ base+size` — in particular
    for `off = size` even with `len = 0`, while `len = 0` inside the buffer gives the empty string. -/
theorem rangeWalk_single (base : Nat) (data : Bytes) (off len : Int) :
    rangeWalk [⟨base, data⟩] off len = Spec.addressed base data off len := by
  unfold rangeWalk chunksWalk argsOk Spec.addressed
  by_cases h : off < 0 ∨ len < 0 ∨ off < (base : Int)
  · have h1 : (decide (off < 0) || decide (len < 0) || decide (off < (base : Int))) = true := by
      rcases h with h | h | h <;> simp [h]
    have h2 : ¬ (0 ≤ len ∧ (base : Int) ≤ off ∧ off < (base : Int) + data.length) := by omega
    simp [h1, h2]
  · have h1 : (decide (off < 0) || decide (len < 0) || decide (off < (base : Int))) = false := by
      simp only [Bool.or_eq_false_iff, decide_eq_false_iff_not]; omega
    simp only [h1, Bool.not_false, if_true, walkLoop_single, Block.size]
    by_cases h3 : off < (base : Int) + data.length
    · have hin : base ≤ off.toNat ∧ off.toNat < base + data.length := by omega
      have hsp : 0 ≤ len ∧ (base : Int) ≤ off ∧ off < (base : Int) + data.length := by omega
      simp [hin, hsp, chunk_eq_slice]
    · have hin : ¬ (base ≤ off.toNat ∧ off.toNat < base + data.length) := by omega
      have hsp : ¬ (0 ≤ len ∧ (base : Int) ≤ off ∧ off < (base : Int) + data.length) := by omega
      simp [hin, hsp]

example : rangeWalk [⟨0, [1, 2, 3, 4, 5]⟩] 3 10 = some [4, 5] ∧ rangeWalk [⟨0, [1, 2, 3, 4, 5]⟩] 5 0 = none ∧
    rangeWalk [⟨0, [1, 2, 3, 4, 5]⟩] 4 0 = some [] ∧ rangeWalk [⟨0, [1, 2, 3, 4, 5]⟩] (-1) 2 = none := by decide

/-- The memory-map specification used for several blocks coincides with the buffer
    specification on one block. -/
theorem addressedMem_single (base : Nat) (data : Bytes) (off len : Int) :
    Spec.addressedMem [(base, data)] off len = Spec.addressed base data off len :=
  addressedMem_single_lemma base data off len

/-- **Adjacent blocks behave like their concatenation**: behind any prefix of blocks that end
    at or before `b1`, two adjacent non-empty blocks can be replaced by one block holding the
    concatenated bytes — for every offset and length (zero-length ranges at the inner boundary
    included). -/
theorem rangeWalk_contig (pre rest : List Block) (b1 b2 : Block) (hc : b2.base = b1.base + b1.size)
    (hs1 : 0 < b1.size) (hs2 : 0 < b2.size) (hpre : ∀ p ∈ pre, p.base + p.size ≤ b1.base)
    (off len : Int) :
    rangeWalk (pre ++ b1 :: b2 :: rest) off len =
      rangeWalk (pre ++ ⟨b1.base, b1.data ++ b2.data⟩ :: rest) off len := by
  unfold rangeWalk chunksWalk
  have hargs : argsOk (pre ++ b1 :: b2 :: rest) off len =
      argsOk (pre ++ ⟨b1.base, b1.data ++ b2.data⟩ :: rest) off len := by
    cases pre <;> rfl
  rw [hargs]
  split
  · exact walk_contig_prefix pre b1 b2 rest hc hs1 hs2 hpre off.toNat len.toNat false (by simp)
  · rfl

example : rangeWalk [⟨0, [1, 2]⟩, ⟨2, [3]⟩, ⟨3, [4, 5]⟩] 1 3 = rangeWalk [⟨0, [1, 2]⟩, ⟨2, [3, 4, 5]⟩] 1 3 ∧
    rangeWalk [⟨0, [1, 2]⟩, ⟨2, [3]⟩, ⟨3, [4, 5]⟩] 1 3 = some [2, 3, 4] := by decide

/-- **A gap makes the range undefined**: a range that starts in `b1` and needs bytes beyond its
    end is undefined when the next block does not start exactly there. -/
theorem rangeWalk_gap (b1 b2 : Block) (rest : List Block) (off len : Int)
    (hoff : (b1.base : Int) ≤ off ∧ off < b1.base + b1.size) (hlen : (b1.base + b1.size : Int) < off + len)
    (hgap : b1.base + b1.size < b2.base) :
    rangeWalk (b1 :: b2 :: rest) off len = none := by
  unfold rangeWalk chunksWalk argsOk
  have h1 : (decide (off < 0) || decide (len < 0) || decide (off < (b1.base : Int))) = false := by
    simp only [Bool.or_eq_false_iff, decide_eq_false_iff_not]; omega
  simp only [h1, Bool.not_false, if_true]
  rw [walkLoop_in b1 _ _ _ false (by omega), if_neg (by omega), walkLoop_out b2 rest _ _ true (by omega)]
  rfl

example : rangeWalk [⟨0, [1, 2, 3]⟩, ⟨4, [5, 6]⟩] 1 4 = none ∧ rangeWalk [⟨0, [1, 2, 3]⟩, ⟨4, [5, 6]⟩] 1 2 = some [2, 3] := by
  decide

/-- Blocks that end before the offset are skipped: the range may start in any block. -/
theorem rangeWalk_skip (b b' : Block) (rest : List Block) (off len : Int)
    (hoff : (b.base + b.size : Int) ≤ off) (hoff' : (b'.base : Int) ≤ off) :
    rangeWalk (b :: b' :: rest) off len = rangeWalk (b' :: rest) off len := by
  unfold rangeWalk chunksWalk argsOk
  by_cases hl : len < 0
  · have h1 : (decide (off < 0) || decide (len < 0) || decide (off < (b.base : Int))) = true := by simp [hl]
    have h3 : (decide (off < 0) || decide (len < 0) || decide (off < (b'.base : Int))) = true := by simp [hl]
    simp [h1, h3]
  · have h1 : (decide (off < 0) || decide (len < 0) || decide (off < (b.base : Int))) = false := by
      simp only [Bool.or_eq_false_iff, decide_eq_false_iff_not]; omega
    have h3 : (decide (off < 0) || decide (len < 0) || decide (off < (b'.base : Int))) = false := by
      simp only [Bool.or_eq_false_iff, decide_eq_false_iff_not]; omega
    simp only [h1, h3, Bool.not_false, if_true]
    rw [walkLoop_out b _ _ _ false (by omega)]
    rfl

example : rangeWalk [⟨0, [1, 2]⟩, ⟨4, [5, 6, 7]⟩] 5 1 = some [6] := by decide

/-- **Every block layout**: on every ascending list of non-empty, non-overlapping blocks (any
    number of blocks, any gaps) the walker returns exactly the memory-map specification
    (`Spec.addressedMem`: the bytes at addresses off … min(off+len, end of memory)−1, undefined when
    the range starts at an unmapped address or crosses an unmapped one) — for EVERY offset and
    length, zero-length ranges at inner block boundaries included (full strength since fix d04bbf9). -/
theorem rangeWalk_eq_addressedMem (blocks : List Block) (hl : Layout blocks) (off len : Int) :
    rangeWalk blocks off len = Spec.addressedMem (toMem blocks) off len :=
  rangeWalk_eq_addressedMem_lemma blocks hl off len

example : Layout [⟨0, [1, 2]⟩, ⟨2, [3]⟩, ⟨5, [6, 7]⟩] ∧
    Spec.addressedMem (toMem [⟨0, [1, 2]⟩, ⟨2, [3]⟩, ⟨5, [6, 7]⟩]) 1 2 = some [2, 3] ∧
    Spec.addressedMem (toMem [⟨0, [1, 2]⟩, ⟨2, [3]⟩, ⟨5, [6, 7]⟩]) 1 3 = none ∧
    Spec.addressedMem (toMem [⟨0, [1, 2]⟩, ⟨2, [3]⟩, ⟨5, [6, 7]⟩]) 6 9 = some [7] := by
  refine ⟨?_, by decide, by decide, by decide⟩
  simp [Layout, Block.size]

/-- A zero-length range that starts exactly where a block ends and the next one begins is the
    empty string (as on the concatenated buffer). -/
theorem rangeWalk_boundary_zero_length (b1 b2 : Block) (rest : List Block)
    (hc : b2.base = b1.base + b1.size) (hs2 : 0 < b2.size) :
    rangeWalk (b1 :: b2 :: rest) (b2.base : Int) 0 = some [] := by
  unfold rangeWalk chunksWalk argsOk
  have h1 : (decide ((b2.base : Int) < 0) || decide ((0 : Int) < 0) || decide ((b2.base : Int) < (b1.base : Int))) = false := by
    simp only [Bool.or_eq_false_iff, decide_eq_false_iff_not]; omega
  simp only [h1, Bool.not_false, if_true]
  rw [walkLoop_out b1 _ _ _ false (by simp; omega)]
  simp only [Bool.false_eq_true, if_false]
  rw [walkLoop_in b2 rest _ _ false (by simp; omega), if_pos (by simp)]
  simp [chunk_eq_slice, Spec.slice]

/-- Regression witness (kernel-checked): the walker before fix d04bbf9 (`walkLoopV0`, frozen)
    gave undefined for that range, the fixed walker gives the empty string. -/
theorem walker_v0_boundary_witness :
    walkLoopV0 [⟨0, [1, 2]⟩, ⟨2, [3]⟩] 2 0 false = none ∧
    walkLoop [⟨0, [1, 2]⟩, ⟨2, [3]⟩] 2 0 false = some [[]] ∧
    rangeWalk [⟨0, [1, 2, 3]⟩] 2 0 = some [] := by decide

/-- **No wrap in the break test** `base + size >= (uint64_t) offset + (uint64_t) length`: for all
    non-negative int64 `offset`, `length` (as 64-bit words: below 2^63) and every block that ends
    below 2^63, both 64-bit sums are the mathematical sums and the unsigned comparison is the
    comparison of natural numbers — the walker model may therefore compute in `Nat`. -/
theorem breakTest_no_wrap (base size off len : BitVec 64)
    (hoff : off.toNat < 2 ^ 63) (hlen : len.toNat < 2 ^ 63) (hend : base.toNat + size.toNat < 2 ^ 63) :
    (off + len).toNat = off.toNat + len.toNat ∧ (base + size).toNat = base.toNat + size.toNat ∧
    breakTestU64 base size off len = decide (base.toNat + size.toNat ≥ off.toNat + len.toNat) := by
  have h1 : (off + len).toNat = off.toNat + len.toNat := by
    rw [BitVec.toNat_add]; exact Nat.mod_eq_of_lt (by omega)
  have h2 : (base + size).toNat = base.toNat + size.toNat := by
    rw [BitVec.toNat_add]; exact Nat.mod_eq_of_lt (by omega)
  refine ⟨h1, h2, ?_⟩
  unfold breakTestU64 BitVec.ule
  rw [h1, h2]

/-- int64 view of the hypotheses: a non-negative int64 reinterpreted as uint64 is below 2^63. -/
theorem int64_nonneg_lt (x : BitVec 64) (h : 0 ≤ x.toInt) : x.toNat < 2 ^ 63 := by
  rw [BitVec.toInt_eq_toNat_cond] at h
  split at h <;> omega

example : breakTestU64 5 5 1 (BitVec.ofNat 64 (2 ^ 63 - 1)) = false ∧ breakTestU64 5 5 3 7 = true := by decide

/-! ## crc32 and checksum32 -/

/-- **T6 tie**: every entry of the table regenerated from hash.c equals the bitwise reflected
    CRC-32 (polynomial 0xEDB88320) of its index.  The quantifier is the finite table; the proof is
    kernel evaluation over all 256 entries. -/
theorem crc32_table (i : Nat) (h : i < 256) : Gen.crc32Tab[i]! = crcBit i := tab_entry i h

theorem crc32_table_size : Gen.crc32Tab.size = 256 := by decide +kernel

/-- The table-driven loop (string_crc32) is the bitwise CRC-32 of the string, for all strings. -/
theorem crc32_fold (bs : Bytes) : tableCrc bs = bitwiseCrc bs := tableCrc_eq bs

/-- data_crc32: carrying the checksum across blocks gives the CRC-32 of the addressed bytes. -/
theorem crc32_data (blocks : List Block) (off len : Int) :
    dataCrc32 blocks off len = (rangeWalk blocks off len).map bitwiseCrc := by
  unfold dataCrc32 rangeWalk
  cases chunksWalk blocks off len with
  | none => rfl
  | some cs => simp [tableCrcChunks_eq]

example : bitwiseCrc [0x31, 0x32, 0x33, 0x34, 0x35, 0x36, 0x37, 0x38, 0x39] = 0xCBF43926 := by decide +kernel

/-- checksum32 is the sum of the bytes modulo 2^32, for all strings. -/
theorem checksum32_sum (bs : Bytes) : (HM.checksum32 bs).toNat = sumBytes bs % 4294967296 :=
  checksum32_eq bs

theorem checksum32_data (blocks : List Block) (off len : Int) :
    (dataChecksum32 blocks off len).map (·.toNat) = (rangeWalk blocks off len).map Spec.checksum32 := by
  unfold dataChecksum32 rangeWalk
  cases chunksWalk blocks off len with
  | none => rfl
  | some cs => simp [checksum32Chunks_eq]

/-! ## The digest cache -/

/-- lookup after add returns the added value -/
theorem cache_lookup_after_add {D : Type} (c : Cache D) (ns : String) (off len : Int) (d : D) :
    (c.add ns off len d).lookup ns off len = some d := lookup_add_same c ns off len d

/-- adding under a different (algorithm, offset, length) key does not change a lookup -/
theorem cache_lookup_other_key {D : Type} (c : Cache D) (ns ns' : String) (off len off' len' : Int) (d : D)
    (h : ¬ (ns = ns' ∧ off = off' ∧ len = len')) :
    (c.add ns off len d).lookup ns' off' len' = c.lookup ns' off' len' :=
  lookup_add_other c ns ns' off len off' len' d h

/-- **The cache is transparent**: any sequence of md5/sha1/sha256 range calls made in one scan
    (repeated ranges, the same range through several algorithms, overlapping ranges, undefined
    calls in between) returns, call by call, what a fresh computation returns. -/
theorem cache_transparent {D : Type} (H : Alg → Bytes → D) (blocks : List Block)
    (calls : List (Alg × Int × Int)) :
    runDigests H blocks [] calls = calls.map fun x => (rangeWalk blocks x.2.1 x.2.2).map (H x.1) :=
  runDigests_sound H blocks [] (fun _ he => by cases he) calls

example : runDigests (fun a bs => (a, bs)) [⟨0, [1, 2, 3]⟩] [] [(.md5, 0, 2), (.sha1, 0, 2), (.md5, 0, 2), (.md5, 2, 0), (.md5, 3, 0)] =
    [some (.md5, [1, 2]), some (.sha1, [1, 2]), some (.md5, [1, 2]), some (.md5, []), none] := by decide

/-! ## math: statistics over the histogram -/

/-- get_distribution counts every byte value of the addressed bytes. -/
theorem hist_correct (blocks : List Block) (off len : Int) :
    getDistribution blocks off len = (rangeWalk blocks off len).map count := by
  unfold getDistribution rangeWalk
  cases chunksWalk blocks off len with
  | none => rfl
  | some cs => simp [histChunks_eq]

/-- math.mean(offset, length) = (Σ bytes) / n of the addressed bytes (undefined for n = 0). -/
theorem mean_hist (blocks : List Block) (off len : Int) :
    dataMean blocks off len = (rangeWalk blocks off len).bind Spec.mean := by
  unfold dataMean
  rw [hist_correct]
  cases rangeWalk blocks off len with
  | none => rfl
  | some bs => simp [meanHist_count]

example : dataMean [⟨0, [1, 2, 255]⟩] 0 3 = some 86 := by decide +kernel

/-- math.deviation(offset, length, m) = Σ |b − m| / n. -/
theorem deviation_hist (blocks : List Block) (off len : Int) (m : Rat) :
    dataDeviation blocks off len m = (rangeWalk blocks off len).bind (Spec.deviation · m) := by
  unfold dataDeviation
  rw [hist_correct]
  cases rangeWalk blocks off len with
  | none => rfl
  | some bs => simp [deviationHist_count]

/-- math.count(byte, offset, length) = number of occurrences; undefined for byte ∉ 0..255. -/
theorem count_hist (blocks : List Block) (byte off len : Int) :
    dataCount blocks byte off len =
      if byte < 0 ∨ byte > 255 then none else (rangeWalk blocks off len).map fun bs => (count bs byte.toNat : Int) := by
  unfold dataCount
  split
  · rfl
  · next h =>
    rw [hist_correct]
    cases rangeWalk blocks off len with
    | none => rfl
    | some bs =>
      have hv : byte.toNat < 256 := by omega
      have e : (byte.toNat : Int) = byte := by omega
      have := countHist_count bs byte.toNat hv
      rw [e] at this
      simp [this]

/-- math.percentage(byte, offset, length) = occurrences / n. -/
theorem percentage_hist (blocks : List Block) (byte off len : Int) :
    dataPercentage blocks byte off len =
      if byte < 0 ∨ byte > 255 then none else (rangeWalk blocks off len).bind fun bs => Spec.percentage bs byte.toNat := by
  unfold dataPercentage
  split
  · rfl
  · next h =>
    rw [hist_correct]
    cases rangeWalk blocks off len with
    | none => rfl
    | some bs =>
      have hv : byte.toNat < 256 := by omega
      have e : (byte.toNat : Int) = byte := by omega
      have := percentageHist_count bs byte.toNat hv
      rw [e] at this
      simp [this]

/-- math.mode(offset, length) is the smallest most frequent byte value. -/
theorem mode_hist (blocks : List Block) (off len : Int) (m : Nat) (h : dataMode blocks off len = some m) :
    ∃ bs, rangeWalk blocks off len = some bs ∧ IsMode bs m := by
  unfold dataMode at h
  rw [hist_correct] at h
  cases hr : rangeWalk blocks off len with
  | none => rw [hr] at h; cases h
  | some bs =>
    rw [hr] at h
    simp only [Option.map_some, Option.some.injEq] at h
    exact ⟨bs, rfl, h ▸ modeHist_isMode bs⟩

example : dataMode [⟨0, [7, 3, 3, 7, 9]⟩] 0 5 = some 3 := by decide +kernel

/-- chunk lists produced by the walker: an empty first chunk is the only chunk -/
theorem chunksWalk_head_empty (blocks : List Block) (off len : Int) (chunks : List Bytes)
    (h : chunksWalk blocks off len = some chunks) :
    ∀ c cs, chunks = c :: cs → c = [] → cs = [] := by
  intro c cs hcs hc
  unfold chunksWalk at h
  split at h
  · exact walkLoop_head_empty blocks _ _ false c cs (hcs ▸ h) hc
  · cases h

/-- math.serial_correlation(offset, length) equals its definition on the addressed bytes for
    EVERY block list (full strength since fix 5e43bd9). -/
theorem serial_correlation_data (blocks : List Block) (off len : Int) :
    dataSerialCorrelation blocks off len = (rangeWalk blocks off len).map Spec.serialCorrelation := by
  unfold dataSerialCorrelation rangeWalk
  cases h : chunksWalk blocks off len with
  | none => rfl
  | some cs => simp [sccChunks_eq cs (chunksWalk_head_empty blocks off len cs h)]

/-- math.monte_carlo_pi(offset, length) equals its definition on the addressed bytes for EVERY
    block list (full strength since fix 5e43bd9). -/
theorem monte_carlo_data (blocks : List Block) (off len : Int) :
    dataMonteCarloPi blocks off len = (rangeWalk blocks off len).bind Spec.monteCarloPi := by
  unfold dataMonteCarloPi rangeWalk
  cases chunksWalk blocks off len with
  | none => rfl
  | some cs => simp [mcChunks_eq]

/-- Regression witnesses (kernel-checked) for the frozen pre-fix definitions: restarting per block
    differs from the definition on the concatenation. -/
theorem stats_v0_witness :
    sccChunksV0 [[97, 98, 99], [100, 101, 102]] ≠ Spec.serialCorrelation [97, 98, 99, 100, 101, 102] ∧
    sccChunks [[97, 98, 99], [100, 101, 102]] = Spec.serialCorrelation [97, 98, 99, 100, 101, 102] ∧
    mcChunksV0 [[1, 2, 3], [4, 5, 6]] = none ∧ (mcChunks [[1, 2, 3], [4, 5, 6]]).isSome = true := by
  decide +kernel

/-! ## math: string arguments (bytes are 0..255) -/

/-- With bytes read as unsigned the string forms are the definitions… -/
theorem string_stats_unsigned (bs : Bytes) (m : Rat) :
    meanStr unsignedConv bs = Spec.mean bs ∧ deviationStr unsignedConv bs m = Spec.deviation bs m ∧
    sccStr unsignedConv bs = Spec.serialCorrelation bs ∧ mcStr unsignedConv bs = Spec.monteCarloPi bs :=
  ⟨meanStr_unsigned bs, deviationStr_unsigned bs m, sccStr_unsigned bs, mcStr_unsigned bs⟩

/-- Regression characterisation of the former signed `char` reading (fixed by 3e6ded9; frozen
    `signedConv`/`sextConv`): it agrees with the definition on strings of 7-bit bytes only. -/
theorem string_stats_signed_7bit (bs : Bytes) (m : Rat) (h : ∀ b ∈ bs, b.toNat < 128) :
    meanStr signedConv bs = Spec.mean bs ∧ deviationStr signedConv bs m = Spec.deviation bs m ∧
    sccStr signedConv bs = Spec.serialCorrelation bs ∧ mcStr sextConv bs = Spec.monteCarloPi bs := by
  have h1 : ∀ b ∈ bs, signedConv b = unsignedConv b := fun b hb => (conv_agree b (h b hb)).1
  have h2 : ∀ b ∈ bs, sextConv b = unsignedConv b := fun b hb => (conv_agree b (h b hb)).2
  exact ⟨(meanStr_congr _ _ bs h1).trans (meanStr_unsigned bs),
    (deviationStr_congr _ _ bs m h1).trans (deviationStr_unsigned bs m),
    (sccStr_congr _ _ bs h1).trans (sccStr_unsigned bs),
    (mcStr_congr _ _ bs h2).trans (mcStr_unsigned bs)⟩

example : meanStr signedConv [0xff, 0xff] = some (-1) ∧ Spec.mean [0xff, 0xff] = some 255 := by decide +kernel

/-! ## string.to_int, math.min/max/abs -/

/-- to_int never returns a value outside int64 (overflow is undefined, as `errno` in the code). -/
theorem to_int_in_range (s : Bytes) (base : Int) (r : Int) (h : stringToIntBase s base = some r) :
    -two63 ≤ r ∧ r ≤ two63 - 1 := by
  unfold stringToIntBase at h
  split at h
  · exact strToInt_range s _ r h
  · cases h

/-- a base other than 0 or 2..36 is undefined -/
theorem to_int_bad_base (s : Bytes) (base : Int) (h : ¬ (base = 0 ∨ (2 ≤ base ∧ base ≤ 36))) :
    stringToIntBase s base = none := stringToIntBase_bad_base s base h

example : stringToInt [0x20, 0x2d, 0x30, 0x78, 0x31, 0x46] = some (-31) ∧ stringToInt [0x31, 0x32, 0x00, 0x33] = some 12 ∧
    stringToIntBase [0x7a] 36 = some 35 ∧ stringToInt [0x30, 0x38] = none := by decide +kernel

/-- math.min / math.max compare as unsigned 64-bit: on non-negative arguments they are min / max. -/
theorem min_max_nonneg (i j : Int) (hi : 0 ≤ i ∧ i < two63) (hj : 0 ≤ j ∧ j < two63) :
    mathMin i j = min i j ∧ mathMax i j = max i j := by
  unfold mathMin mathMax toU64 ofU64 two64 two63 at *
  have e1 : i % 18446744073709551616 = i := Int.emod_eq_of_lt hi.1 (by omega)
  have e2 : j % 18446744073709551616 = j := Int.emod_eq_of_lt hj.1 (by omega)
  rw [e1, e2]
  constructor
  · split <;> split <;> omega
  · split <;> split <;> omega

/-- math.abs is the absolute value; undefined exactly for INT64_MIN (not representable). -/
theorem abs_spec (i : Int) : mathAbs i = if i = -two63 then none else some (i.natAbs : Int) := by
  unfold mathAbs; split
  · rfl
  · congr 1; split <;> omega

end YaraModel.HM
