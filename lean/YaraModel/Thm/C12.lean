/-
  C12 — Shortcuts and compile-time evaluation never change a verdict (constant-folding part).
  `Gen.Fold.foldBin/foldUn` are REGENERATED from the grammar.y actions and `Gen.VmOps.vmBin/vmUn` from the
  exec.c case blocks on every run; these theorems are re-checked against what the code says now.
  All statements are for ALL 64-bit operands (carried as `Int`, `C.UNDEF` = the YR_UNDEFINED sentinel =
  "value not known at compile time").
-/
import YaraModel.Lemmas.FoldVm
namespace YaraModel.FoldVm
open YaraModel YaraModel.C YaraModel.Gen.Fold YaraModel.Gen.VmOps

/-- **Folding is exact**: when both operands are known at compile time and the grammar action yields a
    value, that value is exactly what the VM opcode emitted for the operator computes at run time
    (including "undefined": e.g. INT64_MIN \ -1 folds to the undefined sentinel, as OP_INT_DIV yields). -/
theorem fold_agrees_known (prim : String → List Int → Int) (op : FBin) (a b v : Int)
    (ha : isUndef a = false) (hb : isUndef b = false)
    (h : foldBin op a b = .val v) : vmBin prim (toVm op) a b = v := by
  cases op <;> simp only [foldBin, toVm, vmBin, ha, hb] at h ⊢ <;> simp at h ⊢ <;>
    (repeat' split at h) <;> simp_all <;> omega

/-- Same for the unary operators `-` and `~`. -/
theorem foldUn_agrees_known (prim : String → List Int → Int) (op : FUn) (a v : Int)
    (ha : isUndef a = false) (h : foldUn op a = .val v) : vmUn prim (toVmUn op) a = v := by
  cases op <;> simp only [foldUn, toVmUn, vmUn, ha] at h ⊢ <;> simp [isUndef] at h ha ⊢ <;> simp_all

/-- **Unknown operands are never guessed**: if an operand is not known at compile time (external-free
    run-time quantity) and the action nevertheless yields a defined value `v` (only `x << n`, `x >> n`
    with known `n ≥ 64` do), then for EVERY run-time instantiation of the unknown operand(s) the VM yields
    `v` or undefined. -/
theorem fold_unknown_sound (prim : String → List Int → Int) (op : FBin) (a b a' b' v : Int)
    (_ha : isUndef a = false → a' = a) (hb : isUndef b = false → b' = b)
    (hu : isUndef a = true ∨ isUndef b = true)
    (h : foldBin op a b = .val v) (hv : isUndef v = false) :
    vmBin prim (toVm op) a' b' = v ∨ vmBin prim (toVm op) a' b' = UNDEF := by
  cases op <;> simp only [foldBin, toVm, vmBin] at h ⊢ <;> simp at h ⊢ <;>
    (repeat' split at h) <;> (try (simp at h)) <;>
    (try (subst h; first | (simp [isUndef_UNDEF] at hv; done) | skip)) <;> simp_all <;> (try omega) <;>
    (by_cases hx : isUndef a' = true <;> simp [hx] <;> omega)

/-- Compile-time overflow check of `+` rejects exactly the sums that do not fit in 64 bits. -/
theorem add_rejects_iff (a b : Int) (ha : inRange a) (hb : inRange b)
    (hua : isUndef a = false) (hub : isUndef b = false) :
    foldBin .ADD a b = .err "INTEGER_OVERFLOW" ↔ ¬ inRange (a + b) := by
  have h1 : 0 < b → C.sub INT64_MAX b = INT64_MAX - b := fun h => sub_exact (by
    unfold inRange INT64_MIN INT64_MAX at *; omega)
  have h2 : b < 0 → C.sub INT64_MIN b = INT64_MIN - b := fun h => sub_exact (by
    unfold inRange INT64_MIN INT64_MAX at *; omega)
  simp only [foldBin, hua, hub]
  by_cases hp : 0 < b
  · have hn : ¬ b < 0 := by omega
    simp [hp, hn, h1 hp]
    unfold inRange INT64_MIN INT64_MAX at *; omega
  · by_cases hn : b < 0
    · simp [hp, hn, h2 hn]
      unfold inRange INT64_MIN INT64_MAX at *; omega
    · simp [hp, hn]
      unfold inRange INT64_MIN INT64_MAX at *; omega

/-- …and an accepted sum is the mathematical sum (no wrap-around hidden in a folded constant). -/
theorem add_exact_when_accepted (a b v : Int) (ha : inRange a) (hb : inRange b)
    (hua : isUndef a = false) (hub : isUndef b = false) (h : foldBin .ADD a b = .val v) : v = a + b := by
  have hr : inRange (a + b) := by
    apply Decidable.byContradiction
    intro hn
    have := (add_rejects_iff a b ha hb hua hub).mpr hn
    rw [h] at this; cases this
  simp only [foldBin, hua, hub] at h
  simp at h
  split at h
  · cases h
  · simp at h; rw [← h, add_exact hr]

/-- Shifts are rejected at compile time exactly for a known negative count. -/
theorem shift_rejects_iff (a b : Int) :
    (foldBin .SHL a b = .err "INVALID_OPERAND" ↔ (isUndef b = false ∧ b < 0)) ∧
    (foldBin .SHR a b = .err "INVALID_OPERAND" ↔ (isUndef b = false ∧ b < 0)) := by
  constructor <;> simp only [foldBin] <;> simp <;> (repeat' split) <;> simp_all

/-- Division / modulo are rejected at compile time exactly for a literal zero divisor. -/
theorem div_rejects_iff (a b : Int) :
    (foldBin .DIV a b = .err "DIVISION_BY_ZERO" ↔ b = 0) ∧
    (foldBin .MOD a b = .err "DIVISION_BY_ZERO" ↔ b = 0) := by
  constructor <;> simp only [foldBin] <;> simp <;> (repeat' split) <;> simp_all

/-- PARTIAL (documented quirk, proved as a negation witness): the `*` overflow test uses `llabs`, which
    maps INT64_MIN to itself, so `INT64_MIN * 2` is accepted and folded to the wrapped value 0 — the same
    value the VM computes, hence verdicts agree, but the overflow diagnostic is missed. -/
theorem mul_overflow_unnoticed_at_min : foldBin .MUL INT64_MIN 2 = .val 0 := by decide

/-! Non-vacuity -/
example : foldBin .SHR 8 1 = .val 4 ∧ vmBin noPrim .OP_SHR 8 1 = 4 := by decide
example : foldBin .DIV INT64_MIN (-1) = .val UNDEF ∧ vmBin noPrim .OP_INT_DIV INT64_MIN (-1) = UNDEF := by decide
example : foldBin .SHL UNDEF 64 = .val 0 := by decide

end YaraModel.FoldVm
