/-
  C16 — Allocation failure anywhere is reported, never suffered.
  Property theorems for the PORTED functions only (Model/AllocM.lean); the property itself is
  decided by the exhaustive fault enumeration of vf/checks/c16.py (claim: fault_enumeration/partial).

  Every positive theorem quantifies over ALL failure oracles `fail : Nat → Bool` (any set of
  failing allocation requests, not just a single one) and all start heaps. Shape:
      outcome = error  →  live_after ⊆ live_before                      (nothing leaks)
      outcome = ok obj →  destroying obj gives live_after ⊆ live_before  (object destroyable)
  Where the faithful port refutes the statement, the negation is proved on a concrete oracle
  (the witness `k` is the finding), the `_partial` theorem carries the extra hypothesis under
  which the code is right, and the `…Fixed` theorem proves the proposed patch for all oracles.
-/
import YaraModel.Lemmas.AllocMCover
set_option linter.unusedVariables false
set_option linter.unusedSimpArgs false
namespace YaraModel.AllocM

variable (fail : Nat → Bool)

/-! ### hash table add -/

/-- `yr_hash_table_add_raw_key`: on failure nothing it allocated stays live; on success exactly
    the returned blocks were added. -/
theorem hashAdd_no_leak (withNs : Bool) (h : Heap) :
    match hashAdd fail withNs h with
    | (none, h') => h'.live ⊆ h.live
    | (some owned, h') => h'.live ⊆ owned ++ h.live :=
  hashAdd_cover fail withNs h

example : (hashAdd (fun k => k == 2) true ⟨0, []⟩).1 = none ∧ (hashAdd (fun k => k == 2) true ⟨0, []⟩).2.live = [] := by decide

/-! ### notebook -/

/-- `yr_notebook_create` failing leaves nothing behind. -/
theorem notebookCreate_no_leak (h : Heap) :
    match notebookCreate fail h with
    | (none, h') => h'.live ⊆ h.live
    | (some nb, h') => h'.live ⊆ (nb.self :: nb.pages) ++ h.live := by
  unfold notebookCreate
  cases e1 : alloc fail h with
  | mk o1 h1 =>
    cases o1 with
    | none => simp only; rw [(alloc_none fail e1).1]; exact fun _ x => x
    | some nb =>
      have a1 := alloc_some fail e1
      simp only
      cases e2 : alloc fail h1 with
      | mk o2 h2 =>
        cases o2 with
        | none =>
          simp only
          have := free_cover nb [] h.live h2 (by rw [(alloc_none fail e2).1, a1.1]; simp)
          simpa using this
        | some p =>
          simp only
          rw [(alloc_some fail e2).1, a1.1]
          intro x hx; simp at hx ⊢; rcases hx with hx | hx | hx <;> simp [hx]

/-- **A notebook stays destroyable whatever fails**: after any sequence of `yr_notebook_alloc`
    calls (with any subset of them failing), `yr_notebook_destroy` releases every page. -/
theorem notebook_destroyable (nb : Notebook) (reqs : List Bool) (base : List Nat) (h : Heap)
    (hc : h.live ⊆ (nb.self :: nb.pages) ++ base) :
    (notebookDestroy (notebookUse fail nb reqs h).1.2 (notebookUse fail nb reqs h).2).2.live ⊆ base := by
  induction reqs generalizing nb h with
  | nil =>
    simp only [notebookUse, notebookDestroy]
    have h1 : (freeAll nb.pages h).2.live ⊆ [nb.self] ++ base := by
      apply freeAll_cover
      intro x hx; have := hc hx; simp at this ⊢; rcases this with a | a | a <;> simp [a]
    have := free_cover nb.self [] base _ (by simpa using h1)
    simpa using this
  | cons r rs ih =>
    simp only [notebookUse]
    cases r with
    | false =>
      simp only [notebookAlloc, Bool.false_eq_true, ↓reduceIte]
      exact ih nb h hc
    | true =>
      simp only [notebookAlloc, ↓reduceIte]
      cases e : alloc fail h with
      | mk o h1 =>
        cases o with
        | none =>
          simp only [notebookDestroy]
          have hl := (alloc_none fail e).1
          have h1' : (freeAll nb.pages h1).2.live ⊆ [nb.self] ++ base := by
            apply freeAll_cover
            rw [hl]
            intro x hx; have := hc hx; simp at this ⊢; rcases this with a | a | a <;> simp [a]
          have := free_cover nb.self [] base _ (by simpa using h1')
          simpa using this
        | some p =>
          simp only
          apply ih
          have hl := (alloc_some fail e).1
          show h1.live ⊆ (nb.self :: (p :: nb.pages)) ++ base
          rw [hl]
          subset_tac

example : (notebookUse (fun k => k == 1) ⟨100, [101]⟩ [true, true, false] ⟨0, [100, 101]⟩).1.1 = false := by decide

/-! ### scanner: staged construction -/

/-- **`yr_scanner_create`**: for every failure oracle and any list of external variables (string externals
    allocate one more block), a
    failed creation leaves nothing allocated, and a successful one returns a scanner that
    `yr_scanner_destroy` releases completely. -/
theorem scannerCreate_no_leak (nExt : List Bool) (h : Heap) :
    match scannerCreate fail nExt h with
    | (none, h') => h'.live ⊆ h.live
    | (some s, h') => h'.live ⊆ s.owned ++ h.live ∧ (scannerDestroy s h').2.live ⊆ h.live := by
  unfold scannerCreate
  cases e1 : alloc fail h with
  | mk o1 h1 =>
    cases o1 with
    | none => simp only; rw [(alloc_none fail e1).1]; exact fun _ x => x
    | some self =>
      have a1 := alloc_some fail e1
      simp only
      cases e2 : alloc fail h1 with
      | mk o2 h2 =>
        cases o2 with
        | none =>
          simp only
          have := free_cover self [] h.live h2 (by rw [(alloc_none fail e2).1, a1.1]; simp)
          simpa using this
        | some tbl =>
          have a2 := alloc_some fail e2
          simp only
          have hc2 : h2.live ⊆ ([] : List (Option Nat)).filterMap id ++ [tbl, self] ++ h.live := by
            rw [a2.1, a1.1]; simp
          have harr := allocArrays_cover fail 6 [] [tbl, self] h.live h2 hc2
          have hown : (allocArrays fail 6 [] h2).2.live ⊆
              (Scanner.mk self [tbl] (allocArrays fail 6 [] h2).1).owned ++ h.live := by
            simp only [Scanner.owned] at harr ⊢
            subset_tac
          by_cases hany : ((allocArrays fail 6 [] h2).1.any Option.isNone) = true
          · rw [if_pos hany]
            exact scannerDestroy_cover _ _ _ hown
          · rw [if_neg hany]
            have := addExternals_cover fail nExt _ h.live _ hown
            cases e3 : addExternals fail nExt ⟨self, [tbl], (allocArrays fail 6 [] h2).1⟩ (allocArrays fail 6 [] h2).2 with
            | mk r h3 =>
              rw [e3] at this
              cases r with
              | none => exact this
              | some s => exact ⟨this, scannerDestroy_cover s h.live h3 this⟩

example : (scannerCreate (fun k => k == 10) [false, true] ⟨0, []⟩).1 = none ∧ (scannerCreate (fun k => k == 10) [false, true] ⟨0, []⟩).2.live = [] ∧
          (scannerCreate (fun _ => false) [true] ⟨0, []⟩).1.isSome := by decide

/-! ### rules-level string external (finding: half-updated on OOM) -/

/-- No block leaks in `yr_rules_define_string_variable`, for any oracle … -/
theorem defineString_no_leak (e : Ext) (h : Heap) :
    (defineString fail e h).2.live ⊆ (match (defineString fail e h).1.2.value with | some b => [b] | none => []) ++ h.live := by
  unfold defineString
  simp only
  have hsub : (if e.type = .mallocString then (freeOpt e.value h).2 else h).live ⊆ h.live := by
    split
    · exact freeOpt_sub _ _
    · exact fun _ x => x
  cases ea : alloc fail (if e.type = .mallocString then (freeOpt e.value h).2 else h) with
  | mk o h2 =>
    cases o with
    | none => simp only; rw [(alloc_none fail ea).1]; simpa using hsub
    | some b =>
      simp only
      rw [(alloc_some fail ea).1]
      intro x hx; simp only [List.mem_cons] at hx; simp only [List.cons_append, List.nil_append, List.mem_cons]
      rcases hx with hx | hx
      · exact Or.inl hx
      · exact Or.inr (hsub hx)

/-- … but **the error path leaves the external half-updated**: type MALLOC_STRING with a NULL
    value (the next `yr_scanner_create` does `strlen(NULL)`), and the old value is gone.
    Witness: the single allocation fails. -/
theorem defineString_breaks_invariant :
    ∃ (fail : Nat → Bool) (e : Ext) (h : Heap), e.wellFormed ∧
      (defineString fail e h).1.1 = .insufficientMemory ∧ ¬ (defineString fail e h).1.2.wellFormed :=
  ⟨fun _ => true, ⟨.string, none⟩, ⟨0, []⟩, by decide, by decide, by decide⟩

/-- Under the extra hypothesis that the duplication succeeds the external stays well formed. -/
theorem defineString_wellFormed_partial (e : Ext) (h : Heap) (hok : (defineString fail e h).1.1 = .ok) :
    (defineString fail e h).1.2.wellFormed := by
  unfold defineString at hok ⊢
  simp only at hok ⊢
  cases ea : alloc fail (if e.type = .mallocString then (freeOpt e.value h).2 else h) with
  | mk o h2 =>
    rw [ea] at hok
    cases o with
    | none => simp at hok
    | some b => simp [Ext.wellFormed]

/-- The proposed patch (duplicate first, swap on success): for every oracle the external stays
    well formed, an error leaves it untouched and nothing leaks. -/
theorem defineStringFixed_ok (e : Ext) (h : Heap) (hw : e.wellFormed) :
    (defineStringFixed fail e h).1.2.wellFormed ∧
    ((defineStringFixed fail e h).1.1 = .insufficientMemory → (defineStringFixed fail e h).1.2 = e ∧ (defineStringFixed fail e h).2.live = h.live) := by
  unfold defineStringFixed
  cases ea : alloc fail h with
  | mk o h1 =>
    cases o with
    | none => exact ⟨hw, fun _ => ⟨rfl, (alloc_none fail ea).1⟩⟩
    | some b => exact ⟨by simp [Ext.wellFormed], fun hx => by cases hx⟩

/-! ### yr_rules_load_stream (finding: arena leaked when yr_rules_from_arena fails) -/

/-- **`yr_rules_load_stream` leaks the arena** when `yr_rules_from_arena` fails.
    Witness: one buffer, the third allocation (the YR_RULES struct) fails: two blocks stay live. -/
theorem loadStream_leaks :
    ∃ (fail : Nat → Bool) (n : Nat) (h : Heap), (loadStream fail n h).1 = none ∧ ¬ (loadStream fail n h).2.live ⊆ h.live :=
  ⟨fun k => k == 2, 1, ⟨0, []⟩, by decide, by decide⟩

/-- The code is right when the arena load itself fails (the only error path that was exercised). -/
theorem loadStream_no_leak_partial (n : Nat) (h : Heap) (hfail : (arenaLoad fail (n + 1) [] h).1 = none) :
    (loadStream fail n h).1 = none ∧ (loadStream fail n h).2.live ⊆ h.live := by
  unfold loadStream
  have := arenaLoad_cover fail (n + 1) [] h.live h (by simp)
  cases e : arenaLoad fail (n + 1) [] h with
  | mk r h1 =>
    rw [e] at this hfail
    cases r with
    | none => exact ⟨rfl, this⟩
    | some a => simp at hfail

/-- The proposed patch releases the arena on that path: no leak for any oracle, and a loaded rule
    set owns exactly what remains allocated. -/
theorem loadStreamFixed_no_leak (n : Nat) (h : Heap) :
    match loadStreamFixed fail n h with
    | (none, h') => h'.live ⊆ h.live
    | (some owned, h') => h'.live ⊆ owned ++ h.live := by
  unfold loadStreamFixed
  have ha := arenaLoad_cover fail (n + 1) [] h.live h (by simp)
  cases e : arenaLoad fail (n + 1) [] h with
  | mk r h1 =>
    rw [e] at ha
    cases r with
    | none => exact ha
    | some arena =>
      simp only at ha ⊢
      have hr := rulesFromArena_cover fail (arena ++ h.live) h1 ha
      cases e2 : rulesFromArena fail h1 with
      | mk r2 h2 =>
        rw [e2] at hr
        cases r2 with
        | none => exact freeAll_cover arena h.live h2 hr
        | some rs => simp only at hr ⊢; simpa [List.append_assoc] using hr

/-! ### Aho-Corasick BFS (finding: queue nodes leak when a push fails) -/

/-- **`_yr_ac_create_failure_links` leaks queue nodes** when `_yr_ac_queue_push` fails inside
    the loops. Witness: a root with two children, the second push fails: one node stays live. -/
theorem createFailureLinks_leaks :
    ∃ (fail : Nat → Bool) (fuel : Nat) (root : Trie) (h : Heap),
      (createFailureLinks fail fuel root h).1 = .insufficientMemory ∧ ¬ (createFailureLinks fail fuel root h).2.live ⊆ h.live :=
  ⟨fun k => k == 1, 10, .node [.node [], .node []], ⟨0, []⟩, by decide, by decide⟩

/-- Whatever fails, the live blocks are exactly covered by the abandoned queue — so the leak is
    precisely the nodes still queued (this is what the patch has to free). -/
theorem createFailureLinks_leak_is_queue (fuel : Nat) (root : Trie) (h : Heap) :
    ∃ q : Queue, (createFailureLinks fail fuel root h).2.live ⊆ q.map (·.1) ++ h.live := by
  unfold createFailureLinks
  have hp := pushAll_inv fail root.children [] h.live h (by simp [QInv])
  cases e : pushAll fail root.children [] h with
  | mk rq h1 =>
    obtain ⟨r, q⟩ := rq
    rw [e] at hp
    cases r with
    | insufficientMemory => exact ⟨q, hp⟩
    | ok =>
      simp only
      have hb := bfs_inv fail fuel q h.live h1 hp
      cases e2 : bfs fail fuel q h1 with
      | mk rq2 h2 =>
        obtain ⟨r2, q2⟩ := rq2
        rw [e2] at hb
        exact ⟨q2, hb⟩

/-- The code as it is leaks nothing under the extra hypothesis that the function returns with an
    empty queue (which is the case when no push fails and the loop runs to completion).
    Full statement (false, see `createFailureLinks_leaks`): `∀ fail, live_after ⊆ live_before`. -/
theorem createFailureLinks_no_leak_partial (fuel : Nat) (root : Trie) (h : Heap)
    (hp : (pushAll fail root.children [] h).1.1 = .ok)
    (hq : (bfs fail fuel (pushAll fail root.children [] h).1.2 (pushAll fail root.children [] h).2).1.2 = []) :
    (createFailureLinks fail fuel root h).2.live ⊆ h.live := by
  unfold createFailureLinks
  have hpi := pushAll_inv fail root.children [] h.live h (by simp [QInv])
  cases e : pushAll fail root.children [] h with
  | mk rq h1 =>
    obtain ⟨r, q⟩ := rq
    rw [e] at hpi hp hq
    simp only at hp hq
    subst hp
    simp only
    have hb := bfs_inv fail fuel q h.live h1 hpi
    cases e2 : bfs fail fuel q h1 with
    | mk rq2 h2 =>
      obtain ⟨r2, q2⟩ := rq2
      rw [e2] at hb hq
      simp only at hq
      subst hq
      simpa [QInv] using hb

example : (createFailureLinks (fun _ => false) 10 (.node [.node [.node []], .node []]) ⟨0, []⟩) = (.ok, ⟨3, []⟩) := by decide

/-- The proposed patch (drain the queue on the error path): nothing leaks for ANY oracle, any
    trie and any start heap, on the error path and on the success path. -/
theorem createFailureLinksFixed_no_leak (fuel : Nat) (root : Trie) (h : Heap) :
    (createFailureLinksFixed fail fuel root h).2.live ⊆ h.live := by
  unfold createFailureLinksFixed
  have hp := pushAll_inv fail root.children [] h.live h (by simp [QInv])
  cases e : pushAll fail root.children [] h with
  | mk rq h1 =>
    obtain ⟨r, q⟩ := rq
    rw [e] at hp
    cases r with
    | insufficientMemory => exact freeAll_cover _ _ _ hp
    | ok =>
      simp only
      have hb := bfs_inv fail fuel q h.live h1 hp
      cases e2 : bfs fail fuel q h1 with
      | mk rq2 h2 =>
        obtain ⟨r2, q2⟩ := rq2
        rw [e2] at hb
        cases r2 with
        | ok => exact freeAll_cover _ _ _ hb
        | insufficientMemory => exact freeAll_cover _ _ _ hb

/-- **`_yr_ac_build_transition_table` (patched: the queue is cleared when the slot search fails)**: for every
    failure oracle, trie, fuel and start state, whatever the outcome, the only blocks left are the ones the
    automaton owns (freed by `yr_ac_automaton_destroy`) — no queue node survives. -/
theorem buildTable_patched_no_leak (fuel : Nat) (q : Queue) (owned base : List Nat) (h : Heap)
    (hi : h.live ⊆ q.map (·.1) ++ (owned ++ base)) :
    (buildTable fail true fuel q owned h).2.live ⊆ (buildTable fail true fuel q owned h).1.2 ++ base := by
  induction fuel generalizing q owned h with
  | zero =>
    simp only [buildTable]
    exact freeAll_cover _ _ _ hi
  | succ n ih =>
    cases q with
    | nil => simp only [buildTable]; simpa using hi
    | cons bt q =>
      obtain ⟨b, t⟩ := bt
      simp only [buildTable]
      have h1i : (free b h).2.live ⊆ q.map (·.1) ++ (owned ++ base) := by
        apply free_cover
        simpa using hi
      cases e : alloc fail (free b h).2 with
      | mk o h2 =>
        cases o with
        | none =>
          simp only [↓reduceIte]
          apply freeAll_cover
          rw [(alloc_none fail e).1]; exact h1i
        | some a =>
          simp only
          have h2i : QInv q (a :: owned ++ base) h2 := by
            unfold QInv
            rw [(alloc_some fail e).1]
            subset_tac
          have hp := pushAll_inv fail t.children q (a :: owned ++ base) h2 h2i
          cases e2 : pushAll fail t.children q h2 with
          | mk rq h3 =>
            obtain ⟨r, q'⟩ := rq
            rw [e2] at hp
            cases r with
            | ok =>
              simp only
              exact ih q' (a :: owned) h3 (by simpa [QInv, List.append_assoc] using hp)
            | insufficientMemory =>
              simp only
              exact freeAll_cover _ _ _ (by simpa [QInv, List.append_assoc] using hp)

/-- Before the patch a failed slot search abandons the queue. Witness: two states queued, the first slot
    allocation fails: the second queue node stays allocated. -/
theorem buildTable_as_is_leaks :
    ∃ (fail : Nat → Bool) (q : Queue) (h : Heap), (buildTable fail false 5 q [] h).1.1 = .insufficientMemory ∧
      ¬ (buildTable fail false 5 q [] h).2.live ⊆ (buildTable fail false 5 q [] h).1.2 :=
  ⟨fun _ => true, [(100, .node []), (101, .node [])], ⟨0, [100, 101]⟩, by decide, by decide⟩

example : (createFailureLinksFixed (fun k => k == 1) 10 (.node [.node [], .node []]) ⟨0, []⟩) = (.insufficientMemory, ⟨2, []⟩) := by decide

/-! ### verification loops of the block scanner and the fast-exec position list (structure read from the source) -/

/-- **The first failing verification is what the block scan returns**: with `GOTO_EXIT_ON_ERROR` around every
    `yr_scan_verify_match` the loop over a state's match list succeeds iff every verification succeeded — an
    allocation failure in an earlier entry can not be overwritten by a later success. -/
theorem verify_loop_reports_errors (rs : List Res) :
    verifyLoop true .ok rs = .ok ↔ ∀ r ∈ rs, r = .ok := by
  induction rs with
  | nil => simp [verifyLoop]
  | cons r rs ih =>
    simp only [verifyLoop, ↓reduceIte, List.mem_cons, forall_eq_or_imp]
    by_cases hr : r = .ok
    · simp [hr, ih]
    · simp [hr]

/-- … whereas keeping only the last result (tested once after the loop) swallows an earlier failure.
    Witness: the first of two verifications runs out of memory. -/
theorem verify_loop_last_result_swallows :
    ∃ rs : List Res, (∃ r ∈ rs, r ≠ .ok) ∧ verifyLoop false .ok rs = .ok :=
  ⟨[.insufficientMemory, .ok], by decide, by decide⟩

/-- **yr_re_fast_exec keeps every position reachable**: with the tail pointer maintained inside the insertion
    loop, for every failure oracle, every number of insertions, every pool content and every list whose `last`
    designates its final node, a failed `_yr_re_fast_exec_position_create` hands the WHOLE list back to the pool
    (no node is cut off), and on success `last` still designates the final node. -/
theorem insertLoop_no_orphans (k ip : Nat) (st : FastExec) (h : Heap)
    (hl : st.lastIdx + 1 = st.list.length) (hip : ip ≤ st.lastIdx) :
    (insertLoop fail true k ip st h).1.2.2 = [] ∧
    ((insertLoop fail true k ip st h).1.1 = .ok →
      (insertLoop fail true k ip st h).1.2.1.lastIdx + 1 = (insertLoop fail true k ip st h).1.2.1.list.length) := by
  induction k generalizing ip st h with
  | zero => simp [insertLoop, hl]
  | succ k ih =>
    simp only [insertLoop]
    have hpc : ∀ r, positionCreate fail st h = r → r.1.2.list = st.list ∧ r.1.2.lastIdx = st.lastIdx := by
      intro r hr
      unfold positionCreate at hr
      cases hp : st.pool with
      | nil =>
        rw [hp] at hr
        cases ha : alloc fail h with
        | mk o h1 => rw [ha] at hr; cases o <;> (simp only at hr; subst hr; exact ⟨rfl, rfl⟩)
      | cons p ps => rw [hp] at hr; simp only at hr; subst hr; exact ⟨rfl, rfl⟩
    cases e : positionCreate fail st h with
    | mk r h1 =>
      obtain ⟨o, st1⟩ := r
      have hs := hpc _ e
      simp only at hs
      cases o with
      | none =>
        simp only [destroyList]
        refine ⟨?_, fun hx => by cases hx⟩
        apply List.drop_eq_nil_of_le
        rw [hs.1, hs.2]; omega
      | some b =>
        simp only
        apply ih
        · simp only [List.length_append, List.length_take, List.length_cons, List.length_drop, hs.1, hs.2, if_true, ↓reduceIte, Nat.min_def]
          (repeat' split) <;> omega
        · simp only [hs.2, if_true, ↓reduceIte]
          (repeat' split) <;> omega

/-- With the tail pointer repaired only after the loop a failure in the middle cuts nodes off the list: they are in
    neither the list nor the pool (never freed). Witness: one node in the list, the second creation fails. -/
theorem insertLoop_stale_tail_orphans :
    ∃ (fail : Nat → Bool) (k ip : Nat) (st : FastExec) (h : Heap), st.lastIdx + 1 = st.list.length ∧
      (insertLoop fail false k ip st h).1.1 = .insufficientMemory ∧ (insertLoop fail false k ip st h).1.2.2 ≠ [] :=
  ⟨fun i => i == 1, 3, 0, ⟨[], [100], 0⟩, ⟨0, [100]⟩, by decide, by decide, by decide⟩

example : (insertLoop (fun i => i == 1) true 3 0 ⟨[], [100], 0⟩ ⟨0, [100]⟩).1 = (.insufficientMemory, ⟨[100, 0], [], 0⟩, []) := by decide

/-- The source has the structure both theorems are about: every `yr_scan_verify_match` call of
    `_yr_scanner_scan_mem_block` sits in GOTO_EXIT_ON_ERROR/FAIL_ON_ERROR, and `yr_re_fast_exec` updates `last`
    inside the insertion loop (facts regenerated by translators/oomsites.py). -/
theorem gen_oom_sites :
    Gen.OomSites.verifyStopsAtFirstError = true ∧ Gen.OomSites.fastExecTailInLoop = true ∧ Gen.OomSites.unparsedItems = [] := by decide


end YaraModel.AllocM
