/-
  C01 — end to end over the model: atoms → automaton construction → scan → verification → match list.
  Thm/C01.lean proves the pipeline exact for ANY candidate stage that meets the automaton contract `CandsOK`;
  Thm/AcBuild.lean proves that the automaton BUILT by the model of ahocorasick.c meets that contract for every atom list.
  Composed here: for every rule set of text strings (any modifiers, any window choice per string, any number of strings
  sharing the automaton) and every buffer, each string's reported offsets are exactly its documented occurrences.
  No certificate and no hypothesis about the automaton is left; the two semantic hypotheses of C01 (F19, F20) remain.
-/
import YaraModel.Thm.C01
import YaraModel.Thm.AcBuild
namespace YaraModel.Text
open YaraModel.AC YaraModel.AC.Build

/-- a text string of a rule set: its index, the window the atom heuristic picked, modifiers, bytes -/
structure TStr where
  idx : Nat
  w : Nat
  m : Mods
  s : Bytes

/-- everything `yr_ac_add_string` is given for the rule set, string by string -/
def atomsFor (strs : List TStr) : List (Nat × Atom) :=
  strs.flatMap fun t => (atomsOf t.w t.m t.s).map fun a => (t.idx, a)

theorem l0_bytes_ne_nil {w : Nat} {m : Mods} {s : Bytes} (hs : s.isEmpty = false) (hw : ValidWindow w s) :
    ∀ a ∈ l0 w m s, a.bytes ≠ [] := by
  have hb : (baseAtom w s).bytes ≠ [] := by
    unfold baseAtom ValidWindow at *
    intro h
    have hl := congrArg List.length h
    have : 0 < s.length := by cases s <;> simp_all
    simp only [List.length_take, List.length_drop, List.length_nil] at hl
    omega
  have hwd : (wideOf (baseAtom w s)).bytes ≠ [] := by
    unfold wideOf
    obtain ⟨x, t, t', _, h2⟩ := widen_cons_ne hb
    simp [h2]
  intro a ha
  unfold l0 at ha
  split at ha
  · split at ha
    · simp only [List.mem_cons, List.not_mem_nil, or_false] at ha
      rcases ha with rfl | rfl
      · exact hb
      · exact hwd
    · simp only [List.mem_singleton] at ha; subst ha; exact hwd
  · simp only [List.mem_singleton] at ha; subst ha; exact hb

theorem atomsOf_bytes_ne_nil {w : Nat} {m : Mods} {s : Bytes} (hleg : m.legal = true) (hs : s.isEmpty = false)
    (hw : ValidWindow w s) : ∀ a ∈ atomsOf w m s, a.bytes ≠ [] := by
  intro a ha
  obtain ⟨a0, h0, _, hrel⟩ := mem_atomsOf_shape hleg ha
  have h0ne := l0_bytes_ne_nil (m := m) hs hw a0 h0
  unfold Rel at hrel
  intro hnil
  rw [hnil] at hrel
  split at hrel
  · have := congrArg List.length hrel
    simp at this
    exact h0ne (List.eq_nil_of_length_eq_zero this.symm)
  · split at hrel
    · exact h0ne hrel.symm
    · obtain ⟨k, _, hk⟩ := hrel
      have := congrArg List.length hk
      simp at this
      exact h0ne (List.eq_nil_of_length_eq_zero this.symm)

theorem mem_atomsFor {strs : List TStr} (hidx : (strs.map (·.idx)).Nodup) {t : TStr} (ht : t ∈ strs) (a : Atom) :
    (t.idx, a) ∈ atomsFor strs ↔ a ∈ atomsOf t.w t.m t.s := by
  unfold atomsFor
  simp only [List.mem_flatMap, List.mem_map, Prod.mk.injEq]
  constructor
  · rintro ⟨t', ht', a', ha', hi, rfl⟩
    have : t' = t := by
      clear ha'
      induction strs with
      | nil => cases ht
      | cons x xs ih =>
        simp only [List.map_cons, List.nodup_cons, List.mem_map, not_exists, not_and] at hidx
        rcases List.mem_cons.mp ht with rfl | h1 <;> rcases List.mem_cons.mp ht' with rfl | h2
        · rfl
        · exact absurd hi (hidx.1 t' h2)
        · exact absurd hi.symm (hidx.1 t h1)
        · exact ih hidx.2 h1 h2
    subst this; exact ha'
  · intro ha
    exact ⟨t, ht, a, ha, rfl, rfl⟩

/-- **End to end.** For every rule set of text strings with distinct indices (each legal, non-empty, with any valid atom
    window), for the automaton the construction builds from all their atoms together, every string `t` of the set and every
    buffer: running verification and match-list insertion on the candidates the automaton's scan reports for `t` gives
    exactly the documented occurrences of `t`, ascending, each with an admissible length/key. (`h19`, `h20`: the two
    known deviations F19 / F20 of the verification step, see Thm/C01.) -/
theorem text_strings_end_to_end (strs : List TStr) (hidx : (strs.map (·.idx)).Nodup)
    (hleg : ∀ t ∈ strs, t.m.legal = true) (hs : ∀ t ∈ strs, t.s.isEmpty = false) (hw : ∀ t ∈ strs, ValidWindow t.w t.s)
    (hlen : (atomsFor strs).length < 2 ^ 32) (T : Tables) (hb : build (atomsFor strs) = some T)
    (t : TStr) (ht : t ∈ strs) (buf : Bytes)
    (h19 : ∀ o, variantsAt (anyKey t.m) t.s buf o = variantsAt t.m t.s buf o) (h20 : ∀ o, ¬ MixedAt t.m t.s buf o) :
    let C := (scan T buf).filterMap fun x => if x.1 = t.idx then some (x.2.1, x.2.2) else none
    (pipeline t.m t.s buf C).map (·.off) = (occurrences t.m t.s buf).map (·.1) ∧
    (∀ x ∈ pipeline t.m t.s buf C, (x.len, x.key) ∈ admissibleAt t.m t.s buf x.off) ∧
    Asc (pipeline t.m t.s buf C) := by
  intro C
  have hne : ∀ a ∈ atomsFor strs, a.2.bytes ≠ [] := by
    intro a ha
    unfold atomsFor at ha
    simp only [List.mem_flatMap, List.mem_map] at ha
    obtain ⟨t', ht', a', ha', rfl⟩ := ha
    exact atomsOf_bytes_ne_nil (hleg t' ht') (hs t' ht') (hw t' ht') a' ha'
  have hC : CandsOK t.w t.m t.s buf C :=
    build_candsOK (atomsFor strs) (fun a ha hnil => absurd hnil (hne a ha)) hlen T hb t.idx t.w t.m t.s (mem_atomsFor hidx ht) buf
  exact pipeline_exact_partial t.w t.m t.s buf C (hleg t ht) (hs t ht) (hw t ht) hC h19 h20

/-! Non-vacuity: two strings sharing a prefix in one automaton ("abcd" nocase-free ascii, "abce" wide+ascii); the built
    automaton's scan, filtered per string and run through the pipeline, reports each string's occurrences. -/
example :
    let m1 : Mods := { ascii := true, wide := false, nocase := false, fullword := false, xor := none }
    let m2 : Mods := { ascii := true, wide := true, nocase := false, fullword := false, xor := none }
    let strs : List TStr := [⟨0, 0, m1, [0x61, 0x62, 0x63, 0x64]⟩, ⟨1, 0, m2, [0x61, 0x62, 0x63, 0x65]⟩]
    let buf : Bytes := [0x2e, 0x61, 0x62, 0x63, 0x64, 0x61, 0x62, 0x63, 0x65, 0x61, 0x00, 0x62, 0x00, 0x63, 0x00, 0x65, 0x00]
    (build (atomsFor strs)).map (fun T =>
      (strs.map fun t => (pipeline t.m t.s buf ((scan T buf).filterMap fun x => if x.1 = t.idx then some (x.2.1, x.2.2) else none)).map (·.off))) =
      some [[1], [5, 9]] := by decide +kernel

/-! ### The two hypotheses cannot be dropped: kernel-checked witnesses of F19 and F20 on the whole chain -/

/-- the chain of `text_strings_end_to_end` for a single string, as a function -/
def chainOffsets (t : TStr) (buf : Bytes) : Option (List Nat) :=
  (build (atomsFor [t])).map fun T =>
    (pipeline t.m t.s buf ((scan T buf).filterMap fun x => if x.1 = t.idx then some (x.2.1, x.2.2) else none)).map (·.off)

/-- **F19 (known finding), negation witness.** Without `h19` the statement is false: `ascii wide xor(4-7)`, atom window 5 —
    the buffer holds the string xored with key 3 (out of range) at offset 0; an in-range wide atom of another window raises a
    verification at that offset and the verification accepts any key. The chain reports offset 0, the documented occurrences
    are none. (corpus/C01 case k0, replayed on the real code by the check.) -/
theorem full_statement_false_without_h19 :
    let m : Mods := { ascii := true, wide := true, nocase := false, fullword := false, xor := some (4, 7) }
    let s : Bytes := [0x42, 0xcc, 0x01, 0x00, 0x41, 0x63, 0x90, 0x20, 0xc4, 0x42]
    let buf : Bytes := [0x41, 0xcf, 0x02, 0x03, 0x42, 0x60, 0x93, 0x23, 0xc7, 0x41, 0x67, 0x04, 0x94, 0x04, 0x24, 0x04, 0xc0, 0x04, 0x46, 0x04,
      0x41, 0x20, 0x09, 0x4b, 0x87, 0x4b, 0x4a, 0x4b, 0x4b, 0x4b, 0x0a, 0x4b, 0x28, 0x4b, 0xdb, 0x4b, 0x6b, 0x4b, 0x8f, 0x4b, 0x09, 0x4b]
    m.legal = true ∧ (5 + min 4 s.length ≤ s.length) ∧ chainOffsets ⟨0, 5, m, s⟩ buf = some [0] ∧ (occurrences m s buf).map (·.1) = [] := by
  decide +kernel

/-- **F20 (known finding), negation witness.** Without `h20` the statement is false: `ascii wide fullword` on a string with NUL
    bytes — at offset 11 both encodings occur, the ascii one fails `fullword`, the wide one passes; verification stops at the
    first encoding that compares equal and reports nothing, the documented occurrences contain offset 11. -/
theorem full_statement_false_without_h20 :
    let m : Mods := { ascii := true, wide := true, nocase := false, fullword := true, xor := none }
    let s : Bytes := [0x42, 0x00, 0x00]
    let buf : Bytes := [0x30, 0x39, 0xff, 0x00, 0x20, 0x39, 0x01, 0xff, 0x39, 0x00, 0x42, 0x42, 0x00, 0x00, 0x00, 0x00, 0x00, 0x20, 0x7a, 0x5f,
      0x42, 0x30, 0x00, 0x42, 0x90, 0x00, 0x42, 0x20, 0x00, 0x42, 0x00, 0x20, 0x42, 0x00, 0x01]
    m.legal = true ∧ (0 + min 4 s.length ≤ s.length) ∧ chainOffsets ⟨0, 0, m, s⟩ buf = some [] ∧ (occurrences m s buf).map (·.1) = [11] := by
  decide +kernel

end YaraModel.Text
