/-
  C13 — All scan entry points agree, also across interrupted block iteration.
  Property theorems only (helpers: Lemmas/ScannerResume.lean). Model: Model/Scanner.lean;
  formulation (entry points, run-to-completion, schedules): Spec/Scanner.lean.
  Quantified over every parameter instantiation, every scanner state / history, every block list,
  every schedule of iterator answers (ok, not-ready, stall, error), every callback script.
  The statements hold for both variants of the code (`Variant.current`, `Variant.fixed`).
-/
import YaraModel.Lemmas.ScannerResume
import YaraModel.Lemmas.ScannerPlace
namespace YaraModel.Scan

/-- **Resume equivalence.** For every block partition and every schedule in which "not ready" is
    answered to the block loop only (`nrWithin`: at arbitrary calls, any number of times, also to the
    very first call), repeating the call while it returns ERROR_BLOCK_NOT_READY produces — messages of
    all calls concatenated — exactly the callbacks, the result code, the final scanner state and the
    final clock/callback count of ONE call with the same partition whose iterator is never "not ready";
    nothing is duplicated or lost, and the repetition ends (`fuel` > number of not-ready answers). -/
theorem resume_equiv (P : Params) (v : Variant) (s : Sc) (x : Start) (w : World) (fuel : Nat)
    (hcb : s.set.hasCallback = true)
    (hblk : nrWithin (x.blocks.length + 1) x.sched = true)
    (hfuel : countNR x.sched < fuel) :
    let a := runToEnd P v x.cb x.stack fuel s x.it w
    let b := scanCall P v x.cb x.stack s { x.it with sched := dropNR x.sched } w
    a.msgs = b.msgs ∧ a.rc = b.rc ∧ a.sc = b.sc ∧ a.world = b.world ∧ a.rc ≠ .blockNotReady :=
  runToEnd_eq_uninterrupted P v x.cb x.stack s x.it w fuel hcb (by simp [Start.it]) hblk hfuel

/-- **The deadline is the deadline of the scan, not of the call.** A special case of `resume_equiv` worth its own
    line (the stopwatch is started in the fresh-scan prologue only, `freshInit`; a resumed call keeps `swStart`):
    when the uninterrupted scan — whose iterator may take time, `Act.stall` — ends with ERROR_SCAN_TIMEOUT, so does
    the scan interrupted by "not ready" answers and resumed, however the waiting is split over the calls. -/
theorem timeout_not_extended_by_resume (P : Params) (v : Variant) (s : Sc) (x : Start) (w : World) (fuel : Nat)
    (hcb : s.set.hasCallback = true)
    (hblk : nrWithin (x.blocks.length + 1) x.sched = true)
    (hfuel : countNR x.sched < fuel)
    (hto : (scanCall P v x.cb x.stack s { x.it with sched := dropNR x.sched } w).rc = .scanTimeout) :
    (runToEnd P v x.cb x.stack fuel s x.it w).rc = .scanTimeout := by
  have h := (resume_equiv P v s x w fuel hcb hblk hfuel).2.1
  exact h.trans hto

/-- **The invariant behind it**: when the loop is suspended, its state (matches, flags, entry point,
    iterator position, clock, messages so far) is the state of the uninterrupted run at the same iterator
    position — continuing without interruptions from the suspension point gives the uninterrupted loop. -/
theorem suspended_state_is_resume_point (P : Params) (cb : Nat → CbRet) (set : Settings) (blocks : List Block)
    (sched : List Act) (c : Core) (w : World)
    (h : (blockLoop P cb set blocks sched c w).result = .blockNotReady) :
    let o := blockLoop P cb set blocks sched c w
    blockLoop P cb set blocks (dropNR sched) c w =
      (blockLoop P cb set o.rest (dropNR o.sched) o.core o.world).pre o.msgs :=
  ((blockLoop_segment P cb set blocks sched c w).1 h).1

/-- Sufficient condition made explicit: with at most `blocks + 1` answers of another kind before it,
    a not-ready answer is consumed by the block loop, and rule evaluation then sees none. -/
theorem eval_sees_no_not_ready (P : Params) (cb : Nat → CbRet) (set : Settings) (n : Nat) (blocks : List Block)
    (sched : List Act) (c : Core) (w : World) (h : nrWithin (blocks.length + 1) sched = true) :
    (loopToEnd P cb set n blocks sched c w).result = .success →
      countNR (loopToEnd P cb set n blocks sched c w).sched = 0 :=
  loopToEnd_nrWithin P cb set n blocks sched c w h

/-- **All wrappers funnel** into `yr_scanner_scan_mem_blocks` on a single-block iterator
    (`base 0`, `size` = buffer size, `file_size` = buffer size, `last_error` = success, never not-ready):
    scanner-level mem / file / fd, rules-level mem / file / fd (a new scanner with the given callback,
    timeout and flags) and rules-level blocks. Mapping failures return their error with no callback. -/
theorem wrappers_funnel (P : Params) (v : Variant) (cb : Nat → CbRet) (stack : Nat) (s : Sc) (set : Settings)
    (data : Option Nat) (size : Nat) (e : Err) (it : It) (w : World) :
    scannerScanMem P v cb stack s data size w = scanCall P v cb stack s (memIt data size) w ∧
    scannerScanMapped P v cb stack s (.ok (data, size)) w = scanCall P v cb stack s (memIt data size) w ∧
    rulesScanMem P v cb stack set data size w = scanCall P v cb stack (Sc.fresh set) (memIt data size) w ∧
    rulesScanMapped P v cb stack set (.ok (data, size)) w = scanCall P v cb stack (Sc.fresh set) (memIt data size) w ∧
    rulesScanBlocks P v cb stack set it w = scanCall P v cb stack (Sc.fresh set) it w ∧
    (scannerScanMapped P v cb stack s (.error e) w).msgs = [] ∧ (scannerScanMapped P v cb stack s (.error e) w).rc = e ∧
    (rulesScanMapped P v cb stack set (.error e) w).msgs = [] ∧ (rulesScanMapped P v cb stack set (.error e) w).rc = e :=
  ⟨rfl, rfl, rfl, rfl, rfl, rfl, rfl, rfl, rfl⟩

/-- **Entry points agree** (code with the C10 fixes): the scanner-level entry points used on a scanner
    with ANY history give the callbacks and result of the rules-level entry points (which scan on a new
    scanner), for memory, mapped files and descriptors alike. -/
theorem entry_points_agree (P : Params) (set0 : Settings) (w0 : World) (h : List HOp)
    (cb : Nat → CbRet) (stack : Nat) (data : Option Nat) (size : Nat) (hcb : (settingsAfter set0 h).hasCallback = true) :
    let st := runH P .fixed (HSt.init set0 w0) h
    let a := scannerScanMapped P .fixed cb stack st.sc (.ok (data, size)) { st.w with nmsg := 0 }
    let b := rulesScanMem P .fixed cb stack (settingsAfter set0 h) data size { st.w with nmsg := 0 }
    a.msgs = b.msgs ∧ a.rc = b.rc := by
  intro st a b
  have hinv : HInv st := runH_inv P .fixed _ h (HInv.init set0 w0) (reuseOk_fixed h)
  have hset : st.sc.set = settingsAfter set0 h := runH_set P .fixed _ h
  have := scanCall_fresh_eq P cb stack st.sc (memIt data size) { st.w with nmsg := 0 }
    (by rw [hset]; exact hcb) hinv.inv (Or.inl (by simp [memIt]))
  rw [hset] at this
  simp only [CallOut.obs, Prod.mk.injEq] at this
  exact ⟨this.2.2.2.2.1, this.2.2.2.2.2⟩

/-! ### Place-dependent operators: absolute offset = block base + offset in the block -/

/-- **Every place-dependent string operator is a function of the ABSOLUTE occurrences** (`absT`: position =
    `match->base + match->offset`): `$s`, `#s`, `$s at x`, `$s in (lo..hi)`, `#s in (lo..hi)`, `@s[i]`, `!s[i]`,
    `N of (...) at x`, `N of (...) in (lo..hi)` as the evaluator computes them from the scanner's match lists
    (`PlaceOps`) equal their specification over absolute occurrences (`PlaceSpec`). -/
theorem place_operators_use_absolute_offsets (t : MatchTable) (s i off lo hi : Nat) (ss : List Nat) :
    PlaceOps.found t s = PlaceSpec.found (absT t) s ∧
    PlaceOps.count t s = PlaceSpec.count (absT t) s ∧
    PlaceOps.foundAt t s off = PlaceSpec.foundAt (absT t) s off ∧
    PlaceOps.foundIn t s lo hi = PlaceSpec.foundIn (absT t) s lo hi ∧
    PlaceOps.countIn t s lo hi = PlaceSpec.countIn (absT t) s lo hi ∧
    PlaceOps.offset t s i = PlaceSpec.offset (absT t) s i ∧
    PlaceOps.length t s i = PlaceSpec.length (absT t) s i ∧
    PlaceOps.ofAt t ss off = PlaceSpec.ofAt (absT t) ss off ∧
    PlaceOps.ofIn t ss lo hi = PlaceSpec.ofIn (absT t) ss lo hi :=
  ⟨found_spec t s, count_spec t s, foundAt_spec t s off, foundIn_spec t s lo hi, countIn_spec t s lo hi,
   offset_spec t s i, length_spec t s i, ofAt_spec t ss off, ofIn_spec t ss lo hi⟩

/-- **Partition invariance** (strings that are not chained — `hnc`; for chained strings see `two_piece_chain_in_one_block`,
    `pieces_in_different_blocks_never_combine`, `chain_in_one_part_equals_whole` below — any partition that does not cut an occurrence: the blocks' candidates, put at their
    absolute offsets `base + off` and concatenated, are the candidates of the whole buffer — also for bases that
    are not contiguous): collecting the matches block by block gives the same absolute match table, the same
    too-many-matches dialogue with the callback, the same result code and the same remaining state as collecting
    them from the single block `whole`. Any limit, any callback script, fast mode or not. -/
theorem partition_invariant_matches (P : Params) (cb : Nat → CbRet) (fast : Bool) (parts : List (Block × List Cand))
    (whole : Block) (ksW : List Cand) (c : Core) (w : World) (hnc : ∀ s, P.chain s = none) (hu : c.unconfirmed = [])
    (hk : absCands whole ksW = parts.flatMap fun p => absCands p.1 p.2) :
    let a := collect P cb fast parts c w
    let b := addCands P cb fast whole ksW c w
    absT a.1.found = absT b.1.found ∧ { a.1 with found := [] } = { b.1 with found := [] } ∧ a.2 = b.2 := by
  have := collect_partition P cb fast parts whole ksW c c w hnc hu (Core.AbsEq.refl c) hk
  exact ⟨this.1.found, this.1.rest, this.2⟩

/-- … hence every place operator (and every condition built from them) has the same value after scanning the partition
    as after scanning the whole buffer in one block (`yr_rules_scan_mem` of the same bytes). -/
theorem partition_invariant_operators (P : Params) (cb : Nat → CbRet) (fast : Bool) (parts : List (Block × List Cand))
    (whole : Block) (ksW : List Cand) (c : Core) (w : World) (hnc : ∀ s, P.chain s = none) (hu : c.unconfirmed = [])
    (hk : absCands whole ksW = parts.flatMap fun p => absCands p.1 p.2) (s i off lo hi : Nat) (ss : List Nat) :
    let ta := (collect P cb fast parts c w).1.found
    let tb := (addCands P cb fast whole ksW c w).1.found
    PlaceOps.found ta s = PlaceOps.found tb s ∧ PlaceOps.count ta s = PlaceOps.count tb s ∧
    PlaceOps.foundAt ta s off = PlaceOps.foundAt tb s off ∧ PlaceOps.foundIn ta s lo hi = PlaceOps.foundIn tb s lo hi ∧
    PlaceOps.countIn ta s lo hi = PlaceOps.countIn tb s lo hi ∧ PlaceOps.offset ta s i = PlaceOps.offset tb s i ∧
    PlaceOps.length ta s i = PlaceOps.length tb s i ∧ PlaceOps.ofAt ta ss off = PlaceOps.ofAt tb ss off ∧
    PlaceOps.ofIn ta ss lo hi = PlaceOps.ofIn tb ss lo hi := by
  have h := (partition_invariant_matches P cb fast parts whole ksW c w hnc hu hk).1
  simp [found_spec, count_spec, foundAt_spec, foundIn_spec, countIn_spec, offset_spec, length_spec, ofAt_spec, ofIn_spec, h]

/-- The same at the level of the block loop of `yr_scanner_scan_mem_blocks`: an iterator that is never late over plain
    blocks (data available, no executable header, no verifier error), no timeout. The loop over the partition and the
    loop over the single block `whole` end with the same absolute match table, messages and result code. -/
theorem block_loop_partition_invariant (P : Params) (cb : Nat → CbRet) (set : Settings) (blocks : List Block) (whole : Block)
    (c : Core) (w : World) (hnc : ∀ s, P.chain s = none) (hu : c.unconfirmed = [])
    (ht : set.timeout = 0) (hb : ∀ b ∈ blocks, PlainBlock P set b) (hw : PlainBlock P set whole)
    (hk : absCands whole (blockCands P whole) = blocks.flatMap fun b => absCands b (blockCands P b)) :
    let a := blockLoop P cb set blocks [] c w
    let b := blockLoop P cb set [whole] [] c w
    absT a.core.found = absT b.core.found ∧ a.msgs = b.msgs ∧ a.result = b.result ∧ a.world = b.world := by
  intro a b
  have ha := blockLoop_collect P cb set blocks c w ht hb
  have hb' := blockLoop_collect P cb set [whole] c w ht (by simpa using hw)
  have hp := collect_partition P cb set.fastMode (blocks.map fun b => (b, blockCands P b)) whole (blockCands P whole) c c w
    hnc hu (Core.AbsEq.refl c) (by simpa [List.flatMap_map] using hk)
  simp only [List.map_cons, List.map_nil, collect, clear_unconfirmed_id c hu] at hb'
  rcases hW : addCands P cb set.fastMode whole (blockCands P whole) c w with ⟨cW, wW, msW, eW⟩
  rw [hW] at hp hb'
  rw [← ha] at hp
  have hb2 : (b.core, b.world, b.msgs, b.result) = (cW, wW, msW, eW) := by
    rw [hb']; cases eW <;> simp
  simp only [Prod.mk.injEq] at hb2 hp
  obtain ⟨h1, h2, h3, h4⟩ := hb2
  obtain ⟨hf, hw', hm, he⟩ := hp
  exact ⟨by rw [h1]; exact hf.found, by rw [h3]; exact hm, by rw [h4]; exact he, by rw [h2]; exact hw'⟩

/-! ### Chained strings and blocks (after /repo 173a2ea: the unconfirmed lists are cleared at the start of every block)

    Spec decision, explicit: a chained string is reported iff ALL its pieces lie in ONE block at admissible gaps; the match
    is at `base + head offset` and its length is the true one (`tail end - head start`). A partition that keeps a chain
    inside one block reports it exactly as the whole buffer does; a partition that separates the pieces reports nothing for
    that occurrence, and never invents one. Stated and proved for the two-piece chain `chainP gmin gmax`
    (`{ head [gmin-gmax] tail }`, any offsets, lengths, bases); longer chains and several occurrences are covered by the tie. -/

/-- **one block**: the chain is reported iff the tail starts `gmin..gmax` bytes after the end of the head, at the block's base +
    the head's offset, with the true length -/
theorem two_piece_chain_in_one_block (gmin gmax : Nat) (cb : Nat → CbRet) (b : Block) (oh lh ot lt : Nat) (w : World) :
    (addCands (chainP gmin gmax) cb false b [⟨0, oh, lh⟩, ⟨1, ot, lt⟩] Core.fresh w).1.found =
      if oh + lh + gmin ≤ ot ∧ ot ≤ oh + lh + gmax then [(0, [⟨b.base, oh, ot - oh + lt⟩])] else [] := by
  by_cases h1 : oh + lh + gmin ≤ ot <;> by_cases h2 : ot ≤ oh + lh + gmax
  · have h3 : ¬ (oh + lh + gmax + 1028 < ot) := by omega
    simp [addCands, chainP, chainStep, Core.fresh, uget, uset, insU, pruneScan, gapOk, propagate, maxChain, chainHead, tset, tget,
      insMatch, setIns, h1, h2, h3]
  · have h3 : ¬ (ot ≤ oh + lh + gmax) := h2
    by_cases h4 : oh + lh + gmax + 1028 < ot <;>
    simp [addCands, chainP, chainStep, Core.fresh, uget, uset, insU, pruneScan, gapOk, tset, tget, h1, h2, h4]
  · by_cases h4 : oh + lh + gmax + 1028 < ot <;>
    simp [addCands, chainP, chainStep, Core.fresh, uget, uset, insU, pruneScan, gapOk, tset, tget, h1, h2, h4]
  · by_cases h4 : oh + lh + gmax + 1028 < ot <;>
    simp [addCands, chainP, chainStep, Core.fresh, uget, uset, insU, pruneScan, gapOk, tset, tget, h1, h2, h4]

/-- **different blocks**: head in one block and tail in the next (or the other way round) — nothing is reported, whatever the
    in-block offsets (before the fix they were combined by in-block offsets: finding F67) -/
theorem pieces_in_different_blocks_never_combine (gmin gmax : Nat) (cb : Nat → CbRet) (b1 b2 : Block) (oh lh ot lt : Nat) (w : World) :
    (collect (chainP gmin gmax) cb false [(b1, [⟨0, oh, lh⟩]), (b2, [⟨1, ot, lt⟩])] Core.fresh w).1.found = [] ∧
    (collect (chainP gmin gmax) cb false [(b1, [⟨1, ot, lt⟩]), (b2, [⟨0, oh, lh⟩])] Core.fresh w).1.found = [] := by
  constructor <;>
  simp [collect, addCands, chainP, chainStep, Core.fresh, uget, uset, insU, pruneScan, gapOk, tget]

/-- **in general** (any parameters, any chains): what a block scan does is independent of the pieces left pending by earlier blocks -/
theorem scanBlock_ignores_pending (P : Params) (cb : Nat → CbRet) (set : Settings) (b : Block) (c : Core) (u : UTable) (w : World)
    (hd : b.data.isSome) :
    (scanBlock P cb set b { c with unconfirmed := u } w) = (scanBlock P cb set b { c with unconfirmed := [] } w) := by
  cases hb : b.data with
  | none => rw [hb] at hd; cases hd
  | some d =>
    simp only [scanBlock, hb]
    split <;> rfl

/-- **partition invariance for a chain kept inside one part**: the same absolute match (or none) as scanning the whole buffer as
    one block at base 0 -/
theorem chain_in_one_part_equals_whole (gmin gmax : Nat) (cb : Nat → CbRet) (b1 b2 : Block) (sizeW : Nat) (oh lh ot lt : Nat) (w : World) :
    absT (collect (chainP gmin gmax) cb false [(b1, []), (b2, [⟨0, oh, lh⟩, ⟨1, ot, lt⟩])] Core.fresh w).1.found =
    absT (collect (chainP gmin gmax) cb false [(⟨0, sizeW, some 0⟩, [⟨0, b2.base + oh, lh⟩, ⟨1, b2.base + ot, lt⟩])] Core.fresh w).1.found := by
  by_cases h1 : oh + lh + gmin ≤ ot <;> by_cases h2 : ot ≤ oh + lh + gmax <;>
    by_cases h4 : oh + lh + gmax + 1028 < ot
  all_goals
    have h1' : (b2.base + oh + lh + gmin ≤ b2.base + ot) = (oh + lh + gmin ≤ ot) := by simp; omega
    have h2' : (b2.base + ot ≤ b2.base + oh + lh + gmax) = (ot ≤ oh + lh + gmax) := by simp; omega
    have h4' : (b2.base + oh + lh + gmax + 1028 < b2.base + ot) = (oh + lh + gmax + 1028 < ot) := by simp; omega
    have h5 : b2.base + ot - (b2.base + oh) = ot - oh := by omega
    simp [collect, addCands, chainP, chainStep, Core.fresh, uget, uset, insU, pruneScan, gapOk, propagate, maxChain, chainHead, tset, tget,
      insMatch, setIns, absT, absM, Match.pos, h1, h2, h4, h1', h2', h4', h5]
/-- non-vacuity: "MARKER" at absolute offset 10 of a 16-byte buffer, delivered as blocks [0,4) [4,9) [9,16) (the
    match is in the third block at in-block offset 1) or as blocks with bases 0, 100, 200 (not contiguous): `in`, `at`,
    `@`, `#..in` see offset 10 resp. 201; a version that forgot the base would see 1. -/
example :
    let P : Params := { rules := [], imports := [], strRule := fun _ => 0, maxMatches := 5, cands := fun _ => [],
                        ep := fun _ _ _ _ => none, singleMatch := fun _ => false, chain := fun _ => none, pruneSlack := 1028, scanErr := fun _ => none,
                        cond := fun _ _ => .ret false, modParse := fun _ _ => none }
    let parts : List (Block × List Cand) := [(⟨0, 4, some 0⟩, []), (⟨4, 5, some 1⟩, []), (⟨9, 7, some 2⟩, [⟨0, 1, 6⟩])]
    let sparse : List (Block × List Cand) := [(⟨0, 4, some 0⟩, []), (⟨100, 5, some 1⟩, []), (⟨200, 7, some 2⟩, [⟨0, 1, 6⟩])]
    let t := (collect P (fun _ => .cont) false parts Core.fresh ⟨0, 0⟩).1.found
    let u := (collect P (fun _ => .cont) false sparse Core.fresh ⟨0, 0⟩).1.found
    PlaceOps.foundIn t 0 5 12 = true ∧ PlaceOps.foundIn t 0 0 9 = false ∧ PlaceOps.foundAt t 0 10 = true ∧
    PlaceOps.offset t 0 1 = some 10 ∧ PlaceOps.countIn t 0 10 10 = 1 ∧ PlaceOps.length t 0 1 = some 6 ∧
    PlaceOps.foundIn u 0 150 250 = true ∧ PlaceOps.offset u 0 1 = some 201 ∧ PlaceOps.foundIn u 0 0 9 = false := by
  decide

/-! ### Finding F27: a block that is not ready during rule evaluation is taken for the end of the data -/

namespace Witness13

/-- one rule `uint8(5) == <the byte there>`: walks the blocks until one contains offset 5 -/
def P : Params :=
  { rules := [⟨0, false, false, true, []⟩]
    imports := []
    strRule := fun _ => 0
    maxMatches := 1000
    cands := fun _ => []
    ep := fun _ _ _ _ => none
    singleMatch := fun _ => false, chain := fun _ => none, pruneSlack := 1028
    scanErr := fun _ => none
    cond := fun _ _ => .walk (fun b => decide (b.base ≤ 5 ∧ 5 < b.base + b.size))
                        (fun seen => .ret (seen.any fun b => decide (b.base ≤ 5 ∧ 5 < b.base + b.size)))
    modParse := fun _ _ => none }

def set : Settings := ⟨true, true, 0, true, false, false⟩
def blocks : List Block := [⟨0, 4, some 0⟩, ⟨4, 4, some 1⟩]
/-- calls: first, next, next (end of the block loop), then evaluation: first, next <- not ready -/
def lateNR : Start := ⟨blocks, [.ok, .ok, .ok, .ok, .notReady], some 8, fun _ => .cont, 16⟩
def earlyNR : Start := ⟨blocks, [.ok, .notReady, .notReady, .ok, .notReady, .ok], some 8, fun _ => .cont, 16⟩

end Witness13

open Witness13 in
/-- **F27** (both variants): if the iterator answers "not ready" to a call made by rule evaluation
    (`uintN(off)`, module load, hash/math ranges), the scan does not return ERROR_BLOCK_NOT_READY: the
    condition is evaluated as if the data ended there, the scan reports success with a different verdict,
    and `iterator->last_error` is left at ERROR_BLOCK_NOT_READY. `resume_equiv` needs `nrWithin`. -/
theorem eval_phase_not_ready_changes_verdict (v : Variant) :
    let a := runToEnd P v lateNR.cb lateNR.stack 5 (Sc.fresh set) lateNR.it ⟨0, 0⟩
    let b := scanCall P v lateNR.cb lateNR.stack (Sc.fresh set) { lateNR.it with sched := dropNR lateNR.sched } ⟨0, 0⟩
    a.msgs = [.ruleNotMatching 0 [], .scanFinished] ∧ a.rc = .success ∧ a.it.lastError = .blockNotReady ∧
    b.msgs = [.ruleMatching 0 [], .scanFinished] ∧ b.rc = .success ∧
    nrWithin (lateNR.blocks.length + 1) lateNR.sched = false := by
  cases v with
  | mk a b c => cases a <;> cases b <;> cases c <;> decide

open Witness13 in
/-- non-vacuity of `resume_equiv`: a schedule with three not-ready answers (to the second call twice and to
    the last call of the block loop) satisfies the hypotheses; four calls are needed and the final trace is
    the uninterrupted one. -/
example :
    nrWithin (earlyNR.blocks.length + 1) earlyNR.sched = true ∧ countNR earlyNR.sched = 3 ∧
    (runToEnd P .fixed earlyNR.cb earlyNR.stack 3 (Sc.fresh set) earlyNR.it ⟨0, 0⟩).rc = .blockNotReady ∧
    (runToEnd P .fixed earlyNR.cb earlyNR.stack 4 (Sc.fresh set) earlyNR.it ⟨0, 0⟩).rc = .success ∧
    (runToEnd P .fixed earlyNR.cb earlyNR.stack 4 (Sc.fresh set) earlyNR.it ⟨0, 0⟩).msgs = [.ruleMatching 0 [], .scanFinished] := by
  decide

end YaraModel.Scan
