/-
  C13 — All scan entry points agree, also across interrupted block iteration.
  Property theorems only (helpers: Lemmas/ScannerResume.lean). Model: Model/Scanner.lean;
  formulation (entry points, run-to-completion, schedules): Spec/Scanner.lean.
  Quantified over every parameter instantiation, every scanner state / history, every block list,
  every schedule of iterator answers (ok, not-ready, stall, error), every callback script.
  The statements hold for both variants of the code (`Variant.current`, `Variant.fixed`).
-/
import YaraModel.Lemmas.ScannerResume
namespace YaraModel.Scan

/-- **Resume equivalence.** For every block partition and every schedule in which "not ready" is
    answered to the block loop only (`nrWithin`: at arbitrary calls, any number of times, also to the
    very first call), repeating the call while it returns ERROR_BLOCK_NOT_READY produces — messages of
    all calls concatenated — exactly the callbacks, the result code, the final scanner state and the
    final clock/callback count of ONE call with the same partition whose iterator is never "not ready";
    nothing is duplicated or lost, and the repetition ends (`fuel` > number of not-ready answers). -/
theorem resume_equiv (P : Params) (v : Variant) (s : Sc) (x : Start) (w : World) (fuel : Nat)
    (hcb : s.set.hasCallback = true)
    (hblk : nrWithin (x.blocks.length + 1) x.sched = true)
    (hfuel : countNR x.sched < fuel) :
    let a := runToEnd P v x.cb x.stack fuel s x.it w
    let b := scanCall P v x.cb x.stack s { x.it with sched := dropNR x.sched } w
    a.msgs = b.msgs ∧ a.rc = b.rc ∧ a.sc = b.sc ∧ a.world = b.world ∧ a.rc ≠ .blockNotReady :=
  runToEnd_eq_uninterrupted P v x.cb x.stack s x.it w fuel hcb (by simp [Start.it]) hblk hfuel

/-- **The invariant behind it**: when the loop is suspended, its state (matches, flags, entry point,
    iterator position, clock, messages so far) is the state of the uninterrupted run at the same iterator
    position — continuing without interruptions from the suspension point gives the uninterrupted loop. -/
theorem suspended_state_is_resume_point (P : Params) (cb : Nat → CbRet) (set : Settings) (blocks : List Block)
    (sched : List Act) (c : Core) (w : World)
    (h : (blockLoop P cb set blocks sched c w).result = .blockNotReady) :
    let o := blockLoop P cb set blocks sched c w
    blockLoop P cb set blocks (dropNR sched) c w =
      (blockLoop P cb set o.rest (dropNR o.sched) o.core o.world).pre o.msgs :=
  ((blockLoop_segment P cb set blocks sched c w).1 h).1

/-- Sufficient condition made explicit: with at most `blocks + 1` answers of another kind before it,
    a not-ready answer is consumed by the block loop, and rule evaluation then sees none. -/
theorem eval_sees_no_not_ready (P : Params) (cb : Nat → CbRet) (set : Settings) (n : Nat) (blocks : List Block)
    (sched : List Act) (c : Core) (w : World) (h : nrWithin (blocks.length + 1) sched = true) :
    (loopToEnd P cb set n blocks sched c w).result = .success →
      countNR (loopToEnd P cb set n blocks sched c w).sched = 0 :=
  loopToEnd_nrWithin P cb set n blocks sched c w h

/-- **All wrappers funnel** into `yr_scanner_scan_mem_blocks` on a single-block iterator
    (`base 0`, `size` = buffer size, `file_size` = buffer size, `last_error` = success, never not-ready):
    scanner-level mem / file / fd, rules-level mem / file / fd (a new scanner with the given callback,
    timeout and flags) and rules-level blocks. Mapping failures return their error with no callback. -/
theorem wrappers_funnel (P : Params) (v : Variant) (cb : Nat → CbRet) (stack : Nat) (s : Sc) (set : Settings)
    (data : Option Nat) (size : Nat) (e : Err) (it : It) (w : World) :
    scannerScanMem P v cb stack s data size w = scanCall P v cb stack s (memIt data size) w ∧
    scannerScanMapped P v cb stack s (.ok (data, size)) w = scanCall P v cb stack s (memIt data size) w ∧
    rulesScanMem P v cb stack set data size w = scanCall P v cb stack (Sc.fresh set) (memIt data size) w ∧
    rulesScanMapped P v cb stack set (.ok (data, size)) w = scanCall P v cb stack (Sc.fresh set) (memIt data size) w ∧
    rulesScanBlocks P v cb stack set it w = scanCall P v cb stack (Sc.fresh set) it w ∧
    (scannerScanMapped P v cb stack s (.error e) w).msgs = [] ∧ (scannerScanMapped P v cb stack s (.error e) w).rc = e ∧
    (rulesScanMapped P v cb stack set (.error e) w).msgs = [] ∧ (rulesScanMapped P v cb stack set (.error e) w).rc = e :=
  ⟨rfl, rfl, rfl, rfl, rfl, rfl, rfl, rfl, rfl⟩

/-- **Entry points agree** (code with the C10 fixes): the scanner-level entry points used on a scanner
    with ANY history give the callbacks and result of the rules-level entry points (which scan on a new
    scanner), for memory, mapped files and descriptors alike. -/
theorem entry_points_agree (P : Params) (set : Settings) (hcb : set.hasCallback = true) (w0 : World) (h : List HOp)
    (cb : Nat → CbRet) (stack : Nat) (data : Option Nat) (size : Nat) :
    let st := runH P .fixed (HSt.init set w0) h
    let a := scannerScanMapped P .fixed cb stack st.sc (.ok (data, size)) { st.w with nmsg := 0 }
    let b := rulesScanMem P .fixed cb stack set data size { st.w with nmsg := 0 }
    a.msgs = b.msgs ∧ a.rc = b.rc := by
  intro st a b
  have hinv : HInv st := runH_inv P .fixed _ h (HInv.init set w0)
  have hset : st.sc.set = set := runH_set P .fixed _ h
  have := scanCall_fresh_eq P cb stack st.sc (memIt data size) { st.w with nmsg := 0 }
    (by rw [hset]; exact hcb) hinv.inv (by simp [memIt])
  rw [hset] at this
  simp only [CallOut.obs, Prod.mk.injEq] at this
  exact ⟨this.2.2.2.2.1, this.2.2.2.2.2⟩

/-! ### Finding F27: a block that is not ready during rule evaluation is taken for the end of the data -/

namespace Witness13

/-- one rule `uint8(5) == <the byte there>`: walks the blocks until one contains offset 5 -/
def P : Params :=
  { rules := [⟨0, false, false, true, []⟩]
    imports := []
    strRule := fun _ => 0
    maxMatches := 1000
    cands := fun _ => []
    ep := fun _ _ => none
    scanErr := fun _ => none
    cond := fun _ _ => .walk (fun b => decide (b.base ≤ 5 ∧ 5 < b.base + b.size))
                        (fun seen => .ret (seen.any fun b => decide (b.base ≤ 5 ∧ 5 < b.base + b.size)))
    modParse := fun _ => none }

def set : Settings := ⟨true, true, 0, true⟩
def blocks : List Block := [⟨0, 4, some 0⟩, ⟨4, 4, some 1⟩]
/-- calls: first, next, next (end of the block loop), then evaluation: first, next <- not ready -/
def lateNR : Start := ⟨blocks, [.ok, .ok, .ok, .ok, .notReady], some 8, fun _ => .cont, 16⟩
def earlyNR : Start := ⟨blocks, [.ok, .notReady, .notReady, .ok, .notReady, .ok], some 8, fun _ => .cont, 16⟩

end Witness13

open Witness13 in
/-- **F27** (both variants): if the iterator answers "not ready" to a call made by rule evaluation
    (`uintN(off)`, module load, hash/math ranges), the scan does not return ERROR_BLOCK_NOT_READY: the
    condition is evaluated as if the data ended there, the scan reports success with a different verdict,
    and `iterator->last_error` is left at ERROR_BLOCK_NOT_READY. `resume_equiv` needs `nrWithin`. -/
theorem eval_phase_not_ready_changes_verdict (v : Variant) :
    let a := runToEnd P v lateNR.cb lateNR.stack 5 (Sc.fresh set) lateNR.it ⟨0, 0⟩
    let b := scanCall P v lateNR.cb lateNR.stack (Sc.fresh set) { lateNR.it with sched := dropNR lateNR.sched } ⟨0, 0⟩
    a.msgs = [.ruleNotMatching 0 [], .scanFinished] ∧ a.rc = .success ∧ a.it.lastError = .blockNotReady ∧
    b.msgs = [.ruleMatching 0 [], .scanFinished] ∧ b.rc = .success ∧
    nrWithin (lateNR.blocks.length + 1) lateNR.sched = false := by
  cases v with
  | mk a b => cases a <;> cases b <;> decide

open Witness13 in
/-- non-vacuity of `resume_equiv`: a schedule with three not-ready answers (to the second call twice and to
    the last call of the block loop) satisfies the hypotheses; four calls are needed and the final trace is
    the uninterrupted one. -/
example :
    nrWithin (earlyNR.blocks.length + 1) earlyNR.sched = true ∧ countNR earlyNR.sched = 3 ∧
    (runToEnd P .fixed earlyNR.cb earlyNR.stack 3 (Sc.fresh set) earlyNR.it ⟨0, 0⟩).rc = .blockNotReady ∧
    (runToEnd P .fixed earlyNR.cb earlyNR.stack 4 (Sc.fresh set) earlyNR.it ⟨0, 0⟩).rc = .success ∧
    (runToEnd P .fixed earlyNR.cb earlyNR.stack 4 (Sc.fresh set) earlyNR.it ⟨0, 0⟩).msgs = [.ruleMatching 0 [], .scanFinished] := by
  decide

end YaraModel.Scan
