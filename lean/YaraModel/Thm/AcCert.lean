/-
  Aho-Corasick certificate (used by C01, C05 and, through the shared automaton, C02/C03):
  `certOK` is a decidable check over the REAL transition/match tables of a compiled rule set and the atoms
  the compiler reported; these theorems say that when it holds the automaton stage meets its contract on
  EVERY buffer. Table packing, failure-link shortening and match-list order are irrelevant: the certificate
  is stated on the results of the lookup loop.
-/
import YaraModel.Lemmas.AcCertLemmas
import YaraModel.Lemmas.TextFinal
namespace YaraModel.AC
open YaraModel.Text

/-- **Certificate soundness**: for EVERY buffer the candidates the table-driven scan produces are exactly the
    occurrences of the indexed atoms (every end position, every atom that ends there and fits). -/
theorem cert_sound (T : Tables) (atoms : List (Nat × Atom)) (paths : List (Nat × Bytes))
    (hc : certOK T atoms paths = true) (buf : Bytes) (x : Nat × Nat × Nat) :
    x ∈ scan T buf ↔ ∃ k, k ≤ buf.length ∧ x ∈ expectedAt atoms (buf.take k) := by
  have h := cert_of_certOK T atoms paths hc
  have := scanFrom_mem h buf [] 0 (by simpa [lsuf] using h.root) x
  simpa [scan] using this


theorem suffix_take_iff (buf a : Bytes) (k : Nat) (hk : k ≤ buf.length) (ha : a.length ≤ k) :
    a <:+ buf.take k ↔ (buf.drop (k - a.length)).take a.length = a := by
  rw [List.suffix_iff_eq_drop]
  have hl : (buf.take k).length = k := by simp; omega
  rw [hl, List.drop_take]
  have : k - (k - a.length) = a.length := by omega
  rw [this]
  exact eq_comm

/-- **The automaton contract for one string** (`CandsOK` of C01/C05): if the certificate holds and the atoms
    logged for string `sidx` are (as a set) `atomsOf w m s`, then on EVERY buffer the candidates of that
    string are exactly the occurrences of its atoms. -/
theorem candsOK_of_cert (T : Tables) (atoms : List (Nat × Atom)) (paths : List (Nat × Bytes))
    (hc : certOK T atoms paths = true) (sidx w : Nat) (m : Mods) (s : Bytes)
    (hat : ∀ a, (sidx, a) ∈ atoms ↔ a ∈ atomsOf w m s) (buf : Bytes) :
    CandsOK w m s buf ((scan T buf).filterMap fun x => if x.1 = sidx then some (x.2.1, x.2.2) else none) := by
  constructor
  · intro c hcm
    simp only [List.mem_filterMap] at hcm
    obtain ⟨x, hx, hxc⟩ := hcm
    split at hxc
    · rename_i hs
      simp only [Option.some.injEq] at hxc
      obtain ⟨k, hk, hex⟩ := (cert_sound T atoms paths hc buf x).mp hx
      unfold expectedAt at hex
      simp only [List.mem_filterMap] at hex
      obtain ⟨sa, hsa, hsome⟩ := hex
      split at hsome
      · rename_i hcond
        simp only [Bool.and_eq_true, List.isSuffixOf_iff_suffix, decide_eq_true_eq] at hcond
        simp only [Option.some.injEq] at hsome
        have hlen : (buf.take k).length = k := by simp; omega
        rw [hlen] at hcond hsome
        have hsidx : sa.1 = sidx := by rw [← hs, ← hsome]
        refine ⟨sa.2, (hat sa.2).mp (by rw [← hsidx]; exact hsa), ?_, ?_⟩
        · unfold atomAt
          rw [← hxc, ← hsome]
          simp only
          rw [window_eq_some]
          have h1 := (suffix_take_iff buf sa.2.bytes k hk (by omega)).mp hcond.1
          refine ⟨by omega, ?_⟩
          have : k - (sa.2.bytes.length + sa.2.backtrack) + sa.2.backtrack = k - sa.2.bytes.length := by omega
          rw [this]; exact h1.symm
        · rw [← hxc, ← hsome]
      · cases hsome
    · cases hxc
  · intro a ha o hao
    simp only [List.mem_filterMap]
    refine ⟨(sidx, o, a.bytes.length + a.backtrack), ?_, by simp⟩
    apply (cert_sound T atoms paths hc buf _).mpr
    unfold atomAt at hao
    rw [window_eq_some] at hao
    obtain ⟨hb, heq⟩ := hao
    refine ⟨o + a.backtrack + a.bytes.length, hb, ?_⟩
    unfold expectedAt
    simp only [List.mem_filterMap]
    refine ⟨(sidx, a), (hat a).mpr ha, ?_⟩
    have hlen : (buf.take (o + a.backtrack + a.bytes.length)).length = o + a.backtrack + a.bytes.length := by simp; omega
    have hsuf : a.bytes <:+ buf.take (o + a.backtrack + a.bytes.length) := by
      apply (suffix_take_iff buf a.bytes _ hb (by omega)).mpr
      have : o + a.backtrack + a.bytes.length - a.bytes.length = o + a.backtrack := by omega
      rw [this]; exact heq.symm
    have hsuf2 := List.isSuffixOf_iff_suffix.mpr hsuf
    simp only [hlen, hsuf2, Bool.true_and]
    have hle : a.bytes.length + a.backtrack ≤ o + a.backtrack + a.bytes.length := by omega
    simp only [hle, decide_true, if_true, Option.some.injEq, Prod.mk.injEq, true_and, and_true]
    omega

/-- a tiny hand-made table: root, plus one state (slot 257) reached on byte 0x61 -/
def tinyTables : Tables :=
  { t := ((Array.replicate 600 (0 : UInt32)).set! 98 (((257 : UInt32) <<< 9) ||| 98)).set! 257 0,
    m := (Array.replicate 600 (0 : UInt32)).set! 257 1, pool := #[((0 : Nat), (1 : Nat), (0 : Nat))] }

/-! Non-vacuity: the scan of the tiny table reports both occurrences of the atom (the certificate itself is
    evaluated by the compiled driver on the real tables of every generated rule set; see evidence of C01). -/
example : scan tinyTables [0x62, 0x61, 0x61] = [(0, 1, 1), (0, 2, 1)] := by decide +kernel

end YaraModel.AC
