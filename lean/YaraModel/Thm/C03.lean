/-
  C03 — regular-expression strings and `matches` agree with regex semantics.  Property theorems only
  (helpers: Lemmas/Re.lean, ReEval.lean, ReAlgebra.lean).
-/
import YaraModel.Lemmas.ReAlgebra
import YaraModel.Lemmas.ReVm
import YaraModel.Lemmas.ReEmit
namespace YaraModel.C03
open YaraModel.Re

/-- The specification is self-consistent: the set-of-end-positions semantics `Re.ends` (what the compiled driver
    evaluates in the correspondence runs) coincides with the independent relational semantics `Re.Matches`, for every
    node kind of RE_NODE_* (incl. the closures of `*` `+` `{n,m}`), every flag combination (wide, nocase, dot-all),
    every buffer and every pair of positions. -/
theorem ends_iff_Matches (fl : Flags) (buf : Bytes) (r : Re) (p q : Nat) :
    q ∈ r.ends fl buf p ↔ Re.Matches fl buf r p q :=
  Re.ends_iff_Matches fl buf r p q

/-- non-trivial instance: `a*x` from offset 2 of `xxaaaxx` ends exactly at 6 -/
example : (Re.cat (.star (.lit 97) true) (.lit 120)).ends {} "xxaaaxx".toUTF8.data 2 = [6] := by decide

/-- The driver's fast set evaluator answers exactly the specification at every offset inside the buffer. -/
theorem driver_evaluates_spec (fl : Flags) (buf : Bytes) (r : Re) (o : Nat) (ho : o ≤ buf.size) (q : Nat) :
    q ∈ r.endsSet fl buf [o] ↔ Re.Matches fl buf r o q := by
  rw [endsSet_single fl buf r o ho q]; exact Re.ends_iff_Matches fl buf r o q

/-- `range_table`: the code shape `_yr_re_emit` produces for `e{n,m}` — prolog `e` when n > 0, a repeat_start/repeat_end
    loop with the adjusted bounds (`repMin`, `repMax`) when `m > n+1 ∨ m > 2`, `split; e` (an optional `e`) when m > n or
    a plain epilog `e` when `m > 1` — denotes exactly `e{n,m}`, for ALL n ≤ m, all bodies, buffers and positions. -/
theorem range_table (fl : Flags) (buf : Bytes) (e : Re) (n m : Nat) (g : Bool) (hnm : n ≤ m) (p q : Nat) :
    Re.Matches fl buf (rangeShape e n m g) p q ↔ Re.Matches fl buf (.range e n m g) p q :=
  rangeShape_iff e n m g hnm p q

/-- instances of the table rows: 0,1 / 1,3 / 2,2 / 3,3 / 4,M -/
example : rangeShape (.lit 97) 0 1 true = .cat .empty (.cat .empty (.range (.lit 97) 0 1 true)) := by decide
example : rangeShape (.lit 97) 1 3 true = .cat (.lit 97) (.cat (.range (.lit 97) 0 1 true) (.range (.lit 97) 0 1 true)) := by decide
example : rangeShape (.lit 97) 2 2 true = .cat (.lit 97) (.cat .empty (.lit 97)) := by decide
example : rangeShape (.lit 97) 3 3 true = .cat (.lit 97) (.cat (.range (.lit 97) 1 1 true) (.lit 97)) := by decide
example : rangeShape (.lit 97) 4 9 true = .cat (.lit 97) (.cat (.range (.lit 97) 3 7 true) (.range (.lit 97) 0 1 true)) := by decide

/-- counted repeats concatenate: `e{a,b} e{c,d}` = `e{a+c,b+d}` (the arithmetic behind the table) -/
theorem range_concat (fl : Flags) (buf : Bytes) (e : Re) (a b c d : Nat) (g : Bool) (hab : a ≤ b) (hcd : c ≤ d) (p q : Nat) :
    Re.Matches fl buf (.cat (.range e a b g) (.range e c d g)) p q ↔ Re.Matches fl buf (.range e (a + c) (b + d) g) p q := by
  rw [cat_iff, range_iff_cnt]
  rw [← cnt_cat e a b c d p q hab hcd]
  constructor
  · rintro ⟨t, h1, h2⟩; exact ⟨t, (range_iff_cnt e a b g p t).1 h1, (range_iff_cnt e c d g t q).1 h2⟩
  · rintro ⟨t, h1, h2⟩; exact ⟨t, (range_iff_cnt e a b g p t).2 h1, (range_iff_cnt e c d g t q).2 h2⟩

/-- `decompose`: with one atom chosen on every way through the expression (both branches of an alternation, one side
    of a concatenation, the body of a `+`), a match of the whole expression exists exactly when it is found around one
    of the atoms (before-part, atom, after-part) — the scheme "forward from the atom, exhaustively backward from the
    atom" loses and invents nothing, with atoms inside groups, alternation branches and repeats. -/
theorem decompose (fl : Flags) (buf : Bytes) (r : Re) (atoms : List (Ctx × Re)) (hc : Cover r atoms) (p q : Nat) :
    Re.Matches fl buf r p q ↔ ∃ c a, (c, a) ∈ atoms ∧ c.Through fl buf a p q := by
  constructor
  · exact cover_complete hc p q
  · rintro ⟨c, a, hin, ht⟩
    have := through_sound c a p q ht
    rwa [cover_fill hc c a hin] at this

/-- instance: `(ab)+c` with the atom `ab` inside the `+` body -/
example : Cover (.cat (.plus (.cat (.lit 97) (.lit 98)) true) (.lit 99))
    [(.catL (.plusIn .hole true) (.lit 99), .cat (.lit 97) (.lit 98))] :=
  .catL (.plus (.leaf _))


open YaraModel.ReVm in
/-- `vm_reports_reachable`: whatever the model of `yr_re_exec` reports — the lengths handed to the callback in exhaustive
    mode, the value left in `*matches`, also in the scan mode of the `matches` operator — is the number of matched bytes of
    a fiber that (a) is reachable in the abstract machine by ε-steps (every branch `_yr_re_fiber_sync` can take),
    zero-width steps and consuming steps and (b) stands at RE_OPCODE_MATCH.  Holds for ANY bytecode, flags and input: the
    fiber list, its de-duplication, the executed-split set and KILL_TAIL only ever REMOVE behaviours.  (First half of VM
    soundness; the second half — reachable-at-MATCH implies a match of the expression — is `vm_sound_partial` below; for
    `e{n,m}` it needs the counter-stack invariant: not yet proved.) -/
theorem vm_reports_reachable (e : Env) (m : Int) (c : List Nat) (h : exec e = .done m c) :
    (∀ L, L ∈ c → ∃ f md, Reach e f md L ∧ u8 e.code f.ip = OP_MATCH) ∧
    (0 ≤ m → ∃ f md, Reach e f md m.toNat ∧ u8 e.code f.ip = OP_MATCH) :=
  exec_sound e m c h

open YaraModel.ReVm YaraModel.ReEmit in
/-- instance: the model of `yr_re_exec` on the code emitted for `a(b|c)*d` (greedy) over `abcbd` reports 5 -/
example : exec { code := (emitCode false (.cat (.lit 97) (.cat (.star (.alt (.lit 98) (.lit 99)) true) (.lit 100)))).toArray, entry := 0, buf := "abcbd".toUTF8.data, start := 0, fl := {} } = .done 5 [] := by decide


open YaraModel.ReVm YaraModel.ReEmit in
/-- `vm_sound_partial`: soundness of the bytecode VM on emitted code for regular expressions built from literals, `.`,
    the escapes \w \W \s \S \d \D, the anchors ^ $ and the word boundaries \b \B, `.{n,m}`, concatenation, alternation,
    `*`, `+` and `?` (greedy or lazy, nested in any way), bracket classes `[...]` — i.e. every node kind except counted repeats
    `e{n,m}` of a non-dot body other than `e?` and the empty alternative.  For ALL such expressions, ALL buffers and start positions, byte
    mode (ascii), any nocase / dot-all flags, exhaustive or first-match mode, WITH OR WITHOUT the scan mode of `matches`,
    forward code: every length L the Lean model of `yr_re_exec` reports on the code produced by the Lean model of
    `_yr_re_emit` ends a match of the expression inside the buffer that begins at the start position — or, in scan mode
    only, at some later position s0 ≤ start + L (in particular a reported match of a string at an offset implies that the
    expression matches there).  `+` is emitted as in the fixed `_yr_re_emit` (52e6c09: the split jumps back to the first
    byte of the code for e), the scan-mode restart and ACTION_CONTINUE as in the fixed `yr_re_exec` (eeb23a8, b5b43d7).
    Both models are validated against the C functions on every generated case (real bytecode: C VM = Lean VM; emitted bytes
    equal).  Full statement aimed at (not yet proved): also `e{n,m}` beyond `e?` (REPEAT_START/END with the counter stack) and the
    empty alternative, wide mode, backward code, and the converse inclusion (completeness, which needs the executed-split-set
    argument for ε-loops). -/
theorem vm_sound_partial (r : Re) (hf : Frag r) (hsz : clen r < 32000) (buf : Bytes) (start : Nat) (hst : start ≤ buf.size)
    (fl : VmFlags) (hw : fl.wide = false) (hb : fl.backwards = false) (fuel : Nat) (m : Int) (c : List Nat)
    (h : exec { code := (emitCode false r).toArray, entry := 0, buf := buf, start := start, fl := fl, syncFuel := fuel } = .done m c) :
    (∀ L, L ∈ c → ∃ s0, start ≤ s0 ∧ s0 ≤ start + L ∧ start + L ≤ buf.size ∧ (fl.scan = false → s0 = start) ∧
      Re.Matches (specFlags fl) buf r s0 (start + L)) ∧
    (0 ≤ m → ∃ s0, start ≤ s0 ∧ s0 ≤ start + m.toNat ∧ start + m.toNat ≤ buf.size ∧ (fl.scan = false → s0 = start) ∧
      Re.Matches (specFlags fl) buf r s0 (start + m.toNat)) :=
  envOf_sound r hf hsz buf start hst fl hw hb fuel m c h

open YaraModel.ReVm YaraModel.ReEmit in
/-- `matches_sound_partial`: the `matches` operator never holds without reason.  `str matches /r/` runs `yr_re_exec` in
    scan mode from offset 0 of the string and is true iff the result is ≥ 0; for every expression of the fragment above,
    every string and flags: if the model of the VM returns a non-negative value on the emitted code then the expression
    matches some substring str[o, q).  (Before eeb23a8 the empty match at the END of the string was not tried; the converse
    — every match is found — is the completeness statement not yet proved.) -/
theorem matches_sound_partial (r : Re) (hf : Frag r) (hsz : clen r < 32000) (str : Bytes)
    (fl : VmFlags) (hw : fl.wide = false) (hb : fl.backwards = false) (fuel : Nat) (m : Int) (c : List Nat)
    (h : exec { code := (emitCode false r).toArray, entry := 0, buf := str, start := 0, fl := fl, syncFuel := fuel } = .done m c)
    (hm : 0 ≤ m) : ∃ o q, o ≤ q ∧ q ≤ str.size ∧ Re.Matches (specFlags fl) str r o q :=
  matches_sound_frag r hf hsz str fl hw hb fuel m c h hm

open YaraModel.ReVm YaraModel.ReEmit in
/-- instance (the former finding C03-matches-empty-at-end): `"abc" matches /x*$/` — the scan reaches offset 3 and reports the
    empty match there -/
example : exec { code := (emitCode false (.cat (.star (.lit 120) true) .eol)).toArray, entry := 0, buf := "abc".toUTF8.data, start := 0, fl := { scan := true } } = .done 3 [] := by decide

open YaraModel.ReVm YaraModel.ReEmit in
/-- instance (the former finding C03-plus-backjump): `x(a?b)+c` over `xbc` — the loop of `+` re-enters at the split of `a?`,
    the first byte of the body; the expression is inside the fragment of `vm_sound_partial` -/
example : exec { code := (emitCode false (.cat (.lit 120) (.cat (.plus (.cat (.range (.lit 97) 0 1 true) (.lit 98)) true) (.lit 99)))).toArray, entry := 0, buf := "xbc".toUTF8.data, start := 0, fl := {} } = .done 3 [] := by decide

open YaraModel.ReEmit in
example : Frag (.cat (.lit 120) (.cat (.plus (.cat (.range (.lit 97) 0 1 true) (.lit 98)) true) (.lit 99))) :=
  .cat (.lit _) (.cat (.plus _ (.cat (.opt _ (.lit _)) (.lit _))) (.lit _))

open YaraModel.ReEmit in
/-- the fragment is not empty: `\ba(b|c)*d+\B` -/
example : Frag (.cat .wordB (.cat (.lit 97) (.cat (.star (.alt (.lit 98) (.lit 99)) true) (.cat (.plus (.lit 100) false) .nonWordB)))) :=
  .cat .wordB (.cat (.lit _) (.cat (.star _ (.alt (.lit _) (.lit _))) (.cat (.plus _ (.lit _)) .nonWordB)))

end YaraModel.C03
