/-
  C03 — regular-expression strings and `matches` agree with regex semantics.  Property theorems only
  (helpers: Lemmas/Re.lean, ReEval.lean, ReAlgebra.lean).
-/
import YaraModel.Lemmas.ReAlgebra
import YaraModel.Lemmas.ReVm
import YaraModel.Lemmas.ReEmit
import YaraModel.Lemmas.ReAtomPos
import YaraModel.Lemmas.ReComplete
import YaraModel.Lemmas.ReCompleteSF
namespace YaraModel.C03
open YaraModel.Re

/-- The specification is self-consistent: the set-of-end-positions semantics `Re.ends` (what the compiled driver
    evaluates in the correspondence runs) coincides with the independent relational semantics `Re.Matches`, for every
    node kind of RE_NODE_* (incl. the closures of `*` `+` `{n,m}`), every flag combination (wide, nocase, dot-all),
    every buffer and every pair of positions. -/
theorem ends_iff_Matches (fl : Flags) (buf : Bytes) (r : Re) (p q : Nat) :
    q ∈ r.ends fl buf p ↔ Re.Matches fl buf r p q :=
  Re.ends_iff_Matches fl buf r p q

/-- non-trivial instance: `a*x` from offset 2 of `xxaaaxx` ends exactly at 6 -/
example : (Re.cat (.star (.lit 97) true) (.lit 120)).ends {} "xxaaaxx".toUTF8.data 2 = [6] := by decide

/-- The driver's fast set evaluator answers exactly the specification at every offset inside the buffer. -/
theorem driver_evaluates_spec (fl : Flags) (buf : Bytes) (r : Re) (o : Nat) (ho : o ≤ buf.size) (q : Nat) :
    q ∈ r.endsSet fl buf [o] ↔ Re.Matches fl buf r o q := by
  rw [endsSet_single fl buf r o ho q]; exact Re.ends_iff_Matches fl buf r o q

/-- `range_table`: the code shape `_yr_re_emit` produces for `e{n,m}` — prolog `e` when n > 0, a repeat_start/repeat_end
    loop with the adjusted bounds (`repMin`, `repMax`) when `m > n+1 ∨ m > 2`, `split; e` (an optional `e`) when m > n or
    a plain epilog `e` when `m > 1` — denotes exactly `e{n,m}`, for ALL n ≤ m, all bodies, buffers and positions. -/
theorem range_table (fl : Flags) (buf : Bytes) (e : Re) (n m : Nat) (g : Bool) (hnm : n ≤ m) (p q : Nat) :
    Re.Matches fl buf (rangeShape e n m g) p q ↔ Re.Matches fl buf (.range e n m g) p q :=
  rangeShape_iff e n m g hnm p q

/-- instances of the table rows: 0,1 / 1,3 / 2,2 / 3,3 / 4,M -/
example : rangeShape (.lit 97) 0 1 true = .cat .empty (.cat .empty (.range (.lit 97) 0 1 true)) := by decide
example : rangeShape (.lit 97) 1 3 true = .cat (.lit 97) (.cat (.range (.lit 97) 0 1 true) (.range (.lit 97) 0 1 true)) := by decide
example : rangeShape (.lit 97) 2 2 true = .cat (.lit 97) (.cat .empty (.lit 97)) := by decide
example : rangeShape (.lit 97) 3 3 true = .cat (.lit 97) (.cat (.range (.lit 97) 1 1 true) (.lit 97)) := by decide
example : rangeShape (.lit 97) 4 9 true = .cat (.lit 97) (.cat (.range (.lit 97) 3 7 true) (.range (.lit 97) 0 1 true)) := by decide

/-- counted repeats concatenate: `e{a,b} e{c,d}` = `e{a+c,b+d}` (the arithmetic behind the table) -/
theorem range_concat (fl : Flags) (buf : Bytes) (e : Re) (a b c d : Nat) (g : Bool) (hab : a ≤ b) (hcd : c ≤ d) (p q : Nat) :
    Re.Matches fl buf (.cat (.range e a b g) (.range e c d g)) p q ↔ Re.Matches fl buf (.range e (a + c) (b + d) g) p q := by
  rw [cat_iff, range_iff_cnt]
  rw [← cnt_cat e a b c d p q hab hcd]
  constructor
  · rintro ⟨t, h1, h2⟩; exact ⟨t, (range_iff_cnt e a b g p t).1 h1, (range_iff_cnt e c d g t q).1 h2⟩
  · rintro ⟨t, h1, h2⟩; exact ⟨t, (range_iff_cnt e a b g p t).2 h1, (range_iff_cnt e c d g t q).2 h2⟩

/-- `decompose`: with one atom chosen on every way through the expression (both branches of an alternation, one side
    of a concatenation, the body of a `+`), a match of the whole expression exists exactly when it is found around one
    of the atoms (before-part, atom, after-part) — the scheme "forward from the atom, exhaustively backward from the
    atom" loses and invents nothing, with atoms inside groups, alternation branches and repeats. -/
theorem decompose (fl : Flags) (buf : Bytes) (r : Re) (atoms : List (Ctx × Re)) (hc : Cover r atoms) (p q : Nat) :
    Re.Matches fl buf r p q ↔ ∃ c a, (c, a) ∈ atoms ∧ c.Through fl buf a p q := by
  constructor
  · exact cover_complete hc p q
  · rintro ⟨c, a, hin, ht⟩
    have := through_sound c a p q ht
    rwa [cover_fill hc c a hin] at this

/-- instance: `(ab)+c` with the atom `ab` inside the `+` body -/
example : Cover (.cat (.plus (.cat (.lit 97) (.lit 98)) true) (.lit 99))
    [(.catL (.plusIn .hole true) (.lit 99), .cat (.lit 97) (.lit 98))] :=
  .catL (.plus (.leaf _))


open YaraModel.ReVm in
/-- `vm_reports_reachable`: whatever the model of `yr_re_exec` reports — the lengths handed to the callback in exhaustive
    mode, the value left in `*matches`, also in the scan mode of the `matches` operator — is the number of matched bytes of
    a fiber that (a) is reachable in the abstract machine by ε-steps (every branch `_yr_re_fiber_sync` can take),
    zero-width steps and consuming steps and (b) stands at RE_OPCODE_MATCH.  Holds for ANY bytecode, flags and input: the
    fiber list, its de-duplication, the executed-split set and KILL_TAIL only ever REMOVE behaviours.  (First half of VM
    soundness; the second half — reachable-at-MATCH implies a match of the expression — is `vm_sound` below.) -/
theorem vm_reports_reachable (e : Env) (m : Int) (c : List Nat) (h : exec e = .done m c) :
    (∀ L, L ∈ c → ∃ f md, Reach e f md L ∧ u8 e.code f.ip = OP_MATCH) ∧
    (0 ≤ m → ∃ f md, Reach e f md m.toNat ∧ u8 e.code f.ip = OP_MATCH) :=
  exec_sound e m c h

open YaraModel.ReVm in
/-- `vm_reports_accepting`: the converse half at the level of the executable model, for ANY bytecode, flags (byte or wide,
    forwards or backwards) and input — in EXHAUSTIVE mode (not scan mode) a run of the model of `yr_re_exec` that returns
    without an error (`exec e = .done m c`: fiber limit and fuel bounds not hit) reports the length of every ACCEPTING PATH
    from the entry: `AccU e n f 0` = whatever list a top-level `_yr_re_fiber_sync` call on `f` returns, it contains a
    stopped fiber that (n = 0) stands at RE_OPCODE_MATCH or (n + 1) stands at a consuming instruction that accepts the
    current character and whose successor again has such a path after every top-level sync (`AccN`, Lemmas/ReComplete.lean).
    The de-duplication only drops EQUAL fibers, the pass keeps the successors of every accepted fiber and the callback is
    called for every fiber at MATCH, so nothing on the path is lost.  (First half of VM completeness; the second half —
    every match of the expression yields an accepting path through the emitted code — is proved for hex patterns,
    Thm/C02 `vm_complete_hex`, and for star-free regular expressions, `vm_complete_starfree_partial` below; for
    regular expressions with ε-loops and counted repeats it is open.) -/
theorem vm_reports_accepting (e : Env) (hx : e.fl.exhaustive = true) (hs : e.fl.scan = false) (m : Int) (c : List Nat)
    (h : exec e = .done m c) (n : Nat) (hacc : AccU e n { ip := e.entry } 0) : n * e.cs ∈ c :=
  exec_complete e hx hs m c h n hacc

open YaraModel.ReVm YaraModel.ReEmit in
/-- `vm_complete_starfree_partial`: VM COMPLETENESS (the converse of `vm_sound`) for the STAR-FREE fragment of regular
    expressions, forward code, byte mode.  `starFree r` is a DECIDABLE predicate (Lemmas/ReCompleteSF.lean): `r` is built from
    the consuming one-character nodes (literal — case-insensitive or not —, masked / negated literal, `.`, classes,
    \w \W \s \S \d \D), the empty expression, `.{n,m}` (RE_NODE_RANGE_ANY, greedy or lazy, n ≤ m < 65536), concatenation and
    alternation whose FIRST branch cannot be left without consuming a character (`sfHd`: it begins with a character node or
    with `.{n,m}`, m ≥ 1 — recursively through nested alternatives).
    EXCLUDED shapes, precisely: `*`, `+` and counted repeats `e{n,m}` of a sub-expression (ε-loops, the repeat stack); the
    zero-width nodes `^ $ \b \B`; alternatives with a first branch that can be passed without consuming (`(|a)`, `(.{0,0}|a)`:
    there the executed-split set may kill the second branch at a split the first one already executed; `(a|)` IS covered).
    For ALL such expressions, buffers, start positions, nocase / dot-all flags and every match [start, start + L) with
    L ≤ 1024 (the scan window): the exhaustive run of the executable model of `yr_re_exec` on `emitCode false r` that returns
    without an error (`exec .. = .done m c`: fiber limit and fuel bounds not hit) reports L.  At most 256 alternatives
    (yara: RE_MAX_SPLIT_ID = 128), code below 32000 bytes, not scan mode.
    Proof: `vm_reports_accepting` + the path construction `acc_sf` by induction on the expression along the match
    (the proof of Thm/C02 `vm_complete_hex` with the larger set of leaves).
    `_partial`: the full statement is for every well-formed `Re` outside the known-finding shapes; open are the excluded
    shapes above, wide mode and the non-exhaustive result (backward code: `vm_complete_starfree_backward_partial`). -/
theorem vm_complete_starfree_partial (r : Re) (hr : starFree r = true) (hsz : (emit false r 0).1.length < 32000)
    (hid : (emit false r 0).2 ≤ 256) (buf : Bytes) (start : Nat) (hst : start ≤ buf.size)
    (fl : VmFlags) (hw : fl.wide = false) (hb : fl.backwards = false) (hsc : fl.scan = false) (hx : fl.exhaustive = true)
    (fuel : Nat) (m : Int) (c : List Nat)
    (h : exec { code := (emitCode false r).toArray, entry := 0, buf := buf, start := start, fl := fl, syncFuel := fuel } = .done m c)
    (L : Nat) (hL : L ≤ 1024) (hm : Re.Matches (specFlags fl) buf r start (start + L)) : L ∈ c :=
  vm_complete_sf r hr hsz hid buf start hst fl hw hb hsc hx fuel m c h L hL hm

open YaraModel.ReVm YaraModel.ReEmit in
/-- `vm_complete_starfree_backward_partial`: the mirrored statement for the BACKWARD code (EMIT_BACKWARDS = the forward code of
    the mirrored expression `rev r`, run with RE_FLAGS_BACKWARDS): every match [start - L, start) with L ≤ 1024 has its
    length reported by the exhaustive run that returns without error.  `starFree (rev r)`: the first branch of every
    alternative cannot be passed BACKWARDS without consuming a character (it ends with a character node). -/
theorem vm_complete_starfree_backward_partial (r : Re) (hr : starFree (rev r) = true) (hsz : (emit true r 0).1.length < 32000)
    (hid : (emit true r 0).2 ≤ 256) (buf : Bytes) (start : Nat) (hst : start ≤ buf.size)
    (fl : VmFlags) (hw : fl.wide = false) (hb : fl.backwards = true) (hsc : fl.scan = false) (hx : fl.exhaustive = true)
    (fuel : Nat) (m : Int) (c : List Nat)
    (h : exec { code := (emitCode true r).toArray, entry := 0, buf := buf, start := start, fl := fl, syncFuel := fuel } = .done m c)
    (L : Nat) (hL : L ≤ 1024) (hLs : L ≤ start) (hm : Re.Matches (specFlags fl) buf r (start - L) start) : L ∈ c :=
  vm_complete_sf_bwd r hr hsz hid buf start hst fl hw hb hsc hx fuel m c h L hL hLs hm

open YaraModel.ReVm YaraModel.ReEmit in
/-- the hypotheses are satisfiable together, non-trivially: `a(b|c\d|).{0,2}\w` (greedy) on `ac1xyz` — the expression is
    star-free, the run returns `.done 6 [2, 3, 4, 5, 6]`, the expression matches [0, 4) (through `c\d`, no skipped byte)
    and the theorem yields 4 ∈ [2, 3, 4, 5, 6]; `(|a)b` and `a*` are outside the fragment -/
example : 4 ∈ [2, 3, 4, 5, 6] ∧ starFree (.cat (.alt .empty (.lit 97)) (.lit 98)) = false ∧ starFree (.star (.lit 97) true) = false :=
  ⟨vm_complete_starfree_partial (.cat (.lit 97) (.cat (.alt (.lit 98) (.alt (.cat (.lit 99) .digit) .empty)) (.cat (.rangeAny 0 2 true) .wordCh)))
    (by decide) (by decide) (by decide) "ac1xyz".toUTF8.data 0 (by decide) { exhaustive := true } rfl rfl rfl rfl
    1000 6 [2, 3, 4, 5, 6] (by decide) 4 (by decide) ((Re.ends_iff_Matches _ _ _ _ _).1 (by decide)), by decide, by decide⟩

open YaraModel.ReVm YaraModel.ReEmit in
/-- instance: the exhaustive run on the code of `ab*` over `abb` reports the lengths of all three accepting paths -/
example : exec { code := (emitCode false (.cat (.lit 97) (.star (.lit 98) true))).toArray, entry := 0, buf := "abb".toUTF8.data, start := 0, fl := { exhaustive := true } } = .done 3 [1, 2, 3] := by decide

open YaraModel.ReVm YaraModel.ReEmit in
/-- instance: the model of `yr_re_exec` on the code emitted for `a(b|c)*d` (greedy) over `abcbd` reports 5 -/
example : exec { code := (emitCode false (.cat (.lit 97) (.cat (.star (.alt (.lit 98) (.lit 99)) true) (.lit 100)))).toArray, entry := 0, buf := "abcbd".toUTF8.data, start := 0, fl := {} } = .done 5 [] := by decide


open YaraModel.ReVm YaraModel.ReEmit in
/-- `vm_sound`: soundness of the bytecode VM on emitted code for EVERY regular expression the compiler hands to
    `_yr_re_emit` (`WF r`: every RE_NODE kind — literals, `.`, the escapes \w \W \s \S \d \D, bracket classes, the anchors
    ^ $, the word boundaries \b \B, `.{n,m}`, concatenation, alternation incl. the empty alternative, `*`, `+`, and counted
    repeats `e{n,m}` of EVERY row of the emit table (prolog copy / REPEAT_START…REPEAT_END loop with the counter on the
    fiber stack / `split ; e` / epilog copy; n ≤ m < 65536), greedy or lazy, nested in any way).  For ALL such expressions
    whose code stays below the emitter's int16 jump range, ALL buffers and start positions, byte mode (ascii), any nocase /
    dot-all flags, exhaustive or first-match mode, WITH OR WITHOUT the scan mode of `matches`, forward code: every length L
    the Lean model of `yr_re_exec` reports on the code produced by the Lean model of `_yr_re_emit` ends a match of the
    expression inside the buffer that begins at the start position — or, in scan mode only, at some later position
    s0 ≤ start + L (in particular a reported match of a string at an offset implies that the expression matches there).
    Proof: the code decodes to a shape (`lower r`, the emit table as prolog · loop · optional/epilog) that denotes the same
    language (`lower_sem`, from `range_table`); every state of the abstract machine inside a shape has a continuation
    language — inside a loop it depends on the loop counter read from the stack at the loop's nesting depth — and every
    machine step keeps "what the successor accepts, the predecessor accepts" (`seg_step`).
    Both models are validated against the C functions on every generated case (real bytecode: C VM = Lean VM; emitted bytes
    equal).  Wide mode and backward code: `vm_sound_forward`, `vm_sound_backward` below.  Not yet proved: the converse inclusion
    (completeness, which needs the executed-split-set argument for ε-loops) and runs that enter the code at an atom's
    instruction in the middle (the composition of `_yr_scan_verify_re_match`; at the level of the specification: `decompose`). -/
theorem vm_sound (r : Re) (hwf : WF r) (hsz : (emit false r 0).1.length < 32000) (buf : Bytes) (start : Nat) (hst : start ≤ buf.size)
    (fl : VmFlags) (hw : fl.wide = false) (hb : fl.backwards = false) (fuel : Nat) (m : Int) (c : List Nat)
    (h : exec { code := (emitCode false r).toArray, entry := 0, buf := buf, start := start, fl := fl, syncFuel := fuel } = .done m c) :
    (∀ L, L ∈ c → ∃ s0, start ≤ s0 ∧ s0 ≤ start + L ∧ start + L ≤ buf.size ∧ (fl.scan = false → s0 = start) ∧
      Re.Matches (specFlags fl) buf r s0 (start + L)) ∧
    (0 ≤ m → ∃ s0, start ≤ s0 ∧ s0 ≤ start + m.toNat ∧ start + m.toNat ≤ buf.size ∧ (fl.scan = false → s0 = start) ∧
      Re.Matches (specFlags fl) buf r s0 (start + m.toNat)) :=
  envOf_sound r hwf hsz buf start hst fl hw hb fuel m c h

open YaraModel.ReVm YaraModel.ReEmit in
/-- `vm_sound_forward`: `vm_sound` for one-byte AND two-byte (wide) characters.  For every well-formed expression, every
    buffer, start position and flags with RE_FLAGS_BACKWARDS off (wide or not, nocase, dot-all, exhaustive or not; the scan
    mode only in byte mode, as the `matches` operator uses it): a length L (in bytes) reported by the model of `yr_re_exec`
    on the forward code ends a match of the expression — under the specification's flags with the SAME wide bit: every
    character two bytes with a zero high byte — that begins s0 ≤ L bytes after the start position (s0 = 0 outside the
    scan mode) and lies inside the buffer. -/
theorem vm_sound_forward (r : Re) (hwf : WF r) (hsz : (emit false r 0).1.length < 32000) (buf : Bytes) (start : Nat) (hst : start ≤ buf.size)
    (fl : VmFlags) (hb : fl.backwards = false) (hsw : fl.scan = true → fl.wide = false) (fuel : Nat) (m : Int) (c : List Nat)
    (h : exec { code := (emitCode false r).toArray, entry := 0, buf := buf, start := start, fl := fl, syncFuel := fuel } = .done m c) :
    (∀ L, L ∈ c → ∃ s0, s0 ≤ L ∧ start + L ≤ buf.size ∧ (fl.scan = false → s0 = 0) ∧
      Re.Matches (specFlagsG fl) buf r (start + s0) (start + L)) ∧
    (0 ≤ m → ∃ s0, s0 ≤ m.toNat ∧ start + m.toNat ≤ buf.size ∧ (fl.scan = false → s0 = 0) ∧
      Re.Matches (specFlagsG fl) buf r (start + s0) (start + m.toNat)) :=
  vm_sound_fwd r hwf hsz buf start hst fl hb hsw fuel m c h

open YaraModel.ReVm YaraModel.ReEmit in
/-- `vm_sound_backward`: the BACKWARD code (`_yr_re_emit` with EMIT_BACKWARDS — proved to be the forward code of the mirrored
    expression, `emit_rev`) run by the model of `yr_re_exec` with RE_FLAGS_BACKWARDS, one-byte or wide characters: for every
    well-formed expression, buffer and start position, every reported length L satisfies L ≤ start and the expression
    matches buf[start - L, start) — the part of a string match BEFORE the atom that `_yr_scan_verify_re_match` looks for.
    (`$` never holds in backward code, `^` only at the beginning of the data, word boundaries are symmetric — as in re.c.)
    The same abstract-machine proof as forwards: only the single-instruction lemmas differ (`Dir`, Lemmas/ReDir.lean). -/
theorem vm_sound_backward (r : Re) (hwf : WF r) (hsz : (emit true r 0).1.length < 32000) (buf : Bytes) (start : Nat) (hst : start ≤ buf.size)
    (fl : VmFlags) (hb : fl.backwards = true) (hsc : fl.scan = false) (fuel : Nat) (m : Int) (c : List Nat)
    (h : exec { code := (emitCode true r).toArray, entry := 0, buf := buf, start := start, fl := fl, syncFuel := fuel } = .done m c) :
    (∀ L, L ∈ c → L ≤ start ∧ Re.Matches (specFlagsG fl) buf r (start - L) start) ∧
    (0 ≤ m → m.toNat ≤ start ∧ Re.Matches (specFlagsG fl) buf r (start - m.toNat) start) :=
  vm_sound_bwd r hwf hsz buf start hst fl hb hsc fuel m c h

open YaraModel.ReVm YaraModel.ReEmit in
/-- instance: the backward code of `ab+` run backwards from the end of `xabb` reports the lengths 3 (exhaustive mode) -/
example : exec { code := (emitCode true (.cat (.lit 97) (.plus (.lit 98) true))).toArray, entry := 0, buf := "xabb".toUTF8.data, start := 4, fl := { backwards := true, exhaustive := true } } = .done 3 [3] := by decide

open YaraModel.ReVm YaraModel.ReEmit in
/-- `matches_sound`: the `matches` operator never holds without reason.  `str matches /r/` runs `yr_re_exec` in scan mode
    from offset 0 of the string and is true iff the result is ≥ 0; for EVERY well-formed expression, every string and flags:
    if the model of the VM returns a non-negative value on the emitted code then the expression matches some substring
    str[o, q).  (The converse — every match is found — is the completeness statement not yet proved.) -/
theorem matches_sound (r : Re) (hwf : WF r) (hsz : (emit false r 0).1.length < 32000) (str : Bytes)
    (fl : VmFlags) (hw : fl.wide = false) (hb : fl.backwards = false) (fuel : Nat) (m : Int) (c : List Nat)
    (h : exec { code := (emitCode false r).toArray, entry := 0, buf := str, start := 0, fl := fl, syncFuel := fuel } = .done m c)
    (hm : 0 ≤ m) : ∃ o q, o ≤ q ∧ q ≤ str.size ∧ Re.Matches (specFlags fl) str r o q :=
  matches_sound_wf r hwf hsz str fl hw hb fuel m c h hm

open YaraModel.ReVm YaraModel.ReEmit in
/-- instance (the former finding C03-matches-empty-at-end): `"abc" matches /x*$/` — the scan reaches offset 3 and reports the
    empty match there -/
example : exec { code := (emitCode false (.cat (.star (.lit 120) true) .eol)).toArray, entry := 0, buf := "abc".toUTF8.data, start := 0, fl := { scan := true } } = .done 3 [] := by decide

open YaraModel.ReVm YaraModel.ReEmit in
/-- instance (the former finding C03-plus-backjump): `x(a?b)+c` over `xbc` — the loop of `+` re-enters at the split of `a?`,
    the first byte of the body; the expression is covered by `vm_sound` -/
example : exec { code := (emitCode false (.cat (.lit 120) (.cat (.plus (.cat (.range (.lit 97) 0 1 true) (.lit 98)) true) (.lit 99)))).toArray, entry := 0, buf := "xbc".toUTF8.data, start := 0, fl := {} } = .done 3 [] := by decide

open YaraModel.ReEmit in
example : WF (.cat (.lit 120) (.cat (.plus (.cat (.range (.lit 97) 0 1 true) (.lit 98)) true) (.lit 99))) :=
  .cat (.lit _) (.cat (.plus _ (.cat (.range 0 1 _ (.lit _) (by decide) (by decide)) (.lit _))) (.lit _))

open YaraModel.ReVm YaraModel.ReEmit in
/-- instance with a REPEAT_START/END loop: `xa{3,5}y` over `xaaaay` (prolog · loop{1,3} · optional copy) -/
example : exec { code := (emitCode false (.cat (.lit 120) (.cat (.range (.lit 97) 3 5 true) (.lit 121)))).toArray, entry := 0, buf := "xaaaay".toUTF8.data, start := 0, fl := {} } = .done 6 [] := by decide

open YaraModel.ReEmit in
example : WF (.cat (.lit 120) (.cat (.range (.alt (.cat (.lit 97) (.lit 97)) (.lit 97)) 4 6 true) (.lit 121))) :=
  .cat (.lit _) (.cat (.range 4 6 _ (.alt (.cat (.lit _) (.lit _)) (.lit _)) (by decide) (by decide)) (.lit _))

open YaraModel.ReEmit in
/-- every node kind: `\ba(b|)*d+\B` -/
example : WF (.cat .wordB (.cat (.lit 97) (.cat (.star (.alt (.lit 98) .empty) true) (.cat (.plus (.lit 100) false) .nonWordB)))) :=
  .cat .wordB (.cat (.lit _) (.cat (.star _ (.alt (.lit _) .empty)) (.cat (.plus _ (.lit _)) .nonWordB)))

open YaraModel.ReAtoms in
/-- `reAtoms_cover`: the atoms extracted for a regular expression / hex string cover its matches.  `atomsOf q m r` is the
    model of what `yr_ac_add_string` receives (`yr_atoms_extract_from_re`: the walk over the expression with the sliding
    4-node window and `_yr_atoms_trim`, the tree of OR / AND / leaf nodes, `_yr_atoms_choose`, then
    `_yr_atoms_expand_wildcards`, `_yr_atoms_wide`, `_yr_atoms_case_insensitive`, or the zero-length atom) for an ARBITRARY
    quality function `q` — every window and every OR child the heuristic could pick — and modifiers `m`.  For ALL
    expressions whose masked nodes have the masks the grammars produce (every node kind: runs through groups, `+` bodies and
    the first copies of counted repeats; alternations), ALL buffers, byte or wide matching, with or without nocase (as the
    modifiers allow): along every match [p, q') one of these byte sequences occurs LITERALLY in the buffer inside [p, q'),
    at a position where the match (its trace `T`) has the node the atom begins at — or the string has the zero-length atom
    that is a candidate at every offset.  The model with the quality function of atoms.c is compared with the atoms the
    real compiler inserts (hook H3) and with the code positions of their automaton entries on every generated non-literal
    unchained string.  For loop-free expressions (hex strings) Thm/C02 `reAtoms_cover` adds the position statement. -/
theorem reAtoms_cover (q : Atom → Int) (m : Mods) (fl : Flags) (buf : Bytes) (hw1 : fl.wide = true → m.wide = true)
    (hw0 : fl.wide = false → (m.wide = false ∨ m.ascii = true)) (hn : m.nocase = fl.nocase) (r : Re) (hmk : MaskOK r)
    (p q' : Nat) (hm : Re.Matches fl buf r p q') :
    ∃ T, Tr fl buf r 0 p q' T ∧ ∃ x ∈ atomsOf q m r, ∃ s, p ≤ s ∧ s + x.1.length ≤ q' ∧ BytesAt buf x.1 s ∧ (x.1 = [] ∨ (x.2, s) ∈ T) := by
  obtain ⟨T, hT⟩ := tr_of_matches hm 0
  exact ⟨T, hT, atomsOf_cover q m fl buf hw1 hw0 hn r hmk hT⟩

open YaraModel.ReAtoms in
/-- instance: `10 ?? 41 42 43 ?? 20 30` — the heuristic of atoms.c picks the interior window `41 42 43` (leaf 2) -/
example : (chosen quality (.cat (.lit 0x10) (.cat .any (.cat (.lit 0x41) (.cat (.lit 0x42) (.cat (.lit 0x43) (.cat .any (.cat (.lit 0x20) (.lit 0x30))))))))).map (fun a => a.map (·.byte)) = [[0x41, 0x42, 0x43]] := by decide

end YaraModel.C03
