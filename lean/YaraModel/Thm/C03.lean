/-
  C03 — regular-expression strings and `matches` agree with regex semantics.  Property theorems only
  (helpers: Lemmas/Re*.lean).
-/
import YaraModel.Lemmas.Re
namespace YaraModel.C03
open YaraModel.Re

/-- The specification is self-consistent: the set-of-end-positions semantics `Re.ends` (what the compiled driver
    evaluates in the correspondence runs) coincides with the independent relational semantics `Re.Matches`, for every
    node kind of RE_NODE_*, every flag combination, every buffer and every pair of positions. -/
theorem ends_iff_Matches (fl : Flags) (buf : Bytes) (r : Re) (p q : Nat) :
    q ∈ r.ends fl buf p ↔ Re.Matches fl buf r p q :=
  Re.ends_iff_Matches fl buf r p q

/-- non-trivial instance: `a*x` from offset 2 of `xxaaaxx` ends exactly at 6 -/
example : (Re.cat (.star (.lit 97) true) (.lit 120)).ends {} "xxaaaxx".toUTF8.data 2 = [6] := by decide

end YaraModel.C03
