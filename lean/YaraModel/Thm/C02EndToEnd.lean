/-
  C02 end to end for ONE non-chained hex string in one block: atoms → automaton → candidates → verification → match list,
  with the automaton contract of Thm/C02 `hex_scan_complete_partial` DISCHARGED by the theorems of Thm/AcBuild.lean
  (`build_sound`).  Property theorems only (helpers: Lemmas/HexEndToEnd.lean).
-/
import YaraModel.Thm.C02
import YaraModel.Thm.AcBuild
import YaraModel.Lemmas.HexEndToEnd
namespace YaraModel.C02
open YaraModel.Re YaraModel.ReVm YaraModel.ReEmit YaraModel.ReScan YaraModel.ReAtoms YaraModel.HexE2E YaraModel.ReHexG

/-- `hex_end_to_end_partial`: one non-chained hex string, one block, over the MODEL chain
      `atomsOf q m r` (Model/ReAtoms.lean: what `yr_ac_add_string` receives — masked atoms already expanded into literal
        atoms, or the zero-length atom)
      → `AC.Build.build` of these atoms (Model/AcBuild.lean: trie, failure links, packed transition table)
      → `AC.scan` of the block (Model/AcScan.lean) → `candsOf` (Lemmas/HexEndToEnd.lean: the report of atom number i at offset
        s becomes the verification candidate with the code positions of the node atom i begins at — equal to the
        `fwdRef` / `bwdRef` the atoms model records, `candOfAtom_refs`; zero-length atom: forward code from its beginning)
      → `scanHex` (Model/ReScan.lean: non-exhaustive forward run, exhaustive backward run, match callback, match list).
    For EVERY AST `r` the hex grammar can build (`Gram k r`, Thm/C02 `hexGrammar_builds_HexG`), every quality function of
    the atom heuristic, every buffer:
      (1) SOUND: every (offset, length) in the match list is a match of the pattern;
      (2) COMPLETE: every match [p, q') of the pattern with q' − p ≤ 1024 has its offset p in the match list;
    hence, when every match of the pattern in the block is at most 1024 bytes long, the set of reported offsets is exactly
    the set of offsets the specification admits.
    Remaining hypotheses, all explicit:
      * `hT`   the automaton was built (`build = some`: the transition-table assertion did not fail — `AC.Build.build_some`
               gives it when the atoms have at most 32 637 bytes in total), fewer than 2^32 atoms;
      * `hrun` no verification run of a candidate ends in an error (fiber limit / fuel);
      * code below 32000 bytes, at most 256 alternatives, byte mode, modifiers consistent with the flags.
    `_partial`: what is NOT in the chain: the automaton model's match entries carry a label but no code references — the
    label is the atom's position in the list and the references are looked up (`candsOf`); the byte-level equality of that
    lookup with the real match entries is a tie (atoms tie: `fwdRef` / `bwdRef` vs. the real entries), not a theorem; other
    strings sharing the automaton (`build_sound` holds for any atom list, the filter by string is not modelled here);
    chained strings; several blocks; the fast matcher; matches longer than 1024 bytes. -/
theorem hex_end_to_end_partial (q : Atom → Int) (m : Mods) (k : Kind) (r : Re) (hgram : Gram k r)
    (hszf : (emit false r 0).1.length < 32000) (hidf : (emit false r 0).2 ≤ 256)
    (hszb : (emit true r 0).1.length < 32000) (hidb : (emit true r 0).2 ≤ 256)
    (buf : Bytes) (fl : VmFlags) (hw : fl.wide = false) (hw0 : m.wide = false ∨ m.ascii = true) (hn : m.nocase = fl.nocase)
    (fuel : Nat) (T : YaraModel.AC.Tables) (hlen : (atomsOf q m r).length < 2 ^ 32)
    (hT : YaraModel.AC.Build.build (acAtoms (atomsOf q m r)) = some T)
    (hrun : ∀ c ∈ candsOf r (atomsOf q m r) (YaraModel.AC.scan T buf.toList),
      (∃ m1 c1, exec { code := (emitCode false r).toArray, entry := c.fwd, buf := buf, start := c.off, fl := fwdFlags fl, syncFuel := fuel } = .done m1 c1) ∧
      (∀ b, c.bwd = some b → ∃ m2 c2, exec { code := (emitCode true r).toArray, entry := b, buf := buf, start := c.off, fl := bwdFlags fl, syncFuel := fuel } = .done m2 c2)) :
    (∀ x ∈ scanHex r buf fl fuel (candsOf r (atomsOf q m r) (YaraModel.AC.scan T buf.toList)),
      Re.Matches (specFlags fl) buf r x.1 (x.1 + x.2)) ∧
    (∀ p q', p ≤ buf.size → Re.Matches (specFlags fl) buf r p q' → q' - p ≤ 1024 →
      ∃ len, (p, len) ∈ scanHex r buf fl fuel (candsOf r (atomsOf q m r) (YaraModel.AC.scan T buf.toList))) := by
  obtain ⟨hg, hgr, hmk⟩ := hexGrammar_builds_HexG k r hgram
  have hbt : ∀ a ∈ acAtoms (atomsOf q m r), a.2.bytes = [] → a.2.backtrack = 0 := by
    intro a ha _
    unfold acAtoms at ha
    simp only [List.mem_map] at ha
    obtain ⟨_, _, rfl⟩ := ha
    rfl
  have hlen' : (acAtoms (atomsOf q m r)).length < 2 ^ 32 := by simpa [acAtoms] using hlen
  have hS := YaraModel.AC.Build.build_sound (acAtoms (atomsOf q m r)) hbt hlen' T hT buf.toList
  have hfl : specFlagsG fl = specFlags fl := by
    unfold specFlagsG specFlags; rw [hw]
  constructor
  · have := hex_scan_sound r hg.hexAst hszf hszb buf fl fuel _ (cands_ok hg.hexAst hS)
    rw [hfl] at this
    exact this
  · intro p q' hp hm hwin
    exact scan_complete_ctx q m r hg hgr hmk hszf hidf hszb hidb buf fl hw hw0 hn fuel _
      (fun x hx s hs hb => hcands_holds hS hx hs hb) hrun p q' hp hm hwin

/-- the offsets: when no match of the pattern in the block is longer than 1024 bytes, an offset is in the match list iff
    the pattern matches there -/
theorem hex_end_to_end_offsets_partial (q : Atom → Int) (m : Mods) (k : Kind) (r : Re) (hgram : Gram k r)
    (hszf : (emit false r 0).1.length < 32000) (hidf : (emit false r 0).2 ≤ 256)
    (hszb : (emit true r 0).1.length < 32000) (hidb : (emit true r 0).2 ≤ 256)
    (buf : Bytes) (fl : VmFlags) (hw : fl.wide = false) (hw0 : m.wide = false ∨ m.ascii = true) (hn : m.nocase = fl.nocase)
    (fuel : Nat) (T : YaraModel.AC.Tables) (hlen : (atomsOf q m r).length < 2 ^ 32)
    (hT : YaraModel.AC.Build.build (acAtoms (atomsOf q m r)) = some T)
    (hrun : ∀ c ∈ candsOf r (atomsOf q m r) (YaraModel.AC.scan T buf.toList),
      (∃ m1 c1, exec { code := (emitCode false r).toArray, entry := c.fwd, buf := buf, start := c.off, fl := fwdFlags fl, syncFuel := fuel } = .done m1 c1) ∧
      (∀ b, c.bwd = some b → ∃ m2 c2, exec { code := (emitCode true r).toArray, entry := b, buf := buf, start := c.off, fl := bwdFlags fl, syncFuel := fuel } = .done m2 c2))
    (hshort : ∀ p q', Re.Matches (specFlags fl) buf r p q' → q' - p ≤ 1024) (p : Nat) (hp : p ≤ buf.size) :
    (∃ len, (p, len) ∈ scanHex r buf fl fuel (candsOf r (atomsOf q m r) (YaraModel.AC.scan T buf.toList))) ↔
    (∃ q', Re.Matches (specFlags fl) buf r p q') := by
  obtain ⟨h1, h2⟩ := hex_end_to_end_partial q m k r hgram hszf hidf hszb hidb buf fl hw hw0 hn fuel T hlen hT hrun
  constructor
  · rintro ⟨len, h⟩; exact ⟨_, h1 _ h⟩
  · rintro ⟨q', h⟩; exact h2 p q' hp h (hshort p q' h)

/-- instance of the whole chain: `?? 41 42 43 44 ?? 45` (the heuristic picks the interior atom `41 42 43 44`, leaf 1) over
    `x A B C D y E A B C D z A B C D w E`: the automaton is built, reports the atom at offsets 1, 7 and 12, the candidates
    carry the code positions of leaf 1 (forward 1, backward behind the node), and the match list is [(0,7), (11,7)] — the
    occurrence at 7 is followed by `z A`, not by `?? 45` -/
example : (let r : Re := .cat .any (.cat (.lit 0x41) (.cat (.lit 0x42) (.cat (.lit 0x43) (.cat (.lit 0x44) (.cat .any (.lit 0x45))))))
    let buf : Bytes := #[0x78, 0x41, 0x42, 0x43, 0x44, 0x79, 0x45, 0x41, 0x42, 0x43, 0x44, 0x7a, 0x41, 0x42, 0x43, 0x44, 0x77, 0x45]
    (YaraModel.AC.Build.build (acAtoms (atomsOf quality {} r))).map fun T =>
      ((candsOf r (atomsOf quality {} r) (YaraModel.AC.scan T buf.toList)).map (fun c => (c.fwd, c.bwd, c.off)),
       scanHex r buf {} 1000 (candsOf r (atomsOf quality {} r) (YaraModel.AC.scan T buf.toList)))) =
    some ([(1, some 11, 1), (1, some 11, 7), (1, some 11, 12)], [(0, 7), (11, 7)]) := by decide +kernel

end YaraModel.C02
