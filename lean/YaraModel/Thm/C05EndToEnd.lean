/-
  C05 — independence of the company, end to end over the model (property theorems only).
  `Thm/C05.company_independent` assumes the automaton contract for both compilations; `Thm/AcBuild` proves the contract for the
  automaton the construction builds.  Composed (through `Thm/C01EndToEnd`): the SAME text string compiled in two DIFFERENT rule
  sets — alone or among arbitrary other strings, with whatever atom window each compilation picked, at whatever index —
  reports the same offsets on every buffer, namely its documented occurrences.
-/
import YaraModel.Thm.C01EndToEnd
namespace YaraModel.Text
open YaraModel.AC YaraModel.AC.Build

/-- candidates the scan of automaton `T` reports for the string with index `i` -/
def candsOf (T : Tables) (buf : Bytes) (i : Nat) : List (Nat × Nat) :=
  (scan T buf).filterMap fun x => if x.1 = i then some (x.2.1, x.2.2) else none

/-- **Independence of the company, with the automata built rather than assumed.**  `t₁ ∈ strs₁` and `t₂ ∈ strs₂` are the same
    string (same bytes, same modifiers) in two rule sets; indices, atom windows and all the OTHER strings may differ.  For the
    automata built from each set's atoms and every buffer, both compilations report exactly the documented occurrences — hence
    the same offsets. -/
theorem company_independent_end_to_end (strs₁ strs₂ : List TStr)
    (hi₁ : (strs₁.map (·.idx)).Nodup) (hi₂ : (strs₂.map (·.idx)).Nodup)
    (hl₁ : ∀ t ∈ strs₁, t.m.legal = true) (hl₂ : ∀ t ∈ strs₂, t.m.legal = true)
    (hs₁ : ∀ t ∈ strs₁, t.s.isEmpty = false) (hs₂ : ∀ t ∈ strs₂, t.s.isEmpty = false)
    (hw₁ : ∀ t ∈ strs₁, ValidWindow t.w t.s) (hw₂ : ∀ t ∈ strs₂, ValidWindow t.w t.s)
    (hn₁ : (atomsFor strs₁).length < 2 ^ 32) (hn₂ : (atomsFor strs₂).length < 2 ^ 32)
    (T₁ T₂ : Tables) (hb₁ : build (atomsFor strs₁) = some T₁) (hb₂ : build (atomsFor strs₂) = some T₂)
    (t₁ t₂ : TStr) (ht₁ : t₁ ∈ strs₁) (ht₂ : t₂ ∈ strs₂) (hm : t₁.m = t₂.m) (hss : t₁.s = t₂.s) (buf : Bytes)
    (h19 : ∀ o, variantsAt (anyKey t₁.m) t₁.s buf o = variantsAt t₁.m t₁.s buf o) (h20 : ∀ o, ¬ MixedAt t₁.m t₁.s buf o) :
    (pipeline t₁.m t₁.s buf (candsOf T₁ buf t₁.idx)).map (·.off) = (pipeline t₂.m t₂.s buf (candsOf T₂ buf t₂.idx)).map (·.off) ∧
    (pipeline t₁.m t₁.s buf (candsOf T₁ buf t₁.idx)).map (·.off) = (occurrences t₁.m t₁.s buf).map (·.1) := by
  have a := (text_strings_end_to_end strs₁ hi₁ hl₁ hs₁ hw₁ hn₁ T₁ hb₁ t₁ ht₁ buf h19 h20).1
  have b := (text_strings_end_to_end strs₂ hi₂ hl₂ hs₂ hw₂ hn₂ T₂ hb₂ t₂ ht₂ buf (by rw [← hm, ← hss]; exact h19)
    (by rw [← hm, ← hss]; exact h20)).1
  refine ⟨?_, a⟩
  unfold candsOf
  rw [a, b, hm, hss]

/-! Non-vacuity: "abcd" alone (index 0, window 0) and in a company of three strings sharing prefixes and suffixes with it
    (index 2, window 0): same offsets from the two built automata. -/
example :
    let m : Mods := { ascii := true, wide := false, nocase := false, fullword := false, xor := none }
    let s : Bytes := [0x61, 0x62, 0x63, 0x64]
    let alone : List TStr := [⟨0, 0, m, s⟩]
    let company : List TStr := [⟨0, 0, m, [0x61, 0x62, 0x63, 0x78]⟩, ⟨1, 0, m, [0x62, 0x63, 0x64, 0x65]⟩, ⟨2, 0, m, s⟩]
    let buf : Bytes := [0x61, 0x62, 0x63, 0x64, 0x65, 0x2e, 0x61, 0x62, 0x63, 0x78, 0x61, 0x62, 0x63, 0x64]
    (build (atomsFor alone)).map (fun T => (pipeline m s buf (candsOf T buf 0)).map (·.off)) = some [0, 10] ∧
    (build (atomsFor company)).map (fun T => (pipeline m s buf (candsOf T buf 2)).map (·.off)) = some [0, 10] := by
  decide +kernel

end YaraModel.Text
