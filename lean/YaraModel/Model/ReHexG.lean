/-
  D7 — decidable shape predicates on hex-string ASTs, evaluated by the driver on the AST the real hex parser built
  (the AST text of the emit tie) for every generated / corpus hex string:
    `gram k r`   the AST is of the shape hex_grammar.y can build (`Kind`: token, `tokens`, rest of a token sequence,
                 `alternatives`, piece of a chained string)
    `hexG r`     the fragment of the VM-completeness theorems (Thm/C02 `vm_complete_hex`, `hex_scan_complete_partial`)
    `mirror r`   the pattern read right to left (what EMIT_BACKWARDS emits), `maskOK r` nibble masks only
  Lemmas/ReHexGram.lean proves `gram k r = true → Gram k r` (the inductive description) and `Gram k r → HexG r ∧ HexG (rev r) ∧
  MaskOK r`.  Core Lean only.
-/
import YaraModel.Spec.Re
namespace YaraModel.ReHexG
open YaraModel.Re

/-- grammar symbols of hex_grammar.y (+ the pieces `yr_re_ast_split_at_chaining_point` cuts the root concatenation into) -/
inductive Kind where
  | tok      -- token : byte | '(' alternatives ')'
  | toks     -- tokens : token | token token | token token_sequence token
  | mid      -- what follows the first token of `tokens`: token_or_range* token
  | alts     -- alternatives : tokens | alternatives '|' tokens
  | piece    -- a piece of the root concatenation: tokens and jumps, no two jumps adjacent
  deriving Repr, DecidableEq

def maskGood (m : UInt8) : Bool := m == 0xFF || m == 0x00 || m == 0x0F || m == 0xF0

/-- byte : _BYTE_ | _NOT_BYTE_ | _MASKED_BYTE_ (`??` = RE_NODE_ANY) | _MASKED_NOT_BYTE_; also the `[1]` jump (a masked
    literal with mask 0) -/
def leafTok : Re → Bool
  | .lit _ | .any | .notLit _ | .maskedNot _ _ => true
  | .masked _ m => maskGood m
  | _ => false

/-- range : a non-greedy RE_NODE_RANGE_ANY with ordered bounds that fit the 16-bit operands of RE_OPCODE_REPEAT_ANY -/
def isJump : Re → Bool
  | .rangeAny lo hi false => decide (lo ≤ hi) && decide (hi < 65536)
  | _ => false

/-- the sequence does not begin with a jump (consecutive jumps are merged into one by hex_grammar.y) -/
def noJumpHead : Re → Bool
  | .rangeAny _ _ _ => false
  | .cat (.rangeAny _ _ _) _ => false
  | _ => true

/-- the AST has the shape the grammar symbol `k` builds (n-ary concatenations right-nested, a parenthesised group is one
    child) -/
def gram : Kind → Re → Bool
  | .tok, .cat a b => gram .tok a && gram .mid b
  | .toks, .cat a b => gram .tok a && gram .mid b
  | .alts, .cat a b => gram .tok a && gram .mid b
  | .mid, .cat a b => ((isJump a && noJumpHead b) || gram .tok a) && gram .mid b
  | .piece, .cat a b => ((isJump a && noJumpHead b) || gram .tok a) && gram .piece b
  | _, .alt a b => gram .alts a && gram .toks b
  | .piece, r => isJump r || leafTok r
  | _, r => leafTok r

/-- begins with a byte-like token or a jump that may skip a byte -/
def hd : Re → Bool
  | .lit _ | .any | .masked _ _ | .notLit _ | .maskedNot _ _ => true
  | .rangeAny _ hi _ => decide (1 ≤ hi)
  | .cat a _ => hd a
  | .alt a b => hd a && hd b
  | _ => false

def hexG : Re → Bool
  | .lit _ | .any | .masked _ _ | .notLit _ | .maskedNot _ _ => true
  | .rangeAny lo hi g => !g && decide (lo ≤ hi) && decide (hi < 65536)
  | .cat a b => hexG a && hexG b
  | .alt a b => hexG a && hexG b && hd a
  | _ => false

def mirror : Re → Re
  | .cat a b => .cat (mirror b) (mirror a)
  | .alt a b => .alt (mirror a) (mirror b)
  | .star a g => .star (mirror a) g
  | .plus a g => .plus (mirror a) g
  | .range a lo hi g => .range (mirror a) lo hi g
  | r => r

def maskOK : Re → Bool
  | .masked _ m => maskGood m
  | .cat a b => maskOK a && maskOK b
  | .alt a b => maskOK a && maskOK b
  | .star a _ => maskOK a
  | .plus a _ => maskOK a
  | .range a _ _ _ => maskOK a
  | _ => true

end YaraModel.ReHexG
