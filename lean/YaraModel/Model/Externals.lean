/-
  C20 — executable model of the external-variable machinery
  (compiler.c `_yr_compiler_define_variable`, rules.c `yr_rules_define_*_variable`,
   scanner.c `yr_scanner_create` / `yr_scanner_define_*_variable`).
  The model follows the code: three tables (compiler, rule set, per scanner), the
  scanner table is a *copy* taken at creation; at scanner level integer and boolean
  are the same object type (`OBJECT_TYPE_INTEGER`), at rule-set level they are distinct.
-/
namespace YaraModel.Ext

inductive Ty | int | bool | flt | str
deriving DecidableEq, Repr

/-- Values. Booleans share `int`. Floats are modelled as an integer number of halves
    (the generator only uses dyadic values, so no IEEE claim is made). -/
inductive Val
  | int (v : Int)
  | flt (halves : Int)
  | str (s : List UInt8)
deriving DecidableEq, Repr

/-- `OBJECT_TYPE_*` of `yr_object_from_external_variable`. -/
inductive OTy | integer | float | string
deriving DecidableEq, Repr

def objTy : Ty → OTy
  | .int => .integer | .bool => .integer | .flt => .float | .str => .string

structure Var where
  name : String
  ty : Ty
  val : Val
deriving DecidableEq, Repr

def lookup (vs : List Var) (n : String) : Option Var := vs.find? (fun v => v.name == n)

def setVal (vs : List Var) (n : String) (x : Val) : List Var :=
  vs.map fun v => if v.name == n then { v with val := x } else v

inductive Err | duplicated | invalidArgument | invalidType
deriving DecidableEq, Repr

inductive Out
  | ok
  | err (e : Err)
  | noRules
  | noScanner
  | unmodelled            -- op sequences the harness never issues (define on a compiler after compile)
  | obs (vs : List Var)
deriving DecidableEq, Repr

inductive Op
  | cdef (ty : Ty) (name : String) (v : Val)
  | compile
  | rdef (ty : Ty) (name : String) (v : Val)
  | screate (k : Nat)
  | sdestroy (k : Nat)
  | sdef (k : Nat) (ty : Ty) (name : String) (v : Val)
  | scan (k : Nat)
  | rscan
deriving DecidableEq, Repr

structure St where
  comp : List Var
  rules : Option (List Var)
  scanners : Nat → Option (List Var)

def init : St := { comp := [], rules := none, scanners := fun _ => none }

def step (s : St) : Op → St × Out
  | .cdef ty n v =>
      match s.rules with
      | some _ => (s, .unmodelled)
      | none =>
        match lookup s.comp n with
        | some _ => (s, .err .duplicated)
        | none => ({ s with comp := s.comp ++ [⟨n, ty, v⟩] }, .ok)
  | .compile =>
      match s.rules with
      | some _ => (s, .unmodelled)
      | none => ({ s with rules := some s.comp }, .ok)
  | .rdef ty n v =>
      match s.rules with
      | none => (s, .noRules)
      | some rs =>
        match lookup rs n with
        | none => (s, .err .invalidArgument)
        | some x =>
          if x.ty = ty then ({ s with rules := some (setVal rs n v) }, .ok)
          else (s, .err .invalidType)
  | .screate k =>
      match s.rules with
      | none => (s, .noRules)
      | some rs => ({ s with scanners := fun j => if j = k then some rs else s.scanners j }, .ok)
  | .sdestroy k =>
      match s.scanners k with
      | none => (s, .noScanner)
      | some _ => ({ s with scanners := fun j => if j = k then none else s.scanners j }, .ok)
  | .sdef k ty n v =>
      match s.scanners k with
      | none => (s, .noScanner)
      | some vs =>
        match lookup vs n with
        | none => (s, .err .invalidArgument)
        | some x =>
          if objTy x.ty = objTy ty then
            ({ s with scanners := fun j => if j = k then some (setVal vs n v) else s.scanners j }, .ok)
          else (s, .err .invalidType)
  | .scan k =>
      match s.scanners k with
      | none => (s, .noScanner)
      | some vs => (s, .obs vs)
  | .rscan =>
      match s.rules with
      | none => (s, .noRules)
      | some rs => (s, .obs rs)

/-- run a whole op sequence, collecting outputs -/
def run (s : St) : List Op → St × List Out
  | [] => (s, [])
  | op :: ops =>
    let (s', o) := step s op
    let (s'', os) := run s' ops
    (s'', o :: os)

def runSt (s : St) (ops : List Op) : St := ops.foldl (fun s op => (step s op).1) s

/-! ### Probe conditions (what the harness' probe rules compute on a value) -/

def isInfix (p s : List UInt8) : Bool := (List.range (s.length + 1)).any fun i => (s.drop i).take p.length == p

def lower (c : UInt8) : UInt8 := if 65 ≤ c ∧ c ≤ 90 then c + 32 else c

/-- `/^a?b?c?$/` -/
def optABC (s : List UInt8) : Bool :=
  let s1 := match s with | 97 :: t => t | t => t
  let s2 := match s1 with | 98 :: t => t | t => t
  let s3 := match s2 with | 99 :: t => t | t => t
  s3.isEmpty

def probes (ty : Ty) (v : Val) : List Bool :=
  match ty, v with
  | .int, .int x => [x == 0, x == 1, x + 1 == 3, x < 0, (x % 8 + 8) % 8 ≥ 4, x != 0, x * 2 > 5]
  | .bool, .int x => [x != 0, x == 0, x == 1]
  | .flt, .flt h => [h < 0, h == 1, h ≥ 3, h + 1 == 5, h * 2 == 6]
  | .str, .str s => [s == [97], isInfix [98] s, s.take 2 == [97, 98] , optABC s,
                     isInfix [98] (s.map lower), (s.reverse.take 1 == [99]), s != []]
  | _, _ => []

end YaraModel.Ext
