/-
  C06 — models of the loops whose termination / result range the property relies on.

  * `rvaToOffset`: `pe_rva_to_offset` (libyara/modules/pe/pe_utils.c) with C's integer
    conversions made explicit (`u32` = DWORD truncation, `u64` = 64-bit wrap-around).
    The section table is the list `secs`; section `i` "fits" when its 40-byte header lies
    inside the file (`struct_fits_in_pe`), expressed with the section-table offset `secOff`.
  * `cappedLoop`: a loop `for (i = 0; i < min(n, cap); i++) { if (!body) break; }`.
  * `cmdLoop`: the Mach-O load-command walk (progress test: every step consumes ≥ 8 bytes).
  Core Lean only (linked into the driver).
-/
import YaraModel.Gen.Bounds
namespace YaraModel.PeRva
open YaraModel.Gen.Bounds

def u32 (n : Nat) : Nat := n % 2 ^ 32
def u64 (n : Nat) : Nat := n % 2 ^ 64

structure Sect where
  va : Nat        -- VirtualAddress   (uint32)
  vsize : Nat     -- Misc.VirtualSize (uint32)
  rawptr : Nat    -- PointerToRawData (uint32)
  rawsize : Nat   -- SizeOfRawData    (uint32)
  deriving Repr

structure Acc where
  lowest : Nat := 0xffffffff
  srva : Nat := 0
  soff : Nat := 0
  sraw : Nat := 0
  deriving Repr

/-- body of the `while` loop for one section that fits in the file -/
def stepSect (fileAlign sectAlign rva : Nat) (a : Acc) (s : Sect) : Acc :=
  let lowest := if a.lowest > s.va then s.va else a.lowest
  let vs := max s.vsize s.rawsize
  if rva ≥ s.va ∧ u64 (rva + 2 ^ 64 - s.va) < vs ∧ a.srva ≤ s.va then
    let alignment := min fileAlign 0x200
    let off := s.rawptr
    let off := if alignment ≠ 0 then (if off % alignment ≠ 0 then off - off % alignment else off) else off
    let off := if sectAlign ≥ PE_PAGE_SIZE then off - off % PE_SECTOR_SIZE else off
    { lowest := lowest, srva := s.va, soff := off, sraw := s.rawsize }
  else { a with lowest := lowest }

/-- the `while (i < min(NumberOfSections, MAX_PE_SECTIONS))` loop; `none` = a section header
    does not fit in the file (`return -1`). Returns the accumulator and the number of iterations. -/
def sectLoop (dataSize fileAlign sectAlign secOff rva : Nat) : Nat → Nat → List Sect → Acc → Option (Acc × Nat)
  | 0, i, _, a => some (a, i)
  | _ + 1, _, [], _ => none
  | fuel + 1, i, s :: rest, a =>
    if secOff + 40 * i + 40 ≤ dataSize then
      sectLoop dataSize fileAlign sectAlign secOff rva fuel (i + 1) rest (stepSect fileAlign sectAlign rva a s)
    else none

/-- the code after the loop: sparse-space test, file-size test -/
def finishCore (dataSize rva srva soff sraw : Nat) : Option Nat :=
  if u64 (rva + 2 ^ 64 - srva) ≥ sraw then none
  else if u64 (soff + u64 (rva + 2 ^ 64 - srva)) ≥ dataSize then none
  else some (u64 (soff + u64 (rva + 2 ^ 64 - srva)))

/-- header mapping (`rva < lowest_section_rva`) then `finishCore` -/
def finish (dataSize rva : Nat) (a : Acc) : Option Nat :=
  if rva < a.lowest then finishCore dataSize rva 0 0 (u32 dataSize)
  else finishCore dataSize rva a.srva a.soff a.sraw

def rvaToOffset (dataSize fileAlign sectAlign nsec secOff : Nat) (secs : List Sect) (rva : Nat) : Option Nat :=
  match sectLoop dataSize fileAlign sectAlign secOff rva (min nsec MAX_PE_SECTIONS) 0 secs {} with
  | none => none
  | some (a, _) => finish dataSize rva a

/-- number of loop iterations performed (0 when the walk is abandoned) -/
def rvaIterations (dataSize fileAlign sectAlign nsec secOff : Nat) (secs : List Sect) (rva : Nat) : Nat :=
  match sectLoop dataSize fileAlign sectAlign secOff rva (min nsec MAX_PE_SECTIONS) 0 secs {} with
  | none => 0
  | some (_, n) => n

/-- `for (i = 0; i < min(n, cap); i++) { s = body s or break }` — returns final state and iteration count -/
def cappedLoop {σ : Type} (body : σ → Option σ) : Nat → σ → σ × Nat
  | 0, s => (s, 0)
  | fuel + 1, s =>
    match body s with
    | none => (s, 0)
    | some s' => let r := cappedLoop body fuel s'; (r.1, r.2 + 1)

/-- Mach-O load-command walk (macho.c `macho_parse_file`, both passes): state = parsed_size
    (and `command = data + parsed_size`); input = the `cmdsize` field read at each position
    (attacker controlled). Uses the *generated* tests in the order of the C code. Returns the
    list of (offset, cmdsize) of the commands whose 8-byte header was read and that were handled. -/
def cmdLoop (data size : BitVec 64) : Nat → BitVec 64 → List (BitVec 64) → List (BitVec 64 × BitVec 64)
  | 0, _, _ => []
  | _ + 1, _, [] => []
  | fuel + 1, parsed, c :: cs =>
    if macho_cmd_hdr_outside data size (data + parsed) then []
    else if macho_cmd_too_big size parsed c then []
    else if macho_cmd_too_small c then []
    else (parsed, c) :: cmdLoop data size fuel (parsed + c) cs

end YaraModel.PeRva
