/-
  D7 — model of `yr_re_ast_split_at_chaining_point` (libyara/re.c) applied repeatedly by `yr_parser_reduce_string_declaration`:
  which jumps of a hex string / regular expression are CHAINING POINTS and what the pieces and their gaps are.
  A chaining point is a top-level child of the root concatenation that is a non-greedy RE_NODE_RANGE_ANY with start or end
  above YR_STRING_CHAINING_THRESHOLD (200) and that has a previous and a next sibling in the (remaining) concatenation.
  The pieces and gaps are compared with the chain the real compiler builds (YR_STRING chained_to / chain_gap_min / max, h_re
  `strs=`) for every generated string.  Core Lean only.
-/
import YaraModel.Spec.Re
import YaraModel.Model.ReChain
namespace YaraModel.ReSplit
open YaraModel.Re YaraModel.ReChain

def threshold : Nat := 200        -- YR_STRING_CHAINING_THRESHOLD

/-- children of the root concatenation (n-ary in re.c; right-nested here; a group is a left operand and stays one child) -/
def spine : Re → List Re
  | .cat a b => a :: spine b
  | r => [r]

def unspine : List Re → Re
  | [] => .empty
  | [x] => x
  | x :: t => .cat x (unspine t)

def isChainPoint : Re → Bool
  | .rangeAny lo hi false => decide (lo > threshold) || decide (hi > threshold)
  | _ => false

def gapOf : Re → Gap
  | .rangeAny lo hi _ => { gmin := lo, gmax := hi }
  | _ => { gmin := 0, gmax := 0 }

/-- the head piece (as a list of children) and, for every further piece, the gap before it: `cur` = children of the piece
    being collected -/
def splitGo : List Re → List Re → List Re × List (Gap × List Re)
  | cur, [] => (cur, [])
  | cur, x :: t =>
    if isChainPoint x && !cur.isEmpty && !t.isEmpty then
      ((cur, (gapOf x, (splitGo [] t).1) :: (splitGo [] t).2))
    else splitGo (cur ++ [x]) t

/-- the chain of a string: the head piece, then (gap, piece) for every further piece -/
def chainSplit (r : Re) : Re × List (Gap × Re) :=
  (unspine (splitGo [] (spine r)).1, (splitGo [] (spine r)).2.map fun gp => (gp.1, unspine gp.2))

end YaraModel.ReSplit
