/-
  D7 — model of the verification of hex-string candidates in one block (libyara/scan.c): `_yr_scan_verify_re_match`
  (general VM path: the forward run from the automaton entry's forward code, then the exhaustive backward run whose callback
  combines both lengths), `_yr_scan_match_callback` and `_yr_scan_add_match_to_list` (one entry per offset, sorted).
  The forward and the backward code are kept as two programs (in the arena the backward code follows the forward code; the
  entry positions of the real automaton entries are compared with Model/ReAtoms `fwdRef` / `bwdRef` by the checks).
-/
import YaraModel.Model.ReEmit
import YaraModel.Model.ReChain
namespace YaraModel.ReScan
open YaraModel.Re YaraModel.ReVm YaraModel.ReEmit

/-- an automaton entry of the string reported at `off`: where verification enters the forward and the backward code
    (`bwd = none`: the zero-length atom of a string without atoms, no backward code) -/
structure Cand where
  fwd : Nat
  bwd : Option Nat
  off : Nat
  deriving Repr

def fwdFlags (fl : VmFlags) : VmFlags := { fl with backwards := false, exhaustive := false, scan := false }
def bwdFlags (fl : VmFlags) : VmFlags := { fl with backwards := true, exhaustive := true, scan := false }

/-- `_yr_scan_verify_re_match` for one candidate: (offset, length) of every match it hands to the match callback -/
def verifyOne (r : Re) (buf : Bytes) (fl : VmFlags) (fuel : Nat) (c : Cand) : List (Nat × Nat) :=
  match exec { code := (emitCode false r).toArray, entry := c.fwd, buf := buf, start := c.off, fl := fwdFlags fl, syncFuel := fuel } with
  | .done m _ =>
    if m < 0 then []
    else
      match c.bwd with
      | none => [(c.off, m.toNat)]
      | some b =>
        match exec { code := (emitCode true r).toArray, entry := b, buf := buf, start := c.off, fl := bwdFlags fl, syncFuel := fuel } with
        | .done _ calls => calls.map fun lb => (c.off - lb, lb + m.toNat)
        | .outOfFuel => []
  | .outOfFuel => []

/-- the match list of the string after the candidates of a block -/
def scanHex (r : Re) (buf : Bytes) (fl : VmFlags) (fuel : Nat) (cands : List Cand) : List (Nat × Nat) :=
  cands.foldl (fun acc c => (verifyOne r buf fl fuel c).foldl (fun acc2 m => YaraModel.ReChain.addConfirmed m.1 m.2 acc2) acc) []

end YaraModel.ReScan
