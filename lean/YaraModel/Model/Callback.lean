/-
  C11 — executable model of the reporting part of one scan
  (scanner.c `yr_scanner_scan_mem_blocks`, exec.c `OP_IMPORT` / `OP_INIT_RULE` /
   `OP_PUSH_RULE` / `OP_MATCH_RULE`, modules.c `yr_modules_load`,
   scanner.c `yr_scanner_set_flags`).
  The model follows the code:
    * `loadModules`  — one `yr_modules_load` per `OP_IMPORT` (source order), the objects table
                       makes a second import of the same module a no-op, two callback calls per
                       load, only `CALLBACK_ERROR` is looked at (an ABORT answer is ignored);
    * `exec`         — the two bit sets `rule_matches_flags` / `ns_unsatisfied_flags`, a rule whose
                       `required_eval` bit is clear is skipped by `OP_INIT_RULE`;
    * `report`       — the final loop over the rules table with its two `goto _exit`;
    * `scan`         — exec, then the loop, then `CALLBACK_MSG_SCAN_FINISHED` (answer ignored;
                       NOT sent when the loop left through `_exit`).
  Rule evaluation emits no message and a failing import ends the scan before any rule is
  reported, so imports and rules are two separate input lists (both in source order).

  Second part (end of file): the string-matching phase that runs BEFORE all of the above
  (scan.c `yr_scan_verify_match` / `_yr_scan_add_match_to_list`): per-string match lists capped at
  `YR_MAX_STRING_MATCHES`, `CALLBACK_MSG_TOO_MANY_MATCHES`, `strings_temp_disabled`; `fullScan`
  runs it and then `scan` on the conditions resolved with the recorded match counts.
-/
namespace YaraModel.Cb

/-- `CALLBACK_CONTINUE` / `CALLBACK_ABORT` / `CALLBACK_ERROR` -/
inductive Ret | cont | abort | error
deriving DecidableEq, Repr

/-- return value of the scan call (`ERROR_SUCCESS` / `ERROR_CALLBACK_ERROR`) -/
inductive Rc | success | callbackError | tooManyMatches
deriving DecidableEq, Repr

/-- The protocol messages; a rule is identified by its index in definition order, a string by its
    index (`YR_STRING.idx`) in definition order over the whole rule set. -/
inductive Msg
  | tooManyMatches (s : Nat)
  | importModule (m : String)
  | moduleImported (m : String)
  | ruleMatching (i : Nat)
  | ruleNotMatching (i : Nat)
  | scanFinished
deriving DecidableEq, Repr

/-- Conditions of the generated rule sets. `lit` is anything decided by the buffer alone
    (`true`, `false`, `filesize > N`), `str found` is `$s` for a string of the rule that is / is not
    in the buffer, `cnt found gt` is `#s > N` for a string of the rule (`found`: has a match,
    `gt`: the comparison's value), `rule j` is the identifier of rule number `j`. -/
inductive Cond
  | lit (b : Bool)
  | str (found : Bool)
  | cnt (found gt : Bool)
  | rule (j : Nat)
  | not (c : Cond)
  | and (a b : Cond)
  | or (a b : Cond)
deriving DecidableEq, Repr

structure Rule where
  ns : Nat            -- namespace index
  isGlobal : Bool     -- RULE_IS_GLOBAL
  isPrivate : Bool    -- RULE_IS_PRIVATE
  cond : Cond
deriving DecidableEq, Repr

/-- SCAN_FLAGS_REPORT_RULES_MATCHING / SCAN_FLAGS_REPORT_RULES_NOT_MATCHING -/
structure Flags where
  matching : Bool
  notMatching : Bool
deriving DecidableEq, Repr

/-- `yr_scanner_set_flags`: neither flag given means both. -/
def setFlags (m n : Bool) : Flags :=
  if !m && !n then ⟨true, true⟩ else ⟨m, n⟩

/-- `yr_scanner_create`: both by default. -/
def defaultFlags : Flags := ⟨true, true⟩

/-! ### the scripted callback -/

/-- the callback answers the next entry of its script, CONTINUE once the script is exhausted -/
def call : List Ret → Ret × List Ret
  | [] => (.cont, [])
  | r :: s => (r, s)

/-! ### `yr_modules_load` for every `OP_IMPORT` -/

structure Loaded where
  trace : List Msg
  rest : List Ret      -- script not yet consumed
  ok : Bool            -- false: some load returned ERROR_CALLBACK_ERROR (exec stops)
deriving DecidableEq, Repr

def loadModules : List String → List String → List Ret → Loaded
  | _, [], s => ⟨[], s, true⟩
  | loaded, m :: ms, s =>
    if loaded.contains m then loadModules loaded ms s          -- already in objects_table
    else
      let (r1, s1) := call s                                    -- CALLBACK_MSG_IMPORT_MODULE
      if r1 = .error then ⟨[.importModule m], s1, false⟩
      else
        let (r2, s2) := call s1                                 -- CALLBACK_MSG_MODULE_IMPORTED
        if r2 = .error then ⟨[.importModule m, .moduleImported m], s2, false⟩
        else
          let l := loadModules (m :: loaded) ms s2
          ⟨.importModule m :: .moduleImported m :: l.trace, l.rest, l.ok⟩

/-! ### rule evaluation (exec.c) -/

/-- grammar.y `required_strings.count` -/
def Cond.required : Cond → Nat
  | .lit _ => 0
  | .str _ => 1
  | .cnt _ _ => 0
  | .rule _ => 0
  | .not _ => 0
  | .and a b => a.required + b.required
  | .or a b => min a.required b.required

/-- did any string of the rule match (scan.c sets the rule's `required_eval` bit then) -/
def Cond.anyFound : Cond → Bool
  | .lit _ => false
  | .str f => f
  | .cnt f _ => f
  | .rule _ => false
  | .not c => c.anyFound
  | .and a b => a.anyFound || b.anyFound
  | .or a b => a.anyFound || b.anyFound

/-- the rule's bit in `required_eval` when the code runs: copied from `no_required_strings`
    or set by a string match -/
def Rule.requiredEval (r : Rule) : Bool := r.cond.required == 0 || r.cond.anyFound

/-- the VM on a condition; `OP_PUSH_RULE` reads `rule_matches_flags` (bits of rules not yet
    evaluated are clear) -/
def evalCond (matched : List Bool) : Cond → Bool
  | .lit b => b
  | .str f => f
  | .cnt _ gt => gt
  | .rule j => matched.getD j false
  | .not c => !evalCond matched c
  | .and a b => evalCond matched a && evalCond matched b
  | .or a b => evalCond matched a || evalCond matched b

structure Ex where
  matched : List Bool   -- rule_matches_flags, one entry per rule evaluated so far
  unsat : List Nat      -- namespaces whose bit in ns_unsatisfied_flags is set
deriving DecidableEq, Repr

def Ex.markIfGlobal (e : Ex) (r : Rule) : List Nat :=
  if r.isGlobal then r.ns :: e.unsat else e.unsat

/-- `OP_INIT_RULE … OP_MATCH_RULE` of one rule -/
def execRule (e : Ex) (r : Rule) : Ex :=
  if !r.requiredEval then
    ⟨e.matched ++ [false], e.markIfGlobal r⟩              -- skipped: false; global marks its namespace
  else if evalCond e.matched r.cond then
    ⟨e.matched ++ [true], e.unsat⟩
  else
    ⟨e.matched ++ [false], e.markIfGlobal r⟩

def exec (rs : List Rule) : Ex := rs.foldl execRule ⟨[], []⟩

/-! ### the reporting loop (scanner.c) -/

inductive LoopEnd
  | done (rest : List Ret)     -- fell out of the `for`
  | exit (rc : Rc)             -- `goto _exit`
deriving DecidableEq, Repr

/-- message selected for rule `i` (0 in the C code = none) -/
def loopMsg (fl : Flags) (e : Ex) (i : Nat) (r : Rule) : Option Msg :=
  if e.matched.getD i false && !e.unsat.contains r.ns then
    if fl.matching then some (.ruleMatching i) else none
  else
    if fl.notMatching then some (.ruleNotMatching i) else none

def report (fl : Flags) (e : Ex) : Nat → List Rule → List Ret → List Msg × LoopEnd
  | _, [], s => ([], .done s)
  | i, r :: rs, s =>
    match loopMsg fl e i r with
    | none => report fl e (i + 1) rs s
    | some m =>
      if r.isPrivate then report fl e (i + 1) rs s
      else
        match call s with
        | (.abort, _) => ([m], .exit .success)
        | (.error, _) => ([m], .exit .callbackError)
        | (.cont, s') =>
          let (t, l) := report fl e (i + 1) rs s'
          (m :: t, l)

/-- one scan: ordered message trace and return code -/
def scan (rs : List Rule) (imports : List String) (fl : Flags) (script : List Ret) : List Msg × Rc :=
  let l := loadModules [] imports script                  -- inside yr_execute_code
  if !l.ok then (l.trace, .callbackError)                 -- result != ERROR_SUCCESS: goto _exit
  else
    match report fl (exec rs) 0 rs l.rest with
    | (t, .exit rc) => (l.trace ++ t, rc)
    | (t, .done _) => (l.trace ++ t ++ [.scanFinished], .success)   -- answer to SCAN_FINISHED ignored

/-! ### `filesize` (scanner.c, after the block loop) -/

/-- `scanner->file_size = iterator->file_size != NULL ? iterator->file_size(iterator) : YR_UNDEFINED`,
    assigned in EVERY scan: `yr_scanner_scan_mem` installs a size function, a caller's block iterator
    and the process iterator may come without one. -/
def scanFileSize (hasSizeFn : Bool) (size : Nat) : Option Nat := if hasSizeFn then some size else none

/-- `filesize > n` (`gt`) / `filesize < n` as a rule condition: an undefined operand makes the comparison
    undefined, which `and` / `or` / `OP_MATCH_RULE` read as false -/
def fileSizeAtom (fs : Option Nat) (gt : Bool) (n : Nat) : Bool :=
  match fs with
  | none => false
  | some s => if gt then decide (n < s) else decide (s < n)

/-- `OP_MATCH_RULE` on an integer-valued condition: `!is_undef(r1) && r1.i` — defined and non-zero,
    negative values included -/
def intCondHolds (v : Option Int) : Bool :=
  match v with
  | none => false
  | some i => i != 0

/-! ### the matching phase and `CALLBACK_MSG_TOO_MANY_MATCHES` (scan.c) -/

/-- conditions as written: a string is referred to by its index `YR_STRING.idx` -/
inductive SCond
  | lit (b : Bool)
  | str (s : Nat)              -- `$s`
  | cnt (s : Nat) (n : Nat)    -- `#s > n`
  | rule (j : Nat)
  | not (c : SCond)
  | and (a b : SCond)
  | or (a b : SCond)
deriving DecidableEq, Repr

structure SRule where
  ns : Nat
  isGlobal : Bool
  isPrivate : Bool
  cond : SCond
deriving DecidableEq, Repr

/-- what the VM sees of a condition once `count s` matches are recorded for string `s` -/
def SCond.resolve (count : Nat → Nat) : SCond → Cond
  | .lit b => .lit b
  | .str s => .str (decide (0 < count s))
  | .cnt s n => .cnt (decide (0 < count s)) (decide (n < count s))
  | .rule j => .rule j
  | .not c => .not (c.resolve count)
  | .and a b => .and (a.resolve count) (b.resolve count)
  | .or a b => .or (a.resolve count) (b.resolve count)

def SRule.resolve (count : Nat → Nat) (r : SRule) : Rule :=
  ⟨r.ns, r.isGlobal, r.isPrivate, r.cond.resolve count⟩

/-- `matches[s].count` for every string, and the set bits of `strings_temp_disabled` -/
structure MatchSt where
  count : Nat → Nat
  disabled : List Nat

def MatchSt.init : MatchSt := ⟨fun _ => 0, []⟩

structure Matched where
  trace : List Msg
  st : MatchSt
  rest : List Ret
  ok : Bool               -- false: a verification returned ERROR_TOO_MANY_MATCHES (scan halted)

/-- `events`: the strings of the successfully verified candidates, in the order the automaton hands
    them to `yr_scan_verify_match`; `limit` is `YR_MAX_STRING_MATCHES`. -/
def matchPhase (limit : Nat) : List Nat → MatchSt → List Ret → Matched
  | [], st, sc => ⟨[], st, sc, true⟩
  | s :: es, st, sc =>
    if st.disabled.contains s then matchPhase limit es st sc            -- strings_temp_disabled: return at once
    else if st.count s = limit then                                      -- _yr_scan_add_match_to_list: list is full
      match call sc with                                                 -- CALLBACK_MSG_TOO_MANY_MATCHES
      | (.cont, sc') =>
        let m := matchPhase limit es ⟨st.count, s :: st.disabled⟩ sc'
        ⟨.tooManyMatches s :: m.trace, m.st, m.rest, m.ok⟩
      | (_, sc') => ⟨[.tooManyMatches s], st, sc', false⟩             -- any other answer: ERROR_TOO_MANY_MATCHES
    else
      matchPhase limit es ⟨fun x => if x = s then st.count s + 1 else st.count x, st.disabled⟩ sc

/-- a whole scan: blocks are matched first, then the code runs and the rules are reported -/
def fullScan (limit : Nat) (events : List Nat) (rs : List SRule) (imports : List String) (fl : Flags)
    (script : List Ret) : List Msg × Rc :=
  let m := matchPhase limit events .init script
  if !m.ok then (m.trace, .tooManyMatches)                               -- result != ERROR_SUCCESS: goto _exit
  else
    let r := scan (rs.map (SRule.resolve m.st.count)) imports fl m.rest
    (m.trace ++ r.1, r.2)

end YaraModel.Cb
