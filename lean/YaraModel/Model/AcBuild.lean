/-
  Aho-Corasick automaton CONSTRUCTION — executable model (core Lean only) of libyara/ahocorasick.c,
  function by function:
    yr_ac_add_string                          → `addAtom`   (`nextState`, `createState`, `walk`)
    _yr_ac_create_failure_links               → `createFailureLinks` (`rootFixup`, `findFailure`, `linkChild`)
    _yr_ac_transitions_subset                 → `transitionsSubset`
    _yr_ac_optimize_failure_links             → `optimizeFailureLinks` (`optStep`)
    yr_bitmask_find_non_colliding_offset      → `findOffset` (`fits`, `skipFull`)
    _yr_ac_find_suitable_transition_table_slot→ `findSlot`  (first fit + the growth rule)
    _yr_ac_build_transition_table             → `buildTransitionTable` (`initRoot`, `packStep`)
    yr_ac_compile                             → `compile`;   everything from the atom list: `build`.
  The result is a `Tables` value (Model/AcScan.lean) with the SAME layout as the arena tables of the real
  automaton (transition table, match table, match pool with its `next` links) — the driver engine `acbuild`
  prints it in the format harness/h_scan.c prints the real tables, and the two are compared verbatim.

  Representation choices (each checked by the verbatim comparison):
   * states are numbered in creation order (root = 0); `first_child`/`siblings` is the list `children`
     (newest child first, as `_yr_ac_state_create` links a new state in front);
   * the three queue traversals are the one generic `bfs` loop (pop the head, run the body, push the children
     at the tail; `fuel` = number of states, every state is pushed once);
   * `path` is a GHOST field (the bytes leading to the state); no computation reads it;
   * `depth` is a `Nat` (C: `uint8_t`, equal for atoms of at most 255 bytes; yara's atoms have at most 4);
   * the "in use" bitmask is an `Array Bool` of `tables_size` entries, positions outside it are free — the C
     bitmask has spare words that are always zero; `t_table_unused_candidate` only skips fully used 64-bit
     words and is kept with the C arithmetic (`cand / 64` words are skipped, the word index is stored back);
   * `assert(*slot + 257 < YR_AC_MAX_TRANSITION_TABLE_SIZE)`: a violated assertion clears `ok`, and `build`
     returns `none` (the C process aborts).
-/
import YaraModel.Model.AcScan
namespace YaraModel.AC.Build
open YaraModel.Text YaraModel.AC

/-- `YR_AC_STATE` -/
structure State where
  input : UInt8 := 0
  depth : Nat := 0
  matchesRef : Nat := 0            -- 1-based index into the match pool, 0 = YR_ARENA_NULL_REF
  failure : Nat := 0               -- state number
  slot : Nat := 0                  -- t_table_slot
  children : List Nat := []        -- first_child, then the siblings chain
  path : Bytes := []               -- ghost
deriving Inhabited, Repr

/-- `YR_AC_AUTOMATON` (the part that lives until `yr_ac_compile`) with the match pool of the arena -/
structure Auto where
  states : Array State
  pool : Array (Nat × Nat × Nat)   -- (string idx, backtrack, next as 1-based index or 0)
deriving Repr

def Auto.st (A : Auto) (i : Nat) : State := A.states.getD i default

def Auto.modify (A : Auto) (i : Nat) (f : State → State) : Auto :=
  { A with states := A.states.setIfInBounds i (f (A.st i)) }

/-- `yr_ac_automaton_create` -/
def empty : Auto := { states := #[{}], pool := #[] }

/-- `_yr_ac_next_state` -/
def nextState (A : Auto) (s : Nat) (c : UInt8) : Option Nat :=
  (A.st s).children.find? fun ch => (A.st ch).input == c

/-- `_yr_ac_state_create`: the new state becomes the FIRST child -/
def createState (A : Auto) (s : Nat) (c : UInt8) : Auto × Nat :=
  let n := A.states.size
  let ns : State := { input := c, depth := (A.st s).depth + 1, path := (A.st s).path ++ [c] }
  let A1 : Auto := { A with states := A.states.push ns }
  (A1.modify s fun x => { x with children := n :: x.children }, n)

/-- the `for` loop of `yr_ac_add_string` over the atom's bytes -/
def walk (A : Auto) (s : Nat) : Bytes → Auto × Nat
  | [] => (A, s)
  | c :: rest =>
    match nextState A s c with
    | some n => walk A n rest
    | none => let r := createState A s c; walk r.1 r.2 rest

/-- one iteration of the `while (atom != NULL)` loop of `yr_ac_add_string` -/
def addAtom (A : Auto) (sa : Nat × Atom) : Auto :=
  let r := walk A 0 sa.2.bytes
  let A1 := r.1
  let s := r.2
  let ref := A1.pool.size + 1
  let A2 : Auto := { A1 with pool := A1.pool.push (sa.1, (A1.st s).depth + sa.2.backtrack, (A1.st s).matchesRef) }
  A2.modify s fun x => { x with matchesRef := ref }

def addAtoms (atoms : List (Nat × Atom)) : Auto := atoms.foldl addAtom empty

/-! ### traversal -/

/-- the queue loop shared by the three passes: pop the head, run `body`, push the children of the popped state -/
def bfs {σ : Type} (children : σ → Nat → List Nat) (body : σ → Nat → σ) : Nat → List Nat → σ → σ
  | 0, _, x => x
  | _ + 1, [], x => x
  | fuel + 1, cur :: q, x =>
    let x1 := body x cur
    bfs children body fuel (q ++ children x1 cur) x1

/-! ### `_yr_ac_create_failure_links` -/

def poolNext (A : Auto) (i1 : Nat) : Nat := (A.pool.getD (i1 - 1) (0, 0, 0)).2.2
def poolBt (A : Auto) (i1 : Nat) : Nat := (A.pool.getD (i1 - 1) (0, 0, 0)).2.1

/-- `while (match->next != NULL) match = match->next;` from the entry with 1-based index `i1` -/
def lastMatch (A : Auto) : Nat → Nat → Nat
  | 0, i1 => i1
  | fuel + 1, i1 => if poolNext A i1 = 0 then i1 else lastMatch A fuel (poolNext A i1)

/-- `match->next = …` -/
def setNext (A : Auto) (i1 : Nat) (nx : Nat) : Auto :=
  let e := A.pool.getD (i1 - 1) (0, 0, 0)
  { A with pool := A.pool.setIfInBounds (i1 - 1) (e.1, e.2.1, nx) }

/-- first part of the loop body: the popped state inherits the root's match list -/
def rootFixup (A : Auto) (cur : Nat) : Auto :=
  if (A.st cur).matchesRef ≠ 0 then
    let l := lastMatch A A.pool.size (A.st cur).matchesRef
    if poolBt A l > 0 then setNext A l (A.st 0).matchesRef else A
  else A.modify cur fun x => { x with matchesRef := (A.st 0).matchesRef }

/-- the `while (1)` loop: first state on the failure chain of `f` that has a transition on `c` -/
def findFailure (A : Auto) (c : UInt8) : Nat → Nat → Option Nat
  | 0, _ => none
  | fuel + 1, f =>
    match nextState A f c with
    | some t => some t
    | none => if f = 0 then none else findFailure A c fuel (A.st f).failure

/-- the body of the loop over the children of the popped state -/
def linkChild (cur : Nat) (A : Auto) (ch : Nat) : Auto :=
  match findFailure A (A.st ch).input A.states.size (A.st cur).failure with
  | some t =>
    let A1 := A.modify ch fun x => { x with failure := t }
    if (A1.st ch).matchesRef = 0 then A1.modify ch fun x => { x with matchesRef := (A1.st t).matchesRef }
    else setNext A1 (lastMatch A1 A1.pool.size (A1.st ch).matchesRef) (A1.st t).matchesRef
  | none => A.modify ch fun x => { x with failure := 0 }

def linkStep (A : Auto) (cur : Nat) : Auto :=
  let A1 := rootFixup A cur
  (A1.st cur).children.foldl (linkChild cur) A1

def kids (A : Auto) (s : Nat) : List Nat := (A.st s).children

def createFailureLinks (A : Auto) : Auto :=
  -- root: failure = root; its children: failure = root, pushed
  let A1 := A.modify 0 fun x => { x with failure := 0 }
  let A2 := (A1.st 0).children.foldl (fun B ch => B.modify ch fun x => { x with failure := 0 }) A1
  bfs kids linkStep A2.states.size (A2.st 0).children A2

/-! ### `_yr_ac_optimize_failure_links` -/

/-- `_yr_ac_transitions_subset (s1, s2)`: every input accepted in `s2` is accepted in `s1` -/
def transitionsSubset (A : Auto) (s1 s2 : Nat) : Bool :=
  (A.st s2).children.all fun c2 => (A.st s1).children.any fun c1 => (A.st c1).input == (A.st c2).input

def optStep (A : Auto) (cur : Nat) : Auto :=
  let f := (A.st cur).failure
  if f ≠ 0 && transitionsSubset A cur f then A.modify cur fun x => { x with failure := (A.st f).failure } else A

def optimizeFailureLinks (A : Auto) : Auto :=
  bfs kids optStep A.states.size (A.st 0).children A

/-! ### `_yr_ac_build_transition_table` -/

/-- `YR_AC_MAKE_TRANSITION` -/
def mkTransition (state code : Nat) : UInt32 := (UInt32.ofNat state <<< 9) ||| UInt32.ofNat code

structure Pack where
  A : Auto
  t : Array UInt32
  m : Array UInt32
  used : Array Bool                -- automaton->bitmask, one entry per table slot
  cand : Nat                       -- t_table_unused_candidate
  ok : Bool                        -- no assertion failed so far

def Pack.size (P : Pack) : Nat := P.t.size   -- tables_size

def isUsed (used : Array Bool) (i : Nat) : Bool := used.getD i false

/-- the state's 257-bit mask (bit 0 and bit `input+1` of every child) does not collide at offset `p` -/
def fits (used : Array Bool) (inputs : List UInt8) (p : Nat) : Bool :=
  !isUsed used p && inputs.all fun c => !isUsed used (p + c.toNat + 1)

/-- a 64-bit word of the bitmask is `-1L` -/
def wordFull (used : Array Bool) (w : Nat) : Bool := (List.range 64).all fun j => isUsed used (w * 64 + j)

/-- the first `for` of `yr_bitmask_find_non_colliding_offset`: skip the words filled with ones -/
def skipFull (used : Array Bool) (lenA : Nat) : Nat → Nat → Nat
  | 0, i => i
  | fuel + 1, i => if i ≤ lenA / 64 && wordFull used i then skipFull used lenA fuel (i + 1) else i

/-- the search proper: first offset from `p` on (below `lenA`, in steps of one) where the mask fits -/
def firstFit (used : Array Bool) (inputs : List UInt8) (lenA : Nat) : Nat → Nat → Nat
  | 0, _ => lenA
  | fuel + 1, p => if p ≥ lenA then lenA else if fits used inputs p then p else firstFit used inputs lenA fuel (p + 1)

/-- `yr_bitmask_find_non_colliding_offset (bitmask, state_bitmask, tables_size, 257, &cand)`;
    returns (offset, new candidate) -/
def findOffset (used : Array Bool) (inputs : List UInt8) (lenA cand : Nat) : Nat × Nat :=
  let i := skipFull used lenA (lenA / 64 + 2) (cand / 64)
  (firstFit used inputs lenA (lenA + 1) (i * 64), i)

def growBy {α : Type} (a : Array α) (n : Nat) (v : α) : Array α := a ++ Array.replicate n v

/-- `_yr_ac_find_suitable_transition_table_slot` -/
def findSlot (P : Pack) (s : Nat) : Pack × Nat :=
  let inputs := (P.A.st s).children.map fun ch => (P.A.st ch).input
  let r := findOffset P.used inputs P.size P.cand
  let slot := r.1
  let P1 := { P with cand := r.2, ok := P.ok && decide (slot + 257 < 0x800000) }
  if slot > P1.size - 257 then
    ({ P1 with t := growBy P1.t 257 0, m := growBy P1.m 257 0, used := growBy P1.used 257 false }, slot)
  else (P1, slot)

/-- the loop over the children of a state placed at `slot` (also used for the root, slot 0) -/
def placeChild (slot : Nat) (P : Pack) (ch : Nat) : Pack :=
  let pos := slot + (P.A.st ch).input.toNat + 1
  { P with A := P.A.modify ch fun x => { x with slot := pos },
           t := P.t.setIfInBounds pos (mkTransition 0 ((P.A.st ch).input.toNat + 1)),
           used := P.used.setIfInBounds pos true }

def packStep (P : Pack) (s : Nat) : Pack :=
  let r := findSlot P s
  let P1 := r.1
  let slot := r.2
  let own := (P1.A.st s).slot
  let P2 := { P1 with
    t := (P1.t.setIfInBounds own (P1.t.getD own 0 ||| (UInt32.ofNat slot <<< 9))).setIfInBounds slot
           (mkTransition (P1.A.st (P1.A.st s).failure).slot 0),
    m := P1.m.setIfInBounds slot (UInt32.ofNat (P1.A.st s).matchesRef),
    A := P1.A.modify s fun x => { x with slot := slot },
    used := P1.used.setIfInBounds slot true }
  (P2.A.st s).children.foldl (placeChild slot) P2

def initRoot (A : Auto) : Pack :=
  let P0 : Pack := { A := A, t := Array.replicate 512 0, m := (Array.replicate 512 0).setIfInBounds 0 (UInt32.ofNat (A.st 0).matchesRef),
                     used := (Array.replicate 512 false).setIfInBounds 0 true, cand := 1, ok := true }
  (A.st 0).children.foldl (placeChild 0) P0

def buildTransitionTable (A : Auto) : Pack :=
  let P := initRoot A
  bfs (fun (P : Pack) s => kids P.A s) packStep A.states.size (A.st 0).children P

/-- `yr_ac_compile` -/
def compile (A : Auto) : Pack :=
  buildTransitionTable (optimizeFailureLinks (createFailureLinks A))

/-- everything: the atoms in insertion order ↦ the tables the scanner walks (`none`: an assertion fails) -/
def build (atoms : List (Nat × Atom)) : Option Tables :=
  let P := compile (addAtoms atoms)
  if P.ok then some { t := P.t, m := P.m, pool := P.A.pool } else none

/-! ### specification of the reports: what the scan of a correct automaton delivers, IN ORDER

  At every position `k` (0 … |buf|, the last one being the pass after the loop of `_yr_scanner_scan_mem_block`) the scanner
  walks the match list of the current state: the atoms that end at `k`, LONGEST first, among atoms with the same bytes the
  one inserted LAST first; zero-length atoms (root matches) come last, at every position. An entry is handed over only if
  `backtrack ≤ k` (the `match->backtrack <= i` guard). -/

/-- entries (0-based insertion numbers, newest first) of the atoms whose bytes are exactly `p` -/
def ownIdx (atoms : List (Nat × Atom)) (p : Bytes) : List Nat :=
  ((List.range atoms.length).filter fun e => decide ((atoms[e]?).map (fun a => a.2.bytes) = some p)).reverse

/-- one pass over the atoms computing `ownIdx` (what the compiled driver runs; equal to `ownIdx` by `ownIdx_eq_fast`) -/
def ownIdxFast (atoms : List (Nat × Atom)) (p : Bytes) : List Nat :=
  (atoms.foldl (fun (st : Nat × List Nat) a => (st.1 + 1, if a.2.bytes = p then st.1 :: st.2 else st.2)) (0, [])).2

theorem ownIdx_snoc' (atoms : List (Nat × Atom)) (a : Nat × Atom) (p : Bytes) :
    ownIdx (atoms ++ [a]) p = if a.2.bytes = p then atoms.length :: ownIdx atoms p else ownIdx atoms p := by
  unfold ownIdx
  simp only [List.length_append, List.length_singleton, List.range_succ, List.filter_append, List.reverse_append]
  have h1 : (List.filter (fun e => decide ((((atoms ++ [a])[e]?).map fun a => a.2.bytes) = some p)) (List.range atoms.length)) =
      (List.filter (fun e => decide (((atoms[e]?).map fun a => a.2.bytes) = some p)) (List.range atoms.length)) := by
    apply List.filter_congr
    intro e he
    rw [List.mem_range] at he
    rw [List.getElem?_append_left he]
  rw [h1]
  by_cases h : a.2.bytes = p
  · simp [h]
  · simp [h]

@[csimp] theorem ownIdx_eq_fast : @ownIdx = @ownIdxFast := by
  funext atoms p
  have key : ∀ (rest done : List (Nat × Atom)),
      rest.foldl (fun (st : Nat × List Nat) a => (st.1 + 1, if a.2.bytes = p then st.1 :: st.2 else st.2)) (done.length, ownIdx done p) =
        ((done ++ rest).length, ownIdx (done ++ rest) p) := by
    intro rest
    induction rest with
    | nil => intro done; simp
    | cons a r ih =>
      intro done
      have := ih (done ++ [a])
      rw [ownIdx_snoc', List.length_append, List.length_singleton] at this
      simpa [List.append_assoc] using this
  have := key atoms []
  unfold ownIdxFast
  have h0 : ownIdx ([] : List (Nat × Atom)) p = [] := rfl
  rw [List.length_nil, h0] at this
  rw [this]; simp

/-- entries of the atoms that are suffixes of `w`, longest first -/
def specList (atoms : List (Nat × Atom)) : Bytes → List Nat
  | [] => ownIdx atoms []
  | c :: t => ownIdx atoms (c :: t) ++ specList atoms t

/-- the candidate (string idx, offset, backtrack) entry `e` yields at position `n`, if it fits -/
def candOf (atoms : List (Nat × Atom)) (n e : Nat) : Option (Nat × Nat × Nat) :=
  match atoms[e]? with
  | some a => if a.2.bytes.length + a.2.backtrack ≤ n then some (a.1, n - (a.2.bytes.length + a.2.backtrack), a.2.bytes.length + a.2.backtrack) else none
  | none => none

def expectedSeq (atoms : List (Nat × Atom)) (w : Bytes) : List (Nat × Nat × Nat) :=
  (specList atoms w).filterMap (candOf atoms w.length)

/-- the whole candidate sequence of a buffer, in arrival order -/
def expectedScan (atoms : List (Nat × Atom)) (buf : Bytes) : List (Nat × Nat × Nat) :=
  (List.range (buf.length + 1)).flatMap fun k => expectedSeq atoms (buf.take k)

end YaraModel.AC.Build
