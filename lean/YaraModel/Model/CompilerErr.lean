/-
  C07 — the error-reporting protocol of the rule compiler as a state machine over parser events.
  Mirrors: grammar.y `fail_with_error`/`fail_if_error`/`check_type` (yyerror(NULL) then YYERROR, YYABORT on OOM),
  bison's own syntax-error path (`if (!yyerrstatus) yyerror(msg)`; `yyerrstatus = 3`; each shifted token
  decrements it), lexer.l `error()`/`syntax_error()`/`lex_check_space_ok` (yyerror then yyterminate),
  `yyfatal` (yyerror then longjmp out of the parser), the set-up failures of yr_compiler_add_* /
  yr_lex_parse_rules_* (namespace, file-name push, yylex_init, fstat, read: `errors = 1`, NO callback),
  `yyerror` itself (lexer.l: errors++, line := current_line or yylineno, current_line := 0, callback if installed),
  and the loop-context bookkeeping (grammar.y: loop_index++ / loop_vars_cleanup / `_FOR_ for_expression error`).
  Core Lean only.
-/
namespace YaraModel.CompilerErr

inductive Ev where
  | setupFail                                  -- before parsing starts (OOM / I/O): errors := 1, silent
  | setLine (n : Nat)                          -- parser.c: compiler->current_line := n
  | failWithError (oom : Bool) (lineno : Nat)  -- grammar action; `oom` ⇒ YYABORT, else YYERROR
  | syntaxError (lineno : Nat)                 -- detected by bison itself
  | lexError (lineno : Nat)                    -- lexer error()/syntax_error()/out of lex_buf space; then yyterminate
  | fatal (lineno : Nat)                       -- yyfatal (flex internal error): yyerror + longjmp
  | shift                                      -- a token is shifted
  | loopEnter                                  -- `for … in` header reduced: loop_index++
  | loopVars (k : Nat)                         -- k loop identifiers (heap strings) stored in the current loop
  | loopLeave                                  -- loop finished: loop_vars_cleanup(loop_index); loop_index--
  | loopError (lineno : Nat)                   -- production `_FOR_ for_expression error`: clean all, loop_index := -1, YYERROR
  | recovered                                  -- `rules error rule|import|include` reduced
  | eof
  deriving Repr, DecidableEq

/-- one invocation of the user's callback with level ERROR -/
structure Entry where
  line : Nat
  deriving Repr, DecidableEq

structure St where
  errors : Nat := 0            -- compiler->errors, the return value of yr_compiler_add_*
  log : List Entry := []       -- error-level callback invocations, oldest first
  errstatus : Nat := 0         -- bison's yyerrstatus
  curLine : Nat := 0           -- compiler->current_line
  loops : List Nat := []       -- vars_count of loop[0..loop_index]; loop_index = loops.length - 1
  done : Bool := false         -- yyparse has returned / was jumped out of
  deriving Repr, DecidableEq

/-- lexer.l `yyerror` -/
def yyerror (cb : Bool) (lineno : Nat) (s : St) : St :=
  { s with errors := s.errors + 1, curLine := 0,
           log := if cb then s.log ++ [⟨if s.curLine ≠ 0 then s.curLine else lineno⟩] else s.log }

def step (cb : Bool) (s : St) (e : Ev) : St :=
  if s.done then s else
  match e with
  | .setupFail => { s with errors := 1, done := true }
  | .setLine n => { s with curLine := n }
  | .failWithError oom ln =>
      let s' := yyerror cb ln s
      if oom then { s' with done := true } else { s' with errstatus := 3 }
  | .syntaxError ln =>
      let s' := if s.errstatus = 0 then yyerror cb ln s else s
      { s' with errstatus := 3 }
  | .lexError ln => yyerror cb ln s
  | .fatal ln => { yyerror cb ln s with done := true }
  | .shift => { s with errstatus := s.errstatus - 1 }
  | .loopEnter => { s with loops := s.loops ++ [0] }
  | .loopVars k => { s with loops := s.loops.dropLast ++ (if s.loops.isEmpty then [] else [k]) }
  | .loopLeave => { s with loops := s.loops.dropLast }
  | .loopError _ => { s with loops := [], errstatus := 3 }
  | .recovered => s
  | .eof => { s with done := true }

def run (cb : Bool) (evs : List Ev) : St := evs.foldl (step cb) {}

/-- heap identifiers currently owned by the loop contexts -/
def ownedLoopIds (s : St) : Nat := s.loops.foldl (· + ·) 0

def isSetupFail : Ev → Bool
  | .setupFail => true
  | _ => false

def linesOk : Ev → Bool
  | .setLine n => decide (1 ≤ n)
  | .failWithError _ ln => decide (1 ≤ ln)
  | .syntaxError ln => decide (1 ≤ ln)
  | .lexError ln => decide (1 ≤ ln)
  | .fatal ln => decide (1 ≤ ln)
  | .loopError ln => decide (1 ≤ ln)
  | _ => true

end YaraModel.CompilerErr
