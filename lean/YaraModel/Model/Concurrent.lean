/-
  C09 — concurrent scans sharing one rule set.
  Global state = immutable rules × process-wide signal-handler bookkeeping (exception.h: `exception_handler_usecount`,
  `old_sig*_exception_handler`, the installed handler; all three only touched under `exception_handler_mutex`, so
  `enter`/`leave` are atomic steps) × per-thread scanner state.
  A thread's script is a list of actions: `work f` (a scan micro-step: reads the rules and the thread's own scanner
  state only — the frame hypothesis the harness checks with read-only mappings), `enter` (first half of YR_TRYCATCH),
  `leave` (second half). A schedule is the list of thread ids in the order in which they take their next action.
  Core Lean only.
-/
namespace YaraModel.Concurrent

inductive Handler where
  | user (id : Nat)     -- whatever the application had installed (SIG_DFL, ASan's handler, its own…)
  | yara                -- exception.h `exception_handler`
  deriving DecidableEq, Repr

inductive Act (ρ σ : Type) where
  | work (f : ρ → σ → σ)
  | enter
  | leave

structure G (ρ σ : Type) where
  rules : ρ
  count : Nat                 -- exception_handler_usecount
  cur : Handler               -- handler currently installed for SIGBUS/SIGSEGV
  saved : Handler             -- old_sig*_exception_handler
  inside : List Nat           -- ids of the threads currently between enter and leave (with multiplicity)
  st : Nat → σ                -- scanner state of each thread
  pc : Nat → Nat              -- index of each thread's next action

def upd {α : Type} (f : Nat → α) (t : Nat) (v : α) : Nat → α := fun u => if u = t then v else f u

/-- thread `t` takes its next action (nothing happens when its script is finished) -/
def step {ρ σ : Type} (prog : Nat → List (Act ρ σ)) (g : G ρ σ) (t : Nat) : G ρ σ :=
  match (prog t)[g.pc t]? with
  | none => g
  | some (.work f) => { g with st := upd g.st t (f g.rules (g.st t)), pc := upd g.pc t (g.pc t + 1) }
  | some .enter =>
      { g with count := g.count + 1,
               saved := if g.count = 0 then g.cur else g.saved,
               cur := if g.count = 0 then .yara else g.cur,
               inside := t :: g.inside,
               pc := upd g.pc t (g.pc t + 1) }
  | some .leave =>
      if t ∈ g.inside then
        { g with count := g.count - 1,
                 cur := if g.count - 1 = 0 then g.saved else g.cur,
                 inside := g.inside.erase t,
                 pc := upd g.pc t (g.pc t + 1) }
      else { g with pc := upd g.pc t (g.pc t + 1) }   -- cannot happen for YR_TRYCATCH (leave follows enter in the same thread)

def run {ρ σ : Type} (prog : Nat → List (Act ρ σ)) (g : G ρ σ) (sched : List Nat) : G ρ σ :=
  sched.foldl (step prog) g

/-- what thread-local state the first `k` actions of a script produce when run alone on `rules` -/
def seqRun {ρ σ : Type} (rules : ρ) : List (Act ρ σ) → Nat → σ → σ
  | [], _, s => s
  | _, 0, s => s
  | .work f :: rest, k + 1, s => seqRun rules rest k (f rules s)
  | _ :: rest, k + 1, s => seqRun rules rest k s

def init {ρ σ : Type} (rules : ρ) (h : Handler) (st0 : Nat → σ) : G ρ σ :=
  { rules := rules, count := 0, cur := h, saved := h, inside := [], st := st0, pc := fun _ => 0 }

end YaraModel.Concurrent

/-! ### Library lifetime (libyara.c `yr_initialize` / `yr_finalize`)
  Process-wide state: `init_count` and the resources created by the first initialisation (two thread-local-storage keys
  used by the try/catch and lexer trampolines, the module table, the heap). Every user (component, binding, thread —
  the documentation asks that the calls be made by the main thread, so they are atomic steps here) takes a reference with
  `init` and drops it with `fin`. An event list is one interleaving of all users' calls. -/
namespace YaraModel.Concurrent

inductive LibEv where
  | init (user : Nat)
  | fin (user : Nat)
  deriving DecidableEq, Repr

structure Lib where
  count : Nat := 0          -- init_count
  alive : Bool := false     -- TLS keys / modules / heap exist
  users : List Nat := []    -- who currently holds a reference (with multiplicity)
  finErrors : Nat := 0      -- yr_finalize calls that returned ERROR_INTERNAL_FATAL_ERROR
  deriving DecidableEq, Repr

/-- `yr_initialize`: count++, the first reference creates the resources;
    `yr_finalize`: error when count = 0, else count--, the last reference destroys the resources.
    (`fin u` by somebody who holds no reference is the API misuse the C code answers with an error when count = 0;
    it is modelled as a no-op + error so that the step function is total.) -/
def lstep (s : Lib) : LibEv → Lib
  | .init u => { s with count := s.count + 1, alive := true, users := u :: s.users }
  | .fin u =>
      if u ∈ s.users then
        { s with count := s.count - 1, alive := if s.count - 1 = 0 then false else s.alive, users := s.users.erase u }
      else { s with finErrors := s.finErrors + 1 }

def lrun (evs : List LibEv) : Lib := evs.foldl lstep {}

end YaraModel.Concurrent
