/-
  Aho-Corasick stage — executable model (core Lean only) of
    scanner.c  `_yr_scanner_scan_mem_block`   (transition lookup, failure loop, match-list walk)
  over the REAL tables of a compiled rule set (ac_transition_table, ac_match_table, ac_match_pool),
  and a decidable certificate `certOK` which, by Thm/AcCert, implies that for EVERY buffer the
  candidates produced are exactly the occurrences of the indexed atoms.
-/
import YaraModel.Model.TextScan
import Std.Data.HashSet
namespace YaraModel.AC
open YaraModel.Text

structure Tables where
  t : Array UInt32                    -- ac_transition_table
  m : Array UInt32                    -- ac_match_table (1-based index into pool, 0 = no matches)
  pool : Array (Nat × Nat × Nat)      -- ac_match_pool: (string idx, backtrack, next as 1-based index or 0)

def tAt (T : Tables) (i : Nat) : UInt32 := T.t.getD i 0

/-- `YR_AC_INVALID_TRANSITION(t, c)` -/
def invalid (tr : UInt32) (index : Nat) : Bool := (tr &&& 0x1FF).toNat != index

/-- `YR_AC_NEXT_STATE(t)` -/
def nextOf (tr : UInt32) : Nat := (tr >>> 9).toNat

/-- the `while (YR_AC_INVALID_TRANSITION(...))` loop; `index = byte + 1`. `fuel` bounds the failure chain. -/
def delta (T : Tables) : Nat → Nat → Nat → Nat
  | 0, _, _ => 0
  | fuel + 1, state, index =>
    let tr := tAt T (state + index)
    if !invalid tr index then nextOf tr
    else if state != 0 then delta T fuel (nextOf (tAt T state)) index
    else 0

/-- the match list hanging off a state: (string idx, backtrack) following `next` -/
def entries (T : Tables) : Nat → Nat → List (Nat × Nat)
  | 0, _ => []
  | fuel + 1, idx1 =>
    if idx1 = 0 then [] else
    match T.pool[idx1 - 1]? with
    | some (s, bt, nx) => (s, bt) :: entries T fuel nx
    | none => []

def fuelOf (T : Tables) : Nat := T.t.size + T.pool.size + 2

/-- candidates reported when the automaton is in `state` at input position `i` -/
def report (T : Tables) (state i : Nat) : List (Nat × Nat × Nat) :=
  (entries T (fuelOf T) (T.m.getD state 0).toNat).filterMap fun (s, bt) =>
    if bt ≤ i then some (s, i - bt, bt) else none

/-- the scan loop from position `i` in `state` over the remaining bytes -/
def scanFrom (T : Tables) : Bytes → Nat → Nat → List (Nat × Nat × Nat)
  | [], i, state => report T state i
  | c :: rest, i, state => report T state i ++ scanFrom T rest (i + 1) (delta T (fuelOf T) state (c.toNat + 1))

/-- all candidates (string idx, offset, backtrack) in arrival order -/
def scan (T : Tables) (buf : Bytes) : List (Nat × Nat × Nat) := scanFrom T buf 0 0

/-! ### the certificate -/

/-- longest suffix of `w` that belongs to `P` (tries `w`, `w.tail`, …; `[]` if none) -/
def lsuf (P : List Bytes) : Bytes → Bytes
  | [] => []
  | c :: t => if P.contains (c :: t) then c :: t else lsuf P t

/-- what a correct automaton must report: for every prefix length `i` and every indexed atom ending there -/
def expectedAt (atoms : List (Nat × Atom)) (w : Bytes) : List (Nat × Nat × Nat) :=
  atoms.filterMap fun (s, a) =>
    if a.bytes.isSuffixOf w && decide (a.bytes.length + a.backtrack ≤ w.length)
    then some (s, w.length - (a.bytes.length + a.backtrack), a.bytes.length + a.backtrack) else none

def subsetB {α : Type} [BEq α] (a b : List α) : Bool := a.all fun x => b.contains x

/-- `lsuf` with hash-set membership (what the compiled driver runs); equal to `lsuf` by `lsufH_eq` -/
def lsufH (S : Std.HashSet Bytes) : Bytes → Bytes
  | [] => []
  | c :: t => if S.contains (c :: t) then c :: t else lsufH S t

/-- decidable certificate over the real tables, the atom log (string idx, atom) and a proposed
    slot ↦ path map (computed by a BFS in the driver; it is only ever *checked* here).
    Membership tests go through hash sets built from the lists (proved equivalent to list membership). -/
def certOK (T : Tables) (atoms : List (Nat × Atom)) (paths : List (Nat × Bytes)) : Bool :=
  let P := paths.map (·.2)
  let SP := Std.HashSet.ofList P
  let SPaths := Std.HashSet.ofList paths
  SPaths.contains (0, []) &&
  paths.all (fun sp => sp.2.isEmpty || SP.contains sp.2.dropLast) &&
  paths.all (fun sp => (List.range 256).all fun c =>
    SPaths.contains (delta T (fuelOf T) sp.1 (c + 1), lsufH SP (sp.2 ++ [UInt8.ofNat c]))) &&
  paths.all (fun sp =>
    let got := entries T (fuelOf T) (T.m.getD sp.1 0).toNat
    let want := (atoms.filter fun sa => sa.2.bytes.isSuffixOf sp.2).map fun sa => (sa.1, sa.2.bytes.length + sa.2.backtrack)
    subsetB got want && subsetB want got) &&
  atoms.all (fun sa => SP.contains sa.2.bytes)

/-- breadth-first reconstruction of the slot ↦ path map from the transition table (untrusted helper) -/
def bfsPaths (T : Tables) : List (Nat × Bytes) :=
  let rec go (fuel : Nat) (frontier acc : List (Nat × Bytes)) : List (Nat × Bytes) :=
    match fuel with
    | 0 => acc
    | fuel + 1 =>
      if frontier.isEmpty then acc else
      let next := frontier.flatMap fun (s, p) =>
        (List.range 256).filterMap fun c =>
          let tr := tAt T (s + c + 1)
          if !invalid tr (c + 1) && nextOf tr != 0 then some (nextOf tr, p ++ [UInt8.ofNat c]) else none
      go fuel next (acc ++ next)
  go (T.t.size + 1) [(0, [])] [(0, [])]

end YaraModel.AC
