/-
  Executable evaluator of the regular-expression specification over SETS of start positions
  (what the compiled driver runs).  `Lemmas/ReEval.lean` proves, for position sets inside the buffer,

      q ∈ endsSet fl buf r S ↔ ∃ p ∈ S, q ∈ r.ends fl buf p

  so the driver's answers are the specification's.  Differences to `Re.ends`: a whole set is pushed
  through a concatenation at once (no re-evaluation per element), and a jump `rangeAny` in byte mode
  with dot-all is computed by interval arithmetic instead of stepping.
-/
import YaraModel.Spec.Re
namespace YaraModel.Re

/-- set-level version of `iterN` for a set function `F` -/
def iterNS (F : List Nat → List Nat) : Nat → List Nat → List Nat
  | 0, s => s
  | n+1, s => iterNS F n (F s).eraseDups

/-- set-level version of `upTo` -/
def upToS (F : List Nat → List Nat) : Nat → List Nat → List Nat → List Nat
  | 0, _, acc => acc
  | n+1, fr, acc =>
    let new := ((F fr).filter (fun x => !acc.contains x)).eraseDups
    if new.isEmpty then acc else upToS F n new (acc ++ new)

def stepSet (fl : Flags) (buf : Bytes) (t : UInt8 → Bool) (s : List Nat) : List Nat :=
  s.flatMap (step fl buf t)

/-- `{ q ≤ |buf| | ∃ p ∈ s, p + lo ≤ q ≤ p + hi }` -/
def jumpSet (buf : Bytes) (lo hi : Nat) (s : List Nat) : List Nat :=
  (List.range (buf.size + 1)).filter (fun q => s.any (fun p => p + lo ≤ q && q ≤ p + hi))

def Re.endsSet (fl : Flags) (buf : Bytes) : Re → List Nat → List Nat
  | .lit b, s => stepSet fl buf (testLit fl b) s
  | .masked v m, s => stepSet fl buf (testMasked v m) s
  | .notLit b, s => stepSet fl buf (fun c => c != b) s
  | .maskedNot v m, s => stepSet fl buf (fun c => !testMasked v m c) s
  | .any, s => stepSet fl buf (testAny fl) s
  | .cls bm neg, s => stepSet fl buf (testCls fl bm neg) s
  | .wordCh, s => stepSet fl buf isWordByte s
  | .nonWordCh, s => stepSet fl buf (fun c => !isWordByte c) s
  | .space, s => stepSet fl buf isSpaceByte s
  | .nonSpace, s => stepSet fl buf (fun c => !isSpaceByte c) s
  | .digit, s => stepSet fl buf isDigitByte s
  | .nonDigit, s => stepSet fl buf (fun c => !isDigitByte c) s
  | .empty, s => s
  | .cat a b, s => b.endsSet fl buf (a.endsSet fl buf s)
  | .alt a b, s => (a.endsSet fl buf s ++ b.endsSet fl buf s).eraseDups
  | .star a _, s => upToS (fun x => a.endsSet fl buf x) (buf.size + 1) s s
  | .plus a _, s =>
      let s1 := (a.endsSet fl buf s).eraseDups
      upToS (fun x => a.endsSet fl buf x) (buf.size + 1) s1 s1
  | .range a lo hi _, s =>
      if lo ≤ hi then
        let s1 := iterNS (fun x => a.endsSet fl buf x) lo s
        upToS (fun x => a.endsSet fl buf x) (hi - lo) s1 s1
      else []
  | .rangeAny lo hi _, s =>
      if lo ≤ hi then
        if fl.dotall && !fl.wide then jumpSet buf lo hi s
        else
          let s1 := iterNS (stepSet fl buf (testAny fl)) lo s
          upToS (stepSet fl buf (testAny fl)) (hi - lo) s1 s1
      else []
  | .bol, s => s.filter (· == 0)
  | .eol, s => s.filter (· == buf.size)
  | .wordB, s => s.filter (isBoundary fl buf)
  | .nonWordB, s => s.filter (fun p => !isBoundary fl buf p)

end YaraModel.Re
