/-
  D10 — executable model of `yr_scanner_scan_mem_blocks` (libyara/scanner.c) as a state machine.
  Shared by C10 (history independence) and C13 (entry points / interrupted block iteration).

  What is modelled (line numbers: libyara/scanner.c of yara 4.5.2):
  * the fields of `YR_SCAN_CONTEXT` that outlive a call (`Core` + `Sc.fileSize` + settings);
    `last_error_string` (never read by the scan code), the fiber/position pools (allocation caches),
    `canary`, `profiling_info` and the external-variable objects (C20) are left out;
  * fresh scan vs. continuation (`iterator->last_error == ERROR_BLOCK_NOT_READY`, :486);
  * the per-block loop (:520-552) incl. `fetch_data` failing, the entry-point rule, the timeout test
    at the start of a non-empty block, match insertion with the `YR_MAX_STRING_MATCHES` protocol
    (scan.c `_yr_scan_add_match_to_list`, `yr_scan_verify_match`);
  * `result = iterator->last_error` (:558), `file_size` (:565-568);
  * rule evaluation (exec.c `yr_execute_code`): module imports (modules.c `yr_modules_load`: callbacks,
    block walk of the module's `load`), `OP_INIT_RULE` skip rule, `OP_MATCH_RULE`, the timeout check,
    unconditional `yr_modules_unload_all`; conditions may walk the blocks through the SAME iterator
    (`uintN(off)`, `hash.*(off,len)`, module load), and a walk cut short by a not-ready block simply
    sees fewer blocks (that is what the code does);
  * the reporting loop (:577-607) and the `_exit` cleanup rule (:612-626).

  Parameters (abstract functions, `Params`): which strings match in a block (`cands`), the entry point
  of a block (`ep`), the condition of every rule as a `Prog` (what it asks of the iterator and how the
  verdict follows), module parsing. The state machine is therefore independent of the matching engines.

  `Variant`: the two places where the unchanged 4.5.2 code differs from the code with the proposed fixes
  (notes/C10-entry-point-reset.diff, notes/C10-abandoned-scan.diff).  `Variant.current` is the code as
  found, `Variant.fixed` the code with both patches; the property theorems are about `fixed`, the
  refutation witnesses about `current`.
-/
namespace YaraModel.Scan

inductive Err
  | success | blockNotReady | scanTimeout | tooManyMatches | callbackError | callbackRequired
  | exec (code : Nat)     -- any other error raised by rule evaluation (e.g. ERROR_EXEC_STACK_OVERFLOW)
  | iter (code : Nat)     -- any other error left in `iterator->last_error`
  | couldNotAttach        -- yr_process_open_iterator failed (scan_proc)
  | verify (code : Nat)   -- error raised while verifying a candidate in the block loop (e.g. ERROR_TOO_MANY_RE_FIBERS)
deriving DecidableEq, Repr

structure Match where
  base : Nat
  off : Nat
  len : Nat
deriving DecidableEq, Repr

/-- `data = none`: `fetch_data` returns NULL for this block. Otherwise the key of the block's bytes
    in the abstract oracles. -/
structure Block where
  base : Nat
  size : Nat
  data : Option Nat
deriving DecidableEq, Repr

/-- a verified string occurrence found by the automaton + verifier in one block -/
structure Cand where
  str : Nat
  off : Nat
  len : Nat
deriving DecidableEq, Repr

/-- an unconfirmed match of a piece of a CHAINED string (scan.c `_yr_scan_verify_chained_string_match`); the chain logic
    compares `off` (offset INSIDE the block) only, the list order / duplicate test uses `base + off` -/
structure UMatch where
  base : Nat
  off : Nat
  len : Nat
  clen : Nat       -- chain_length
deriving DecidableEq, Repr

/-- a string that is a piece of a chain: `prev` = `chained_to` (none for the head), gap to the previous piece, tail flag -/
structure ChainInfo where
  prev : Option Nat
  gapMin : Nat
  gapMax : Nat
  isTail : Bool
deriving DecidableEq, Repr

abbrev UTable := List (Nat × List UMatch)

inductive CbRet | cont | abort | error
deriving DecidableEq, Repr

abbrev MatchTable := List (Nat × List Match)

inductive Msg
  | ruleMatching (r : Nat) (ms : MatchTable)
  | ruleNotMatching (r : Nat) (ms : MatchTable)
  | scanFinished
  | importModule (m : Nat)
  | moduleImported (m : Nat)
  | tooManyMatches (s : Nat)
deriving DecidableEq, Repr

structure Settings where
  reportMatching : Bool
  reportNotMatching : Bool
  timeout : Nat            -- 0 = none
  hasCallback : Bool
  fastMode : Bool := false        -- SCAN_FLAGS_FAST_MODE
  processMemory : Bool := false   -- SCAN_FLAGS_PROCESS_MEMORY (SCAN_FLAGS_NO_TRYCATCH has no effect on the model)
deriving DecidableEq, Repr

structure Rule where
  ns : Nat
  isGlobal : Bool
  isPrivate : Bool
  noReq : Bool             -- bit of `rules->no_required_strings`
  strings : List Nat
deriving DecidableEq, Repr

/-- what a condition can see -/
structure View where
  found : MatchTable
  fileSize : Option Nat
  entryPoint : Option Nat
  ruleFlags : List Nat
  modules : List (Nat × Option Block)
  stack : Nat              -- YR_CONFIG_STACK_SIZE in force
  processMemory : Bool     -- scan flags seen by the modules

/-- A rule condition as the sequence of things it asks of its environment.
    `walk stop k`: `iterator->first()`, then `next()` until a block satisfies `stop` or the iterator
    returns NULL (end, error or not-ready); continues with the blocks seen.
    `check k`: a point where `yr_execute_code`'s periodic timeout test is executed. -/
inductive Prog where
  | ret (v : Bool)
  | fail (code : Nat)
  | walk (stop : Block → Bool) (k : List Block → Prog)
  | check (k : Prog)

structure Params where
  rules : List Rule
  imports : List Nat
  strRule : Nat → Nat                      -- index of the rule owning a string
  maxMatches : Nat                         -- YR_MAX_STRING_MATCHES
  cands : Nat → List Cand                  -- by data key, in discovery order
  ep : Bool → Nat → Nat → Nat → Option Nat -- process-memory flag, data, size, base: yr_get_entry_point_offset(data, size),
                                           -- with the flag yr_get_entry_point_address(data, size, base)
  singleMatch : Nat → Bool                 -- STRING_FLAGS_SINGLE_MATCH (only used as `$a`): fast mode keeps one match
  chain : Nat → Option ChainInfo           -- pieces of chained strings (hex / regexp split at [-] or a jump >= 200)
  pruneSlack : Nat                         -- YR_RE_SCAN_LIMIT + YR_MAX_ATOM_LENGTH
  scanErr : Nat → Option Nat               -- by data key: verification in this block fails with that error code
  cond : Nat → View → Prog
  modParse : Bool → Nat → Option (Block → Bool)   -- by process-memory flag and module; none: load does not touch the blocks

structure Variant where
  resetEntryPoint : Bool   -- fresh scan sets entry_point = YR_UNDEFINED
  cleanStale : Bool        -- fresh scan cleans a still pending (abandoned) suspended scan
  resumeNeedsPending : Bool := true   -- a call is a continuation only if a suspended scan is pending (matches_notebook != NULL)
deriving DecidableEq, Repr

def Variant.current : Variant := ⟨false, false, false⟩
def Variant.fixed : Variant := ⟨true, true, true⟩

/-! ### State -/

structure Core where
  entryPoint : Option Nat
  notebook : Bool                    -- matches_notebook != NULL
  found : MatchTable
  unconfirmed : UTable               -- unconfirmed_matches: pending pieces of chained strings
  ruleFlags : List Nat               -- rule_matches_flags
  reqEval : List Nat                 -- required_eval
  nsUnsat : List Nat                 -- ns_unsatisfied_flags
  strDisabled : List Nat             -- strings_temp_disabled
  modules : List (Nat × Option Block) -- module objects in objects_table
  swStart : Nat                      -- stopwatch start
deriving DecidableEq, Repr

structure Sc where
  set : Settings
  core : Core
  fileSize : Option Nat
deriving DecidableEq, Repr

def Core.fresh : Core :=
  { entryPoint := none, notebook := false, found := [], unconfirmed := [], ruleFlags := [],
    reqEval := [], nsUnsat := [], strDisabled := [], modules := [], swStart := 0 }

/-- `yr_scanner_create` followed by the `yr_scanner_set_*` calls giving `set`. -/
def Sc.fresh (set : Settings) : Sc := { set := set, core := Core.fresh, fileSize := none }

/-- the user's side: a clock, the number of callback messages delivered so far in this logical scan -/
structure World where
  clock : Nat
  nmsg : Nat
deriving DecidableEq, Repr

/-- what the user's iterator does at one `first`/`next` call -/
inductive Act | ok | notReady | stall (n : Nat) | fail (code : Nat)
deriving DecidableEq, Repr

structure It where
  all : List Block
  rest : List Block          -- blocks not yet returned
  sched : List Act           -- one entry consumed per call; exhausted = ok
  lastError : Err
  fileSize : Option Nat      -- none: `file_size` function pointer is NULL
deriving DecidableEq, Repr

/-! ### small helpers -/

def setIns (x : Nat) (l : List Nat) : List Nat := if x ∈ l then l else x :: l

def tget (t : MatchTable) (s : Nat) : List Match :=
  match t.find? (fun p => p.1 == s) with
  | some p => p.2
  | none => []

def tset (t : MatchTable) (s : Nat) (l : List Match) : MatchTable :=
  if t.any (fun p => p.1 == s) then t.map (fun p => if p.1 == s then (s, l) else p) else t ++ [(s, l)]

/-- `_yr_scan_add_match_to_list` below the count test: sorted by base+off, an existing entry at the
    same position is kept. -/
def insMatch (m : Match) : List Match → List Match
  | [] => [m]
  | x :: xs =>
    if x.base + x.off = m.base + m.off then x :: xs
    else if m.base + m.off < x.base + x.off then m :: x :: xs
    else x :: insMatch m xs

def headAct : List Act → Act × List Act
  | [] => (.ok, [])
  | a :: t => (a, t)

/-- outcome of one `first`/`next` call as far as the schedule decides it -/
inductive Step
  | notReady (sc : List Act)
  | fail (code : Nat) (sc : List Act)
  | go (a : Act) (sc : List Act)      -- `a` is `ok` or a stall: the call returns the next block, or NULL at the end

def stepOf (sched : List Act) : Step :=
  match headAct sched with
  | (.notReady, sc) => .notReady sc
  | (.fail e, sc) => .fail e sc
  | (a, sc) => .go a sc

def tick (w : World) : Act → World
  | .stall n => { w with clock := w.clock + n }
  | _ => w

def timedOut (set : Settings) (c : Core) (w : World) : Bool :=
  decide (set.timeout > 0) && decide (w.clock - c.swStart > set.timeout)

/-- one callback invocation: the reaction is scripted by message number -/
def call (cb : Nat → CbRet) (w : World) : CbRet × World := (cb w.nmsg, { w with nmsg := w.nmsg + 1 })

/-- `_yr_scanner_clean_matches` -/
def Core.cleanMatches (c : Core) : Core :=
  { c with ruleFlags := [], reqEval := [], nsUnsat := [], strDisabled := [], found := [], unconfirmed := [] }

/-! ### iterator -/

/-- `iterator->next(iterator)` -/
def It.next (it : It) (w : World) : Option Block × It × World :=
  match stepOf it.sched with
  | .notReady sc => (none, { it with sched := sc, lastError := .blockNotReady }, w)
  | .fail e sc => (none, { it with sched := sc, lastError := .iter e }, w)
  | .go a sc =>
    match it.rest with
    | [] => (none, { it with sched := sc, lastError := .success }, tick w a)
    | b :: r => (some b, { it with rest := r, sched := sc, lastError := .success }, tick w a)

/-- `iterator->first(iterator)` -/
def It.first (it : It) (w : World) : Option Block × It × World := It.next { it with rest := it.all } w

/-! ### chained strings (scan.c :395-660; same bookkeeping as Model/ReChain.lean, here with block bases) -/

def uget (t : UTable) (s : Nat) : List UMatch :=
  match t.find? (fun p => p.1 == s) with
  | some p => p.2
  | none => []

def uset (t : UTable) (s : Nat) (l : List UMatch) : UTable :=
  if t.any (fun p => p.1 == s) then t.map (fun p => if p.1 == s then (s, l) else p) else t ++ [(s, l)]

/-- `_yr_scan_add_match_to_list` (sorted by base+off, one entry per position) -/
def insU (m : UMatch) : List UMatch → List UMatch
  | [] => [m]
  | x :: xs =>
    if x.base + x.off = m.base + m.off then x :: xs
    else if m.base + m.off < x.base + x.off then m :: x :: xs
    else x :: insU m xs

/-- `ending_offset + gap_max >= match_offset && ending_offset + gap_min <= match_offset` — block-relative offsets -/
def gapOk (ci : ChainInfo) (m : UMatch) (o : Nat) : Bool :=
  decide (m.off + m.len + ci.gapMax ≥ o) && decide (m.off + m.len + ci.gapMin ≤ o)

/-- the walk over the previous piece's list: drop entries out of reach, stop at the first one at a legal distance -/
def pruneScan (ci : ChainInfo) (slack lowest o : Nat) : List UMatch → List UMatch × Bool
  | [] => ([], false)
  | m :: t =>
    if m.off + m.len + ci.gapMax + slack < lowest then pruneScan ci slack lowest o t
    else if gapOk ci m o then (m :: t, true)
    else
      let (t', f) := pruneScan ci slack lowest o t
      (m :: t', f)

/-- `_yr_scan_update_match_chain_length`, level by level: the matches of `q = prev(child)` at a legal distance from one of
    the child offsets `offs` whose chain_length is not yet `n` get it, and pass it on (`n + 1`) to the piece before -/
def propagate (P : Params) : Nat → UTable → Nat → List Nat → Nat → UTable
  | 0, u, _, _, _ => u
  | fuel + 1, u, child, offs, n =>
    match P.chain child with
    | none => u
    | some ci =>
      match ci.prev with
      | none => u
      | some q =>
        let hit (m : UMatch) : Bool := offs.any (fun o => gapOk ci m o) && decide (m.clen ≠ n)
        let lq := uget u q
        let newOffs := (lq.filter hit).map (·.off)
        if newOffs.isEmpty then u
        else propagate P fuel (uset u q (lq.map fun m => if hit m then { m with clen := n } else m)) q newOffs (n + 1)

/-- head of the chain a piece belongs to and the number of links up to it -/
def chainHead (P : Params) : Nat → Nat → Nat × Nat
  | 0, s => (s, 0)
  | fuel + 1, s =>
    match (P.chain s).bind (·.prev) with
    | none => (s, 0)
    | some q => let (h, n) := chainHead P fuel q; (h, n + 1)

def maxChain : Nat := 8

/-- `_yr_scan_verify_chained_string_match` for a verified occurrence `k` of the piece `k.str` in block `b`
    (limits on the list lengths are not modelled: generated inputs stay below them) -/
def chainStep (P : Params) (b : Block) (k : Cand) (ci : ChainInfo) (c : Core) : Core :=
  match ci.prev with
  | none =>
    { c with unconfirmed := uset c.unconfirmed k.str (insU ⟨b.base, k.off, k.len, 0⟩ (uget c.unconfirmed k.str)) }
  | some q =>
    let lowest := match uget c.unconfirmed k.str with | [] => k.off | m :: _ => m.off
    let (lq, found) := pruneScan ci P.pruneSlack lowest k.off (uget c.unconfirmed q)
    let u1 := uset c.unconfirmed q lq
    if !found then { c with unconfirmed := u1 }
    else if ci.isTail then
      let u2 := propagate P maxChain u1 k.str [k.off] 1
      let (h, full) := chainHead P maxChain k.str
      let heads := uget u2 h
      let done := heads.filter (fun m => m.clen == full)
      let u3 := uset u2 h (heads.filter (fun m => m.clen != full))
      let found' := done.foldl (fun t m => tset t h (insMatch ⟨m.base, m.off, k.off - m.off + k.len⟩ (tget t h))) c.found
      { c with unconfirmed := u3, found := found',
               reqEval := if done.isEmpty then c.reqEval else setIns (P.strRule h) c.reqEval }
    else
      { c with unconfirmed := uset u1 k.str (insU ⟨b.base, k.off, k.len, 0⟩ (uget u1 k.str)) }

/-! ### block phase -/

/-- all candidates of one block through `yr_scan_verify_match` / `_yr_scan_match_callback` -/
def addCands (P : Params) (cb : Nat → CbRet) (fast : Bool) (b : Block) : List Cand → Core → World → Core × World × List Msg × Err
  | [], c, w => (c, w, [], .success)
  | k :: ks, c, w =>
    if k.str ∈ c.strDisabled then addCands P cb fast b ks c w
    else if fast && P.singleMatch k.str && !(tget c.found k.str).isEmpty then addCands P cb fast b ks c w
    else
    match P.chain k.str with
    | some ci => addCands P cb fast b ks (chainStep P b k ci c) w
    | none =>
      let c := { c with reqEval := setIns (P.strRule k.str) c.reqEval }
      if (tget c.found k.str).length = P.maxMatches then
        let (r, w) := call cb w
        match r with
        | .cont =>
          let (c', w', ms, e) := addCands P cb fast b ks { c with strDisabled := setIns k.str c.strDisabled } w
          (c', w', .tooManyMatches k.str :: ms, e)
        | _ => (c, w, [.tooManyMatches k.str], .tooManyMatches)
      else
        addCands P cb fast b ks { c with found := tset c.found k.str (insMatch ⟨b.base, k.off, k.len⟩ (tget c.found k.str)) } w

/-- loop body for one block returned by the iterator (:522-549) -/
def scanBlock (P : Params) (cb : Nat → CbRet) (set : Settings) (b : Block) (c : Core) (w : World) :
    Core × World × List Msg × Err :=
  match b.data with
  | none => (c, w, [], .success)
  | some d =>
    let c := if c.entryPoint.isNone then { c with entryPoint := P.ep set.processMemory d b.size b.base } else c
    -- `_yr_scanner_scan_mem_block` starts by clearing unconfirmed_matches (/repo 173a2ea): pieces of a chained string found in a
    -- previous block are never combined with pieces of this one
    let c := { c with unconfirmed := [] }
    if decide (b.size > 0) && timedOut set c w then (c, w, [], .scanTimeout)
    else
      match P.scanErr d with
      | some code => (c, w, [], .verify code)      -- `_yr_scanner_scan_mem_block` returns the verifier's error (:522-546)
      | none => addCands P cb set.fastMode b (P.cands d) c w

structure LoopOut where
  core : Core
  rest : List Block
  sched : List Act
  lastError : Err
  result : Err
  world : World
  msgs : List Msg
deriving DecidableEq, Repr

/-- "call `next`, then scan what it returned, repeat" — the while loop of :520-552 with the iterator's
    behaviour inlined (structural recursion on the blocks still to come). The result after a normal
    end of the loop is `iterator->last_error` (:558). -/
def blockLoop (P : Params) (cb : Nat → CbRet) (set : Settings) :
    List Block → List Act → Core → World → LoopOut
  | rest, sched, c, w =>
    match rest, stepOf sched with
    | rest, .notReady sc => ⟨c, rest, sc, .blockNotReady, .blockNotReady, w, []⟩
    | rest, .fail e sc => ⟨c, rest, sc, .iter e, .iter e, w, []⟩
    | [], .go a sc => ⟨c, [], sc, .success, .success, tick w a, []⟩
    | b :: r, .go a sc =>
      match scanBlock P cb set b c (tick w a) with
      | (c', w', ms, .success) =>
        let o := blockLoop P cb set r sc c' w'
        { o with msgs := ms ++ o.msgs }
      | (c', w', ms, e) => ⟨c', r, sc, .success, e, w', ms⟩

/-! ### rule evaluation -/

structure WalkOut where
  seen : List Block
  rest : List Block
  sched : List Act
  lastError : Err
  world : World

/-- `for (b = first(); b != NULL; b = next()) { if stop b then break }` after `first` has reset the
    position; `rest` = blocks still to come. -/
def walkBlocks (stop : Block → Bool) : List Block → List Act → World → WalkOut
  | rest, sched, w =>
    match rest, stepOf sched with
    | rest, .notReady sc => ⟨[], rest, sc, .blockNotReady, w⟩
    | rest, .fail e sc => ⟨[], rest, sc, .iter e, w⟩
    | [], .go a sc => ⟨[], [], sc, .success, tick w a⟩
    | b :: r, .go a sc =>
      if stop b then ⟨[b], r, sc, .success, tick w a⟩
      else
        let o := walkBlocks stop r sc (tick w a)
        { o with seen := b :: o.seen }

def It.walk (it : It) (stop : Block → Bool) (w : World) : List Block × It × World :=
  let o := walkBlocks stop it.all it.sched w
  (o.seen, { it with rest := o.rest, sched := o.sched, lastError := o.lastError }, o.world)

inductive EvalRes | ok (v : Bool) | err (e : Err)
deriving DecidableEq, Repr

def runProg (set : Settings) (c : Core) : Prog → It → World → EvalRes × It × World
  | .ret v, it, w => (.ok v, it, w)
  | .fail e, it, w => (.err (.exec e), it, w)
  | .check k, it, w => if timedOut set c w then (.err .scanTimeout, it, w) else runProg set c k it w
  | .walk stop k, it, w =>
    let (seen, it', w') := it.walk stop w
    runProg set c (k seen) it' w'

def Core.view (c : Core) (fs : Option Nat) (stack : Nat) (pm : Bool) : View :=
  { found := c.found, fileSize := fs, entryPoint := c.entryPoint, ruleFlags := c.ruleFlags,
    modules := c.modules, stack := stack, processMemory := pm }

structure ExecOut where
  core : Core
  it : It
  world : World
  msgs : List Msg
  result : Err

/-- `yr_modules_load` for the modules of the OP_IMPORT instructions, in order -/
def loadModules (P : Params) (cb : Nat → CbRet) (pm : Bool) : List Nat → Core → It → World → ExecOut
  | [], c, it, w => ⟨c, it, w, [], .success⟩
  | m :: ms, c, it, w =>
    if c.modules.any (fun p => p.1 == m) then loadModules P cb pm ms c it w
    else
      let (r1, w1) := call cb w
      if r1 = .error then ⟨c, it, w1, [.importModule m], .callbackError⟩
      else
        let (parsed, it2, w2) :=
          match P.modParse pm m with
          | none => ((none : Option Block), it, w1)
          | some f =>
            let (seen, it', w') := it.walk f w1
            ((match seen.getLast? with | some b => if f b then some b else none | none => none), it', w')
        let c2 := { c with modules := c.modules ++ [(m, parsed)] }
        let (r2, w3) := call cb w2
        if r2 = .error then ⟨c2, it2, w3, [.importModule m, .moduleImported m], .callbackError⟩
        else
          let o := loadModules P cb pm ms c2 it2 w3
          { o with msgs := .importModule m :: .moduleImported m :: o.msgs }

/-- the per-rule code: OP_INIT_RULE … OP_MATCH_RULE -/
def execRules (P : Params) (set : Settings) (fs : Option Nat) (stack : Nat) :
    List (Nat × Rule) → Core → It → World → Core × It × World × Err
  | [], c, it, w => (c, it, w, .success)
  | (i, r) :: rs, c, it, w =>
    if i ∈ c.reqEval then
      match runProg set c (P.cond i (c.view fs stack set.processMemory)) it w with
      | (.err e, it', w') => (c, it', w', e)
      | (.ok v, it', w') =>
        let c' := if v then { c with ruleFlags := setIns i c.ruleFlags }
                  else if r.isGlobal then { c with nsUnsat := setIns r.ns c.nsUnsat } else c
        execRules P set fs stack rs c' it' w'
    else
      let c' := if r.isGlobal then { c with nsUnsat := setIns r.ns c.nsUnsat } else c
      execRules P set fs stack rs c' it w

def enum {α : Type} (l : List α) : List (Nat × α) := (List.range l.length).zip l

/-- `yr_execute_code`: imports, rules, then `yr_modules_unload_all` whatever happened -/
def exec (P : Params) (cb : Nat → CbRet) (set : Settings) (fs : Option Nat) (stack : Nat)
    (c : Core) (it : It) (w : World) : ExecOut :=
  let o := loadModules P cb set.processMemory P.imports c it w
  if o.result ≠ .success then { o with core := { o.core with modules := [] } }
  else
    let (c', it', w', e) := execRules P set fs stack (enum P.rules) o.core o.it o.world
    ⟨{ c' with modules := [] }, it', w', o.msgs, e⟩

/-! ### reporting loop -/

def ruleMatches (c : Core) (r : Rule) : MatchTable := r.strings.map fun s => (s, tget c.found s)

/-- the message (if any) the reporting loop sends for rule `i` (:581-593) -/
def ruleMsg (set : Settings) (c : Core) (i : Nat) (r : Rule) : Option Msg :=
  if r.isPrivate then none
  else if decide (i ∈ c.ruleFlags) && !decide (r.ns ∈ c.nsUnsat) then
    (if set.reportMatching then some (.ruleMatching i (ruleMatches c r)) else none)
  else
    (if set.reportNotMatching then some (.ruleNotMatching i (ruleMatches c r)) else none)

/-- :577-607; `none` = loop ran to its end -/
def report (cb : Nat → CbRet) (set : Settings) (c : Core) : List (Nat × Rule) → World → World × List Msg × Option Err
  | [], w => (w, [], none)
  | (i, r) :: rs, w =>
    match ruleMsg set c i r with
    | none => report cb set c rs w
    | some m =>
      match cb w.nmsg with
      | .abort => ({ w with nmsg := w.nmsg + 1 }, [m], some .success)
      | .error => ({ w with nmsg := w.nmsg + 1 }, [m], some .callbackError)
      | .cont =>
        let (w'', ms, e) := report cb set c rs { w with nmsg := w.nmsg + 1 }
        (w'', m :: ms, e)

/-! ### the whole call -/

structure CallOut where
  sc : Sc
  it : It
  world : World
  msgs : List Msg
  rc : Err
deriving DecidableEq, Repr

/-- `_exit:` (:612-626) -/
def exitClean (c : Core) (rc : Err) : Core :=
  if rc = .blockNotReady then c else { c.cleanMatches with notebook := false }

/-- the fresh-scan branch up to (not including) `iterator->first` (:493-516) -/
def freshInit (P : Params) (v : Variant) (c : Core) (w : World) : Core :=
  let c := if v.cleanStale && c.notebook then { c.cleanMatches with notebook := false } else c
  { c with
    notebook := true,
    reqEval := (enum P.rules).filterMap (fun p => if p.2.noReq then some p.1 else none),
    swStart := w.clock,
    entryPoint := if v.resetEntryPoint then none else c.entryPoint }

/-- everything after the block loop (:554-626), messages of the block loop not included -/
def afterLoop0 (P : Params) (cb : Nat → CbRet) (stack : Nat) (s : Sc) (it : It) (o : LoopOut) : CallOut :=
  let it1 : It := { it with rest := o.rest, sched := o.sched, lastError := o.lastError }
  if o.result ≠ .success then
    ⟨{ s with core := exitClean o.core o.result }, it1, o.world, [], o.result⟩
  else
    let fs := it.fileSize
    let x := exec P cb s.set fs stack o.core it1 o.world
    if x.result ≠ .success then
      ⟨{ s with core := exitClean x.core x.result, fileSize := fs }, x.it, x.world, x.msgs, x.result⟩
    else
      match report cb s.set x.core (enum P.rules) x.world with
      | (w, ms, some e) =>
        ⟨{ s with core := exitClean x.core e, fileSize := fs }, x.it, w, x.msgs ++ ms, e⟩
      | (w, ms, none) =>
        let (_, w') := call cb w
        ⟨{ s with core := exitClean x.core .success, fileSize := fs }, x.it, w', x.msgs ++ ms ++ [.scanFinished], .success⟩

def CallOut.pre (ms : List Msg) (r : CallOut) : CallOut := { r with msgs := ms ++ r.msgs }

/-- block loop, then everything after it -/
def afterLoop (P : Params) (cb : Nat → CbRet) (stack : Nat) (s : Sc) (it : It) (o : LoopOut) : CallOut :=
  (afterLoop0 P cb stack s it o).pre o.msgs

/-- `yr_scanner_scan_mem_blocks(scanner, iterator)` -/
def scanCall (P : Params) (v : Variant) (cb : Nat → CbRet) (stack : Nat) (s : Sc) (it : It) (w : World) : CallOut :=
  if !s.set.hasCallback then
    ⟨{ s with core := exitClean s.core .callbackRequired }, it, w, [], .callbackRequired⟩
  else if decide (it.lastError = .blockNotReady) && (s.core.notebook || !v.resumeNeedsPending) then
    -- continuation (:486): the previous call returned ERROR_BLOCK_NOT_READY (and, with the fix, its state is still there)
    afterLoop P cb stack s it (blockLoop P cb s.set it.rest it.sched s.core w)
  else
    afterLoop P cb stack s it (blockLoop P cb s.set it.all it.sched (freshInit P v s.core w) w)

/-- Memory accounting. A fresh scan overwrites `matches_notebook` without looking at it (:503): if a
    suspended scan was pending, its notebook is lost (1 leak) unless the fix released it first. -/
def callLeaks (v : Variant) (s : Sc) (it : It) : Nat :=
  if s.set.hasCallback && decide (it.lastError ≠ .blockNotReady) && s.core.notebook && !v.cleanStale then 1 else 0

/-- `yr_scanner_destroy`: the notebook of a pending suspended scan is released only with the fix. -/
def destroyLeaks (v : Variant) (s : Sc) : Nat :=
  if s.core.notebook && !v.cleanStale then 1 else 0

end YaraModel.Scan
