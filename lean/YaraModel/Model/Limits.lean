/-
  C15 — executable models of the limit guards of libyara. One small function per limit,
  mirroring the C code; every comparison operator and constant comes from `Gen/Limits.lean`
  (regenerated from the source by translators/limits.py), the limit itself is a parameter
  so that the theorems hold for ALL sizes (the driver passes the generated default or the
  value of the build variant under test).

    scan.c      _yr_scan_add_match_to_list, yr_scan_verify_match (TOO_MANY_MATCHES negotiation)
    exec.c      push / pop macros, timeout cadence of the instruction loop
    scanner.c   timeout cadence of the block loop
    grammar.y   loop nesting counter          compiler.c  file_name_stack (include depth)
    parser.c    strings-per-rule counter      lexer.l     identifier length, integer literals
    re.c        _yr_emit_split / _yr_re_emit (split ids, code size), _yr_re_fiber_create
-/
import YaraModel.Gen.Limits
namespace YaraModel.Limits
open YaraModel.Gen.Limits

inductive Err
  | tooManyMatches | stackOverflow | loopNesting | includeDepth | includeCircular
  | tooManyStrings | identTooLong | intOverflow | reTooComplex | reTooLarge | tooManyFibers
  | scanTimeout
deriving DecidableEq, Repr

deriving instance DecidableEq for Except

/-! ## 0. Guards

  Every limit test of the C code is one field of `Guards`. `Guards.gen` is built from the
  comparison operators and constants regenerated from the source; `Guards.spec` is written from
  the property ("at the limit", "more than", "longer than 128"). The model functions below take
  the guards as a parameter; `Guards.Sound` states what a guard must mean on the reachable range.
  Thm/C15 proves the limits for every sound `G` and that both `gen` and `spec` are sound; the
  driver predicts with `Guards.spec`, so a weakened guard in the source shows up both as a broken
  proof (`gen_guards_sound`) and as a concrete failing input of the correspondence run. -/

structure Guards where
  capReached : Nat → Nat → Bool      -- scan.c   matches_list->count == YR_MAX_STRING_MATCHES
  pushOk : Nat → Nat → Bool          -- exec.c   stack.sp < stack.capacity
  loopFull : Nat → Nat → Bool        -- grammar.y loop_index + 1 == YR_MAX_LOOP_NESTING
  includeFull : Nat → Nat → Bool     -- compiler.c file_name_stack_ptr == YR_MAX_INCLUDE_DEPTH
  stringsOver : Nat → Nat → Bool     -- parser.c strings_in_rule > max_strings_per_rule
  identTooLong : Nat → Bool          -- lexer.l  strlen(yytext) > 128
  kbOver : Nat → Bool                -- lexer.l  integer > LLONG_MAX / 1024
  mbOver : Nat → Bool
  kbMul : Nat
  mbMul : Nat
  splitFull : Nat → Nat → Bool       -- re.c     next_split_id == RE_MAX_SPLIT_ID
  fiberFull : Nat → Nat → Bool       -- re.c     fiber_count == RE_MAX_FIBERS
  cycleHit : Nat → Nat → Bool        -- exec.c   ++cycle == 100
  vmExpired : Nat → Nat → Bool       -- exec.c   elapsed_time > context->timeout
  blockExpired : Nat → Nat → Bool    -- scanner.c elapsed > scanner->timeout
  sizeErr : Nat → Nat → Bool         -- re.c     _yr_re_emit: site index → jump distance → TOO_LARGE

def int64Max : Nat := 9223372036854775807

/-- documented maximum identifier length (docs/writingrules.rst) -/
def specIdentMax : Nat := 128

/-- sites of `_yr_re_emit` in the order of `Gen.reSizeGuards`: 0 plus (backward), 1 star (backward jump), 2 star (forward split),
    3 alt split, 4 alt jump, 5 range split. A backward offset is stored as `-distance` and may reach INT16_MIN. -/
def sizeBackward (i : Nat) : Bool := decide (i < 2)
def sizeBound (i : Nat) : Nat := if sizeBackward i then 32768 else 32767

def Guards.gen : Guards where
  capReached := matchCapCmp.eval
  pushOk := pushCmp.eval
  loopFull := loopNestCmp.eval
  includeFull := includeDepthCmp.eval
  stringsOver := stringsPerRuleCmp.eval
  identTooLong := fun n => identCmp.eval n identLimit
  kbOver := fun n => kbCmp.eval n (int64Max / kbDiv)
  mbOver := fun n => mbCmp.eval n (int64Max / mbDiv)
  kbMul := YaraModel.Gen.Limits.kbMul
  mbMul := YaraModel.Gen.Limits.mbMul
  splitFull := splitIdCmp.eval
  fiberFull := fiberCmp.eval
  cycleHit := vmCycleCmp.eval
  vmExpired := vmTimeoutCmp.eval
  blockExpired := blockTimeoutCmp.eval
  sizeErr := fun i d => match reSizeGuards[i]? with
    | some g => g.cmp.eval d g.bound
    | none => true

def Guards.spec : Guards where
  capReached := fun c M => decide (c ≥ M)
  pushOk := fun sp cap => decide (sp < cap)
  loopFull := fun d M => decide (d ≥ M)
  includeFull := fun p M => decide (p ≥ M)
  stringsOver := fun n M => decide (n > M)
  identTooLong := fun n => decide (n > specIdentMax)
  kbOver := fun n => decide (n * 1024 > int64Max)
  mbOver := fun n => decide (n * 1048576 > int64Max)
  kbMul := 1024
  mbMul := 1048576
  splitFull := fun n M => decide (n ≥ M)
  fiberFull := fun n M => decide (n ≥ M)
  cycleHit := fun c N => decide (c ≥ N)
  vmExpired := fun e t => decide (e > t)
  blockExpired := fun e t => decide (e > t)
  sizeErr := fun i d => decide (d > sizeBound i)

structure Guards.Sound (G : Guards) : Prop where
  cap : ∀ c M, c ≤ M → (G.capReached c M = true ↔ c = M)
  push : ∀ sp cap, sp ≤ cap → (G.pushOk sp cap = true ↔ sp < cap)
  loop : ∀ d M, d ≤ M → (G.loopFull d M = true ↔ d = M)
  incl : ∀ p M, p ≤ M → (G.includeFull p M = true ↔ p = M)
  strings : ∀ n M, G.stringsOver n M = true ↔ n > M
  ident : ∀ n, G.identTooLong n = true ↔ n > specIdentMax
  kb : ∀ n, G.kbOver n = true ↔ n * 1024 > int64Max
  mb : ∀ n, G.mbOver n = true ↔ n * 1048576 > int64Max
  kbMulEq : G.kbMul = 1024
  mbMulEq : G.mbMul = 1048576
  split : ∀ n M, n ≤ M → (G.splitFull n M = true ↔ n = M)
  fiber : ∀ n M, n ≤ M → (G.fiberFull n M = true ↔ n = M)
  cycle : ∀ c N, c < N → (G.cycleHit (c + 1) N = true ↔ c + 1 = N)
  vmExp : ∀ e t, G.vmExpired e t = true ↔ e > t
  blockExp : ∀ e t, G.blockExpired e t = true ↔ e > t
  size : ∀ i d, i < 6 → (G.sizeErr i d = true ↔ d > sizeBound i)

variable (G : Guards)

/-! ## 1. Match list with cap (scan.c:290 `_yr_scan_add_match_to_list`) -/

/-- A match: absolute offset (`base + offset`) and length. -/
structure Match where
  off : Nat
  len : Nat
deriving DecidableEq, Repr

/-- `YR_MATCHES`: the list is kept from the *tail* backwards (largest offset first), which is
    the direction in which the C code walks it; `count` is the separate counter field. -/
structure MList where
  count : Nat
  items : List Match
deriving DecidableEq, Repr

def MList.empty : MList := ⟨0, []⟩

/-- The walk from the tail: returns the new list and whether a node was linked in.
    Same offset: nothing is linked (with `replace` the stored length is overwritten). -/
def insertDesc (m : Match) (replace : Bool) : List Match → List Match × Bool
  | [] => ([m], true)
  | y :: ys =>
    if m.off = y.off then ((if replace then { y with len := m.len } else y) :: ys, false)
    else if m.off > y.off then (m :: y :: ys, true)
    else
      let r := insertDesc m replace ys
      (y :: r.1, r.2)

/-- `_yr_scan_add_match_to_list`: the cap test comes first (even before the duplicate test). -/
def addMatch (MAX : Nat) (m : Match) (replace : Bool) (l : MList) : MList × Option Err :=
  if G.capReached l.count MAX then (l, some .tooManyMatches)
  else
    let r := insertDesc m replace l.items
    (⟨if r.2 then l.count + 1 else l.count, r.1⟩, none)

/-! ## 2. TOO_MANY_MATCHES negotiation (scan.c:1040 `yr_scan_verify_match`) -/

/-- A verified occurrence of string `sid` handed to the match callback. -/
structure Ev where
  sid : Nat
  m : Match
deriving DecidableEq, Repr

structure SState where
  lists : Nat → MList          -- `context->matches[string->idx]`
  disabled : Nat → Bool        -- `strings_temp_disabled`
  warned : List Nat            -- CALLBACK_MSG_TOO_MANY_MATCHES calls so far (newest first)

def SState.init : SState := ⟨fun _ => MList.empty, fun _ => false, []⟩

def upd {α : Type} (f : Nat → α) (i : Nat) (v : α) : Nat → α := fun j => if j = i then v else f j

/-- One candidate. `cont sid = true` means the user callback answers CALLBACK_CONTINUE. -/
def verifyStep (MAX : Nat) (cont : Nat → Bool) (s : SState) (e : Ev) : SState × Option Err :=
  if s.disabled e.sid then (s, none)
  else
    match addMatch G MAX e.m false (s.lists e.sid) with
    | (l', none) => ({ s with lists := upd s.lists e.sid l' }, none)
    | (_, some _) =>
      let s' := { s with warned := e.sid :: s.warned }
      if cont e.sid then ({ s' with disabled := upd s'.disabled e.sid true }, none)
      else (s', some .tooManyMatches)

/-- The block scan: candidates in order, the first error aborts the scan. -/
def scanEvents (MAX : Nat) (cont : Nat → Bool) : SState → List Ev → SState × Option Err
  | s, [] => (s, none)
  | s, e :: es =>
    match verifyStep G MAX cont s e with
    | (s', none) => scanEvents MAX cont s' es
    | (s', some err) => (s', some err)

/-! ## 3. Bounded counters: VM stack (exec.c push/pop), loop nesting (grammar.y), fibers -/

inductive StkOp | push | pop
deriving DecidableEq, Repr

-- `#define push(x) if (stack.sp < stack.capacity) … else ERROR_EXEC_STACK_OVERFLOW`

/-- Runs a push/pop program; `none` = ERROR_EXEC_STACK_OVERFLOW (the VM stops). -/
def vmRun (cap : Nat) : Nat → List StkOp → Option Nat
  | sp, [] => some sp
  | sp, .push :: ops => if G.pushOk sp cap then vmRun cap (sp + 1) ops else none
  | sp, .pop :: ops => vmRun cap (sp - 1) ops

/-- Highest stack pointer a program reaches when nothing bounds it. -/
def peak : Nat → List StkOp → Nat
  | sp, [] => sp
  | sp, .push :: ops => max (sp + 1) (peak (sp + 1) ops)
  | sp, .pop :: ops => max sp (peak (sp - 1) ops)

-- grammar.y:1586 `if (compiler->loop_index + 1 == YR_MAX_LOOP_NESTING) result = ERROR_LOOP_NESTING_LIMIT_EXCEEDED`;
-- `depth = loop_index + 1` (number of open loops).

inductive LoopEv | enter | exit
deriving DecidableEq, Repr

/-- Parser walk over the `for` structure of a condition; `none` = compile error. -/
def loopRun (MAX : Nat) : Nat → List LoopEv → Option Nat
  | d, [] => some d
  | d, .enter :: es => if G.loopFull d MAX then none else loopRun MAX (d + 1) es
  | d, .exit :: es => loopRun MAX (d - 1) es

def loopPeak : Nat → List LoopEv → Nat
  | d, [] => d
  | d, .enter :: es => max (d + 1) (loopPeak (d + 1) es)
  | d, .exit :: es => max d (loopPeak (d - 1) es)

/-! ## 4. Include depth (compiler.c:467 `_yr_compiler_push_file_name`) -/

/-- The circular-reference test precedes the depth test. -/
def pushFile (MAX : Nat) (stack : List String) (name : String) : Except Err (List String) :=
  if stack.contains name then .error .includeCircular
  else if G.includeFull stack.length MAX then .error .includeDepth
  else .ok (name :: stack)

/-- A chain: each file includes the next one (nothing is popped before the innermost is read). -/
def pushChain (MAX : Nat) : List String → List String → Except Err (List String)
  | stack, [] => .ok stack
  | stack, n :: ns =>
    match pushFile G MAX stack n with
    | .ok st => pushChain MAX st ns
    | .error e => .error e

/-- `yr_compiler_add_file(c, f, NULL, name)`: the name is pushed, the file (with its chain of nested includes) is parsed, and
    everything pushed is popped again — `popsOwnName` (translated: the pop is guarded by `file_name != NULL` like the push) says
    whether the file's own name is. Returns the stack left behind. -/
def addFile (MAX : Nat) (popsOwnName : Bool) (stack : List String) (name : String) (chain : List String) : Except Err (List String) :=
  match pushFile G MAX stack name with
  | .error e => .error e
  | .ok st =>
    match pushChain G MAX st chain with
    | .error e => .error e
    | .ok _ => .ok (if popsOwnName then stack else st)     -- the includes pop their own names at their end of file

/-- several files through one compiler; stops at the first error (the compiler is unusable afterwards) -/
def addFileSeq (MAX : Nat) (popsOwnName : Bool) : List String → List (String × List String) → List (Option Err)
  | _, [] => []
  | stack, (name, chain) :: rest =>
    match addFile G MAX popsOwnName stack name chain with
    | .error e => [some e]
    | .ok st => none :: addFileSeq MAX popsOwnName st rest

/-! ## 5. Strings per rule (parser.c:1087 `yr_parser_reduce_rule_declaration_phase_2`) -/

/-- The loop over the rule's `YR_STRING`s (a chained string contributes one per piece):
    `strings_in_rule++; if (strings_in_rule > max_strings_per_rule) return ERROR_TOO_MANY_STRINGS`. -/
def countStrings (M : Nat) : Nat → Nat → Option Nat
  | cnt, 0 => some cnt
  | cnt, k + 1 => if G.stringsOver (cnt + 1) M then none else countStrings M (cnt + 1) k

/-! ## 6. Lexer: identifier length and integer literals (lexer.l) -/

inductive Suffix | none | kb | mb
deriving DecidableEq, Repr

/-- `strtoll` saturates at LLONG_MAX with ERANGE; then the KB/MB guards. `n` is the value of the digits. -/
def intLiteral (n : Nat) (suf : Suffix) : Except Err Nat :=
  if n > int64Max then .error .intOverflow
  else match suf with
    | .none => .ok n
    | .kb => if G.kbOver n then .error .intOverflow else .ok (n * G.kbMul)
    | .mb => if G.mbOver n then .error .intOverflow else .ok (n * G.mbMul)

/-- `strtoll` on a digit string of value `n`: the result saturates at LLONG_MAX and `errno` becomes ERANGE on overflow;
    on success `errno` is LEFT AS IT WAS (C11 7.5p3: no library function sets errno to zero). `errno`: is it ERANGE? -/
def strtollC (n : Nat) (errno : Bool) : Nat × Bool :=
  if n > int64Max then (int64Max, true) else (n, errno)

/-- One integer-literal rule of lexer.l as a state transformer on the thread's `errno`: `[errno = 0;] v = strtoll(…);
    if (v == LLONG_MAX && errno == ERANGE) error`. `resets`: the rule has the `errno = 0;` (translated: `litRules`). -/
def lexInt (resets : Bool) (errnoIn : Bool) (n : Nat) : Except Err Nat × Bool :=
  let r := strtollC n (if resets then false else errnoIn)
  (if r.1 == int64Max && r.2 then .error .intOverflow else .ok r.1, r.2)

def resetsOf (rules : List (Nat × Bool)) (radix : Nat) : Bool :=
  match rules.find? (·.1 == radix) with | some r => r.2 | none => false

/-- a sequence of literals lexed on one thread (across compilers and compilations): `errno` is threaded through -/
def lexIntSeq (rules : List (Nat × Bool)) : Bool → List (Nat × Nat) → List (Except Err Nat)
  | _, [] => []
  | e, (radix, n) :: rest =>
    let r := lexInt (resetsOf rules radix) e n
    r.1 :: lexIntSeq rules r.2 rest

/-! ## 7. Regular expressions: split ids and code size (re.c `_yr_re_emit`) -/

/-- The fragment of RE_NODE the generator uses. `range lo hi` is `e{lo,hi}` (`e?` = `{0,1}`). -/
inductive Re
  | lit                       -- RE_NODE_LITERAL            2 bytes
  | any                       -- RE_NODE_ANY                1 byte
  | cls                       -- RE_NODE_CLASS              1 + sizeof(RE_CLASS) = 34 bytes
  | cat (a b : Re)            -- RE_NODE_CONCAT
  | alt (a b : Re)            -- RE_NODE_ALT
  | star (a : Re)             -- RE_NODE_STAR
  | plus (a : Re)             -- RE_NODE_PLUS
  | range (lo hi : Nat) (a : Re)   -- RE_NODE_RANGE
deriving Repr

/-- Emit context: next split id and current offset in the code section. -/
structure Emit where
  split : Nat
  size : Nat
deriving DecidableEq, Repr

def int16Max : Nat := 32767
def int16MinAbs : Nat := 32768

/-- `_yr_emit_split`: opcode + split id + int16 = 4 bytes. -/
def emitSplit (MAX : Nat) (c : Emit) : Except Err Emit :=
  if G.splitFull c.split MAX then .error .reTooComplex else .ok ⟨c.split + 1, c.size + 4⟩

def repeatArgsSize : Nat := 9   -- opcode + RE_REPEAT_ARGS {uint16 min, max; int32 offset}

/-- a section of the RANGE code that is emitted only under a condition -/
def whenE (p : Prop) [Decidable p] (f : Emit → Except Err Emit) (c : Emit) : Except Err Emit :=
  if p then f c else .ok c

/-- `_yr_re_emit` (forward code; the backward code has the same shape with children reversed). -/
def emit (MAX : Nat) : Re → Emit → Except Err Emit
  | .lit, c => .ok { c with size := c.size + 2 }
  | .any, c => .ok { c with size := c.size + 1 }
  | .cls, c => .ok { c with size := c.size + 34 }
  | .cat a b, c => do
      let c1 ← emit MAX a c
      emit MAX b c1
  | .plus a, c => do
      let start := c.size
      let c1 ← emit MAX a c
      -- if (instruction_ref.offset - bookmark_1 < INT16_MIN)
      if G.sizeErr 0 (c1.size - start) then .error .reTooLarge
      else emitSplit G MAX c1
  | .star a, c => do
      let start := c.size
      let c1 ← emitSplit G MAX c
      let c2 ← emit MAX a c1
      if G.sizeErr 1 (c2.size - start) then .error .reTooLarge
      else
        let c3 : Emit := { c2 with size := c2.size + 3 }      -- jmp
        if G.sizeErr 2 (c3.size - start) then .error .reTooLarge else .ok c3
  | .alt a b, c => do
      let start := c.size
      let c1 ← emitSplit G MAX c
      let c2 ← emit MAX a c1
      let jmpAt := c2.size
      let c3 : Emit := { c2 with size := c2.size + 3 }        -- jmp
      if G.sizeErr 3 (c3.size - start) then .error .reTooLarge
      else do
        let c4 ← emit MAX b c3
        if G.sizeErr 4 (c4.size - jmpAt) then .error .reTooLarge else .ok c4
  | .range lo hi a, c =>
      -- emit_prolog = start > 0; emit_repeat = end > start + 1 || end > 2;
      -- emit_split = end > start; emit_epilog = end > start || end > 1
      whenE (lo > 0) (emit MAX a) c >>= fun c1 =>
      whenE (hi > lo + 1 ∨ hi > 2) (fun c1 =>
          emit MAX a { c1 with size := c1.size + repeatArgsSize } >>= fun c22 =>
          .ok { c22 with size := c22.size + repeatArgsSize }) c1 >>= fun c2 =>
      whenE (hi > lo) (emitSplit G MAX) c2 >>= fun c3 =>
      whenE (hi > lo ∨ hi > 1) (emit MAX a) c3 >>= fun c4 =>
      if hi > lo ∧ G.sizeErr 5 (c4.size - c2.size) = true then .error .reTooLarge else .ok c4

/-- `yr_re_ast_emit_code`: fresh context, the expression, then RE_OPCODE_MATCH (1 byte). -/
def emitCode (MAX : Nat) (r : Re) : Except Err Emit :=
  match emit G MAX r ⟨0, 0⟩ with
  | .ok c => .ok { c with size := c.size + 1 }
  | .error e => .error e

/-- Number of split instructions the emitter produces for `r` when nothing bounds it. -/
def splits : Re → Nat
  | .lit => 0 | .any => 0 | .cls => 0
  | .cat a b => splits a + splits b
  | .alt a b => 1 + splits a + splits b
  | .star a => 1 + splits a
  | .plus a => splits a + 1
  | .range lo hi a =>
      (if lo > 0 then splits a else 0) +
      (if hi > lo + 1 ∨ hi > 2 then splits a else 0) +
      (if hi > lo then 1 else 0) +
      (if hi > lo ∨ hi > 1 then splits a else 0)

/-- the value an `int16_t` holds after `jmp_offset = (int16_t) x` -/
def wrap16 (x : Int) : Int := let r := x % 65536; if r ≥ 32768 then r - 65536 else r

/-- the offset `_yr_re_emit` stores for site `i` when the real distance is `d` -/
def storedOffset (i d : Nat) : Int := wrap16 (if sizeBackward i then -(d : Int) else (d : Int))

/-! ## 7b. Start of a scan (scanner.c `_yr_scanner_clean_matches`) -/

/-- `YR_BITMASK_SIZE(n)` 64-bit words -/
def bitmaskWords (n : Nat) : Nat := n / 64 + 1

/-- `memset(strings_temp_disabled, 0, sizeof(YR_BITMASK) * YR_BITMASK_SIZE(count))`: the mute bits of the first
    `64 * words` strings are cleared, the rest keep their value from the previous scan -/
def cleanDisabled (count : Nat) (d : Nat → Bool) : Nat → Bool :=
  fun i => if i < 64 * bitmaskWords count then false else d i

/-! ## 8. Fiber pool (re.c:1219 `_yr_re_fiber_create`, `_yr_re_fiber_kill`) -/

structure Pool where
  allocated : Nat      -- `fiber_pool->fiber_count`
  free : Nat           -- fibers sitting in the pool's free list
  live : Nat           -- fibers handed out
deriving DecidableEq, Repr

inductive FibOp | create | release
deriving DecidableEq, Repr

def fibStep (MAX : Nat) (p : Pool) : FibOp → Pool × Option Err
  | .create =>
    if p.free > 0 then (⟨p.allocated, p.free - 1, p.live + 1⟩, none)
    else if G.fiberFull p.allocated MAX then (p, some .tooManyFibers)
    else (⟨p.allocated + 1, p.free, p.live + 1⟩, none)
  | .release =>
    if p.live > 0 then (⟨p.allocated, p.free + 1, p.live - 1⟩, none) else (p, none)

def fibRun (MAX : Nat) : Pool → List FibOp → Pool × List (Option Err)
  | p, [] => (p, [])
  | p, o :: os =>
    let r := fibStep G MAX p o
    let rest := fibRun MAX r.1 os
    (rest.1, r.2 :: rest.2)

/-- One `yr_re_exec` seen from the pool: it needs `need` fibers alive at once; every exit path (match, no match,
    ERROR_TOO_MANY_RE_FIBERS) hands the live fibers back (`_yr_re_fiber_kill_all`). -/
def releaseAll (p : Pool) : Pool := ⟨p.allocated, p.free + p.live, 0⟩

def reExec (MAX : Nat) : Nat → Pool → Pool × Option Err
  | 0, p => (releaseAll p, none)
  | need + 1, p =>
    match fibStep G MAX p .create with
    | (p', none) => reExec MAX need p'
    | (p', some e) => (releaseAll p', some e)

/-- a scanner used for several scans: the pool persists, each scan is one `reExec` -/
def reExecSeq (MAX : Nat) : Pool → List Nat → List (Option Err)
  | _, [] => []
  | p, n :: ns => let r := reExec G MAX n p; r.2 :: reExecSeq MAX r.1 ns

/-! ## 9. Timeout cadence (exec.c:2358, scanner.c:76) -/

/-- The instruction loop with `timeout > 0`: `if (++cycle == N) { read clock; …; cycle = 0; }`.
    State: `cycle`; result per instruction: was the clock read? -/
def vmTick (N : Nat) (cycle : Nat) : Nat × Bool :=
  if G.cycleHit (cycle + 1) N then (0, true) else (cycle + 1, false)

/-- Number of clock reads while executing `k` instructions starting with counter `cycle`. -/
def vmReads (N : Nat) : Nat → Nat → Nat
  | _, 0 => 0
  | cycle, k + 1 =>
    let r := vmTick G N cycle
    (if r.2 then 1 else 0) + vmReads N r.1 k

/-- The instruction loop over a PROGRAM (the opcode of every executed instruction, across all rules): an opcode listed in
    `writers` (translated: `vmCycleWriters`, the `case` bodies that assign `cycle`) restarts the count before the
    bottom-of-loop guard runs. Number of clock reads. -/
def vmReadsProg (N : Nat) (writers : List String) : Nat → List String → Nat
  | _, [] => 0
  | cycle, op :: rest =>
    let c := if writers.contains op then 0 else cycle
    let r := vmTick G N c
    (if r.2 then 1 else 0) + vmReadsProg N writers r.1 rest

/-- A scan over a non-blocking iterator that was suspended (ERROR_BLOCK_NOT_READY) and resumed after each of the waits `ws`:
    the elapsed time the next clock read compares with the timeout. `restarts`: the stopwatch is started again on resume. -/
def seenElapsed (restarts : Bool) (ws : List Nat) : Nat :=
  if restarts then ws.getLast?.getD 0 else ws.sum

/-- Block loop: `if (i % 4096 == 0 && timeout > 0) read clock`. Reads among byte positions `[a, a+k)`. -/
def blockReads (S : Nat) : Nat → Nat → Nat
  | _, 0 => 0
  | a, k + 1 => (if a % S = 0 then 1 else 0) + blockReads S (a + 1) k

end YaraModel.Limits

namespace YaraModel.Gen.Limits

/-! ## 10. Timeout conversion (scanner.c `yr_scanner_set_timeout`) — C integer semantics -/

def CTy.bits : CTy → Nat | .i32 => 32 | .u32 => 32 | .i64 => 64 | .u64 => 64
def CTy.signed : CTy → Bool | .i32 => true | .i64 => true | _ => false

/-- value of an arbitrary integer converted to the type (two's complement wrap; signed overflow, which is
    undefined in C, is modelled as the wrap every supported compiler produces) -/
def CTy.wrap (ty : CTy) (x : Int) : Int :=
  let m : Int := 2 ^ ty.bits
  let r := x % m
  if ty.signed && r ≥ m / 2 then r - m else r

/-- usual arithmetic conversions (LP64): u64 > i64 > u32 > i32 -/
def CTy.common : CTy → CTy → CTy
  | .u64, _ => .u64 | _, .u64 => .u64
  | .i64, _ => .i64 | _, .i64 => .i64
  | .u32, _ => .u32 | _, .u32 => .u32
  | .i32, .i32 => .i32

/-- evaluates the expression for the argument `t` (an `int`); `none` = construct not translated -/
def CExpr.eval (t : Int) : CExpr → Option (CTy × Int)
  | .var => some (.i32, CTy.wrap .i32 t)
  | .lit v ty => some (ty, ty.wrap v)
  | .mul a b => arith (· * ·) (a.eval t) (b.eval t)
  | .add a b => arith (· + ·) (a.eval t) (b.eval t)
  | .sub a b => arith (· - ·) (a.eval t) (b.eval t)
  | .gt a b => rel (fun x y => decide (x > y)) (a.eval t) (b.eval t)
  | .ge a b => rel (fun x y => decide (x ≥ y)) (a.eval t) (b.eval t)
  | .lt a b => rel (fun x y => decide (x < y)) (a.eval t) (b.eval t)
  | .le a b => rel (fun x y => decide (x ≤ y)) (a.eval t) (b.eval t)
  | .eq a b => rel (fun x y => decide (x = y)) (a.eval t) (b.eval t)
  | .ne a b => rel (fun x y => decide (x ≠ y)) (a.eval t) (b.eval t)
  | .cond c a b =>
    match c.eval t, a.eval t, b.eval t with
    | some (_, cv), some (ta, va), some (tb, vb) =>
      let ty := ta.common tb
      some (ty, ty.wrap (if cv ≠ 0 then va else vb))
    | _, _, _ => none
  | .cast ty a => (a.eval t).map fun r => (ty, ty.wrap r.2)
  | .unparsed => none
where
  arith (f : Int → Int → Int) : Option (CTy × Int) → Option (CTy × Int) → Option (CTy × Int)
    | some (ta, va), some (tb, vb) => let ty := ta.common tb; some (ty, ty.wrap (f (ty.wrap va) (ty.wrap vb)))
    | _, _ => none
  rel (f : Int → Int → Bool) : Option (CTy × Int) → Option (CTy × Int) → Option (CTy × Int)
    | some (ta, va), some (tb, vb) => let ty := ta.common tb; some (.i32, if f (ty.wrap va) (ty.wrap vb) then 1 else 0)
    | _, _ => none

/-! ## 11. Iterator `next` functions (exec.c:186-400): one guard for several direct stack writes -/

/-- may the function proceed? (`stack->sp + K >= capacity` ⇒ ERROR_EXEC_STACK_OVERFLOW) -/
def IterFn.proceeds (e : IterFn) (sp cap : Nat) : Bool := !(e.guardCmp.eval (sp + e.guardK) cap)

/-- all slots written by the function when it proceeds: `sp, …, sp + maxPushes - 1` -/
def IterFn.inBounds (e : IterFn) (sp cap : Nat) : Prop := sp + e.maxPushes ≤ cap

instance (e : IterFn) (sp cap : Nat) : Decidable (e.inBounds sp cap) := by unfold IterFn.inBounds; infer_instance

end YaraModel.Gen.Limits

namespace YaraModel.Limits
open YaraModel.Gen.Limits

/-- the value stored in the `uint64_t timeout` field by `yr_scanner_set_timeout(scanner, t)` -/
def timeoutField (e : CExpr) (t : Int) : Option Int := (e.eval t).map fun r => CTy.wrap .u64 r.2

/-- specification: seconds to nanoseconds -/
def specTimeoutNs (t : Int) : Int := t * 1000000000

end YaraModel.Limits

namespace YaraModel.Limits
open YaraModel.Gen.Limits

/-! ## 12. Configuration storage (libyara.c `yr_cfgs[]`: a union of `uint32_t ui32` / `uint64_t ui64`, little endian) -/

/-- the 64 bits of one `yr_cfgs[]` slot after writing `v` through a member of `member` bits (32: only the low word changes) -/
def cfgWrite (member cast : Nat) (old v : Nat) : Nat :=
  let x := v % 2 ^ cast                       -- what `*(T*) src` reads of the caller's value
  if member ≥ 64 then x % 2 ^ 64 else (old / 2 ^ 32) * 2 ^ 32 + x % 2 ^ 32

/-- what the caller gets back: the member read, stored through a pointer of `cast` bits -/
def cfgRead (member cast : Nat) (slot : Nat) : Nat :=
  (if member ≥ 64 then slot % 2 ^ 64 else slot % 2 ^ 32) % 2 ^ cast

/-- `yr_get_configuration(k, &out)` after `yr_set_configuration(k, &v)` -/
def cfgRoundTrip (k : CfgKey) (old v : Nat) : Nat := cfgRead k.getMember k.getCast (cfgWrite k.setMember k.setCast old v)

/-- the width of the key's documented type: the width of the typed wrapper that accepts it -/
def cfgWidth (k : CfgKey) : Nat := k.typedSet

end YaraModel.Limits
