/-
  D7 — model of `_yr_re_emit` / `yr_re_ast_emit_code` (libyara/re.c): the bytecode emitted for an RE_AST, forwards and
  backwards, byte for byte (opcode values and operand layouts of include/yara/re.h, split ids numbered in emission
  order, the prolog / repeat / split / epilog table of counted repeats).  Validated on every generated case against the
  bytes the real function writes into an arena (h_re `wcode=`).
-/
import YaraModel.Spec.Re
import YaraModel.Model.ReVm
namespace YaraModel.ReEmit
open YaraModel.Re YaraModel.ReVm

def le16 (n : Nat) : List UInt8 := [UInt8.ofNat (n % 256), UInt8.ofNat (n / 256 % 256)]
/-- two's-complement little-endian int16 / int32 of an integer offset -/
def leI16 (i : Int) : List UInt8 := le16 ((i % 65536).toNat)
def leI32 (i : Int) : List UInt8 :=
  let n := (i % 4294967296).toNat
  [UInt8.ofNat (n % 256), UInt8.ofNat (n / 256 % 256), UInt8.ofNat (n / 65536 % 256), UInt8.ofNat (n / 16777216 % 256)]

def bitmapBytes (bm : Nat) : List UInt8 := (List.range 32).map fun i => UInt8.ofNat (bm / 2 ^ (8 * i) % 256)

/-- `emit back r sid = (code, next split id)`; `back` = EMIT_BACKWARDS (children of a concatenation in reverse order) -/
def emit (back : Bool) : Re → Nat → List UInt8 × Nat
  | .lit b, s => ([0xA2, b], s)
  | .notLit b, s => ([0xAE, b], s)
  | .masked v m, s => ([0xA4, v, m], s)
  | .maskedNot v m, s => ([0xAF, v, m], s)
  | .wordCh, s => ([0xA7], s)
  | .nonWordCh, s => ([0xA8], s)
  | .wordB, s => ([0xB2], s)
  | .nonWordB, s => ([0xB3], s)
  | .space, s => ([0xA9], s)
  | .nonSpace, s => ([0xAA], s)
  | .digit, s => ([0xAB], s)
  | .nonDigit, s => ([0xAC], s)
  | .any, s => ([0xA0], s)
  | .cls bm neg, s => (0xA5 :: (if neg then 1 else 0) :: bitmapBytes bm, s)
  | .bol, s => ([0xB1], s)
  | .eol, s => ([0xB0], s)
  | .empty, s => ([], s)
  | .cat a b, s =>
      if back then
        let (cb, s1) := emit back b s
        let (ca, s2) := emit back a s1
        (cb ++ ca, s2)
      else
        let (ca, s1) := emit back a s
        let (cb, s2) := emit back b s1
        (ca ++ cb, s2)
  | .plus a g, s =>
      -- L1: code for e ; split L1, L2      (L1 = first byte of the code for e; no split when e emits no code: e+ is e)
      let (ca, s1) := emit back a s
      if ca.isEmpty then (ca, s1)
      else (ca ++ [if g then 0xC1 else 0xC0, UInt8.ofNat s1] ++ leI16 (-(ca.length : Int)), s1 + 1)
  | .star a g, s =>
      -- L1: split L1, L2 ; code for e ; jmp L1 ; L2:
      let (ca, s1) := emit back a (s + 1)
      ([if g then 0xC0 else 0xC1, UInt8.ofNat s] ++ leI16 (4 + ca.length + 3) ++ ca ++ [0xC2] ++ leI16 (-((4 + ca.length : Nat) : Int)), s1)
  | .alt a b, s =>
      -- split L1, L2 ; L1: e1 ; jmp L3 ; L2: e2 ; L3:
      let (ca, s1) := emit back a (s + 1)
      let (cb, s2) := emit back b s1
      ([0xC0, UInt8.ofNat s] ++ leI16 (4 + ca.length + 3) ++ ca ++ [0xC2] ++ leI16 (3 + cb.length) ++ cb, s2)
  | .rangeAny lo hi g, s => ([if g then 0xB4 else 0xB5] ++ le16 (lo % 65536) ++ le16 (hi % 65536), s)
  | .range a lo hi g, s =>
      let prolog := emitProlog lo
      let rep := emitRepeat lo hi
      let split := emitSplit lo hi
      let epilog := emitEpilog lo hi
      let (c1, s1) := if prolog then emit back a s else ([], s)
      let (c2, s2) :=
        if rep then
          let (body, sb) := emit back a s1
          let args := le16 (repMin lo hi % 65536) ++ le16 (repMax lo hi % 65536)
          -- repeat_start n,m,L1 ; L0: body ; repeat_end n,m,L0 ; L1:
          ([if g then 0xC3 else 0xC5] ++ args ++ leI32 (9 + body.length + 9) ++ body ++
            [if g then 0xC4 else 0xC6] ++ args ++ leI32 (-(body.length : Int)), sb)
        else ([], s1)
      let (c3, s3) :=
        if split then
          let (ep, se) := if epilog then emit back a (s2 + 1) else ([], s2 + 1)
          ([if g then 0xC0 else 0xC1, UInt8.ofNat s2] ++ leI16 (4 + ep.length) ++ ep, se)
        else if epilog then emit back a s2 else ([], s2)
      (c1 ++ c2 ++ c3, s3)
where
  emitProlog (n : Nat) : Bool := decide (n > 0)
  emitRepeat (n m : Nat) : Bool := decide (m > n + 1) || decide (m > 2)
  emitSplit (n m : Nat) : Bool := decide (m > n)
  emitEpilog (n m : Nat) : Bool := decide (m > n) || decide (m > 1)
  repMin (n m : Nat) : Nat := (if decide (n > 0) then n - 1 else n) - (if decide (m > n) then 0 else 1)
  repMax (n m : Nat) : Nat := (if decide (n > 0) then m - 1 else m) - 1

/-- `yr_re_ast_emit_code`: the code of the expression followed by RE_OPCODE_MATCH -/
def emitCode (back : Bool) (r : Re) : List UInt8 := (emit back r 0).1 ++ [0xAD]

end YaraModel.ReEmit
