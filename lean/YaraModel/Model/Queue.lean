/-
  D11 — the file queue of cli/yara.c (`file_queue_put` / `file_queue_get` / `file_queue_finish`),
  one producer (the directory walker in `main`) and `n` consumers (`scanning_thread`), as a
  small-step interleaving semantics.  One `Act` constructor = one atomic action of the C code:

    file_queue_put(path):                          file_queue_get():
      pWait     sem_wait(unused_slots) succeeds      cWait     sem_wait(used_slots) succeeds
      pLock     mutex_lock(queue_mutex)              cLock     mutex_lock(queue_mutex)
      pWrite    file_queue[queue_tail].path = dup    cTest     if (queue_head == queue_tail) result = NULL
      pAdvTail  queue_tail = (queue_tail+1) % M      cRead     result = file_queue[queue_head].path
      pUnlock   mutex_unlock                         cAdvHead  queue_head = (queue_head+1) % M
      pPost     sem_post(used_slots)                 cUnlock   mutex_unlock
    file_queue_finish():                             cPost     sem_post(unused_slots)   (ALSO when result == NULL)
      pFinishBegin / pFinishPost (×YR_MAX_THREADS)   cReturn   scanning_thread: NULL → leave the loop, else scan+print, loop
      pFinishEnd

  Everything the C code takes from a `#define` is a field of `Cfg`; `Gen/Cli.lean` (translator T10)
  instantiates it from the sources on every run.  The fields `q`, `put`, `taken` of the state are
  history (ghost) variables: no guard and no non-ghost assignment reads them.

  Not modelled (assumptions of C18): the scan deadline never expires (`cli_semaphore_wait` returns only
  after acquiring a token; `sem_timedwait` is not interrupted), `_tcsdup` does not return NULL.
-/
namespace YaraModel.Queue

/-- The constants of the protocol as they appear at their use sites in cli/yara.c. -/
structure Cfg where
  /-- length of `file_queue[]` (C: `MAX_QUEUED_FILES + 1`) -/
  slots : Nat
  /-- modulus in `file_queue_put` -/
  putMod : Nat
  /-- modulus in `file_queue_get` -/
  getMod : Nat
  /-- initial value of `unused_slots` -/
  unusedInit : Nat
  /-- initial value of `used_slots` -/
  usedInit : Nat
  /-- number of `cli_semaphore_release(&used_slots)` in `file_queue_finish` -/
  finishPosts : Nat
  /-- `main` refuses `threads > threadLimit` -/
  threadLimit : Nat
  deriving Repr, DecidableEq

/-- What the theorems need from the constants (checked for the generated instance by `decide`). -/
structure Cfg.WF (c : Cfg) : Prop where
  putMod_eq : c.putMod = c.slots
  getMod_eq : c.getMod = c.slots
  cap_pos : 1 ≤ c.unusedInit
  cap_lt : c.unusedInit < c.slots
  used0 : c.usedInit = 0
  limit_le : c.threadLimit ≤ c.finishPosts

instance (c : Cfg) : Decidable c.WF :=
  if h : c.putMod = c.slots ∧ c.getMod = c.slots ∧ 1 ≤ c.unusedInit ∧ c.unusedInit < c.slots ∧ c.usedInit = 0
      ∧ c.threadLimit ≤ c.finishPosts
  then isTrue ⟨h.1, h.2.1, h.2.2.1, h.2.2.2.1, h.2.2.2.2.1, h.2.2.2.2.2⟩
  else isFalse fun w => h ⟨w.1, w.2, w.3, w.4, w.5, w.6⟩

inductive Tid where
  | prod
  | cons (i : Nat)
  deriving DecidableEq, Repr

/-- Program counter of the producer (main thread: `scan_dir` → `file_queue_put`*, `file_queue_finish`). -/
inductive PPc (α : Type) where
  | idle                    -- between two calls (next: put of the head of `todo`, or finish)
  | wantLock (x : α)        -- inside put(x): has an unused-slot token
  | locked (x : α)          -- holds queue_mutex
  | wrote (x : α)           -- slot written
  | advanced                -- tail advanced (still holds the mutex)
  | unlocked                -- mutex released, before sem_post(used_slots)
  | finishing (k : Nat)     -- inside finish: k posts still to do
  | done
  deriving DecidableEq, Repr

/-- Program counter of a consumer (`scanning_thread` → `file_queue_get`). -/
inductive CPc (α : Type) where
  | idle                         -- about to call file_queue_get
  | wantLock                     -- has a used-slot token
  | locked                       -- holds queue_mutex, before the emptiness test
  | reading                      -- non-empty branch, before the read
  | haveRead (r : Option α)      -- result = file_queue[queue_head].path
  | advanced (r : Option α)      -- head advanced (r ≠ NULL branch) or result = NULL; holds the mutex
  | unlocked (r : Option α)      -- mutex released, before sem_post(unused_slots)
  | returned (r : Option α)      -- file_queue_get returned r
  | exited                       -- left the while loop
  deriving DecidableEq, Repr

structure State (α : Type) where
  ring : Nat → Option α          -- file_queue[i].path (none = NULL / never written)
  head : Nat
  tail : Nat
  used : Nat                     -- used_slots
  unused : Nat                   -- unused_slots
  lock : Option Tid              -- holder of queue_mutex
  ppc : PPc α
  todo : List α                  -- paths the walker has not yet passed to put
  cs : List (CPc α)
  delivered : List α             -- files scanned so far (order of completion)
  q : List α                     -- ghost: abstract FIFO content
  put : List α                   -- ghost: paths enqueued so far
  taken : List α                 -- ghost: paths dequeued so far

inductive Act where
  | pWait | pLock | pWrite | pAdvTail | pUnlock | pPost | pFinishBegin | pFinishPost | pFinishEnd
  | cWait (i : Nat) | cLock (i : Nat) | cTest (i : Nat) | cRead (i : Nat) | cAdvHead (i : Nat)
  | cUnlock (i : Nat) | cPost (i : Nat) | cReturn (i : Nat)
  deriving DecidableEq, Repr

def Act.tid : Act → Tid
  | .cWait i | .cLock i | .cTest i | .cRead i | .cAdvHead i | .cUnlock i | .cPost i | .cReturn i => .cons i
  | _ => .prod

def updRing {α : Type} (r : Nat → Option α) (i : Nat) (x : α) : Nat → Option α :=
  fun j => if j = i then some x else r j

def init {α : Type} (c : Cfg) (n : Nat) (input : List α) : State α :=
  { ring := fun _ => none, head := 0, tail := 0, used := c.usedInit, unused := c.unusedInit, lock := none,
    ppc := .idle, todo := input, cs := List.replicate n .idle, delivered := [], q := [], put := [], taken := [] }

/-- One atomic action; `none` = not enabled (wrong pc, semaphore is 0, mutex is held). -/
def step {α : Type} (c : Cfg) (s : State α) : Act → Option (State α)
  | .pWait =>
    match s.ppc, s.todo with
    | .idle, x :: rest =>
      if 0 < s.unused then some { s with unused := s.unused - 1, ppc := .wantLock x, todo := rest } else none
    | _, _ => none
  | .pLock =>
    match s.ppc, s.lock with
    | .wantLock x, none => some { s with lock := some .prod, ppc := .locked x }
    | _, _ => none
  | .pWrite =>
    match s.ppc with
    | .locked x => some { s with ring := updRing s.ring s.tail x, ppc := .wrote x }
    | _ => none
  | .pAdvTail =>
    match s.ppc with
    | .wrote x => some { s with tail := (s.tail + 1) % c.putMod, ppc := .advanced, q := s.q ++ [x], put := s.put ++ [x] }
    | _ => none
  | .pUnlock =>
    match s.ppc with
    | .advanced => some { s with lock := none, ppc := .unlocked }
    | _ => none
  | .pPost =>
    match s.ppc with
    | .unlocked => some { s with used := s.used + 1, ppc := .idle }
    | _ => none
  | .pFinishBegin =>
    match s.ppc, s.todo with
    | .idle, [] => some { s with ppc := .finishing c.finishPosts }
    | _, _ => none
  | .pFinishPost =>
    match s.ppc with
    | .finishing (k + 1) => some { s with used := s.used + 1, ppc := .finishing k }
    | _ => none
  | .pFinishEnd =>
    match s.ppc with
    | .finishing 0 => some { s with ppc := .done }
    | _ => none
  | .cWait i =>
    match s.cs[i]? with
    | some .idle => if 0 < s.used then some { s with used := s.used - 1, cs := s.cs.set i .wantLock } else none
    | _ => none
  | .cLock i =>
    match s.cs[i]?, s.lock with
    | some .wantLock, none => some { s with lock := some (.cons i), cs := s.cs.set i .locked }
    | _, _ => none
  | .cTest i =>
    match s.cs[i]? with
    | some .locked =>
      if s.head = s.tail then some { s with cs := s.cs.set i (.advanced none) }
      else some { s with cs := s.cs.set i .reading }
    | _ => none
  | .cRead i =>
    match s.cs[i]? with
    | some .reading => some { s with cs := s.cs.set i (.haveRead (s.ring s.head)) }
    | _ => none
  | .cAdvHead i =>
    match s.cs[i]? with
    | some (.haveRead r) =>
      some { s with head := (s.head + 1) % c.getMod, cs := s.cs.set i (.advanced r),
                    q := s.q.drop 1, taken := s.taken ++ s.q.take 1 }
    | _ => none
  | .cUnlock i =>
    match s.cs[i]? with
    | some (.advanced r) => some { s with lock := none, cs := s.cs.set i (.unlocked r) }
    | _ => none
  | .cPost i =>
    match s.cs[i]? with
    | some (.unlocked r) => some { s with unused := s.unused + 1, cs := s.cs.set i (.returned r) }
    | _ => none
  | .cReturn i =>
    match s.cs[i]? with
    | some (.returned (some x)) => some { s with delivered := s.delivered ++ [x], cs := s.cs.set i .idle }
    | some (.returned none) => some { s with cs := s.cs.set i .exited }
    | _ => none

/-- The interleaving semantics: any thread may do its next atomic action. -/
def Step {α : Type} (c : Cfg) (s s' : State α) : Prop := ∃ a, step c s a = some s'

inductive Reachable {α : Type} (c : Cfg) (n : Nat) (input : List α) : State α → Prop where
  | init : Reachable c n input (init c n input)
  | step {s s' : State α} : Reachable c n input s → Step c s s' → Reachable c n input s'

/-- Some thread can move. -/
def Enabled {α : Type} (c : Cfg) (s : State α) : Prop := ∃ a s', step c s a = some s'

/-- `main` has returned from `file_queue_finish` and every `scanning_thread` has left its loop (joinable). -/
def Final {α : Type} (s : State α) : Prop := s.ppc = .done ∧ ∀ pc ∈ s.cs, pc = CPc.exited

/-- Number of elements of the queue as the C code sees it. -/
def size {α : Type} (c : Cfg) (s : State α) : Nat := (s.tail + c.slots - s.head) % c.slots

/-- Run a schedule (used by the driver and by the examples). -/
def runActs {α : Type} (c : Cfg) (s : State α) : List Act → Option (State α)
  | [] => some s
  | a :: as => match step c s a with
    | some s' => runActs c s' as
    | none => none

end YaraModel.Queue
