/-
  C18 — the locking discipline of the output of cli/yara.c.

  What a scanning thread prints is a sequence of *items*:
    `block cs` : `cli_mutex_lock(&output_mutex)`, one `_tprintf` per chunk of `cs`, `cli_mutex_unlock(&output_mutex)`
                 (handle_message: rule line + matched strings; the `-c` line; CALLBACK_MSG_MODULE_IMPORTED (-D); the
                 "error scanning …" line on stderr),
    `loose c`  : one `_tprintf` with the mutex NOT held (callback(): CALLBACK_MSG_CONSOLE_LOG).
  One `printf` call is atomic (stdio locks the FILE), so the stream is a list of chunks; every chunk is tagged
  with its thread and, inside a block, with the number of that block.
-/
namespace YaraModel.CliOut

inductive Item (χ : Type) where
  | block (chunks : List χ)
  | loose (chunk : χ)

structure Th (χ : Type) where
  /-- `some (k, rest)`: holds output_mutex, is printing its block number `k`, `rest` still to print -/
  inside : Option (Nat × List χ)
  /-- number of blocks started so far -/
  next : Nat
  prog : List (Item χ)

structure Entry (χ : Type) where
  tid : Nat
  blk : Option Nat
  chunk : χ

structure St (χ : Type) where
  lock : Option Nat
  ths : List (Th χ)
  out : List (Entry χ)

inductive Act where
  | lock (i : Nat) | print (i : Nat) | unlock (i : Nat) | loose (i : Nat)

def step {χ : Type} (s : St χ) : Act → Option (St χ)
  | .lock i =>
    match s.ths[i]?, s.lock with
    | some ⟨none, k, .block cs :: rest⟩, none =>
      some { s with lock := some i, ths := s.ths.set i ⟨some (k, cs), k + 1, rest⟩ }
    | _, _ => none
  | .print i =>
    match s.ths[i]? with
    | some ⟨some (k, ch :: r), n, p⟩ =>
      some { s with out := s.out ++ [⟨i, some k, ch⟩], ths := s.ths.set i ⟨some (k, r), n, p⟩ }
    | _ => none
  | .unlock i =>
    match s.ths[i]? with
    | some ⟨some (_, []), n, p⟩ => some { s with lock := none, ths := s.ths.set i ⟨none, n, p⟩ }
    | _ => none
  | .loose i =>
    match s.ths[i]? with
    | some ⟨none, n, .loose ch :: rest⟩ =>
      some { s with out := s.out ++ [⟨i, none, ch⟩], ths := s.ths.set i ⟨none, n, rest⟩ }
    | _ => none

def init {χ : Type} (progs : List (List (Item χ))) : St χ :=
  { lock := none, ths := progs.map fun p => ⟨none, 0, p⟩, out := [] }

inductive Reachable {χ : Type} (progs : List (List (Item χ))) : St χ → Prop where
  | init : Reachable progs (init progs)
  | step {s s' : St χ} (a : Act) : Reachable progs s → step s a = some s' → Reachable progs s'

/-- chunk `e` belongs to block `k` of thread `i` -/
def tagIs {χ : Type} (i k : Nat) (e : Entry χ) : Prop := e.tid = i ∧ e.blk = some k

/-- the chunks of block `k` of thread `i` are adjacent in the stream -/
def Contig {χ : Type} (i k : Nat) (out : List (Entry χ)) : Prop :=
  ∃ l1 seg l2, out = l1 ++ seg ++ l2 ∧ (∀ e ∈ seg, tagIs i k e) ∧ (∀ e ∈ l1, ¬ tagIs i k e) ∧ (∀ e ∈ l2, ¬ tagIs i k e)

/-- no print outside the mutex -/
def NoLoose {χ : Type} (progs : List (List (Item χ))) : Prop := ∀ p ∈ progs, ∀ it ∈ p, ∃ cs, it = Item.block cs

end YaraModel.CliOut
