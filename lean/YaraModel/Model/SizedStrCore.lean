/- Vocabulary of the sizedstr.c model (Gen/SizedStr.lean is regenerated from libyara/sizedstr.c by translators/sizedstr.py
   in terms of these definitions).  A SIZED_STRING is its byte list; `c_string[length]` is the terminating NUL. -/
namespace YaraModel.SizedStr

abbrev Bytes := List UInt8

/-- `s->c_string[i]` read as a C `char`: SIGNED on the reference platform (x86-64 System V) -/
def sc (s : Bytes) (i : Nat) : Int :=
  let b := (s.getD i 0).toNat
  if b ≥ 128 then (b : Int) - 256 else (b : Int)

/-- `(uint8_t) s->c_string[i]` -/
def uc (s : Bytes) (i : Nat) : Int := ((s.getD i 0).toNat : Int)

/-- `yr_lowercase[x]`: the table yr_initialize fills with tolower(x) (C locale) -/
def lowerTab (x : Int) : Int := if 65 ≤ x ∧ x ≤ 90 then x + 32 else x

/-- `while (cond x) x++;` — the first index from `i` on where `cond` fails (`fuel` bounds the number of steps) -/
def scan (cond : Nat → Bool) : Nat → Nat → Nat
  | 0, i => i
  | fuel + 1, i => if cond i then scan cond fuel (i + 1) else i

/-- `for (x = i; x < hi; x++) body` where the body may `return r` (= `some r`) -/
def forRet {α : Type} (hi : Nat) (body : Nat → Option α) : Nat → Nat → Option α
  | 0, _ => none
  | fuel + 1, i =>
    if i < hi then
      match body i with
      | some r => some r
      | none => forRet hi body fuel (i + 1)
    else none

/-- libc `memmem(h, |h|, n, |n|) != NULL` (POSIX: the needle occurs in the haystack; an empty needle occurs at the start) -/
def memmemFound : Bytes → Bytes → Bool
  | [], n => n.isEmpty
  | h :: hs, n => n.isPrefixOf (h :: hs) || memmemFound hs n

end YaraModel.SizedStr
