/-
  C01 — executable model of the text-string pipeline (core Lean only):
    atoms.c  yr_atoms_extract_from_string / _yr_atoms_wide / _yr_atoms_case_insensitive / _yr_atoms_xor
    scan.c   _yr_scan_verify_literal_match (+ the compare functions) and the fullword test of
             _yr_scan_match_callback, _yr_scan_add_match_to_list
  The 4-byte window the quality heuristic selects is a PARAMETER `w` (any valid start), so every
  theorem holds for every atom-quality table.
-/
import YaraModel.Spec.Text
namespace YaraModel.Text

structure Atom where
  bytes : Bytes
  backtrack : Nat
deriving DecidableEq, Repr

def isLetter (c : UInt8) : Bool := (97 ≤ c && c ≤ 122) || (65 ≤ c && c ≤ 90)
def swapCase (c : UInt8) : UInt8 :=
  if 97 ≤ c ∧ c ≤ 122 then c - 32 else if 65 ≤ c ∧ c ≤ 90 then c + 32 else c

/-- `_yr_atoms_case_combinations` together with the original atom: every case variant -/
def caseCombos : Bytes → List Bytes
  | [] => [[]]
  | c :: t =>
    let r := caseCombos t
    if isLetter c then r.map (c :: ·) ++ r.map (swapCase c :: ·) else r.map (c :: ·)

/-- the atom `yr_atoms_extract_from_string` builds when the heuristic picks window start `w` -/
def baseAtom (w : Nat) (s : Bytes) : Atom := ⟨(s.drop w).take 4, w⟩

/-- `_yr_atoms_wide`: interleave zeroes, keep at most 4 bytes, double the backtrack -/
def wideOf (a : Atom) : Atom := ⟨(widen a.bytes).take 4, 2 * a.backtrack⟩

def keys (lo hi : UInt8) : List UInt8 :=
  (List.range 256).filterMap fun n =>
    let k := UInt8.ofNat n
    if lo ≤ k && k ≤ hi then some k else none

def atomsOf (w : Nat) (m : Mods) (s : Bytes) : List Atom :=
  let base := baseAtom w s
  let l0 := if m.wide then (if m.ascii then [base, wideOf base] else [wideOf base]) else [base]
  let l1 := if m.nocase then l0.flatMap (fun a => (caseCombos a.bytes).map (⟨·, a.backtrack⟩)) else l0
  match m.xor with
  | none => l1
  | some (lo, hi) => l1.flatMap fun a => (keys lo hi).map fun k => ⟨a.bytes.map (· ^^^ k), a.backtrack⟩

/-- a window start the extraction loop can produce -/
def ValidWindow (w : Nat) (s : Bytes) : Prop := w + min 4 s.length ≤ s.length

/-- the atom occurs in the buffer where the automaton would report it for an occurrence at `o` -/
def atomAt (a : Atom) (buf : Bytes) (o : Nat) : Prop :=
  window buf (o + a.backtrack) a.bytes.length = some a.bytes

end YaraModel.Text

namespace YaraModel.Text

structure Match where
  off : Nat
  len : Nat
  key : UInt8
deriving DecidableEq, Repr

/-! ### Verification of a candidate — `_yr_scan_verify_literal_match` -/

/-- `STRING_FLAGS_FITS_IN_ATOM` (parser.c): the whole encoded string is the atom -/
def fitsInAtom (m : Mods) (s : Bytes) : Bool :=
  if m.wide then 2 * s.length ≤ 4 else s.length ≤ 4

/-- return value of `_yr_scan_compare` / `_icompare` / `_wcompare` / `_wicompare`: matched length or 0 -/
def cmpLen (nocase : Bool) (pat buf : Bytes) (o : Nat) : Nat :=
  if occursAt nocase pat buf o then pat.length else 0

/-- `_yr_scan_xor_compare` / `_xor_wcompare`: (matched length, key); the key comes from the first byte,
    the declared range is NOT consulted (the compiled string does not carry it) -/
def xorCmp (pat buf : Bytes) (o : Nat) : Nat × UInt8 :=
  match xorKeyAt pat buf o with
  | some k => (pat.length, k)
  | none => (0, 0)

/-- (forward_matches, xor_key) computed by `_yr_scan_verify_literal_match` for a candidate at `o`
    raised by an automaton match whose `backtrack` (= length of the atom for FITS_IN_ATOM strings) is `bt` -/
def forwardMatches (m : Mods) (s : Bytes) (bt : Nat) (buf : Bytes) (o : Nat) : Nat × UInt8 :=
  if fitsInAtom m s then
    if m.xor.isSome then
      let k1 := if m.wide then (let r := xorCmp (widen s) buf o; if r.1 > 0 then r.2 else 0) else 0
      let k2 := if m.ascii then (let r := xorCmp s buf o; if r.1 > 0 then r.2 else k1) else k1
      (bt, k2)
    else (bt, 0)
  else if m.nocase then
    let f1 := if m.ascii then cmpLen true s buf o else 0
    let f2 := if m.wide && f1 == 0 then cmpLen true (widen s) buf o else f1
    (f2, 0)
  else
    let f1 := if m.ascii then cmpLen false s buf o else 0
    let f2 := if m.wide && f1 == 0 then cmpLen false (widen s) buf o else f1
    if m.xor.isSome && f2 == 0 then
      let r1 := if m.wide then xorCmp (widen s) buf o else (0, 0)
      if m.ascii && r1.1 == 0 then xorCmp s buf o else r1
    else (f2, 0)

/-- the match (if any) handed to the match list for a candidate: verification + `fullword` test of
    `_yr_scan_match_callback` (`RE_FLAGS_WIDE` is set iff forward_matches = 2·|s|) -/
def verifyCandidate (m : Mods) (s : Bytes) (bt : Nat) (buf : Bytes) (o : Nat) : Option Match :=
  let (fm, k) := forwardMatches m s bt buf o
  if fm == 0 then none
  else if o + fm > buf.length then none            -- cannot happen for genuine candidates (the C code asserts it)
  else if m.fullword && !fullwordOK buf o fm (fm == 2 * s.length) then none
  else some ⟨o, fm, k⟩

/-! ### `_yr_scan_add_match_to_list` (replace_if_exists = false for text strings) -/

/-- insert keeping ascending offsets; an existing entry at the same offset wins.
    The C code walks from the tail; the resulting list is the same. -/
def insertMatch (x : Match) : List Match → List Match
  | [] => [x]
  | y :: t =>
    if x.off < y.off then x :: y :: t
    else if x.off == y.off then y :: t
    else y :: insertMatch x t

/-- the whole per-string pipeline over the candidates (offset, backtrack) in arrival order -/
def pipeline (m : Mods) (s buf : Bytes) (cands : List (Nat × Nat)) : List Match :=
  cands.foldl (fun acc c =>
    match verifyCandidate m s c.2 buf c.1 with
    | some x => insertMatch x acc
    | none => acc) []

end YaraModel.Text
