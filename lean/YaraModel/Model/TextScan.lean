/-
  C01 — executable model of the text-string pipeline (core Lean only):
    atoms.c  yr_atoms_extract_from_string / _yr_atoms_wide / _yr_atoms_case_insensitive / _yr_atoms_xor
    scan.c   _yr_scan_verify_literal_match (+ the compare functions) and the fullword test of
             _yr_scan_match_callback, _yr_scan_add_match_to_list
  The 4-byte window the quality heuristic selects is a PARAMETER `w` (any valid start), so every
  theorem holds for every atom-quality table.
-/
import YaraModel.Spec.Text
namespace YaraModel.Text

structure Atom where
  bytes : Bytes
  backtrack : Nat
deriving DecidableEq, Repr

def isLetter (c : UInt8) : Bool := (97 ≤ c && c ≤ 122) || (65 ≤ c && c ≤ 90)
def swapCase (c : UInt8) : UInt8 :=
  if 97 ≤ c ∧ c ≤ 122 then c - 32 else if 65 ≤ c ∧ c ≤ 90 then c + 32 else c

/-- `_yr_atoms_case_combinations` together with the original atom: every case variant -/
def caseCombos : Bytes → List Bytes
  | [] => [[]]
  | c :: t =>
    let r := caseCombos t
    if isLetter c then r.map (c :: ·) ++ r.map (swapCase c :: ·) else r.map (c :: ·)

/-- the atom `yr_atoms_extract_from_string` builds when the heuristic picks window start `w` -/
def baseAtom (w : Nat) (s : Bytes) : Atom := ⟨(s.drop w).take 4, w⟩

/-- `_yr_atoms_wide`: interleave zeroes, keep at most 4 bytes, double the backtrack -/
def wideOf (a : Atom) : Atom := ⟨(widen a.bytes).take 4, 2 * a.backtrack⟩

def keys (lo hi : UInt8) : List UInt8 :=
  (List.range 256).filterMap fun n =>
    let k := UInt8.ofNat n
    if lo ≤ k && k ≤ hi then some k else none

def atomsOf (w : Nat) (m : Mods) (s : Bytes) : List Atom :=
  let base := baseAtom w s
  let l0 := if m.wide then (if m.ascii then [base, wideOf base] else [wideOf base]) else [base]
  let l1 := if m.nocase then l0.flatMap (fun a => (caseCombos a.bytes).map (⟨·, a.backtrack⟩)) else l0
  match m.xor with
  | none => l1
  | some (lo, hi) => l1.flatMap fun a => (keys lo hi).map fun k => ⟨a.bytes.map (· ^^^ k), a.backtrack⟩

/-- a window start the extraction loop can produce -/
def ValidWindow (w : Nat) (s : Bytes) : Prop := w + min 4 s.length ≤ s.length

/-- the atom occurs in the buffer where the automaton would report it for an occurrence at `o` -/
def atomAt (a : Atom) (buf : Bytes) (o : Nat) : Prop :=
  window buf (o + a.backtrack) a.bytes.length = some a.bytes

end YaraModel.Text
