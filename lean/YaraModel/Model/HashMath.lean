/-
  C14 model — executable mirror of libyara/modules/hash/hash.c, modules/math/math.c,
  modules/string/string.c (yara 4.5.2).  Core Lean only.  The model FOLLOWS THE CODE
  (block walking loop, per-block loops, table-driven CRC, digest cache, histogram based
  statistics, strtoll); the mathematical definitions it is proved equal to are in
  Spec/HashMath.lean, the proofs in Lemmas/HashMath*.lean, the property theorems in Thm/C14.lean.

  Integers: module arguments are int64 in C; the model uses `Int` and stays inside the range
  where no C operation wraps (the check drives `offset + length ≥ 2^63` and `abs(INT64_MIN)`
  separately: those are undefined behaviour in C).
  Bytes → number conversion is a parameter `conv : UInt8 → Int` of the string statistics:
  `unsignedConv` is what math.c does since fix 3e6ded9 (`(uint8_t)` casts; bytes are 0..255);
  `signedConv` / `sextConv` are kept as frozen regression definitions of the former signed `char`.
-/
import YaraModel.Gen.Crc32Tab
namespace YaraModel.HM

abbrev Bytes := List UInt8

/-- One memory block handed out by the iterator: `base` address and its bytes. -/
structure Block where
  base : Nat
  data : Bytes
deriving Repr

def Block.size (b : Block) : Nat := b.data.length

/-! ## The range walk shared by hash.c (5 copies) and math.c (3 copies), as of fix d04bbf9

```
foreach_memory_block(iterator, block) {
  if (offset >= block->base && offset < block->base + block->size) {
    data_offset = offset - block->base;  data_len = min(length, block->size - data_offset);
    offset += data_len;  length -= data_len;   <consume block_data[data_offset .. +data_len)>
    past_first_block = true;
  } else if (past_first_block) return UNDEFINED;
  if (past_first_block && block->base + block->size >= (uint64_t) offset + (uint64_t) length) break;
}
if (!past_first_block) return UNDEFINED;
```
The loop is left only after a block has been entered; the sum is computed in uint64 (no wrap for
non-negative int64 operands, see `breakTest_no_wrap` in Thm/C14.lean), so the model uses `Nat`. -/

/-- `data_len = min(length, block->size - data_offset)` -/
def Block.dlen (b : Block) (off len : Nat) : Nat := min len (b.size - (off - b.base))

/-- The bytes consumed from block `b` for the current `(off, len)`. -/
def Block.chunk (b : Block) (off len : Nat) : Bytes :=
  (b.data.drop (off - b.base)).take (b.dlen off len)

/-- The loop. Result: the list of consumed chunks, one per visited block (`none` = undefined).
    `off + dlen`, `len - dlen` are the updated `offset`, `length`. -/
def walkLoop : List Block → Nat → Nat → Bool → Option (List Bytes)
  | [], _, _, past => if past then some [] else none
  | b :: bs, off, len, past =>
    if b.base ≤ off ∧ off < b.base + b.size then
      if b.base + b.size ≥ (off + b.dlen off len) + (len - b.dlen off len) then some [b.chunk off len]
      else (walkLoop bs (off + b.dlen off len) (len - b.dlen off len) true).map (b.chunk off len :: ·)
    else if past then none
    else walkLoop bs off len false

/-- The break test on the machine types: `block->base + block->size >= (uint64_t) offset + (uint64_t) length`
    (`base` uint64_t, `size` size_t, `offset`/`length` int64_t reinterpreted as uint64_t). -/
def breakTestU64 (base size off len : BitVec 64) : Bool := (off + len).ule (base + size)

/-- FROZEN regression definition: the loop before fix d04bbf9 (the break test was evaluated also
    before any block had been entered; `offset + length` was an int64 addition). -/
def walkLoopV0 : List Block → Nat → Nat → Bool → Option (List Bytes)
  | [], _, _, past => if past then some [] else none
  | b :: bs, off, len, past =>
    if b.base ≤ off ∧ off < b.base + b.size then
      if b.base + b.size ≥ (off + b.dlen off len) + (len - b.dlen off len) then some [b.chunk off len]
      else (walkLoopV0 bs (off + b.dlen off len) (len - b.dlen off len) true).map (b.chunk off len :: ·)
    else if past then none
    else if b.base + b.size ≥ off + len then none
    else walkLoopV0 bs off len false

/-- Argument validation in front of the loop: `block == NULL`, `offset < 0 || length < 0 ||
    offset < block->base` (first block). -/
def argsOk (blocks : List Block) (off len : Int) : Bool :=
  match blocks with
  | [] => false
  | b0 :: _ => !(off < 0 || len < 0 || off < (b0.base : Int))

/-- Chunks consumed by a call with arguments `(off, len)`. -/
def chunksWalk (blocks : List Block) (off len : Int) : Option (List Bytes) :=
  if argsOk blocks off len then walkLoop blocks off.toNat len.toNat false else none

/-- The addressed bytes (concatenation of the chunks). -/
def rangeWalk (blocks : List Block) (off len : Int) : Option Bytes :=
  (chunksWalk blocks off len).map List.flatten

/-! ## crc32 and checksum32 (hash.c) -/

/-- `crc32_tab[(checksum ^ byte) & 0xFF] ^ (checksum >> 8)` -/
def crcTabStep (c : UInt32) (b : UInt8) : UInt32 :=
  Gen.crc32Tab[((c ^^^ b.toUInt32) &&& 0xFF).toNat]! ^^^ (c >>> 8)

/-- string_crc32: one loop over the string. -/
def tableCrc (bs : Bytes) : UInt32 := (bs.foldl crcTabStep 0xFFFFFFFF) ^^^ 0xFFFFFFFF

/-- data_crc32: the running checksum is carried from block to block. -/
def tableCrcChunks (chunks : List Bytes) : UInt32 :=
  (chunks.foldl (fun c ch => ch.foldl crcTabStep c) 0xFFFFFFFF) ^^^ 0xFFFFFFFF

/-- `checksum += byte` on a uint32_t. -/
def ckStep (c : UInt32) (b : UInt8) : UInt32 := c + b.toUInt32

def checksum32 (bs : Bytes) : UInt32 := bs.foldl ckStep 0

def checksum32Chunks (chunks : List Bytes) : UInt32 :=
  chunks.foldl (fun c ch => ch.foldl ckStep c) 0

/-! ## Digests and their per-scan cache (hash.c get_from_cache / add_to_cache)

The digest primitives are a parameter `H : Alg → Bytes → D` (trusted: OpenSSL; the check
compares against Python hashlib).  The yara hash table compares the complete key
(namespace string, 16 key bytes = offset and length) and prepends new entries to the bucket
chain, so a lookup returns the most recently added entry with an equal key: an association
list, newest first. -/

inductive Alg | md5 | sha1 | sha256
deriving DecidableEq, Repr

def Alg.ns : Alg → String
  | .md5 => "md5" | .sha1 => "sha1" | .sha256 => "sha256"

structure Entry (D : Type) where
  ns : String
  off : Int
  len : Int
  digest : D

abbrev Cache (D : Type) := List (Entry D)

def Cache.lookup {D : Type} (c : Cache D) (ns : String) (off len : Int) : Option D :=
  (c.find? (fun e => e.ns == ns && e.off == off && e.len == len)).map (·.digest)

def Cache.add {D : Type} (c : Cache D) (ns : String) (off len : Int) (d : D) : Cache D :=
  ⟨ns, off, len, d⟩ :: c

/-- data_md5 / data_sha1 / data_sha256: validation, cache lookup, walk, cache fill. -/
def dataDigest {D : Type} (H : Alg → Bytes → D) (blocks : List Block) (c : Cache D) (a : Alg)
    (off len : Int) : Cache D × Option D :=
  if argsOk blocks off len then
    match c.lookup a.ns off len with
    | some d => (c, some d)
    | none =>
      match walkLoop blocks off.toNat len.toNat false with
      | none => (c, none)
      | some chunks => let d := H a chunks.flatten; (c.add a.ns off len d, some d)
  else (c, none)

/-- A sequence of digest calls inside one scan (one cache, fixed memory). -/
def runDigests {D : Type} (H : Alg → Bytes → D) (blocks : List Block) :
    Cache D → List (Alg × Int × Int) → List (Option D)
  | _, [] => []
  | c, (a, off, len) :: rest =>
    let r := dataDigest H blocks c a off len
    r.2 :: runDigests H blocks r.1 rest

/-! ## math.c — histogram (get_distribution) -/

/-- `data[c]++` -/
def histStep (h : Nat → Nat) (c : UInt8) : Nat → Nat :=
  fun i => if i = c.toNat then h i + 1 else h i

def histZero : Nat → Nat := fun _ => 0

/-- The distribution of a string argument (one loop). -/
def histOf (bs : Bytes) : Nat → Nat := bs.foldl histStep histZero

/-- get_distribution: the counters are carried from block to block. -/
def histChunks (chunks : List Bytes) : Nat → Nat :=
  chunks.foldl (fun h ch => ch.foldl histStep h) histZero

/-- `for (i = 0; i < 256; i++) acc += f i` -/
def sum256 (f : Nat → Rat) : Rat := (List.range 256).foldl (fun s i => s + f i) 0

def total256 (h : Nat → Nat) : Nat := (List.range 256).foldl (fun s i => s + h i) 0

/-- Result of a float function: `none` is NaN = undefined. `x / 0` with `x = 0` is NaN in C;
    all divisions below have a zero numerator when the divisor is zero. -/
def divOrUndef (num : Rat) (den : Nat) : Option Rat :=
  if den = 0 then none else some (num / (den : Rat))

def absRat (q : Rat) : Rat := if q < 0 then -q else q

/-- data_mean over the histogram. -/
def meanHist (h : Nat → Nat) : Option Rat :=
  divOrUndef (sum256 fun i => (i : Rat) * (h i : Rat)) (total256 h)

/-- data_deviation over the histogram. -/
def deviationHist (h : Nat → Nat) (mean : Rat) : Option Rat :=
  divOrUndef (sum256 fun i => absRat ((i : Rat) - mean) * (h i : Rat)) (total256 h)

/-- math.count(byte, …): `byte < 0 || byte > 255` is undefined. -/
def countHist (h : Nat → Nat) (byte : Int) : Option Int :=
  if byte < 0 ∨ byte > 255 then none else some (h byte.toNat : Int)

/-- math.percentage(byte, …) (single precision division in C). -/
def percentageHist (h : Nat → Nat) (byte : Int) : Option Rat :=
  if byte < 0 ∨ byte > 255 then none else divOrUndef (h byte.toNat : Rat) (total256 h)

/-- math.mode: `if (distribution[i] > distribution[most_common]) most_common = i`. -/
def modeHist (h : Nat → Nat) : Nat :=
  (List.range 256).foldl (fun best i => if h i > h best then i else best) 0

/-- get_distribution_global: every block must start where the previous one ended, the first at 0. -/
def globalWalk : List Block → Nat → Option (List Bytes)
  | [], _ => some []
  | b :: bs, expected =>
    if expected ≠ b.base then none else (globalWalk bs (b.base + b.size)).map (b.data :: ·)

/-! ## math.c — string statistics computed directly over the characters -/

def unsignedConv (b : UInt8) : Int := b.toNat

/-- `(double) s->c_string[i]` with a signed `char`. -/
def signedConv (b : UInt8) : Int := if b.toNat ≥ 128 then (b.toNat : Int) - 256 else b.toNat

/-- `(unsigned int) s->c_string[i]` with a signed `char`: sign extension to 32 bits. -/
def sextConv (b : UInt8) : Int := if b.toNat ≥ 128 then (b.toNat : Int) + (4294967296 - 256) else b.toNat

/-- string_mean -/
def meanStr (conv : UInt8 → Int) (bs : Bytes) : Option Rat :=
  divOrUndef (bs.foldl (fun s b => s + (conv b : Rat)) 0) bs.length

/-- string_deviation -/
def deviationStr (conv : UInt8 → Int) (bs : Bytes) (mean : Rat) : Option Rat :=
  divOrUndef (bs.foldl (fun s b => s + absRat ((conv b : Rat) - mean)) 0) bs.length

/-! ### serial correlation -/

structure Scc where
  last : Int := 0
  first : Int := 0
  t1 : Int := 0
  t2 : Int := 0
  t3 : Int := 0
  n : Nat := 0

/-- loop body without the `i == 0` test -/
def sccStep (conv : UInt8 → Int) (s : Scc) (b : UInt8) : Scc :=
  let un := conv b
  { s with t1 := s.t1 + s.last * un, t2 := s.t2 + un, t3 := s.t3 + un * un, last := un, n := s.n + 1 }

/-- One block of data_serial_correlation: `if (i == 0) sccfirst = sccun` is evaluated with the
    per-block index `i`, so every visited non-empty block overwrites `sccfirst`. -/
def sccChunk (conv : UInt8 → Int) (s : Scc) (chunk : Bytes) : Scc :=
  match chunk with
  | [] => s
  | b :: rest => rest.foldl (sccStep conv) (sccStep conv { s with first := conv b } b)

/-- The closing arithmetic (`scct1 += scclast*sccfirst; scct2 *= scct2; …`). -/
def sccFinish (s : Scc) : Rat :=
  if (s.n : Int) * s.t3 - s.t2 * s.t2 = 0 then -100000
  else (((s.n : Int) * (s.t1 + s.last * s.first) - s.t2 * s.t2 : Int) : Rat) /
       (((s.n : Int) * s.t3 - s.t2 * s.t2 : Int) : Rat)

/-- One block of data_serial_correlation as of fix 5e43bd9: `if (i == 0 && !past_first_block)
    sccfirst = sccun` — only the first visited block sets `sccfirst`. `past` is past_first_block
    on entry. -/
def sccBlock (s : Scc) (past : Bool) (chunk : Bytes) : Scc :=
  match chunk with
  | [] => s
  | b :: rest =>
    rest.foldl (sccStep unsignedConv)
      (sccStep unsignedConv (if past then s else { s with first := unsignedConv b }) b)

/-- data_serial_correlation over the consumed chunks (past_first_block is set after every visited block). -/
def sccChunks (chunks : List Bytes) : Rat :=
  sccFinish (chunks.foldl (fun (st : Scc × Bool) ch => (sccBlock st.1 st.2 ch, true)) ({}, false)).1

/-- FROZEN regression definition: before fix 5e43bd9 every visited block overwrote `sccfirst`. -/
def sccChunksV0 (chunks : List Bytes) : Rat :=
  sccFinish (chunks.foldl (sccChunk unsignedConv) {})

/-- string_serial_correlation (one loop, `s->c_string[0]` closes the cycle). -/
def sccStr (conv : UInt8 → Int) (bs : Bytes) : Rat := sccFinish (sccChunk conv {} bs)

/-! ### Monte Carlo pi -/

/-- INCIRC = (256^3 - 1)^2 -/
def incirc : Int := (16777216 - 1) * (16777216 - 1)

/-- `#define PI 3.141592653589793` -/
def piRat : Rat := (3141592653589793 : Rat) / (1000000000000000 : Rat)

/-- One block: the index `i % 6` restarts in every block; a group of 6 is evaluated when
    `i % 6 == 5`; returns (mcount, inmont) increments. -/
def mcChunk (conv : UInt8 → Int) : Bytes → Nat × Nat
  | a :: b :: c :: d :: e :: f :: rest =>
    let mx := ((conv a) * 256 + conv b) * 256 + conv c
    let my := ((conv d) * 256 + conv e) * 256 + conv f
    let r := mcChunk conv rest
    (r.1 + 1, r.2 + (if mx * mx + my * my ≤ incirc then 1 else 0))
  | _ => (0, 0)

def mcFinish (cnt inm : Nat) : Option Rat :=
  if cnt = 0 then none
  else some (absRat (((4 : Rat) * ((inm : Rat) / (cnt : Rat)) - piRat) / piRat))

/-- State of data_monte_carlo_pi as of fix 5e43bd9: the byte counter `k` and `monte[]` live
    across blocks; `pend` = the bytes stored since the last evaluated group (`monte[0 .. k%6)`). -/
structure Mc where
  pend : Bytes := []
  cnt : Nat := 0
  inm : Nat := 0

/-- `monte[k % 6] = byte; if (k % 6 == 5) { mcount++; … inmont++ }; k++` -/
def mcStep (s : Mc) (b : UInt8) : Mc :=
  if (s.pend ++ [b]).length = 6 then
    { pend := [], cnt := s.cnt + (mcChunk unsignedConv (s.pend ++ [b])).1,
      inm := s.inm + (mcChunk unsignedConv (s.pend ++ [b])).2 }
  else { s with pend := s.pend ++ [b] }

/-- data_monte_carlo_pi over the consumed chunks. -/
def mcChunks (chunks : List Bytes) : Option Rat :=
  let r := chunks.foldl (fun (s : Mc) ch => ch.foldl mcStep s) {}
  mcFinish r.cnt r.inm

/-- FROZEN regression definition: before fix 5e43bd9 the grouping restarted in every block. -/
def mcChunksV0 (chunks : List Bytes) : Option Rat :=
  let r := chunks.foldl (fun (acc : Nat × Nat) ch =>
    let x := mcChunk unsignedConv ch; (acc.1 + x.1, acc.2 + x.2)) (0, 0)
  mcFinish r.1 r.2

/-- string_monte_carlo_pi -/
def mcStr (conv : UInt8 → Int) (bs : Bytes) : Option Rat :=
  let r := mcChunk conv bs
  mcFinish r.1 r.2

/-! ## The range forms (what the module functions return; `none` = undefined) -/

def dataCrc32 (blocks : List Block) (off len : Int) : Option UInt32 :=
  (chunksWalk blocks off len).map tableCrcChunks

def dataChecksum32 (blocks : List Block) (off len : Int) : Option UInt32 :=
  (chunksWalk blocks off len).map checksum32Chunks

/-- get_distribution(offset, length, context) -/
def getDistribution (blocks : List Block) (off len : Int) : Option (Nat → Nat) :=
  (chunksWalk blocks off len).map histChunks

def dataMean (blocks : List Block) (off len : Int) : Option Rat :=
  (getDistribution blocks off len).bind meanHist

def dataDeviation (blocks : List Block) (off len : Int) (mean : Rat) : Option Rat :=
  (getDistribution blocks off len).bind (deviationHist · mean)

/-- count_range: the byte test comes first -/
def dataCount (blocks : List Block) (byte off len : Int) : Option Int :=
  if byte < 0 ∨ byte > 255 then none else (getDistribution blocks off len).bind (countHist · byte)

def dataPercentage (blocks : List Block) (byte off len : Int) : Option Rat :=
  if byte < 0 ∨ byte > 255 then none else (getDistribution blocks off len).bind (percentageHist · byte)

def dataMode (blocks : List Block) (off len : Int) : Option Nat :=
  (getDistribution blocks off len).map modeHist

def dataSerialCorrelation (blocks : List Block) (off len : Int) : Option Rat :=
  (chunksWalk blocks off len).map sccChunks

def dataMonteCarloPi (blocks : List Block) (off len : Int) : Option Rat :=
  (chunksWalk blocks off len).bind mcChunks

/-! ## math.c — scalar helpers -/

def two63 : Int := 9223372036854775808
def two64 : Int := 18446744073709551616

/-- int64 → uint64 conversion -/
def toU64 (i : Int) : Int := i % two64

/-- uint64 → int64 conversion (return_integer of a uint64_t) -/
def ofU64 (u : Int) : Int := if u ≥ two63 then u - two64 else u

/-- math.min: the arguments are stored in `uint64_t` variables. -/
def mathMin (i j : Int) : Int := ofU64 (if toU64 i < toU64 j then toU64 i else toU64 j)

def mathMax (i j : Int) : Int := ofU64 (if toU64 i > toU64 j then toU64 i else toU64 j)

/-- math.abs as of fix 3070536: `if (i == INT64_MIN) return undefined; return llabs(i)`. -/
def mathAbs (i : Int) : Option Int := if i = -two63 then none else some (if i < 0 then -i else i)

def mathToNumber (b : Bool) : Int := if b then 1 else 0

/-- math.in_range(test, lower, upper) -/
def mathInRange (t lo hi : Rat) : Int := if lo ≤ t ∧ t ≤ hi then 1 else 0

def digitsToString (base : Nat) (n : Nat) : String := String.ofList (Nat.toDigits base n)

/-- math.to_string(i): `%lld` -/
def mathToString (i : Int) : String :=
  if i < 0 then "-" ++ digitsToString 10 (-i).toNat else digitsToString 10 i.toNat

/-- math.to_string(i, base): `%lld`, `%llo`, `%llx` (the latter two print the uint64 image). -/
def mathToStringBase (i : Int) (base : Int) : Option String :=
  if base = 10 then some (mathToString i)
  else if base = 8 then some (digitsToString 8 (toU64 i).toNat)
  else if base = 16 then some (digitsToString 16 (toU64 i).toNat)
  else none

/-! ## string.c — to_int (strtoll, C locale) and length -/

def isSpace (c : UInt8) : Bool := c == 32 || (9 ≤ c && c ≤ 13)

def digitVal (c : UInt8) : Nat :=
  if 48 ≤ c ∧ c ≤ 57 then c.toNat - 48
  else if 97 ≤ c ∧ c ≤ 122 then c.toNat - 97 + 10
  else if 65 ≤ c ∧ c ≤ 90 then c.toNat - 65 + 10
  else 255

def isDigitIn (base : Nat) (c : UInt8) : Bool := digitVal c < base

def digitsValue (base : Nat) (ds : Bytes) : Nat := ds.foldl (fun a c => a * base + digitVal c) 0

/-- "0x"/"0X" followed by a hexadecimal digit -/
def hexPrefix : Bytes → Bool
  | 48 :: x :: d :: _ => (x == 120 || x == 88) && isDigitIn 16 d
  | _ => false

/-- optional sign -/
def splitSign : Bytes → Bool × Bytes
  | 45 :: t => (true, t)
  | 43 :: t => (false, t)
  | s => (false, s)

/-- base selection and prefix skipping (`base` is 0 or 2..36) -/
def selectBase (base : Nat) (s : Bytes) : Nat × Bytes :=
  if base = 0 then
    if hexPrefix s then (16, s.drop 2) else if s.head? = some 48 then (8, s) else (10, s)
  else if base = 16 ∧ hexPrefix s then (16, s.drop 2)
  else (base, s)

def applySign (neg : Bool) (v : Nat) : Int := if neg then -(v : Int) else v

/-- range test of strtoll (`errno = ERANGE`) -/
def inInt64 (r : Int) : Option Int := if r < -two63 ∨ r > two63 - 1 then none else some r

/-- the digit run, then string_to_int's tests: no digits (`endp == s`), trailing characters
    (`*endp != 0`), overflow (`errno`) -/
def parseDigits (neg : Bool) (base : Nat) (s : Bytes) : Option Int :=
  if (s.takeWhile (isDigitIn base)).isEmpty || !(s.dropWhile (isDigitIn base)).isEmpty then none
  else inInt64 (applySign neg (digitsValue base (s.takeWhile (isDigitIn base))))

/-- `strtoll(s, &endp, base)` followed by string_to_int's three tests.  `s` is cut at the first
    NUL (C string); leading white space is skipped; `base` is 0 or 2..36. -/
def strToInt (s : Bytes) (base : Nat) : Option Int :=
  let p := splitSign ((s.takeWhile (· != 0)).dropWhile isSpace)
  let q := selectBase base p.2
  parseDigits p.1 q.1 q.2

/-- string.to_int(s) -/
def stringToInt (s : Bytes) : Option Int := strToInt s 0

/-- string.to_int(s, base) -/
def stringToIntBase (s : Bytes) (base : Int) : Option Int :=
  if base = 0 ∨ (2 ≤ base ∧ base ≤ 36) then strToInt s base.toNat else none

/-- string.length(s): the sized length (embedded NULs count). -/
def stringLength (s : Bytes) : Int := s.length

end YaraModel.HM
