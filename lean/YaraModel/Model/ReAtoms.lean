/-
  D6 — model of atom extraction for hex strings and regular expressions (libyara/atoms.c):
  `_yr_atoms_extract_from_re` (the walk over the RE tree with the sliding 4-node window, building the tree of OR / AND /
  leaf nodes), `_yr_atoms_trim`, `yr_atoms_heuristic_quality`, `_yr_atoms_choose`, `_yr_atoms_expand_wildcards`,
  `_yr_atoms_wide`, `_yr_atoms_case_insensitive`, and the zero-length atom parser.c adds when nothing was extracted.
  The quality function is a PARAMETER of the walk and of the choice (the theorems hold for every quality function);
  `quality` is the one of atoms.c, used by the driver for the comparison with the atoms the real compiler inserts.
  Core Lean only.
-/
import YaraModel.Spec.Re
import YaraModel.Model.ReEmit
namespace YaraModel.ReAtoms
open YaraModel.Re

/-- an RE node that can be part of an atom (RE_NODE_LITERAL / MASKED_LITERAL / ANY): value, mask, and which leaf of the
    expression it is (left-to-right leaf index — stands for the node's forward / backward code positions) -/
structure Node where
  byte : UInt8
  mask : UInt8
  id : Nat
  deriving DecidableEq, Repr, Inhabited

abbrev Atom := List Node

/-- `_yr_atoms_trim`: (bytes trimmed at the left, the trimmed atom) -/
def trim (a : Atom) : Nat × Atom :=
  let tl := (a.takeWhile (·.mask == 0)).length
  let rest := a.drop tl
  let tr := (rest.reverse.takeWhile (·.mask == 0)).length
  let core := rest.take (rest.length - tr)
  if core.isEmpty then (0, [])
  else
    let ff := (core.filter (·.mask == 0xFF)).length
    let zz := (core.filter (·.mask == 0x00)).length
    (tl, if zz ≥ ff then core.take 1 else core)

/-- `yr_atoms_heuristic_quality` -/
def quality (a : Atom) : Int :=
  let pts : Int := a.foldl (fun acc n =>
    if n.mask == 0x00 then acc - 10
    else if n.mask == 0x0F || n.mask == 0xF0 then acc + 4
    else if n.mask == 0xFF then
      if n.byte == 0x00 || n.byte == 0x20 || n.byte == 0xCC || n.byte == 0xFF then acc + 12
      else if (97 ≤ n.byte && n.byte ≤ 122) || (65 ≤ n.byte && n.byte ≤ 90) then acc + 18
      else acc + 20
    else acc) 0
  let lits := (a.filter (·.mask == 0xFF)).map (·.byte)
  let uniq := lits.eraseDups
  let common (b : UInt8) : Bool := b == 0x00 || b == 0x20 || b == 0x90 || b == 0xCC || b == 0xFF
  let q := if uniq.length == 1 && uniq.any common then pts - 10 * a.length else pts + 2 * uniq.length
  255 - 22 * 4 + q

/-- the atom tree of atoms.c -/
inductive Tree where
  | leaf (a : Atom)
  | or (kids : List Tree)
  | and (kids : List Tree)
  deriving Repr, Inhabited

/-- state of the walk for the OR node leaves are currently appended to -/
structure St where
  recent : Atom := []        -- recent_re_nodes (at most YR_MAX_ATOM_LENGTH = 4)
  best : Atom := []          -- best_atom / best_atom_re_nodes
  bestQ : Int := -1
  kids : List Tree := []     -- the children appended so far
  deriving Repr, Inhabited

/-- a LITERAL / MASKED_LITERAL / ANY node arrives -/
def addNode (q : Atom → Int) (st : St) (x : Node) : St :=
  if st.recent.length < 4 then { st with recent := st.recent ++ [x] }
  else if st.bestQ < 255 then
    let a := (trim st.recent).2
    let st' := if q a > st.bestQ then { st with best := a, bestQ := q a } else st
    { st' with recent := st.recent.drop 1 ++ [x] }
  else st

/-- an item with `new_appending_node != NULL` is popped: the pending run becomes a leaf of the current OR node -/
def flush (q : Atom → Int) (st : St) : St :=
  let kids :=
    if st.recent.isEmpty then st.kids
    else
      let a := (trim st.recent).2
      st.kids ++ [.leaf (if q a > st.bestQ then a else st.best)]
  { recent := [], best := [], bestQ := -1, kids := kids }

/-- number of leaf nodes (ids) of an expression -/
def leaves : Re → Nat
  | .cat a b => leaves a + leaves b
  | .alt a b => leaves a + leaves b
  | .star a _ => leaves a
  | .plus a _ => leaves a
  | .range a _ _ _ => leaves a
  | _ => 1

def iter {α : Type} (f : α → α) : Nat → α → α
  | 0, x => x
  | n + 1, x => iter f n (f x)

/-- `_yr_atoms_extract_from_re`: the walk (the explicit stack of the C code unfolds to this recursion) -/
def walk (q : Atom → Int) : Re → Nat → St → St
  | .lit b, i, st => addNode q st ⟨b, 0xFF, i⟩
  | .masked v m, i, st => addNode q st ⟨v, m, i⟩
  | .any, i, st => addNode q st ⟨0, 0, i⟩
  | .cat a b, i, st => walk q b (i + leaves a) (walk q a i st)
  | .alt a b, i, st =>
      let l := (flush q (walk q a i {})).kids
      let r := (flush q (walk q b (i + leaves a) {})).kids
      -- the AND node is appended first, the pending run is flushed when the left branch is entered
      flush q { st with kids := st.kids ++ [.and [.or l, .or r]] }
  | .plus a _, i, st => flush q (walk q a i st)
  | .range a lo _ _, i, st => flush q (iter (walk q a i) (min lo 4) st)
  | _, _, st => flush q st

def treeOf (q : Atom → Int) (r : Re) : Tree := .or (flush q (walk q r 0 {})).kids

mutual
/-- `_yr_atoms_choose`: the chosen atoms and their quality -/
def choose (q : Atom → Int) : Tree → List Atom × Int
  | .leaf a => let a' := (trim a).2; if a'.isEmpty then ([], 0) else ([a'], q a')
  | .or kids => chooseOr q kids [] 0
  | .and kids => chooseAnd q kids [] 255
def chooseOr (q : Atom → Int) : List Tree → List Atom → Int → List Atom × Int
  | [], acc, mx => (acc, mx)
  | t :: ts, acc, mx =>
    if mx = 255 then (acc, mx)
    else
      let (it, ql) := choose q t
      if ql > mx then chooseOr q ts it ql else chooseOr q ts acc mx
def chooseAnd (q : Atom → Int) : List Tree → List Atom → Int → List Atom × Int
  | [], acc, mn => (acc, mn)
  | t :: ts, acc, mn =>
    let (it, ql) := choose q t
    chooseAnd q ts (it ++ acc) (if ql < mn then ql else mn)
end

/-- `_yr_atoms_expand_wildcards` for one atom: every byte sequence the masked atom stands for -/
def expand : Atom → List (List UInt8)
  | [] => [[]]
  | n :: t =>
    let vals : List UInt8 :=
      if n.mask == 0x00 then (List.range 256).map UInt8.ofNat
      else if n.mask == 0x0F then (List.range 16).map fun h => n.byte ||| UInt8.ofNat (h * 16)
      else if n.mask == 0xF0 then (List.range 16).map fun l => n.byte ||| UInt8.ofNat l
      else [n.byte]
    vals.flatMap fun v => (expand t).map fun r => v :: r

/-- `_yr_atoms_wide` -/
def widen (b : List UInt8) : List UInt8 := (b.flatMap fun c => [c, 0]).take 4

def isLetter (c : UInt8) : Bool := (97 ≤ c && c ≤ 122) || (65 ≤ c && c ≤ 90)
def swapCase (c : UInt8) : UInt8 := if 97 ≤ c ∧ c ≤ 122 then c - 32 else if 65 ≤ c ∧ c ≤ 90 then c + 32 else c
/-- the atom and every case variant of it (`_yr_atoms_case_insensitive` appended to the list) -/
def caseCombos : List UInt8 → List (List UInt8)
  | [] => [[]]
  | c :: t => let r := caseCombos t; if isLetter c then r.map (c :: ·) ++ r.map (swapCase c :: ·) else r.map (c :: ·)

structure Mods where
  ascii : Bool := true
  wide : Bool := false
  nocase : Bool := false
  deriving Repr

/-- the chosen (masked) atoms with the node they begin at -/
def chosen (q : Atom → Int) (r : Re) : List Atom := (choose q (treeOf q r)).1

/-- what `yr_ac_add_string` receives for a non-literal hex / regex string: byte sequences with the leaf the atom begins at
    (an empty list of bytes = the zero-length atom of a string without atoms, positioned at the beginning of the code) -/
def atomsOf (q : Atom → Int) (m : Mods) (r : Re) : List (List UInt8 × Nat) :=
  let base := (chosen q r).flatMap fun a => (expand a).map fun b => (b, (a.headD default).id)
  let enc := if m.wide then (if m.ascii then base else []) ++ base.map (fun (b, i) => (widen b, i)) else base
  let cased := if m.nocase then enc.flatMap (fun (b, i) => (caseCombos b).map (·, i)) else enc
  if cased.isEmpty then [([], 0)] else cased

/-! ### code positions of the leaves (forward_code_ref / backward_code_ref of the RE nodes) -/
def clen (back : Bool) (r : Re) : Nat := (YaraModel.ReEmit.emit back r 0).1.length

/-- every emission of a leaf instruction: (leaf id, start offset, end offset), in emission order; `back` = EMIT_BACKWARDS -/
def leafPos (back : Bool) : Re → Nat → Nat → List (Nat × Nat × Nat)
  | .cat a b, i, off =>
      if back then leafPos back b (i + leaves a) off ++ leafPos back a i (off + clen back b)
      else leafPos back a i off ++ leafPos back b (i + leaves a) (off + clen back a)
  | .alt a b, i, off => leafPos back a i (off + 4) ++ leafPos back b (i + leaves a) (off + 4 + clen back a + 3)
  | .star a _, i, off => leafPos back a i (off + 4)
  | .plus a _, i, off => leafPos back a i off
  | .range a lo hi _, i, off =>
      let la := clen back a
      let p := if lo > 0 then la else 0
      let rep := decide (hi > lo + 1) || decide (hi > 2)
      let lr := if rep then 9 + la + 9 else 0
      (if lo > 0 then leafPos back a i off else []) ++
      (if rep then leafPos back a i (off + p + 9) else []) ++
      (if hi > lo then leafPos back a i (off + p + lr + 4) else if hi > 1 then leafPos back a i (off + p + lr) else [])
  | r, i, off => [(i, off, off + clen back r)]

/-- forward_code_ref of a leaf: its FIRST emitted copy; backward_code_ref: the code after its LAST emitted copy, in the
    backward code that follows the forward code and its MATCH instruction -/
def fwdRef (r : Re) (id : Nat) : Option Nat := ((leafPos false r 0 0).find? (·.1 == id)).map (·.2.1)
def bwdRef (r : Re) (id : Nat) : Option Nat :=
  (((leafPos true r 0 0).reverse.find? (·.1 == id)).map (·.2.2)).map (· + clen false r + 1)

/-- (forward code offset, backward code offset) of every chosen atom; `none` = no atom (zero-length atom at offset 0) -/
def atomRefs (q : Atom → Int) (r : Re) : List (Option Nat × Option Nat) :=
  (chosen q r).map fun a => (fwdRef r (a.headD default).id, bwdRef r (a.headD default).id)

end YaraModel.ReAtoms
