/-
  Concrete instantiation of the abstract parameters of Model/Scanner.lean used by the drivers:
  a small condition language (the one the harness rule sets are written in) translated to `Prog`,
  and oracles read from a table of per-block facts. Nothing here is used by the property theorems,
  which quantify over all `Params`.
-/
import YaraModel.Model.Scanner
import YaraModel.Spec.ScannerPlace
namespace YaraModel.Scan

/-- conditions of the generated rule sets -/
inductive Cond
  | tt | ff
  | str (s : Nat)                 -- $s
  | cnt (s n : Nat)               -- #s >= n
  | strAt (s off : Nat)           -- $s at off
  | fsEq (n : Nat) | fsGe (n : Nat)
  | epDef                         -- entrypoint >= 0
  | epEq (n : Nat)
  | rd (w off v : Nat)            -- uint<8w>(off) == v
  | modEq (m v : Nat)             -- <module m>.<its probe field> == v
  | hash (off len : Nat)          -- hash.md5(off, len) == md5 of that range of the whole input
  | inR (s lo hi : Nat)           -- $s in (lo..hi)
  | offEq (s i v : Nat)           -- @s[i] == v
  | cntIn (s lo hi n : Nat)       -- #s in (lo..hi) == n
  | lenEq (s i v : Nat)           -- !s[i] == v
  | ofAt (n off : Nat) (ss : List Nat)      -- n of ($..) at off
  | ofIn (n lo hi : Nat) (ss : List Nat)    -- n of ($..) in (lo..hi)
  | forAt (off : Nat) (ss : List Nat)       -- for any of ($..) : ($ at off)
  | forIn (lo hi : Nat) (ss : List Nat)     -- for any of ($..) : ($ in (lo..hi))
  | ref (r : Nat)                 -- reference to an earlier rule
  | burn                          -- for all i in (0..300) : (i >= 0)
  | not (a : Cond) | and (a b : Cond) | or (a b : Cond)
deriving Repr

/-- stack slots the compiled condition needs (only "1 or more than 1" is relied upon) -/
def Cond.need : Cond → Nat
  | .tt | .ff | .str _ | .ref _ => 1
  | .not a => a.need
  | .and a b | .or a b => max a.need (1 + b.need)
  | .burn => 4
  | _ => 2

/-- facts about one block of one input -/
structure BlockFacts where
  ep : Option Nat                 -- yr_get_entry_point_offset on this block alone
  mods : List (Nat × Nat)         -- module m parses this block; value of its probe field
  epPM : Option Nat := none       -- with SCAN_FLAGS_PROCESS_MEMORY: yr_get_entry_point_address (block base included)
  modsPM : List (Nat × Nat) := [] -- with SCAN_FLAGS_PROCESS_MEMORY
  cands : List Cand
  err : Option Nat                -- verifying candidates in this block fails with this error code

structure Facts where
  blocks : Nat → Option BlockFacts          -- by data key
  reads : Nat → List (Nat × Nat × Nat)      -- by input (key / 64): (off, width, value)
  total : Nat → Nat                         -- input size by input
  hashOk : Nat → List (Nat × Nat)           -- by input: (off, len) whose md5 over the whole input is the expected one

def inputOf (key : Nat) : Nat := key / 64

def contains (b : Block) (off w : Nat) : Bool := decide (off ≥ b.base ∧ b.size ≥ w ∧ off + w ≤ b.base + b.size)

def undefOr (f : Bool → Bool) : Option Bool → Option Bool
  | none => none
  | some b => some (f b)

def asBool : Option Bool → Bool
  | some true => true
  | _ => false

/-- continuation-passing translation; the three-valued result is `none` = undefined -/
def Cond.prog (F : Facts) (v : View) : Cond → (Option Bool → Prog) → Prog
  | .tt, k => k (some true)
  | .ff, k => k (some false)
  | .str s, k => k (some (!(tget v.found s).isEmpty))
  | .cnt s n, k => k (some (decide ((tget v.found s).length ≥ n)))
  | .strAt s off, k => k (some (PlaceOps.foundAt v.found s off))
  | .inR s lo hi, k => k (some (PlaceOps.foundIn v.found s lo hi))
  | .offEq s i val, k => k ((PlaceOps.offset v.found s i).map (· == val))
  | .cntIn s lo hi n, k => k (some (PlaceOps.countIn v.found s lo hi == n))
  | .lenEq s i val, k => k ((PlaceOps.length v.found s i).map (· == val))
  | .ofAt n off ss, k => k (some (decide (PlaceOps.ofAt v.found ss off ≥ n)))
  | .ofIn n lo hi ss, k => k (some (decide (PlaceOps.ofIn v.found ss lo hi ≥ n)))
  | .forAt off ss, k => k (some (decide (PlaceOps.ofAt v.found ss off ≥ 1)))
  | .forIn lo hi ss, k => k (some (decide (PlaceOps.ofIn v.found ss lo hi ≥ 1)))
  | .fsEq n, k => k (v.fileSize.map (· == n))
  | .fsGe n, k => k (v.fileSize.map (decide <| · ≥ n))
  | .epDef, k => k (v.entryPoint.map fun _ => true)
  | .epEq n, k => k (v.entryPoint.map (· == n))
  | .rd w off val, k =>
      .walk (fun b => contains b off w) fun seen =>
        match seen.getLast? with
        | some b =>
          if contains b off w then
            match b.data with
            | some key => k (((F.reads (inputOf key)).find? fun r => r.1 == off && r.2.1 == w).map fun r => r.2.2 == val)
            | none => k none
          else k none
        | none => k none
  | .modEq m val, k =>
      match v.modules.find? (fun p => p.1 == m) with
      | some (_, some b) =>
        (match b.data.bind F.blocks with
         | some bf => k (((if v.processMemory then bf.modsPM else bf.mods).find? fun p => p.1 == m).map fun p => p.2 == val)
         | none => k none)
      | _ => k none
  | .hash off len, k =>
      -- first_memory_block(), then foreach_memory_block until the block reaching off+len
      .walk (fun _ => true) fun first =>
        if first.isEmpty then k none
        else
          .walk (fun b => decide (b.base + b.size ≥ off + len)) fun seen =>
            let started := seen.any fun b => decide (off ≥ b.base ∧ off < b.base + b.size)
            let reach := match seen.getLast? with | some b => b.base + b.size | none => 0
            let holes := seen.any fun b => b.data.isNone && decide (b.base + b.size > off ∧ b.base < off + len)
            if !started then k none
            else
              match seen.findSome? (·.data) with
              | none => k (some false)
              | some key =>
                let input := inputOf key
                k (some (decide (reach ≥ min (off + len) (F.total input)) && !holes && (F.hashOk input).contains (off, len)))
  | .ref r, k => k (some (decide (r ∈ v.ruleFlags)))
  | .burn, k => .check (k (some true))
  | .not a, k => a.prog F v fun x => k (undefOr (!·) x)
  | .and a b, k => a.prog F v fun x =>
      if x = some false then k (some false) else b.prog F v fun y => k (some (asBool x && asBool y))
  | .or a b, k => a.prog F v fun x =>
      if x = some true then k (some true) else b.prog F v fun y => k (some (asBool x || asBool y))

/-- ERROR_EXEC_STACK_OVERFLOW -/
def stackOverflow : Nat := 25

def condProg (F : Facts) (c : Cond) (v : View) : Prog :=
  if v.stack < c.need then .fail stackOverflow else c.prog F v fun x => .ret (asBool x)

structure RuleSpec where
  rule : Rule
  cond : Cond

def mkParams (rs : List RuleSpec) (imports : List Nat) (maxMatches : Nat) (walking : Nat → Bool) (F : Facts)
    (single : List Nat := []) (chains : List (Nat × ChainInfo) := []) : Params :=
  { rules := rs.map (·.rule)
    imports := imports
    strRule := fun s => ((enum rs).find? fun p => s ∈ p.2.rule.strings).map (·.1) |>.getD 0
    maxMatches := maxMatches
    cands := fun key => (F.blocks key).map (·.cands) |>.getD []
    ep := fun pm key _ _ => (F.blocks key).bind (fun bf => if pm then bf.epPM else bf.ep)
    singleMatch := fun s => s ∈ single
    chain := fun s => (chains.find? fun p => p.1 == s).map (·.2)
    pruneSlack := 1024 + 4
    scanErr := fun key => (F.blocks key).bind (·.err)
    cond := fun i v => match rs[i]? with | some r => condProg F r.cond v | none => .ret false
    modParse := fun pm m =>
      if walking m then
        some fun b => match b.data.bind F.blocks with
          | some bf => (if pm then bf.modsPM else bf.mods).any (·.1 == m)
          | none => false
      else none }

end YaraModel.Scan
