/-
  C12 — which VM opcode the grammar emits for each folded operator (hand-written table; validated on every
  run by the real-code differential fold-vs-VM of harness/h_fold.c), on top of the GENERATED definitions
  Gen.Fold (grammar.y actions) and Gen.VmOps (exec.c case blocks).
-/
import YaraModel.Gen.Fold
import YaraModel.Gen.VmOps
namespace YaraModel.FoldVm
open YaraModel.Gen.Fold YaraModel.Gen.VmOps

def toVm : FBin → BinOp
  | .ADD => .OP_INT_ADD | .SUB => .OP_INT_SUB | .MUL => .OP_INT_MUL | .DIV => .OP_INT_DIV | .MOD => .OP_MOD
  | .XOR => .OP_BITWISE_XOR | .AND => .OP_BITWISE_AND | .OR => .OP_BITWISE_OR | .SHL => .OP_SHL | .SHR => .OP_SHR

def toVmUn : FUn → UnOp
  | .NEG => .OP_INT_MINUS | .NOT => .OP_BITWISE_NOT

/-- no uninterpreted primitive occurs in the integer fragment; any function will do -/
def noPrim : String → List Int → Int := fun _ _ => 0

end YaraModel.FoldVm
