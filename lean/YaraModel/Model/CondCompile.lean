/-
  C04 — model of the code the grammar actions of grammar.y emit for a condition (`compile`), as a list of
  `CondVm.Instr` with instruction-relative jumps: operand order, typed opcode selection
  (yr_parser_reduce_operation: INT / DBL with OP_INT_TO_DBL / STR), OP_STR_TO_BOOL for strings in boolean
  position, short-circuit `and`/`or` (JFALSE / JTRUE over the second operand and the OP_AND / OP_OR),
  end-of-list markers for string / rule sets, and the loop template (3 internal + 1 user variable per
  nesting level, ITER_NEXT / ITER_CONDITION / ITER_END protocol).
-/
import YaraModel.Model.CondVm
namespace YaraModel.CondCompile
open YaraModel YaraModel.Cond YaraModel.CondVm YaraModel.Gen.VmOps

inductive Ty
  | int | flt | str | bool
deriving DecidableEq, Repr

/-- compile-time context -/
structure Ctx where
  ext : List (String × Ty) := []     -- declared external variables
  vars : List Ty := []               -- loop variable types by nesting depth (a `for..of` level holds `.bool`)
  ofSlot : Option Nat := none        -- M[] slot of the string of the enclosing `for..of`

def valTy : Val → Ty
  | .int _ => .int
  | .flt _ => .flt
  | .str _ => .str
  | _ => .bool

def ctxOfEnv (env : Env) : Ctx := { ext := env.ext.map fun p => (p.1, valTy p.2) }

def Ctx.extTy (c : Ctx) (name : String) : Ty :=
  match c.ext.find? (fun p => p.1 == name) with
  | some p => p.2
  | none => .bool

def tyOf (c : Ctx) : Expr → Ty
  | .int _ | .filesize | .count _ | .countIn .. | .offset .. | .length .. | .read .. | .bnot _ => .int
  | .flt _ => .flt
  | .str _ => .str
  | .ext n => c.extTy n
  | .var k => c.vars.getD k .int
  | .undefOf .i => .int
  | .undefOf .f => .flt
  | .undefOf .s => .str
  | .neg e => tyOf c e
  | .arith op a b =>
    match op with
    | .add | .sub | .mul | .div => if tyOf c a == .int && tyOf c b == .int then .int else .flt
    | _ => .int
  | _ => .bool

/-- type of the loop variable of `for .. in (e1, e2, ..)`: the type of the first item -/
def enumTy (c : Ctx) : List Expr → Ty
  | [] => .int
  | e :: _ => tyOf c e

def arithOp (t : Ty) : ArOp → BinOp
  | .add => if t == .int then .OP_INT_ADD else .OP_DBL_ADD
  | .sub => if t == .int then .OP_INT_SUB else .OP_DBL_SUB
  | .mul => if t == .int then .OP_INT_MUL else .OP_DBL_MUL
  | .div => if t == .int then .OP_INT_DIV else .OP_DBL_DIV
  | .mod => .OP_MOD
  | .band => .OP_BITWISE_AND
  | .bor => .OP_BITWISE_OR
  | .bxor => .OP_BITWISE_XOR
  | .shl => .OP_SHL
  | .shr => .OP_SHR

def cmpOp (t : Ty) : CmpOp → BinOp
  | .eq => match t with | .int => .OP_INT_EQ | .flt => .OP_DBL_EQ | _ => .OP_STR_EQ
  | .neq => match t with | .int => .OP_INT_NEQ | .flt => .OP_DBL_NEQ | _ => .OP_STR_NEQ
  | .lt => match t with | .int => .OP_INT_LT | .flt => .OP_DBL_LT | _ => .OP_STR_LT
  | .le => match t with | .int => .OP_INT_LE | .flt => .OP_DBL_LE | _ => .OP_STR_LE
  | .gt => match t with | .int => .OP_INT_GT | .flt => .OP_DBL_GT | _ => .OP_STR_GT
  | .ge => match t with | .int => .OP_INT_GE | .flt => .OP_DBL_GE | _ => .OP_STR_GE

def strOpc : StrOp → BinOp
  | .contains => .OP_CONTAINS | .icontains => .OP_ICONTAINS | .startswith => .OP_STARTSWITH
  | .istartswith => .OP_ISTARTSWITH | .endswith => .OP_ENDSWITH | .iendswith => .OP_IENDSWITH
  | .iequals => .OP_IEQUALS

def readOp : RdKind → UnOp
  | .i8 => .OP_INT8 | .i16 => .OP_INT16 | .i32 => .OP_INT32 | .u8 => .OP_UINT8 | .u16 => .OP_UINT16 | .u32 => .OP_UINT32
  | .i8be => .OP_INT8BE | .i16be => .OP_INT16BE | .i32be => .OP_INT32BE
  | .u8be => .OP_UINT8BE | .u16be => .OP_UINT16BE | .u32be => .OP_UINT32BE

/-- yr_parser_reduce_operation: the numeric type of a binary operation and the OP_INT_TO_DBL it needs -/
def numTy (ta tb : Ty) : Ty := if ta == .int && tb == .int then .int else if ta == .str then .str else .flt
def conv (ta tb : Ty) : List Instr :=
  if ta == .int && tb == .flt then [.intToDbl 2] else if ta == .flt && tb == .int then [.intToDbl 1] else []

def pushStr (c : Ctx) : SRef → Instr
  | .id n => .push (encStr n)
  | .cur => .pushM (c.ofSlot.getD 0)

def quantCode (code : List Instr) : QKind → List Instr
  | .all => [.pushU]
  | .any => [.push 1]
  | .none => [.push 0]
  | .num => code

def strToBool (t : Ty) : List Instr := if t == .str then [.un .OP_STR_TO_BOOL] else []

/-- a member of a rule set (grammar.y rule_enumeration_item, parser.c yr_parser_emit_pushes_for_rules, since the repair of
    finding F68): `OP_PUSH_RULE k; OP_PUSH_8 0; OP_OR` — a disabled rule pushes UNDEFINED, which would be taken for the
    end-of-set marker; `undefined or false` is false -/
def ruleMember (k : Nat) : List Instr := [.pushRule k, .push 0, .bin .OP_OR]

/-- the loop template of grammar.y (`_FOR_ for_expression ... ':' '(' boolean_expression ')'`);
    `f` = var frame, `init` = iterator set-up, `body` = code of the boolean body -/
def loopCode (q init body : List Instr) (f : Nat) : List Instr :=
  q ++ [.clearM f, .clearM (f + 1), .popM (f + 2)] ++ init ++
  [.iterNext, .popM (f + 3), .jtrueP ((body.length : Int) + 7)] ++ body ++
  [.incrM (f + 1), .pushM f, .pushM (f + 2), .iterCondition, .addM f, .jtrueP (-((body.length : Int) + 8)),
   .pop, .pushM (f + 1), .pushM f, .pushM (f + 2), .iterEnd]

mutual
def compile (c : Ctx) : Expr → List Instr
  | .int v => [if C.isUndef v then .pushU else .push v]
  | .flt w => [.push w]
  | .str s => [.push (encSS s)]
  | .filesize => [.filesize]
  | .ext n => [.extVal n]
  | .var k => [.pushM (4 * k + 3)]
  | .undefOf _ => [.undefVal]
  | .count s => [pushStr c s, .count]
  | .countIn s lo hi => compile c lo ++ compile c hi ++ [pushStr c s, .countIn]
  | .offset s i => compile c i ++ [pushStr c s, .offset]
  | .length s i => compile c i ++ [pushStr c s, .length]
  | .read k off => compile c off ++ [.un (readOp k)]
  | .neg e => compile c e ++ [.un (if tyOf c e == .int then .OP_INT_MINUS else .OP_DBL_MINUS)]
  | .bnot e => compile c e ++ [.un .OP_BITWISE_NOT]
  | .arith op a b =>
    match op with
    | .add | .sub | .mul | .div =>
      compile c a ++ compile c b ++ conv (tyOf c a) (tyOf c b) ++ [.bin (arithOp (numTy (tyOf c a) (tyOf c b)) op)]
    | _ => compile c a ++ compile c b ++ [.bin (arithOp .int op)]
  | .tt => [.push 1]
  | .ff => [.push 0]
  | .found s => [pushStr c s, .found]
  | .foundAt s pos => compile c pos ++ [pushStr c s, .foundAt]
  | .foundIn s lo hi => compile c lo ++ compile c hi ++ [pushStr c s, .foundIn]
  | .cmp op a b =>
    compile c a ++ compile c b ++ conv (tyOf c a) (tyOf c b) ++ [.bin (cmpOp (numTy (tyOf c a) (tyOf c b)) op)]
  | .strop op a b => compile c a ++ compile c b ++ [.bin (strOpc op)]
  | .matches a re nocase => compile c a ++ [.push (encRe re nocase), .matches]
  | .not e => compile c e ++ strToBool (tyOf c e) ++ [.un .OP_NOT]
  | .defined e => compile c e ++ strToBool (tyOf c e) ++ [.un .OP_DEFINED]
  | .and a b =>
    let cb := compile c b ++ strToBool (tyOf c b)
    compile c a ++ strToBool (tyOf c a) ++ [.jfalse ((cb.length : Int) + 2)] ++ cb ++ [.bin .OP_AND]
  | .or a b =>
    let cb := compile c b ++ strToBool (tyOf c b)
    compile c a ++ strToBool (tyOf c a) ++ [.jtrue ((cb.length : Int) + 2)] ++ cb ++ [.bin .OP_OR]
  | .ruleRef k => [.pushRule k]
  | .ofStr q qe set =>
    quantCode (compile c qe) q ++ [.pushU] ++ set.map (fun n => .push (encStr n)) ++ [.of_ false]
  | .ofStrIn q qe set lo hi =>
    quantCode (compile c qe) q ++ [.pushU] ++ set.map (fun n => .push (encStr n)) ++ compile c lo ++ compile c hi ++ [.ofFoundIn]
  | .ofStrAt q qe set pos =>
    quantCode (compile c qe) q ++ [.pushU] ++ set.map (fun n => .push (encStr n)) ++ compile c pos ++ [.ofFoundAt]
  | .pctStr p set => compile c p ++ [.pushU] ++ set.map (fun n => .push (encStr n)) ++ [.ofPercent false]
  | .ofRules q qe set =>
    quantCode (compile c qe) q ++ [.pushU] ++ set.flatMap ruleMember ++ [.of_ true]
  | .pctRules p set => compile c p ++ [.pushU] ++ set.flatMap ruleMember ++ [.ofPercent true]
  | .forRange q qe lo hi body =>
    let f := 4 * c.vars.length
    let c' := { c with vars := c.vars ++ [.int] }
    loopCode (quantCode (compile c qe) q) (compile c lo ++ compile c hi ++ [.iterStartRange])
      (compile c' body ++ strToBool (tyOf c' body)) f
  | .forEnum q qe items body =>
    let f := 4 * c.vars.length
    let ity := enumTy c items
    let c' := { c with vars := c.vars ++ [ity] }
    loopCode (quantCode (compile c qe) q)
      (compileList c items ++ [.push items.length, if ity == .str then .iterStartTextSet else .iterStartEnum])
      (compile c' body ++ strToBool (tyOf c' body)) f
  | .forOf q qe set body =>
    let f := 4 * c.vars.length
    let c' := { c with vars := c.vars ++ [.bool], ofSlot := some (f + 3) }
    loopCode (quantCode (compile c qe) q)
      ([.pushU] ++ set.map (fun n => .push (encStr n)) ++ [.push set.length, .iterStartStrSet])
      (compile c' body ++ strToBool (tyOf c' body)) f
def compileList (c : Ctx) : List Expr → List Instr
  | [] => []
  | e :: es => compile c e ++ compileList c es
end


/-! ### side conditions of the correctness theorems (Thm/C04.lean, compile_correct…)

`WF env c l e` collects, for `e` and every sub-expression (in every loop iteration), what the theorems assume:
 * static typing as the compiler sees it (`tyOf`) and values of the promised shape;
 * no integer value — and no double whose 64-bit pattern is — equal to the YR_UNDEFINED sentinel (finding F14);
 * quantifier expressions are defined (finding F42);
 * range bounds are 64-bit values and loops have fewer than 2^60 iterations. -/

/-- the four operators that also take doubles -/
def isFltOp : ArOp → Bool
  | .add | .sub | .mul | .div => true
  | _ => false

/-- the int→double promotion of a mixed operation does not produce the sentinel pattern (`(double) i` is never that NaN) -/
def promoOk (fo : FloatOps) (ta tb : Ty) (va vb : Val) : Prop :=
  (ta = .int → tb = .flt → ∀ i, va = .int i → fo.ofInt i ≠ C.UNDEF) ∧
  (ta = .flt → tb = .int → ∀ i, vb = .int i → fo.ofInt i ≠ C.UNDEF)

/-- the value has the shape its static type promises, and is not an integer / a double whose 64-bit pattern is the sentinel -/
def ValOk : Ty → Val → Prop
  | .int, v => v = .undef ∨ ∃ i, v = .int i ∧ i ≠ C.UNDEF
  | .str, v => v = .undef ∨ ∃ s, v = .str s
  | .bool, v => v = .undef ∨ ∃ b, v = .bool b
  | .flt, v => v = .undef ∨ ∃ w, v = .flt w ∧ w ≠ C.UNDEF

def SRefOk (c : Ctx) (l : LEnv) : SRef → Prop
  | .id _ => True
  | .cur => (∃ n, l.cur = some n) ∧ c.ofSlot.isSome = true

/-- memory blocks lie in the lower half of the address space (so no block contains a negative or the
    sentinel offset reinterpreted as size_t) -/
def EnvOk (env : Env) : Prop := ∀ b ∈ env.blocks, b.1 + b.2.length ≤ 9223372036854775808

mutual
def WF (env : Env) (c : Ctx) : LEnv → Expr → Prop
  | _, .int v => v ≠ C.UNDEF
  | _, .flt w => w ≠ C.UNDEF
  | _, .str _ => True
  | _, .filesize => env.filesize ≠ C.UNDEF
  | _, .ext n => ValOk (c.extTy n) (lookupExt env n)
  | l, .var k => c.vars.getD k .bool ≠ .bool ∧ ValOk (c.vars.getD k .int) (l.vars.getD k .undef)
  | _, .undefOf _ => True
  | l, .count s => SRefOk c l s
  | l, .countIn s lo hi =>
      SRefOk c l s ∧ WF env c l lo ∧ WF env c l hi ∧ tyOf c lo = .int ∧ tyOf c hi = .int
  | l, .offset s i => SRefOk c l s ∧ WF env c l i ∧ tyOf c i = .int ∧ ValOk .int (eval env l (.offset s i))
  | l, .length s i => SRefOk c l s ∧ WF env c l i ∧ tyOf c i = .int ∧ ValOk .int (eval env l (.length s i))
  | l, .read k off =>
      WF env c l off ∧ tyOf c off = .int ∧ ValOk .int (eval env l (.read k off)) ∧
      (∀ a, eval env l off = .int a → C.inRange a)
  | l, .neg e => WF env c l e ∧ (tyOf c e = .int ∨ tyOf c e = .flt) ∧ ValOk (tyOf c e) (eval env l (.neg e))
  | l, .bnot e => WF env c l e ∧ tyOf c e = .int ∧ ValOk .int (eval env l (.bnot e))
  | l, .arith op a b =>
      -- `+ - * \` take integers and doubles in any mix; `%` and the bitwise operators integers only (the compiler rejects the rest)
      WF env c l a ∧ WF env c l b ∧ (tyOf c a = .int ∨ (isFltOp op = true ∧ tyOf c a = .flt)) ∧
      (tyOf c b = .int ∨ (isFltOp op = true ∧ tyOf c b = .flt)) ∧ ValOk (tyOf c (.arith op a b)) (eval env l (.arith op a b)) ∧
      promoOk env.fops (tyOf c a) (tyOf c b) (eval env l a) (eval env l b)
  | _, .tt => True
  | _, .ff => True
  | l, .found s => SRefOk c l s
  | l, .foundAt s pos => SRefOk c l s ∧ WF env c l pos ∧ tyOf c pos = .int
  | l, .foundIn s lo hi =>
      SRefOk c l s ∧ WF env c l lo ∧ WF env c l hi ∧ tyOf c lo = .int ∧ tyOf c hi = .int
  | l, .cmp _ a b =>
      WF env c l a ∧ WF env c l b ∧
      (((tyOf c a = .int ∨ tyOf c a = .flt) ∧ (tyOf c b = .int ∨ tyOf c b = .flt)) ∨ (tyOf c a = .str ∧ tyOf c b = .str)) ∧
      promoOk env.fops (tyOf c a) (tyOf c b) (eval env l a) (eval env l b)
  | l, .strop _ a b => WF env c l a ∧ WF env c l b ∧ tyOf c a = .str ∧ tyOf c b = .str
  | l, .matches a _ _ => WF env c l a ∧ tyOf c a = .str
  | l, .not e => WF env c l e
  | l, .defined e => WF env c l e
  | l, .and a b => WF env c l a ∧ WF env c l b
  | l, .or a b => WF env c l a ∧ WF env c l b
  | _, .ruleRef _ => True
  | l, .ofStr q qe _ => (q = .num → WF env c l qe ∧ tyOf c qe = .int ∧ eval env l qe ≠ .undef)
  | l, .ofStrIn q qe _ lo hi =>
      (q = .num → WF env c l qe ∧ tyOf c qe = .int ∧ eval env l qe ≠ .undef) ∧
      WF env c l lo ∧ WF env c l hi ∧ tyOf c lo = .int ∧ tyOf c hi = .int
  | l, .ofStrAt q qe _ pos =>
      (q = .num → WF env c l qe ∧ tyOf c qe = .int ∧ eval env l qe ≠ .undef) ∧ WF env c l pos ∧ tyOf c pos = .int
  | l, .pctStr p set => WF env c l p ∧ tyOf c p = .int ∧ set ≠ []
  | l, .ofRules q qe _ => (q = .num → WF env c l qe ∧ tyOf c qe = .int ∧ eval env l qe ≠ .undef)
  | l, .pctRules p set => WF env c l p ∧ tyOf c p = .int ∧ set ≠ []
  | l, .forRange q qe lo hi body =>
      (q = .num → WF env c l qe ∧ tyOf c qe = .int ∧ eval env l qe ≠ .undef) ∧
      WF env c l lo ∧ WF env c l hi ∧ tyOf c lo = .int ∧ tyOf c hi = .int ∧ c.vars.length < 4 ∧
      (∀ a b, eval env l lo = .int a → eval env l hi = .int b →
        C.INT64_MIN ≤ a ∧ b ≤ C.INT64_MAX ∧ b - a < 1152921504606846975) ∧
      (∀ v, v ∈ intRange (eval env l lo) (eval env l hi) →
        WF env { c with vars := c.vars ++ [.int] } { l with vars := l.vars ++ [v] } body ∧ v ≠ .int C.UNDEF)
  | l, .forEnum q qe items body =>
      (q = .num → WF env c l qe ∧ tyOf c qe = .int ∧ eval env l qe ≠ .undef) ∧
      WFList env c l items ∧ c.vars.length < 4 ∧ items.length < 1152921504606846976 ∧
      (∀ v, v ∈ evalList env l items →
        WF env { c with vars := c.vars ++ [enumTy c items] }
           { l with vars := l.vars ++ [v] } body)
  | l, .forOf q qe set body =>
      (q = .num → WF env c l qe ∧ tyOf c qe = .int ∧ eval env l qe ≠ .undef) ∧ c.vars.length < 4 ∧
      set.length < 1152921504606846976 ∧
      (∀ n, n ∈ set →
        WF env { c with vars := c.vars ++ [.bool], ofSlot := some (4 * c.vars.length + 3) }
           { vars := l.vars ++ [.undef], cur := some n } body)
def WFList (env : Env) (c : Ctx) : LEnv → List Expr → Prop
  | _, [] => True
  | l, e :: es => WF env c l e ∧ tyOf c e ≠ .flt ∧ tyOf c e ≠ .bool ∧ WFList env c l es
end

/-- the value of every sub-expression reached has the shape of its static type (no sentinel collision) -/
def Typed (env : Env) (c : Ctx) (l : LEnv) (e : Expr) : Prop := ValOk (tyOf c e) (eval env l e)

/-- the VM's loop memory holds the loop variables of the specification's loop context -/
def MemInv (c : Ctx) (l : LEnv) (mem : List Int) : Prop :=
  c.vars.length = l.vars.length ∧
  (∀ k, c.vars.getD k .bool ≠ .bool → getM mem (4 * k + 3) = toVm (l.vars.getD k .undef)) ∧
  (∀ n, l.cur = some n → ∃ slot, c.ofSlot = some slot ∧ slot < 4 * c.vars.length ∧ getM mem slot = encStr n)

/-- no loops and no `P% of` inside -/
def loopFree : Expr → Bool
  | .countIn _ lo hi => loopFree lo && loopFree hi
  | .offset _ i => loopFree i
  | .length _ i => loopFree i
  | .read _ off => loopFree off
  | .neg e => loopFree e
  | .bnot e => loopFree e
  | .arith _ a b => loopFree a && loopFree b
  | .foundAt _ pos => loopFree pos
  | .foundIn _ lo hi => loopFree lo && loopFree hi
  | .cmp _ a b => loopFree a && loopFree b
  | .strop _ a b => loopFree a && loopFree b
  | .matches a _ _ => loopFree a
  | .not e => loopFree e
  | .defined e => loopFree e
  | .and a b => loopFree a && loopFree b
  | .or a b => loopFree a && loopFree b
  | .ofStr q qe _ => q != .num || loopFree qe
  | .ofStrIn q qe _ lo hi => (q != .num || loopFree qe) && loopFree lo && loopFree hi
  | .ofStrAt q qe _ pos => (q != .num || loopFree qe) && loopFree pos
  | .ofRules q qe _ => q != .num || loopFree qe
  | .pctStr p _ | .pctRules p _ => loopFree p
  | .forRange .. | .forEnum .. | .forOf .. => false
  | _ => true

/-- a rule's condition (`boolean_expression`) -/
def compileRule (c : Ctx) (cond : Expr) : List Instr := compile c cond ++ strToBool (tyOf c cond)

/-- fuel-bounded execution of the compiled condition: `none` = stuck / out of fuel -/
def modelVerdict (env : Env) (cond : Expr) (fuel : Nat := 2000000) : Option Bool :=
  match run env (compileRule (ctxOfEnv env) cond).toArray fuel {} with
  | some s => verdictOf s
  | none => none

/-- verdicts of a rule set through the compiled code (the model of what libyara computes) -/
def modelRules (blocks : List (Nat × Bytes)) (filesize : Int) (ext : List (String × Val)) :
    List Rule → List Bool → List (Option Bool)
  | [], _ => []
  | r :: rs, acc =>
    let v := modelVerdict { strs := r.strs, blocks, filesize, ext, rules := acc } r.cond
    v :: modelRules blocks filesize ext rs (acc ++ [v.getD false])

/-- with rules switched off (OP_INIT_RULE skips a disabled rule: it does not match) -/
def modelRulesD (blocks : List (Nat × Bytes)) (filesize : Int) (ext : List (String × Val)) (disabled : List Nat)
    (fops : FloatOps) :
    List Rule → List Bool → List (Option Bool)
  | [], _ => []
  | r :: rs, acc =>
    let v := if disabled.contains acc.length then some false
             else modelVerdict { strs := r.strs, blocks, filesize, ext, rules := acc, disabled, fops } r.cond
    v :: modelRulesD blocks filesize ext disabled fops rs (acc ++ [v.getD false])

end YaraModel.CondCompile
