/- Vocabulary of the match-list opcode model (Gen/MatchOps.lean is regenerated from libyara/exec.c by translators/matchops.py
   in terms of these definitions). -/
import YaraModel.Base.CInt
namespace YaraModel.MatchCore

/-- the fields of YR_MATCH the condition VM reads (types.h): a match of `match_length` bytes at `base + offset`, of which
    only the first `data_length` (<= YR_CONFIG_MAX_MATCH_DATA) bytes were copied for the callback -/
structure MatchRec where
  base : Int
  offset : Int
  matchLength : Int
  dataLength : Int
deriving Repr

/-- the VM registers r1..r4 (`.i` member) and the local `int i` -/
structure MS where
  r1 : Int
  r2 : Int
  r3 : Int
  r4 : Int
  i : Int

/-- `while (match != NULL && cond) { body; match = match->next; }` over the list starting at `match`;
    the body reports whether it left through `break` -/
def whileList (cond : MS → Bool) (body : MatchRec → MS → MS × Bool) : List MatchRec → MS → MS
  | [], s => s
  | m :: ms, s =>
    if cond s then
      let r := body m s
      if r.2 then r.1 else whileList cond body ms r.1
    else s

/-- what the specification sees of a match: (absolute offset, length) -/
def view (m : MatchRec) : Int × Int := (C.add m.base m.offset, m.matchLength)

end YaraModel.MatchCore
