/-
  C04 — model of libyara's condition VM (exec.c `yr_execute_code`), one rule's code at a time.
  * values are the 64-bit words of `YR_VALUE`, carried as `Int`; `C.UNDEF` is the YR_UNDEFINED sentinel;
    pointers (YR_STRING*, SIZED_STRING*, RE*, YR_ITERATOR*) are encoded as integers >= 2^64, so they can
    never be confused with an int64 nor with the sentinel (real pointers are < 2^47);
  * the pure opcodes are NOT written here: they are `Gen.VmOps.vmUn/vmBin`, regenerated from exec.c; their
    uninterpreted primitives (doubles, sized strings, intN readers) are interpreted by `prim`;
  * match-list opcodes, OF*, M[] opcodes, jumps and the iterator protocol are hand-modelled after exec.c.
  Jump operands are relative to the jump instruction, counted in instructions.
-/
import YaraModel.Spec.Cond
import YaraModel.Gen.VmOps
import YaraModel.Gen.ReadFn
namespace YaraModel.CondVm
open YaraModel YaraModel.Cond YaraModel.Gen.VmOps

/-! ### encodings -/

def W64 : Int := 18446744073709551616

/-- pointer-like word: tag in 0..7, payload a natural number -/
def encPtr (tag payload : Nat) : Int := W64 * ((8 * payload + tag + 8 : Nat) : Int)
def ptrTag (v : Int) : Nat := if v < W64 then 0 else (v / W64).toNat % 8
def ptrPayload (v : Int) : Nat := (v / W64).toNat / 8 - 1

/-- base-256 digits after a leading 1, least significant byte first in the argument -/
def natOfRev : Bytes → Nat
  | [] => 1
  | x :: xs => natOfRev xs * 256 + x.toNat
def bytesToNat (b : Bytes) : Nat := natOfRev b.reverse
/-- inverse of `natOfRev` (fuel = an upper bound of the number of digits) -/
def natToRev : Nat → Nat → Bytes
  | 0, _ => []
  | fuel + 1, n => if n ≤ 1 then [] else UInt8.ofNat (n % 256) :: natToRev fuel (n / 256)

def encSS (b : Bytes) : Int := encPtr 1 (bytesToNat b)
def decSS (v : Int) : Bytes := (natToRev (ptrPayload v) (ptrPayload v)).reverse
def encStr (n : Nat) : Int := encPtr 2 n
def decStr (v : Int) : Nat := ptrPayload v
def encIt (k : Nat) : Int := encPtr 3 k
def decIt (v : Int) : Nat := ptrPayload v
/-- regular expression (literal-only): payload = 2 * bytes + nocase -/
def encRe (re : Bytes) (nocase : Bool) : Int := encPtr 4 (2 * bytesToNat re + (if nocase then 1 else 0))
def decRe (v : Int) : Bytes × Bool :=
  let p := ptrPayload v
  ((natToRev (p / 2) (p / 2)).reverse, p % 2 == 1)

/-- the VM word of a specification value -/
def toVm : Val → Int
  | .undef => C.UNDEF
  | .int i => i
  | .bool b => C.b2i b
  | .str s => encSS s
  | .flt w => w                        -- a double is its 64-bit pattern

/-! ### primitives of the generated opcodes -/

def readerOf (name : String) : Option (Nat × Bool × Bool) :=
  match Gen.ReadFn.readers.find? (fun r => "read_" ++ r.1 ++ "(context->iterator,r1.i)" == name) with
  | some (_, sz, sg, be, _) => some (sz, sg, be)
  | none => none

/-- `function_read`: first block passing the (regenerated) range test; `(size_t) r1.i` wraps modulo 2^64 -/
def readBlocks : List (Nat × Bytes) → Nat → Nat → Option Bytes
  | [], _, _ => none
  | (base, data) :: rest, off, n =>
    if Gen.ReadFn.readFits base data.length n off then some ((data.drop (off - base)).take n)
    else readBlocks rest off n

def decodeRd (sz : Nat) (signed be : Bool) (bs : Bytes) : Int :=
  let u := beNat (if be then bs else bs.reverse)
  if signed && u ≥ 2 ^ (8 * sz - 1) then (u : Int) - 2 ^ (8 * sz) else (u : Int)

def readPrim (blocks : List (Nat × Bytes)) (sz : Nat) (signed be : Bool) (a : Int) : Int :=
  match readBlocks blocks (a % W64).toNat sz with
  | some bs => decodeRd sz signed be bs
  | none => C.UNDEF

/-- the double primitives, by the (normalised) C text the translator found in exec.c: the SAME parameter operations the
    specification uses (`Cond.FloatOps`) -/
def primDbl (fo : FloatOps) (name : String) (args : List Int) : Option Int :=
  match name, args with
  | "-r1.d", [a] => some (fo.neg a)
  | "(r1.d+r2.d)", [a, b] => some (fo.add a b)
  | "(r1.d-r2.d)", [a, b] => some (fo.sub a b)
  | "(r1.d*r2.d)", [a, b] => some (fo.mul a b)
  | "(r1.d/r2.d)", [a, b] => some (fo.div a b)
  | "(r1.d<r2.d)", [a, b] => some (C.b2i (cmpFlt fo .lt a b))
  | "(r1.d>r2.d)", [a, b] => some (C.b2i (cmpFlt fo .gt a b))
  | "(r1.d<=r2.d)", [a, b] => some (C.b2i (cmpFlt fo .le a b))
  | "(r1.d>=r2.d)", [a, b] => some (C.b2i (cmpFlt fo .ge a b))
  | "(fabs((r1.d-r2.d))<DBL_EPSILON)", [a, b] => some (C.b2i (cmpFlt fo .eq a b))
  | "(fabs((r1.d-r2.d))>=DBL_EPSILON)", [a, b] => some (C.b2i (cmpFlt fo .neq a b))
  | _, _ => none

/-- primitives on sized strings, by the (normalised) C text the translator found in exec.c -/
def primPure (name : String) (args : List Int) : Int :=
  match name, args with
  | "(r1.ss->length>0)", [a] => C.b2i (!(decSS a).isEmpty)
  | "(ss_compare(r1.ss,r2.ss)==0)", [a, b] => C.b2i (cmpStr .eq (decSS a) (decSS b))
  | "(ss_compare(r1.ss,r2.ss)!=0)", [a, b] => C.b2i (cmpStr .neq (decSS a) (decSS b))
  | "(ss_compare(r1.ss,r2.ss)<0)", [a, b] => C.b2i (cmpStr .lt (decSS a) (decSS b))
  | "(ss_compare(r1.ss,r2.ss)<=0)", [a, b] => C.b2i (cmpStr .le (decSS a) (decSS b))
  | "(ss_compare(r1.ss,r2.ss)>0)", [a, b] => C.b2i (cmpStr .gt (decSS a) (decSS b))
  | "(ss_compare(r1.ss,r2.ss)>=0)", [a, b] => C.b2i (cmpStr .ge (decSS a) (decSS b))
  | "ss_contains(r1.ss,r2.ss)", [a, b] => C.b2i (strOp .contains (decSS a) (decSS b))
  | "ss_icontains(r1.ss,r2.ss)", [a, b] => C.b2i (strOp .icontains (decSS a) (decSS b))
  | "ss_startswith(r1.ss,r2.ss)", [a, b] => C.b2i (strOp .startswith (decSS a) (decSS b))
  | "ss_istartswith(r1.ss,r2.ss)", [a, b] => C.b2i (strOp .istartswith (decSS a) (decSS b))
  | "ss_endswith(r1.ss,r2.ss)", [a, b] => C.b2i (strOp .endswith (decSS a) (decSS b))
  | "ss_iendswith(r1.ss,r2.ss)", [a, b] => C.b2i (strOp .iendswith (decSS a) (decSS b))
  | "(ss_icompare(r1.ss,r2.ss)==0)", [a, b] => C.b2i (strOp .iequals (decSS a) (decSS b))
  | _, _ => C.UNDEF

/-- all primitives of the generated opcodes: the intN/uintN readers, the double operations, then `primPure` -/
def prim (fo : FloatOps) (blocks : List (Nat × Bytes)) (name : String) (args : List Int) : Int :=
  match readerOf name with
  | some (sz, sg, be) =>
    match args with
    | [a] => readPrim blocks sz sg be a
    | _ => C.UNDEF
  | none =>
    match primDbl fo name args with
    | some v => v
    | none => primPure name args

/-! ### instructions and state -/

inductive Instr
  | push (v : Int)
  | pushU
  | pop
  | un (op : UnOp)
  | bin (op : BinOp)
  | intToDbl (k : Nat)
  | filesize
  | extVal (name : String)           -- OP_OBJ_LOAD + OP_OBJ_VALUE of an external variable
  | undefVal                         -- a module value that is undefined (OBJ_LOAD/FIELD/…/OBJ_VALUE chain)
  | pushRule (k : Nat)
  | found | foundAt | foundIn | count | countIn | offset | length
  | of_ (rules : Bool)
  | ofPercent (rules : Bool)
  | ofFoundIn | ofFoundAt
  | matches
  | clearM (k : Nat) | addM (k : Nat) | incrM (k : Nat) | pushM (k : Nat) | popM (k : Nat)
  | jfalse (d : Int) | jtrue (d : Int) | jtrueP (d : Int)
  | iterStartRange | iterStartEnum | iterStartStrSet | iterStartTextSet
  | iterNext | iterCondition | iterEnd
deriving Repr, BEq

inductive Iter
  | range (next last : Int)
  | list (items : List Int) (next : Nat)       -- int enum / string set / text string set
deriving Repr

structure St where
  pc : Nat := 0
  stack : List Int := []
  mem : List Int := List.replicate 20 0
  iters : List Iter := []
deriving Repr

def isU (v : Int) : Bool := C.isUndef v

/-- offset / length of the i-th (1-based) match, UNDEF when there is none (OP_OFFSET / OP_LENGTH) -/
def nthOff (ms : List (Int × Int)) (i : Int) : Int :=
  match nth ms i with
  | some m => m.1
  | none => C.UNDEF
def nthLen (ms : List (Int × Int)) (i : Int) : Int :=
  match nth ms i with
  | some m => m.2
  | none => C.UNDEF

/-- OP_MATCHES with a literal-only regular expression -/
def matchWord (re a : Int) : Int :=
  C.b2i (if (decRe re).2 then containsS (lowerS (decSS a)) (lowerS (decRe re).1) else containsS (decSS a) (decRe re).1)

def matchesOfStr (env : Env) (sv : Int) : List (Int × Int) := env.strs.getD (decStr sv) []

/-- pop words down to (and including) the UNDEF end-of-list marker: (items in push order, rest) -/
def popToMarker : List Int → List Int → List Int × List Int
  | [], acc => (acc, [])
  | v :: rest, acc => if isU v then (acc, rest) else popToMarker rest (v :: acc)

/-- OP_OF / OP_OF_FOUND_IN / OP_OF_FOUND_AT: the quantifier word `q` against found/count -/
def ofResult (q : Int) (found count : Nat) : Int :=
  if isU q then C.b2i (decide (found ≥ count))
  else if q == 0 then C.b2i (found == 0)
  else C.b2i (decide ((found : Int) ≥ q))

/-- OP_OF_PERCENT: `(((int64_t) found * 100) / count) >= r2.i` — exact integer arithmetic (the repair of finding F44) -/
def pctResult (q : Int) (found count : Nat) : Int :=
  if isU q || count == 0 then C.UNDEF
  else C.b2i (decide ((((found * 100) / count : Nat) : Int) ≥ q))

/-- OP_ITER_CONDITION first normalises the body's value: every defined non-zero value counts exactly once -/
def normW (r : Int) : Int := if isU r then r else C.b2i (r != 0)

/-- OP_ITER_CONDITION: should the loop go on? (`q` quantifier word, `t` true-count so far, `r` body result) -/
def contWord (q t r : Int) : Bool :=
  if isU q then r != 0 else if q == 0 then r != 1 else decide (C.add t r < q)

/-- OP_ITER_END: `n` iterations executed, `t` of them true -/
def endWord (q t n : Int) : Int :=
  if n == 0 then 0 else if isU q then C.b2i (t == n) else if q == 0 then C.b2i (t == 0) else C.b2i (decide (t ≥ q))

/-- the `next` function of an iterator (iter_int_range_next / iter_int_enum_next / iter_string_set_next /
    iter_text_string_set_next): the word it yields and the advanced iterator, or `none` when exhausted -/
def iterAdvance : Iter → Option (Int × Iter)
  | .range nx last =>
    -- `next` is not stepped past INT64_MAX: an undefined `next` marks the iterator as exhausted
    if !isU nx && !isU last && nx ≤ last then some (nx, .range (if nx == C.INT64_MAX then C.UNDEF else C.add nx 1) last)
    else none
  | .list items k =>
    match items[k]? with
    | some v => some (v, .list items (k + 1))
    | none => none

def setM (mem : List Int) (k : Nat) (v : Int) : List Int := mem.set k v
def getM (mem : List Int) (k : Nat) : Int := mem.getD k 0

def jump (pc : Nat) (d : Int) : Nat := ((pc : Int) + d).toNat

/-- one instruction; `none` = stuck (stack underflow etc.) -/
def step (env : Env) (i : Instr) (s : St) : Option St :=
  let next (stack : List Int) : Option St := some { s with pc := s.pc + 1, stack := stack }
  match i, s.stack with
  | .push v, st => next (v :: st)
  | .pushU, st => next (C.UNDEF :: st)
  | .pop, _ :: st => next st
  | .un op, a :: st => next (vmUn (prim env.fops env.blocks) op a :: st)
  | .bin op, b :: a :: st => next (vmBin (prim env.fops env.blocks) op a b :: st)
  | .intToDbl k, st =>
      if k = 0 ∨ k > st.length then none else
      let v := st.getD (k - 1) 0
      next (st.set (k - 1) (if isU v then C.UNDEF else env.fops.ofInt v))
  | .filesize, st => next (env.filesize :: st)
  | .extVal name, st => next (toVm (lookupExt env name) :: st)
  | .undefVal, st => next (C.UNDEF :: st)
  | .pushRule k, st => next ((if env.disabled.contains k then C.UNDEF else C.b2i (env.rules.getD k false)) :: st)   -- RULE_IS_DISABLED: undefined
  | .found, sv :: st => next (C.b2i (!(matchesOfStr env sv).isEmpty) :: st)
  | .foundAt, sv :: x :: st =>
      next ((if isU x then C.UNDEF else C.b2i ((matchesOfStr env sv).any fun m => m.1 == x)) :: st)
  | .foundIn, sv :: hi :: lo :: st =>
      next ((if isU lo || isU hi then C.UNDEF else C.b2i ((matchesOfStr env sv).any (inRange lo hi))) :: st)
  | .count, sv :: st => next (((matchesOfStr env sv).length : Int) :: st)
  | .countIn, sv :: hi :: lo :: st =>
      next ((if isU lo || isU hi then C.UNDEF else (((matchesOfStr env sv).countP (inRange lo hi) : Nat) : Int)) :: st)
  | .offset, sv :: x :: st =>
      next ((if isU x then C.UNDEF else nthOff (matchesOfStr env sv) x) :: st)
  | .length, sv :: x :: st =>
      next ((if isU x then C.UNDEF else nthLen (matchesOfStr env sv) x) :: st)
  | .of_ rules, st =>
      let (items, rest) := popToMarker st []
      match rest with
      | q :: st' =>
        let found := if rules then items.countP (fun v => v != 0) else items.countP fun sv => !(matchesOfStr env sv).isEmpty
        next (ofResult q found items.length :: st')
      | [] => none
  | .ofPercent rules, st =>
      let (items, rest) := popToMarker st []
      match rest with
      | q :: st' =>
        let found := if rules then items.countP (fun v => v != 0) else items.countP fun sv => !(matchesOfStr env sv).isEmpty
        next (pctResult q found items.length :: st')
      | [] => none
  | .ofFoundIn, hi :: lo :: st =>
      let (items, rest) := popToMarker st []
      match rest with
      | q :: st' =>
        if isU lo || isU hi then next (C.UNDEF :: st') else
        next (ofResult q (items.countP fun sv => (matchesOfStr env sv).any (inRange lo hi)) items.length :: st')
      | [] => none
  | .ofFoundAt, x :: st =>
      let (items, rest) := popToMarker st []
      match rest with
      | q :: st' =>
        if isU x then next (C.UNDEF :: st') else
        next (ofResult q (items.countP fun sv => (matchesOfStr env sv).any fun m => m.1 == x) items.length :: st')
      | [] => none
  | .matches, re :: a :: st => next ((if isU re || isU a then C.UNDEF else matchWord re a) :: st)
  | .clearM k, st => some { s with pc := s.pc + 1, stack := st, mem := setM s.mem k 0 }
  | .incrM k, st => some { s with pc := s.pc + 1, stack := st, mem := setM s.mem k (C.add (getM s.mem k) 1) }
  | .addM k, v :: st =>
      some { s with pc := s.pc + 1, stack := st, mem := if isU v then s.mem else setM s.mem k (C.add (getM s.mem k) v) }
  | .pushM k, st => next (getM s.mem k :: st)
  | .popM k, v :: st => some { s with pc := s.pc + 1, stack := st, mem := setM s.mem k v }
  | .jfalse d, v :: st => some { s with pc := if !isU v && v == 0 then jump s.pc d else s.pc + 1, stack := v :: st }
  | .jtrue d, v :: st => some { s with pc := if !isU v && v != 0 then jump s.pc d else s.pc + 1, stack := v :: st }
  | .jtrueP d, v :: st => some { s with pc := if !isU v && v != 0 then jump s.pc d else s.pc + 1, stack := st }
  | .iterStartRange, hi :: lo :: st =>
      some { s with pc := s.pc + 1, stack := encIt s.iters.length :: st, iters := s.iters ++ [.range lo hi] }
  | .iterStartEnum, n :: st =>
      if n < 0 ∨ n.toNat > st.length then none else
      some { s with pc := s.pc + 1, stack := encIt s.iters.length :: st.drop n.toNat,
                    iters := s.iters ++ [.list (st.take n.toNat).reverse 0] }
  | .iterStartTextSet, n :: st =>
      if n < 0 ∨ n.toNat > st.length then none else
      some { s with pc := s.pc + 1, stack := encIt s.iters.length :: st.drop n.toNat,
                    iters := s.iters ++ [.list (st.take n.toNat).reverse 0] }
  | .iterStartStrSet, n :: st =>
      -- the strings, then "one last pop of the UNDEFINED string" (the end-of-list marker)
      if n < 0 ∨ n.toNat + 1 > st.length then none else
      some { s with pc := s.pc + 1, stack := encIt s.iters.length :: st.drop (n.toNat + 1),
                    iters := s.iters ++ [.list (st.take n.toNat).reverse 0] }
  | .iterNext, it :: st =>
      match s.iters[decIt it]? with
      | some iter =>
        match iterAdvance iter with
        | some (v, iter') => some { s with pc := s.pc + 1, stack := v :: 0 :: it :: st, iters := s.iters.set (decIt it) iter' }
        | none => next (C.UNDEF :: 1 :: it :: st)
      | none => none
  | .iterCondition, q :: t :: r :: st =>
      next (normW r :: C.b2i (contWord q t (normW r)) :: st)
  | .iterEnd, q :: t :: n :: st =>
      next (endWord q t n :: st)
  | _, _ => none

/-- run until the program counter leaves the code -/
def run (env : Env) (code : Array Instr) : Nat → St → Option St
  | 0, _ => none
  | fuel + 1, s =>
    match code[s.pc]? with
    | none => some s
    | some i => match step env i s with
      | some s' => run env code fuel s'
      | none => none

/-- OP_MATCH_RULE: the rule matches iff the word left on the stack is defined and non-zero -/
def verdictOf (s : St) : Option Bool :=
  match s.stack with
  | [v] => some (!isU v && v != 0)
  | _ => none

end YaraModel.CondVm
