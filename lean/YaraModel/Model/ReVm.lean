/-
  D7 — model of the regular-expression virtual machine of libyara/re.c, executing the REAL bytecode.

    `sync`      mirrors `_yr_re_fiber_sync`  (splits with the executed-split-id set, REPEAT_START/END with the
                 counter stack, REPEAT_ANY with the spinning fiber and its recursive sync, jumps);
    `exec`      mirrors `yr_re_exec`         (fiber list in priority order, de-duplication by (ip, sp, rc, stack),
                 forwards / backwards, exhaustive flag and callback order, scan mode of the `matches` operator,
                 KILL / KILL_TAIL / CONTINUE actions, word boundaries and anchors relative to the whole block);
    `fastExec`  mirrors `yr_re_fast_exec`    (position list with round numbers, insertion point, duplicate test,
                 literal look-ahead pruning, forwards / backwards, exhaustive or first match).

  Byte offsets inside the code are those of the arena section; operands are decoded little-endian exactly as the
  packed structs RE_REPEAT_ARGS / RE_REPEAT_ANY_ARGS and the split instruction (opcode, id, int16 offset).
  The model is total: recursion through the code is bounded by an explicit fuel (`none` = out of fuel).
-/
import YaraModel.Spec.Re
namespace YaraModel.ReVm
open YaraModel.Re

abbrev Code := Array UInt8

def u8 (c : Code) (i : Nat) : Nat := (c[i]?.getD 0).toNat
def u16 (c : Code) (i : Nat) : Nat := u8 c i + 256 * u8 c (i + 1)
def i16 (c : Code) (i : Nat) : Int := let v := u16 c i; if v ≥ 32768 then (v : Int) - 65536 else v
def i32 (c : Code) (i : Nat) : Int :=
  let v := u8 c i + 256 * u8 c (i + 1) + 65536 * u8 c (i + 2) + 16777216 * u8 c (i + 3)
  if v ≥ 2147483648 then (v : Int) - 4294967296 else v

/-! opcodes (include/yara/re.h) -/
def OP_ANY := 0xA0
def OP_LITERAL := 0xA2
def OP_MASKED_LITERAL := 0xA4
def OP_CLASS := 0xA5
def OP_WORD_CHAR := 0xA7
def OP_NON_WORD_CHAR := 0xA8
def OP_SPACE := 0xA9
def OP_NON_SPACE := 0xAA
def OP_DIGIT := 0xAB
def OP_NON_DIGIT := 0xAC
def OP_MATCH := 0xAD
def OP_NOT_LITERAL := 0xAE
def OP_MASKED_NOT_LITERAL := 0xAF
def OP_MATCH_AT_END := 0xB0
def OP_MATCH_AT_START := 0xB1
def OP_WORD_BOUNDARY := 0xB2
def OP_NON_WORD_BOUNDARY := 0xB3
def OP_REPEAT_ANY_GREEDY := 0xB4
def OP_REPEAT_ANY_UNGREEDY := 0xB5
def OP_SPLIT_A := 0xC0
def OP_SPLIT_B := 0xC1
def OP_JUMP := 0xC2
def OP_REPEAT_START_GREEDY := 0xC3
def OP_REPEAT_END_GREEDY := 0xC4
def OP_REPEAT_START_UNGREEDY := 0xC5
def OP_REPEAT_END_UNGREEDY := 0xC6

structure Fiber where
  ip : Nat
  stack : List Nat := []      -- head = stack[sp]
  rc : Int := -1
  deriving DecidableEq, Repr, Inhabited

def addOff (ip : Nat) (off : Int) : Nat := ((ip : Int) + off).toNat

/-- `_yr_re_fiber_sync`: run one fiber (and the fibers it spawns) up to the next matching instruction.
    Returns the resulting fibers in list order, whether the ORIGINAL fiber object is still alive (it is then the
    first element), and the updated set of executed split ids. -/
def sync (code : Code) : Nat → List Nat → Fiber → Option (List Fiber × Bool × List Nat)
  | 0, _, _ => none
  | fuel+1, ex, f =>
    let op := u8 code f.ip
    if op = OP_SPLIT_A ∨ op = OP_SPLIT_B then
      let id := u8 code (f.ip + 1)
      if ex.contains id then some ([], false, ex)
      else
        let nextF : Fiber := { f with ip := f.ip + 4 }
        let jmpF : Fiber := { f with ip := addOff f.ip (i16 code (f.ip + 2)) }
        let o := if op = OP_SPLIT_A then nextF else jmpF
        let c := if op = OP_SPLIT_A then jmpF else nextF
        match sync code fuel (id :: ex) o with
        | none => none
        | some (l1, a1, ex2) =>
          match sync code fuel ex2 c with
          | none => none
          | some (l2, _, ex3) => some (l1 ++ l2, a1, ex3)
    else if op = OP_REPEAT_START_GREEDY ∨ op = OP_REPEAT_START_UNGREEDY then
      let mn := u16 code (f.ip + 1)
      let off := i32 code (f.ip + 5)
      let enter : Fiber := { f with ip := f.ip + 9, stack := 0 :: f.stack }
      let skip : Fiber := { f with ip := addOff f.ip off }
      if mn = 0 then
        let o := if op = OP_REPEAT_START_GREEDY then enter else skip
        let c := if op = OP_REPEAT_START_GREEDY then skip else enter
        match sync code fuel ex o with
        | none => none
        | some (l1, a1, ex2) =>
          match sync code fuel ex2 c with
          | none => none
          | some (l2, _, ex3) => some (l1 ++ l2, a1, ex3)
      else sync code fuel ex enter
    else if op = OP_REPEAT_END_GREEDY ∨ op = OP_REPEAT_END_UNGREEDY then
      let mn := u16 code (f.ip + 1)
      let mx := u16 code (f.ip + 3)
      let off := i32 code (f.ip + 5)
      let cnt := f.stack.headD 0 + 1
      let st := cnt :: f.stack.tail
      let loopF : Fiber := { f with ip := addOff f.ip off, stack := st }
      let exitF : Fiber := { f with ip := f.ip + 9, stack := f.stack.tail }
      if cnt < mn then sync code fuel ex loopF
      else if cnt < mx then
        let o := if op = OP_REPEAT_END_GREEDY then loopF else exitF
        let c := if op = OP_REPEAT_END_GREEDY then exitF else loopF
        match sync code fuel ex o with
        | none => none
        | some (l1, a1, ex2) =>
          match sync code fuel ex2 c with
          | none => none
          | some (l2, _, ex3) => some (l1 ++ l2, a1, ex3)
      else sync code fuel ex exitF
    else if op = OP_REPEAT_ANY_GREEDY ∨ op = OP_REPEAT_ANY_UNGREEDY then
      let mn := u16 code (f.ip + 1)
      let mx := u16 code (f.ip + 3)
      let rc0 : Int := if f.rc = -1 then 0 else f.rc
      if rc0 < mn then some ([{ f with rc := rc0 + 1 }], true, ex)
      else if rc0 < mx then
        let spin : Fiber := { f with rc := rc0 + 1 }
        let cont : Fiber := { f with ip := f.ip + 5, rc := -1 }
        -- the continuing branch is synced by a RECURSIVE call of the C function: fresh executed-split set
        match sync code fuel [] cont with
        | none => none
        | some (l, a, _) =>
          if op = OP_REPEAT_ANY_GREEDY then some (spin :: l, true, ex) else some (l ++ [spin], a, ex)
      else sync code fuel ex { f with ip := f.ip + 5, rc := -1 }
    else if op = OP_JUMP then
      sync code fuel ex { f with ip := addOff f.ip (i16 code (f.ip + 1)) }
    else some ([f], true, ex)

structure VmFlags where
  wide : Bool := false
  nocase : Bool := false
  dotall : Bool := false
  backwards : Bool := false
  exhaustive : Bool := false
  scan : Bool := false
  deriving Repr, Inhabited

inductive Outcome where
  | done (mval : Int) (calls : List Nat)     -- value left in *matches (−1 = none), callback lengths in call order
  | outOfFuel
  deriving Repr, Inhabited, DecidableEq

def byteAt (buf : Bytes) (i : Int) : UInt8 := if i < 0 then 0 else (buf[i.toNat]?).getD 0

/-- `_yr_re_is_word_char` at byte index `i` (no bounds test) -/
def isWordCharAt (buf : Bytes) (cs : Nat) (i : Int) : Bool :=
  isWordByte (byteAt buf i) && (cs != 2 || byteAt buf (i + 1) == 0)

def classBit (code : Code) (ip : Nat) (c : UInt8) : Bool :=
  -- RE_CLASS = { uint8 negated; uint8 bitmap[32] } follows the opcode
  (u8 code (ip + 2 + c.toNat / 8)).testBit (c.toNat % 8)

def sizeOfInstr (op : Nat) : Nat :=
  if op = OP_LITERAL ∨ op = OP_NOT_LITERAL then 2
  else if op = OP_MASKED_LITERAL ∨ op = OP_MASKED_NOT_LITERAL then 3
  else if op = OP_CLASS then 34
  else 1

/-- one-character test of a consuming instruction on byte `c` -/
def consumeTest (code : Code) (fl : VmFlags) (ip : Nat) (buf : Bytes) (cs : Nat) (inp : Int) : Bool :=
  let op := u8 code ip
  let c := byteAt buf inp
  if op = OP_ANY ∨ op = OP_REPEAT_ANY_GREEDY ∨ op = OP_REPEAT_ANY_UNGREEDY then fl.dotall || c != 10
  else if op = OP_LITERAL then
    if fl.nocase then lower c == lower (UInt8.ofNat (u8 code (ip + 1))) else c.toNat == u8 code (ip + 1)
  else if op = OP_NOT_LITERAL then c.toNat != u8 code (ip + 1)
  else if op = OP_MASKED_LITERAL then (c.toNat &&& u8 code (ip + 2)) == u8 code (ip + 1)
  else if op = OP_MASKED_NOT_LITERAL then (c.toNat &&& u8 code (ip + 2)) != u8 code (ip + 1)
  else if op = OP_CLASS then
    let r := classBit code ip c || (fl.nocase && classBit code ip (altercase c))
    if u8 code (ip + 1) != 0 then !r else r
  else if op = OP_WORD_CHAR then isWordCharAt buf cs inp
  else if op = OP_NON_WORD_CHAR then !isWordCharAt buf cs inp
  else if op = OP_SPACE then isSpaceByte c
  else if op = OP_NON_SPACE then !isSpaceByte c
  else if op = OP_DIGIT then isDigitByte c
  else if op = OP_NON_DIGIT then !isDigitByte c
  else false

def isConsuming (op : Nat) : Bool :=
  op = OP_ANY || op = OP_REPEAT_ANY_GREEDY || op = OP_REPEAT_ANY_UNGREEDY || op = OP_LITERAL || op = OP_NOT_LITERAL ||
  op = OP_MASKED_LITERAL || op = OP_MASKED_NOT_LITERAL || op = OP_CLASS || op = OP_WORD_CHAR || op = OP_NON_WORD_CHAR ||
  op = OP_SPACE || op = OP_NON_SPACE || op = OP_DIGIT || op = OP_NON_DIGIT

structure Env where
  code : Code
  entry : Nat            -- offset of the first instruction
  buf : Bytes            -- the whole block
  start : Nat            -- index of `input_data` in the block
  fl : VmFlags
  syncFuel : Nat := 100000

def Env.cs (e : Env) : Nat := if e.fl.wide then 2 else 1
def Env.fwdSize (e : Env) : Nat := e.buf.size - e.start
def Env.bwdSize (e : Env) : Nat := e.start
def Env.maxBytes (e : Env) : Nat :=
  let m := min (if e.fl.backwards then e.bwdSize else e.fwdSize) 1024
  m - m % e.cs
/-- byte index of `input` after `bm` matched bytes -/
def Env.inp (e : Env) (bm : Nat) : Int :=
  if e.fl.backwards then (e.start : Int) - e.cs - bm else (e.start : Int) + bm

structure PassSt where
  kept : List Fiber        -- fibers for the next input position (in order)
  mval : Int
  calls : List Nat
  deriving Inhabited

/-- the consuming instruction at `f.ip` accepts the character at the current input position (`prolog` + the test) -/
def consumeOk (e : Env) (bm : Nat) (f : Fiber) : Bool :=
  !(bm ≥ e.maxBytes || (e.cs == 2 && byteAt e.buf (e.inp bm + 1) != 0)) && consumeTest e.code e.fl f.ip e.buf e.cs (e.inp bm)

/-- the fiber after a consuming instruction (a spinning REPEAT_ANY keeps its instruction pointer) -/
def advance (code : Code) (f : Fiber) : Fiber :=
  if u8 code f.ip = OP_REPEAT_ANY_GREEDY ∨ u8 code f.ip = OP_REPEAT_ANY_UNGREEDY then f
  else { f with ip := f.ip + sizeOfInstr (u8 code f.ip) }

/-- word boundaries and anchors at the current input position (`op` is not consuming and not MATCH) -/
def zeroWidthOk (e : Env) (bm : Nat) (op : Nat) : Bool :=
  let cs := e.cs
  let inp := e.inp bm
  let incr : Int := if e.fl.backwards then -(cs : Int) else cs
  let okRange (i : Int) : Bool := i + cs ≤ e.buf.size && i ≥ 0
  if op = OP_WORD_BOUNDARY ∨ op = OP_NON_WORD_BOUNDARY then
    let prev := inp - incr
    let pw := okRange prev && isWordCharAt e.buf cs prev
    let iw := okRange inp && isWordCharAt e.buf cs inp
    let m := pw != iw
    if op = OP_NON_WORD_BOUNDARY then !m else m
  else if op = OP_MATCH_AT_START then
    if e.fl.backwards then !(e.bwdSize > bm) else !(e.bwdSize > 0 || bm != 0)
  else if op = OP_MATCH_AT_END then
    !(e.fl.backwards || e.fwdSize > bm)
  else false                                  -- `default: assert(false)`

/-- the `while (fiber != NULL)` loop of one input position; `none` = out of fuel -/
def pass (e : Env) (bm : Nat) : Nat → List Fiber → PassSt → Option PassSt
  | 0, _, _ => none
  | fuel+1, [], st => some st
  | fuel+1, f :: rest, st =>
    let op := u8 e.code f.ip
    if isConsuming op then
      if consumeOk e bm f then
        match sync e.code e.syncFuel [] (advance e.code f) with
        | none => none
        | some (l, _, _) => pass e bm fuel rest { st with kept := st.kept ++ l }
      else pass e bm fuel rest st
    else if op = OP_MATCH then
      let st1 := { st with mval := bm }
      if e.fl.exhaustive then pass e bm fuel rest { st1 with calls := st1.calls ++ [bm] }
      else some st1                                -- KILL_TAIL
    else if zeroWidthOk e bm op then
      match sync e.code e.syncFuel [] { f with ip := f.ip + 1 } with
      | none => none
      | some (l, _, _) =>
        -- ACTION_CONTINUE: execution goes on with the fiber that now follows the previous one: the synced fiber itself
        -- when it survived, else the fibers it spawned, then the rest of the list
        pass e bm fuel (l ++ rest) st
    else pass e bm fuel rest st

def dedup : List Fiber → List Fiber → List Fiber
  | [], acc => acc.reverse
  | f :: t, acc => if acc.contains f then dedup t acc else dedup t (f :: acc)

/-- the outer `while (fibers.head != NULL)` loop -/
def loop (e : Env) : Nat → List Fiber → Nat → Int → List Nat → Outcome
  | 0, _, _, _, _ => .outOfFuel
  | fuel+1, fibers, bm, mval, calls =>
    if fibers.isEmpty then .done mval calls
    else if fibers.length > 200 then .outOfFuel      -- the model gives up on fiber explosions (the C code errors at 1024)
    else
      match pass e bm 4000 (dedup fibers []) { kept := [], mval := mval, calls := calls } with
      | none => .outOfFuel
      | some st =>
        let bm' := bm + e.cs
        if e.fl.scan && bm' ≤ e.maxBytes then     -- every position is a possible start, also the one after the last byte
          match sync e.code e.syncFuel [] { ip := e.entry } with
          | none => .outOfFuel
          | some (l, _, _) => loop e fuel (st.kept ++ l) bm' st.mval st.calls
        else loop e fuel st.kept bm' st.mval st.calls

/-- `yr_re_exec` -/
def exec (e : Env) : Outcome :=
  match sync e.code e.syncFuel [] { ip := e.entry } with
  | none => .outOfFuel
  | some (l, _, _) => loop e (e.maxBytes + 4) l 0 (-1) []

/-! ### yr_re_fast_exec -/

structure Pos where
  inp : Int
  round : Nat
  deriving Repr, Inhabited, DecidableEq

inductive FastOutcome where
  | done (mval : Int) (calls : List (Nat × Nat))    -- callbacks (offset in block, length) in call order
  | bad                                                -- unsupported opcode (`assert(false)`)
  | outOfFuel
  deriving Repr, Inhabited, DecidableEq

/-- insert the positions `cur.inp + j*incr` for j = from..mx after the insertion point, exactly as the C loop;
    `pre` (reversed) ++ `post` is the list, the insertion point is the head of `pre` -/
def fastInsert (e : Env) (curInp : Int) (bm : Nat) (incr : Int) (round : Nat) (nextOp : Nat) (nextArg : Nat) :
    Nat → Nat → Nat → List Pos → List Pos → List Pos × List Pos
  | 0, _, _, pre, post => (pre, post)
  | n+1, j, mx, pre, post =>
    if j > mx then (pre, post)
    else if bm + j ≥ e.maxBytes then (pre, post)
    else
      let nextInput := curInp + j * incr
      -- advance the insertion point while its successor is <= next_input
      let rec adv : Nat → List Pos → List Pos → List Pos × List Pos
        | 0, pre, post => (pre, post)
        | k+1, pre, post =>
          match post with
          | p :: t => if p.inp ≤ nextInput then adv k (p :: pre) t else (pre, post)
          | [] => (pre, post)
      let (pre1, post1) := adv (post.length + 1) pre post
      let ipt := pre1.headD { inp := 0, round := 0 }
      if ipt.round = round + 1 ∧ ipt.inp = nextInput then fastInsert e curInp bm incr round nextOp nextArg n (j + 1) mx pre1 post1
      else if nextOp = OP_LITERAL ∧ nextArg ≠ (byteAt e.buf nextInput).toNat then
        fastInsert e curInp bm incr round nextOp nextArg n (j + 1) mx pre1 post1
      else fastInsert e curInp bm incr round nextOp nextArg n (j + 1) mx pre1 ({ inp := nextInput, round := round + 1 } :: post1)

/-- one instruction over the whole position list; `done` = reversed processed prefix.
    Returns the new list, or the early result of a non-exhaustive MATCH. -/
def fastRound (e : Env) (ip : Nat) (round : Nat) :
    Nat → List Pos → List Pos → List (Nat × Nat) → Option (Sum (List Pos × List (Nat × Nat)) Int)
  | 0, _, _, _ => none
  | _+1, done, [], calls => some (.inl (done.reverse, calls))
  | fuel+1, done, cur :: rest, calls =>
    if cur.round ≠ round then fastRound e ip round fuel (cur :: done) rest calls
    else
      let op := u8 e.code ip
      let incr : Int := if e.fl.backwards then -1 else 1
      let bmI : Int := if e.fl.backwards then (e.start : Int) - cur.inp - 1 else cur.inp - e.start
      let bm := bmI.toNat
      let c := byteAt e.buf cur.inp
      let adv : Pos := { inp := cur.inp + incr, round := round + 1 }
      if op = OP_ANY then
        if bm ≥ e.maxBytes then fastRound e ip round fuel done rest calls
        else fastRound e ip round fuel (adv :: done) rest calls
      else if op = OP_LITERAL ∨ op = OP_NOT_LITERAL ∨ op = OP_MASKED_LITERAL ∨ op = OP_MASKED_NOT_LITERAL then
        if bm ≥ e.maxBytes then fastRound e ip round fuel done rest calls
        else
          let ok :=
            if op = OP_LITERAL then c.toNat == u8 e.code (ip + 1)
            else if op = OP_NOT_LITERAL then c.toNat != u8 e.code (ip + 1)
            else if op = OP_MASKED_LITERAL then (c.toNat &&& u8 e.code (ip + 2)) == u8 e.code (ip + 1)
            else (c.toNat &&& u8 e.code (ip + 2)) != u8 e.code (ip + 1)
          if ok then fastRound e ip round fuel (adv :: done) rest calls
          else fastRound e ip round fuel done rest calls
      else if op = OP_REPEAT_ANY_UNGREEDY then
        let mn := u16 e.code (ip + 1)
        let mx := u16 e.code (ip + 3)
        if bm + mn ≥ e.maxBytes then fastRound e ip round fuel done rest calls
        else
          -- the insertion point starts at `current`; new positions are linked in after it
          let (pre, post) := fastInsert e cur.inp bm incr round (u8 e.code (ip + 5)) (u8 e.code (ip + 6)) (mx + 1) (mn + 1) mx [cur] rest
          -- `pre` reversed = current :: inserted/skipped-over entries; current itself advances by min
          let seg := pre.reverse
          let cur' : Pos := { inp := cur.inp + incr * mn, round := round + 1 }
          -- entries after `current` up to the insertion point are still to be visited in this round (they are `next`)
          fastRound e ip round fuel (cur' :: done) (seg.tail ++ post) calls
      else if op = OP_MATCH then
        if e.fl.exhaustive then
          let off : Int := if e.fl.backwards then max (cur.inp + 1) 0 else e.start
          fastRound e ip round fuel done rest (calls ++ [(off.toNat, min bm e.maxBytes)])
        else some (.inr bmI)
      else none

def fastSize (op : Nat) : Nat :=
  if op = OP_ANY then 1 else if op = OP_LITERAL ∨ op = OP_NOT_LITERAL then 2
  else if op = OP_MASKED_LITERAL ∨ op = OP_MASKED_NOT_LITERAL then 3
  else if op = OP_REPEAT_ANY_UNGREEDY then 5 else 0

def fastSupported (op : Nat) : Bool :=
  op = OP_ANY || op = OP_LITERAL || op = OP_NOT_LITERAL || op = OP_MASKED_LITERAL || op = OP_MASKED_NOT_LITERAL ||
  op = OP_REPEAT_ANY_UNGREEDY || op = OP_MATCH

def fastLoop (e : Env) : Nat → Nat → Nat → List Pos → List (Nat × Nat) → FastOutcome
  | 0, _, _, _, _ => .outOfFuel
  | fuel+1, ip, round, ps, calls =>
    if ps.isEmpty then .done (-1) calls
    else if !fastSupported (u8 e.code ip) then .bad
    else
      match fastRound e ip round (ps.length * 2 + 70000) [] ps calls with
      | none => .outOfFuel
      | some (.inr m) => .done m calls
      | some (.inl (ps', calls')) => fastLoop e fuel (ip + fastSize (u8 e.code ip)) (round + 1) ps' calls'

/-- `yr_re_fast_exec` -/
def fastExec (e : Env) : FastOutcome :=
  let first : Pos := { inp := if e.fl.backwards then (e.start : Int) - 1 else e.start, round := 0 }
  fastLoop e (e.code.size + 8) e.entry 0 [first] []

end YaraModel.ReVm
