/-
  The file-handle discipline of the file-name API of rules.c (yr_rules_load, yr_rules_save): the function
  bodies as straight-line programs over the statements that matter for the FILE handle (generated from the
  source by translators/rulesfile.py into Gen/RulesFile.lean), and their executions under every outcome of
  the library calls they make.
-/
namespace YaraModel.RulesFile

inductive Stmt
  | fopen          -- fh = fopen(filename, mode)
  | retIfNull      -- if (fh == NULL) return ERROR_COULD_NOT_OPEN_FILE;
  | call           -- result = f(...);  falls through whatever f returns
  | failOnError    -- FAIL_ON_ERROR(f(...)): returns at once when f fails
  | failClose      -- FAIL_ON_ERROR_WITH_CLEANUP(f(...), fclose(fh))
  | fclose         -- fclose(fh)
  | ret            -- return …
deriving DecidableEq, Repr

/-- number of FILE handles the function still holds when it returns; `opened`: fh is an open handle;
    `outcomes`: success (true) / failure of the library calls in the order they are made (a missing outcome
    counts as success) -/
def exec : List Stmt → Bool → List Bool → Nat
  | [], opened, _ => if opened then 1 else 0
  | .fopen :: t, _, o => exec t (o.headD true) o.tail
  | .retIfNull :: t, opened, o => if opened then exec t opened o else 0
  | .call :: t, opened, o => exec t opened o.tail
  | .failOnError :: t, opened, o => if o.headD true then exec t opened o.tail else (if opened then 1 else 0)
  | .failClose :: t, opened, o => if o.headD true then exec t opened o.tail else 0
  | .fclose :: t, _, o => exec t false o
  | .ret :: _, opened, _ => if opened then 1 else 0

/-- static check: on every path to a return the handle has been closed (or was never opened) -/
def balanced : List Stmt → Bool → Bool
  | [], opened => !opened
  | .fopen :: t, _ => balanced t true && balanced t false
  | .retIfNull :: t, opened => if opened then balanced t opened else true
  | .call :: t, opened => balanced t opened
  | .failOnError :: t, opened => !opened && balanced t opened
  | .failClose :: t, opened => balanced t opened
  | .fclose :: t, _ => balanced t false
  | .ret :: _, opened => !opened

end YaraModel.RulesFile
