/-
  C16 — allocation monad and ports of libyara functions with non-trivial cleanup.

  `AllocM` is a state monad over the allocator state `Heap` (request counter + set of live
  blocks), parametrised by a failure oracle `fail : Nat → Bool` (`fail k` = the k-th request,
  counted from 0 over the whole run, returns NULL). Block ids are the request indices, so a
  fresh block is never already live.

  Ports (the model follows the code, including its defects; `…Fixed` variants model the
  proposed patches of notes/C16-*.diff):
    ahocorasick.c   _yr_ac_queue_push/_pop and the BFS loops (`_yr_ac_create_failure_links` shape)
    rules.c         yr_rules_define_string_variable, yr_rules_load_stream + yr_rules_from_arena
    hash.c          yr_hash_table_add_raw_key
    notebook.c      yr_notebook_create / _alloc / _destroy
    scanner.c       yr_scanner_create (staged construction) / yr_scanner_destroy
-/
import YaraModel.Gen.OomSites
namespace YaraModel.AllocM

structure Heap where
  next : Nat            -- index of the next allocation request
  live : List Nat       -- ids of live blocks
deriving DecidableEq, Repr

abbrev AllocM (α : Type) := Heap → α × Heap

instance : Monad AllocM where
  pure a := fun h => (a, h)
  bind m f := fun h => let r := m h; f r.1 r.2

variable (fail : Nat → Bool)

/-- `yr_malloc`/`yr_calloc`/`yr_strdup`: `none` = NULL. Every request advances the counter. -/
def alloc : AllocM (Option Nat) := fun h =>
  if fail h.next then (none, { h with next := h.next + 1 })
  else (some h.next, { next := h.next + 1, live := h.next :: h.live })

/-- `yr_free` (freeing NULL is a no-op: use `freeOpt`). -/
def free (b : Nat) : AllocM Unit := fun h => ((), { h with live := h.live.filter (· ≠ b) })

def freeOpt : Option Nat → AllocM Unit
  | none => fun h => ((), h)
  | some b => free b

def freeAll : List Nat → AllocM Unit
  | [] => fun h => ((), h)
  | b :: bs => fun h => freeAll bs (free b h).2

inductive Res | ok | insufficientMemory
deriving DecidableEq, Repr

/-! ## 1. Aho-Corasick BFS queue (ahocorasick.c:67-130, 215-326) -/

/-- the trie: a state with its children -/
inductive Trie | node (children : List Trie)

def Trie.children : Trie → List Trie | .node cs => cs

/-- A queue entry: the malloc'd QUEUE_NODE and the state it carries. -/
abbrev Queue := List (Nat × Trie)

/-- `FAIL_ON_ERROR(_yr_ac_queue_push(&queue, state))` over a sibling list: stops at the first
    failure and returns the error **leaving the queue as it is** (the caller just returns). -/
def pushAll : List Trie → Queue → AllocM (Res × Queue)
  | [], q => fun h => ((.ok, q), h)
  | t :: ts, q => fun h =>
    match alloc fail h with
    | (none, h1) => ((.insufficientMemory, q), h1)
    | (some b, h1) => pushAll ts (q ++ [(b, t)]) h1

/-- The BFS loop: pop (frees the node), push the children. `fuel` bounds the number of pops
    (any value ≥ number of states suffices). Returns the error code and the queue that is
    abandoned on the stack frame when the function returns. -/
def bfs : Nat → Queue → AllocM (Res × Queue)
  | 0, q => fun h => ((.ok, q), h)
  | _ + 1, [] => fun h => ((.ok, []), h)
  | n + 1, (b, t) :: q => fun h =>
    let h1 := (free b h).2
    match pushAll fail t.children q h1 with
    | ((.ok, q'), h2) => bfs n q' h2
    | ((.insufficientMemory, q'), h2) => ((.insufficientMemory, q'), h2)

/-- `_yr_ac_create_failure_links`: push the root's children, then run the loop. -/
def createFailureLinks (fuel : Nat) (root : Trie) : AllocM Res := fun h =>
  match pushAll fail root.children [] h with
  | ((.insufficientMemory, _), h1) => (.insufficientMemory, h1)
  | ((.ok, q), h1) =>
    match bfs fail fuel q h1 with
    | ((r, _), h2) => (r, h2)

/-- Proposed patch: on a failed push drain the queue before returning. -/
def createFailureLinksFixed (fuel : Nat) (root : Trie) : AllocM Res := fun h =>
  match pushAll fail root.children [] h with
  | ((.insufficientMemory, q), h1) => (.insufficientMemory, (freeAll (q.map (·.1)) h1).2)
  | ((.ok, q), h1) =>
    match bfs fail fuel q h1 with
    | ((.ok, q'), h2) => (.ok, (freeAll (q'.map (·.1)) h2).2)
    | ((.insufficientMemory, q'), h2) => (.insufficientMemory, (freeAll (q'.map (·.1)) h2).2)

/-- `_yr_ac_build_transition_table`: the same queue discipline, but between the pop and the pushes every state
    also calls `_yr_ac_find_suitable_transition_table_slot`, which may grow the tables (one allocation, owned by the
    automaton and released by `yr_ac_automaton_destroy`). `clearOnSlotFail = false` is the code before
    notes/C16-15-ahocorasick-transition-table.diff (`FAIL_ON_ERROR(slot…)` returns with the queue populated),
    `true` the patched code (`FAIL_ON_ERROR_WITH_CLEANUP(slot…, _yr_ac_queue_clear(&queue))`); failed pushes clear
    the queue in both (fix 19c266d). Returns the outcome and the blocks now owned by the automaton. -/
def buildTable (clearOnSlotFail : Bool) : Nat → Queue → List Nat → AllocM (Res × List Nat)
  | 0, q, owned => fun h => ((.ok, owned), (freeAll (q.map (·.1)) h).2)
  | _ + 1, [], owned => fun h => ((.ok, owned), h)
  | n + 1, (b, t) :: q, owned => fun h =>
    let h1 := (free b h).2
    match alloc fail h1 with
    | (none, h2) =>
      ((.insufficientMemory, owned), if clearOnSlotFail then (freeAll (q.map (·.1)) h2).2 else h2)
    | (some a, h2) =>
      match pushAll fail t.children q h2 with
      | ((.ok, q'), h3) => buildTable clearOnSlotFail n q' (a :: owned) h3
      | ((.insufficientMemory, q'), h3) => ((.insufficientMemory, a :: owned), (freeAll (q'.map (·.1)) h3).2)

def Trie.size : Trie → Nat
  | .node cs => 1 + sizeList cs
where sizeList : List Trie → Nat
  | [] => 0
  | t :: ts => t.size + sizeList ts

/-! ## 2. Rules-level string external (rules.c:130-170) -/

inductive ExtType | string | mallocString
deriving DecidableEq, Repr

structure Ext where
  type : ExtType
  value : Option Nat      -- the malloc'd copy (for `.string` the value lives in the arena: `none` here)
deriving DecidableEq, Repr

/-- the invariant every reader of an external relies on (`strlen(external->value.s)`) -/
def Ext.wellFormed (e : Ext) : Prop := e.type = .mallocString → e.value.isSome

instance (e : Ext) : Decidable e.wellFormed := by unfold Ext.wellFormed; infer_instance

/-- `yr_rules_define_string_variable` on a matching external. -/
def defineString (e : Ext) : AllocM (Res × Ext) := fun h =>
  let h1 := if e.type = .mallocString then (freeOpt e.value h).2 else h
  match alloc fail h1 with
  | (none, h2) => ((.insufficientMemory, { type := .mallocString, value := none }), h2)
  | (some b, h2) => ((.ok, { type := .mallocString, value := some b }), h2)

/-- Proposed patch: duplicate first, replace only on success. -/
def defineStringFixed (e : Ext) : AllocM (Res × Ext) := fun h =>
  match alloc fail h with
  | (none, h1) => ((.insufficientMemory, e), h1)
  | (some b, h1) =>
    let h2 := if e.type = .mallocString then (freeOpt e.value h1).2 else h1
    ((.ok, { type := .mallocString, value := some b }), h2)

/-! ## 3. yr_rules_load_stream (rules.c) -/

/-- `yr_arena_load_stream` reduced to its allocations: the arena struct and `n` buffers;
    on failure everything allocated so far is released (arena.c does `yr_arena_release`). -/
def arenaLoad : Nat → List Nat → AllocM (Option (List Nat))
  | 0, acc => fun h => (some acc, h)
  | n + 1, acc => fun h =>
    match alloc fail h with
    | (none, h1) => (none, (freeAll acc h1).2)
    | (some b, h1) => arenaLoad n (b :: acc) h1

/-- `yr_rules_from_arena`: YR_RULES struct, then the bitmask; frees the struct if the second fails.
    Returns the blocks owned by the new YR_RULES object (which then co-owns the arena). -/
def rulesFromArena : AllocM (Option (List Nat)) := fun h =>
  match alloc fail h with
  | (none, h1) => (none, h1)
  | (some r, h1) =>
    match alloc fail h1 with
    | (none, h2) => (none, (free r h2).2)
    | (some m, h2) => (some [r, m], h2)

/-- `yr_rules_load_stream`: `FAIL_ON_ERROR(yr_rules_from_arena(arena, rules))` returns without
    releasing the arena it owns. Result: blocks owned by the returned YR_RULES (incl. arena). -/
def loadStream (nbuf : Nat) : AllocM (Option (List Nat)) := fun h =>
  match arenaLoad fail (nbuf + 1) [] h with
  | (none, h1) => (none, h1)
  | (some arena, h1) =>
    match rulesFromArena fail h1 with
    | (none, h2) => (none, h2)                       -- arena leaked
    | (some rs, h2) => (some (rs ++ arena), h2)

/-- Proposed patch: `FAIL_ON_ERROR_WITH_CLEANUP(yr_rules_from_arena(...), yr_arena_release(arena))`. -/
def loadStreamFixed (nbuf : Nat) : AllocM (Option (List Nat)) := fun h =>
  match arenaLoad fail (nbuf + 1) [] h with
  | (none, h1) => (none, h1)
  | (some arena, h1) =>
    match rulesFromArena fail h1 with
    | (none, h2) => (none, (freeAll arena h2).2)
    | (some rs, h2) => (some (rs ++ arena), h2)

/-! ## 4. yr_hash_table_add_raw_key (hash.c) -/

/-- entry, key copy, optional namespace copy; each failure frees what precedes it.
    Returns the blocks now owned by the table. -/
def hashAdd (withNs : Bool) : AllocM (Option (List Nat)) := fun h =>
  match alloc fail h with
  | (none, h1) => (none, h1)
  | (some e, h1) =>
    match alloc fail h1 with
    | (none, h2) => (none, (free e h2).2)
    | (some k, h2) =>
      if withNs then
        match alloc fail h2 with
        | (none, h3) => (none, (free e (free k h3).2).2)
        | (some ns, h3) => (some [e, k, ns], h3)
      else (some [e, k], h2)

/-! ## 5. Notebook (notebook.c) -/

structure Notebook where
  self : Nat
  pages : List Nat
deriving DecidableEq, Repr

def notebookCreate : AllocM (Option Notebook) := fun h =>
  match alloc fail h with
  | (none, h1) => (none, h1)
  | (some nb, h1) =>
    match alloc fail h1 with
    | (none, h2) => (none, (free nb h2).2)
    | (some p, h2) => (some ⟨nb, [p]⟩, h2)

/-- `yr_notebook_alloc`; `needPage` says whether the request does not fit the current page.
    `none` = NULL returned; the notebook is unchanged then. -/
def notebookAlloc (nb : Notebook) (needPage : Bool) : AllocM (Bool × Notebook) := fun h =>
  if needPage then
    match alloc fail h with
    | (none, h1) => ((false, nb), h1)
    | (some p, h1) => ((true, { nb with pages := p :: nb.pages }), h1)
  else ((true, nb), h)

def notebookDestroy (nb : Notebook) : AllocM Unit := fun h =>
  (free nb.self (freeAll nb.pages h).2)

/-- any sequence of notebook allocations (stopping at the first NULL, as every caller does) -/
def notebookUse : Notebook → List Bool → AllocM (Bool × Notebook)
  | nb, [] => fun h => ((true, nb), h)
  | nb, r :: rs => fun h =>
    match notebookAlloc fail nb r h with
    | ((false, nb'), h1) => ((false, nb'), h1)
    | ((true, nb'), h1) => notebookUse nb' rs h1

/-! ## 6. yr_scanner_create / yr_scanner_destroy (scanner.c:236-375) -/

structure Scanner where
  self : Nat
  table : List Nat              -- hash table struct + entries + the objects it owns
  arrays : List (Option Nat)    -- the six calloc'd arrays (NULL allowed in the struct)
deriving DecidableEq, Repr

def scannerDestroy (s : Scanner) : AllocM Unit := fun h =>
  let h1 := (freeAll s.table h).2
  let h2 := (freeAll (s.arrays.filterMap id) h1).2
  free s.self h2

/-- the six `yr_calloc`s issued back to back; the NULL test comes after all of them -/
def allocArrays : Nat → List (Option Nat) → AllocM (List (Option Nat))
  | 0, acc => fun h => (acc.reverse, h)
  | n + 1, acc => fun h => let r := alloc fail h; allocArrays n (r.1 :: acc) r.2

/-- one external: `yr_object_from_external_variable` (object + identifier, for a string external also
    the value copy; freed by itself on failure) then `yr_hash_table_add` (entry + key); cleanup on
    failure is `yr_object_destroy(object); yr_scanner_destroy(new_scanner)`. -/
def addExternal (isStr : Bool) (s : Scanner) : AllocM (Option Scanner) := fun h =>
  match alloc fail h with
  | (none, h1) => (none, (scannerDestroy s h1).2)
  | (some o, h1) =>
    match alloc fail h1 with
    | (none, h2) => (none, (scannerDestroy s (free o h2).2).2)
    | (some idn, h2) =>
      let rv : Option (List Nat) × Heap :=
        if isStr then
          match alloc fail h2 with
          | (none, h3) => (none, h3)
          | (some v, h3) => (some [v], h3)
        else (some [], h2)
      match rv with
      | (none, h3) => (none, (scannerDestroy s (free idn (free o h3).2).2).2)
      | (some val, h3) =>
        match hashAdd fail false h3 with
        | (none, h4) => (none, (scannerDestroy s (freeAll val (free idn (free o h4).2).2).2).2)
        | (some ent, h4) => (some { s with table := s.table ++ [o, idn] ++ val ++ ent }, h4)

def addExternals : List Bool → Scanner → AllocM (Option Scanner)
  | [], s => fun h => (some s, h)
  | e :: es, s => fun h =>
    match addExternal fail e s h with
    | (none, h1) => (none, h1)
    | (some s', h1) => addExternals es s' h1

def scannerCreate (externals : List Bool) : AllocM (Option Scanner) := fun h =>
  match alloc fail h with
  | (none, h1) => (none, h1)
  | (some self, h1) =>
    match alloc fail h1 with                          -- yr_hash_table_create
    | (none, h2) => (none, (free self h2).2)
    | (some tbl, h2) =>
      let r := allocArrays fail 6 [] h2
      let s : Scanner := ⟨self, [tbl], r.1⟩
      if r.1.any Option.isNone then (none, (scannerDestroy s r.2).2)
      else addExternals fail externals s r.2

/-! ## 7. Error propagation over a match list (scanner.c `_yr_scanner_scan_mem_block`) -/

/-- The verification loop over the entries of a state's match list. `stopAtFirst = true` is
    `GOTO_EXIT_ON_ERROR(yr_scan_verify_match(...))` (what `Gen.OomSites.verifyStopsAtFirstError` reads from the
    source); `false` models `result = yr_scan_verify_match(...)` tested once after the loop. Each entry is the
    outcome of one verification. -/
def verifyLoop (stopAtFirst : Bool) : Res → List Res → Res
  | acc, [] => acc
  | acc, r :: rs =>
    if stopAtFirst then (if r = .ok then verifyLoop stopAtFirst .ok rs else r)
    else verifyLoop stopAtFirst r rs

/-! ## 8. Position list of `yr_re_fast_exec` (re.c:2111-2400) -/

/-- positions are malloc'd blocks; the scanner's pool keeps released ones (freed by `yr_scanner_destroy`).
    `lastIdx` is the index in `list` of the node the `last` pointer designates (pointer identity: inserting a
    node before it shifts the index, nothing else does). -/
structure FastExec where
  pool : List Nat        -- `context->re_fast_exec_position_pool`
  list : List Nat        -- the position list, `first` = head
  lastIdx : Nat
deriving DecidableEq, Repr

/-- `_yr_re_fast_exec_position_create`: reuse from the pool, else `yr_malloc` -/
def positionCreate (st : FastExec) : AllocM (Option Nat × FastExec) := fun h =>
  match st.pool with
  | p :: ps => ((some p, { st with pool := ps }), h)
  | [] =>
    match alloc fail h with
    | (none, h1) => ((none, st), h1)
    | (some b, h1) => ((some b, st), h1)

/-- `_yr_re_fast_exec_destroy_position_list(pool, first, last)`: splices `first … last` in front of the pool
    (`last->next = pool->head`); the nodes that followed `last` are cut off and returned as orphans. -/
def destroyList (st : FastExec) : FastExec × List Nat :=
  ({ pool := st.list.take (st.lastIdx + 1) ++ st.pool, list := [], lastIdx := 0 }, st.list.drop (st.lastIdx + 1))

/-- The insertion loop of RE_OPCODE_REPEAT_ANY_UNGREEDY: `k` new positions, each inserted right after the previous
    one (the inputs increase with `j`), the first one after index `ip`. `tailInLoop` = the tail pointer is updated
    inside the loop (`if (insertion_point == last) last = new_input;`) — what `Gen.OomSites.fastExecTailInLoop`
    reads from the source; `false` = `last` is only walked to the end after the loop. A failed creation runs the
    cleanup `destroyList`. Returns the outcome, the state and the orphaned nodes. -/
def insertLoop (tailInLoop : Bool) : Nat → Nat → FastExec → AllocM (Res × FastExec × List Nat)
  | 0, _, st => fun h =>
    ((.ok, (if tailInLoop then st else { st with lastIdx := st.list.length - 1 }), []), h)
  | k + 1, ip, st => fun h =>
    match positionCreate fail st h with
    | ((none, st1), h1) => let d := destroyList st1; ((.insufficientMemory, d.1, d.2), h1)
    | ((some b, st1), h1) =>
      let st2 : FastExec :=
        { st1 with list := st1.list.take (ip + 1) ++ b :: st1.list.drop (ip + 1),
                   lastIdx := if ip < st1.lastIdx then st1.lastIdx + 1
                              else if tailInLoop then ip + 1 else st1.lastIdx }
      insertLoop tailInLoop k (ip + 1) st2 h1


end YaraModel.AllocM
