/-
  Model of libyara/arena.c (+ the load/save parts of rules.c and the fread-like stream contract of
  stream.c).  Small total functions that follow the C code statement by statement; the layout
  constants come from Gen/ArenaLayout.lean (regenerated from the sources on every run).

  Addresses are natural numbers.  A buffer is (used bytes, capacity, base address); base 0 is the
  NULL `data` pointer of a buffer that was never allocated.  Pointer slots are 8 little-endian
  bytes.  The allocator (realloc) is a parameter: every operation that may grow a buffer receives
  the address the allocator hands out (`newBase`); theorems quantify over it.
-/
import YaraModel.Gen.ArenaLayout
namespace YaraModel.Arena
open YaraModel.Gen.ArenaLayout

abbrev Bytes := List UInt8

/-! ## little-endian fields -/

def byteAt (v i : Nat) : UInt8 := UInt8.ofNat (v / 256 ^ i % 256)

def leBytes (k v : Nat) : Bytes := (List.range k).map (byteAt v)

def leVal : Bytes → Nat
  | [] => 0
  | b :: t => b.toNat + 256 * leVal t

/-- read a k-byte little-endian field at `off` (missing bytes read as absent, i.e. 0) -/
def rdLE (k : Nat) (d : Bytes) (off : Nat) : Nat := leVal ((d.drop off).take k)

def rd64 (d : Bytes) (off : Nat) : Nat := rdLE 8 d off

/-- memcpy of an 8-byte value into the buffer (no effect when the slot is not inside the data:
    the C code would write out of bounds there; callers test `off + 8 ≤ length` first) -/
def wr64 (d : Bytes) (off v : Nat) : Bytes :=
  if off + 8 ≤ d.length then
    d.mapIdx (fun i x => if off ≤ i ∧ i < off + 8 then byteAt v (i - off) else x)
  else d

/-- memcpy of arbitrary bytes at `off` (client writes into allocated memory) -/
def wrBytes (d : Bytes) (off : Nat) (bs : Bytes) : Bytes :=
  if off + bs.length ≤ d.length then
    d.mapIdx (fun i x => if off ≤ i ∧ i < off + bs.length then bs.getD (i - off) x else x)
  else d

/-! ## references -/

structure Ref where
  buf : Nat
  off : Nat
deriving DecidableEq, Repr, Inhabited

/-- YR_ARENA_NULL_REF = { UINT32_MAX, UINT32_MAX } as an 8-byte value -/
def nullRefVal : Nat := 2 ^ 64 - 1

/-- the 8-byte image of a YR_ARENA_REF (buffer_id and offset are uint32 fields) -/
def encRef : Option Ref → Nat
  | none => nullRefVal
  | some r => (r.buf % 2 ^ 32) * 2 ^ (8 * refBufOff) + (r.off % 2 ^ 32) * 2 ^ (8 * refOffOff)

def decRef (v : Nat) : Option Ref :=
  if v % 2 ^ 64 = nullRefVal then none
  else some ⟨v / 2 ^ (8 * refBufOff) % 2 ^ 32, v / 2 ^ (8 * refOffOff) % 2 ^ 32⟩

def refBytes (r : Ref) : Bytes := leBytes 8 (encRef (some r))

/-! ## arena -/

structure Buf where
  data : Bytes := []      -- the `used` bytes
  cap : Nat := 0          -- `size`
  base : Nat := 0         -- `data` (0 = NULL)
  dirty : Bool := false   -- spare capacity [used, cap) may hold non-zero garbage
deriving Repr, Inhabited, DecidableEq

structure Arena where
  bufs : List Buf
  relocs : List Ref := []
  init : Nat := 0         -- initial_buffer_size
  /-- set when a "zeroed" allocation was served from spare capacity that was never zeroed
      (`_yr_arena_allocate_memory` only clears memory on the growth path): contents unspecified -/
  unspec : Bool := false
deriving Repr, Inhabited, DecidableEq

inductive Err
  | invalidArgument | insufficientMemory | invalidFile | corruptFile | unsupportedFileVersion
  | assertFail      -- an `assert` of arena.c fails (asserts are enabled in the verification build)
  | outOfBounds     -- the code's own tests pass but the access is outside the used bytes (UB)
deriving Repr, DecidableEq, Inhabited

def create (n init : Nat) : Arena := { bufs := List.replicate n {}, relocs := [], init := init }

def Arena.bufAt (a : Arena) (i : Nat) : Buf := a.bufs.getD i {}

def Arena.setBuf (a : Arena) (i : Nat) (b : Buf) : Arena := { a with bufs := a.bufs.set i b }

def getSlot (a : Arena) (r : Ref) : Nat := rd64 (a.bufAt r.buf).data r.off

def setSlot (a : Arena) (r : Ref) (v : Nat) : Arena :=
  { a with bufs := a.bufs.modify r.buf (fun b => { b with data := wr64 b.data r.off v }) }

/-- the slot lies inside the used bytes of an existing buffer -/
def InB (a : Arena) (r : Ref) : Prop := r.off + 8 ≤ (a.bufAt r.buf).data.length ∧ r.buf < a.bufs.length

instance (a : Arena) (r : Ref) : Decidable (InB a r) := by unfold InB; exact inferInstance

/-- range tests as written in arena.c (`>=`/`<`; the comparison operators are read from the source) -/
def geLo (incl : Bool) (lo p : Nat) : Bool := if incl then decide (lo ≤ p) else decide (lo < p)
def ltHi (excl : Bool) (p hi : Nat) : Bool := if excl then decide (p < hi) else decide (p ≤ hi)

/-- yr_arena_ptr_to_ref: first buffer (with non-NULL data) whose used range contains the address -/
def findBuf (p : Nat) : List Buf → Nat → Option Ref
  | [], _ => none
  | b :: t, i =>
    if b.base ≠ 0 ∧ geLo ptrToRefLowerInclusive b.base p ∧ ltHi ptrToRefUpperExclusive p (b.base + b.data.length)
    then some ⟨i, p - b.base⟩ else findBuf p t (i + 1)

/-- (found, ref): `found = false` is the `assert(found)` failure of yr_arena_save_stream -/
def ptrToRef (bufs : List Buf) (p : Nat) : Bool × Option Ref :=
  if p = 0 then (true, none) else
  match findBuf p bufs 0 with
  | some r => (true, some r)
  | none => (false, none)

/-- yr_arena_ref_to_ptr / yr_arena_get_ptr with their asserts -/
def refToPtr (bufs : List Buf) : Option Ref → Except Err Nat
  | none => .ok 0
  | some r =>
    if r.buf < bufs.length then
      let b := bufs.getD r.buf {}
      if r.off ≤ b.data.length then .ok (if b.base = 0 then 0 else b.base + r.off)
      else .error .assertFail
    else .error .assertFail

/-! ## growth -/

def dblUntil : Nat → Nat → Nat → Nat
  | 0, s, _ => s
  | f + 1, s, need => if s < need then dblUntil f (s * 2) need else s

/-- `new_size` of `_yr_arena_allocate_memory` (the loop `while (new_size < used + size) new_size *= 2`;
    it does not terminate for initial size 0, which `create` callers never pass) -/
def newCap (init cap used size : Nat) : Nat :=
  dblUntil (used + size) (if cap = 0 then init else cap * 2) (used + size)

/-- the new value of a relocatable pointer when the block [old, old+used) moves to `new` -/
def retarget (old used new p : Nat) : Nat :=
  if geLo fixupLowerInclusive old p ∧ ltHi fixupUpperExclusive p (old + used) then p - old + new else p

/-- the fix-up loop over the relocation list (arena.c:183-213) -/
def fixups (a : Arena) (old used new : Nat) : Arena :=
  a.relocs.foldl (fun a r => setSlot a r (retarget old used new (getSlot a r))) a

structure Cfg where
  alwaysMove : Bool := false     -- hook yr_verif_arena_always_move

/-- the growth path of `_yr_arena_allocate_memory`: realloc returned `newBase` for the new capacity
    `nc`; if the block moved, the relocation list is walked and pointers into the old block are
    adjusted; `zero` = YR_ARENA_ZERO_MEMORY (the new spare capacity is cleared) -/
def growBuf (a : Arena) (b newBase nc : Nat) (zero : Bool) : Arena :=
  let bf := a.bufAt b
  let a1 := if bf.base ≠ 0 ∧ bf.base ≠ newBase then fixups a bf.base bf.data.length newBase else a
  a1.setBuf b { data := (a1.bufAt b).data, cap := nc, base := newBase, dirty := !zero }

/-- `_yr_arena_allocate_memory` followed by filling the region with `fill`
    (`zero = true`: YR_ARENA_ZERO_MEMORY, `fill` is all zeros; otherwise write_data's memcpy).
    `newBase` is what realloc returns if the growth path is taken. -/
def allocMem (cfg : Cfg) (newBase : Nat) (a : Arena) (b : Nat) (zero : Bool) (fill : Bytes) :
    Except Err (Arena × Ref) :=
  if b < a.bufs.length then
    let bf := a.bufAt b
    let size := fill.length
    let used := bf.data.length
    let cap := if cfg.alwaysMove ∧ bf.base ≠ 0 ∧ size > 0 then used else bf.cap
    if cap - used < size then
      let nc := newCap a.init cap used size
      if nc > 2 ^ maxBufferSizeLog2 then .error .insufficientMemory else
      let a1 := growBuf a b newBase nc zero
      .ok (a1.setBuf b { a1.bufAt b with data := (a1.bufAt b).data ++ fill }, ⟨b, used⟩)
    else
      .ok ({ a with unspec := a.unspec || (zero && bf.dirty && size > 0) }.setBuf b
            { bf with data := bf.data ++ fill, cap := cap }, ⟨b, used⟩)
  else .error .invalidArgument

/-- `_yr_arena_make_ptr_relocatable`: append entries (base_offset + offset) to the list -/
def makeRelocs (a : Arena) (b base : Nat) (offs : List Nat) : Arena :=
  { a with relocs := a.relocs ++ offs.map (fun o => ⟨b, (base + o) % 2 ^ 32⟩) }

/-! ## operations driven by clients (compiler, parser, automaton builder) -/

inductive Op
  | write (b : Nat) (bytes : Bytes)                 -- yr_arena_write_data
  | zalloc (b size : Nat)                           -- yr_arena_allocate_zeroed_memory
  | struct (b size : Nat) (offs : List Nat)         -- yr_arena_allocate_struct(…, offs…, EOL)
  | reloc (b off : Nat)                             -- yr_arena_make_ptr_relocatable(b, off, EOL)
  | setPtr (slot : Ref) (target : Option Ref)       -- *(void**)slot = yr_arena_ref_to_ptr(target)
  | ptr (b : Nat) (target : Option Ref)             -- write_data(&ptr) + make_ptr_relocatable (emit_with_arg_reloc)
  | poke (at_ : Ref) (bytes : Bytes)                -- memcpy into already allocated memory
  | ref (slot : Ref)                                -- yr_arena_ptr_to_ref(*(void**) yr_arena_get_ptr(slot))
  | rt (target : Option Ref)                        -- yr_arena_ptr_to_ref(yr_arena_ref_to_ptr(target))
  /-- make_ptr_relocatable(slot) and *(void**)slot = yr_arena_ref_to_ptr(target), in either order with no allocation
      in between, whatever the slot held before (compiler.c: the value.s field of a string external) -/
  | regPtr (slot : Ref) (target : Option Ref)
deriving Repr

/-- what a client observes from an operation, free of addresses: the reference an allocation returns,
    the result of a pointer → reference query -/
inductive Out
  | unit
  | ref (r : Ref)                  -- the YR_ARENA_REF handed back by an allocation
  | found (r : Option Ref)         -- yr_arena_ptr_to_ref returned 1 with this reference (none = YR_ARENA_NULL_REF)
  | notFound                       -- yr_arena_ptr_to_ref returned 0
deriving Repr, DecidableEq, Inhabited

def zeros (n : Nat) : Bytes := List.replicate n 0

def queryOut (pr : Bool × Option Ref) : Out := if pr.1 then .found pr.2 else .notFound

/-- one client operation with what the client observes; `newBase` is the allocator's answer should a buffer grow -/
def exec (cfg : Cfg) (newBase : Nat) (a : Arena) : Op → Except Err (Arena × Out)
  | .write b bytes =>
      match allocMem cfg newBase a b false bytes with
      | .ok (a1, r) => .ok (a1, .ref r)
      | .error e => .error e
  | .zalloc b size =>
      match allocMem cfg newBase a b true (zeros size) with
      | .ok (a1, r) => .ok (a1, .ref r)
      | .error e => .error e
  | .struct b size offs =>
      match allocMem cfg newBase a b true (zeros size) with
      | .ok (a1, r) => .ok (makeRelocs a1 b r.off offs, .ref r)
      | .error e => .error e
  | .reloc b off => .ok (makeRelocs a b 0 [off], .unit)
  | .setPtr slot target =>
      match refToPtr a.bufs target with
      | .ok p => if InB a slot then .ok (setSlot a slot p, .unit) else .error .outOfBounds
      | .error e => .error e
  | .ptr b target =>
      match refToPtr a.bufs target with
      | .ok p =>
        match allocMem cfg newBase a b false (leBytes 8 p) with
        | .ok (a1, r) => .ok (makeRelocs a1 b 0 [r.off], .ref r)
        | .error e => .error e
      | .error e => .error e
  | .poke at_ bytes =>
      if at_.buf < a.bufs.length ∧ at_.off + bytes.length ≤ (a.bufAt at_.buf).data.length then
        .ok (a.setBuf at_.buf { a.bufAt at_.buf with data := wrBytes (a.bufAt at_.buf).data at_.off bytes }, .unit)
      else .error .outOfBounds
  | .ref slot =>
      if InB a slot then .ok (a, queryOut (ptrToRef a.bufs (getSlot a slot))) else .error .outOfBounds
  | .rt target =>
      match refToPtr a.bufs target with
      | .ok p => .ok (a, queryOut (ptrToRef a.bufs p))
      | .error e => .error e
  | .regPtr slot target =>
      match refToPtr a.bufs target with
      | .ok p => if InB a slot then .ok (setSlot (makeRelocs a slot.buf 0 [slot.off]) slot p, .unit) else .error .outOfBounds
      | .error e => .error e

/-- one client operation (the arena afterwards) -/
def step (cfg : Cfg) (newBase : Nat) (a : Arena) (op : Op) : Except Err Arena :=
  match exec cfg newBase a op with
  | .ok (a1, _) => .ok a1
  | .error e => .error e

/-- run a sequence; the i-th operation gets the i-th address of the schedule -/
def run (cfg : Cfg) : List Nat → Arena → List Op → Except Err Arena
  | _, a, [] => .ok a
  | [], a, op :: ops => do let a1 ← step cfg 0 a op; run cfg [] a1 ops
  | nb :: nbs, a, op :: ops => do let a1 ← step cfg nb a op; run cfg nbs a1 ops

/-- run a sequence and collect what the client observes at every step; the i-th operation gets the
    i-th address of the allocator's schedule (0 = realloc fails to deliver once the schedule is used up) -/
def runOut (cfg : Cfg) : List Nat → Arena → List Op → Except Err (Arena × List Out)
  | _, a, [] => .ok (a, [])
  | nbs, a, op :: ops =>
    match exec cfg (nbs.headD 0) a op with
    | .error e => .error e
    | .ok (a1, o) =>
      match runOut cfg nbs.tail a1 ops with
      | .error e => .error e
      | .ok (a2, os) => .ok (a2, o :: os)

/-! ## save (yr_arena_save_stream) -/

/-- first loop: every relocatable pointer is replaced by the reference it denotes.  The Boolean is
    the conjunction of the `assert(found)` tests (a pointer outside the arena; in a build without
    asserts the null reference is written) -/
def toRefsStep (bufs : List Buf) (x : Arena × Bool) (r : Ref) : Arena × Bool :=
  let pr := ptrToRef bufs (getSlot x.1 r)
  (setSlot x.1 r (encRef pr.2), x.2 && pr.1)

def toRefsC (a : Arena) : Arena × Bool := a.relocs.foldl (toRefsStep a.bufs) (a, true)

def toRefs (a : Arena) : Arena := (toRefsC a).1

/-- `assert(found)` holds for every entry of the relocation list -/
def saveOk (a : Arena) : Bool := (toRefsC a).2

/-- last loop: references are converted back to pointers (yr_arena_ref_to_ptr asserts on a
    reference outside the arena; the Boolean is the conjunction of those asserts) -/
def restoreStep (bufs : List Buf) (x : Arena × Bool) (r : Ref) : Arena × Bool :=
  match refToPtr bufs (decRef (getSlot x.1 r)) with
  | .ok p => (setSlot x.1 r p, x.2)
  | .error _ => (x.1, false)

def restoreC (a : Arena) : Arena × Bool := a.relocs.foldl (restoreStep a.bufs) (a, true)

def restore (a : Arena) : Arena := (restoreC a).1

def header (n : Nat) : Bytes := magic ++ [UInt8.ofNat fileVersion, UInt8.ofNat n]

def tableEntry (offset size : Nat) : Bytes := leBytes tblOffsetSize offset ++ leBytes tblSizeSize size

def table : Nat → List Nat → Bytes
  | _, [] => []
  | off, u :: us => tableEntry off u ++ table (off + u % 2 ^ 32) us

def relocBytes (rs : List Ref) : Bytes := rs.flatMap refBytes

def bodies (a : Arena) : List Bytes := a.bufs.map (·.data)

/-- what is common to every arena that differs only in addresses: the buffer contents with every
    registered pointer replaced by the (buffer, offset) it denotes, and the relocation list -/
def abs (a : Arena) : List Bytes × List Ref := (bodies (toRefs a), a.relocs)

/-- the bytes written by yr_arena_save_stream -/
def save (a : Arena) : Bytes :=
  let n := a.bufs.length
  header n
    ++ table (headerSize + tableEntrySize * n) ((bodies a).map (·.length))
    ++ (bodies (toRefs a)).flatten
    ++ relocBytes a.relocs

/-- the arena after saving -/
def afterSave (a : Arena) : Arena := restore (toRefs a)

/-- yr_arena_save_stream with its asserts: the bytes written and the arena afterwards -/
def saveFull (a : Arena) : Except Err (Bytes × Arena) :=
  if saveOk a ∧ (restoreC (toRefs a)).2 then .ok (save a, afterSave a) else .error .assertFail

/-! ## load (yr_arena_load_stream) on the complete byte content of a stream obeying the fread contract -/

def parseHeader (s : Bytes) : Except Err (Nat × Bytes) :=
  if s.length < headerSize then .error .invalidFile            -- yr_stream_read(&hdr, 6, 1) != 1
  else if s.take 4 ≠ magic then .error .invalidFile
  else if (s.getD hdrVersionOff 0).toNat ≠ fileVersion then .error .unsupportedFileVersion
  else if (s.getD hdrNumBuffersOff 0).toNat > maxBuffers then .error .invalidFile
  else .ok ((s.getD hdrNumBuffersOff 0).toNat, s.drop headerSize)

/-- yr_stream_read(buffers, 12, n): the number of complete entries delivered must be n -/
def parseTable (n : Nat) (s : Bytes) : Except Err (List Nat × Bytes) :=
  if (min (tableEntrySize * n) s.length) / tableEntrySize ≠ n then .error .corruptFile
  else .ok ((List.range n).map (fun i => rdLE tblSizeSize s (tableEntrySize * i + tblSizeOff)), s.drop (tableEntrySize * n))

/-- bodies: empty buffers are skipped; others are allocated (capacity `loadInitialSize` doubled until it
    fits, at most 4 GB) at the address the allocator returns and read with one fread -/
def readBodies (alloc : Nat → Nat) : Nat → List Nat → Bytes → Except Err (List Buf × Bytes)
  | _, [], s => .ok ([], s)
  | i, size :: rest, s =>
    if size = 0 then do
      let (bs, s') ← readBodies alloc (i + 1) rest s
      pure ({} :: bs, s')
    else
      let nc := newCap loadInitialSize 0 0 size
      if nc > 2 ^ maxBufferSizeLog2 then .error .insufficientMemory
      else if s.length < size then .error .corruptFile
      else do
        let (bs, s') ← readBodies alloc (i + 1) rest (s.drop size)
        pure ({ data := s.take size, cap := nc, base := alloc i, dirty := true } :: bs, s')

/-- which optional validations the loader performs (read from arena.c by the translator, so that the
    model follows the code when the hardening proposed in notes/C17-loader-validation.diff is applied) -/
structure LoaderCfg where
  checksOffsets : Bool     -- buffer-table offsets must be the running sum of the sizes
  relocGuarded : Bool      -- `used < sizeof(void*)` tested before `offset > used - sizeof(void*)`
  validatesRefs : Bool     -- the reference found in a slot must be null or point into used bytes
  refStrict : Bool         -- … `offset >= used` (true) or `offset > used` (false) is refused
  rejectsPartial : Bool    -- a trailing partial relocation entry is an error
deriving Repr, DecidableEq

/-- the loader of the source tree the model was generated from -/
def loaderCfg : LoaderCfg :=
  { checksOffsets := loaderChecksOffsets, relocGuarded := relocTestGuarded, validatesRefs := loaderValidatesRefs,
    refStrict := loaderRefStrict, rejectsPartial := loaderRejectsPartial }

/-- cross-check of the buffer table: entry i's offset is `expected`, the next one's is `expected + size_i` -/
def offsetsOk (s : Bytes) : Nat → Nat → List Nat → Bool
  | _, _, [] => true
  | i, expected, size :: rest =>
    rdLE tblOffsetSize s (tableEntrySize * i + tblOffsetOff) == expected % 2 ^ 64 && offsetsOk s (i + 1) (expected + size) rest

/-- the loader's test on a relocation entry, as written:
    `buffer_id >= num_buffers || offset > used - sizeof(void*) || data == NULL`  (size_t arithmetic;
    `used - 8` wraps for used < 8 unless the guarded form is used) -/
def relocRejected (cfg : LoaderCfg) (a : Arena) (r : Ref) : Bool :=
  let b := a.bufAt r.buf
  let used := b.data.length
  decide (r.buf ≥ a.bufs.length)
    || (if cfg.relocGuarded then decide (used < 8) || decide (r.off > used - 8)
        else decide (r.off > (used + 2 ^ 64 - 8) % 2 ^ 64))
    || decide (b.base = 0)

/-- the (optional) validation of the reference stored in a slot -/
def refRefused (cfg : LoaderCfg) (a : Arena) : Option Ref → Bool
  | none => false
  | some t => decide (t.buf ≥ a.bufs.length) ||
      (if cfg.refStrict then decide (t.off ≥ (a.bufAt t.buf).data.length) else decide (t.off > (a.bufAt t.buf).data.length))

/-- the relocation loop: 8-byte entries until the stream is exhausted; a trailing partial entry
    makes `yr_stream_read(…, 8, 1)` return 0 and is silently dropped (or refused, see `LoaderCfg`) -/
def applyRelocs (cfg : LoaderCfg) (a : Arena) : Bytes → Except Err Arena
  | b0 :: b1 :: b2 :: b3 :: b4 :: b5 :: b6 :: b7 :: rest =>
    match decRef (leVal [b0, b1, b2, b3, b4, b5, b6, b7]) with
    | none => .error .corruptFile     -- buffer_id = 0xFFFFFFFF >= num_buffers
    | some r =>
      if relocRejected cfg a r then .error .corruptFile
      else if ¬ InB a r then .error .outOfBounds       -- `used - 8` wrapped: memcpy beyond the used bytes
      else if cfg.validatesRefs && refRefused cfg a (decRef (getSlot a r)) then .error .corruptFile
      else
        match refToPtr a.bufs (decRef (getSlot a r)) with
        | .error e => .error e
        | .ok p => applyRelocs cfg { setSlot a r p with relocs := a.relocs ++ [r] } rest
  | [] => .ok a
  | _ => if cfg.rejectsPartial then .error .corruptFile else .ok a

def load (cfg : LoaderCfg) (alloc : Nat → Nat) (s : Bytes) : Except Err Arena := do
  let (n, s1) ← parseHeader s
  let (sizes, s2) ← parseTable n s1
  if cfg.checksOffsets && !offsetsOk s1 0 (headerSize + tableEntrySize * n) sizes then .error .corruptFile
  else
    let (bufs, s3) ← readBodies alloc 0 sizes s2
    applyRelocs cfg { bufs := bufs, relocs := [], init := loadInitialSize } s3

/-- yr_rules_load_stream = arena load + yr_rules_from_arena's test that the summary buffer exists
    (`yr_arena_get_ptr` asserts `buffer_id < num_buffers`) -/
def summarySection : Nat := 11

def loadRules (cfg : LoaderCfg) (alloc : Nat → Nat) (s : Bytes) : Except Err Arena := do
  let a ← load cfg alloc s
  if a.bufs.length ≤ summarySection then .error .assertFail
  else if (a.bufAt summarySection).base = 0 then .error .corruptFile
  else pure a

/-! ## streams delivering data in chunks (fread contract) -/

/-- take `n` bytes from a list of chunks: (bytes delivered, remaining chunks) -/
def readChunks : Nat → List Bytes → Bytes × List Bytes
  | 0, cs => ([], cs)
  | _, [] => ([], [])
  | n + 1, [] :: cs => readChunks (n + 1) cs
  | n + 1, (x :: c) :: cs => let (got, rest) := readChunks n (c :: cs); (x :: got, rest)

/-- loading through a chunked stream: every `yr_stream_read(ptr, size, count)` request of the loader is
    served by `readChunks (size*count)`; the loader sees the number of complete items -/
def loadVia (cfg : LoaderCfg) (alloc : Nat → Nat) (cs : List Bytes) : Except Err Arena :=
  let (hdr, cs1) := readChunks headerSize cs
  match parseHeader hdr with
  | .error e => .error e
  | .ok (n, _) =>
    let (tbl, cs2) := readChunks (tableEntrySize * n) cs1
    match parseTable n tbl with
    | .error e => .error e
    | .ok (sizes, _) =>
      if cfg.checksOffsets && !offsetsOk tbl 0 (headerSize + tableEntrySize * n) sizes then .error .corruptFile else
      let rec bodiesVia (i : Nat) (sizes : List Nat) (cs : List Bytes) : Except Err (List Buf × List Bytes) :=
        match sizes with
        | [] => .ok ([], cs)
        | size :: rest =>
          if size = 0 then do
            let (bs, cs') ← bodiesVia (i + 1) rest cs
            pure ({} :: bs, cs')
          else
            let nc := newCap loadInitialSize 0 0 size
            if nc > 2 ^ maxBufferSizeLog2 then .error .insufficientMemory
            else
              let (d, cs') := readChunks size cs
              if d.length < size then .error .corruptFile
              else do
                let (bs, cs'') ← bodiesVia (i + 1) rest cs'
                pure ({ data := d, cap := nc, base := alloc i, dirty := true } :: bs, cs'')
      match bodiesVia 0 sizes cs2 with
      | .error e => .error e
      | .ok (bufs, cs3) =>
        -- the relocation loop issues 8-byte reads until one comes back short
        let rec relocsVia (fuel : Nat) (a : Arena) (cs : List Bytes) : Except Err Arena :=
          match fuel with
          | 0 => .ok a
          | fuel + 1 =>
            let (e, cs') := readChunks relocEntrySize cs
            if e.length < relocEntrySize then applyRelocs cfg a e
            else
              match applyRelocs cfg a e with
              | .error err => .error err
              | .ok a' => relocsVia fuel a' cs'
        relocsVia ((cs3.map (·.length)).sum / relocEntrySize + 1) { bufs := bufs, relocs := [], init := loadInitialSize } cs3

end YaraModel.Arena
