/-
  D7 — model of the chain bookkeeping of libyara/scan.c for strings split at a large jump
  (`_yr_scan_verify_chained_string_match`, `_yr_scan_update_match_chain_length`, `_yr_scan_add_match_to_list`).

  A chained string is a list of pieces  S0 <- S1 <- ... <- Sk ;  piece i ≥ 1 carries (chain_gap_min, chain_gap_max)
  relative to piece i-1.  Verified matches of the pieces arrive one by one (`Ev`); matches of non-tail pieces wait in
  the per-piece lists of unconfirmed matches (sorted by offset, ONE entry per offset), a match of the tail confirms the
  heads connected to it through in-range gaps.
-/
namespace YaraModel.ReChain

structure UM where
  off : Nat
  len : Nat
  chainLen : Nat := 0
  deriving DecidableEq, Repr, Inhabited

structure Gap where
  gmin : Nat
  gmax : Nat
  deriving Repr, Inhabited

/-- a verified match of piece `piece` at `off` with length `len` handed to `_yr_scan_match_callback` -/
structure Ev where
  piece : Nat
  off : Nat
  len : Nat
  deriving Repr, Inhabited, DecidableEq

/-- `_yr_scan_add_match_to_list(match, list, replace_if_exists = false)`: keep the list sorted by offset, ignore a
    match whose offset is already present -/
def addSorted (m : UM) : List UM → List UM
  | [] => [m]
  | x :: t => if m.off = x.off then x :: t else if m.off < x.off then m :: x :: t else x :: addSorted m t

def addConfirmed (o l : Nat) : List (Nat × Nat) → List (Nat × Nat)
  | [] => [(o, l)]
  | x :: t => if o = x.1 then x :: t else if o < x.1 then (o, l) :: x :: t else x :: addConfirmed o l t

/-- `ending_offset + gap_max >= match_offset && ending_offset + gap_min <= match_offset` -/
def gapOk (g : Gap) (m : UM) (o : Nat) : Bool := m.off + m.len + g.gmax ≥ o && m.off + m.len + g.gmin ≤ o

structure St where
  unconf : List (List UM)          -- one list per piece (the tail's list stays empty)
  confirmed : List (Nat × Nat)     -- (offset, length) of the whole string
  deriving Repr, Inhabited

def getL (l : List (List UM)) (i : Nat) : List UM := l.getD i []
def setL (l : List (List UM)) (i : Nat) (v : List UM) : List (List UM) := l.set i v

/-- does the entry of piece `j` at offset `off` need the update (it exists and its chain_length differs)? -/
def needsUpd (u : List (List UM)) (j off cl : Nat) : Bool :=
  match (getL u j).find? (·.off = off) with
  | none => false
  | some m => m.chainLen != cl

def mark (u : List (List UM)) (j off cl : Nat) : List (List UM) :=
  setL u j ((getL u j).map fun x => if x.off = off then { x with chainLen := cl } else x)

/-- `_yr_scan_update_match_chain_length(string = piece j, match_to_update = the entry at offset `off`, chain_length = cl)` -/
def updLen (gaps : List Gap) : Nat → Nat → Nat → List (List UM) → List (List UM)
  | 0, off, cl, u => if needsUpd u 0 off cl then mark u 0 off cl else u
  | j' + 1, off, cl, u =>
    if needsUpd u (j' + 1) off cl then
      let u1 := mark u (j' + 1) off cl
      -- the gap of piece j relative to piece j-1 is gaps[j-1]
      let g := gaps.getD j' { gmin := 0, gmax := 0 }
      (getL u1 j').foldl (fun acc m' => if gapOk g m' off then updLen gaps j' m'.off (cl + 1) acc else acc) u1
    else u

/-- `YR_RE_SCAN_LIMIT + YR_MAX_ATOM_LENGTH`: how far before the current candidate a LATER candidate of the same piece can
    start (candidates arrive in the order of their atoms' end, not of the matches' start) -/
def window : Nat := 1024 + 4

/-- the scan of the previous piece's unconfirmed list: remove entries that are out of reach for the current and every
    later candidate (`ending + gap_max + YR_RE_SCAN_LIMIT + YR_MAX_ATOM_LENGTH < lowest_offset`) until the first entry
    at a legal distance is found -/
def pruneScan (g : Gap) (lowest o : Nat) : List UM → List UM × Bool
  | [] => ([], false)
  | m :: t =>
    if m.off + m.len + g.gmax + window < lowest then pruneScan g lowest o t
    else if gapOk g m o then (m :: t, true)
    else
      let (t', found) := pruneScan g lowest o t
      (m :: t', found)

/-- `_yr_scan_verify_chained_string_match` for piece `ev.piece` of a chain with `gaps.length + 1` pieces -/
def verify (gaps : List Gap) (st : St) (ev : Ev) : St :=
  let last := gaps.length
  let i := ev.piece
  match i with
  | 0 =>
    if last = 0 then st
    else { st with unconf := setL st.unconf 0 (addSorted { off := ev.off, len := ev.len } (getL st.unconf 0)) }
  | i' + 1 =>
    let g := gaps.getD i' { gmin := 0, gmax := 0 }
    let lowest := match getL st.unconf i with | [] => ev.off | m :: _ => m.off
    let (prev', found) := pruneScan g lowest ev.off (getL st.unconf i')
    let u1 := setL st.unconf i' prev'
    if !found then { st with unconf := u1 }
    else if i = last then
      -- tail: mark every connected chain, then move the fully connected heads to the confirmed list
      let u2 := (getL u1 i').foldl (fun acc m => if gapOk g m ev.off then updLen gaps i' m.off 1 acc else acc) u1
      let heads := getL u2 0
      let done := heads.filter (·.chainLen = last)
      let u3 := setL u2 0 (heads.filter (·.chainLen ≠ last))
      { unconf := u3, confirmed := done.foldl (fun acc m => addConfirmed m.off (ev.off - m.off + ev.len) acc) st.confirmed }
    else { st with unconf := setL u1 i (addSorted { off := ev.off, len := ev.len } (getL u1 i)) }

def init (gaps : List Gap) : St := { unconf := List.replicate (gaps.length + 1) [], confirmed := [] }

def run (gaps : List Gap) (evs : List Ev) : St := evs.foldl (verify gaps) (init gaps)

end YaraModel.ReChain
