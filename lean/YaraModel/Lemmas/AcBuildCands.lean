/- Aho-Corasick construction, helper lemmas 14: from "the scan reports exactly the atom occurrences" to the per-string
   contract `CandsOK` of C01/C05 (same argument as `candsOK_of_cert` in Thm/AcCert.lean, with the exactness as a hypothesis) -/
import YaraModel.Lemmas.AcCertLemmas
import YaraModel.Lemmas.TextFinal
namespace YaraModel.AC.Build
open YaraModel.Text YaraModel.AC

theorem suffix_take_iff' (buf a : Bytes) (k : Nat) (hk : k ≤ buf.length) (ha : a.length ≤ k) :
    a <:+ buf.take k ↔ (buf.drop (k - a.length)).take a.length = a := by
  rw [List.suffix_iff_eq_drop]
  have hl : (buf.take k).length = k := by simp; omega
  rw [hl, List.drop_take]
  have : k - (k - a.length) = a.length := by omega
  rw [this]
  exact eq_comm

/-- exact scan ⇒ the per-string contract -/
theorem candsOK_of_exact (T : Tables) (atoms : List (Nat × Atom)) (buf : Bytes)
    (hexact : ∀ x, x ∈ scan T buf ↔ ∃ k, k ≤ buf.length ∧ x ∈ expectedAt atoms (buf.take k)) (sidx w : Nat) (m : Mods) (s : Bytes)
    (hat : ∀ a, (sidx, a) ∈ atoms ↔ a ∈ atomsOf w m s) :
    CandsOK w m s buf ((scan T buf).filterMap fun x => if x.1 = sidx then some (x.2.1, x.2.2) else none) := by
  constructor
  · intro c hcm
    simp only [List.mem_filterMap] at hcm
    obtain ⟨x, hx, hxc⟩ := hcm
    split at hxc
    · rename_i hs
      simp only [Option.some.injEq] at hxc
      obtain ⟨k, hk, hex⟩ := (hexact x).mp hx
      unfold expectedAt at hex
      simp only [List.mem_filterMap] at hex
      obtain ⟨sa, hsa, hsome⟩ := hex
      split at hsome
      · rename_i hcond
        simp only [Bool.and_eq_true, List.isSuffixOf_iff_suffix, decide_eq_true_eq] at hcond
        simp only [Option.some.injEq] at hsome
        have hlen : (buf.take k).length = k := by simp; omega
        rw [hlen] at hcond hsome
        have hsidx : sa.1 = sidx := by rw [← hs, ← hsome]
        refine ⟨sa.2, (hat sa.2).mp (by rw [← hsidx]; exact hsa), ?_, ?_⟩
        · unfold atomAt
          rw [← hxc, ← hsome]
          simp only
          rw [window_eq_some]
          have h1 := (suffix_take_iff' buf sa.2.bytes k hk (by omega)).mp hcond.1
          refine ⟨by omega, ?_⟩
          have : k - (sa.2.bytes.length + sa.2.backtrack) + sa.2.backtrack = k - sa.2.bytes.length := by omega
          rw [this]; exact h1.symm
        · rw [← hxc, ← hsome]
      · cases hsome
    · cases hxc
  · intro a ha o hao
    simp only [List.mem_filterMap]
    refine ⟨(sidx, o, a.bytes.length + a.backtrack), ?_, by simp⟩
    apply (hexact _).mpr
    unfold atomAt at hao
    rw [window_eq_some] at hao
    obtain ⟨hb, heq⟩ := hao
    refine ⟨o + a.backtrack + a.bytes.length, hb, ?_⟩
    unfold expectedAt
    simp only [List.mem_filterMap]
    refine ⟨(sidx, a), (hat a).mpr ha, ?_⟩
    have hlen : (buf.take (o + a.backtrack + a.bytes.length)).length = o + a.backtrack + a.bytes.length := by simp; omega
    have hsuf : a.bytes <:+ buf.take (o + a.backtrack + a.bytes.length) := by
      apply (suffix_take_iff' buf a.bytes _ hb (by omega)).mpr
      have : o + a.backtrack + a.bytes.length - a.bytes.length = o + a.backtrack := by omega
      rw [this]; exact heq.symm
    have hsuf2 := List.isSuffixOf_iff_suffix.mpr hsuf
    simp only [hlen, hsuf2, Bool.true_and]
    have hle : a.bytes.length + a.backtrack ≤ o + a.backtrack + a.bytes.length := by omega
    simp only [hle, decide_true, if_true, Option.some.injEq, Prod.mk.injEq, true_and, and_true]
    omega


end YaraModel.AC.Build
