/- Aho-Corasick construction, helper lemmas 4: paths of a trie, `lsuf` over them, match-pool surgery (`lastMatch`, `setNext`) -/
import YaraModel.Lemmas.AcBuildBfs
namespace YaraModel.AC.Build
open YaraModel.Text YaraModel.AC

/-- the set of paths of the automaton -/
def pathsOf (A : Auto) : List Bytes := (List.range A.states.size).map fun i => (A.st i).path

theorem mem_pathsOf {A : Auto} {p : Bytes} : p ∈ pathsOf A ↔ ∃ i, i < A.states.size ∧ (A.st i).path = p := by
  simp [pathsOf]

theorem pathsOf_congr {A B : Auto} (hs : B.states.size = A.states.size) (hsh : ∀ i, shape B i = shape A i) : pathsOf B = pathsOf A := by
  unfold pathsOf
  rw [hs]
  apply List.map_congr_left
  intro i _
  have := hsh i
  simp only [shape, Prod.mk.injEq] at this
  exact this.2.2.2

theorem Trie.nil_mem {A : Auto} (hT : Trie A) : [] ∈ pathsOf A := mem_pathsOf.mpr ⟨0, hT.size_pos, hT.root_path⟩

theorem Trie.prefixClosed {A : Auto} (hT : Trie A) : PrefixClosed (pathsOf A) := by
  intro p c hp
  obtain ⟨i, hi, hpi⟩ := mem_pathsOf.mp hp
  have h0 : 0 < i := by
    rcases Nat.eq_zero_or_pos i with h | h
    · subst h; rw [hT.root_path] at hpi; simp at hpi
    · exact h
  obtain ⟨q, hq1, hq2⟩ := hT.has_parent i h0 hi
  have := hT.child_path q hq1 i hq2
  rw [hpi] at this
  exact mem_pathsOf.mpr ⟨q, hq1, (List.append_inj' this rfl).1.symm⟩

theorem lsuf_of_mem (P : List Bytes) (w : Bytes) (h : w ∈ P) : lsuf P w = w := by
  cases w with
  | nil => rfl
  | cons c t => simp only [lsuf]; rw [if_pos (by simpa using h)]

theorem lsuf_of_not_mem (P : List Bytes) (c : UInt8) (t : Bytes) (h : c :: t ∉ P) : lsuf P (c :: t) = lsuf P t := by
  simp only [lsuf]; rw [if_neg (by simpa using h)]

theorem lsuf_length_le (P : List Bytes) (w : Bytes) : (lsuf P w).length ≤ w.length :=
  (lsuf_suffix P w).length_le

/-- no transition on `c` out of `s`: the extended path is not a path -/
theorem Trie.not_path_of_no_child {A : Auto} (hT : Trie A) {s : Nat} {c : UInt8} (hs : s < A.states.size)
    (hno : ∀ n ∈ (A.st s).children, (A.st n).input ≠ c) : (A.st s).path ++ [c] ∉ pathsOf A := by
  intro h
  obtain ⟨j, hj, hp⟩ := mem_pathsOf.mp h
  have := hT.child_of_path hs hj hp
  exact hno j this.1 this.2

/-- the failure step on paths: if `w ++ [c]` (w ≠ []) is not a path, its longest path-suffix is reached from the longest
    path-suffix of `w.tail` -/
theorem lsuf_fail_step (P : List Bytes) (hP : [] ∈ P) (hpc : PrefixClosed P) (w : Bytes) (c : UInt8) (hw : w ≠ [])
    (hno : w ++ [c] ∉ P) : lsuf P (w ++ [c]) = lsuf P (lsuf P w.tail ++ [c]) := by
  cases w with
  | nil => exact absurd rfl hw
  | cons a t =>
    rw [List.cons_append] at hno ⊢
    rw [lsuf_of_not_mem P a (t ++ [c]) hno, List.tail_cons]
    exact lsuf_step P hP hpc t c

theorem tail_append_singleton (w : Bytes) (c : UInt8) (hw : w ≠ []) : (w ++ [c]).tail = w.tail ++ [c] := by
  cases w with
  | nil => exact absurd rfl hw
  | cons a t => rfl

/-! ### pool surgery -/

theorem poolNext_eq (A : Auto) (i1 : Nat) : poolNext A i1 = poolNextAt A.pool (i1 - 1) := rfl

theorem setNext_st (A : Auto) (i1 nx : Nat) (j : Nat) : (setNext A i1 nx).st j = A.st j := rfl

@[simp] theorem setNext_states (A : Auto) (i1 nx : Nat) : (setNext A i1 nx).states = A.states := rfl

@[simp] theorem setNext_pool_size (A : Auto) (i1 nx : Nat) : (setNext A i1 nx).pool.size = A.pool.size := by
  simp [setNext]

theorem setNext_next (A : Auto) (i1 nx e : Nat) :
    poolNextAt (setNext A i1 nx).pool e = if e = i1 - 1 ∧ e < A.pool.size then nx else poolNextAt A.pool e := by
  unfold setNext poolNextAt
  simp only [Array.getD_eq_getD_getElem?, Array.getElem?_setIfInBounds]
  by_cases h : i1 - 1 = e
  · subst h
    by_cases h2 : i1 - 1 < A.pool.size
    · simp [h2]
    · simp [h2]
  · have : ¬ (e = i1 - 1 ∧ e < A.pool.size) := fun hh => h hh.1.symm
    simp [h, this]

theorem setNext_info (A : Auto) (i1 nx e : Nat) (a b : Nat) (h : ∃ n, A.pool[e]? = some (a, b, n)) :
    ∃ n, (setNext A i1 nx).pool[e]? = some (a, b, n) := by
  obtain ⟨n, hn⟩ := h
  unfold setNext
  simp only [Array.getElem?_setIfInBounds]
  by_cases h1 : i1 - 1 = e
  · subst h1
    have hlt : i1 - 1 < A.pool.size := (Array.getElem?_eq_some_iff.mp hn).1
    refine ⟨nx, ?_⟩
    have hg : A.pool[i1 - 1] = (a, b, n) := (Array.getElem?_eq_some_iff.mp hn).2
    simp [hlt, Array.getD_eq_getD_getElem?, hg]
  · exact ⟨n, by simp [h1, hn]⟩

theorem setNext_noop (A : Auto) (i1 : Nat) : setNext A i1 (poolNext A i1) = A := by
  unfold setNext poolNext
  cases A with
  | mk states pool =>
    simp only [Auto.mk.injEq, true_and]
    apply Array.ext_getElem?
    intro j
    simp only [Array.getElem?_setIfInBounds, Array.getD_eq_getD_getElem?]
    by_cases hij : i1 - 1 = j
    · subst hij
      by_cases h2 : i1 - 1 < pool.size
      · simp [h2]
      · simp [h2]
    · simp [hij]

theorem ChainSeg.split {pool : Array (Nat × Nat × Nat)} {r tl : Nat} {l1 l2 : List Nat} (h : ChainSeg pool r (l1 ++ l2) tl) :
    ∃ m, ChainSeg pool r l1 m ∧ ChainSeg pool m l2 tl := by
  induction l1 generalizing r with
  | nil => exact ⟨r, rfl, by simpa using h⟩
  | cons e l ih =>
    simp only [List.cons_append, ChainSeg] at h
    obtain ⟨m, h1, h2⟩ := ih h.2.2
    exact ⟨m, ⟨h.1, h.2.1, h1⟩, h2⟩

/-- `lastMatch` walks a null-terminated list to its last entry -/
theorem lastMatch_spec (A : Auto) (init : List Nat) : ∀ (last r fuel : Nat), ChainSeg A.pool r (init ++ [last]) 0 →
    init.length ≤ fuel → lastMatch A fuel r = last + 1 := by
  induction init with
  | nil =>
    intro last r fuel h _
    simp only [List.nil_append, ChainSeg] at h
    cases fuel with
    | zero => simp [lastMatch, h.1]
    | succ f =>
      simp only [lastMatch]
      rw [if_pos (by rw [poolNext_eq, h.1]; simpa using h.2.2), h.1]
  | cons e init ih =>
    intro last r fuel h hl
    simp only [List.cons_append, ChainSeg] at h
    cases fuel with
    | zero => simp at hl
    | succ f =>
      simp only [lastMatch]
      have hne : poolNext A r ≠ 0 := by
        rw [poolNext_eq, h.1]
        simp only [Nat.add_sub_cancel]
        cases init with
        | nil => have := h.2.2; simp only [List.nil_append, ChainSeg] at this; omega
        | cons e' init' => have := h.2.2; simp only [List.cons_append, ChainSeg] at this; omega
      rw [if_neg hne, poolNext_eq, h.1]
      simp only [Nat.add_sub_cancel]
      exact ih last _ f h.2.2 (by simpa using hl)

/-- redirecting the `next` of the last entry of a duplicate-free null-terminated list -/
theorem ChainSeg.setNext_last {A : Auto} {r last : Nat} {init : List Nat} (h : ChainSeg A.pool r (init ++ [last]) 0)
    (hn : (init ++ [last]).Nodup) (v : Nat) : ChainSeg (setNext A (last + 1) v).pool r (init ++ [last]) v := by
  obtain ⟨m, h1, h2⟩ := h.split
  have hnotin : last ∉ init := by
    rw [List.nodup_append] at hn
    intro hmem
    exact hn.2.2 last hmem last (by simp) rfl
  refine ChainSeg.append (m := m) ?_ ?_
  · apply h1.congr (by simp)
    intro e he
    rw [setNext_next]
    have : ¬ (e = last + 1 - 1 ∧ e < A.pool.size) := by
      intro hh
      simp only [Nat.add_sub_cancel] at hh
      exact hnotin (hh.1 ▸ he)
    rw [if_neg this]
  · simp only [ChainSeg] at h2 ⊢
    refine ⟨h2.1, by simpa using h2.2.1, ?_⟩
    rw [setNext_next]
    simp [h2.2.1]

/-- a list untouched by the redirection -/
theorem ChainSeg.setNext_frame {A : Auto} {r tl : Nat} {l : List Nat} (h : ChainSeg A.pool r l tl) (i1 v : Nat)
    (hnotin : i1 - 1 ∉ l) : ChainSeg (setNext A i1 v).pool r l tl := by
  apply h.congr (by simp)
  intro e he
  rw [setNext_next]
  have : ¬ (e = i1 - 1 ∧ e < A.pool.size) := fun hh => hnotin (hh.1 ▸ he)
  rw [if_neg this]

end YaraModel.AC.Build
