/-
  The driver's set evaluator (Model/ReEval.lean) computes the specification:
      q ∈ r.endsSet fl buf S ↔ ∃ p ∈ S, q ∈ r.ends fl buf p        (for position sets inside the buffer)
-/
import YaraModel.Model.ReEval
import YaraModel.Lemmas.Re
namespace YaraModel.Re

/-- `F` is the set-level lifting of `f` -/
def Lifts (F : List Nat → List Nat) (f : Nat → List Nat) (bound : Nat) : Prop :=
  ∀ (X : List Nat), (∀ x, x ∈ X → x ≤ bound) → ∀ q, q ∈ F X ↔ ∃ x, x ∈ X ∧ q ∈ f x

theorem mem_iterNS {F : List Nat → List Nat} {f : Nat → List Nat} {bound : Nat} (hF : Lifts F f bound)
    (hb : ∀ x y, x ≤ bound → y ∈ f x → y ≤ bound) :
    ∀ (n : Nat) (s : List Nat), (∀ x, x ∈ s → x ≤ bound) → ∀ q, q ∈ iterNS F n s ↔ q ∈ iterN f n s
  | 0, s, _, q => by simp [iterNS, iterN]
  | n+1, s, hs, q => by
    simp only [iterNS, iterN]
    have hmem : ∀ y, y ∈ (F s).eraseDups ↔ y ∈ (s.flatMap f).eraseDups := by
      intro y
      rw [List.mem_eraseDups, List.mem_eraseDups, hF s hs, List.mem_flatMap]
    have hs' : ∀ x, x ∈ (F s).eraseDups → x ≤ bound := by
      intro x hx
      rw [List.mem_eraseDups, hF s hs] at hx
      obtain ⟨w, hw, hx⟩ := hx
      exact hb w x (hs w hw) hx
    rw [mem_iterNS hF hb n _ hs' q, mem_iterN, mem_iterN]
    constructor
    · rintro ⟨x, hx, hp⟩; exact ⟨x, (hmem x).1 hx, hp⟩
    · rintro ⟨x, hx, hp⟩; exact ⟨x, (hmem x).2 hx, hp⟩

/-- two runs of the breadth-first closure on lists with the same members have the same members -/
theorem upToS_congr {F : List Nat → List Nat} {f : Nat → List Nat} {bound : Nat} (hF : Lifts F f bound)
    (hb : ∀ x y, x ≤ bound → y ∈ f x → y ≤ bound) :
    ∀ (n : Nat) (fr fr' acc acc' : List Nat), (∀ x, x ∈ fr ↔ x ∈ fr') → (∀ x, x ∈ acc ↔ x ∈ acc') →
      (∀ x, x ∈ fr → x ≤ bound) → ∀ q, q ∈ upToS F n fr acc ↔ q ∈ upTo f n fr' acc'
  | 0, _, _, _, _, _, hacc, _, q => by simpa [upToS, upTo] using hacc q
  | n+1, fr, fr', acc, acc', hfr, hacc, hbd, q => by
    simp only [upToS, upTo]
    have hnew : ∀ y, y ∈ ((F fr).filter (fun x => !acc.contains x)).eraseDups ↔
        y ∈ ((fr'.flatMap f).filter (fun x => !acc'.contains x)).eraseDups := by
      intro y
      simp only [List.mem_eraseDups, List.mem_filter, List.mem_flatMap, hF fr hbd]
      constructor
      · rintro ⟨⟨x, hx, hy⟩, hc⟩
        refine ⟨⟨x, (hfr x).1 hx, hy⟩, ?_⟩
        simp only [Bool.not_eq_true', List.contains_eq_mem, decide_eq_false_iff_not] at hc ⊢
        exact fun h => hc ((hacc y).2 h)
      · rintro ⟨⟨x, hx, hy⟩, hc⟩
        refine ⟨⟨x, (hfr x).2 hx, hy⟩, ?_⟩
        simp only [Bool.not_eq_true', List.contains_eq_mem, decide_eq_false_iff_not] at hc ⊢
        exact fun h => hc ((hacc y).1 h)
    have hempty : ((F fr).filter (fun x => !acc.contains x)).eraseDups.isEmpty =
        ((fr'.flatMap f).filter (fun x => !acc'.contains x)).eraseDups.isEmpty := by
      rw [Bool.eq_iff_iff, List.isEmpty_iff, List.isEmpty_iff]
      constructor
      · intro h
        apply List.eq_nil_iff_forall_not_mem.2
        intro y hy
        have := (hnew y).2 hy
        rw [h] at this; simp at this
      · intro h
        apply List.eq_nil_iff_forall_not_mem.2
        intro y hy
        have := (hnew y).1 hy
        rw [h] at this; simp at this
    rw [hempty]
    split
    · exact hacc q
    · apply upToS_congr hF hb n
      · exact hnew
      · intro x
        simp only [List.mem_append]
        rw [hacc x, hnew x]
      · intro x hx
        rw [List.mem_eraseDups, List.mem_filter, hF fr hbd] at hx
        obtain ⟨⟨w, hw, hx⟩, _⟩ := hx
        exact hb w x (hbd w hw) hx

section
variable (fl : Flags) (buf : Bytes)

theorem ends_le {r : Re} {p q : Nat} (hp : p ≤ buf.size) (h : q ∈ r.ends fl buf p) : q ≤ buf.size := by
  have := Matches.bounds ((ends_iff_Matches fl buf r p q).1 h)
  omega

theorem mem_stepSet (t : UInt8 → Bool) (s : List Nat) (q : Nat) :
    q ∈ stepSet fl buf t s ↔ ∃ p, p ∈ s ∧ q ∈ step fl buf t p := by
  simp [stepSet, List.mem_flatMap]

theorem step_le {t : UInt8 → Bool} {p q : Nat} (h : q ∈ step fl buf t p) : q ≤ buf.size := by
  obtain ⟨hc, rfl⟩ := mem_step.1 h
  exact charOk_size hc

/-- a jump in byte mode with dot-all is interval arithmetic -/
theorem path_any_dotall (hd : fl.dotall = true) (hw : fl.wide = false) :
    ∀ (k p q : Nat), Path (step fl buf (testAny fl)) k p q ↔ q = p + k ∧ (k = 0 ∨ p + k ≤ buf.size)
  | 0, p, q => by
    constructor
    · intro h; rw [h.zero_eq]; simp
    · rintro ⟨rfl, _⟩; exact .nil
  | k+1, p, q => by
    have hcs : fl.cs = 1 := by simp [Flags.cs, hw]
    constructor
    · intro h
      cases h with
      | cons hy hp =>
        obtain ⟨hc, rfl⟩ := mem_step.1 hy
        have hsz := charOk_size hc
        rw [hcs] at hsz hp
        have := (path_any_dotall hd hw k (p + 1) q).1 hp
        omega
    · rintro ⟨rfl, h⟩
      have hlt : p < buf.size := by omega
      have hc : charOk fl buf (testAny fl) p = true := by
        unfold charOk
        have : buf[p]? = some buf[p] := Array.getElem?_eq_getElem hlt
        rw [this]
        simp [hw, testAny, hd]
      have h1 : p + 1 ∈ step fl buf (testAny fl) p := by
        rw [mem_step]; exact ⟨hc, by rw [hcs]⟩
      refine .cons h1 ?_
      apply (path_any_dotall hd hw k (p + 1) (p + (k + 1))).2
      omega

theorem mem_jumpSet (lo hi : Nat) (s : List Nat) (q : Nat) :
    q ∈ jumpSet buf lo hi s ↔ q ≤ buf.size ∧ ∃ p, p ∈ s ∧ p + lo ≤ q ∧ q ≤ p + hi := by
  simp only [jumpSet, List.mem_filter, List.mem_range, List.any_eq_true, Bool.and_eq_true, decide_eq_true_eq]
  constructor
  · rintro ⟨h1, p, hp, h2, h3⟩; exact ⟨by omega, p, hp, h2, h3⟩
  · rintro ⟨h1, p, hp, h2, h3⟩; exact ⟨by omega, p, hp, h2, h3⟩

/-- The set evaluator computes the specification. -/
theorem mem_endsSet (r : Re) : ∀ (s : List Nat), (∀ p, p ∈ s → p ≤ buf.size) → ∀ q,
    q ∈ r.endsSet fl buf s ↔ ∃ p, p ∈ s ∧ q ∈ r.ends fl buf p := by
  induction r with
  | lit b | masked v m | notLit b | maskedNot v m | any | cls bm neg | wordCh | nonWordCh | space | nonSpace
  | digit | nonDigit =>
    intro s _ q
    simp only [Re.endsSet, Re.ends, mem_stepSet]
  | empty =>
    intro s _ q
    simp only [Re.endsSet, Re.ends, List.mem_singleton]
    constructor
    · intro h; exact ⟨q, h, rfl⟩
    · rintro ⟨p, hp, rfl⟩; exact hp
  | cat a b iha ihb =>
    intro s hs q
    simp only [Re.endsSet, Re.ends]
    have hmid : ∀ x, x ∈ a.endsSet fl buf s → x ≤ buf.size := by
      intro x hx
      obtain ⟨p, hp, hx⟩ := (iha s hs x).1 hx
      exact ends_le fl buf (hs p hp) hx
    rw [ihb _ hmid]
    constructor
    · rintro ⟨x, hx, hq⟩
      obtain ⟨p, hp, hx⟩ := (iha s hs x).1 hx
      exact ⟨p, hp, by rw [List.mem_eraseDups, List.mem_flatMap]; exact ⟨x, hx, hq⟩⟩
    · rintro ⟨p, hp, hq⟩
      rw [List.mem_eraseDups, List.mem_flatMap] at hq
      obtain ⟨x, hx, hq⟩ := hq
      exact ⟨x, (iha s hs x).2 ⟨p, hp, hx⟩, hq⟩
  | alt a b iha ihb =>
    intro s hs q
    simp only [Re.endsSet, Re.ends, List.mem_eraseDups, List.mem_append, iha s hs, ihb s hs]
    constructor
    · rintro (⟨p, hp, h⟩ | ⟨p, hp, h⟩)
      · exact ⟨p, hp, .inl h⟩
      · exact ⟨p, hp, .inr h⟩
    · rintro ⟨p, hp, h | h⟩
      · exact .inl ⟨p, hp, h⟩
      · exact .inr ⟨p, hp, h⟩
  | star a g iha =>
    intro s hs q
    simp only [Re.endsSet, Re.ends]
    have hF : Lifts (fun x => a.endsSet fl buf x) (fun x => a.ends fl buf x) buf.size := fun X hX y => iha X hX y
    have hb : ∀ x y, x ≤ buf.size → y ∈ (fun x => a.ends fl buf x) x → y ≤ buf.size := fun x y hx hy => ends_le fl buf hx hy
    rw [upToS_congr hF hb _ s s s s (fun _ => Iff.rfl) (fun _ => Iff.rfl) hs, mem_upTo_self]
    constructor
    · rintro ⟨x, hx, k, hk, hp⟩
      exact ⟨x, hx, (mem_upTo_self _ _ _).2 ⟨x, by simp, k, hk, hp⟩⟩
    · rintro ⟨p, hp, hq⟩
      obtain ⟨x, hx, k, hk, hpath⟩ := (mem_upTo_self _ _ _).1 hq
      simp at hx; subst hx
      exact ⟨x, hp, k, hk, hpath⟩
  | plus a g iha =>
    intro s hs q
    simp only [Re.endsSet, Re.ends]
    have hF : Lifts (fun x => a.endsSet fl buf x) (fun x => a.ends fl buf x) buf.size := fun X hX y => iha X hX y
    have hb : ∀ x y, x ≤ buf.size → y ∈ (fun x => a.ends fl buf x) x → y ≤ buf.size := fun x y hx hy => ends_le fl buf hx hy
    have hs1 : ∀ x, x ∈ (a.endsSet fl buf s).eraseDups → x ≤ buf.size := by
      intro x hx
      rw [List.mem_eraseDups] at hx
      obtain ⟨p, hp, hx⟩ := (iha s hs x).1 hx
      exact ends_le fl buf (hs p hp) hx
    rw [upToS_congr hF hb _ _ _ _ _ (fun _ => Iff.rfl) (fun _ => Iff.rfl) hs1, mem_upTo_self]
    constructor
    · rintro ⟨x, hx, k, hk, hp⟩
      rw [List.mem_eraseDups] at hx
      obtain ⟨p, hp', hx⟩ := (iha s hs x).1 hx
      exact ⟨p, hp', (mem_upTo_self _ _ _).2 ⟨x, by rw [List.mem_eraseDups]; exact hx, k, hk, hp⟩⟩
    · rintro ⟨p, hp, hq⟩
      obtain ⟨x, hx, k, hk, hpath⟩ := (mem_upTo_self _ _ _).1 hq
      rw [List.mem_eraseDups] at hx
      exact ⟨x, by rw [List.mem_eraseDups]; exact (iha s hs x).2 ⟨p, hp, hx⟩, k, hk, hpath⟩
  | range a lo hi g iha =>
    intro s hs q
    simp only [Re.endsSet, Re.ends]
    have hF : Lifts (fun x => a.endsSet fl buf x) (fun x => a.ends fl buf x) buf.size := fun X hX y => iha X hX y
    have hb : ∀ x y, x ≤ buf.size → y ∈ (fun x => a.ends fl buf x) x → y ≤ buf.size := fun x y hx hy => ends_le fl buf hx hy
    split
    · rename_i hlh
      have hmem1 : ∀ y, y ∈ iterNS (fun x => a.endsSet fl buf x) lo s ↔ y ∈ iterN (fun x => a.ends fl buf x) lo s :=
        mem_iterNS hF hb lo s hs
      have hbd1 : ∀ x, x ∈ iterNS (fun x => a.endsSet fl buf x) lo s → x ≤ buf.size := by
        intro x hx
        obtain ⟨w, hw, hp⟩ := (mem_iterN lo s x).1 ((hmem1 x).1 hx)
        have : ∀ (k : Nat) (u v : Nat), u ≤ buf.size → Path (fun x => a.ends fl buf x) k u v → v ≤ buf.size := by
          intro k u v hu hp
          induction hp with
          | nil => exact hu
          | cons hy _ ih => exact ih (hb _ _ hu hy)
        exact this _ _ _ (hs w hw) hp
      rw [upToS_congr hF hb _ _ _ _ _ hmem1 hmem1 hbd1, mem_upTo_self]
      constructor
      · rintro ⟨x, hx, k, hk, hp⟩
        obtain ⟨p, hp', hpx⟩ := (mem_iterN lo s x).1 hx
        refine ⟨p, hp', ?_⟩
        exact (mem_upTo_self _ _ _).2 ⟨x, (mem_iterN lo [p] x).2 ⟨p, by simp, hpx⟩, k, hk, hp⟩
      · rintro ⟨p, hp, hq⟩
        obtain ⟨x, hx, k, hk, hpath⟩ := (mem_upTo_self _ _ _).1 hq
        obtain ⟨p', hp', hpx⟩ := (mem_iterN lo [p] x).1 hx
        simp at hp'; subst hp'
        exact ⟨x, (mem_iterN lo s x).2 ⟨p', hp, hpx⟩, k, hk, hpath⟩
    · rename_i hlh
      constructor
      · intro h; simp at h
      · rintro ⟨p, _, h⟩; simp at h
  | rangeAny lo hi g =>
    intro s hs q
    simp only [Re.endsSet, Re.ends]
    split
    · rename_i hlh
      split
      · rename_i hfast
        simp only [Bool.and_eq_true, Bool.not_eq_true'] at hfast
        rw [mem_jumpSet]
        constructor
        · rintro ⟨hq, p, hp, h1, h2⟩
          refine ⟨p, hp, ?_⟩
          rw [mem_range_sets _ _ _ _ _ hlh]
          refine ⟨q - p, by omega, by omega, ?_⟩
          apply (path_any_dotall fl buf hfast.1 hfast.2 (q - p) p q).2
          omega
        · rintro ⟨p, hp, hq⟩
          rw [mem_range_sets _ _ _ _ _ hlh] at hq
          obtain ⟨k, h1, h2, hpath⟩ := hq
          have := (path_any_dotall fl buf hfast.1 hfast.2 k p q).1 hpath
          have hps := hs p hp
          exact ⟨by omega, p, hp, by omega, by omega⟩
      · have hF : Lifts (stepSet fl buf (testAny fl)) (step fl buf (testAny fl)) buf.size :=
          fun X _ y => mem_stepSet fl buf _ X y
        have hb : ∀ x y, x ≤ buf.size → y ∈ step fl buf (testAny fl) x → y ≤ buf.size := fun x y _ hy => step_le fl buf hy
        have hmem1 : ∀ y, y ∈ iterNS (stepSet fl buf (testAny fl)) lo s ↔ y ∈ iterN (step fl buf (testAny fl)) lo s :=
          mem_iterNS hF hb lo s hs
        have hbd1 : ∀ x, x ∈ iterNS (stepSet fl buf (testAny fl)) lo s → x ≤ buf.size := by
          intro x hx
          obtain ⟨w, hw, hp⟩ := (mem_iterN lo s x).1 ((hmem1 x).1 hx)
          have : ∀ (k : Nat) (u v : Nat), u ≤ buf.size → Path (step fl buf (testAny fl)) k u v → v ≤ buf.size := by
            intro k u v hu hp
            induction hp with
            | nil => exact hu
            | cons hy _ ih => exact ih (hb _ _ hu hy)
          exact this _ _ _ (hs w hw) hp
        rw [upToS_congr hF hb _ _ _ _ _ hmem1 hmem1 hbd1, mem_upTo_self]
        constructor
        · rintro ⟨x, hx, k, hk, hp⟩
          obtain ⟨p, hp', hpx⟩ := (mem_iterN lo s x).1 hx
          exact ⟨p, hp', (mem_upTo_self _ _ _).2 ⟨x, (mem_iterN lo [p] x).2 ⟨p, by simp, hpx⟩, k, hk, hp⟩⟩
        · rintro ⟨p, hp, hq⟩
          obtain ⟨x, hx, k, hk, hpath⟩ := (mem_upTo_self _ _ _).1 hq
          obtain ⟨p', hp', hpx⟩ := (mem_iterN lo [p] x).1 hx
          simp at hp'; subst hp'
          exact ⟨x, (mem_iterN lo s x).2 ⟨p', hp, hpx⟩, k, hk, hpath⟩
    · constructor
      · intro h; simp at h
      · rintro ⟨p, _, h⟩; simp at h
  | bol =>
    intro s _ q
    simp only [Re.endsSet, Re.ends, List.mem_filter, beq_iff_eq]
    constructor
    · rintro ⟨h, rfl⟩; exact ⟨0, h, by simp⟩
    · rintro ⟨p, hp, hq⟩
      split at hq
      · rename_i h0; subst h0; simp at hq; subst hq; exact ⟨hp, rfl⟩
      · simp at hq
  | eol =>
    intro s _ q
    simp only [Re.endsSet, Re.ends, List.mem_filter, beq_iff_eq]
    constructor
    · rintro ⟨h, rfl⟩; exact ⟨buf.size, h, by simp⟩
    · rintro ⟨p, hp, hq⟩
      split at hq
      · rename_i h0; subst h0; simp at hq; subst hq; exact ⟨hp, rfl⟩
      · simp at hq
  | wordB =>
    intro s _ q
    simp only [Re.endsSet, Re.ends, List.mem_filter]
    constructor
    · rintro ⟨h, hb⟩; exact ⟨q, h, by simp [hb]⟩
    · rintro ⟨p, hp, hq⟩
      split at hq
      · rename_i hb; simp at hq; subst hq; exact ⟨hp, hb⟩
      · simp at hq
  | nonWordB =>
    intro s _ q
    simp only [Re.endsSet, Re.ends, List.mem_filter]
    constructor
    · rintro ⟨h, hb⟩
      refine ⟨q, h, ?_⟩
      simp only [Bool.not_eq_true'] at hb
      simp [hb]
    · rintro ⟨p, hp, hq⟩
      split at hq
      · simp at hq
      · rename_i hb; simp at hq; subst hq; exact ⟨hp, by simpa using hb⟩

/-- what the driver prints for offset `o`: exactly the specification's set of end positions -/
theorem endsSet_single (r : Re) (o : Nat) (ho : o ≤ buf.size) (q : Nat) :
    q ∈ r.endsSet fl buf [o] ↔ q ∈ r.ends fl buf o := by
  rw [mem_endsSet fl buf r [o] (by simp; exact ho)]
  simp

end

end YaraModel.Re
