/-
  The inductive invariant of the file-queue model (D11) and its preservation by every atomic action.
-/
import YaraModel.Lemmas.QueueBasic
namespace YaraModel.Queue
variable {α : Type}

/-! ### classification of program counters -/

/-- consumer took an element out of the FIFO and has not yet posted `unused_slots` -/
def owes : CPc α → Nat
  | .advanced (some _) | .unlocked (some _) => 1
  | _ => 0
/-- consumer has posted `unused_slots` after an empty wake-up -/
def ex : CPc α → Nat
  | .returned none | .exited => 1
  | _ => 0
/-- consumer holds a `used_slots` token that is not (or never will be) matched by a dequeue -/
def au : CPc α → Nat
  | .idle | .advanced (some _) | .unlocked (some _) | .returned (some _) => 0
  | _ => 1
/-- consumer woke up on an empty queue -/
def isZ : CPc α → Bool
  | .advanced none | .unlocked none | .returned none | .exited => true
  | _ => false
def cCrit : CPc α → Bool
  | .locked | .reading | .haveRead _ | .advanced _ => true
  | _ => false
def pCrit : PPc α → Bool
  | .locked _ | .wrote _ | .advanced => true
  | _ => false
/-- producer holds an `unused_slots` token whose element is not yet in the FIFO -/
def pHold : PPc α → Nat
  | .wantLock _ | .locked _ | .wrote _ => 1
  | _ => 0
/-- producer appended to the FIFO and has not yet posted `used_slots` -/
def pPend : PPc α → Nat
  | .advanced | .unlocked => 1
  | _ => 0
/-- posts done so far by `file_queue_finish` -/
def posted (c : Cfg) : PPc α → Nat
  | .finishing k => c.finishPosts - k
  | .done => c.finishPosts
  | _ => 0
def pFin : PPc α → Bool
  | .finishing _ | .done => true
  | _ => false
/-- the argument of the `file_queue_put` call in progress, until it is in the FIFO -/
def cur : PPc α → List α
  | .wantLock x | .locked x | .wrote x => [x]
  | _ => []
/-- the path a consumer has dequeued and not yet finished scanning -/
def held : CPc α → Option α
  | .advanced r | .unlocked r | .returned r => r
  | _ => none

structure Inv (c : Cfg) (n : Nat) (input : List α) (s : State α) : Prop where
  len : s.cs.length = n
  lockP : pCrit s.ppc = true ↔ s.lock = some .prod
  lockC : ∀ (i : Nat) (pc : CPc α), s.cs[i]? = some pc → (cCrit pc = true ↔ s.lock = some (.cons i))
  lockR : ∀ (i : Nat), s.lock = some (.cons i) → i < s.cs.length
  head_lt : s.head < c.slots
  qlen : s.q.length + pHold s.ppc ≤ c.unusedInit
  tail_eq : s.tail = (s.head + s.q.length) % c.slots
  ringq : ∀ (k : Nat) (h : k < s.q.length), s.ring ((s.head + k) % c.slots) = some s.q[k]
  wrote : ∀ (x : α), s.ppc = .wrote x → s.ring s.tail = some x
  reading : ∀ (i : Nat), s.cs[i]? = some CPc.reading → s.q ≠ []
  haveRead : ∀ (i : Nat) (r : Option α), s.cs[i]? = some (CPc.haveRead r) → ∃ x rest, s.q = x :: rest ∧ r = some x
  unusedEq : s.unused + s.q.length + pHold s.ppc + wsum owes s.cs = c.unusedInit + wsum ex s.cs
  usedEq : s.used + wsum au s.cs + pPend s.ppc = s.q.length + posted c s.ppc
  fink : ∀ (k : Nat), s.ppc = .finishing k → k ≤ c.finishPosts
  seenEmpty : ∀ (i : Nat) (pc : CPc α), s.cs[i]? = some pc → isZ pc = true → s.q = [] ∧ pFin s.ppc = true
  finTodo : pFin s.ppc = true → s.todo = []
  inputEq : s.put ++ cur s.ppc ++ s.todo = input
  putEq : s.put = s.taken ++ s.q
  takenPerm : s.taken.Perm (s.delivered ++ s.cs.filterMap held)

theorem getElem?_replicate_idle {n i : Nat} {pc : CPc α} (h : (List.replicate n (CPc.idle : CPc α))[i]? = some pc) :
    pc = .idle := by
  rw [List.getElem?_replicate] at h
  split at h <;> simp_all

theorem inv_init (c : Cfg) (hc : c.WF) (n : Nat) (input : List α) : Inv c n input (init c n input) := by
  have hz : ∀ (w : CPc α → Nat), w .idle = 0 → wsum w (List.replicate n (CPc.idle : CPc α)) = 0 := by
    intro w hw
    apply wsum_eq_zero
    intro x hx
    rw [List.mem_replicate] at hx
    rw [hx.2, hw]
  have hfm : (List.replicate n (CPc.idle : CPc α)).filterMap held = [] := by
    induction n with
    | zero => rfl
    | succ k ih => simp [List.replicate_succ, held]
  constructor <;> simp only [init]
  · simp
  · simp [pCrit]
  · intro i pc h; rw [getElem?_replicate_idle h]; simp [cCrit]
  · intro i h; simp at h
  · have := hc.cap_lt; omega
  · simp [pHold]
  · simp
  · intro k h; simp at h
  · intro x h; simp at h
  · intro i h; have := getElem?_replicate_idle h; simp at this
  · intro i r h; have := getElem?_replicate_idle h; simp at this
  · rw [hz owes rfl, hz ex rfl]; simp [pHold]
  · rw [hz au rfl]; simp [pPend, posted, hc.used0]
  · intro k h; simp at h
  · intro i pc h hzz; rw [getElem?_replicate_idle h] at hzz; simp [isZ] at hzz
  · simp [pFin]
  · simp [cur]
  · simp
  · rw [hfm]; simp

end YaraModel.Queue
