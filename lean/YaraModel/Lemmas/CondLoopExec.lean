/- the loop template of grammar.y executed on the VM model: iteration by iteration, then the epilogue -/
import YaraModel.Lemmas.CondLoop
namespace YaraModel.CondCompile
open YaraModel YaraModel.C YaraModel.Cond YaraModel.CondVm YaraModel.Gen.VmOps

/-! ### loop memory -/

theorem getM_setM_same (m : List Int) (k : Nat) (v : Int) (h : k < m.length) : getM (setM m k v) k = v := by
  simp [getM, setM, h]

theorem getM_setM_ne (m : List Int) (k j : Nat) (v : Int) (h : j ≠ k) : getM (setM m k v) j = getM m j := by
  simp only [getM, setM, List.getD_eq_getElem?_getD]
  rw [List.getElem?_set_ne (by omega)]

theorem length_setM (m : List Int) (k : Nat) (v : Int) : (setM m k v).length = m.length := by
  simp [setM]

theorem agree_setM (lo : Nat) (m : List Int) (k : Nat) (v : Int) (h : lo ≤ k) : Agree lo (setM m k v) m :=
  ⟨fun j hj => getM_setM_ne m k j v (by omega), length_setM m k v⟩

/-! ### iterators -/

/-- the iterator yields exactly the words `ws`, in order -/
inductive Yields : Iter → List Int → Prop
  | done (it : Iter) (h : iterAdvance it = none) : Yields it []
  | more (it it' : Iter) (w : Int) (ws : List Int) (h : iterAdvance it = some (w, it')) (ht : Yields it' ws) :
      Yields it (w :: ws)

theorem yields_list (items : List Int) (k : Nat) : Yields (.list items k) (items.drop k) := by
  by_cases hk : k < items.length
  · have hd : items.drop k = items[k] :: items.drop (k + 1) := (List.drop_eq_getElem_cons hk)
    rw [hd]
    refine Yields.more _ (.list items (k + 1)) _ _ ?_ (yields_list items (k + 1))
    simp [iterAdvance, hk]
  · have hd : items.drop k = [] := List.drop_eq_nil_of_le (by omega)
    rw [hd]
    apply Yields.done
    simp [iterAdvance, List.getElem?_eq_none (by omega : items.length ≤ k)]
termination_by items.length - k

/-- the integers a, a+1, …, b -/
def rangeWords (a b : Int) : List Int := (List.range (b - a + 1).toNat).map fun (i : Nat) => a + (i : Int)

theorem rangeWords_cons (a b : Int) (h : a ≤ b) : rangeWords a b = a :: rangeWords (a + 1) b := by
  unfold rangeWords
  have : (b - a + 1).toNat = (b - (a + 1) + 1).toNat + 1 := by omega
  rw [this, List.range_succ_eq_map]
  simp only [List.map_cons, List.map_map, Int.natCast_zero, Int.add_zero, List.cons.injEq, true_and]
  apply List.map_congr_left
  intro i _
  simp only [Function.comp, Nat.succ_eq_add_one, Int.natCast_add, Int.natCast_one]
  omega

theorem rangeWords_nil (a b : Int) (h : b < a) : rangeWords a b = [] := by
  unfold rangeWords
  have : (b - a + 1).toNat = 0 := by omega
  simp [this]

theorem yields_range_undef (a b : Int) (h : isU a = true ∨ isU b = true) : Yields (.range a b) [] := by
  apply Yields.done
  rcases h with h | h <;> simp [iterAdvance, h]

/-- a range iterator over defined 64-bit bounds that does not cross the sentinel -/
theorem yields_range (a b : Int) (hb : b ≤ INT64_MAX) (hlo : INT64_MIN ≤ a)
    (hs : ∀ i, a ≤ i → i ≤ b → i ≠ UNDEF) (hbu : b ≠ UNDEF) :
    Yields (.range a b) (rangeWords a b) := by
  by_cases hab : a ≤ b
  · rw [rangeWords_cons a b hab]
    have ha : isU a = false := isUndef_of_ne (hs a (by omega) hab)
    have hbb : isU b = false := isUndef_of_ne hbu
    by_cases hmax : a = INT64_MAX
    · -- the last representable value: the iterator is marked exhausted instead of wrapping around
      have hnil : rangeWords (a + 1) b = [] := rangeWords_nil _ _ (by omega)
      rw [hnil]
      refine Yields.more _ (.range UNDEF b) _ _ ?_ (yields_range_undef _ _ (Or.inl (by decide)))
      have h1 : isU INT64_MAX = false := by decide
      have h2 : INT64_MAX ≤ b := by omega
      simp [iterAdvance, hbb, hmax, h1, h2]
    · have hadd : C.add a 1 = a + 1 := by
        unfold C.add C.wrap; unfold INT64_MAX at hb hmax; unfold INT64_MIN at hlo; omega
      have hne : (a == INT64_MAX) = false := by simp [hmax]
      refine Yields.more _ (.range (a + 1) b) _ _ ?_ (yields_range (a + 1) b hb (by omega) (fun i h1 h2 => hs i (by omega) h2) hbu)
      simp [iterAdvance, ha, hbb, hab, hadd, hne]
  · rw [rangeWords_nil a b (by omega)]
    apply Yields.done
    simp only [iterAdvance]
    have : ¬ (a ≤ b) := hab
    simp [this]
termination_by (b - a + 1).toNat
decreasing_by omega

/-! ### single instructions on explicit states -/

theorem step_iterNext_some (env : Env) (k : Nat) (it it' : Iter) (w : Int) (pc : Nat) (st mem : List Int) (its : List Iter)
    (hk : its[k]? = some it) (ha : iterAdvance it = some (w, it')) :
    step env .iterNext ⟨pc, encIt k :: st, mem, its⟩ = some ⟨pc + 1, w :: 0 :: encIt k :: st, mem, its.set k it'⟩ := by
  simp [step, decIt_encIt, hk, ha]

theorem step_iterNext_none (env : Env) (k : Nat) (it : Iter) (pc : Nat) (st mem : List Int) (its : List Iter)
    (hk : its[k]? = some it) (ha : iterAdvance it = none) :
    step env .iterNext ⟨pc, encIt k :: st, mem, its⟩ = some ⟨pc + 1, UNDEF :: 1 :: encIt k :: st, mem, its⟩ := by
  simp [step, decIt_encIt, hk, ha]

theorem step_popM (env : Env) (k : Nat) (v : Int) (pc : Nat) (st mem : List Int) (its : List Iter) :
    step env (.popM k) ⟨pc, v :: st, mem, its⟩ = some ⟨pc + 1, st, setM mem k v, its⟩ := rfl

theorem step_pushM (env : Env) (k : Nat) (pc : Nat) (st mem : List Int) (its : List Iter) :
    step env (.pushM k) ⟨pc, st, mem, its⟩ = some ⟨pc + 1, getM mem k :: st, mem, its⟩ := rfl

theorem step_clearM (env : Env) (k : Nat) (pc : Nat) (st mem : List Int) (its : List Iter) :
    step env (.clearM k) ⟨pc, st, mem, its⟩ = some ⟨pc + 1, st, setM mem k 0, its⟩ := rfl

theorem step_incrM (env : Env) (k : Nat) (pc : Nat) (st mem : List Int) (its : List Iter) :
    step env (.incrM k) ⟨pc, st, mem, its⟩ = some ⟨pc + 1, st, setM mem k (C.add (getM mem k) 1), its⟩ := rfl

theorem step_addM (env : Env) (k : Nat) (v : Int) (pc : Nat) (st mem : List Int) (its : List Iter) :
    step env (.addM k) ⟨pc, v :: st, mem, its⟩ =
      some ⟨pc + 1, st, if isU v then mem else setM mem k (C.add (getM mem k) v), its⟩ := rfl

theorem step_jtrueP (env : Env) (d : Int) (v : Int) (pc : Nat) (st mem : List Int) (its : List Iter) :
    step env (.jtrueP d) ⟨pc, v :: st, mem, its⟩ =
      some ⟨if !isU v && v != 0 then jump pc d else pc + 1, st, mem, its⟩ := rfl

theorem step_iterCondition (env : Env) (q t r : Int) (pc : Nat) (st mem : List Int) (its : List Iter) :
    step env .iterCondition ⟨pc, q :: t :: r :: st, mem, its⟩ =
      some ⟨pc + 1, normW r :: b2i (contWord q t (normW r)) :: st, mem, its⟩ := rfl

theorem step_iterEnd (env : Env) (q t n : Int) (pc : Nat) (st mem : List Int) (its : List Iter) :
    step env .iterEnd ⟨pc, q :: t :: n :: st, mem, its⟩ = some ⟨pc + 1, endWord q t n :: st, mem, its⟩ := rfl

theorem step_pop (env : Env) (v : Int) (pc : Nat) (st mem : List Int) (its : List Iter) :
    step env .pop ⟨pc, v :: st, mem, its⟩ = some ⟨pc + 1, st, mem, its⟩ := rfl

/-- the instructions of one loop round, as placed by `loopCode` from the ITER_NEXT at `L` on -/
def roundCode (body : List Instr) (f : Nat) : List Instr :=
  [.iterNext, .popM (f + 3), .jtrueP ((body.length : Int) + 7)] ++ body ++
  [.incrM (f + 1), .pushM f, .pushM (f + 2), .iterCondition, .addM f, .jtrueP (-((body.length : Int) + 8))]

theorem roundCode_at {code : List Instr} {L : Nat} {body : List Instr} {f : Nat} (h : CodeAt code L (roundCode body f)) :
    code[L]? = some .iterNext ∧ code[L + 1]? = some (.popM (f + 3)) ∧
    code[L + 2]? = some (.jtrueP ((body.length : Int) + 7)) ∧ CodeAt code (L + 3) body ∧
    code[L + 3 + body.length]? = some (.incrM (f + 1)) ∧ code[L + 3 + body.length + 1]? = some (.pushM f) ∧
    code[L + 3 + body.length + 2]? = some (.pushM (f + 2)) ∧ code[L + 3 + body.length + 3]? = some .iterCondition ∧
    code[L + 3 + body.length + 4]? = some (.addM f) ∧
    code[L + 3 + body.length + 5]? = some (.jtrueP (-((body.length : Int) + 8))) := by
  unfold roundCode at h
  have h1 := h.left.left
  have h2 := h.left.right
  have h3 := h.right
  simp only [List.length_append, List.length_cons, List.length_nil] at h2 h3
  refine ⟨h1.head, h1.tail.head, h1.tail.tail.head, by simpa using h2, ?_, ?_, ?_, ?_, ?_, ?_⟩
  · simpa [Nat.add_assoc] using h3.head
  · simpa [Nat.add_assoc] using h3.tail.head
  · simpa [Nat.add_assoc] using h3.tail.tail.head
  · simpa [Nat.add_assoc] using h3.tail.tail.tail.head
  · simpa [Nat.add_assoc] using h3.tail.tail.tail.tail.head
  · simpa [Nat.add_assoc] using h3.tail.tail.tail.tail.tail.head

theorem jump_fwd (L m : Nat) : jump (L + 2) ((m : Int) + 7) = L + m + 9 := by
  simp only [jump]; omega

theorem jump_back (L m : Nat) : jump (L + 3 + m + 5) (-((m : Int) + 8)) = L := by
  simp only [jump]; omega

theorem take_set_of_le {α : Type} (xs : List α) (k : Nat) (v : α) : (xs.set k v).take k = xs.take k := by
  rw [List.take_set_of_le (Nat.le_refl k)]

/-- **the loop rounds**: from the ITER_NEXT at `L`, with M[f] = t, M[f+1] = n, M[f+2] = quantifier word and an iterator
    that still yields the item words of `rest`, the VM reaches the epilogue (`L + |body| + 9`) with M[f], M[f+1] as
    `loopGo` says, whether the iterator is exhausted or ITER_CONDITION stops the loop early. -/
theorem loop_exec (env : Env) (code : List Instr) (c : Ctx) (l : LEnv) (body : List Instr) (f L : Nat)
    (hf : f = 4 * c.vars.length) (hf20 : f + 3 < 20)
    (hcode : CodeAt code L (roundCode body f)) (qw : Int) (k : Nat) (items : List (Int × Int))
    (hbody : ∀ p ∈ items, ∀ st mem its, MemInv c l mem → mem.length = 20 → getM mem (f + 3) = p.1 →
      ∃ w mem' ext, Steps env code ⟨L + 3, st, mem, its⟩ ⟨L + 3 + body.length, w :: st, mem', its ++ ext⟩ ∧
        Agree (f + 4) mem' mem ∧ normW w = p.2) :
    ∀ (rest : List (Int × Int)), (∀ p ∈ rest, p ∈ items) →
    ∀ (st mem : List Int) (its : List Iter) (it : Iter) (t n : Int),
      MemInv c l mem → mem.length = 20 → its[k]? = some it → Yields it (rest.map (·.1)) →
      getM mem f = t → getM mem (f + 1) = n → getM mem (f + 2) = qw →
      ∃ mem' its', Steps env code ⟨L, encIt k :: st, mem, its⟩ ⟨L + body.length + 9, encIt k :: st, mem', its'⟩ ∧
        Agree f mem' mem ∧ its'.take k = its.take k ∧ k < its'.length ∧
        getM mem' f = (loopGo qw (rest.map (·.2)) t n).1 ∧ getM mem' (f + 1) = (loopGo qw (rest.map (·.2)) t n).2 ∧
        getM mem' (f + 2) = qw := by
  obtain ⟨c0, c1, c2, cb, c3, c4, c5, c6, c7, c8⟩ := roundCode_at hcode
  intro rest
  induction rest with
  | nil =>
    intro _ st mem its it t n hP hlen hk hy ht hn hq
    have hadv : iterAdvance it = none := by cases hy with | done _ h => exact h
    have hklt : k < its.length := by
      apply Decidable.byContradiction; intro h
      rw [List.getElem?_eq_none (by omega)] at hk; cases hk
    have s1 := Steps.one (s := ⟨L, encIt k :: st, mem, its⟩) c0 (step_iterNext_none env k it L st mem its hk hadv)
    have s2 := Steps.one (s := ⟨L + 1, UNDEF :: 1 :: encIt k :: st, mem, its⟩) c1 (step_popM env (f + 3) UNDEF _ _ mem its)
    have s3 := Steps.one (s := ⟨L + 1 + 1, 1 :: encIt k :: st, setM mem (f + 3) UNDEF, its⟩) c2 (step_jtrueP env _ 1 _ _ _ its)
    simp only [isU_1, Bool.not_false, Bool.true_and, show ((1 : Int) != 0) = true by decide, if_true, jump_fwd] at s3
    refine ⟨setM mem (f + 3) UNDEF, its, Steps.trans s1 (Steps.trans s2 s3), agree_setM f mem (f + 3) UNDEF (by omega),
      rfl, hklt, ?_, ?_, ?_⟩
    · simp only [List.map_nil, loopGo]; rw [getM_setM_ne _ _ _ _ (by omega)]; exact ht
    · simp only [List.map_nil, loopGo]; rw [getM_setM_ne _ _ _ _ (by omega)]; exact hn
    · rw [getM_setM_ne _ _ _ _ (by omega)]; exact hq
  | cons p rest ih =>
    intro hsub st mem its it t n hP hlen hk hy ht hn hq
    have hklt : k < its.length := by
      apply Decidable.byContradiction; intro h
      rw [List.getElem?_eq_none (by omega)] at hk; cases hk
    obtain ⟨it', hadv, hy'⟩ : ∃ it', iterAdvance it = some (p.1, it') ∧ Yields it' (rest.map (·.1)) := by
      simp only [List.map_cons] at hy
      cases hy with | more _ it' _ _ h ht => exact ⟨it', h, ht⟩
    -- ITER_NEXT, POP_M f+3, JTRUE_P (not taken)
    have s1 := Steps.one (s := ⟨L, encIt k :: st, mem, its⟩) c0 (step_iterNext_some env k it it' p.1 L st mem its hk hadv)
    have s2 := Steps.one (s := ⟨L + 1, p.1 :: 0 :: encIt k :: st, mem, its.set k it'⟩) c1 (step_popM env (f + 3) p.1 _ _ mem _)
    have s3 := Steps.one (s := ⟨L + 1 + 1, 0 :: encIt k :: st, setM mem (f + 3) p.1, its.set k it'⟩) c2 (step_jtrueP env _ 0 _ _ _ _)
    simp only [isU_0, Bool.not_false, Bool.true_and, show ((0 : Int) != 0) = false by decide, Bool.false_eq_true, if_false] at s3
    -- the body
    have hlen1 : (setM mem (f + 3) p.1).length = 20 := by rw [length_setM]; exact hlen
    have hP1 : MemInv c l (setM mem (f + 3) p.1) := hP.stable (by rw [← hf]; exact agree_setM f mem (f + 3) p.1 (by omega))
    obtain ⟨w, m2, ext, sb, ab, hnw⟩ := hbody p (hsub p (by simp)) (encIt k :: st) (setM mem (f + 3) p.1) (its.set k it') hP1 hlen1
      (getM_setM_same _ _ _ (by omega))
    have hlen2 : m2.length = 20 := ab.2.trans hlen1
    have g0 : getM m2 f = t := by rw [ab.1 f (by omega), getM_setM_ne _ _ _ _ (by omega)]; exact ht
    have g1 : getM m2 (f + 1) = n := by rw [ab.1 (f + 1) (by omega), getM_setM_ne _ _ _ _ (by omega)]; exact hn
    have g2 : getM m2 (f + 2) = qw := by rw [ab.1 (f + 2) (by omega), getM_setM_ne _ _ _ _ (by omega)]; exact hq
    -- INCR_M f+1, PUSH_M f, PUSH_M f+2, ITER_CONDITION, ADD_M f, JTRUE_P
    let its2 := its.set k it' ++ ext
    let m3 := setM m2 (f + 1) (C.add n 1)
    have s4 := Steps.one (s := ⟨L + 3 + body.length, w :: encIt k :: st, m2, its2⟩) c3 (step_incrM env (f + 1) _ _ m2 its2)
    rw [g1] at s4
    have s5 := Steps.one (s := ⟨L + 3 + body.length + 1, w :: encIt k :: st, m3, its2⟩) c4 (step_pushM env f _ _ m3 its2)
    have s6 := Steps.one (s := ⟨L + 3 + body.length + 1 + 1, getM m3 f :: w :: encIt k :: st, m3, its2⟩) c5 (step_pushM env (f + 2) _ _ m3 its2)
    have h3f : getM m3 f = t := by simp only [m3]; rw [getM_setM_ne _ _ _ _ (by omega)]; exact g0
    have h3q : getM m3 (f + 2) = qw := by simp only [m3]; rw [getM_setM_ne _ _ _ _ (by omega)]; exact g2
    have h3n : getM m3 (f + 1) = C.add n 1 := by simp only [m3]; exact getM_setM_same _ _ _ (by omega)
    rw [h3f, h3q] at s6
    rw [h3f] at s5
    have s7 := Steps.one (s := ⟨L + 3 + body.length + 1 + 1 + 1, qw :: t :: w :: encIt k :: st, m3, its2⟩) c6 (step_iterCondition env qw t w _ _ m3 its2)
    rw [hnw] at s7
    have s8 := Steps.one (s := ⟨L + 3 + body.length + 1 + 1 + 1 + 1, p.2 :: b2i (contWord qw t p.2) :: encIt k :: st, m3, its2⟩) c7 (step_addM env f p.2 _ _ m3 its2)
    rw [h3f] at s8
    let t' := if isU p.2 then t else C.add t p.2
    let m4 := if isU p.2 then m3 else setM m3 f (C.add t p.2)
    have h4len : m4.length = 20 := by
      simp only [m4]; split
      · simp only [m3]; rw [length_setM]; exact hlen2
      · rw [length_setM]; simp only [m3]; rw [length_setM]; exact hlen2
    have h4f : getM m4 f = t' := by
      simp only [m4, t']; split
      · exact h3f
      · exact getM_setM_same _ _ _ (by simp only [m3]; rw [length_setM]; omega)
    have h4n : getM m4 (f + 1) = C.add n 1 := by
      simp only [m4]; split
      · exact h3n
      · rw [getM_setM_ne _ _ _ _ (by omega)]; exact h3n
    have h4q : getM m4 (f + 2) = qw := by
      simp only [m4]; split
      · exact h3q
      · rw [getM_setM_ne _ _ _ _ (by omega)]; exact h3q
    have a43 : Agree f m4 m3 := by
      simp only [m4]; split
      · exact Agree.refl _ _
      · exact agree_setM f m3 f _ (Nat.le_refl f)
    have a4 : Agree f m4 mem :=
      a43.trans ((agree_setM f m2 (f + 1) _ (by omega)).trans ((ab.mono (by omega)).trans (agree_setM f mem (f + 3) p.1 (by omega))))
    have s9 := Steps.one (s := ⟨L + 3 + body.length + 1 + 1 + 1 + 1 + 1, b2i (contWord qw t p.2) :: encIt k :: st, m4, its2⟩) c8
      (step_jtrueP env _ _ _ _ m4 its2)
    have hpre := Steps.trans s1 (Steps.trans s2 (Steps.trans s3 (Steps.trans sb (Steps.trans s4 (Steps.trans s5
      (Steps.trans s6 (Steps.trans s7 s8)))))))
    have hk2 : its2[k]? = some it' := by
      simp only [its2]
      rw [List.getElem?_append_left (by simp; exact hklt)]
      simp [hklt]
    have htake : its2.take k = its.take k := by
      simp only [its2]
      rw [List.take_append_of_le_length (by simp; omega), take_set_of_le]
    have hk2lt : k < its2.length := by simp only [its2, List.length_append, List.length_set]; omega
    by_cases hc : contWord qw t p.2 = true
    · -- the loop goes on
      simp only [hc, b2i, if_true, isU_1, Bool.not_false, Bool.true_and, show ((1 : Int) != 0) = true by decide] at s9
      have e : L + 3 + body.length + 1 + 1 + 1 + 1 + 1 = L + 3 + body.length + 5 := by omega
      rw [e, jump_back] at s9
      simp only [hc, b2i, if_true] at hpre
      rw [e] at hpre
      obtain ⟨m5, its5, s10, a5, ht5, hk5, r0, r1, r2⟩ :=
        ih (fun q hq => hsub q (by simp [hq])) st m4 its2 it' t' (C.add n 1) (hP.stable (by rw [← hf]; exact a4)) h4len hk2 hy' h4f h4n h4q
      refine ⟨m5, its5, Steps.trans hpre (Steps.trans s9 s10), a5.trans a4, ht5.trans htake, hk5, ?_, ?_, r2⟩
      · simp only [List.map_cons, loopGo, hc, if_true]; exact r0
      · simp only [List.map_cons, loopGo, hc, if_true]; exact r1
    · -- ITER_CONDITION stops the loop
      have hc' : contWord qw t p.2 = false := by simpa using hc
      simp only [hc', b2i, Bool.false_eq_true, if_false, isU_0, Bool.not_false, Bool.true_and,
        show ((0 : Int) != 0) = false by decide] at s9
      have e : L + 3 + body.length + 1 + 1 + 1 + 1 + 1 + 1 = L + body.length + 9 := by omega
      rw [e] at s9
      simp only [hc', b2i, Bool.false_eq_true, if_false] at hpre
      refine ⟨m4, its2, Steps.trans hpre s9, a4, htake, hk2lt, ?_, ?_, h4q⟩
      · simp only [List.map_cons, loopGo, hc', Bool.false_eq_true, if_false]; exact h4f
      · simp only [List.map_cons, loopGo, hc', Bool.false_eq_true, if_false]; exact h4n

def epilogue (f : Nat) : List Instr := [.pop, .pushM (f + 1), .pushM f, .pushM (f + 2), .iterEnd]

theorem loopCode_eq (q init body : List Instr) (f : Nat) :
    loopCode q init body f =
      ((q ++ [.clearM f, .clearM (f + 1), .popM (f + 2)]) ++ init) ++ roundCode body f ++ epilogue f := by
  simp [loopCode, roundCode, epilogue]

theorem roundCode_length (body : List Instr) (f : Nat) : (roundCode body f).length = body.length + 9 := by
  simp [roundCode] <;> omega

/-- **a whole loop**: quantifier, frame set-up, iterator set-up, the rounds, the epilogue -/
theorem runs_loop (env : Env) (code : List Instr) (c : Ctx) (l : LEnv) (q init body : List Instr) (f : Nat)
    (hf : f = 4 * c.vars.length) (hf20 : f + 3 < 20) (qw : Int) (hq : Runs env code q c l true [qw])
    (items : List (Int × Int))
    (hinit : ∀ pc st mem its, CodeAt code pc init → MemInv c l mem → mem.length = 20 →
      ∃ it, Yields it (items.map (·.1)) ∧
        Steps env code ⟨pc, st, mem, its⟩ ⟨pc + init.length, encIt its.length :: st, mem, its ++ [it]⟩)
    (hbody : ∀ p ∈ items, ∀ pcb st mem its, CodeAt code pcb body → MemInv c l mem → mem.length = 20 →
      getM mem (f + 3) = p.1 →
      ∃ w mem' ext, Steps env code ⟨pcb, st, mem, its⟩ ⟨pcb + body.length, w :: st, mem', its ++ ext⟩ ∧
        Agree (f + 4) mem' mem ∧ normW w = p.2) :
    Runs env code (loopCode q init body f) c l false
      [endWord qw (loopGo qw (items.map (·.2)) 0 0).1 (loopGo qw (items.map (·.2)) 0 0).2] := by
  intro pc st mem its hc hP hlen
  rw [loopCode_eq] at hc ⊢
  have hcq := hc.left.left.left.left
  have hc3 := hc.left.left.left.right
  have hci := hc.left.left.right
  have hcr := hc.left.right
  have hce := hc.right
  simp only [List.length_append, List.length_cons, List.length_nil] at hci hcr hce
  -- quantifier (pure)
  obtain ⟨m1, e1, s1, _, p1⟩ := hq pc st mem its hcq hP hlen
  obtain ⟨rfl, rfl⟩ := p1 rfl
  simp only [List.append_nil] at s1
  -- CLEAR_M f, CLEAR_M f+1, POP_M f+2
  have s2 := Steps.one (s := ⟨pc + q.length, [qw] ++ st, m1, its⟩) hc3.head (step_clearM env f _ _ _ _)
  have s3 := Steps.one (s := ⟨pc + q.length + 1, [qw] ++ st, setM m1 f 0, its⟩) hc3.tail.head (step_clearM env (f + 1) _ _ _ _)
  have s4 := Steps.one (s := ⟨pc + q.length + 1 + 1, [qw] ++ st, setM (setM m1 f 0) (f + 1) 0, its⟩) hc3.tail.tail.head
    (step_popM env (f + 2) qw _ st _ _)
  let m2 := setM (setM (setM m1 f 0) (f + 1) 0) (f + 2) qw
  have a2 : Agree f m2 m1 :=
    (agree_setM f _ (f + 2) qw (by omega)).trans ((agree_setM f _ (f + 1) 0 (by omega)).trans (agree_setM f _ f 0 (Nat.le_refl f)))
  have hlen2 : m2.length = 20 := a2.2.trans hlen
  have hP2 : MemInv c l m2 := hP.stable (by rw [← hf]; exact a2)
  have g0 : getM m2 f = 0 := by
    simp only [m2]
    rw [getM_setM_ne _ _ _ _ (by omega), getM_setM_ne _ _ _ _ (by omega)]
    exact getM_setM_same _ _ _ (by omega)
  have g1 : getM m2 (f + 1) = 0 := by
    simp only [m2]
    rw [getM_setM_ne _ _ _ _ (by omega)]
    exact getM_setM_same _ _ _ (by rw [length_setM]; omega)
  have g2 : getM m2 (f + 2) = qw := by
    simp only [m2]
    exact getM_setM_same _ _ _ (by rw [length_setM, length_setM]; omega)
  -- iterator set-up
  have epc : pc + q.length + 1 + 1 + 1 = pc + (q.length + 3) := by omega
  rw [epc] at s4
  obtain ⟨it, hy, s5⟩ := hinit (pc + (q.length + 3)) st m2 its hci hP2 hlen2
  -- the rounds
  have hk : (its ++ [it])[its.length]? = some it := by simp
  obtain ⟨m5, its5, s6, a5, ht5, hk5, r0, r1, r2⟩ :=
    loop_exec env code c l body f (pc + (q.length + 3 + init.length)) hf hf20 hcr qw its.length items
      (fun p hp st mem its hP hl hg => by
        have := hbody p hp (pc + (q.length + 3 + init.length) + 3) st mem its
          (roundCode_at hcr).2.2.2.1 hP hl hg
        exact this)
      items (fun _ h => h) st m2 (its ++ [it]) it 0 0 hP2 hlen2 hk hy g0 g1 g2
  have epc2 : pc + (q.length + 3) + init.length = pc + (q.length + 3 + init.length) := by omega
  rw [epc2] at s5
  -- epilogue: POP, PUSH_M f+1, PUSH_M f, PUSH_M f+2, ITER_END
  have hce' : CodeAt code (pc + (q.length + 3 + init.length) + body.length + 9) (epilogue f) := by
    have e : pc + (q.length + 3 + init.length + (roundCode body f).length) = pc + (q.length + 3 + init.length) + body.length + 9 := by
      rw [roundCode_length]; omega
    rw [← e]; exact hce
  unfold epilogue at hce'
  have s7 := Steps.one (s := ⟨_, encIt its.length :: st, m5, its5⟩) hce'.head (step_pop env _ _ _ _ _)
  have s8 := Steps.one (s := ⟨_, st, m5, its5⟩) hce'.tail.head (step_pushM env (f + 1) _ _ _ _)
  have s9 := Steps.one (s := ⟨_, getM m5 (f + 1) :: st, m5, its5⟩) hce'.tail.tail.head (step_pushM env f _ _ _ _)
  have s10 := Steps.one (s := ⟨_, getM m5 f :: getM m5 (f + 1) :: st, m5, its5⟩) hce'.tail.tail.tail.head (step_pushM env (f + 2) _ _ _ _)
  have s11 := Steps.one (s := ⟨_, getM m5 (f + 2) :: getM m5 f :: getM m5 (f + 1) :: st, m5, its5⟩) hce'.tail.tail.tail.tail.head
    (step_iterEnd env _ _ _ _ _ _ _)
  have hits : its5 = its ++ its5.drop its.length := by
    have h1 : its5.take its.length = its := by rw [ht5]; simp
    conv => lhs; rw [← List.take_append_drop its.length its5, h1]
  refine ⟨m5, its5.drop its.length, ?_, ?_, fun h => by cases h⟩
  · rw [← hits]
    have hall := Steps.trans s1 (Steps.trans s2 (Steps.trans s3 (Steps.trans s4 (Steps.trans s5 (Steps.trans s6
      (Steps.trans s7 (Steps.trans s8 (Steps.trans s9 (Steps.trans s10 s11)))))))))
    rw [r0, r1, r2] at hall
    have elen : pc + (q.length + 3 + init.length) + body.length + 9 + 1 + 1 + 1 + 1 + 1 =
        pc + ((q ++ [Instr.clearM f, Instr.clearM (f + 1), Instr.popM (f + 2)] ++ init ++ roundCode body f ++ [Instr.pop, Instr.pushM (f + 1), Instr.pushM f, Instr.pushM (f + 2), Instr.iterEnd]).length) := by
      simp only [List.length_append, List.length_cons, List.length_nil, roundCode_length]; omega
    unfold epilogue
    rw [← elen]
    exact hall
  · rw [← hf]; exact a5.trans a2

end YaraModel.CondCompile
