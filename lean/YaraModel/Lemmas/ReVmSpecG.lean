/-
  Consuming instructions against the specification's one-character tests, for every way a run reads its input:
  `At e bm p` — after `bm` matched bytes the run reads the character at byte position `p` (forwards: start + bm,
  backwards: start - cs - bm), the character lies inside the buffer, and in wide mode its high byte is 0.
-/
import YaraModel.Lemmas.ReVmSpec
namespace YaraModel.ReEmit
open YaraModel.Re YaraModel.ReVm

def specFlagsG (v : VmFlags) : Flags := { wide := v.wide, nocase := v.nocase, dotall := v.dotall }

theorem specFlagsG_cs (e : Env) : (specFlagsG e.fl).cs = e.cs := rfl

structure At (e : Env) (bm p : Nat) : Prop where
  inp : e.inp bm = (p : Int)
  inBuf : p + e.cs ≤ e.buf.size
  hi : e.fl.wide = true → byteAt e.buf ((p : Int) + 1) = 0
  lim : bm < e.maxBytes

theorem cs_pos (e : Env) : 0 < e.cs := by unfold Env.cs; split <;> omega

theorem consumeTest_at {e : Env} {bm p : Nat} (hat : At e bm p) {f : Fiber} (hc : consumeOk e bm f = true) :
    consumeTest e.code e.fl f.ip e.buf e.cs (p : Int) = true := by
  unfold consumeOk at hc
  simp only [Bool.and_eq_true] at hc
  have := hc.2
  rwa [hat.inp] at this

theorem charOk_at {e : Env} {bm p : Nat} (hat : At e bm p) {t : UInt8 → Bool} (ht : t (byteAt e.buf (p : Int)) = true) :
    charOk (specFlagsG e.fl) e.buf t p = true := by
  have hp : p < e.buf.size := by have := hat.inBuf; have := cs_pos e; omega
  unfold charOk
  rw [byteAt_eq hp]
  simp only [specFlagsG]
  by_cases hw : e.fl.wide = true
  · have hcs : e.cs = 2 := by simp [Env.cs, hw]
    have hp1 : p + 1 < e.buf.size := by have := hat.inBuf; omega
    have h0 := hat.hi hw
    have e1 : ((p : Int) + 1) = ((p + 1 : Nat) : Int) := by omega
    rw [e1] at h0
    rw [byteAt_eq hp1, h0]
    simp [hw, ht]
  · simp [hw, ht]

theorem wordChar_at {e : Env} {bm p : Nat} (hat : At e bm p) : isWordCharAt e.buf e.cs (p : Int) = isWordByte (byteAt e.buf (p : Int)) := by
  unfold isWordCharAt
  by_cases hw : e.fl.wide = true
  · have hcs : e.cs = 2 := by simp [Env.cs, hw]
    rw [hcs, hat.hi hw]; simp
  · have hcs : e.cs = 1 := by simp [Env.cs, hw]
    rw [hcs]; simp

theorem consume_lit_at {e : Env} {bm p : Nat} (hat : At e bm p) {f : Fiber} {b : UInt8} (hop : u8 e.code f.ip = OP_LITERAL)
    (harg : u8 e.code (f.ip + 1) = b.toNat) (hc : consumeOk e bm f = true) :
    Re.Matches (specFlagsG e.fl) e.buf (.lit b) p (p + e.cs) := by
  have ht := consumeTest_at hat hc
  have : Re.Matches (specFlagsG e.fl) e.buf (.lit b) p (p + (specFlagsG e.fl).cs) := by
    apply Re.Matches.lit
    apply charOk_at hat
    unfold consumeTest at ht
    simp only [hop, harg, OP_LITERAL, OP_ANY, OP_REPEAT_ANY_GREEDY, OP_REPEAT_ANY_UNGREEDY] at ht
    simp only [Nat.reduceEqDiff, or_self, if_false, if_true] at ht
    unfold testLit specFlagsG
    simp only
    split at ht
    · rename_i hn; simp only [hn, if_true]; rwa [UInt8.ofNat_toNat] at ht
    · rename_i hn; simp only [hn]; rwa [toNat_beq] at ht
  rwa [specFlagsG_cs] at this

theorem consume_notLit_at {e : Env} {bm p : Nat} (hat : At e bm p) {f : Fiber} {b : UInt8} (hop : u8 e.code f.ip = OP_NOT_LITERAL)
    (harg : u8 e.code (f.ip + 1) = b.toNat) (hc : consumeOk e bm f = true) :
    Re.Matches (specFlagsG e.fl) e.buf (.notLit b) p (p + e.cs) := by
  have ht := consumeTest_at hat hc
  have : Re.Matches (specFlagsG e.fl) e.buf (.notLit b) p (p + (specFlagsG e.fl).cs) := by
    apply Re.Matches.notLit
    apply charOk_at hat
    unfold consumeTest at ht
    simp only [hop, harg, OP_NOT_LITERAL, OP_LITERAL, OP_ANY, OP_REPEAT_ANY_GREEDY, OP_REPEAT_ANY_UNGREEDY] at ht
    simp only [Nat.reduceEqDiff, or_self, if_false, if_true] at ht
    simp only [bne_iff_ne, ne_eq] at ht ⊢
    intro heq; apply ht; rw [heq]
  rwa [specFlagsG_cs] at this

theorem consume_masked_at {e : Env} {bm p : Nat} (hat : At e bm p) {f : Fiber} {v m : UInt8} (hop : u8 e.code f.ip = OP_MASKED_LITERAL)
    (h1 : u8 e.code (f.ip + 1) = v.toNat) (h2 : u8 e.code (f.ip + 2) = m.toNat) (hc : consumeOk e bm f = true) :
    Re.Matches (specFlagsG e.fl) e.buf (.masked v m) p (p + e.cs) := by
  have ht := consumeTest_at hat hc
  have : Re.Matches (specFlagsG e.fl) e.buf (.masked v m) p (p + (specFlagsG e.fl).cs) := by
    apply Re.Matches.masked
    apply charOk_at hat
    unfold consumeTest at ht
    simp only [hop, h1, h2, OP_MASKED_LITERAL, OP_NOT_LITERAL, OP_LITERAL, OP_ANY, OP_REPEAT_ANY_GREEDY, OP_REPEAT_ANY_UNGREEDY] at ht
    simp only [Nat.reduceEqDiff, or_self, if_false, if_true] at ht
    unfold testMasked
    rwa [toNat_and_beq] at ht
  rwa [specFlagsG_cs] at this

theorem consume_maskedNot_at {e : Env} {bm p : Nat} (hat : At e bm p) {f : Fiber} {v m : UInt8} (hop : u8 e.code f.ip = OP_MASKED_NOT_LITERAL)
    (h1 : u8 e.code (f.ip + 1) = v.toNat) (h2 : u8 e.code (f.ip + 2) = m.toNat) (hc : consumeOk e bm f = true) :
    Re.Matches (specFlagsG e.fl) e.buf (.maskedNot v m) p (p + e.cs) := by
  have ht := consumeTest_at hat hc
  have : Re.Matches (specFlagsG e.fl) e.buf (.maskedNot v m) p (p + (specFlagsG e.fl).cs) := by
    apply Re.Matches.maskedNot
    apply charOk_at hat
    unfold consumeTest at ht
    simp only [hop, h1, h2, OP_MASKED_NOT_LITERAL, OP_MASKED_LITERAL, OP_NOT_LITERAL, OP_LITERAL, OP_ANY, OP_REPEAT_ANY_GREEDY,
      OP_REPEAT_ANY_UNGREEDY] at ht
    simp only [Nat.reduceEqDiff, or_self, if_false, if_true] at ht
    unfold testMasked
    simp only [bne_iff_ne, ne_eq, Bool.not_eq_true', beq_eq_false_iff_ne] at ht ⊢
    intro heq; apply ht
    rw [← UInt8.toNat_and, heq]
  rwa [specFlagsG_cs] at this

theorem consume_any_at {e : Env} {bm p : Nat} (hat : At e bm p) {f : Fiber} (hop : u8 e.code f.ip = OP_ANY) (hc : consumeOk e bm f = true) :
    Re.Matches (specFlagsG e.fl) e.buf .any p (p + e.cs) := by
  have ht := consumeTest_at hat hc
  have : Re.Matches (specFlagsG e.fl) e.buf .any p (p + (specFlagsG e.fl).cs) := by
    apply Re.Matches.any
    apply charOk_at hat
    unfold consumeTest at ht
    simp only [hop, OP_ANY, true_or, if_true] at ht
    unfold testAny specFlagsG
    exact ht
  rwa [specFlagsG_cs] at this


theorem consume_wordCh_at {e : Env} {bm p : Nat} (hat : At e bm p) {f : Fiber} (hop : u8 e.code f.ip = OP_WORD_CHAR) (hc : consumeOk e bm f = true) :
    Re.Matches (specFlagsG e.fl) e.buf .wordCh p (p + e.cs) := by
  have ht := consumeTest_at hat hc
  have : Re.Matches (specFlagsG e.fl) e.buf .wordCh p (p + (specFlagsG e.fl).cs) := by
    apply Re.Matches.wordCh
    apply charOk_at hat
    unfold consumeTest at ht
    simp only [hop, OP_ANY, OP_REPEAT_ANY_GREEDY, OP_REPEAT_ANY_UNGREEDY, OP_LITERAL, OP_NOT_LITERAL, OP_MASKED_LITERAL, OP_MASKED_NOT_LITERAL, OP_CLASS, OP_WORD_CHAR, OP_NON_WORD_CHAR, OP_SPACE, OP_NON_SPACE, OP_DIGIT, OP_NON_DIGIT] at ht
    simp only [Nat.reduceEqDiff, or_self, if_false, if_true] at ht
    simpa [wordChar_at hat] using ht
  rwa [specFlagsG_cs] at this

theorem consume_nonWordCh_at {e : Env} {bm p : Nat} (hat : At e bm p) {f : Fiber} (hop : u8 e.code f.ip = OP_NON_WORD_CHAR) (hc : consumeOk e bm f = true) :
    Re.Matches (specFlagsG e.fl) e.buf .nonWordCh p (p + e.cs) := by
  have ht := consumeTest_at hat hc
  have : Re.Matches (specFlagsG e.fl) e.buf .nonWordCh p (p + (specFlagsG e.fl).cs) := by
    apply Re.Matches.nonWordCh
    apply charOk_at hat
    unfold consumeTest at ht
    simp only [hop, OP_ANY, OP_REPEAT_ANY_GREEDY, OP_REPEAT_ANY_UNGREEDY, OP_LITERAL, OP_NOT_LITERAL, OP_MASKED_LITERAL, OP_MASKED_NOT_LITERAL, OP_CLASS, OP_WORD_CHAR, OP_NON_WORD_CHAR, OP_SPACE, OP_NON_SPACE, OP_DIGIT, OP_NON_DIGIT] at ht
    simp only [Nat.reduceEqDiff, or_self, if_false, if_true] at ht
    simpa [wordChar_at hat] using ht
  rwa [specFlagsG_cs] at this

theorem consume_space_at {e : Env} {bm p : Nat} (hat : At e bm p) {f : Fiber} (hop : u8 e.code f.ip = OP_SPACE) (hc : consumeOk e bm f = true) :
    Re.Matches (specFlagsG e.fl) e.buf .space p (p + e.cs) := by
  have ht := consumeTest_at hat hc
  have : Re.Matches (specFlagsG e.fl) e.buf .space p (p + (specFlagsG e.fl).cs) := by
    apply Re.Matches.space
    apply charOk_at hat
    unfold consumeTest at ht
    simp only [hop, OP_ANY, OP_REPEAT_ANY_GREEDY, OP_REPEAT_ANY_UNGREEDY, OP_LITERAL, OP_NOT_LITERAL, OP_MASKED_LITERAL, OP_MASKED_NOT_LITERAL, OP_CLASS, OP_WORD_CHAR, OP_NON_WORD_CHAR, OP_SPACE, OP_NON_SPACE, OP_DIGIT, OP_NON_DIGIT] at ht
    simp only [Nat.reduceEqDiff, or_self, if_false, if_true] at ht
    simpa [wordChar_at hat] using ht
  rwa [specFlagsG_cs] at this

theorem consume_nonSpace_at {e : Env} {bm p : Nat} (hat : At e bm p) {f : Fiber} (hop : u8 e.code f.ip = OP_NON_SPACE) (hc : consumeOk e bm f = true) :
    Re.Matches (specFlagsG e.fl) e.buf .nonSpace p (p + e.cs) := by
  have ht := consumeTest_at hat hc
  have : Re.Matches (specFlagsG e.fl) e.buf .nonSpace p (p + (specFlagsG e.fl).cs) := by
    apply Re.Matches.nonSpace
    apply charOk_at hat
    unfold consumeTest at ht
    simp only [hop, OP_ANY, OP_REPEAT_ANY_GREEDY, OP_REPEAT_ANY_UNGREEDY, OP_LITERAL, OP_NOT_LITERAL, OP_MASKED_LITERAL, OP_MASKED_NOT_LITERAL, OP_CLASS, OP_WORD_CHAR, OP_NON_WORD_CHAR, OP_SPACE, OP_NON_SPACE, OP_DIGIT, OP_NON_DIGIT] at ht
    simp only [Nat.reduceEqDiff, or_self, if_false, if_true] at ht
    simpa [wordChar_at hat] using ht
  rwa [specFlagsG_cs] at this

theorem consume_digit_at {e : Env} {bm p : Nat} (hat : At e bm p) {f : Fiber} (hop : u8 e.code f.ip = OP_DIGIT) (hc : consumeOk e bm f = true) :
    Re.Matches (specFlagsG e.fl) e.buf .digit p (p + e.cs) := by
  have ht := consumeTest_at hat hc
  have : Re.Matches (specFlagsG e.fl) e.buf .digit p (p + (specFlagsG e.fl).cs) := by
    apply Re.Matches.digit
    apply charOk_at hat
    unfold consumeTest at ht
    simp only [hop, OP_ANY, OP_REPEAT_ANY_GREEDY, OP_REPEAT_ANY_UNGREEDY, OP_LITERAL, OP_NOT_LITERAL, OP_MASKED_LITERAL, OP_MASKED_NOT_LITERAL, OP_CLASS, OP_WORD_CHAR, OP_NON_WORD_CHAR, OP_SPACE, OP_NON_SPACE, OP_DIGIT, OP_NON_DIGIT] at ht
    simp only [Nat.reduceEqDiff, or_self, if_false, if_true] at ht
    simpa [wordChar_at hat] using ht
  rwa [specFlagsG_cs] at this

theorem consume_nonDigit_at {e : Env} {bm p : Nat} (hat : At e bm p) {f : Fiber} (hop : u8 e.code f.ip = OP_NON_DIGIT) (hc : consumeOk e bm f = true) :
    Re.Matches (specFlagsG e.fl) e.buf .nonDigit p (p + e.cs) := by
  have ht := consumeTest_at hat hc
  have : Re.Matches (specFlagsG e.fl) e.buf .nonDigit p (p + (specFlagsG e.fl).cs) := by
    apply Re.Matches.nonDigit
    apply charOk_at hat
    unfold consumeTest at ht
    simp only [hop, OP_ANY, OP_REPEAT_ANY_GREEDY, OP_REPEAT_ANY_UNGREEDY, OP_LITERAL, OP_NOT_LITERAL, OP_MASKED_LITERAL, OP_MASKED_NOT_LITERAL, OP_CLASS, OP_WORD_CHAR, OP_NON_WORD_CHAR, OP_SPACE, OP_NON_SPACE, OP_DIGIT, OP_NON_DIGIT] at ht
    simp only [Nat.reduceEqDiff, or_self, if_false, if_true] at ht
    simpa [wordChar_at hat] using ht
  rwa [specFlagsG_cs] at this

theorem consume_cls_at {e : Env} {bm p : Nat} (hat : At e bm p) {f : Fiber} {cb : Nat} {neg : Bool} (hop : u8 e.code f.ip = OP_CLASS)
    (hneg : u8 e.code (f.ip + 1) = (if neg then 1 else 0)) (hbits : ∀ c : UInt8, classBit e.code f.ip c = inBitmap cb c)
    (hc : consumeOk e bm f = true) :
    Re.Matches (specFlagsG e.fl) e.buf (.cls cb neg) p (p + e.cs) := by
  have ht := consumeTest_at hat hc
  have : Re.Matches (specFlagsG e.fl) e.buf (.cls cb neg) p (p + (specFlagsG e.fl).cs) := by
    apply Re.Matches.cls
    apply charOk_at hat
    unfold consumeTest at ht
    simp only [hop, OP_ANY, OP_REPEAT_ANY_GREEDY, OP_REPEAT_ANY_UNGREEDY, OP_LITERAL, OP_NOT_LITERAL, OP_MASKED_LITERAL, OP_MASKED_NOT_LITERAL, OP_CLASS] at ht
    simp only [Nat.reduceEqDiff, or_self, if_false, if_true] at ht
    rw [hneg, hbits, hbits] at ht
    unfold testCls specFlagsG
    simp only
    cases neg
    · simpa using ht
    · simpa using ht
  rwa [specFlagsG_cs] at this


/-- the model's "a word character starts at byte index x" (bounds test + `_yr_re_is_word_char`) is the specification's -/
theorem word_int (e : Env) (x : Int) :
    ((decide (x + (e.cs : Int) ≤ (e.buf.size : Int)) && decide (x ≥ 0)) && isWordCharAt e.buf e.cs x) =
      (if 0 ≤ x then wordAt (specFlagsG e.fl) e.buf x.toNat else false) := by
  by_cases hx : 0 ≤ x
  · obtain ⟨i, rfl⟩ : ∃ i : Nat, x = (i : Int) := ⟨x.toNat, by omega⟩
    simp only [hx, if_true, Int.toNat_natCast]
    unfold wordAt charOk isWordCharAt specFlagsG
    by_cases hw : e.fl.wide = true
    · have hcs : e.cs = 2 := by simp [Env.cs, hw]
      simp only [hcs, hw, if_true]
      by_cases h1 : i + 1 < e.buf.size
      · have h0 : i < e.buf.size := by omega
        have e1 : ((i : Int) + 1) = ((i + 1 : Nat) : Int) := by omega
        rw [byteAt_eq h0, e1, byteAt_eq h1]
        have c1 : decide ((i : Int) + ((2 : Nat) : Int) ≤ (e.buf.size : Int)) = true := by simp; omega
        have c2 : decide ((i : Int) ≥ 0) = true := by simp
        rw [c1]
        simp [Bool.and_comm]
      · have c1 : decide ((i : Int) + ((2 : Nat) : Int) ≤ (e.buf.size : Int)) = false := by simp; omega
        rw [c1]
        by_cases h0 : i < e.buf.size
        · rw [byteAt_eq h0]
          have : e.buf[i + 1]? = none := by simp; omega
          simp [this]
        · have : e.buf[i]? = none := by simp; omega
          simp [this]
    · have hcs : e.cs = 1 := by simp [Env.cs, hw]
      simp only [hcs, hw]
      by_cases h0 : i < e.buf.size
      · rw [byteAt_eq h0]
        have c1 : decide ((i : Int) + ((1 : Nat) : Int) ≤ (e.buf.size : Int)) = true := by simp; omega
        have c2 : decide ((i : Int) ≥ 0) = true := by simp
        rw [c1]
        simp
      · have c1 : decide ((i : Int) + ((1 : Nat) : Int) ≤ (e.buf.size : Int)) = false := by simp; omega
        have : e.buf[i]? = none := by simp; omega
        rw [c1]; simp [this]
  · have c2 : decide (x ≥ 0) = false := by simp; omega
    simp [hx, c2]

theorem cs_cases (e : Env) : (e.fl.wide = true ∧ e.cs = 2) ∨ (e.fl.wide = false ∧ e.cs = 1) := by
  unfold Env.cs; cases e.fl.wide <;> simp

theorem consumeOk_parts {e : Env} {bm : Nat} {f : Fiber} (hc : consumeOk e bm f = true) :
    bm < e.maxBytes ∧ (e.fl.wide = true → byteAt e.buf (e.inp bm + 1) = 0) := by
  unfold consumeOk at hc
  simp only [Bool.and_eq_true, Bool.not_eq_true', Bool.or_eq_false_iff, decide_eq_false_iff_not] at hc
  refine ⟨by omega, ?_⟩
  intro hw
  have h2 := hc.1.2
  have hcs : e.cs = 2 := by simp [Env.cs, hw]
  rw [hcs] at h2
  simpa using h2

/-- forwards: after `bm` matched bytes (a multiple of the character size) a consuming step reads the character at start + bm -/
theorem at_fwd {e : Env} (hb : e.fl.backwards = false) (hs : e.start ≤ e.buf.size) {bm : Nat} (hd : bm % e.cs = 0) {f : Fiber}
    (hc : consumeOk e bm f = true) : At e bm (e.start + bm) := by
  obtain ⟨h1, h2⟩ := consumeOk_parts hc
  have hinp : e.inp bm = ((e.start + bm : Nat) : Int) := by simp [Env.inp, hb]
  refine ⟨hinp, ?_, fun hw => by rw [← hinp]; exact h2 hw, h1⟩
  unfold Env.maxBytes at h1
  simp only [hb, Bool.false_eq_true, if_false] at h1
  unfold Env.fwdSize at h1
  rcases cs_cases e with ⟨_, hcs⟩ | ⟨_, hcs⟩ <;> rw [hcs] at h1 hd ⊢ <;> omega

/-- backwards: a consuming step reads the character that ends at start - bm -/
theorem at_bwd {e : Env} (hb : e.fl.backwards = true) (hs : e.start ≤ e.buf.size) {bm : Nat} (hd : bm % e.cs = 0) {f : Fiber}
    (hc : consumeOk e bm f = true) : bm + e.cs ≤ e.start ∧ At e bm (e.start - e.cs - bm) := by
  obtain ⟨h1, h2⟩ := consumeOk_parts hc
  have hle : bm + e.cs ≤ e.start := by
    unfold Env.maxBytes at h1
    simp only [hb, if_true] at h1
    unfold Env.bwdSize at h1
    rcases cs_cases e with ⟨_, hcs⟩ | ⟨_, hcs⟩ <;> rw [hcs] at h1 hd ⊢ <;> omega
  have hinp : e.inp bm = ((e.start - e.cs - bm : Nat) : Int) := by simp [Env.inp, hb]; omega
  refine ⟨hle, hinp, by omega, fun hw => by rw [← hinp]; exact h2 hw, h1⟩

/-! ### zero-width instructions, every direction and character size -/
theorem zwG_boundary_fwd {e : Env} (hb : e.fl.backwards = false) (bm : Nat) :
    zeroWidthOk e bm OP_WORD_BOUNDARY = isBoundary (specFlagsG e.fl) e.buf (e.start + bm) := by
  have hinp : e.inp bm = ((e.start + bm : Nat) : Int) := by simp [Env.inp, hb]
  unfold zeroWidthOk isBoundary wordBefore
  simp only [OP_WORD_BOUNDARY, OP_NON_WORD_BOUNDARY, Nat.reduceEqDiff, true_or, if_true, if_false, hb, Bool.false_eq_true]
  rw [word_int, word_int, hinp, specFlagsG_cs]
  generalize e.start + bm = P
  have c0 : (0 : Int) ≤ (P : Int) := by omega
  simp only [c0, if_true, Int.toNat_natCast]
  by_cases hp : e.cs ≤ P
  · have c1 : (0 : Int) ≤ (P : Int) - (e.cs : Int) := by omega
    have e1 : ((P : Int) - (e.cs : Int)).toNat = P - e.cs := by omega
    simp [c1, e1, hp]
  · have c1 : ¬ (0 : Int) ≤ (P : Int) - (e.cs : Int) := by omega
    simp [c1, hp]

theorem zwG_boundary_bwd {e : Env} (hb : e.fl.backwards = true) {bm : Nat} (hle : bm ≤ e.start) :
    zeroWidthOk e bm OP_WORD_BOUNDARY = isBoundary (specFlagsG e.fl) e.buf (e.start - bm) := by
  have hinp : e.inp bm = ((e.start - bm : Nat) : Int) - (e.cs : Int) := by simp [Env.inp, hb]; omega
  unfold zeroWidthOk isBoundary wordBefore
  simp only [OP_WORD_BOUNDARY, OP_NON_WORD_BOUNDARY, Nat.reduceEqDiff, true_or, if_true, if_false, hb]
  rw [word_int, word_int, hinp, specFlagsG_cs]
  generalize e.start - bm = P
  have e0 : (P : Int) - (e.cs : Int) - -(e.cs : Int) = (P : Int) := by omega
  rw [e0]
  have c0 : (0 : Int) ≤ (P : Int) := by omega
  simp only [c0, if_true, Int.toNat_natCast]
  by_cases hp : e.cs ≤ P
  · have c1 : (0 : Int) ≤ (P : Int) - (e.cs : Int) := by omega
    have e1 : ((P : Int) - (e.cs : Int)).toNat = P - e.cs := by omega
    simp only [c1, e1, hp, if_true, decide_true, Bool.true_and]
    cases wordAt (specFlagsG e.fl) e.buf P <;> cases wordAt (specFlagsG e.fl) e.buf (P - e.cs) <;> rfl
  · have c1 : ¬ (0 : Int) ≤ (P : Int) - (e.cs : Int) := by omega
    simp only [c1, hp, if_false, decide_false, Bool.false_and]
    cases wordAt (specFlagsG e.fl) e.buf P <;> rfl

theorem zwG_bol_fwd {e : Env} (hb : e.fl.backwards = false) {bm : Nat} (hz : zeroWidthOk e bm OP_MATCH_AT_START = true) : e.start + bm = 0 := by
  unfold zeroWidthOk at hz
  simp [OP_MATCH_AT_START, OP_WORD_BOUNDARY, OP_NON_WORD_BOUNDARY, hb, Env.bwdSize] at hz
  omega

theorem zwG_eol_fwd {e : Env} (hb : e.fl.backwards = false) {bm : Nat} (hle : e.start + bm ≤ e.buf.size)
    (hz : zeroWidthOk e bm OP_MATCH_AT_END = true) : e.start + bm = e.buf.size := by
  unfold zeroWidthOk at hz
  simp [OP_MATCH_AT_END, OP_MATCH_AT_START, OP_WORD_BOUNDARY, OP_NON_WORD_BOUNDARY, hb, Env.fwdSize] at hz
  omega

theorem zwG_bol_bwd {e : Env} (hb : e.fl.backwards = true) {bm : Nat} (hle : bm ≤ e.start)
    (hz : zeroWidthOk e bm OP_MATCH_AT_START = true) : e.start - bm = 0 := by
  unfold zeroWidthOk at hz
  simp [OP_MATCH_AT_START, OP_WORD_BOUNDARY, OP_NON_WORD_BOUNDARY, hb, Env.bwdSize] at hz
  omega

theorem zwG_eol_bwd {e : Env} (hb : e.fl.backwards = true) {bm : Nat} : zeroWidthOk e bm OP_MATCH_AT_END = false := by
  unfold zeroWidthOk
  simp [OP_MATCH_AT_END, OP_MATCH_AT_START, OP_WORD_BOUNDARY, OP_NON_WORD_BOUNDARY, hb]


theorem consume_anyrep_at {e : Env} {bm p : Nat} (hat : At e bm p) {f : Fiber}
    (hop : u8 e.code f.ip = OP_REPEAT_ANY_GREEDY ∨ u8 e.code f.ip = OP_REPEAT_ANY_UNGREEDY) (hc : consumeOk e bm f = true) :
    Re.Matches (specFlagsG e.fl) e.buf .any p (p + e.cs) := by
  have ht := consumeTest_at hat hc
  have : Re.Matches (specFlagsG e.fl) e.buf .any p (p + (specFlagsG e.fl).cs) := by
    apply Re.Matches.any
    apply charOk_at hat
    unfold consumeTest at ht
    have : (u8 e.code f.ip = OP_ANY ∨ u8 e.code f.ip = OP_REPEAT_ANY_GREEDY ∨ u8 e.code f.ip = OP_REPEAT_ANY_UNGREEDY) := .inr hop
    simp only [this, if_true] at ht
    unfold testAny specFlagsG
    exact ht
  rwa [specFlagsG_cs] at this

theorem maxBytes_bound (e : Env) : (e.fl.backwards = false → e.start ≤ e.buf.size → e.start + e.maxBytes ≤ e.buf.size) ∧
    (e.fl.backwards = true → e.maxBytes ≤ e.start) := by
  constructor
  · intro hb hs
    unfold Env.maxBytes Env.fwdSize
    simp only [hb, Bool.false_eq_true, if_false]
    omega
  · intro hb
    unfold Env.maxBytes Env.bwdSize
    simp only [hb, if_true]
    omega

end YaraModel.ReEmit
