/- Cut points inside the relocation section that do not fall on an entry boundary: the fully checked loader refuses the
   prefix; with the boundary case (ArenaRoundTrip / Thm/C17 reloc_cut_accepted) every cut point is classified. -/
import YaraModel.Lemmas.ArenaLoadRules
namespace YaraModel.Arena
open YaraModel.Gen.ArenaLayout

/-- header, table and bodies of an image are consumed; whatever follows goes to the relocation loop -/
theorem load_bodies_then (cfg : LoaderCfg) (alloc : Nat → Nat) (ds : List Bytes) (hn : ds.length ≤ maxBuffers)
    (hs : ∀ d ∈ ds, d.length < 2 ^ 32 ∧ CapOk d.length) (tail : Bytes) :
    load cfg alloc (header ds.length ++ (table (headerSize + tableEntrySize * ds.length) (ds.map (·.length)) ++ (ds.flatten ++ tail))) =
      applyRelocs cfg { bufs := loadedBufs alloc 0 ds, relocs := [], init := loadInitialSize } tail := by
  have hes : (entries (headerSize + tableEntrySize * ds.length) (ds.map (·.length))).length = ds.length := by
    rw [entries_length, List.length_map]
  have hsizes : (entries (headerSize + tableEntrySize * ds.length) (ds.map (·.length))).map (·.2 % 2 ^ 32) = ds.map (·.length) := by
    rw [entries_sizes, List.map_map]
    apply List.map_congr_left
    intro d hd
    show d.length % 2 ^ 32 = d.length
    exact Nat.mod_eq_of_lt (hs d hd).1
  rw [table_eq_raw, load_raw' cfg alloc _ _ hes hn, entriesOk_entries, hsizes,
    readBodies_full' alloc ds (fun d hd => (hs d hd).2) tail 0]
  simp only [Bool.not_true, Bool.and_false, Bool.false_eq_true, if_false]

/-- a cut inside a relocation entry -/
theorem load_cut_in_entry (cfg : LoaderCfg) (hh : Hardened cfg) (alloc : Nat → Nat) (a : Arena) (hn : a.bufs.length ≤ maxBuffers)
    (hs2 : ∀ b ∈ a.bufs, b.data.length ≤ 2 ^ 31) (m : Nat) (hm : m % 8 ≠ 0) (hlt : m < 8 * a.relocs.length) :
    load cfg alloc ((save a).take (bodiesEnd a + m)) = .error .corruptFile := by
  have hlenB : (bodies (toRefs a)).length = a.bufs.length := by rw [toRefs_eq]; simp [bodies]
  have hsum : ((bodies (toRefs a)).flatten).length = ((bodies a).map (·.length)).sum := by
    rw [List.length_flatten, bodies_toRefs_lengths]
  have htl := length_table (headerSize + tableEntrySize * a.bufs.length) ((bodies a).map (·.length))
  rw [bodies_length] at htl
  have himg : (save a).take (bodiesEnd a + m) =
      header (bodies (toRefs a)).length ++ (table (headerSize + tableEntrySize * (bodies (toRefs a)).length) ((bodies (toRefs a)).map (·.length)) ++
        ((bodies (toRefs a)).flatten ++ (relocBytes a.relocs).take m)) := by
    rw [save_split, hlenB, bodies_toRefs_lengths]
    unfold bodiesEnd bodiesStart
    rw [take_header_append _ _ (by omega)]
    congr 1
    rw [List.take_append, htl, List.take_of_length_le (by rw [htl]; omega)]
    congr 1
    rw [List.take_append, hsum, List.take_of_length_le (by rw [hsum]; omega)]
    congr 2
    omega
  rw [himg, load_bodies_then cfg alloc _ (by rw [hlenB]; exact hn)]
  · rcases applyRelocs_cases cfg hh _ ((relocBytes a.relocs).take m) (Nat.le_refl _)
      { bufs := loadedBufs alloc 0 (bodies (toRefs a)), relocs := [], init := loadInitialSize } with ⟨A', _, h2⟩ | h1
    · exfalso
      rw [List.length_take, length_relocBytes] at h2
      have : min m (8 * a.relocs.length) = m := by omega
      rw [this] at h2
      exact hm h2
    · exact h1
  · intro d hd
    have : d.length ∈ (bodies (toRefs a)).map (·.length) := List.mem_map.2 ⟨d, hd, rfl⟩
    rw [bodies_toRefs_lengths] at this
    simp only [bodies, List.mem_map] at this
    obtain ⟨d', ⟨b, hb, rfl⟩, he⟩ := this
    have := hs2 b hb
    rw [← he]
    exact ⟨by omega, capOk_of_le this⟩

theorem save_length (a : Arena) : (save a).length = bodiesEnd a + 8 * a.relocs.length := by
  rw [save_split]
  unfold bodiesEnd bodiesStart
  rw [List.length_append, length_header, List.length_append, length_table, bodies_length, List.length_append,
    List.length_flatten, bodies_toRefs_lengths, length_relocBytes]

  omega
end YaraModel.Arena
