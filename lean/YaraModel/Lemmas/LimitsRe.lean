/-
  C15 — the regular-expression emitter threads the split-id counter exactly:
  `emit` succeeds with `split' = split + splits r`, and fails with TOO_COMPLEX only when
  the split count of the expression does not fit below the limit.
-/
import YaraModel.Lemmas.Limits
set_option linter.unusedVariables false
set_option linter.unusedSectionVars false
namespace YaraModel.Limits

/-- What a (sub)emission that needs `n` split ids may do from context `c`. -/
def EmitSpec (MAX n : Nat) (c : Emit) : Except Err Emit → Prop
  | .ok c' => c'.split = c.split + n ∧ c'.split ≤ MAX
  | .error .reTooComplex => c.split + n > MAX
  | .error .reTooLarge => True
  | .error _ => False

variable {G : Guards} (hG : G.Sound)

theorem EmitSpec.pure (MAX : Nat) (c c' : Emit) (hc : c.split ≤ MAX) (h : c'.split = c.split) :
    EmitSpec MAX 0 c (.ok c') := by
  simp [EmitSpec, h, hc]

include hG in
theorem EmitSpec.split (MAX : Nat) (c : Emit) (hc : c.split ≤ MAX) : EmitSpec MAX 1 c (emitSplit G MAX c) := by
  cases h : emitSplit G MAX c with
  | ok c' =>
    have h1 := emitSplit_ok hG MAX c c' h
    have h2 := emitSplit_le hG MAX c c' hc h
    exact ⟨h1.1, h2⟩
  | error e =>
    have := emitSplit_err hG MAX c e hc h
    rw [this.1]
    simp [EmitSpec]; omega

theorem EmitSpec.bind {MAX n n1 n2 : Nat} {c : Emit} {ra : Except Err Emit} {f : Emit → Except Err Emit}
    (hn : n = n1 + n2) (h1 : EmitSpec MAX n1 c ra)
    (h2 : ∀ c1, c1.split ≤ MAX → c1.split = c.split + n1 → EmitSpec MAX n2 c1 (f c1)) :
    EmitSpec MAX n c (ra >>= f) := by
  subst hn
  cases ra with
  | ok c1 =>
    have h1' : c1.split = c.split + n1 ∧ c1.split ≤ MAX := h1
    have := h2 c1 h1'.2 h1'.1
    show EmitSpec MAX (n1 + n2) c (f c1)
    cases hf : f c1 with
    | ok c2 =>
      rw [hf] at this
      have t : c2.split = c1.split + n2 ∧ c2.split ≤ MAX := this
      exact ⟨by omega, t.2⟩
    | error e =>
      rw [hf] at this
      cases e <;> simp_all [EmitSpec] <;> omega
  | error e =>
    show EmitSpec MAX (n1 + n2) c (.error e)
    cases e <;> simp_all [EmitSpec] <;> omega

theorem EmitSpec.guard {MAX n : Nat} {c : Emit} {p : Prop} [Decidable p] {x : Except Err Emit}
    (h : EmitSpec MAX n c x) : EmitSpec MAX n c (if p then .error .reTooLarge else x) := by
  split
  · trivial
  · exact h

theorem EmitSpec.whenE {MAX n : Nat} {c : Emit} {p : Prop} [Decidable p] {f : Emit → Except Err Emit}
    (hc : c.split ≤ MAX) (hx : p → EmitSpec MAX n c (f c)) :
    EmitSpec MAX (if p then n else 0) c (whenE p f c) := by
  unfold YaraModel.Limits.whenE
  split
  · rename_i hp; exact hx hp
  · exact EmitSpec.pure MAX c c hc rfl

include hG in
theorem emit_spec (MAX : Nat) (r : Re) (c : Emit) (hc : c.split ≤ MAX) : EmitSpec MAX (splits r) c (emit G MAX r c) := by
  induction r generalizing c with
  | lit => exact EmitSpec.pure MAX c _ hc rfl
  | any => exact EmitSpec.pure MAX c _ hc rfl
  | cls => exact EmitSpec.pure MAX c _ hc rfl
  | cat a b iha ihb =>
    simp only [emit, splits]
    exact EmitSpec.bind rfl (iha c hc) (fun c1 h1 _ => ihb c1 h1)
  | plus a iha =>
    simp only [emit, splits]
    refine EmitSpec.bind rfl (iha c hc) (fun c1 h1 _ => ?_)
    exact EmitSpec.guard (EmitSpec.split hG MAX c1 h1)
  | star a iha =>
    simp only [emit, splits]
    refine EmitSpec.bind rfl (EmitSpec.split hG MAX c hc) (fun c1 h1 _ => ?_)
    refine EmitSpec.bind (n2 := 0) rfl (iha c1 h1) (fun c2 h2 _ => ?_)
    refine EmitSpec.guard ?_
    refine EmitSpec.guard ?_
    exact EmitSpec.pure MAX c2 _ h2 rfl
  | alt a b iha ihb =>
    simp only [emit, splits]
    refine EmitSpec.bind (n1 := 1) (n2 := splits a + splits b) (by omega) (EmitSpec.split hG MAX c hc) (fun c1 h1 _ => ?_)
    refine EmitSpec.bind rfl (iha c1 h1) (fun c2 h2 _ => ?_)
    refine EmitSpec.guard ?_
    have h3 : ({ c2 with size := c2.size + 3 } : Emit).split ≤ MAX := h2
    refine EmitSpec.bind (n1 := splits b) (n2 := 0) rfl ?_ (fun c4 h4 _ => ?_)
    · have := ihb { c2 with size := c2.size + 3 } h3
      exact this
    · refine EmitSpec.guard ?_
      exact EmitSpec.pure MAX c4 _ h4 rfl
  | range lo hi a iha =>
    simp only [emit, splits]
    have e1 : (if lo > 0 then splits a else 0) + (if hi > lo + 1 ∨ hi > 2 then splits a else 0) + (if hi > lo then 1 else 0) +
        (if hi > lo ∨ hi > 1 then splits a else 0) =
        (if lo > 0 then splits a else 0) + ((if hi > lo + 1 ∨ hi > 2 then splits a else 0) + ((if hi > lo then 1 else 0) +
        ((if hi > lo ∨ hi > 1 then splits a else 0) + 0))) := by omega
    rw [e1]
    refine EmitSpec.bind rfl ?_ (fun c1 h1 _ => ?_)
    · exact EmitSpec.whenE hc (fun _ => iha c hc)
    refine EmitSpec.bind rfl ?_ (fun c2 h2 _ => ?_)
    · refine EmitSpec.whenE h1 (fun _ => ?_)
      have h1' : ({ c1 with size := c1.size + repeatArgsSize } : Emit).split ≤ MAX := h1
      refine EmitSpec.bind (n1 := splits a) (n2 := 0) rfl ?_ (fun c22 h22 _ => ?_)
      · exact iha { c1 with size := c1.size + repeatArgsSize } h1'
      · exact EmitSpec.pure MAX c22 _ h22 rfl
    refine EmitSpec.bind rfl ?_ (fun c3 h3 _ => ?_)
    · exact EmitSpec.whenE h2 (fun _ => EmitSpec.split hG MAX c2 h2)
    refine EmitSpec.bind rfl ?_ (fun c4 h4 _ => ?_)
    · exact EmitSpec.whenE h3 (fun _ => iha c3 h3)
    · refine EmitSpec.guard ?_
      exact EmitSpec.pure MAX c4 c4 h4 rfl

end YaraModel.Limits
