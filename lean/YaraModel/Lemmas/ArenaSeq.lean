/- The protocol `WF` is preserved by growth and by appending, allocation is a function of the
   abstract arena: any sequence of allocations gives the same abstract arena under any initial
   capacity, any allocator behaviour and with or without the always-move hook. -/
import YaraModel.Lemmas.ArenaRoundTrip
import YaraModel.Lemmas.ArenaGrow
namespace YaraModel.Arena
open YaraModel.Gen.ArenaLayout

theorem findBuf_some {p : Nat} {l : List Buf} {k : Nat} {r : Ref} (h : findBuf p l k = some r) :
    ∃ j, j < l.length ∧ Hits (l.getD j {}) p := by
  induction l generalizing k with
  | nil => simp [findBuf] at h
  | cons b t ih =>
    rw [findBuf_cons] at h
    by_cases hh : Hits b p
    · exact ⟨0, by simp, by simpa using hh⟩
    · rw [if_neg hh] at h
      obtain ⟨j, hj, hjh⟩ := ih h
      exact ⟨j + 1, by simpa using hj, by simpa using hjh⟩

theorem validPtr_of_found {bufs : List Buf} {p : Nat} {r : Ref} (h : (ptrToRef bufs p).2 = some r) : ValidPtr bufs p := by
  unfold ptrToRef at h
  by_cases hp : p = 0
  · exact Or.inl hp
  · rw [if_neg hp] at h
    cases hf : findBuf p bufs 0 with
    | none => rw [hf] at h; simp at h
    | some r' => exact Or.inr (findBuf_some hf)

/-! ### everything the protocol looks at in a buffer besides the slot contents -/

def key3 (b : Buf) : Nat × Nat × Nat := (b.base, b.cap, b.data.length)

theorem getD_of_keys3 {l l' : List Buf} (h : l.map key3 = l'.map key3) (i : Nat) :
    (l.getD i {}).base = (l'.getD i {}).base ∧ (l.getD i {}).cap = (l'.getD i {}).cap ∧
      (l.getD i {}).data.length = (l'.getD i {}).data.length := by
  have hi : (l.map key3)[i]? = (l'.map key3)[i]? := by rw [h]
  simp only [List.getElem?_map] at hi
  simp only [List.getD_eq_getElem?_getD]
  cases h1 : l[i]? <;> cases h2 : l'[i]? <;> simp [h1, h2, key3] at hi ⊢
  exact hi

theorem keys_of_keys3 {l l' : List Buf} (h : l.map key3 = l'.map key3) : l.map key = l'.map key := by
  have hl : l.length = l'.length := by simpa using congrArg List.length h
  apply List.ext_getElem?
  intro i
  have hi : (l.map key3)[i]? = (l'.map key3)[i]? := by rw [h]
  simp only [List.getElem?_map] at hi ⊢
  cases h1 : l[i]? <;> cases h2 : l'[i]? <;> simp [h1, h2, key3, key] at hi ⊢
  exact ⟨hi.1, hi.2.2⟩

theorem RangesOk.congr {l l' : List Buf} (h : l.map key3 = l'.map key3) (hr : RangesOk l) : RangesOk l' := by
  have hl : l.length = l'.length := by simpa using congrArg List.length h
  constructor
  · intro x hx
    obtain ⟨j, hj, rfl⟩ := mem_iff_getD.1 hx
    have := hr.fits _ (mem_iff_getD.2 ⟨j, by omega, rfl⟩)
    have hk := getD_of_keys3 h j
    omega
  · intro x hx
    obtain ⟨j, hj, rfl⟩ := mem_iff_getD.1 hx
    have := hr.null _ (mem_iff_getD.2 ⟨j, by omega, rfl⟩)
    have hk := getD_of_keys3 h j
    omega
  · apply pairwise_of_getD
    intro i j hi hj hlt
    have := pairwise_getD hr.apart (show i < l.length by omega) (show j < l.length by omega) (by omega)
    have hki := getD_of_keys3 h i
    have hkj := getD_of_keys3 h j
    unfold Apart at *
    omega

theorem ValidPtr.congr {l l' : List Buf} (h : l.map key = l'.map key) {v : Nat} (hv : ValidPtr l v) : ValidPtr l' v := by
  have hl : l.length = l'.length := by simpa using congrArg List.length h
  rcases hv with h0 | ⟨j, hj, hh⟩
  · exact Or.inl h0
  · refine Or.inr ⟨j, by omega, ?_⟩
    have hk := getD_of_keys h j
    unfold Hits at *
    omega

theorem keys3_setSlot (a : Arena) (r : Ref) (v : Nat) : (setSlot a r v).bufs.map key3 = a.bufs.map key3 := by
  apply List.ext_getElem?
  intro i
  simp only [setSlot, List.getElem?_map, List.getElem?_modify]
  by_cases h : r.buf = i
  · subst h; cases a.bufs[r.buf]? <;> simp [key3, length_wr64]
  · simp [h]

theorem keys3_mapSlots (φ : Nat → Nat) (rs : List Ref) (a : Arena) : (mapSlots φ rs a).bufs.map key3 = a.bufs.map key3 := by
  induction rs generalizing a with
  | nil => simp only [mapSlots_nil]
  | cons r t ih => rw [mapSlots_cons, ih, keys3_setSlot]

theorem keys3_setMeta_congr {a a' : Arena} (h : a.bufs.map key3 = a'.bufs.map key3) (i cap base : Nat) (d : Bool) :
    (setMeta a i cap base d).bufs.map key3 = (setMeta a' i cap base d).bufs.map key3 := by
  apply List.ext_getElem?
  intro j
  have hj : (a.bufs.map key3)[j]? = (a'.bufs.map key3)[j]? := by rw [h]
  simp only [List.getElem?_map] at hj
  simp only [setMeta, List.getElem?_map, List.getElem?_modify]
  by_cases hi : i = j
  · subst hi
    cases h1 : a.bufs[i]? <;> cases h2 : a'.bufs[i]? <;> simp [h1, h2, key3] at hj ⊢
    exact hj.2.2
  · simpa [hi] using hj

/-- **No stale reference after a growth**: the protocol still holds — every registered slot is
    still inside used bytes and holds null or a pointer into used bytes of the arena at its new place. -/
theorem wf_growBuf {a : Arena} (h : WF a) {b newBase nc : Nat} (hb : b < a.bufs.length) (hf : Fresh a b newBase nc) (zero : Bool) :
    WF (growBuf a b newBase nc zero) := by
  rw [growBuf_eq h.slots]
  obtain ⟨μ, hμ⟩ : ∃ μ, μ = moveVal (a.bufAt b).base (a.bufAt b).data.length newBase := ⟨_, rfl⟩
  rw [← hμ]
  have hk3 : (setMeta (mapSlots μ a.relocs a) b nc newBase (!zero)).bufs.map key3 = (placed a.bufs b newBase nc (!zero)).map key3 := by
    rw [← setMeta_bufs a]
    exact keys3_setMeta_congr (keys3_mapSlots _ _ _) _ _ _ _
  have hk := keys_of_keys3 hk3
  have hlen : (setMeta (mapSlots μ a.relocs a) b nc newBase (!zero)).bufs.length = a.bufs.length := by
    simp [setMeta]
  have hrel : (setMeta (mapSlots μ a.relocs a) b nc newBase (!zero)).relocs = a.relocs := by
    simp [setMeta]
  have hdat : ∀ j, ((setMeta (mapSlots μ a.relocs a) b nc newBase (!zero)).bufAt j).data.length = (a.bufAt j).data.length := by
    intro j; rw [bufAt_setMeta_data, bufAt_mapSlots_len]
  have hrp := rangesOk_placed h.ranges hf (!zero)
  constructor
  · rw [hrel]
    exact ⟨h.slots.1, fun r hr => ⟨by rw [hdat]; exact (h.slots.2 r hr).1, by rw [hlen]; exact (h.slots.2 r hr).2⟩⟩
  · exact hrp.congr hk3.symm
  · rw [hrel]
    intro r hr
    rw [getSlot_setMeta, getSlot_mapSlots _ h.slots hr]
    have hm := ptrToRef_after_move h.ranges hb hf (!zero) (h.valid r hr)
    rw [← hμ] at hm
    rw [Nat.mod_eq_of_lt hm.2]
    apply ValidPtr.congr hk.symm
    rcases h.valid r hr with h0 | ⟨j, hj, hh⟩
    · -- null stays null
      have : μ (getSlot a r) = 0 := by
        rw [hμ, h0]; unfold moveVal; split
        · rw [retarget_eq, if_neg (by omega)]
        · rfl
      exact Or.inl this
    · have hfound := ptrToRef_hit h.ranges hj hh
      have h2 : (ptrToRef (placed a.bufs b newBase nc (!zero)) (μ (getSlot a r))).2 = some ⟨j, getSlot a r - (a.bufs.getD j {}).base⟩ := by
        rw [hm.1, hfound]
      exact validPtr_of_found h2
  · rw [hlen]; exact h.count
  · intro x hx
    obtain ⟨j, hj, rfl⟩ := mem_iff_getD.1 hx
    rw [hlen] at hj
    have := h.sizes _ (mem_iff_getD.2 ⟨j, hj, rfl⟩)
    have hd := hdat j
    unfold Arena.bufAt at hd
    omega

/-! ### appending to a buffer -/

def appendBuf (a : Arena) (b : Nat) (f : Bytes) : Arena :=
  { a with bufs := a.bufs.modify b (fun x => { x with data := x.data ++ f }) }

theorem getElem?_append_left' (d f : Bytes) {i : Nat} (h : i < d.length) : (d ++ f)[i]? = d[i]? := by
  rw [List.getElem?_append_left h]

theorem wr64_append {d : Bytes} (f : Bytes) {off : Nat} (v : Nat) (h : off + 8 ≤ d.length) :
    wr64 (d ++ f) off v = wr64 d off v ++ f := by
  apply List.ext_getElem?
  intro i
  rw [getElem?_wr64 (d ++ f)]
  by_cases hi : i < d.length
  · have hi' : i < (wr64 d off v).length := by rw [length_wr64]; exact hi
    rw [List.getElem?_append_left hi', getElem?_wr64 d, List.getElem?_append_left hi]
    have : (off + 8 ≤ (d ++ f).length ∧ off ≤ i ∧ i < off + 8) ↔ (off + 8 ≤ d.length ∧ off ≤ i ∧ i < off + 8) := by
      rw [List.length_append]; omega
    simp only [this]
  · have hlen : (wr64 d off v).length ≤ i := by rw [length_wr64]; omega
    rw [List.getElem?_append_right hlen, length_wr64, if_neg (by omega), List.getElem?_append_right (by omega)]

theorem rd64_append {d : Bytes} (f : Bytes) {off : Nat} (h : off + 8 ≤ d.length) : rd64 (d ++ f) off = rd64 d off := by
  rw [rd64_eq, rd64_eq]
  congr 1
  apply win_congr
  intro i hi
  rw [List.getElem?_append_left (by omega)]

theorem bufAt_appendBuf (a : Arena) (b : Nat) (f : Bytes) (j : Nat) :
    (appendBuf a b f).bufAt j = if b = j ∧ j < a.bufs.length then { a.bufAt j with data := (a.bufAt j).data ++ f } else a.bufAt j := by
  unfold appendBuf Arena.bufAt
  rw [getD_modify]

theorem appendBuf_length (a : Arena) (b : Nat) (f : Bytes) : (appendBuf a b f).bufs.length = a.bufs.length := by
  simp [appendBuf]

theorem getSlot_appendBuf {a : Arena} (b : Nat) (f : Bytes) {r : Ref} (h : InB a r) :
    getSlot (appendBuf a b f) r = getSlot a r := by
  unfold getSlot
  rw [bufAt_appendBuf]
  split
  · exact rd64_append f h.1
  · rfl

theorem setSlot_appendBuf {a : Arena} (b : Nat) (f : Bytes) {r : Ref} (v : Nat) (h : InB a r) :
    setSlot (appendBuf a b f) r v = appendBuf (setSlot a r v) b f := by
  refine Arena.ext' ?_ (by rfl) (by rfl) (by rfl)
  simp only [setSlot, appendBuf]
  by_cases hb : b = r.buf
  · subst hb
    rw [List.modify_modify_eq, List.modify_modify_eq]
    apply List.ext_getElem?
    intro j
    simp only [List.getElem?_modify]
    by_cases hj : r.buf = j
    · subst hj
      have hl := h.2
      have h1 := h.1
      simp only [bufAt_eq, List.getElem?_eq_getElem hl, Option.getD_some] at h1
      simp only [if_true, List.getElem?_eq_getElem hl, Option.map_eq_map, Option.map_some, Function.comp]
      rw [wr64_append f v h1]
    · simp [hj]
  · rw [List.modify_modify_ne _ _ _ hb]

theorem InB_appendBuf {a : Arena} (b : Nat) (f : Bytes) {r : Ref} (h : InB a r) : InB (appendBuf a b f) r := by
  unfold InB
  rw [bufAt_appendBuf, appendBuf_length]
  refine ⟨?_, h.2⟩
  split
  · simp only [List.length_append]; have := h.1; omega
  · exact h.1

theorem mapSlots_appendBuf (φ : Nat → Nat) {rs : List Ref} {a : Arena} (b : Nat) (f : Bytes) (h : ∀ r ∈ rs, InB a r) :
    mapSlots φ rs (appendBuf a b f) = appendBuf (mapSlots φ rs a) b f := by
  induction rs generalizing a with
  | nil => simp only [mapSlots_nil]
  | cons r t ih =>
    have hr := h r (List.mem_cons_self ..)
    rw [mapSlots_cons, mapSlots_cons, getSlot_appendBuf b f hr, setSlot_appendBuf b f _ hr]
    exact ih (fun s hs => (InB_setSlot a r _ s).2 (h s (List.mem_cons_of_mem _ hs)))

theorem bodies_appendBuf (a : Arena) (b : Nat) (f : Bytes) : bodies (appendBuf a b f) = (bodies a).modify b (· ++ f) := by
  unfold bodies appendBuf
  apply List.ext_getElem?
  intro j
  simp only [List.getElem?_map, List.getElem?_modify]
  by_cases h : b = j
  · subst h; cases a.bufs[b]? <;> simp
  · simp [h]

theorem wf_appendBuf {a : Arena} (h : WF a) {b : Nat} (f : Bytes)
    (hcap : (a.bufAt b).data.length + f.length ≤ (a.bufAt b).cap) (hsz : (a.bufAt b).data.length + f.length < 2 ^ 32) :
    WF (appendBuf a b f) := by
  have hget := bufAt_appendBuf a b f
  constructor
  · exact ⟨h.slots.1, fun r hr => InB_appendBuf b f (h.slots.2 r hr)⟩
  · have hg : ∀ j, (appendBuf a b f).bufs.getD j {} = (appendBuf a b f).bufAt j := fun _ => rfl
    constructor
    · intro x hx
      obtain ⟨j, hj, rfl⟩ := mem_iff_getD.1 hx
      rw [appendBuf_length] at hj
      have := h.ranges.fits _ (mem_iff_getD.2 ⟨j, hj, rfl⟩)
      rw [hg, hget]; split
      · rename_i hc; obtain ⟨rfl, _⟩ := hc
        simp only [List.length_append]; unfold Arena.bufAt at *; omega
      · exact this
    · intro x hx
      obtain ⟨j, hj, rfl⟩ := mem_iff_getD.1 hx
      rw [appendBuf_length] at hj
      have := h.ranges.null _ (mem_iff_getD.2 ⟨j, hj, rfl⟩)
      rw [hg, hget]; split
      · exact this
      · exact this
    · apply pairwise_of_getD
      intro i j hi hj hlt
      rw [appendBuf_length] at hi hj
      have := pairwise_getD h.ranges.apart hi hj (by omega)
      rw [hg, hg, hget, hget]
      unfold Apart at *
      split <;> split <;> exact this
  · intro r hr
    have hr' : r ∈ a.relocs := hr
    rw [getSlot_appendBuf b f (h.slots.2 r hr')]
    rcases h.valid r hr' with h0 | ⟨j, hj, hh⟩
    · exact Or.inl h0
    · refine Or.inr ⟨j, by rw [appendBuf_length]; exact hj, ?_⟩
      show Hits ((appendBuf a b f).bufAt j) _
      rw [hget]; split
      · unfold Hits at *; simp only [List.length_append]; unfold Arena.bufAt; omega
      · exact hh
  · rw [appendBuf_length]; exact h.count
  · intro x hx
    obtain ⟨j, hj, rfl⟩ := mem_iff_getD.1 hx
    rw [appendBuf_length] at hj
    have := h.sizes _ (mem_iff_getD.2 ⟨j, hj, rfl⟩)
    show ((appendBuf a b f).bufAt j).data.length < 2 ^ 32
    rw [hget]; split
    · rename_i hc; obtain ⟨rfl, _⟩ := hc
      simp only [List.length_append]; exact hsz
    · exact this

theorem abs_appendBuf {a : Arena} (h : WF a) {b : Nat} (f : Bytes)
    (hcap : (a.bufAt b).data.length + f.length ≤ (a.bufAt b).cap) (hsz : (a.bufAt b).data.length + f.length < 2 ^ 32) :
    abs (appendBuf a b f) = absAppend (abs a) b f := by
  have hw := wf_appendBuf h f hcap hsz
  unfold abs absAppend
  have hrel : (appendBuf a b f).relocs = a.relocs := rfl
  rw [hrel]
  congr 1
  rw [toRefs_eq, toRefs_eq, hrel, mapSlots_appendBuf _ b f h.slots.2, bodies_appendBuf]
  congr 2
  apply mapSlots_congr h.slots
  intro r hr
  show encRef (ptrToRef (appendBuf a b f).bufs (getSlot a r)).2 = encRef (ptrToRef a.bufs (getSlot a r)).2
  rcases h.valid r hr with h0 | ⟨j, hj, hh⟩
  · rw [h0, ptrToRef_zero, ptrToRef_zero]
  · rw [ptrToRef_hit h.ranges hj hh]
    have hh' : Hits ((appendBuf a b f).bufs.getD j {}) (getSlot a r) := by
      show Hits ((appendBuf a b f).bufAt j) _
      rw [bufAt_appendBuf]; split
      · unfold Hits at *; simp only [List.length_append]; unfold Arena.bufAt; omega
      · exact hh
    rw [ptrToRef_hit hw.ranges (by rw [appendBuf_length]; exact hj) hh']
    have : ((appendBuf a b f).bufs.getD j {}).base = (a.bufs.getD j {}).base := by
      show ((appendBuf a b f).bufAt j).base = _
      rw [bufAt_appendBuf]; split <;> rfl
    rw [this]

/-! ### one allocation -/

theorem dblUntil_ge (f s need : Nat) (h : need ≤ s * 2 ^ f) : need ≤ dblUntil f s need := by
  induction f generalizing s with
  | zero => simpa [dblUntil] using h
  | succ f ih =>
    simp only [dblUntil]
    split
    · apply ih; rw [Nat.pow_succ] at h; rw [Nat.mul_assoc, Nat.mul_comm 2]; exact h
    · omega

theorem newCap_ge {init cap used size : Nat} (hi : 0 < init) : used + size ≤ newCap init cap used size := by
  unfold newCap
  apply dblUntil_ge
  have hs : 1 ≤ (if cap = 0 then init else cap * 2) := by split <;> omega
  have h2 : used + size < 2 ^ (used + size) := Nat.lt_two_pow_self
  calc used + size ≤ 1 * 2 ^ (used + size) := by omega
    _ ≤ (if cap = 0 then init else cap * 2) * 2 ^ (used + size) := Nat.mul_le_mul_right _ hs

theorem bufAt_setMeta (a : Arena) (i cap base : Nat) (d : Bool) (j : Nat) :
    (setMeta a i cap base d).bufAt j =
      if i = j ∧ j < a.bufs.length then { a.bufAt j with cap := cap, base := base, dirty := d } else a.bufAt j := by
  unfold setMeta Arena.bufAt
  rw [getD_modify]

theorem setBuf_append_eq (a : Arena) (b : Nat) (f : Bytes) :
    a.setBuf b { a.bufAt b with data := (a.bufAt b).data ++ f } = appendBuf a b f := by
  refine Arena.ext' ?_ (by rfl) (by rfl) (by rfl)
  simp only [Arena.setBuf, appendBuf]
  apply List.ext_getElem?
  intro j
  simp only [List.getElem?_set, List.getElem?_modify, bufAt_eq]
  by_cases h : b = j
  · subst h
    by_cases hl : b < a.bufs.length
    · simp [hl]
    · simp [hl]
  · simp [h]

theorem wf_withUnspec {a : Arena} (h : WF a) (u : Bool) : WF { a with unspec := u } :=
  ⟨h.slots, h.ranges, h.valid, h.count, h.sizes⟩

theorem mapSlots_withUnspec (φ : Nat → Nat) (rs : List Ref) (a : Arena) (u : Bool) :
    mapSlots φ rs { a with unspec := u } = { mapSlots φ rs a with unspec := u } := by
  induction rs generalizing a with
  | nil => simp only [mapSlots_nil]
  | cons r t ih =>
    simp only [mapSlots_cons]
    exact ih (setSlot a r (φ (getSlot a r)))

theorem abs_withUnspec (a : Arena) (u : Bool) : abs { a with unspec := u } = abs a := by
  unfold abs
  rw [toRefs_eq, toRefs_eq]
  show (bodies (mapSlots (fun v => encRef (ptrToRef a.bufs v).2) a.relocs { a with unspec := u }), a.relocs) = _
  rw [mapSlots_withUnspec]
  rfl

theorem growBuf_bufAt {a : Arena} (hs : SlotsOk a a.relocs) {b : Nat} (hb : b < a.bufs.length) (nb nc : Nat) (z : Bool) :
    ((growBuf a b nb nc z).bufAt b).cap = nc ∧ ((growBuf a b nb nc z).bufAt b).data.length = (a.bufAt b).data.length ∧
      (growBuf a b nb nc z).init = a.init := by
  rw [growBuf_eq hs, bufAt_setMeta]
  simp only [mapSlots_length, hb, and_self, if_true, bufAt_mapSlots_len]
  exact ⟨trivial, trivial, by simp [setMeta]⟩

/-- **One allocation** (`_yr_arena_allocate_memory` + filling the region), whatever the capacity, the
    hook and the allocator's answer: the protocol is preserved, the abstract arena gets the bytes
    appended to the buffer's body and nothing else, and the reference returned is the old end. -/
theorem allocMem_spec (cfg : Cfg) (nb : Nat) {a : Arena} (h : WF a) (hinit : 0 < a.init) {b : Nat} {zero : Bool} {fill : Bytes}
    {a' : Arena} {r : Ref} (hres : allocMem cfg nb a b zero fill = .ok (a', r))
    (hfresh : AllocFresh cfg nb a b fill.length) (hsz : (a.bufAt b).data.length + fill.length < 2 ^ 32) :
    WF a' ∧ abs a' = absAppend (abs a) b fill ∧ r = ⟨b, (a.bufAt b).data.length⟩ ∧ a'.init = a.init := by
  unfold allocMem at hres
  by_cases hb : b < a.bufs.length
  · rw [if_pos hb] at hres
    simp only at hres
    have hcapdef : (if cfg.alwaysMove = true ∧ (a.bufAt b).base ≠ 0 ∧ fill.length > 0 then (a.bufAt b).data.length else (a.bufAt b).cap)
        = effCap cfg a b fill.length := rfl
    rw [hcapdef] at hres
    by_cases hg : effCap cfg a b fill.length - (a.bufAt b).data.length < fill.length
    · rw [if_pos hg] at hres
      split at hres
      · cases hres
      · simp only [Except.ok.injEq, Prod.mk.injEq] at hres
        obtain ⟨ha', hr⟩ := hres
        have hf := hfresh hg
        have hw1 := wf_growBuf h hb hf zero
        have ha1 := abs_growBuf h hb hf zero
        have ⟨hc1, hl1, hi1⟩ := growBuf_bufAt h.slots hb nb
          (newCap a.init (effCap cfg a b fill.length) (a.bufAt b).data.length fill.length) zero
        have hge := newCap_ge (cap := effCap cfg a b fill.length) (used := (a.bufAt b).data.length) (size := fill.length) hinit
        rw [setBuf_append_eq] at ha'
        subst ha'
        refine ⟨wf_appendBuf hw1 fill (by rw [hl1, hc1]; exact hge) (by rw [hl1]; exact hsz), ?_, hr.symm, hi1⟩
        rw [abs_appendBuf hw1 fill (by rw [hl1, hc1]; exact hge) (by rw [hl1]; exact hsz), ha1]
    · rw [if_neg hg] at hres
      simp only [Except.ok.injEq, Prod.mk.injEq] at hres
      obtain ⟨ha', hr⟩ := hres
      have hcap : effCap cfg a b fill.length = (a.bufAt b).cap := by
        unfold effCap at hg ⊢
        split
        · rename_i hc
          rw [if_pos hc] at hg
          omega
        · rfl
      rw [hcap] at ha' hg
      have hu := wf_withUnspec h (a.unspec || (zero && (a.bufAt b).dirty && decide (fill.length > 0)))
      have he : ({ a with unspec := a.unspec || (zero && (a.bufAt b).dirty && decide (fill.length > 0)) } : Arena).setBuf b
            { a.bufAt b with data := (a.bufAt b).data ++ fill, cap := (a.bufAt b).cap }
          = appendBuf { a with unspec := a.unspec || (zero && (a.bufAt b).dirty && decide (fill.length > 0)) } b fill :=
        setBuf_append_eq { a with unspec := a.unspec || (zero && (a.bufAt b).dirty && decide (fill.length > 0)) } b fill
      rw [he] at ha'
      subst ha'
      have hc' : (Arena.bufAt { a with unspec := a.unspec || (zero && (a.bufAt b).dirty && decide (fill.length > 0)) } b).data.length
          + fill.length ≤ (Arena.bufAt { a with unspec := a.unspec || (zero && (a.bufAt b).dirty && decide (fill.length > 0)) } b).cap := by
        show (a.bufAt b).data.length + fill.length ≤ (a.bufAt b).cap
        have hfit := (h.ranges.fits _ (mem_iff_getD.2 ⟨b, hb, rfl⟩)).1
        unfold Arena.bufAt at *
        omega
      refine ⟨wf_appendBuf hu fill hc' hsz, ?_, hr.symm, rfl⟩
      rw [abs_appendBuf hu fill hc' hsz, abs_withUnspec]
  · rw [if_neg hb] at hres; cases hres

theorem runAllocs_nil (cfg : Cfg) (bases : List Nat) (a : Arena) : runAllocs cfg bases a [] = .ok a := by
  cases bases <;> simp only [runAllocs]

theorem runAllocs_cons (cfg : Cfg) (nb : Nat) (nbs : List Nat) (a : Arena) (q : Req) (qs : List Req) :
    runAllocs cfg (nb :: nbs) a (q :: qs) =
      match allocMem cfg nb a q.b q.zero q.fill with
      | .ok (a1, _) => runAllocs cfg nbs a1 qs
      | .error e => .error e := by
  rw [runAllocs]
  cases allocMem cfg nb a q.b q.zero q.fill with
  | ok p => rfl
  | error e => rfl

theorem runAllocs_short (cfg : Cfg) (a : Arena) (q : Req) (qs : List Req) :
    runAllocs cfg [] a (q :: qs) = .error .invalidArgument := by
  simp only [runAllocs]

end YaraModel.Arena
