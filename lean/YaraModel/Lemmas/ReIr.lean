/-
  Compiler correctness, layout level.  `Ir` is the shape of the code `_yr_re_emit` produces: single instructions,
  `REPEAT_ANY` jumps, concatenation, `split`-based alternation / `*` / `+` / `?`, and the `REPEAT_START … REPEAT_END`
  loop with its counter on the fiber stack (counted repeats are lowered to prolog · loop · optional/epilog by the emit
  table, Lemmas/ReLower.lean).

  `Seg code r a b` : the bytes `code[a..b)` decode to the emission of `r` (zero-length segments included).
  `lang`           : the language accepted from every machine state inside a segment (continuation semantics); inside a
                     loop body it depends on the loop counter, read from the fiber stack at the loop's nesting depth `B`.
  `Valid`          : the machine states that belong to a segment (instruction address, REPEAT_ANY counter, stack depth,
                     counter bounds).
-/
import YaraModel.Lemmas.ReVmSpec
namespace YaraModel.ReEmit
open YaraModel.Re YaraModel.ReVm

inductive Ir where
  | leaf (r : Re)                       -- one instruction (`LeafCode` says which)
  | jump (lo hi : Nat) (g : Bool)       -- REPEAT_ANY
  | eps                                 -- no code
  | cat (x y : Ir)
  | alt (x y : Ir)
  | star (x : Ir) (g : Bool)
  | plus (x : Ir) (g : Bool)
  | opt (x : Ir) (g : Bool)             -- split L ; x ; L:
  | loop (x : Ir) (lo hi : Nat) (g : Bool)   -- repeat_start lo,hi,L1 ; L0: x ; repeat_end lo,hi,L0 ; L1:
  deriving Repr

/-- the expression an `Ir` denotes -/
def Ir.re : Ir → Re
  | .leaf r => r
  | .jump lo hi g => .rangeAny lo hi g
  | .eps => .empty
  | .cat x y => .cat x.re y.re
  | .alt x y => .alt x.re y.re
  | .star x g => .star x.re g
  | .plus x g => .plus x.re g
  | .opt x g => .range x.re 0 1 g
  | .loop x lo hi g => .range x.re lo hi g

def leafLen : Re → Nat
  | .lit _ => 2 | .notLit _ => 2 | .masked _ _ => 3 | .maskedNot _ _ => 3 | .cls _ _ => 34 | _ => 1

theorem leafLen_pos (r : Re) : 0 < leafLen r := by
  cases r <;> simp [leafLen]

/-- length of the emitted code -/
def clen : Ir → Nat
  | .leaf r => leafLen r
  | .jump _ _ _ => 5
  | .eps => 0
  | .cat x y => clen x + clen y
  | .alt x y => 4 + clen x + 3 + clen y
  | .star x _ => 4 + clen x + 3
  | .plus x _ => if clen x = 0 then 0 else clen x + 4
  | .opt x _ => 4 + clen x
  | .loop x _ _ _ => 9 + clen x + 9

/-- the single instruction at `a` is the one `_yr_re_emit` writes for the node -/
inductive LeafCode (code : Code) : Re → Nat → Prop
  | lit {a : Nat} {b : UInt8} : u8 code a = OP_LITERAL → u8 code (a + 1) = b.toNat → LeafCode code (.lit b) a
  | notLit {a : Nat} {b : UInt8} : u8 code a = OP_NOT_LITERAL → u8 code (a + 1) = b.toNat → LeafCode code (.notLit b) a
  | masked {a : Nat} {v m : UInt8} : u8 code a = OP_MASKED_LITERAL → u8 code (a + 1) = v.toNat → u8 code (a + 2) = m.toNat →
      LeafCode code (.masked v m) a
  | maskedNot {a : Nat} {v m : UInt8} : u8 code a = OP_MASKED_NOT_LITERAL → u8 code (a + 1) = v.toNat → u8 code (a + 2) = m.toNat →
      LeafCode code (.maskedNot v m) a
  | any {a : Nat} : u8 code a = OP_ANY → LeafCode code .any a
  | cls {a bm : Nat} {neg : Bool} : u8 code a = OP_CLASS → u8 code (a + 1) = (if neg then 1 else 0) →
      (∀ c : UInt8, classBit code a c = inBitmap bm c) → LeafCode code (.cls bm neg) a
  | wordCh {a : Nat} : u8 code a = OP_WORD_CHAR → LeafCode code .wordCh a
  | nonWordCh {a : Nat} : u8 code a = OP_NON_WORD_CHAR → LeafCode code .nonWordCh a
  | space {a : Nat} : u8 code a = OP_SPACE → LeafCode code .space a
  | nonSpace {a : Nat} : u8 code a = OP_NON_SPACE → LeafCode code .nonSpace a
  | digit {a : Nat} : u8 code a = OP_DIGIT → LeafCode code .digit a
  | nonDigit {a : Nat} : u8 code a = OP_NON_DIGIT → LeafCode code .nonDigit a
  | bol {a : Nat} : u8 code a = OP_MATCH_AT_START → LeafCode code .bol a
  | eol {a : Nat} : u8 code a = OP_MATCH_AT_END → LeafCode code .eol a
  | wordB {a : Nat} : u8 code a = OP_WORD_BOUNDARY → LeafCode code .wordB a
  | nonWordB {a : Nat} : u8 code a = OP_NON_WORD_BOUNDARY → LeafCode code .nonWordB a

/-- `code[a..b)` decodes to the emission of `r` (forward code) -/
inductive Seg (code : Code) : Ir → Nat → Nat → Prop
  | leaf {r : Re} {a : Nat} : LeafCode code r a → Seg code (.leaf r) a (a + leafLen r)
  | jump {a lo hi : Nat} {g : Bool} : (u8 code a = OP_REPEAT_ANY_GREEDY ∨ u8 code a = OP_REPEAT_ANY_UNGREEDY) →
      u16 code (a + 1) = lo → u16 code (a + 3) = hi → lo ≤ hi → Seg code (.jump lo hi g) a (a + 5)
  | eps {a : Nat} : Seg code .eps a a
  | star {x : Ir} {a m : Nat} {g : Bool} : (u8 code a = OP_SPLIT_A ∨ u8 code a = OP_SPLIT_B) → addOff a (i16 code (a + 2)) = m + 3 →
      Seg code x (a + 4) m → u8 code m = OP_JUMP → addOff m (i16 code (m + 1)) = a → Seg code (.star x g) a (m + 3)
  | plus {x : Ir} {a m : Nat} {g : Bool} : Seg code x a m → a < m → (u8 code m = OP_SPLIT_A ∨ u8 code m = OP_SPLIT_B) →
      addOff m (i16 code (m + 2)) = a → Seg code (.plus x g) a (m + 4)
  | plusNil {x : Ir} {a : Nat} {g : Bool} : Seg code x a a → Seg code (.plus x g) a a
  | opt {x : Ir} {a m : Nat} {g : Bool} : (u8 code a = OP_SPLIT_A ∨ u8 code a = OP_SPLIT_B) → addOff a (i16 code (a + 2)) = m →
      Seg code x (a + 4) m → Seg code (.opt x g) a m
  | cat {x y : Ir} {a m b : Nat} : Seg code x a m → Seg code y m b → Seg code (.cat x y) a b
  | alt {x y : Ir} {a m b : Nat} : u8 code a = OP_SPLIT_A → addOff a (i16 code (a + 2)) = m + 3 → Seg code x (a + 4) m →
      u8 code m = OP_JUMP → addOff m (i16 code (m + 1)) = b → Seg code y (m + 3) b → Seg code (.alt x y) a b
  | loop {x : Ir} {a m lo hi : Nat} {g : Bool} :
      (u8 code a = OP_REPEAT_START_GREEDY ∨ u8 code a = OP_REPEAT_START_UNGREEDY) → u16 code (a + 1) = lo →
      addOff a (i32 code (a + 5)) = m + 9 → Seg code x (a + 9) m →
      (u8 code m = OP_REPEAT_END_GREEDY ∨ u8 code m = OP_REPEAT_END_UNGREEDY) → u16 code (m + 1) = lo → u16 code (m + 3) = hi →
      addOff m (i32 code (m + 5)) = a + 9 → lo ≤ hi → 0 < hi → Seg code (.loop x lo hi g) a (m + 9)

theorem Seg.len {code : Code} {r : Ir} {a b : Nat} (h : Seg code r a b) : b = a + clen r := by
  induction h with
  | leaf _ => simp [clen]
  | jump _ _ _ _ => simp [clen]
  | eps => simp [clen]
  | star _ _ _ _ _ ih => simp only [clen]; omega
  | @plus x a m g _ hlt _ _ ih =>
    simp only [clen]
    have : ¬ clen x = 0 := by omega
    rw [if_neg this]; omega
  | @plusNil x a g _ ih =>
    simp only [clen]
    have : clen x = 0 := by omega
    rw [if_pos this]; omega
  | opt _ _ _ ih => simp only [clen]; omega
  | cat _ _ ih1 ih2 => simp only [clen]; omega
  | alt _ _ _ _ _ _ ih1 ih2 => simp only [clen]; omega
  | loop _ _ _ _ _ _ _ _ _ _ ih => simp only [clen]; omega

theorem Seg.le {code : Code} {r : Ir} {a b : Nat} (h : Seg code r a b) : a ≤ b := by
  have := h.len; omega

/-! ### what a code shape matches, in units of matched bytes, over a relation `L` for the single instructions
   (`L r q t`: the instruction of `r` takes the run from `q` matched bytes to `t` matched bytes — forwards or backwards,
   one- or two-byte characters: Lemmas/ReDir.lean) -/
inductive Iter (R : Nat → Nat → Prop) : Nat → Nat → Nat → Prop
  | nil {x} : Iter R 0 x x
  | cons {k x y z} : R x y → Iter R k y z → Iter R (k + 1) x z

inductive IrM (L : Re → Nat → Nat → Prop) : Ir → Nat → Nat → Prop
  | leaf {r q t} : L r q t → IrM L (.leaf r) q t
  | jump {lo hi g j q t} : lo ≤ j → j ≤ hi → Iter (L .any) j q t → IrM L (.jump lo hi g) q t
  | eps {q} : IrM L .eps q q
  | cat {x y q t u} : IrM L x q t → IrM L y t u → IrM L (.cat x y) q u
  | altL {x y q t} : IrM L x q t → IrM L (.alt x y) q t
  | altR {x y q t} : IrM L y q t → IrM L (.alt x y) q t
  | starNil {x g q} : IrM L (.star x g) q q
  | starStep {x g q t u} : IrM L x q t → IrM L (.star x g) t u → IrM L (.star x g) q u
  | plusOne {x g q t} : IrM L x q t → IrM L (.plus x g) q t
  | plusStep {x g q t u} : IrM L x q t → IrM L (.plus x g) t u → IrM L (.plus x g) q u
  | optSkip {x g q} : IrM L (.opt x g) q q
  | optTake {x g q t} : IrM L x q t → IrM L (.opt x g) q t
  | loopStop {x hi g q} : IrM L (.loop x 0 hi g) q q
  | loopStep {x lo hi g q t u} : 0 < hi → IrM L x q t → IrM L (.loop x (lo - 1) (hi - 1) g) t u → IrM L (.loop x lo hi g) q u

/-! ### the fiber stack: the lowest `n` entries (head = top of the stack) -/
def low (s : List Nat) (n : Nat) : List Nat := s.drop (s.length - n)

theorem low_self (s : List Nat) : low s s.length = s := by simp [low]

theorem low_cons {s : List Nat} {n : Nat} (x : Nat) (h : n ≤ s.length) : low (x :: s) n = low s n := by
  unfold low
  have : (x :: s).length - n = (s.length - n) + 1 := by simp; omega
  rw [this]; rfl

theorem low_tail {s : List Nat} {n : Nat} (h : n < s.length) : low s.tail n = low s n := by
  cases s with
  | nil => simp at h
  | cons x t => simp only [List.tail_cons]; exact (low_cons x (by simp at h; omega)).symm

theorem low_set_head {s : List Nat} {n : Nat} (x : Nat) (h : n < s.length) : low (x :: s.tail) n = low s n := by
  cases s with
  | nil => simp at h
  | cons y t =>
    simp only [List.tail_cons]
    rw [low_cons x (by simp at h; omega), low_cons y (by simp at h; omega)]

theorem low_low (s : List Nat) {k n : Nat} (h : k ≤ n) : low (low s n) k = low s k := by
  unfold low
  rw [List.drop_drop, List.length_drop]
  congr 1
  omega

theorem low_mono {s s' : List Nat} {k n : Nat} (h : low s n = low s' n) (hk : k ≤ n) : low s k = low s' k := by
  rw [← low_low s hk, ← low_low s' hk, h]

/-- the counter of the loop at nesting depth `B` -/
def cntAt (s : List Nat) (B : Nat) : Nat := (low s (B + 1)).headD 0

theorem cntAt_top {s : List Nat} {B : Nat} (h : s.length = B + 1) : cntAt s B = s.headD 0 := by
  unfold cntAt; rw [← h, low_self]

/-- language accepted from machine state `(ip, rc, stack, mode)` inside the code of `r` placed at `a` (loop nesting depth
    `B`), when `K` is accepted at its end.  At a jump `[lo-hi]`: a WAITING fiber with counter k still has to read the k-th
    character, a fiber that has read k characters (`post`, or k = 0 on arrival) may read j more with lo ≤ k + j ≤ hi.
    Inside a loop whose counter (completed iterations) is c: finish this iteration, then between lo-(c+1) and hi-(c+1)
    further ones. -/
def lang (L : Re → Nat → Nat → Prop) : Ir → Nat → Nat → Lang → Nat → Int → List Nat → Mode → Lang
  | .leaf r, a, _, K, ip, _, _, _ => if ip = a then fun q q' => ∃ t, L r q t ∧ K t q' else K
  | .eps, _, _, K, _, _, _, _ => K
  | .jump lo hi _, a, _, K, ip, rc, _, m =>
      if ip = a then
        match m with
        | .wait => fun q q' => ∃ j t, 1 ≤ j ∧ lo ≤ rc0 rc - 1 + j ∧ rc0 rc - 1 + j ≤ hi ∧ Iter (L .any) j q t ∧ K t q'
        | _ => fun q q' => ∃ j t, lo ≤ rc0 rc + j ∧ rc0 rc + j ≤ hi ∧ Iter (L .any) j q t ∧ K t q'
      else K
  | .cat x y, a, B, K, ip, rc, s, m =>
      let mid := a + clen x
      if ip < mid then lang L x a B (lang L y mid B K mid (-1) (low s B) .run) ip rc s m else lang L y mid B K ip rc s m
  | .alt x y, a, B, K, ip, rc, s, m =>
      let mid := a + 4 + clen x
      if ip = a then fun q q' => lang L x (a + 4) B K (a + 4) (-1) s .run q q' ∨ lang L y (mid + 3) B K (mid + 3) (-1) s .run q q'
      else if ip < mid then lang L x (a + 4) B K ip rc s m
      else if ip = mid then K
      else lang L y (mid + 3) B K ip rc s m
  | .star x g, a, B, K, ip, rc, s, m =>
      let mid := a + 4 + clen x
      if ip = a then fun q q' => ∃ t, IrM L (.star x g) q t ∧ K t q'
      else if ip < mid then lang L x (a + 4) B (fun q q' => ∃ t, IrM L (.star x g) q t ∧ K t q') ip rc s m
      else if ip = mid then fun q q' => ∃ t, IrM L (.star x g) q t ∧ K t q'
      else K
  | .plus x g, a, B, K, ip, rc, s, m =>
      let mid := a + clen x
      if clen x = 0 then K
      else if ip < mid then lang L x a B (fun q q' => K q q' ∨ ∃ t, IrM L (.plus x g) q t ∧ K t q') ip rc s m
      else if ip = mid then fun q q' => K q q' ∨ ∃ t, IrM L (.plus x g) q t ∧ K t q'
      else K
  | .opt x g, a, B, K, ip, rc, s, m =>
      if ip = a then fun q q' => ∃ t, IrM L (.opt x g) q t ∧ K t q'
      else lang L x (a + 4) B K ip rc s m
  | .loop x lo hi g, a, B, K, ip, rc, s, m =>
      if ip = a then fun q q' => ∃ t, IrM L (.loop x lo hi g) q t ∧ K t q'
      else
        let c := cntAt s B
        if ip < a + 9 + clen x then
          lang L x (a + 9) (B + 1) (fun q q' => ∃ t, IrM L (.loop x (lo - (c + 1)) (hi - (c + 1)) g) q t ∧ K t q') ip rc s m
        else if ip = a + 9 + clen x then fun q q' => ∃ t, IrM L (.loop x (lo - (c + 1)) (hi - (c + 1)) g) q t ∧ K t q'
        else K

/-! ### counts of iterations -/
section
variable {L : Re → Nat → Nat → Prop}

theorem loop_mono {x : Ir} {g : Bool} {r : Ir} {p q : Nat} (h : IrM L r p q) : ∀ {l u l' u' : Nat}, r = .loop x l u g → l' ≤ l → u ≤ u' →
    IrM L (.loop x l' u' g) p q := by
  induction h with
  | loopStop =>
    intro l u l' u' e h1 h2
    cases e
    have : l' = 0 := by omega
    subst this; exact .loopStop
  | loopStep hpos hx _ _ ih2 =>
    intro l u l' u' e h1 h2
    cases e
    exact .loopStep (by omega) hx (ih2 rfl (by omega) (by omega))
  | _ => intro l u l' u' e; cases e

theorem loop_nil (x : Ir) (u : Nat) (g : Bool) (q : Nat) : IrM L (.loop x 0 u g) q q := .loopStop

theorem loop_step {x : Ir} {g : Bool} {l u l' u' q t w : Nat} (hm : IrM L x q t) (hc : IrM L (.loop x l u g) t w)
    (h1 : l' ≤ l + 1) (h2 : u + 1 ≤ u') : IrM L (.loop x l' u' g) q w :=
  .loopStep (by omega) hm (loop_mono hc rfl (by omega) (by omega))

/-- no code: the expression matches the empty sequence (everywhere) -/
theorem seg_nil {code : Code} {r : Ir} {a b : Nat} (hs : Seg code r a b) (h0 : clen r = 0) (q : Nat) : IrM L r q q := by
  induction hs with
  | @leaf r a _ => have := leafLen_pos r; simp only [clen] at h0; omega
  | jump _ _ _ _ => simp [clen] at h0
  | eps => exact .eps
  | star _ _ _ _ _ _ => simp only [clen] at h0; omega
  | @plus x a m g h1 hlt _ _ _ =>
    have := h1.len
    simp only [clen] at h0
    have hne : ¬ clen x = 0 := by omega
    rw [if_neg hne] at h0; omega
  | @plusNil x a g h1 ih =>
    have := h1.len
    exact .plusOne (ih (by omega))
  | opt _ _ _ _ => simp only [clen] at h0; omega
  | cat _ _ ih1 ih2 =>
    simp only [clen] at h0
    exact .cat (ih1 (by omega)) (ih2 (by omega))
  | alt _ _ _ _ _ _ _ _ => simp only [clen] at h0; omega
  | loop _ _ _ _ _ _ _ _ _ _ _ => simp only [clen] at h0; omega

variable (L)

/-- the entry language of a segment is the specification of its expression followed by the continuation -/
theorem lang_entry {code : Code} {r : Ir} {a b : Nat} (hs : Seg code r a b) (B : Nat) (K : Lang) (s : List Nat) (q q' : Nat) :
    lang L r a B K a (-1) s .run q q' → ∃ t, IrM L r q t ∧ K t q' := by
  induction hs generalizing B K s q q' with
  | leaf _ =>
    intro h
    simp only [lang, if_true] at h
    obtain ⟨t, ht, hk⟩ := h
    exact ⟨t, .leaf ht, hk⟩
  | eps => intro h; simp only [lang] at h; exact ⟨q, .eps, h⟩
  | @jump a lo hi g _ _ _ _ =>
    intro h
    simp only [lang, if_true] at h
    obtain ⟨j, t, h1, h2, hp, hk⟩ := h
    simp only [rc0, if_true, Nat.zero_add] at h1 h2
    exact ⟨t, .jump h1 h2 hp, hk⟩
  | @star x a m g _ _ h1 _ _ ih =>
    intro h
    simp only [lang, if_true] at h
    exact h
  | @plus x a m g h1 hlt _ _ ih =>
    intro h
    have hm : m = a + clen x := h1.len
    have hne : ¬ clen x = 0 := by omega
    have hlt' : a < a + clen x := by omega
    simp only [lang, hne, hlt', if_true, if_false] at h
    obtain ⟨t, ht, hk⟩ := ih _ _ _ _ _ h
    rcases hk with hk | ⟨t2, ht2, hk2⟩
    · exact ⟨t, .plusOne ht, hk⟩
    · exact ⟨t2, .plusStep ht ht2, hk2⟩
  | @plusNil x a g h1 ih =>
    intro h
    have h0 : clen x = 0 := by have := h1.len; omega
    simp only [lang, h0, if_true] at h
    exact ⟨q, .plusOne (seg_nil h1 h0 q), h⟩
  | @opt x a m g _ _ h1 ih =>
    intro h
    simp only [lang, if_true] at h
    exact h
  | @cat x y a m b h1 h2 ih1 ih2 =>
    intro h
    have hm : m = a + clen x := h1.len
    by_cases hlt : a < a + clen x
    · simp only [lang, hlt, if_true] at h
      obtain ⟨t, ht, hk⟩ := ih1 _ _ _ _ _ h
      rw [← hm] at hk
      obtain ⟨t2, ht2, hk2⟩ := ih2 _ _ _ _ _ hk
      exact ⟨t2, .cat ht ht2, hk2⟩
    · have h0 : clen x = 0 := by omega
      simp only [lang, hlt, if_false] at h
      rw [← hm] at h
      have hma : m = a := by omega
      rw [hma] at h ih2
      obtain ⟨t2, ht2, hk2⟩ := ih2 _ _ _ _ _ h
      exact ⟨t2, .cat (seg_nil h1 h0 q) ht2, hk2⟩
  | @alt x y a m b _ _ h1 _ _ h2 ih1 ih2 =>
    intro h
    have hm : m = a + 4 + clen x := by have := h1.len; omega
    simp only [lang, if_true] at h
    rw [← hm] at h
    rcases h with h | h
    · obtain ⟨t, ht, hk⟩ := ih1 _ _ _ _ _ h
      exact ⟨t, .altL ht, hk⟩
    · obtain ⟨t, ht, hk⟩ := ih2 _ _ _ _ _ h
      exact ⟨t, .altR ht, hk⟩
  | @loop x a m lo hi g _ _ _ h1 _ _ _ _ _ _ ih =>
    intro h
    simp only [lang, if_true] at h
    exact h

/-- at the end address of a segment the language is the continuation -/
theorem lang_end {code : Code} {r : Ir} {a b : Nat} (hs : Seg code r a b) (B : Nat) (K : Lang) (rc : Int) (s : List Nat) (md : Mode) :
    lang L r a B K b rc s md = K := by
  induction hs generalizing B K with
  | @leaf r a _ =>
    have := leafLen_pos r
    have c1 : ¬ a + leafLen r = a := by omega
    simp only [lang, c1, if_false]
  | jump _ _ _ _ => simp [lang]
  | eps => simp [lang]
  | @star x a m g _ _ h1 _ _ ih =>
    have hm : m = a + 4 + clen x := by have := h1.len; omega
    have c1 : ¬ m + 3 = a := by omega
    have c2 : ¬ m + 3 < a + 4 + clen x := by omega
    have c3 : ¬ m + 3 = a + 4 + clen x := by omega
    simp only [lang, c1, c2, c3, if_false]
  | @plus x a m g h1 hlt _ _ ih =>
    have hm : m = a + clen x := h1.len
    have c1 : ¬ clen x = 0 := by omega
    have c2 : ¬ m + 4 < a + clen x := by omega
    have c3 : ¬ m + 4 = a + clen x := by omega
    simp only [lang, c1, c2, c3, if_false]
  | @plusNil x a g h1 ih =>
    have h0 : clen x = 0 := by have := h1.len; omega
    simp only [lang, h0, if_true]
  | @opt x a m g _ _ h1 ih =>
    have p1 := h1.le
    have c1 : ¬ m = a := by omega
    simp only [lang, c1, if_false]
    exact ih B K
  | @cat x y a m b h1 h2 ih1 ih2 =>
    have hm : m = a + clen x := h1.len
    have : ¬ b < a + clen x := by have := h2.le; omega
    simp only [lang, this, if_false]
    rw [← hm]; exact ih2 B K
  | @alt x y a m b _ _ h1 _ _ h2 ih1 ih2 =>
    have hm : m = a + 4 + clen x := by have := h1.len; omega
    have p1 := h1.le
    have p2 := h2.le
    have c1 : ¬ b = a := by omega
    have c2 : ¬ b < a + 4 + clen x := by omega
    have c3 : ¬ b = a + 4 + clen x := by omega
    simp only [lang, c1, c2, c3, if_false]
    rw [← hm]; exact ih2 B K
  | @loop x a m lo hi g _ _ _ h1 _ _ _ _ _ _ ih =>
    have hm : m = a + 9 + clen x := by have := h1.len; omega
    have c1 : ¬ m + 9 = a := by omega
    have c2 : ¬ m + 9 < a + 9 + clen x := by omega
    have c3 : ¬ m + 9 = a + 9 + clen x := by omega
    simp only [lang, c1, c2, c3, if_false]

end

/-! ### valid machine states inside a segment -/
/-- a fiber standing at the instruction at `a`: not spinning, stack depth `B` -/
def Ctl (a B ip : Nat) (rc : Int) (s : List Nat) (m : Mode) : Prop := ip = a ∧ rc = -1 ∧ m = .run ∧ s.length = B

/-- states a fiber can be in while inside the code of `r` (placed at `a`, loop nesting depth `B`) -/
def Valid : Ir → Nat → Nat → Nat → Int → List Nat → Mode → Prop
  | .leaf _, a, B, ip, rc, s, m => Ctl a B ip rc s m
  | .eps, _, _, _, _, _, _ => False
  | .jump _ hi _, a, B, ip, rc, s, m => ip = a ∧ s.length = B ∧ ((m = .run ∧ rc = -1) ∨ (m ≠ .run ∧ 1 ≤ rc ∧ rc ≤ hi))
  | .cat x y, a, B, ip, rc, s, m => Valid x a B ip rc s m ∨ Valid y (a + clen x) B ip rc s m
  | .alt x y, a, B, ip, rc, s, m => Ctl a B ip rc s m ∨ Valid x (a + 4) B ip rc s m ∨
      Ctl (a + 4 + clen x) B ip rc s m ∨ Valid y (a + 4 + clen x + 3) B ip rc s m
  | .star x _, a, B, ip, rc, s, m => Ctl a B ip rc s m ∨ Valid x (a + 4) B ip rc s m ∨ Ctl (a + 4 + clen x) B ip rc s m
  | .plus x _, a, B, ip, rc, s, m => Valid x a B ip rc s m ∨ (0 < clen x ∧ Ctl (a + clen x) B ip rc s m)
  | .opt x _, a, B, ip, rc, s, m => Ctl a B ip rc s m ∨ Valid x (a + 4) B ip rc s m
  | .loop x _ hi _, a, B, ip, rc, s, m => Ctl a B ip rc s m ∨ (Valid x (a + 9) (B + 1) ip rc s m ∧ cntAt s B < hi) ∨
      (Ctl (a + 9 + clen x) (B + 1) ip rc s m ∧ cntAt s B < hi)

/-- the state just behind a segment: next instruction, not spinning, the stack as deep as at the entry -/
def AtEnd (b B : Nat) (g : Fiber) (m : Mode) : Prop := Ctl b B g.ip g.rc g.stack m

theorem valid_range {code : Code} {r : Ir} {a b : Nat} (hs : Seg code r a b) {B ip : Nat} {rc : Int} {s : List Nat} {m : Mode}
    (h : Valid r a B ip rc s m) : a ≤ ip ∧ ip < b ∧ B ≤ s.length := by
  induction hs generalizing B ip with
  | @leaf r a _ => have := leafLen_pos r; simp only [Valid, Ctl] at h; omega
  | jump _ _ _ _ => simp only [Valid] at h; omega
  | eps => simp only [Valid] at h
  | @star x a m' g _ _ h1 _ _ ih =>
    have hm : m' = a + 4 + clen x := by have := h1.len; omega
    simp only [Valid, Ctl] at h
    rw [← hm] at h
    rcases h with h | h | h
    · omega
    · have := ih h; omega
    · omega
  | @plus x a m' g h1 hlt _ _ ih =>
    have hm : m' = a + clen x := h1.len
    simp only [Valid, Ctl] at h
    rw [← hm] at h
    rcases h with h | h
    · have := ih h; omega
    · omega
  | @plusNil x a g h1 ih =>
    have h0 : clen x = 0 := by have := h1.len; omega
    simp only [Valid, Ctl] at h
    rcases h with h | h
    · have := ih h; omega
    · omega
  | @opt x a m' g _ _ h1 ih =>
    have p1 := h1.le
    simp only [Valid, Ctl] at h
    rcases h with h | h
    · omega
    · have := ih h; omega
  | @cat x y a m' b h1 h2 ih1 ih2 =>
    have hm : m' = a + clen x := h1.len
    have p1 := h1.le; have p2 := h2.le
    simp only [Valid] at h
    rcases h with h | h
    · have := ih1 h; omega
    · rw [← hm] at h; have := ih2 h; omega
  | @alt x y a m' b _ _ h1 _ _ h2 ih1 ih2 =>
    have hm : m' = a + 4 + clen x := by have := h1.len; omega
    have p1 := h1.le; have p2 := h2.le
    simp only [Valid, Ctl] at h
    rw [← hm] at h
    rcases h with h | h | h | h
    · omega
    · have := ih1 h; omega
    · omega
    · have := ih2 h; omega
  | @loop x a m' lo hi g _ _ _ h1 _ _ _ _ _ _ ih =>
    have hm : m' = a + 9 + clen x := by have := h1.len; omega
    simp only [Valid, Ctl] at h
    rw [← hm] at h
    rcases h with h | ⟨h, _⟩ | ⟨h, _⟩
    · omega
    · have := ih h; omega
    · omega

/-- the entry state of a segment is valid — unless the segment is empty -/
theorem entry_ok {code : Code} {r : Ir} {a b : Nat} (hs : Seg code r a b) (B : Nat) (s : List Nat) (hB : s.length = B) :
    Valid r a B a (-1) s .run ∨ a = b := by
  induction hs generalizing B with
  | leaf _ => exact .inl ⟨rfl, rfl, rfl, hB⟩
  | jump _ _ _ _ => exact .inl ⟨rfl, hB, .inl ⟨rfl, rfl⟩⟩
  | eps => exact .inr rfl
  | star _ _ _ _ _ _ => exact .inl (.inl ⟨rfl, rfl, rfl, hB⟩)
  | @plus x a m g h1 hlt _ _ ih =>
    rcases ih B hB with h | h
    · exact .inl (.inl h)
    · omega
  | plusNil _ _ => exact .inr rfl
  | opt _ _ _ _ => exact .inl (.inl ⟨rfl, rfl, rfl, hB⟩)
  | @cat x y a m b h1 h2 ih1 ih2 =>
    rcases ih1 B hB with h | h
    · exact .inl (.inl h)
    · rcases ih2 B hB with h' | h'
      · refine .inl (.inr ?_)
        have hm : m = a + clen x := h1.len
        rw [← hm, ← h]; rw [← h] at h'; exact h'
      · exact .inr (by omega)
  | alt _ _ _ _ _ _ _ _ => exact .inl (.inl ⟨rfl, rfl, rfl, hB⟩)
  | loop _ _ _ _ _ _ _ _ _ _ _ => exact .inl (.inl ⟨rfl, rfl, rfl, hB⟩)

/-- a fiber in `wait` / `post` mode stands at a REPEAT_ANY instruction -/
theorem valid_run {code : Code} {r : Ir} {a b : Nat} (hs : Seg code r a b) {B ip : Nat} {rc : Int} {s : List Nat} {m : Mode}
    (hv : Valid r a B ip rc s m) (hn : ¬ (u8 code ip = OP_REPEAT_ANY_GREEDY ∨ u8 code ip = OP_REPEAT_ANY_UNGREEDY)) : m = .run := by
  induction hs generalizing B ip with
  | leaf _ => simp only [Valid, Ctl] at hv; exact hv.2.2.1
  | jump h1 _ _ _ => simp only [Valid] at hv; rw [hv.1] at hn; exact absurd h1 hn
  | eps => simp only [Valid] at hv
  | @star x a m' g _ _ h1 _ _ ih =>
    simp only [Valid, Ctl] at hv
    rcases hv with hv | hv | hv
    · exact hv.2.2.1
    · exact ih hv hn
    · exact hv.2.2.1
  | @plus x a m' g h1 _ _ _ ih =>
    simp only [Valid, Ctl] at hv
    rcases hv with hv | hv
    · exact ih hv hn
    · exact hv.2.2.2.1
  | @plusNil x a g h1 ih =>
    simp only [Valid, Ctl] at hv
    rcases hv with hv | hv
    · exact ih hv hn
    · exact hv.2.2.2.1
  | @opt x a m' g _ _ h1 ih =>
    simp only [Valid, Ctl] at hv
    rcases hv with hv | hv
    · exact hv.2.2.1
    · exact ih hv hn
  | @cat x y a m' b h1 h2 ih1 ih2 =>
    have hm : m' = a + clen x := h1.len
    simp only [Valid] at hv
    rcases hv with hv | hv
    · exact ih1 hv hn
    · rw [← hm] at hv; exact ih2 hv hn
  | @alt x y a m' b _ _ h1 _ _ h2 ih1 ih2 =>
    have hm : m' = a + 4 + clen x := by have := h1.len; omega
    simp only [Valid, Ctl] at hv
    rw [← hm] at hv
    rcases hv with hv | hv | hv | hv
    · exact hv.2.2.1
    · exact ih1 hv hn
    · exact hv.2.2.1
    · exact ih2 hv hn
  | @loop x a m' lo hi g _ _ _ h1 _ _ _ _ _ _ ih =>
    simp only [Valid, Ctl] at hv
    rcases hv with hv | ⟨hv, _⟩ | ⟨hv, _⟩
    · exact hv.2.2.1
    · exact ih hv hn
    · exact hv.2.2.1

end YaraModel.ReEmit
