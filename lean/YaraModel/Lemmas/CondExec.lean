/- core execution lemma of compile_correct: loop-free constructs (everything except loops, floats, `P% of`) -/
import YaraModel.Lemmas.CondCompile
namespace YaraModel.CondCompile
open YaraModel YaraModel.C YaraModel.Cond YaraModel.CondVm YaraModel.Gen.VmOps

def srefIdx (l : LEnv) : SRef → Nat
  | .id n => n
  | .cur => l.cur.getD 0

theorem matchesOf_idx (env : Env) (c : Ctx) (l : LEnv) (s : SRef) (h : SRefOk c l s) :
    env.matchesOf l s = env.strs.getD (srefIdx l s) [] := by
  cases s with
  | id n => rfl
  | cur =>
    obtain ⟨⟨n, hn⟩, _⟩ := h
    simp [Env.matchesOf, srefIdx, hn]

theorem runs_pushStr (env : Env) (code : List Instr) (c : Ctx) (l : LEnv) (pure : Bool) (s : SRef) (h : SRefOk c l s) :
    Runs env code [pushStr c s] c l pure [encStr (srefIdx l s)] := by
  cases s with
  | id n => exact Runs.push1 _ _ (fun _ _ _ _ _ => rfl)
  | cur =>
    obtain ⟨⟨n, hn⟩, _⟩ := h
    apply Runs.push1
    intro pc st mem its hP
    obtain ⟨slot, hs, _, hg⟩ := hP.2.2 n hn
    simp [pushStr, hs, step, srefIdx, hn, hg]

/-! ### single instructions on explicit states -/

theorem step_count (env : Env) (n : Nat) (pc : Nat) (st mem : List Int) (its : List Iter) :
    step env .count ⟨pc, [encStr n] ++ st, mem, its⟩ =
      some ⟨pc + 1, ((env.strs.getD n []).length : Int) :: st, mem, its⟩ := by
  simp [step, ms_enc]

theorem step_found (env : Env) (n : Nat) (pc : Nat) (st mem : List Int) (its : List Iter) :
    step env .found ⟨pc, [encStr n] ++ st, mem, its⟩ =
      some ⟨pc + 1, b2i (!(env.strs.getD n []).isEmpty) :: st, mem, its⟩ := by
  simp [step, ms_enc]

theorem step_countIn (env : Env) (n : Nat) (hi lo : Int) (pc : Nat) (st mem : List Int) (its : List Iter) :
    step env .countIn ⟨pc, [encStr n, hi, lo] ++ st, mem, its⟩ =
      some ⟨pc + 1, (if isU lo || isU hi then UNDEF
        else (((env.strs.getD n []).countP (inRange lo hi) : Nat) : Int)) :: st, mem, its⟩ := by
  simp [step, ms_enc]

theorem step_foundIn (env : Env) (n : Nat) (hi lo : Int) (pc : Nat) (st mem : List Int) (its : List Iter) :
    step env .foundIn ⟨pc, [encStr n, hi, lo] ++ st, mem, its⟩ =
      some ⟨pc + 1, (if isU lo || isU hi then UNDEF
        else b2i ((env.strs.getD n []).any (inRange lo hi))) :: st, mem, its⟩ := by
  simp [step, ms_enc]

theorem step_foundAt (env : Env) (n : Nat) (x : Int) (pc : Nat) (st mem : List Int) (its : List Iter) :
    step env .foundAt ⟨pc, [encStr n, x] ++ st, mem, its⟩ =
      some ⟨pc + 1, (if isU x then UNDEF
        else b2i ((env.strs.getD n []).any fun m => m.1 == x)) :: st, mem, its⟩ := by
  simp [step, ms_enc]

theorem step_offset (env : Env) (n : Nat) (x : Int) (pc : Nat) (st mem : List Int) (its : List Iter) :
    step env .offset ⟨pc, [encStr n, x] ++ st, mem, its⟩ =
      some ⟨pc + 1, (if isU x then UNDEF else nthOff (env.strs.getD n []) x) :: st, mem, its⟩ := by
  simp [step, ms_enc]

theorem step_length (env : Env) (n : Nat) (x : Int) (pc : Nat) (st mem : List Int) (its : List Iter) :
    step env .length ⟨pc, [encStr n, x] ++ st, mem, its⟩ =
      some ⟨pc + 1, (if isU x then UNDEF else nthLen (env.strs.getD n []) x) :: st, mem, its⟩ := by
  simp [step, ms_enc]

theorem step_matches (env : Env) (re a : Int) (pc : Nat) (st mem : List Int) (its : List Iter) :
    step env .matches ⟨pc, [re, a] ++ st, mem, its⟩ =
      some ⟨pc + 1, (if isU re || isU a then UNDEF else matchWord re a) :: st, mem, its⟩ := by
  simp [step]

/-! ### boolean position, short-circuit `and` / `or` -/

theorem runs_boolpos {env : Env} {code : List Instr} {c : Ctx} {l : LEnv} {pure : Bool} (f : List Instr) (t : Ty) (w : Int)
    (ih : Runs env code f c l pure [w]) : Runs env code (f ++ strToBool t) c l pure [boolWord env.fops env.blocks t w] := by
  by_cases ht : t = .str
  · subst ht
    simp only [strToBool, boolWord, beq_self_eq_true, if_true]
    exact Runs.op (.un .OP_STR_TO_BOOL) _ _ ih (fun _ _ _ _ => rfl)
  · have : (t == Ty.str) = false := by simp [ht]
    simp only [strToBool, boolWord, this, if_false, List.append_nil, Bool.false_eq_true]
    exact ih

theorem len4 (A B : List Instr) (j o : Instr) : (A ++ [j] ++ B ++ [o]).length = A.length + 1 + B.length + 1 := by
  simp only [List.length_append, List.length_cons, List.length_nil]

theorem runs_and {env : Env} {code A B : List Instr} {c : Ctx} {l : LEnv} {pure : Bool} {wa wb : Int}
    (ha : Runs env code A c l pure [wa]) (hb : Runs env code B c l pure [wb]) :
    Runs env code (A ++ [.jfalse ((B.length : Int) + 2)] ++ B ++ [.bin .OP_AND]) c l pure
      [b2i ((!isU wa && wa != 0) && (!isU wb && wb != 0))] := by
  intro pc st mem its hc hP hlen
  obtain ⟨m1, e1, s1, a1, p1⟩ := ha pc st mem its hc.left.left.left hP hlen
  have hj : code[pc + A.length]? = some (.jfalse ((B.length : Int) + 2)) := hc.left.left.right.head
  rw [len4]
  by_cases hk : (!isU wa && wa == 0) = true
  · -- jump taken: the left operand (0) is the result
    have hw : wa = 0 := by simp at hk; exact hk.2
    have hu : isU (0 : Int) = false := by decide
    refine ⟨m1, e1, Steps.trans s1 (Steps.one (by simpa using hj) ?_), a1, p1⟩
    subst hw
    simp only [step, List.singleton_append, hu, jump]
    simp only [Bool.not_false, bne_self_eq_false, Bool.and_false, Bool.false_and, b2i, beq_self_eq_true,
      Bool.and_self, if_true, Bool.false_eq_true, if_false]
    congr 2
    omega
  · have hk' : (!isU wa && wa == 0) = false := by simpa using hk
    have s2 : Steps env code ⟨pc + A.length, [wa] ++ st, m1, its ++ e1⟩ ⟨pc + A.length + 1, [wa] ++ st, m1, its ++ e1⟩ := by
      apply Steps.one (by simpa using hj)
      simp only [step, List.singleton_append, hk', Bool.false_eq_true, if_false]
    have hcb : CodeAt code (pc + A.length + 1) B := by
      have := hc.left.right
      simpa [Nat.add_assoc] using this
    obtain ⟨m3, e3, s3, a3, p3⟩ := hb (pc + A.length + 1) ([wa] ++ st) m1 (its ++ e1) hcb (hP.stable a1) (a1.2.trans hlen)
    have ho : code[pc + A.length + 1 + B.length]? = some (.bin .OP_AND) := by
      have := hc.right.head
      have e : pc + (A ++ [Instr.jfalse ((B.length : Int) + 2)] ++ B).length = pc + A.length + 1 + B.length := by
        simp only [List.length_append, List.length_cons, List.length_nil]; omega
      rwa [e] at this
    have s4 : Steps env code ⟨pc + A.length + 1 + B.length, [wb] ++ ([wa] ++ st), m3, its ++ e1 ++ e3⟩
        ⟨pc + (A.length + 1 + B.length + 1), [b2i ((!isU wa && wa != 0) && (!isU wb && wb != 0))] ++ st, m3, its ++ e1 ++ e3⟩ := by
      apply Steps.one (by simpa using ho)
      simp only [step, List.singleton_append, vm_and]
      congr 2
      omega
    refine ⟨m3, e1 ++ e3, by simpa [List.append_assoc] using Steps.trans s1 (Steps.trans s2 (Steps.trans s3 s4)), a3.trans a1, ?_⟩
    intro hp
    obtain ⟨rfl, rfl⟩ := p1 hp
    obtain ⟨rfl, rfl⟩ := p3 hp
    exact ⟨rfl, rfl⟩

/-- the word `a or b` leaves: the left operand's own word when it is true (the jump skips OP_OR), else OP_OR's 0/1 -/
def orWord (wa wb : Int) : Int := if (!isU wa && wa != 0) = true then wa else b2i (!isU wb && wb != 0)

theorem runs_or {env : Env} {code A B : List Instr} {c : Ctx} {l : LEnv} {pure : Bool} {wa wb : Int}
    (ha : Runs env code A c l pure [wa]) (hb : Runs env code B c l pure [wb]) :
    Runs env code (A ++ [.jtrue ((B.length : Int) + 2)] ++ B ++ [.bin .OP_OR]) c l pure [orWord wa wb] := by
  intro pc st mem its hc hP hlen
  obtain ⟨m1, e1, s1, a1, p1⟩ := ha pc st mem its hc.left.left.left hP hlen
  have hj : code[pc + A.length]? = some (.jtrue ((B.length : Int) + 2)) := hc.left.left.right.head
  rw [len4]
  by_cases hk : (!isU wa && wa != 0) = true
  · refine ⟨m1, e1, Steps.trans s1 (Steps.one (by simpa using hj) ?_), a1, p1⟩
    simp only [step, List.singleton_append, hk, if_true, jump, orWord]
    congr 2
    omega
  · have hk' : (!isU wa && wa != 0) = false := by simpa using hk
    have s2 : Steps env code ⟨pc + A.length, [wa] ++ st, m1, its ++ e1⟩ ⟨pc + A.length + 1, [wa] ++ st, m1, its ++ e1⟩ := by
      apply Steps.one (by simpa using hj)
      simp only [step, List.singleton_append, hk', Bool.false_eq_true, if_false]
    have hcb : CodeAt code (pc + A.length + 1) B := by
      have := hc.left.right
      simpa [Nat.add_assoc] using this
    obtain ⟨m3, e3, s3, a3, p3⟩ := hb (pc + A.length + 1) ([wa] ++ st) m1 (its ++ e1) hcb (hP.stable a1) (a1.2.trans hlen)
    have ho : code[pc + A.length + 1 + B.length]? = some (.bin .OP_OR) := by
      have := hc.right.head
      have e : pc + (A ++ [Instr.jtrue ((B.length : Int) + 2)] ++ B).length = pc + A.length + 1 + B.length := by
        simp only [List.length_append, List.length_cons, List.length_nil]; omega
      rwa [e] at this
    have s4 : Steps env code ⟨pc + A.length + 1 + B.length, [wb] ++ ([wa] ++ st), m3, its ++ e1 ++ e3⟩
        ⟨pc + (A.length + 1 + B.length + 1), [orWord wa wb] ++ st, m3, its ++ e1 ++ e3⟩ := by
      apply Steps.one (by simpa using ho)
      simp only [step, List.singleton_append, vm_or, orWord, hk', Bool.false_or, Bool.false_eq_true, if_false]
      congr 2
      omega
    refine ⟨m3, e1 ++ e3, by simpa [List.append_assoc] using Steps.trans s1 (Steps.trans s2 (Steps.trans s3 s4)), a3.trans a1, ?_⟩
    intro hp
    obtain ⟨rfl, rfl⟩ := p1 hp
    obtain ⟨rfl, rfl⟩ := p3 hp
    exact ⟨rfl, rfl⟩

/-- the fragment pushes one word representing `v`: exactly, or up to truth for a boolean-typed expression -/
def RunsV (env : Env) (code frag : List Instr) (c : Ctx) (l : LEnv) (pure : Bool) (t : Ty) (v : Val) : Prop :=
  ∃ w, Runs env code frag c l pure [w] ∧ WordOK t v w

theorem RunsV.ofExact {env : Env} {code f : List Instr} {c : Ctx} {l : LEnv} {pure : Bool} {t : Ty} {v : Val}
    (h : Runs env code f c l pure [toVm v]) : RunsV env code f c l pure t v := ⟨_, h, Or.inl rfl⟩

theorem RunsV.exact {env : Env} {code f : List Instr} {c : Ctx} {l : LEnv} {pure : Bool} {t : Ty} {v : Val}
    (h : RunsV env code f c l pure t v) (ht : t ≠ .bool) : Runs env code f c l pure [toVm v] := by
  obtain ⟨w, hr, hw⟩ := h
  rw [← hw.exact ht]; exact hr

theorem RunsV.weaken {env : Env} {code f : List Instr} {c : Ctx} {l : LEnv} {pure : Bool} {t : Ty} {v : Val}
    (h : RunsV env code f c l true t v) : RunsV env code f c l pure t v := by
  obtain ⟨w, hr, hw⟩ := h
  exact ⟨w, hr.weaken, hw⟩

/-- the OP_INT_TO_DBL the compiler inserts after the two operands of a mixed int / double operation: depth 2 = the left
    operand, depth 1 = the right one; nothing when the operand types agree -/
theorem runs_conv {env : Env} {code f : List Instr} {c : Ctx} {l : LEnv} {pure : Bool} (ta tb : Ty) (wa wb : Int)
    (hf : Runs env code f c l pure [wb, wa]) :
    Runs env code (f ++ conv ta tb) c l pure [convB env.fops ta tb wb, convA env.fops ta tb wa] := by
  unfold conv
  by_cases h1 : (ta == .int && tb == .flt) = true
  · have h2 : (ta == .flt && tb == .int) = false := by
      cases ta <;> cases tb <;> simp_all
    simp only [h1, if_true, convA, convB, h2, Bool.false_eq_true, if_false]
    exact Runs.opL (.intToDbl 2) [wb, wa] [wb, promoteW env.fops wa] hf (fun pc st mem its => by simp [step, promoteW])
  · have h1' : (ta == .int && tb == .flt) = false := by simpa using h1
    by_cases h2 : (ta == .flt && tb == .int) = true
    · simp only [h1', Bool.false_eq_true, if_false, h2, if_true, convA, convB]
      exact Runs.opL (.intToDbl 1) [wb, wa] [promoteW env.fops wb, wa] hf (fun pc st mem its => by simp [step, promoteW])
    · have h2' : (ta == .flt && tb == .int) = false := by simpa using h2
      simp only [h1', h2', Bool.false_eq_true, if_false, convA, convB, List.append_nil]
      exact hf

/-- in boolean position (after OP_STR_TO_BOOL when the static type is string) the word is a truth word -/
theorem RunsV.boolpos {env : Env} {code f : List Instr} {c : Ctx} {l : LEnv} {pure : Bool} {t : Ty} {v : Val}
    (h : RunsV env code f c l pure t v) (hv : ValOk t v) :
    ∃ w, Runs env code (f ++ strToBool t) c l pure [w] ∧ TruthWord v w := by
  obtain ⟨w, hr, hw⟩ := h
  exact ⟨_, runs_boolpos f t w hr, truthWord_boolpos env.blocks t v w hv hw⟩

theorem popToMarker_spec (ys acc rest : List Int) (h : ∀ y ∈ ys, isU y = false) :
    popToMarker (ys ++ UNDEF :: rest) acc = (ys.reverse ++ acc, rest) := by
  induction ys generalizing acc with
  | nil => simp [popToMarker, isU, isUndef_UNDEF]
  | cons y ys ih =>
    have hy : isU y = false := h y (by simp)
    simp only [List.cons_append, popToMarker, hy, Bool.false_eq_true, if_false]
    rw [ih (y :: acc) (fun z hz => h z (by simp [hz]))]
    simp

/-- a sequence of instructions each of which pushes a fixed word -/
theorem runs_pushes {env : Env} {code : List Instr} {c : Ctx} {l : LEnv} {pure : Bool} (ps : List (Instr × Int))
    (h : ∀ p ∈ ps, ∀ pc st mem its, step env p.1 ⟨pc, st, mem, its⟩ = some ⟨pc + 1, p.2 :: st, mem, its⟩) :
    Runs env code (ps.map (·.1)) c l pure (ps.map (·.2)).reverse := by
  induction ps with
  | nil => exact Runs.nil env code c l pure
  | cons p ps ih =>
    have h1 : Runs env code [p.1] c l pure [p.2] := Runs.push1 _ _ (fun pc st mem its _ => h p (by simp) pc st mem its)
    have h2 := ih (fun q hq => h q (by simp [hq]))
    have := Runs.seq h1 h2
    simpa using this

theorem isU_encStr (n : Nat) : isU (encStr n) = false := isUndef_encPtr _ _

def quantWord (q : QKind) (w : Int) : Int :=
  match q with
  | .all => UNDEF
  | .any => 1
  | .none => 0
  | .num => w

/-- the quantifier word against the specification's quantifier, `t ≤ n` candidates satisfied -/
theorem w_of (q : QKind) (vq : Val) (t n : Nat) (htn : t ≤ n)
    (hq : q = .num → ValOk .int vq ∧ vq ≠ .undef) :
    ofResult (quantWord q (toVm vq)) t n
      = toVm (quantHolds (quantOf q vq) t n) := by
  cases q with
  | all =>
    simp only [quantWord]
    have hd : decide (t ≥ n) = (t == n) := by
      by_cases h : t = n
      · simp [h]
      · have h' : ¬ (n ≤ t) := by omega
        simp [h, h']
    simp only [ofResult, isU, isUndef_UNDEF, if_true, quantOf, quantHolds, toVm, hd]
  | any =>
    have : isU (1 : Int) = false := by decide
    simp [quantWord, ofResult, this, quantOf, quantHolds, toVm]
  | none =>
    have : isU (0 : Int) = false := by decide
    simp [quantWord, ofResult, this, quantOf, quantHolds, toVm]
  | num =>
    simp only [quantWord]
    obtain ⟨hv, hne⟩ := hq rfl
    rcases hv with rfl | ⟨k, rfl, hk⟩
    · exact absurd rfl hne
    · by_cases h0 : k = 0
      · subst h0
        have : isU (0 : Int) = false := by decide
        simp [ofResult, this, quantOf, quantHolds, toVm]
      · have hb : (k == 0) = false := by simp [h0]
        simp [ofResult, isU, isUndef_of_ne hk, quantOf, quantHolds, toVm, hb, h0]

theorem runs_quant {env : Env} {code : List Instr} {c : Ctx} {l : LEnv} {pure : Bool} (q : QKind) (f : List Instr) (w : Int)
    (ihq : q = .num → Runs env code f c l pure [w]) : Runs env code (quantCode f q) c l pure [quantWord q w] := by
  cases q with
  | all => exact Runs.push1 _ _ (fun _ _ _ _ _ => rfl)
  | any => exact Runs.push1 _ _ (fun _ _ _ _ _ => rfl)
  | none => exact Runs.push1 _ _ (fun _ _ _ _ _ => rfl)
  | num => exact ihq rfl

theorem step_of (env : Env) (rules : Bool) (items : List Int) (hi : ∀ y ∈ items, isU y = false) (qw : Int)
    (pc : Nat) (st mem : List Int) (its : List Iter) :
    step env (.of_ rules) ⟨pc, (items.reverse ++ ([UNDEF] ++ [qw])) ++ st, mem, its⟩ =
      some ⟨pc + 1, ofResult qw (if rules then items.countP (fun v => v != 0)
                                 else items.countP fun sv => !(matchesOfStr env sv).isEmpty) items.length :: st, mem, its⟩ := by
  have hst : (items.reverse ++ ([UNDEF] ++ [qw])) ++ st = items.reverse ++ UNDEF :: (qw :: st) := by simp
  have hp := popToMarker_spec items.reverse [] (qw :: st) (fun y hy => hi y (by simpa using hy))
  simp only [List.reverse_reverse, List.append_nil] at hp
  simp only [step, hst, hp]

theorem floor_ge_iff (a n : Nat) (k : Int) (hn : 0 < n) : (((a / n : Nat) : Int) ≥ k) ↔ ((a : Int) ≥ k * (n : Int)) := by
  rw [Int.natCast_ediv]
  exact Int.le_ediv_iff_mul_le (by omega)

/-- OP_OF_PERCENT (integer form, after the repair of F44) against the specification's exact `P%`, for every integer P -/
theorem w_pct (vq : Val) (t n : Nat) (hn : n ≠ 0) (hv : ValOk .int vq) :
    pctResult (toVm vq) t n = toVm (pctHolds t n vq) := by
  rcases hv with rfl | ⟨k, rfl, hk⟩
  · simp [pctResult, toVm, pctHolds, isU, isUndef_UNDEF]
  · have hn0 : (n == 0) = false := by simp [hn]
    simp only [pctResult, toVm, pctHolds, isU, isUndef_of_ne hk, hn0, Bool.or_self, Bool.false_eq_true, if_false]
    congr 1
    apply decide_eq_decide.mpr
    have := floor_ge_iff (t * 100) n k (by omega)
    simpa using this

theorem step_ofPercent (env : Env) (rules : Bool) (items : List Int) (hi : ∀ y ∈ items, isU y = false) (qw : Int)
    (pc : Nat) (st mem : List Int) (its : List Iter) :
    step env (.ofPercent rules) ⟨pc, (items.reverse ++ ([UNDEF] ++ [qw])) ++ st, mem, its⟩ =
      some ⟨pc + 1, pctResult qw (if rules then items.countP (fun v => v != 0)
                                  else items.countP fun sv => !(matchesOfStr env sv).isEmpty) items.length :: st, mem, its⟩ := by
  have hst : (items.reverse ++ ([UNDEF] ++ [qw])) ++ st = items.reverse ++ UNDEF :: (qw :: st) := by simp
  have hp := popToMarker_spec items.reverse [] (qw :: st) (fun y hy => hi y (by simpa using hy))
  simp only [List.reverse_reverse, List.append_nil] at hp
  simp only [step, hst, hp]

theorem step_ofFoundIn (env : Env) (items : List Int) (hi : ∀ y ∈ items, isU y = false) (qw lo hi' : Int)
    (pc : Nat) (st mem : List Int) (its : List Iter) :
    step env .ofFoundIn ⟨pc, ([hi'] ++ [lo]) ++ ((items.reverse ++ ([UNDEF] ++ [qw])) ++ st), mem, its⟩ =
      some ⟨pc + 1, (if isU lo || isU hi' then UNDEF else
        ofResult qw (items.countP fun sv => (matchesOfStr env sv).any (inRange lo hi')) items.length) :: st, mem, its⟩ := by
  have hst : ([hi'] ++ [lo]) ++ ((items.reverse ++ ([UNDEF] ++ [qw])) ++ st)
      = hi' :: lo :: (items.reverse ++ UNDEF :: (qw :: st)) := by simp
  have hp := popToMarker_spec items.reverse [] (qw :: st) (fun y hy => hi y (by simpa using hy))
  simp only [List.reverse_reverse, List.append_nil] at hp
  simp only [step, hst, hp]
  split <;> rfl

theorem step_ofFoundAt (env : Env) (items : List Int) (hi : ∀ y ∈ items, isU y = false) (qw x : Int)
    (pc : Nat) (st mem : List Int) (its : List Iter) :
    step env .ofFoundAt ⟨pc, [x] ++ ((items.reverse ++ ([UNDEF] ++ [qw])) ++ st), mem, its⟩ =
      some ⟨pc + 1, (if isU x then UNDEF else
        ofResult qw (items.countP fun sv => (matchesOfStr env sv).any fun m => m.1 == x) items.length) :: st, mem, its⟩ := by
  have hst : [x] ++ ((items.reverse ++ ([UNDEF] ++ [qw])) ++ st) = x :: (items.reverse ++ UNDEF :: (qw :: st)) := by simp
  have hp := popToMarker_spec items.reverse [] (qw :: st) (fun y hy => hi y (by simpa using hy))
  simp only [List.reverse_reverse, List.append_nil] at hp
  simp only [step, hst, hp]
  split <;> rfl

theorem runs_strset {env : Env} {code : List Instr} {c : Ctx} {l : LEnv} {pure : Bool} (set : List Nat) :
    Runs env code (set.map fun n => Instr.push (encStr n)) c l pure (set.map encStr).reverse := by
  have := runs_pushes (env := env) (code := code) (c := c) (l := l) (pure := pure) (set.map fun n => (Instr.push (encStr n), encStr n))
    (by intro p hp pc st mem its; simp only [List.mem_map] at hp; obtain ⟨n, _, rfl⟩ := hp; rfl)
  simpa [List.map_map, Function.comp_def] using this

/-- the word OP_PUSH_RULE pushes: UNDEFINED for a disabled rule -/
def ruleWord (env : Env) (k : Nat) : Int := if env.disabled.contains k then UNDEF else b2i (env.rules.getD k false)

theorem ruleWord_or (env : Env) (prim : String → List Int → Int) (k : Nat) :
    vmBin prim .OP_OR (ruleWord env k) 0 = b2i (env.ruleMatched k) := by
  unfold ruleWord Env.ruleMatched
  by_cases hd : env.disabled.contains k = true
  · simp only [hd, if_true, Bool.not_true, Bool.and_false]
    rfl
  · have hd' : env.disabled.contains k = false := by simpa using hd
    simp only [hd', Bool.false_eq_true, if_false, Bool.not_false, Bool.and_true]
    cases env.rules.getD k false <;> rfl

/-- a rule-set member `PUSH_RULE k; PUSH 0; OR` leaves 0/1: the rule matched (a disabled rule: 0, never the end-of-set marker) -/
theorem runs_ruleMember {env : Env} {code : List Instr} {c : Ctx} {l : LEnv} {pure : Bool} (k : Nat) :
    Runs env code (ruleMember k) c l pure [b2i (env.ruleMatched k)] := by
  have h1 : Runs env code [Instr.pushRule k] c l pure [ruleWord env k] := Runs.push1 _ _ (fun _ _ _ _ _ => rfl)
  have h2 : Runs env code [Instr.push 0] c l pure [0] := Runs.push1 _ _ (fun _ _ _ _ _ => rfl)
  have := Runs.op (.bin .OP_OR) _ _ (Runs.seq h1 h2) (fun _ _ _ _ => rfl)
  exact Runs.val1 (ruleWord_or env _ k) (by simpa [ruleMember] using this)

theorem runs_ruleset {env : Env} {code : List Instr} {c : Ctx} {l : LEnv} {pure : Bool} (set : List Nat) :
    Runs env code (set.flatMap ruleMember) c l pure (set.map fun k => b2i (env.ruleMatched k)).reverse := by
  induction set with
  | nil => exact Runs.nil env code c l pure
  | cons k ks ih =>
    have := Runs.seq (runs_ruleMember (env := env) (code := code) (c := c) (l := l) (pure := pure) k) ih
    simpa using this

theorem count_strset (env : Env) (set : List Nat) (p : List (Int × Int) → Bool) :
    (set.map encStr).countP (fun sv => p (matchesOfStr env sv)) = set.countP (fun n => p (env.strs.getD n [])) := by
  rw [List.countP_map]
  congr 1
  funext n
  simp [ms_enc]

theorem count_ruleset (env : Env) (set : List Nat) :
    (set.map fun k => b2i (env.ruleMatched k)).countP (fun v => v != 0) = set.countP env.ruleMatched := by
  rw [List.countP_map]
  congr 1
  funext k
  simp only [Function.comp]
  cases env.ruleMatched k <;> simp [b2i]

/-- `a or b`: the word left is OP_OR's 0/1, or the left operand's own (true) word -/
theorem or_runsV {env : Env} {code : List Instr} {c : Ctx} {l : LEnv} {pure : Bool} {a b : Expr} {wa wb : Int}
    (hra : Runs env code (compile c a ++ strToBool (tyOf c a)) c l pure [wa])
    (hrb : Runs env code (compile c b ++ strToBool (tyOf c b)) c l pure [wb])
    (htwa : TruthWord (eval env l a) wa) (htwb : TruthWord (eval env l b) wb) :
    RunsV env code (compile c (.or a b)) c l pure (tyOf c (.or a b)) (eval env l (.or a b)) := by
  refine ⟨orWord wa wb, by simpa [compile] using runs_or hra hrb, ?_⟩
  simp only [eval, vOr, tyOf]
  by_cases hk : (!isU wa && wa != 0) = true
  · right
    have ha : asBool (eval env l a) = true := by rw [← tw_truth htwa]; exact hk
    simp only [Bool.and_eq_true, Bool.not_eq_true', bne_iff_ne, ne_eq] at hk
    exact ⟨rfl, by simp [ha], by simp [orWord, hk.1, hk.2], by simp [orWord, hk.1, hk.2]⟩
  · left
    have hk' : (!isU wa && wa != 0) = false := by simpa using hk
    have ha : asBool (eval env l a) = false := by rw [← tw_truth htwa]; exact hk'
    simp only [orWord, hk', Bool.false_eq_true, if_false, toVm, ha, Bool.false_or, tw_truth htwb]

theorem exec_loopfree (env : Env) (henv : EnvOk env) (code : List Instr) :
    ∀ (e : Expr) (c : Ctx) (l : LEnv), loopFree e = true → WF env c l e →
      RunsV env code (compile c e) c l true (tyOf c e) (eval env l e)
  | .int v, c, l, _, hw => by
    apply RunsV.ofExact
    have hv : isUndef v = false := isUndef_of_ne (by simpa [WF] using hw)
    simp only [compile, hv, eval, toVm]
    exact Runs.push1 _ _ (fun _ _ _ _ _ => rfl)
  | .str s, c, l, _, _ => by
    apply RunsV.ofExact
    simp only [compile, eval, toVm]
    exact Runs.push1 _ _ (fun _ _ _ _ _ => rfl)
  | .filesize, c, l, _, _ => by
    apply RunsV.ofExact
    simp only [compile, eval, toVm]
    exact Runs.push1 _ _ (fun _ _ _ _ _ => rfl)
  | .ext n, c, l, _, _ => by
    apply RunsV.ofExact
    simp only [compile, eval]
    exact Runs.push1 _ _ (fun _ _ _ _ _ => rfl)
  | .var k, c, l, _, hw => by
    apply RunsV.ofExact
    simp only [compile, eval]
    simp only [WF] at hw
    apply Runs.push1
    intro pc st mem its hP
    simp [step, hP.2.1 k hw.1]
  | .undefOf t, c, l, _, _ => by
    apply RunsV.ofExact
    simp only [compile, eval, toVm]
    exact Runs.push1 _ _ (fun _ _ _ _ _ => rfl)
  | .tt, c, l, _, _ => by
    apply RunsV.ofExact
    simp only [compile, eval, toVm]
    exact Runs.push1 _ _ (fun _ _ _ _ _ => rfl)
  | .ff, c, l, _, _ => by
    apply RunsV.ofExact
    simp only [compile, eval, toVm]
    exact Runs.push1 _ _ (fun _ _ _ _ _ => rfl)
  | .ruleRef k, c, l, _, _ => by
    apply RunsV.ofExact
    simp only [compile, eval]
    refine Runs.val1 ?_ (Runs.push1 (.pushRule k) (ruleWord env k) (fun _ _ _ _ _ => rfl))
    unfold ruleWord
    split <;> rfl
  | .neg e, c, l, hl, hw => by
    apply RunsV.ofExact
    simp only [WF] at hw
    have ht := wf_typed env c l e hw.1
    rcases hw.2.1 with hty | hty
    · have ih := (exec_loopfree env henv code e c l (by simpa [loopFree] using hl) hw.1).exact (by rw [hty]; decide)
      rw [hty] at ht
      simp only [compile, hty, eval]
      exact Runs.val1 (vm_neg _ _ ht) (Runs.op (.un .OP_INT_MINUS) _ _ ih (fun _ _ _ _ => rfl))
    · have ih := (exec_loopfree env henv code e c l (by simpa [loopFree] using hl) hw.1).exact (by rw [hty]; decide)
      rw [hty] at ht
      have hcode : compile c (.neg e) = compile c e ++ [.un .OP_DBL_MINUS] := by simp [compile, hty]
      rw [hcode]
      simp only [eval]
      exact Runs.val1 (vm_neg_flt env.blocks _ ht) (Runs.op (.un .OP_DBL_MINUS) _ _ ih (fun _ _ _ _ => rfl))
  | .arith op a b, c, l, hl, hw => by
    apply RunsV.ofExact
    simp only [WF] at hw
    simp only [loopFree, Bool.and_eq_true] at hl
    obtain ⟨hwa, hwb, hca, hcb, _, hpr⟩ := hw
    have hna : tyOf c a ≠ .bool := by rcases hca with h | ⟨_, h⟩ <;> rw [h] <;> decide
    have hnb : tyOf c b ≠ .bool := by rcases hcb with h | ⟨_, h⟩ <;> rw [h] <;> decide
    have iha := (exec_loopfree env henv code a c l hl.1 hwa).exact hna
    have ihb := (exec_loopfree env henv code b c l hl.2 hwb).exact hnb
    have hta := wf_typed env c l a hwa
    have htb := wf_typed env c l b hwb
    by_cases hii : tyOf c a = .int ∧ tyOf c b = .int
    · rw [hii.1] at hta
      rw [hii.2] at htb
      have hcode : compile c (.arith op a b) = (compile c a ++ compile c b) ++ [.bin (arithOp .int op)] := by
        cases op <;> simp [compile, hii.1, hii.2, conv, numTy]
      rw [hcode]
      simp only [eval]
      exact Runs.val1 (vm_arith _ _ _ _ hta htb) (Runs.op (.bin (arithOp .int op)) _ _ (Runs.seq iha ihb) (fun _ _ _ _ => rfl))
    · -- a double operand: `+ - * \` only, the integer operand (if any) is promoted by OP_INT_TO_DBL
      have hop : isFltOp op = true := by
        rcases hca with h | ⟨h, _⟩
        · rcases hcb with h' | ⟨h', _⟩
          · exact absurd ⟨h, h'⟩ hii
          · exact h'
        · exact h
      have hta' : tyOf c a = .int ∨ tyOf c a = .flt := by rcases hca with h | ⟨_, h⟩ <;> simp [h]
      have htb' : tyOf c b = .int ∨ tyOf c b = .flt := by rcases hcb with h | ⟨_, h⟩ <;> simp [h]
      have hnum : numTy (tyOf c a) (tyOf c b) = .flt := by
        rcases hta' with h | h <;> rcases htb' with h' | h' <;> simp_all [numTy]
      have hcode : compile c (.arith op a b) =
          ((compile c a ++ compile c b) ++ conv (tyOf c a) (tyOf c b)) ++ [.bin (arithOp .flt op)] := by
        cases op <;> simp [isFltOp] at hop <;> simp [compile, hnum]
      rw [hcode]
      simp only [eval]
      exact Runs.val1 (vm_arith_flt env.blocks op hop _ _ _ _ hta' htb' hii hta htb hpr)
        (Runs.op (.bin (arithOp .flt op)) _ _ (runs_conv _ _ _ _ (Runs.seq iha ihb)) (fun _ _ _ _ => rfl))
  | .bnot e, c, l, hl, hw => by
    apply RunsV.ofExact
    simp only [WF] at hw
    have ih := (exec_loopfree env henv code e c l (by simpa [loopFree] using hl) hw.1).exact (by rw [hw.2.1]; decide)
    have ht := wf_typed env c l e hw.1
    rw [hw.2.1] at ht
    simp only [compile, eval]
    exact Runs.val1 (vm_bnot _ _ ht) (Runs.op (.un .OP_BITWISE_NOT) _ _ ih (fun _ _ _ _ => rfl))
  | .read k off, c, l, hl, hw => by
    apply RunsV.ofExact
    simp only [WF] at hw
    have ih := (exec_loopfree env henv code off c l (by simpa [loopFree] using hl) hw.1).exact (by rw [hw.2.1]; decide)
    have ht := wf_typed env c l off hw.1
    rw [hw.2.1] at ht
    simp only [compile, eval]
    exact Runs.val1 (vm_read env.blocks henv k _ ht hw.2.2.2) (Runs.op (.un (readOp k)) _ _ ih (fun _ _ _ _ => rfl))
  | .count s, c, l, _, hw => by
    apply RunsV.ofExact
    simp only [WF] at hw
    have hp := runs_pushStr env code c l true s hw
    simp only [compile, eval, toVm, matchesOf_idx env c l s hw]
    exact Runs.op .count _ _ hp (step_count env _)
  | .found s, c, l, _, hw => by
    apply RunsV.ofExact
    simp only [WF] at hw
    have hp := runs_pushStr env code c l true s hw
    simp only [compile, eval, toVm, matchesOf_idx env c l s hw]
    exact Runs.op .found _ _ hp (step_found env _)
  | .countIn s lo hi, c, l, hl, hw => by
    apply RunsV.ofExact
    simp only [WF] at hw
    simp only [loopFree, Bool.and_eq_true] at hl
    obtain ⟨hs, hwlo, hwhi, htlo, hthi⟩ := hw
    have ihlo := (exec_loopfree env henv code lo c l hl.1 hwlo).exact (by rw [htlo]; decide)
    have ihhi := (exec_loopfree env henv code hi c l hl.2 hwhi).exact (by rw [hthi]; decide)
    have hlo := wf_typed env c l lo hwlo
    have hhi := wf_typed env c l hi hwhi
    rw [htlo] at hlo
    rw [hthi] at hhi
    have hp := runs_pushStr env code c l true s hs
    have hcode : compile c (.countIn s lo hi) = ((compile c lo ++ compile c hi) ++ [pushStr c s]) ++ [.countIn] := by
      simp [compile]
    rw [hcode]
    simp only [eval, matchesOf_idx env c l s hs]
    exact Runs.val1 (w_countIn _ _ _ hlo hhi) (Runs.op .countIn _ _ (Runs.seq (Runs.seq ihlo ihhi) hp) (step_countIn env _ _ _))
  | .foundIn s lo hi, c, l, hl, hw => by
    apply RunsV.ofExact
    simp only [WF] at hw
    simp only [loopFree, Bool.and_eq_true] at hl
    obtain ⟨hs, hwlo, hwhi, htlo, hthi⟩ := hw
    have ihlo := (exec_loopfree env henv code lo c l hl.1 hwlo).exact (by rw [htlo]; decide)
    have ihhi := (exec_loopfree env henv code hi c l hl.2 hwhi).exact (by rw [hthi]; decide)
    have hlo := wf_typed env c l lo hwlo
    have hhi := wf_typed env c l hi hwhi
    rw [htlo] at hlo
    rw [hthi] at hhi
    have hp := runs_pushStr env code c l true s hs
    have hcode : compile c (.foundIn s lo hi) = ((compile c lo ++ compile c hi) ++ [pushStr c s]) ++ [.foundIn] := by
      simp [compile]
    rw [hcode]
    simp only [eval, matchesOf_idx env c l s hs]
    exact Runs.val1 (w_foundIn _ _ _ hlo hhi) (Runs.op .foundIn _ _ (Runs.seq (Runs.seq ihlo ihhi) hp) (step_foundIn env _ _ _))
  | .foundAt s pos, c, l, hl, hw => by
    apply RunsV.ofExact
    simp only [WF] at hw
    obtain ⟨hs, hwp, htp⟩ := hw
    have ih := (exec_loopfree env henv code pos c l (by simpa [loopFree] using hl) hwp).exact (by rw [htp]; decide)
    have hx := wf_typed env c l pos hwp
    rw [htp] at hx
    have hp := runs_pushStr env code c l true s hs
    have hcode : compile c (.foundAt s pos) = (compile c pos ++ [pushStr c s]) ++ [.foundAt] := by simp [compile]
    rw [hcode]
    simp only [eval, matchesOf_idx env c l s hs]
    exact Runs.val1 (w_foundAt _ _ hx) (Runs.op .foundAt _ _ (Runs.seq ih hp) (step_foundAt env _ _))
  | .offset s i, c, l, hl, hw => by
    apply RunsV.ofExact
    simp only [WF] at hw
    obtain ⟨hs, hwp, htp, _⟩ := hw
    have ih := (exec_loopfree env henv code i c l (by simpa [loopFree] using hl) hwp).exact (by rw [htp]; decide)
    have hx := wf_typed env c l i hwp
    rw [htp] at hx
    have hp := runs_pushStr env code c l true s hs
    have hcode : compile c (.offset s i) = (compile c i ++ [pushStr c s]) ++ [.offset] := by simp [compile]
    rw [hcode]
    simp only [eval, matchesOf_idx env c l s hs]
    exact Runs.val1 (w_offset _ _ hx) (Runs.op .offset _ _ (Runs.seq ih hp) (step_offset env _ _))
  | .length s i, c, l, hl, hw => by
    apply RunsV.ofExact
    simp only [WF] at hw
    obtain ⟨hs, hwp, htp, _⟩ := hw
    have ih := (exec_loopfree env henv code i c l (by simpa [loopFree] using hl) hwp).exact (by rw [htp]; decide)
    have hx := wf_typed env c l i hwp
    rw [htp] at hx
    have hp := runs_pushStr env code c l true s hs
    have hcode : compile c (.length s i) = (compile c i ++ [pushStr c s]) ++ [.length] := by simp [compile]
    rw [hcode]
    simp only [eval, matchesOf_idx env c l s hs]
    exact Runs.val1 (w_length _ _ hx) (Runs.op .length _ _ (Runs.seq ih hp) (step_length env _ _))
  | .cmp op a b, c, l, hl, hw => by
    apply RunsV.ofExact
    simp only [WF] at hw
    simp only [loopFree, Bool.and_eq_true] at hl
    obtain ⟨hwa, hwb, hty, hpr⟩ := hw
    have ra := exec_loopfree env henv code a c l hl.1 hwa
    have rb := exec_loopfree env henv code b c l hl.2 hwb
    have hta := wf_typed env c l a hwa
    have htb := wf_typed env c l b hwb
    rcases hty with ⟨h1, h2⟩ | ⟨h1, h2⟩
    · have hna : tyOf c a ≠ .bool := by rcases h1 with h | h <;> rw [h] <;> decide
      have hnb : tyOf c b ≠ .bool := by rcases h2 with h | h <;> rw [h] <;> decide
      have iha := ra.exact hna
      have ihb := rb.exact hnb
      by_cases hii : tyOf c a = .int ∧ tyOf c b = .int
      · rw [hii.1] at hta
        rw [hii.2] at htb
        have hcode : compile c (.cmp op a b) = (compile c a ++ compile c b) ++ [.bin (cmpOp .int op)] := by
          simp [compile, hii.1, hii.2, conv, numTy]
        rw [hcode]
        simp only [eval]
        exact Runs.val1 (vm_cmp_int _ _ _ _ hta htb) (Runs.op (.bin (cmpOp .int op)) _ _ (Runs.seq iha ihb) (fun _ _ _ _ => rfl))
      · have hnum : numTy (tyOf c a) (tyOf c b) = .flt := by
          rcases h1 with h | h <;> rcases h2 with h' | h' <;> simp_all [numTy]
        have hcode : compile c (.cmp op a b) =
            ((compile c a ++ compile c b) ++ conv (tyOf c a) (tyOf c b)) ++ [.bin (cmpOp .flt op)] := by
          simp [compile, hnum]
        rw [hcode]
        simp only [eval]
        exact Runs.val1 (vm_cmp_flt env.blocks op _ _ _ _ h1 h2 hii hta htb hpr)
          (Runs.op (.bin (cmpOp .flt op)) _ _ (runs_conv _ _ _ _ (Runs.seq iha ihb)) (fun _ _ _ _ => rfl))
    · have iha := ra.exact (by rw [h1]; decide)
      have ihb := rb.exact (by rw [h2]; decide)
      rw [h1] at hta
      rw [h2] at htb
      have hcode : compile c (.cmp op a b) = (compile c a ++ compile c b) ++ [.bin (cmpOp .str op)] := by
        simp [compile, h1, h2, conv, numTy]
      rw [hcode]
      simp only [eval]
      exact Runs.val1 (vm_cmp_str _ _ _ _ hta htb) (Runs.op (.bin (cmpOp .str op)) _ _ (Runs.seq iha ihb) (fun _ _ _ _ => rfl))
  | .strop op a b, c, l, hl, hw => by
    apply RunsV.ofExact
    simp only [WF] at hw
    simp only [loopFree, Bool.and_eq_true] at hl
    obtain ⟨hwa, hwb, h1, h2⟩ := hw
    have iha := (exec_loopfree env henv code a c l hl.1 hwa).exact (by rw [h1]; decide)
    have ihb := (exec_loopfree env henv code b c l hl.2 hwb).exact (by rw [h2]; decide)
    have hta := wf_typed env c l a hwa
    have htb := wf_typed env c l b hwb
    rw [h1] at hta
    rw [h2] at htb
    have hcode : compile c (.strop op a b) = (compile c a ++ compile c b) ++ [.bin (strOpc op)] := by simp [compile]
    rw [hcode]
    simp only [eval]
    exact Runs.val1 (vm_strop _ _ _ _ hta htb) (Runs.op (.bin (strOpc op)) _ _ (Runs.seq iha ihb) (fun _ _ _ _ => rfl))
  | .matches a re nc, c, l, hl, hw => by
    apply RunsV.ofExact
    simp only [WF] at hw
    obtain ⟨hwa, h1⟩ := hw
    have iha := (exec_loopfree env henv code a c l (by simpa [loopFree] using hl) hwa).exact (by rw [h1]; decide)
    have hta := wf_typed env c l a hwa
    rw [h1] at hta
    have hcode : compile c (.matches a re nc) = (compile c a ++ [.push (encRe re nc)]) ++ [.matches] := by simp [compile]
    rw [hcode]
    simp only [eval]
    have hp : Runs env code [Instr.push (encRe re nc)] c l true [encRe re nc] := Runs.push1 _ _ (fun _ _ _ _ _ => rfl)
    exact Runs.val1 (w_matches re nc _ hta) (Runs.op .matches _ _ (Runs.seq iha hp) (step_matches env _ _))
  | .not e, c, l, hl, hw => by
    apply RunsV.ofExact
    simp only [WF] at hw
    have ht := wf_typed env c l e hw
    obtain ⟨w, hr, htw⟩ := (exec_loopfree env henv code e c l (by simpa [loopFree] using hl) hw).boolpos ht
    have hcode : compile c (.not e) = (compile c e ++ strToBool (tyOf c e)) ++ [.un .OP_NOT] := by simp [compile]
    rw [hcode]
    simp only [eval]
    exact Runs.val1 (tw_not _ htw) (Runs.op (.un .OP_NOT) _ _ hr (fun _ _ _ _ => rfl))
  | .defined e, c, l, hl, hw => by
    apply RunsV.ofExact
    simp only [WF] at hw
    have ht := wf_typed env c l e hw
    obtain ⟨w, hr, htw⟩ := (exec_loopfree env henv code e c l (by simpa [loopFree] using hl) hw).boolpos ht
    have hcode : compile c (.defined e) = (compile c e ++ strToBool (tyOf c e)) ++ [.un .OP_DEFINED] := by simp [compile]
    rw [hcode]
    simp only [eval]
    exact Runs.val1 (tw_defined _ htw) (Runs.op (.un .OP_DEFINED) _ _ hr (fun _ _ _ _ => rfl))
  | .and a b, c, l, hl, hw => by
    apply RunsV.ofExact
    simp only [WF] at hw
    simp only [loopFree, Bool.and_eq_true] at hl
    obtain ⟨hwa, hwb⟩ := hw
    obtain ⟨wa, hra, htwa⟩ := (exec_loopfree env henv code a c l hl.1 hwa).boolpos (wf_typed env c l a hwa)
    obtain ⟨wb, hrb, htwb⟩ := (exec_loopfree env henv code b c l hl.2 hwb).boolpos (wf_typed env c l b hwb)
    simp only [compile, eval, vAnd, toVm]
    rw [← tw_truth htwa, ← tw_truth htwb]
    exact runs_and hra hrb
  | .or a b, c, l, hl, hw => by
    simp only [WF] at hw
    simp only [loopFree, Bool.and_eq_true] at hl
    obtain ⟨hwa, hwb⟩ := hw
    obtain ⟨wa, hra, htwa⟩ := (exec_loopfree env henv code a c l hl.1 hwa).boolpos (wf_typed env c l a hwa)
    obtain ⟨wb, hrb, htwb⟩ := (exec_loopfree env henv code b c l hl.2 hwb).boolpos (wf_typed env c l b hwb)
    exact or_runsV hra hrb htwa htwb
  | .ofStr q qe set, c, l, hl, hw => by
    apply RunsV.ofExact
    simp only [WF] at hw
    have hq := runs_quant (env := env) (code := code) (c := c) (l := l) (pure := true) q (compile c qe) (toVm (eval env l qe))
      (fun h => (exec_loopfree env henv code qe c l (by simpa [loopFree, h] using hl) (hw h).1).exact (by rw [(hw h).2.1]; decide))
    have hm : Runs env code [Instr.pushU] c l true [UNDEF] := Runs.push1 _ _ (fun _ _ _ _ _ => rfl)
    have hs := runs_strset (env := env) (code := code) (c := c) (l := l) (pure := true) set
    have hcode : compile c (.ofStr q qe set) =
        ((quantCode (compile c qe) q ++ [Instr.pushU]) ++ set.map fun n => Instr.push (encStr n)) ++ [.of_ false] := by
      simp [compile]
    rw [hcode]
    simp only [eval]
    have hrun := Runs.op (.of_ false) _ _ (Runs.seq (Runs.seq hq hm) hs)
      (step_of env false (set.map encStr) (by intro y hy; simp only [List.mem_map] at hy; obtain ⟨n, _, rfl⟩ := hy; exact isU_encStr n) _)
    refine Runs.val1 ?_ hrun
    simp only [Bool.false_eq_true, if_false, List.length_map]
    rw [count_strset env set (fun ms => !ms.isEmpty)]
    show ofResult _ (set.countP (strFound env)) _ = _
    exact w_of q _ _ _ (List.countP_le_length) (fun h => ⟨by have := wf_typed env c l qe (hw h).1; rwa [(hw h).2.1] at this, (hw h).2.2⟩)
  | .ofRules q qe set, c, l, hl, hw => by
    apply RunsV.ofExact
    simp only [WF] at hw
    have hq := runs_quant (env := env) (code := code) (c := c) (l := l) (pure := true) q (compile c qe) (toVm (eval env l qe))
      (fun h => (exec_loopfree env henv code qe c l (by simpa [loopFree, h] using hl) (hw h).1).exact (by rw [(hw h).2.1]; decide))
    have hm : Runs env code [Instr.pushU] c l true [UNDEF] := Runs.push1 _ _ (fun _ _ _ _ _ => rfl)
    have hs := runs_ruleset (env := env) (code := code) (c := c) (l := l) (pure := true) set
    have hcode : compile c (.ofRules q qe set) =
        ((quantCode (compile c qe) q ++ [Instr.pushU]) ++ set.flatMap ruleMember) ++ [.of_ true] := by
      simp [compile]
    rw [hcode]
    simp only [eval]
    have hrun := Runs.op (.of_ true) _ _ (Runs.seq (Runs.seq hq hm) hs)
      (step_of env true (set.map fun k => b2i (env.ruleMatched k))
        (by intro y hy; simp only [List.mem_map] at hy; obtain ⟨n, _, rfl⟩ := hy; exact isUndef_b2i _) _)
    refine Runs.val1 ?_ hrun
    simp only [if_true, List.length_map]
    rw [count_ruleset env set]
    exact w_of q _ _ _ (List.countP_le_length) (fun h => ⟨by have := wf_typed env c l qe (hw h).1; rwa [(hw h).2.1] at this, (hw h).2.2⟩)
  | .ofStrIn q qe set lo hi, c, l, hl, hw => by
    apply RunsV.ofExact
    simp only [WF] at hw
    simp only [loopFree, Bool.and_eq_true] at hl
    obtain ⟨hwq, hwlo, hwhi, htlo, hthi⟩ := hw
    have hq := runs_quant (env := env) (code := code) (c := c) (l := l) (pure := true) q (compile c qe) (toVm (eval env l qe))
      (fun h => (exec_loopfree env henv code qe c l (by simpa [h] using hl.1.1) (hwq h).1).exact (by rw [(hwq h).2.1]; decide))
    have hm : Runs env code [Instr.pushU] c l true [UNDEF] := Runs.push1 _ _ (fun _ _ _ _ _ => rfl)
    have hs := runs_strset (env := env) (code := code) (c := c) (l := l) (pure := true) set
    have ihlo := (exec_loopfree env henv code lo c l hl.1.2 hwlo).exact (by rw [htlo]; decide)
    have ihhi := (exec_loopfree env henv code hi c l hl.2 hwhi).exact (by rw [hthi]; decide)
    have hlo := wf_typed env c l lo hwlo
    have hhi := wf_typed env c l hi hwhi
    rw [htlo] at hlo
    rw [hthi] at hhi
    have hcode : compile c (.ofStrIn q qe set lo hi) =
        (((quantCode (compile c qe) q ++ [Instr.pushU]) ++ set.map fun n => Instr.push (encStr n)) ++
          (compile c lo ++ compile c hi)) ++ [.ofFoundIn] := by
      simp [compile]
    rw [hcode]
    have hrun := Runs.op .ofFoundIn _ _ (Runs.seq (Runs.seq (Runs.seq hq hm) hs) (Runs.seq ihlo ihhi))
      (step_ofFoundIn env (set.map encStr) (by intro y hy; simp only [List.mem_map] at hy; obtain ⟨n, _, rfl⟩ := hy; exact isU_encStr n) _ _ _)
    refine Runs.val1 ?_ hrun
    simp only [eval, List.length_map]
    rcases hlo with hlo | ⟨a, hlo, ha⟩
    · simp [hlo, toVm, isU, isUndef_UNDEF]
    · rcases hhi with hhi | ⟨b, hhi, hb⟩
      · simp [hlo, hhi, toVm, isU, isUndef_UNDEF]
      · simp only [hlo, hhi, toVm, isU, isUndef_of_ne ha, isUndef_of_ne hb, Bool.or_self, Bool.false_eq_true, if_false]
        rw [count_strset env set (fun ms => ms.any (inRange a b))]
        exact w_of q _ _ _ (List.countP_le_length) (fun h => ⟨by have := wf_typed env c l qe (hwq h).1; rwa [(hwq h).2.1] at this, (hwq h).2.2⟩)
  | .ofStrAt q qe set pos, c, l, hl, hw => by
    apply RunsV.ofExact
    simp only [WF] at hw
    simp only [loopFree, Bool.and_eq_true] at hl
    obtain ⟨hwq, hwp, htp⟩ := hw
    have hq := runs_quant (env := env) (code := code) (c := c) (l := l) (pure := true) q (compile c qe) (toVm (eval env l qe))
      (fun h => (exec_loopfree env henv code qe c l (by simpa [h] using hl.1) (hwq h).1).exact (by rw [(hwq h).2.1]; decide))
    have hm : Runs env code [Instr.pushU] c l true [UNDEF] := Runs.push1 _ _ (fun _ _ _ _ _ => rfl)
    have hs := runs_strset (env := env) (code := code) (c := c) (l := l) (pure := true) set
    have ihp := (exec_loopfree env henv code pos c l hl.2 hwp).exact (by rw [htp]; decide)
    have hp := wf_typed env c l pos hwp
    rw [htp] at hp
    have hcode : compile c (.ofStrAt q qe set pos) =
        (((quantCode (compile c qe) q ++ [Instr.pushU]) ++ set.map fun n => Instr.push (encStr n)) ++
          compile c pos) ++ [.ofFoundAt] := by
      simp [compile]
    rw [hcode]
    have hrun := Runs.op .ofFoundAt _ _ (Runs.seq (Runs.seq (Runs.seq hq hm) hs) ihp)
      (step_ofFoundAt env (set.map encStr) (by intro y hy; simp only [List.mem_map] at hy; obtain ⟨n, _, rfl⟩ := hy; exact isU_encStr n) _ _)
    refine Runs.val1 ?_ hrun
    simp only [eval, List.length_map]
    rcases hp with hp | ⟨a, hp, ha⟩
    · simp [hp, toVm, isU, isUndef_UNDEF]
    · simp only [hp, toVm, isU, isUndef_of_ne ha, Bool.false_eq_true, if_false]
      rw [count_strset env set (fun ms => ms.any fun m => m.1 == a)]
      exact w_of q _ _ _ (List.countP_le_length) (fun h => ⟨by have := wf_typed env c l qe (hwq h).1; rwa [(hwq h).2.1] at this, (hwq h).2.2⟩)
  | .flt w, c, l, _, _ => by
    apply RunsV.ofExact
    simp only [compile, eval, toVm]
    exact Runs.push1 _ _ (fun _ _ _ _ _ => rfl)
  | .pctStr p set, c, l, hl, hw => by
    apply RunsV.ofExact
    simp only [WF] at hw
    obtain ⟨hwp, htp, hne⟩ := hw
    have hq := (exec_loopfree env henv code p c l (by simpa [loopFree] using hl) hwp).exact (by rw [htp]; decide)
    have hm : Runs env code [Instr.pushU] c l true [UNDEF] := Runs.push1 _ _ (fun _ _ _ _ _ => rfl)
    have hs := runs_strset (env := env) (code := code) (c := c) (l := l) (pure := true) set
    have hcode : compile c (.pctStr p set) =
        ((compile c p ++ [Instr.pushU]) ++ set.map fun n => Instr.push (encStr n)) ++ [.ofPercent false] := by
      simp [compile]
    rw [hcode]
    simp only [eval]
    have hrun := Runs.op (.ofPercent false) _ _ (Runs.seq (Runs.seq hq hm) hs)
      (step_ofPercent env false (set.map encStr) (by intro y hy; simp only [List.mem_map] at hy; obtain ⟨n, _, rfl⟩ := hy; exact isU_encStr n) _)
    refine Runs.val1 ?_ hrun
    simp only [Bool.false_eq_true, if_false, List.length_map]
    rw [count_strset env set (fun ms => !ms.isEmpty)]
    show pctResult _ (set.countP (strFound env)) _ = _
    exact w_pct _ _ _ (by simpa using hne) (by have := wf_typed env c l p hwp; rwa [htp] at this)
  | .pctRules p set, c, l, hl, hw => by
    apply RunsV.ofExact
    simp only [WF] at hw
    obtain ⟨hwp, htp, hne⟩ := hw
    have hq := (exec_loopfree env henv code p c l (by simpa [loopFree] using hl) hwp).exact (by rw [htp]; decide)
    have hm : Runs env code [Instr.pushU] c l true [UNDEF] := Runs.push1 _ _ (fun _ _ _ _ _ => rfl)
    have hs := runs_ruleset (env := env) (code := code) (c := c) (l := l) (pure := true) set
    have hcode : compile c (.pctRules p set) =
        ((compile c p ++ [Instr.pushU]) ++ set.flatMap ruleMember) ++ [.ofPercent true] := by
      simp [compile]
    rw [hcode]
    simp only [eval]
    have hrun := Runs.op (.ofPercent true) _ _ (Runs.seq (Runs.seq hq hm) hs)
      (step_ofPercent env true (set.map fun k => b2i (env.ruleMatched k))
        (by intro y hy; simp only [List.mem_map] at hy; obtain ⟨n, _, rfl⟩ := hy; exact isUndef_b2i _) _)
    refine Runs.val1 ?_ hrun
    simp only [if_true, List.length_map]
    rw [count_ruleset env set]
    exact w_pct _ _ _ (by simpa using hne) (by have := wf_typed env c l p hwp; rwa [htp] at this)
  | .forRange .., _, _, hl, _ => by simp [loopFree] at hl
  | .forEnum .., _, _, hl, _ => by simp [loopFree] at hl
  | .forOf .., _, _, hl, _ => by simp [loopFree] at hl
end YaraModel.CondCompile
