/- A concrete non-trivial arena used by the `example`s next to the property theorems
   (shows that their hypotheses are satisfiable). -/
import YaraModel.Lemmas.ArenaLoad
namespace YaraModel.Arena
open YaraModel.Gen.ArenaLayout

/-- buffer 0 (at 0x2000) holds two registered pointers: one to byte 2 of buffer 1 (at 0x1000),
    one null; buffer 2 was never allocated -/
def exArena : Arena :=
  { bufs := [ { data := [2, 16, 0, 0, 0, 0, 0, 0, 1, 2, 0, 0, 0, 0, 0, 0, 0, 0], cap := 32, base := 8192 },
              { data := [7, 7, 7, 7], cap := 8, base := 4096 },
              {} ],
    relocs := [⟨0, 0⟩, ⟨0, 10⟩], init := 8 }

theorem exArena_wf : WF exArena := by
  refine ⟨by decide, ⟨by decide, by decide, by decide⟩, by decide, by decide, by decide⟩

/-- realloc moves buffer 1 to 0x10000 with capacity 64 -/
theorem exArena_fresh : Fresh exArena 1 65536 64 := by
  refine ⟨by decide, by decide, ?_, by decide⟩
  intro j hj hne
  have : j = 0 ∨ j = 2 := by
    have : j < 3 := hj
    omega
  rcases this with rfl | rfl <;> decide

/-- an allocator for the loader -/
def exAlloc (i : Nat) : Nat := 1048576 * (i + 1)

/-- two buffers: buffer 0 is one registered pointer holding NULL; the last 8 bytes of buffer 1 (the last buffer) happen to
    read as the relocation entry (buffer 0, offset 0) -/
def exArena2 : Arena :=
  { bufs := [ { data := [0, 0, 0, 0, 0, 0, 0, 0], cap := 8, base := 8192 },
              { data := [7, 7, 7, 7, 0, 0, 0, 0, 0, 0, 0, 0], cap := 16, base := 4096 } ],
    relocs := [⟨0, 0⟩], init := 8 }

theorem exArena2_wf : WF exArena2 := by
  refine ⟨by decide, ⟨by decide, by decide, by decide⟩, by decide, by decide, by decide⟩

/-- a client session touching every kind of operation: a struct with two pointer fields; a pointer stored in
    one of them; allocations that make both the pointed-to buffer and the buffer holding the slot grow before the
    slot is read back; a pointer written and registered in one step at an unaligned offset, moved again, read
    back; a slot registered after the fact; memcpy into raw bytes; a reference → pointer → reference query; a slot
    over raw bytes registered and filled in one step, moved, read back -/
def exOps : List Op :=
  [ .struct 0 16 [0, 8], .write 1 [1, 2, 3], .setPtr ⟨0, 0⟩ (some ⟨1, 2⟩),
    .write 1 [4, 5, 6, 7, 8, 9, 10, 11, 12, 13], .zalloc 0 40, .ref ⟨0, 0⟩,
    .ptr 1 (some ⟨0, 20⟩), .zalloc 0 100, .ref ⟨1, 13⟩, .reloc 0 24, .setPtr ⟨0, 24⟩ (some ⟨0, 0⟩),
    .poke ⟨1, 0⟩ [9, 9], .rt (some ⟨1, 5⟩), .ref ⟨0, 8⟩, .regPtr ⟨1, 3⟩ (some ⟨0, 155⟩), .write 1 [7, 7, 7, 7], .ref ⟨1, 3⟩ ]

/-- two allocator schedules: ascending 4 KiB steps / descending 1 MiB steps -/
def exBases₁ : List Nat := (List.range 17).map (fun i => 4096 * (i + 1))
def exBases₂ : List Nat := (List.range 17).map (fun i => 1048576 * (20 - i))

end YaraModel.Arena
