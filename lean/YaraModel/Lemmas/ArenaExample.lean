/- A concrete non-trivial arena used by the `example`s next to the property theorems
   (shows that their hypotheses are satisfiable). -/
import YaraModel.Lemmas.ArenaLoad
namespace YaraModel.Arena
open YaraModel.Gen.ArenaLayout

/-- buffer 0 (at 0x2000) holds two registered pointers: one to byte 2 of buffer 1 (at 0x1000),
    one null; buffer 2 was never allocated -/
def exArena : Arena :=
  { bufs := [ { data := [2, 16, 0, 0, 0, 0, 0, 0, 1, 2, 0, 0, 0, 0, 0, 0, 0, 0], cap := 32, base := 8192 },
              { data := [7, 7, 7, 7], cap := 8, base := 4096 },
              {} ],
    relocs := [⟨0, 0⟩, ⟨0, 10⟩], init := 8 }

theorem exArena_wf : WF exArena := by
  refine ⟨by decide, ⟨by decide, by decide, by decide⟩, by decide, by decide, by decide⟩

/-- realloc moves buffer 1 to 0x10000 with capacity 64 -/
theorem exArena_fresh : Fresh exArena 1 65536 64 := by
  refine ⟨by decide, by decide, ?_, by decide⟩
  intro j hj hne
  have : j = 0 ∨ j = 2 := by
    have : j < 3 := hj
    omega
  rcases this with rfl | rfl <;> decide

/-- an allocator for the loader -/
def exAlloc (i : Nat) : Nat := 1048576 * (i + 1)

end YaraModel.Arena
