/- C11 helper lemmas: how `play` (Spec/Callback.lean) delivers a message list to a scripted callback. -/
import YaraModel.Spec.Callback
namespace YaraModel.Cb

theorem call_fst (s : List Ret) : (call s).1 = answer s 0 := by
  cases s <;> rfl

theorem answer_call_snd (s : List Ret) (k : Nat) : answer (call s).2 k = answer s (k + 1) := by
  cases s <;> simp [call, answer]

theorem play_append (a b : List Msg) (s : List Ret) :
    play (a ++ b) s =
      match (play a s).stopped with
      | some _ => play a s
      | none =>
        let q := play b (play a s).rest
        ⟨(play a s).trace ++ q.trace, q.stopped, q.rest⟩ := by
  induction a generalizing s with
  | nil => simp [play]
  | cons m ms ih =>
    simp only [List.cons_append, play]
    cases hv : verdict m (call s).1 with
    | some rc => simp
    | none =>
      simp only [ih]
      cases hs : (play ms (call s).2).stopped <;> simp [hs]

theorem play_prefix (ms : List Msg) (s : List Ret) : (play ms s).trace <+: ms := by
  induction ms generalizing s with
  | nil => simp [play]
  | cons m ms ih =>
    simp only [play]
    cases hv : verdict m (call s).1 with
    | some rc => simp [List.prefix_cons_iff]  
    | none => simpa [List.cons_prefix_cons] using ih _

theorem play_complete (ms : List Msg) (s : List Ret) (h : (play ms s).stopped = none) :
    (play ms s).trace = ms := by
  induction ms generalizing s with
  | nil => simp [play]
  | cons m ms ih =>
    simp only [play] at h ⊢
    cases hv : verdict m (call s).1 with
    | some rc => simp [hv] at h
    | none => simp only [hv] at h ⊢; simp [ih _ h]

theorem play_cons_stop {m : Msg} {s : List Ret} {rc : Rc} (ms : List Msg) (h : verdict m (call s).1 = some rc) :
    play (m :: ms) s = ⟨[m], some rc, (call s).2⟩ := by
  simp [play, h]

theorem play_cons_go {m : Msg} {s : List Ret} (ms : List Msg) (h : verdict m (call s).1 = none) :
    play (m :: ms) s = ⟨m :: (play ms (call s).2).trace, (play ms (call s).2).stopped, (play ms (call s).2).rest⟩ := by
  simp [play, h]

theorem play_trace_ne_nil (m : Msg) (ms : List Msg) (s : List Ret) : (play (m :: ms) s).trace ≠ [] := by
  cases hv : verdict m (call s).1 with
  | some rc => simp [play_cons_stop ms hv]
  | none => simp [play_cons_go ms hv]

/-- the k-th message was answered by the k-th script entry; only the answer to the last
    delivered message can have ended the scan -/
theorem play_verdict (ms : List Msg) (s : List Ret) (k : Nat) (m : Msg) (h : (play ms s).trace[k]? = some m) :
    verdict m (answer s k) =
      if k + 1 = (play ms s).trace.length then (play ms s).stopped else none := by
  induction ms generalizing s k with
  | nil => simp [play] at h
  | cons m0 ms ih =>
    cases hv : verdict m0 (call s).1 with
    | some rc =>
      rw [play_cons_stop ms hv] at h ⊢
      cases k with
      | zero => simp at h; subst h; simpa [call_fst] using hv
      | succ k => simp at h
    | none =>
      rw [play_cons_go ms hv] at h ⊢
      cases k with
      | zero =>
        simp at h; subst h
        rw [← call_fst, hv]
        cases ms with
        | nil => simp [play]
        | cons m' ms' =>
          have := play_trace_ne_nil m' ms' (call s).2
          have : (play (m' :: ms') (call s).snd).trace.length ≠ 0 := by simpa using this
          rw [if_neg]; simp only [List.length_cons]; omega
      | succ k =>
        simp only [List.getElem?_cons_succ] at h
        simp only [List.length_cons, Nat.add_right_cancel_iff]
        rw [← answer_call_snd]
        exact ih _ _ h
end YaraModel.Cb
