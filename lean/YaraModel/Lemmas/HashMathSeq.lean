/- C14 helper lemmas: serial correlation, Monte-Carlo pi, string statistics, strtoll. -/
import YaraModel.Model.HashMath
import YaraModel.Spec.HashMath
namespace YaraModel.HM
open Spec

/-! ### serial correlation -/

def lastOf (x : Int) : List Int → Int
  | [] => x
  | y :: t => lastOf y t

theorem foldl_sccStep (conv : UInt8 → Int) (rest : Bytes) (s : Scc) :
    let r := rest.foldl (sccStep conv) s
    let xs := rest.map conv
    r.first = s.first ∧ r.last = lastOf s.last xs ∧ r.t1 = s.t1 + pairSum (s.last :: xs) ∧
    r.t2 = s.t2 + sumInt xs ∧ r.t3 = s.t3 + sumInt (xs.map fun x => x * x) ∧ r.n = s.n + xs.length := by
  induction rest generalizing s with
  | nil => simp [lastOf, pairSum, sumInt]
  | cons b rest ih =>
    have h := ih (sccStep conv s b)
    simp only [List.foldl_cons, List.map_cons, List.length_cons] at h ⊢
    obtain ⟨h1, h2, h3, h4, h5, h6⟩ := h
    refine ⟨?_, ?_, ?_, ?_, ?_, ?_⟩
    · rw [h1]; rfl
    · rw [h2]; rfl
    · rw [h3]; simp [sccStep, pairSum]; omega
    · rw [h4]; simp [sccStep, sumInt]; omega
    · rw [h5]; simp [sccStep, sumInt]; omega
    · rw [h6]; simp [sccStep]; omega

theorem lastOf_getLast (x : Int) (xs : List Int) : lastOf x xs = ((x :: xs).getLast?).getD 0 := by
  induction xs generalizing x with
  | nil => rfl
  | cons y t ih => rw [lastOf, ih]; simp [List.getLast?_cons_cons]

theorem sccFinish_eq (s : Scc) :
    sccFinish s = sccFormula s.n (s.t1 + s.last * s.first) s.t2 s.t3 := rfl

/-- One loop over a string / one block: the definition over the converted values. -/
theorem sccChunk_empty (conv : UInt8 → Int) (bs : Bytes) :
    sccFinish (sccChunk conv {} bs) = serialCorrelationOf (bs.map conv) := by
  rw [sccFinish_eq]
  unfold serialCorrelationOf
  cases bs with
  | nil => simp [sccChunk, pairSum, sumInt]
  | cons b rest =>
    have h := foldl_sccStep conv rest (sccStep conv { first := conv b } b)
    simp only at h
    obtain ⟨h1, h2, h3, h4, h5, h6⟩ := h
    simp only [sccChunk]
    rw [h1, h2, h3, h4, h5, h6, lastOf_getLast]
    simp only [sccStep, Int.zero_mul, Int.zero_add, Int.add_zero, List.map_cons, List.head?_cons,
      Option.getD_some, List.length_cons, sumInt, List.foldr_cons]
    congr 1
    omega

theorem sccStr_unsigned (bs : Bytes) : sccStr unsignedConv bs = Spec.serialCorrelation bs := by
  unfold sccStr Spec.serialCorrelation
  rw [sccChunk_empty]
  rfl

/-! #### the range form (fix 5e43bd9): only the first visited block sets `sccfirst` -/

theorem sccBlock_past (s : Scc) (ch : Bytes) : sccBlock s true ch = ch.foldl (sccStep unsignedConv) s := by
  cases ch <;> rfl

theorem sccFold_past (chunks : List Bytes) (s : Scc) :
    (chunks.foldl (fun (st : Scc × Bool) ch => (sccBlock st.1 st.2 ch, true)) (s, true)).1 =
      chunks.flatten.foldl (sccStep unsignedConv) s := by
  induction chunks generalizing s with
  | nil => rfl
  | cons c cs ih =>
    simp only [List.foldl_cons, List.flatten_cons, List.foldl_append, sccBlock_past]
    exact ih _

/-- On chunk lists as the walker produces them (an empty first chunk is the only chunk) the
    range form is the definition on the concatenated bytes. -/
theorem sccChunks_eq (chunks : List Bytes) (h : ∀ c cs, chunks = c :: cs → c = [] → cs = []) :
    sccChunks chunks = Spec.serialCorrelation chunks.flatten := by
  unfold sccChunks
  cases chunks with
  | nil => exact sccStr_unsigned []
  | cons c cs =>
    cases c with
    | nil =>
      have := h [] cs rfl rfl
      subst this
      exact sccStr_unsigned []
    | cons b rest =>
      simp only [List.foldl_cons]
      rw [sccFold_past]
      have e : sccBlock {} false (b :: rest) = rest.foldl (sccStep unsignedConv)
          (sccStep unsignedConv { first := unsignedConv b } b) := rfl
      rw [e, ← List.foldl_append]
      have e2 : ((b :: rest) :: cs).flatten = b :: (rest ++ cs.flatten) := by simp
      rw [e2, ← sccStr_unsigned]
      rfl

/-! ### Monte-Carlo pi -/

theorem mcChunk_unsigned (bs : Bytes) : mcChunk unsignedConv bs = Spec.mcCount bs := by
  fun_induction Spec.mcCount bs with
  | case1 a b c d e f rest mx my r ih =>
    simp only [mcChunk, ih]
    rfl
  | case2 bs h =>
    unfold mcChunk
    split
    · next a b c d e f rest => exact absurd rfl (h a b c d e f rest)
    · rfl

theorem mcStr_unsigned (bs : Bytes) : mcStr unsignedConv bs = Spec.monteCarloPi bs := by
  unfold mcStr Spec.monteCarloPi mcFinish
  rw [mcChunk_unsigned]
  rfl

/-! #### the range form (fix 5e43bd9): the grouping runs across blocks -/

theorem mcChunk_short (conv : UInt8 → Int) (p : Bytes) (h : p.length < 6) : mcChunk conv p = (0, 0) := by
  unfold mcChunk
  split
  · simp at h; omega
  · rfl

theorem mcChunk_six_append (conv : UInt8 → Int) (p bs : Bytes) (h : p.length = 6) :
    mcChunk conv (p ++ bs) =
      ((mcChunk conv bs).1 + (mcChunk conv p).1, (mcChunk conv bs).2 + (mcChunk conv p).2) := by
  match p, h with
  | [a, b, c, d, e, f], _ =>
    simp only [List.cons_append, List.nil_append, mcChunk]
    simp

theorem mcFold (bs : Bytes) (s : Mc) (h : s.pend.length < 6) :
    (bs.foldl mcStep s).cnt = s.cnt + (mcChunk unsignedConv (s.pend ++ bs)).1 ∧
    (bs.foldl mcStep s).inm = s.inm + (mcChunk unsignedConv (s.pend ++ bs)).2 := by
  induction bs generalizing s with
  | nil => simp [mcChunk_short unsignedConv s.pend h]
  | cons b bs ih =>
    simp only [List.foldl_cons]
    have e : s.pend ++ b :: bs = (s.pend ++ [b]) ++ bs := by simp
    by_cases h6 : (s.pend ++ [b]).length = 6
    · have hs : mcStep s b = ⟨[], s.cnt + (mcChunk unsignedConv (s.pend ++ [b])).1,
          s.inm + (mcChunk unsignedConv (s.pend ++ [b])).2⟩ := by
        unfold mcStep; rw [if_pos h6]
      rw [hs]
      have := ih ⟨[], s.cnt + (mcChunk unsignedConv (s.pend ++ [b])).1,
          s.inm + (mcChunk unsignedConv (s.pend ++ [b])).2⟩ (by simp)
      simp only [List.nil_append] at this
      rw [this.1, this.2, e, mcChunk_six_append unsignedConv _ bs h6]
      constructor <;> simp only <;> omega
    · have hs : mcStep s b = ⟨s.pend ++ [b], s.cnt, s.inm⟩ := by
        unfold mcStep; rw [if_neg h6]
      rw [hs]
      have hl : (s.pend ++ [b]).length < 6 := by simp at h6 ⊢; omega
      have := ih ⟨s.pend ++ [b], s.cnt, s.inm⟩ hl
      simp only at this
      rw [this.1, this.2, e]
      exact ⟨rfl, rfl⟩

theorem foldl_chunks'' {α : Type} (f : α → UInt8 → α) (chunks : List Bytes) (a : α) :
    chunks.foldl (fun c ch => ch.foldl f c) a = chunks.flatten.foldl f a := by
  induction chunks generalizing a with
  | nil => rfl
  | cons ch chunks ih => simp only [List.foldl_cons, List.flatten_cons, List.foldl_append, ih]

theorem mcChunks_eq (chunks : List Bytes) : mcChunks chunks = Spec.monteCarloPi chunks.flatten := by
  unfold mcChunks
  simp only
  rw [foldl_chunks'']
  have h := mcFold chunks.flatten {} (by simp)
  simp only [List.nil_append, Nat.zero_add] at h
  rw [h.1, h.2, ← mcStr_unsigned]
  rfl

/-! ### string statistics -/

theorem foldl_add_sumRat {α : Type} (g : α → Rat) (l : List α) (a : Rat) :
    l.foldl (fun s b => s + g b) a = a + sumRat (l.map g) := by
  induction l generalizing a with
  | nil => simp [sumRat]; grind
  | cons x l ih => simp only [List.foldl_cons, ih, List.map_cons, sumRat, List.foldr_cons]; grind

theorem meanStr_eq (conv : UInt8 → Int) (bs : Bytes) :
    meanStr conv bs = if bs.length = 0 then none
      else some (sumRat (bs.map fun b => (conv b : Rat)) / (bs.length : Rat)) := by
  unfold meanStr divOrUndef
  rw [foldl_add_sumRat, Rat.zero_add]

theorem deviationStr_eq (conv : UInt8 → Int) (bs : Bytes) (m : Rat) :
    deviationStr conv bs m = if bs.length = 0 then none
      else some (sumRat (bs.map fun b => Spec.absRat ((conv b : Rat) - m)) / (bs.length : Rat)) := by
  unfold deviationStr divOrUndef
  rw [foldl_add_sumRat, Rat.zero_add]
  rfl

theorem meanStr_unsigned (bs : Bytes) : meanStr unsignedConv bs = Spec.mean bs := by
  rw [meanStr_eq]; rfl

theorem deviationStr_unsigned (bs : Bytes) (m : Rat) : deviationStr unsignedConv bs m = Spec.deviation bs m := by
  rw [deviationStr_eq]; rfl

/-- A signed `char` and the byte value agree below 128. -/
theorem conv_agree (b : UInt8) (h : b.toNat < 128) :
    signedConv b = unsignedConv b ∧ sextConv b = unsignedConv b := by
  unfold signedConv sextConv unsignedConv
  have : ¬ b.toNat ≥ 128 := by omega
  simp [this]

theorem meanStr_congr (c1 c2 : UInt8 → Int) (bs : Bytes) (h : ∀ b ∈ bs, c1 b = c2 b) :
    meanStr c1 bs = meanStr c2 bs := by
  rw [meanStr_eq, meanStr_eq]
  have : (bs.map fun b => (c1 b : Rat)) = bs.map fun b => (c2 b : Rat) :=
    List.map_congr_left (fun b hb => by rw [h b hb])
  rw [this]

theorem deviationStr_congr (c1 c2 : UInt8 → Int) (bs : Bytes) (m : Rat) (h : ∀ b ∈ bs, c1 b = c2 b) :
    deviationStr c1 bs m = deviationStr c2 bs m := by
  rw [deviationStr_eq, deviationStr_eq]
  have : (bs.map fun b => Spec.absRat ((c1 b : Rat) - m)) = bs.map fun b => Spec.absRat ((c2 b : Rat) - m) :=
    List.map_congr_left (fun b hb => by rw [h b hb])
  rw [this]

theorem sccStr_congr (c1 c2 : UInt8 → Int) (bs : Bytes) (h : ∀ b ∈ bs, c1 b = c2 b) :
    sccStr c1 bs = sccStr c2 bs := by
  unfold sccStr
  rw [sccChunk_empty, sccChunk_empty, List.map_congr_left h]

theorem mcChunk_congr (c1 c2 : UInt8 → Int) (bs : Bytes) (h : ∀ b ∈ bs, c1 b = c2 b) :
    mcChunk c1 bs = mcChunk c2 bs := by
  fun_induction mcChunk c1 bs with
  | case1 a b c d e f rest mx my r ih =>
    have ih' := ih (fun x hx => h x (by simp [hx]))
    simp only [mcChunk]
    rw [← ih', ← h a (by simp), ← h b (by simp), ← h c (by simp), ← h d (by simp), ← h e (by simp), ← h f (by simp)]
  | case2 bs hne =>
    unfold mcChunk
    split
    · next a b c d e f rest => exact absurd rfl (hne a b c d e f rest)
    · rfl

theorem mcStr_congr (c1 c2 : UInt8 → Int) (bs : Bytes) (h : ∀ b ∈ bs, c1 b = c2 b) :
    mcStr c1 bs = mcStr c2 bs := by
  unfold mcStr; rw [mcChunk_congr c1 c2 bs h]

/-! ### strtoll -/

theorem inInt64_range (x r : Int) (h : inInt64 x = some r) : -two63 ≤ r ∧ r ≤ two63 - 1 := by
  unfold inInt64 at h
  split at h
  · cases h
  · simp only [Option.some.injEq] at h; omega

theorem parseDigits_range (neg : Bool) (base : Nat) (s : Bytes) (r : Int)
    (h : parseDigits neg base s = some r) : -two63 ≤ r ∧ r ≤ two63 - 1 := by
  unfold parseDigits at h
  split at h
  · cases h
  · exact inInt64_range _ r h

theorem strToInt_range (s : Bytes) (base : Nat) (r : Int) (h : strToInt s base = some r) :
    -two63 ≤ r ∧ r ≤ two63 - 1 := parseDigits_range _ _ _ r h

theorem stringToIntBase_bad_base (s : Bytes) (base : Int) (h : ¬ (base = 0 ∨ (2 ≤ base ∧ base ≤ 36))) :
    stringToIntBase s base = none := by
  simp [stringToIntBase, h]

end YaraModel.HM
