/- helper lemmas for Thm/C01.lean: soundness and completeness of candidate verification -/
import YaraModel.Lemmas.TextPipeline
namespace YaraModel.Text

theorem variant_len {m : Mods} {s buf : Bytes} {o : Nat} {v : Nat × UInt8 × Bool} (hv : v ∈ variantsAt m s buf o) :
    s.isEmpty = false ∧ ((v.1 = s.length ∧ v.2.2 = false) ∨ (v.1 = 2 * s.length ∧ v.2.2 = true)) := by
  unfold variantsAt at hv
  split at hv
  · cases hv
  · rename_i hs
    refine ⟨by simpa using hs, ?_⟩
    simp only [List.mem_append] at hv
    rcases hv with (hv | hv) | hv
    · obtain ⟨_, rfl⟩ := mem_ite_singleton hv; simp
    · obtain ⟨_, rfl⟩ := mem_ite_singleton hv; simp
    · cases hx : m.xor with
      | none => simp [hx] at hv
      | some r =>
        simp only [hx, List.mem_append] at hv
        rcases hv with hv | hv
        · cases ha : m.ascii with
          | false => simp [ha] at hv
          | true =>
            simp only [ha, if_true, List.mem_map] at hv
            obtain ⟨k, _, rfl⟩ := hv; simp
        · cases hwd : m.wide with
          | false => simp [hwd] at hv
          | true =>
            simp only [hwd, if_true, List.mem_map] at hv
            obtain ⟨k, _, rfl⟩ := hv; simp

/-- hypotheses on the candidate stage: exactly the occurrences of the indexed atoms -/
structure CandsOK (w : Nat) (m : Mods) (s buf : Bytes) (C : List (Nat × Nat)) : Prop where
  exact : ∀ c ∈ C, ∃ a ∈ atomsOf w m s, atomAt a buf c.1 ∧ c.2 = a.bytes.length + a.backtrack
  complete : ∀ a ∈ atomsOf w m s, ∀ o, atomAt a buf o → (o, a.bytes.length + a.backtrack) ∈ C

theorem verify_off {m : Mods} {s buf : Bytes} {bt o : Nat} {x : Match}
    (h : verifyCandidate m s bt buf o = some x) : x.off = o := by
  unfold verifyCandidate at h
  split at h
  rename_i fm k hfm
  (repeat' split at h) <;> simp_all
  rw [← h]


theorem verify_unfold {m : Mods} {s buf : Bytes} {bt o : Nat} {x : Match}
    (h : verifyCandidate m s bt buf o = some x) :
    ∃ fm k, forwardMatches m s bt buf o = (fm, k) ∧ fm > 0 ∧ o + fm ≤ buf.length ∧
      (m.fullword = true → fullwordOK buf o fm (fm == 2 * s.length) = true) ∧ x = ⟨o, fm, k⟩ := by
  unfold verifyCandidate at h
  split at h
  rename_i fm k hfm
  refine ⟨fm, k, hfm, ?_⟩
  split at h
  · cases h
  · rename_i h0
    split at h
    · cases h
    · rename_i h1
      split at h
      · cases h
      · rename_i h2
        refine ⟨?_, by omega, ?_, by simpa using h.symm⟩
        · have : fm ≠ 0 := by simpa using h0
          omega
        · intro hfw
          simpa [hfw] using h2

theorem verify_sound (w : Nat) (m : Mods) (s buf : Bytes) (bt o : Nat) (x : Match)
    (hleg : m.legal = true) (hs : s.isEmpty = false) (hw : ValidWindow w s)
    (hc : ∃ a ∈ atomsOf w m s, atomAt a buf o ∧ bt = a.bytes.length + a.backtrack)
    (h : verifyCandidate m s bt buf o = some x) :
    x.off = o ∧ (x.len, x.key, x.len == 2 * s.length) ∈ variantsAt (anyKey m) s buf o ∧
    (m.fullword = true → fullwordOK buf o x.len (x.len == 2 * s.length) = true) := by
  obtain ⟨fm, k, hfm, hpos, _, hfw, rfl⟩ := verify_unfold h
  refine ⟨rfl, ?_, hfw⟩
  cases hf : fitsInAtom m s with
  | true =>
    obtain ⟨a, ha, hat, hbt⟩ := hc
    exact fm_sound_fits w m s buf bt o fm k hf hleg hs hw a ha hat hbt hfm
  | false => exact fm_sound_nonfits m s buf bt o fm k hf hleg hs hfm hpos


/-- finding F20's situation: at `o` one documented variant passes `fullword` and another fails it -/
def MixedAt (m : Mods) (s buf : Bytes) (o : Nat) : Prop :=
  m.fullword = true ∧ (∃ v ∈ variantsAt m s buf o, fullwordOK buf o v.1 v.2.2 = true) ∧
    (∃ v ∈ variantsAt m s buf o, fullwordOK buf o v.1 v.2.2 = false)

theorem mem_admissible {m : Mods} {s buf : Bytes} {o : Nat} {p : Nat × UInt8} :
    p ∈ admissibleAt m s buf o ↔
      ∃ v ∈ variantsAt m s buf o, (m.fullword = false ∨ fullwordOK buf o v.1 v.2.2 = true) ∧ p = (v.1, v.2.1) := by
  unfold admissibleAt
  simp only [List.mem_map, List.mem_filter]
  constructor
  · rintro ⟨v, ⟨hv, hf⟩, rfl⟩
    refine ⟨v, hv, ?_, rfl⟩
    cases hfw : m.fullword <;> simp_all
  · rintro ⟨v, hv, hf, rfl⟩
    refine ⟨v, ⟨hv, ?_⟩, rfl⟩
    rcases hf with hf | hf <;> simp [hf]

theorem flag_of_variant {m : Mods} {s buf : Bytes} {o : Nat} {v : Nat × UInt8 × Bool} (hv : v ∈ variantsAt m s buf o) :
    v.2.2 = (v.1 == 2 * s.length) := by
  obtain ⟨hs, h⟩ := variant_len hv
  have hslen : s.length > 0 := by cases s <;> simp_all
  rcases h with ⟨h1, h2⟩ | ⟨h1, h2⟩
  · rw [h1, h2]; simp; omega
  · rw [h1, h2]; simp

theorem verify_complete (w : Nat) (m : Mods) (s buf : Bytes) (bt o : Nat)
    (hleg : m.legal = true) (hw : ValidWindow w s)
    (hc : ∃ a ∈ atomsOf w m s, atomAt a buf o ∧ bt = a.bytes.length + a.backtrack)
    (h19 : variantsAt (anyKey m) s buf o = variantsAt m s buf o)
    (h20 : ¬ MixedAt m s buf o)
    (hadm : admissibleAt m s buf o ≠ []) : (verifyCandidate m s bt buf o).isSome = true := by
  obtain ⟨p, hp⟩ := List.exists_mem_of_ne_nil _ hadm
  obtain ⟨v, hv, hvf, _⟩ := mem_admissible.mp hp
  obtain ⟨hs, _⟩ := variant_len hv
  -- what the verifier computes is itself a documented variant
  cases hfm : forwardMatches m s bt buf o with
  | mk fm k =>
    have hpos_or : (fm, k, fm == 2 * s.length) ∈ variantsAt (anyKey m) s buf o := by
      cases hf : fitsInAtom m s with
      | true =>
        obtain ⟨a, ha, hat, hbt⟩ := hc
        exact fm_sound_fits w m s buf bt o fm k hf hleg hs hw a ha hat hbt hfm
      | false =>
        have hpos : fm > 0 := by
          have := fm_complete_nonfits m s buf bt o v hf hleg hs (by rw [h19]; exact hv)
          rw [hfm] at this; exact this
        exact fm_sound_nonfits m s buf bt o fm k hf hleg hs hfm hpos
    rw [h19] at hpos_or
    have hb := variant_inbounds hpos_or
    obtain ⟨_, hl⟩ := variant_len hpos_or
    have hslen : s.length > 0 := by cases s <;> simp_all
    have hpos : fm > 0 := by rcases hl with ⟨h1, _⟩ | ⟨h1, _⟩ <;> simp at h1 <;> omega
    have hfull : m.fullword = true → fullwordOK buf o fm (fm == 2 * s.length) = true := by
      intro hfw
      cases hok : fullwordOK buf o fm (fm == 2 * s.length) with
      | true => rfl
      | false =>
        exfalso
        apply h20
        refine ⟨hfw, ⟨v, hv, ?_⟩, ⟨(fm, k, fm == 2 * s.length), hpos_or, hok⟩⟩
        rcases hvf with h | h
        · rw [hfw] at h; cases h
        · exact h
    unfold verifyCandidate
    simp only [hfm]
    have h0 : (fm == 0) = false := by simp; omega
    have h1 : ¬ (o + fm > buf.length) := by simp at hb; omega
    simp only [h0, h1, Bool.false_eq_true, if_false]
    cases hfw : m.fullword with
    | false => simp
    | true => simp [hfull hfw]


theorem admissible_inbounds {m : Mods} {s buf : Bytes} {o : Nat} (h : admissibleAt m s buf o ≠ []) : o ≤ buf.length := by
  obtain ⟨p, hp⟩ := List.exists_mem_of_ne_nil _ h
  obtain ⟨v, hv, _, _⟩ := mem_admissible.mp hp
  have := variant_inbounds hv
  omega

end YaraModel.Text
