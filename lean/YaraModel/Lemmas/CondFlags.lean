/- C12 flags: pruning the match list of one string does not change the value of an expression that only uses that
   string in ways the pruning tolerates (`usesOk`) — generic agreement lemma, by structural recursion on `Expr` -/
import YaraModel.Spec.CondFlags
namespace YaraModel.Cond

/-! ### `mapAt` -/

theorem getD_mapAt {α : Type} (f : α → α) (d : α) (hd : f d = d) :
    ∀ (n m : Nat) (xs : List α), (mapAt f n xs).getD m d = if m = n then f (xs.getD n d) else xs.getD m d
  | n, m, [] => by
    simp only [mapAt, List.getD_nil]
    split <;> simp [hd]
  | 0, 0, x :: xs => by simp [mapAt]
  | 0, m + 1, x :: xs => by simp [mapAt]
  | n + 1, 0, x :: xs => by simp [mapAt]
  | n + 1, m + 1, x :: xs => by
    have := getD_mapAt f d hd n m xs
    simp only [mapAt, List.getD_cons_succ, this]
    by_cases h : m = n <;> simp [h]

/-- `env'` is `env` with the match list of string `n` replaced by one that still answers the tolerated questions -/
structure SameBut (env env' : Env) (n : Nat) (okFound : Bool) (okAt : Int → Bool) : Prop where
  blocks : env'.blocks = env.blocks
  filesize : env'.filesize = env.filesize
  ext : env'.ext = env.ext
  rules : env'.rules = env.rules
  disabled : env'.disabled = env.disabled
  fops : env'.fops = env.fops
  other : ∀ m, m ≠ n → env'.strs.getD m [] = env.strs.getD m []
  found : okFound = true → (env'.strs.getD n []).isEmpty = (env.strs.getD n []).isEmpty
  at_ : ∀ x, okAt x = true → ((env'.strs.getD n []).any fun m => m.1 == x) = ((env.strs.getD n []).any fun m => m.1 == x)

theorem restrictAt_getD (env : Env) (n : Nat) (k : Int) (m : Nat) :
    (restrictAt env n k).strs.getD m [] =
      if m = n then (env.strs.getD n []).filter (fun p => p.1 == k) else env.strs.getD m [] :=
  getD_mapAt _ [] rfl n m env.strs

theorem firstOnly_getD (env : Env) (n m : Nat) :
    (firstOnly env n).strs.getD m [] = if m = n then (env.strs.getD n []).take 1 else env.strs.getD m [] :=
  getD_mapAt _ [] rfl n m env.strs

theorem any_filter_self (ms : List (Int × Int)) (x : Int) :
    ((ms.filter fun m => m.1 == x).any fun m => m.1 == x) = ms.any fun m => m.1 == x := by
  induction ms with
  | nil => rfl
  | cons m ms ih =>
    by_cases hm : (m.1 == x) = true
    · simp [List.filter_cons, hm]
    · simp only [List.filter_cons, hm, Bool.false_eq_true, if_false, List.any_cons, Bool.false_or]
      exact ih

theorem sameBut_restrictAt (env : Env) (n : Nat) (k : Int) :
    SameBut env (restrictAt env n k) n false (fun x => x == k) where
  blocks := rfl
  filesize := rfl
  ext := rfl
  rules := rfl
  disabled := rfl
  fops := rfl
  other := fun m hm => by rw [restrictAt_getD]; simp [hm]
  found := fun h => by cases h
  at_ := fun x hx => by
    have hx' : x = k := by simpa using hx
    subst hx'
    rw [restrictAt_getD]
    simp only [if_true]
    exact any_filter_self _ _

theorem sameBut_firstOnly (env : Env) (n : Nat) : SameBut env (firstOnly env n) n true (fun _ => false) where
  blocks := rfl
  filesize := rfl
  ext := rfl
  rules := rfl
  disabled := rfl
  fops := rfl
  other := fun m hm => by rw [firstOnly_getD]; simp [hm]
  found := fun _ => by
    rw [firstOnly_getD]
    simp only [if_true]
    cases env.strs.getD n [] <;> simp
  at_ := fun x hx => by cases hx

section agree
variable {env env' : Env} {n : Nat} {okFound : Bool} {okAt : Int → Bool} (S : SameBut env env' n okFound okAt)
include S

/-- a reference that cannot denote `n` sees the same matches -/
theorem matchesOf_other (l : LEnv) (cn : Bool) (hcur : l.cur = some n → cn = true) (s : SRef)
    (h : mayBe n cn s = false) : env'.matchesOf l s = env.matchesOf l s := by
  cases s with
  | id m =>
    have hm : m ≠ n := by simpa [mayBe] using h
    simp only [Env.matchesOf]
    exact S.other m hm
  | cur =>
    simp only [mayBe] at h
    simp only [Env.matchesOf]
    cases hc : l.cur with
    | none => rfl
    | some m =>
      have hm : m ≠ n := by
        intro e; subst e
        have := hcur hc; rw [h] at this; cases this
      exact S.other m hm

/-- presence of a reference is preserved when presence tests of `n` are tolerated (or it cannot denote `n`) -/
theorem isEmpty_matchesOf (l : LEnv) (cn : Bool) (hcur : l.cur = some n → cn = true) (s : SRef)
    (h : (!mayBe n cn s || okFound) = true) : (env'.matchesOf l s).isEmpty = (env.matchesOf l s).isEmpty := by
  by_cases hm : mayBe n cn s = false
  · rw [matchesOf_other S l cn hcur s hm]
  · have hok : okFound = true := by
      have : mayBe n cn s = true := by simpa using hm
      simpa [this] using h
    cases s with
    | id m =>
      simp only [Env.matchesOf]
      by_cases e : m = n
      · subst e; exact S.found hok
      · rw [S.other m e]
    | cur =>
      simp only [Env.matchesOf]
      cases hc : l.cur with
      | none => rfl
      | some m =>
        by_cases e : m = n
        · subst e; exact S.found hok
        · show (env'.strs.getD m []).isEmpty = (env.strs.getD m []).isEmpty
          rw [S.other m e]

theorem anyAt_matchesOf (l : LEnv) (s : SRef) (x : Int) (hx : okAt x = true) :
    ((env'.matchesOf l s).any fun m => m.1 == x) = ((env.matchesOf l s).any fun m => m.1 == x) := by
  cases s with
  | id m =>
    simp only [Env.matchesOf]
    by_cases e : m = n
    · subst e; exact S.at_ x hx
    · rw [S.other m e]
  | cur =>
    simp only [Env.matchesOf]
    cases hc : l.cur with
    | none => rfl
    | some m =>
      by_cases e : m = n
      · subst e; exact S.at_ x hx
      · show ((env'.strs.getD m []).any fun p => p.1 == x) = ((env.strs.getD m []).any fun p => p.1 == x)
        rw [S.other m e]

theorem strFound_eq (m : Nat) (h : m ≠ n ∨ okFound = true) : strFound env' m = strFound env m := by
  unfold strFound
  by_cases e : m = n
  · subst e
    rcases h with h | h
    · exact absurd rfl h
    · rw [S.found h]
  · rw [S.other m e]

theorem countFound_eq (set : List Nat) (h : (!set.contains n || okFound) = true) :
    set.countP (strFound env') = set.countP (strFound env) := by
  apply List.countP_congr
  intro m hm
  have : m ≠ n ∨ okFound = true := by
    by_cases e : m = n
    · subst e
      right
      have hc : set.contains m = true := List.contains_iff_mem.mpr hm
      rw [hc] at h
      simpa using h
    · exact Or.inl e
  rw [strFound_eq S m this]

theorem lookupExt_eq (name : String) : lookupExt env' name = lookupExt env name := by
  simp [lookupExt, S.ext]

end agree

/-! ### agreement of `eval` -/

mutual
theorem agree {env env' : Env} {n : Nat} {okFound : Bool} {okAt : Int → Bool} (S : SameBut env env' n okFound okAt) :
    ∀ (e : Expr) (cn : Bool) (l : LEnv), (l.cur = some n → cn = true) → usesOk n okFound okAt cn e = true →
      eval env' l e = eval env l e
  | .int _, _, _, _, _ => by simp only [eval]
  | .flt _, _, _, _, _ => by simp only [eval]
  | .str _, _, _, _, _ => by simp only [eval]
  | .filesize, _, _, _, _ => by simp only [eval, S.filesize]
  | .ext name, _, _, _, _ => by simp only [eval, lookupExt_eq S]
  | .var _, _, _, _, _ => by simp only [eval]
  | .undefOf _, _, _, _, _ => by simp only [eval]
  | .tt, _, _, _, _ => by simp only [eval]
  | .ff, _, _, _, _ => by simp only [eval]
  | .ruleRef _, _, _, _, _ => by simp only [eval, S.rules, S.disabled]
  | .count s, cn, l, hc, h => by
    simp only [usesOk, Bool.not_eq_true'] at h
    simp only [eval, matchesOf_other S l cn hc s h]
  | .countIn s lo hi, cn, l, hc, h => by
    simp only [usesOk, Bool.and_eq_true, Bool.not_eq_true'] at h
    simp only [eval, matchesOf_other S l cn hc s h.1.1, agree S lo cn l hc h.1.2, agree S hi cn l hc h.2]
  | .offset s i, cn, l, hc, h => by
    simp only [usesOk, Bool.and_eq_true, Bool.not_eq_true'] at h
    simp only [eval, matchesOf_other S l cn hc s h.1, agree S i cn l hc h.2]
  | .length s i, cn, l, hc, h => by
    simp only [usesOk, Bool.and_eq_true, Bool.not_eq_true'] at h
    simp only [eval, matchesOf_other S l cn hc s h.1, agree S i cn l hc h.2]
  | .read k e, cn, l, hc, h => by
    simp only [usesOk] at h
    simp only [eval, agree S e cn l hc h, S.blocks]
  | .neg e, cn, l, hc, h => by
    simp only [usesOk] at h
    simp only [eval, S.fops, agree S e cn l hc h]
  | .bnot e, cn, l, hc, h => by
    simp only [usesOk] at h
    simp only [eval, agree S e cn l hc h]
  | .arith op a b, cn, l, hc, h => by
    simp only [usesOk, Bool.and_eq_true] at h
    simp only [eval, S.fops, agree S a cn l hc h.1, agree S b cn l hc h.2]
  | .found s, cn, l, hc, h => by
    simp only [usesOk] at h
    simp only [eval, isEmpty_matchesOf S l cn hc s h]
  | .foundAt s pos, cn, l, hc, h => by
    simp only [usesOk] at h
    by_cases hm : mayBe n cn s = true
    · simp only [hm, if_true] at h
      cases pos with
      | int x =>
        simp only [litOk] at h
        simp only [eval, vFoundAt, anyAt_matchesOf S l s x h]
      | _ => simp [litOk] at h
    · have hm' : mayBe n cn s = false := by simpa using hm
      simp only [hm', Bool.false_eq_true, if_false] at h
      simp only [eval, matchesOf_other S l cn hc s hm', agree S pos cn l hc h]
  | .foundIn s lo hi, cn, l, hc, h => by
    simp only [usesOk, Bool.and_eq_true, Bool.not_eq_true'] at h
    simp only [eval, matchesOf_other S l cn hc s h.1.1, agree S lo cn l hc h.1.2, agree S hi cn l hc h.2]
  | .cmp op a b, cn, l, hc, h => by
    simp only [usesOk, Bool.and_eq_true] at h
    simp only [eval, S.fops, agree S a cn l hc h.1, agree S b cn l hc h.2]
  | .strop op a b, cn, l, hc, h => by
    simp only [usesOk, Bool.and_eq_true] at h
    simp only [eval, agree S a cn l hc h.1, agree S b cn l hc h.2]
  | .matches a re nc, cn, l, hc, h => by
    simp only [usesOk] at h
    simp only [eval, agree S a cn l hc h]
  | .not e, cn, l, hc, h => by
    simp only [usesOk] at h
    simp only [eval, agree S e cn l hc h]
  | .defined e, cn, l, hc, h => by
    simp only [usesOk] at h
    simp only [eval, agree S e cn l hc h]
  | .and a b, cn, l, hc, h => by
    simp only [usesOk, Bool.and_eq_true] at h
    simp only [eval, agree S a cn l hc h.1, agree S b cn l hc h.2]
  | .or a b, cn, l, hc, h => by
    simp only [usesOk, Bool.and_eq_true] at h
    simp only [eval, agree S a cn l hc h.1, agree S b cn l hc h.2]
  | .ofStr q qe set, cn, l, hc, h => by
    simp only [usesOk, Bool.and_eq_true] at h
    simp only [eval, agree S qe cn l hc h.2, countFound_eq S set h.1]
  | .pctStr p set, cn, l, hc, h => by
    simp only [usesOk, Bool.and_eq_true] at h
    simp only [eval, agree S p cn l hc h.2, countFound_eq S set h.1]
  | .ofRules q qe set, cn, l, hc, h => by
    simp only [usesOk] at h
    have hm : env'.ruleMatched = env.ruleMatched := by funext k; simp only [Env.ruleMatched, S.rules, S.disabled]
    simp only [eval, agree S qe cn l hc h, hm]
  | .pctRules p set, cn, l, hc, h => by
    simp only [usesOk] at h
    have hm : env'.ruleMatched = env.ruleMatched := by funext k; simp only [Env.ruleMatched, S.rules, S.disabled]
    simp only [eval, agree S p cn l hc h, hm]
  | .ofStrIn q qe set lo hi, cn, l, hc, h => by
    simp only [usesOk, Bool.and_eq_true, Bool.not_eq_true'] at h
    have hset : ∀ (f : List (Int × Int) → Bool),
        set.countP (fun m => f (env'.strs.getD m [])) = set.countP (fun m => f (env.strs.getD m [])) := by
      intro f
      apply List.countP_congr
      intro m hm
      have : m ≠ n := by
        intro e; subst e
        have := List.contains_iff_mem.mpr hm
        rw [h.1.1.1] at this; cases this
      rw [S.other m this]
    simp only [eval, agree S qe cn l hc h.1.1.2, agree S lo cn l hc h.1.2, agree S hi cn l hc h.2]
    split
    · rename_i a b _ _
      rw [hset (fun ms => ms.any (inRange a b))]
    · rfl
  | .ofStrAt q qe set pos, cn, l, hc, h => by
    simp only [usesOk, Bool.and_eq_true, Bool.not_eq_true'] at h
    have hset : ∀ (f : List (Int × Int) → Bool),
        set.countP (fun m => f (env'.strs.getD m [])) = set.countP (fun m => f (env.strs.getD m [])) := by
      intro f
      apply List.countP_congr
      intro m hm
      have : m ≠ n := by
        intro e; subst e
        have := List.contains_iff_mem.mpr hm
        rw [h.1.1] at this; cases this
      rw [S.other m this]
    simp only [eval, agree S qe cn l hc h.1.2, agree S pos cn l hc h.2]
    split
    · rename_i x _
      rw [hset (fun ms => ms.any fun m => m.1 == x)]
    · rfl
  | .forRange q qe lo hi body, cn, l, hc, h => by
    simp only [usesOk, Bool.and_eq_true] at h
    have hb : ∀ v, eval env' { l with vars := l.vars ++ [v] } body = eval env { l with vars := l.vars ++ [v] } body :=
      fun v => agree S body cn { l with vars := l.vars ++ [v] } hc h.2
    simp only [eval, agree S qe cn l hc h.1.1.1, agree S lo cn l hc h.1.1.2, agree S hi cn l hc h.1.2, hb]
  | .forEnum q qe items body, cn, l, hc, h => by
    simp only [usesOk, Bool.and_eq_true] at h
    have hb : ∀ v, eval env' { l with vars := l.vars ++ [v] } body = eval env { l with vars := l.vars ++ [v] } body :=
      fun v => agree S body cn { l with vars := l.vars ++ [v] } hc h.2
    simp only [eval, agree S qe cn l hc h.1.1, agreeList S items cn l hc h.1.2, hb]
  | .forOf q qe set body, cn, l, hc, h => by
    simp only [usesOk, Bool.and_eq_true] at h
    have hb : ∀ m ∈ set, eval env' { vars := l.vars ++ [.undef], cur := some m } body =
        eval env { vars := l.vars ++ [.undef], cur := some m } body := by
      intro m hm
      apply agree S body (set.contains n) { vars := l.vars ++ [.undef], cur := some m } _ h.2
      intro e
      simp only [Option.some.injEq] at e
      subst e
      exact List.contains_iff_mem.mpr hm
    simp only [eval, agree S qe cn l hc h.1]
    rw [List.map_congr_left hb]
theorem agreeList {env env' : Env} {n : Nat} {okFound : Bool} {okAt : Int → Bool} (S : SameBut env env' n okFound okAt) :
    ∀ (es : List Expr) (cn : Bool) (l : LEnv), (l.cur = some n → cn = true) → usesOkList n okFound okAt cn es = true →
      evalList env' l es = evalList env l es
  | [], _, _, _, _ => by simp only [evalList]
  | e :: es, cn, l, hc, h => by
    simp only [usesOkList, Bool.and_eq_true] at h
    simp only [evalList, agree S e cn l hc h.1, agreeList S es cn l hc h.2]
end

end YaraModel.Cond
