/-
  Algebra of the specification used by the C02 / C03 theorems:
   * counted repeats as path counts (`Cnt`), their concatenation, the emit-table shape `rangeShape`;
   * jumps in byte mode / dot-all as interval arithmetic;
   * one-hole contexts (`Ctx`) with the "before the hole" / "after the hole" relations.
-/
import YaraModel.Lemmas.ReEval
namespace YaraModel.Re

section
variable {fl : Flags} {buf : Bytes}

/-- `k` iterations of `a` with `lo ≤ k ≤ hi` -/
def Cnt (fl : Flags) (buf : Bytes) (a : Re) (lo hi p q : Nat) : Prop :=
  ∃ k, lo ≤ k ∧ k ≤ hi ∧ Path (fun x => a.ends fl buf x) k p q

theorem range_iff_cnt (a : Re) (lo hi : Nat) (g : Bool) (p q : Nat) :
    Re.Matches fl buf (.range a lo hi g) p q ↔ Cnt fl buf a lo hi p q := by
  constructor
  · intro h
    exact path_of_range (fun x y h => (ends_iff_Matches fl buf a x y).2 h) h lo hi rfl
  · rintro ⟨k, h1, h2, hp⟩
    exact range_of_path (fun x y h => (ends_iff_Matches fl buf a x y).1 h) k lo hi p q h1 h2 hp

theorem one_iff_cnt (a : Re) (p q : Nat) : Re.Matches fl buf a p q ↔ Cnt fl buf a 1 1 p q := by
  constructor
  · intro h
    exact ⟨1, Nat.le_refl _, Nat.le_refl _, .cons ((ends_iff_Matches fl buf a p q).2 h) .nil⟩
  · rintro ⟨k, h1, h2, hp⟩
    have : k = 1 := by omega
    subst this
    cases hp with
    | cons hy hp' => rw [hp'.zero_eq]; exact (ends_iff_Matches fl buf a _ _).1 hy

theorem empty_iff_cnt (a : Re) (p q : Nat) : Re.Matches fl buf .empty p q ↔ Cnt fl buf a 0 0 p q := by
  constructor
  · intro h; cases h; exact ⟨0, Nat.le_refl _, Nat.le_refl _, .nil⟩
  · rintro ⟨k, _, h2, hp⟩
    have : k = 0 := by omega
    subst this
    rw [hp.zero_eq]; exact .empty

/-- counted repeats concatenate: e{a,b} e{c,d} = e{a+c,b+d} -/
theorem cnt_cat (a : Re) (l1 h1 l2 h2 p q : Nat) (hl1 : l1 ≤ h1) (hl2 : l2 ≤ h2) :
    (∃ x, Cnt fl buf a l1 h1 p x ∧ Cnt fl buf a l2 h2 x q) ↔ Cnt fl buf a (l1 + l2) (h1 + h2) p q := by
  constructor
  · rintro ⟨x, ⟨k1, a1, b1, p1⟩, ⟨k2, a2, b2, p2⟩⟩
    exact ⟨k1 + k2, by omega, by omega, p1.append p2⟩
  · rintro ⟨k, a1, b1, hp⟩
    -- choose the first part as large as allowed
    have hk1 : ∃ k1 k2, k = k1 + k2 ∧ l1 ≤ k1 ∧ k1 ≤ h1 ∧ l2 ≤ k2 ∧ k2 ≤ h2 := by
      by_cases hc : k - l2 ≤ h1
      · exact ⟨k - l2, l2, by omega, by omega, hc, Nat.le_refl _, hl2⟩
      · exact ⟨h1, k - h1, by omega, hl1, Nat.le_refl _, by omega, by omega⟩
    obtain ⟨k1, k2, rfl, c1, c2, c3, c4⟩ := hk1
    obtain ⟨y, y1, y2⟩ := Path.split k1 hp
    exact ⟨y, ⟨k1, c1, c2, y1⟩, ⟨k2, c3, c4, y2⟩⟩

/-! ### the counted-repeat emit table of re.c (`case RE_NODE_RANGE` of `_yr_re_emit`) at the level of expressions -/

/-- the four flags of the emit table -/
def emitProlog (n : Nat) : Bool := decide (n > 0)
def emitRepeat (n m : Nat) : Bool := decide (m > n + 1) || decide (m > 2)
def emitSplit (n m : Nat) : Bool := decide (m > n)
def emitEpilog (n m : Nat) : Bool := decide (m > n) || decide (m > 1)
/-- `repeat_args.min` / `.max` after the adjustments of the C code -/
def repMin (n m : Nat) : Nat := (if emitProlog n then n - 1 else n) - (if emitSplit n m then 0 else 1)
def repMax (n m : Nat) : Nat := (if emitProlog n then m - 1 else m) - 1

/-- code shape emitted for `e{n,m}`:  prolog `e` | repeat_start/…/repeat_end = `e{min',max'}` | `split; e` = `e?` or plain epilog `e` -/
def rangeShape (a : Re) (n m : Nat) (g : Bool) : Re :=
  .cat (if emitProlog n then a else .empty)
    (.cat (if emitRepeat n m then .range a (repMin n m) (repMax n m) g else .empty)
      (if emitSplit n m then .range a 0 1 g else if emitEpilog n m then a else .empty))

theorem cat_iff (x y : Re) (p q : Nat) :
    Re.Matches fl buf (.cat x y) p q ↔ ∃ t, Re.Matches fl buf x p t ∧ Re.Matches fl buf y t q := by
  constructor
  · intro h; cases h with | cat h1 h2 => exact ⟨_, h1, h2⟩
  · rintro ⟨t, h1, h2⟩; exact .cat h1 h2

theorem rangeShape_iff (a : Re) (n m : Nat) (g : Bool) (hnm : n ≤ m) (p q : Nat) :
    Re.Matches fl buf (rangeShape a n m g) p q ↔ Re.Matches fl buf (.range a n m g) p q := by
  rw [range_iff_cnt]
  unfold rangeShape
  rw [cat_iff]
  -- each of the three sections is a count interval
  have sec1 : ∀ t, Re.Matches fl buf (if emitProlog n then a else .empty) p t ↔
      Cnt fl buf a (if n > 0 then 1 else 0) (if n > 0 then 1 else 0) p t := by
    intro t
    unfold emitProlog
    by_cases h : n > 0
    · simp only [h, decide_true, if_true]; exact one_iff_cnt a p t
    · simp only [h, decide_false, if_false]; exact empty_iff_cnt a p t
  have sec2 : ∀ t u, Re.Matches fl buf (if emitRepeat n m then .range a (repMin n m) (repMax n m) g else .empty) t u ↔
      Cnt fl buf a (if emitRepeat n m then repMin n m else 0) (if emitRepeat n m then repMax n m else 0) t u := by
    intro t u
    by_cases h : emitRepeat n m = true
    · simp only [h, if_true]; exact range_iff_cnt a _ _ g t u
    · simp only [h, if_false]; exact empty_iff_cnt a t u
  have sec3 : ∀ u, Re.Matches fl buf (if emitSplit n m then .range a 0 1 g else if emitEpilog n m then a else .empty) u q ↔
      Cnt fl buf a (if emitSplit n m then 0 else if emitEpilog n m then 1 else 0) (if emitSplit n m then 1 else if emitEpilog n m then 1 else 0) u q := by
    intro u
    by_cases h : emitSplit n m = true
    · simp only [h, if_true]; exact range_iff_cnt a 0 1 g u q
    · by_cases h2 : emitEpilog n m = true
      · simp only [h, h2, if_true, if_false]; exact one_iff_cnt a u q
      · simp only [h, h2, if_false]; exact empty_iff_cnt a u q
  -- arithmetic of the table
  have hsplit : (emitSplit n m = true) ↔ m > n := by simp [emitSplit]
  have hrep : (emitRepeat n m = true) ↔ (m > n + 1 ∨ m > 2) := by simp [emitRepeat]
  have hepi : (emitEpilog n m = true) ↔ (m > n ∨ m > 1) := by simp [emitEpilog]
  have hpro : (emitProlog n = true) ↔ n > 0 := by simp [emitProlog]
  constructor
  · rintro ⟨t, h1, h23⟩
    rw [cat_iff] at h23
    obtain ⟨u, h2, h3⟩ := h23
    obtain ⟨k1, a1, b1, p1⟩ := (sec1 t).1 h1
    obtain ⟨k2, a2, b2, p2⟩ := (sec2 t u).1 h2
    obtain ⟨k3, a3, b3, p3⟩ := (sec3 u).1 h3
    refine ⟨k1 + k2 + k3, ?_, ?_, (p1.append p2).append p3⟩
    · unfold repMin at a2
      by_cases c1 : n > 0 <;> by_cases c2 : emitRepeat n m = true <;> by_cases c3 : emitSplit n m = true <;>
        by_cases c4 : emitEpilog n m = true <;>
        simp only [c1, c2, c3, c4, hpro.2, if_true, if_false] at a1 a2 a3 <;>
        (have := hsplit; have := hrep; have := hepi; simp_all <;> omega)
    · unfold repMax at b2
      by_cases c1 : n > 0 <;> by_cases c2 : emitRepeat n m = true <;> by_cases c3 : emitSplit n m = true <;>
        by_cases c4 : emitEpilog n m = true <;>
        simp only [c1, c2, c3, c4, hpro.2, if_true, if_false] at b1 b2 b3 <;>
        (have := hsplit; have := hrep; have := hepi; simp_all <;> omega)
  · rintro ⟨k, hk1, hk2, hp⟩
    -- split k into the three sections: prolog first, then as many loop iterations as allowed, the rest in the epilog
    let P := if n > 0 then 1 else 0
    let lo2 := if emitRepeat n m then repMin n m else 0
    let hi2 := if emitRepeat n m then repMax n m else 0
    let lo3 := if emitSplit n m then 0 else if emitEpilog n m then 1 else 0
    let hi3 := if emitSplit n m then 1 else if emitEpilog n m then 1 else 0
    have hsum : P + lo2 + lo3 = n ∧ P + hi2 + hi3 = m ∧ lo2 ≤ hi2 ∧ lo3 ≤ hi3 := by
      simp only [P, lo2, hi2, lo3, hi3]
      unfold repMin repMax
      by_cases c1 : n > 0 <;> by_cases c2 : emitRepeat n m = true <;> by_cases c3 : emitSplit n m = true <;>
        by_cases c4 : emitEpilog n m = true <;>
        simp only [c1, c2, c3, c4, hpro.2, if_true, if_false] <;>
        (have := hsplit; have := hrep; have := hepi; simp_all <;> omega)
    obtain ⟨s1, s2, s3, s4⟩ := hsum
    have hc12 : Cnt fl buf a (P + (lo2 + lo3)) (P + (hi2 + hi3)) p q := ⟨k, by omega, by omega, hp⟩
    obtain ⟨t, ht1, ht2⟩ := (cnt_cat a P P (lo2 + lo3) (hi2 + hi3) p q (Nat.le_refl _) (by omega)).2 hc12
    obtain ⟨u, hu1, hu2⟩ := (cnt_cat a lo2 hi2 lo3 hi3 t q s3 s4).2 ht2
    refine ⟨t, (sec1 t).2 ht1, ?_⟩
    rw [cat_iff]
    exact ⟨u, (sec2 t u).2 hu1, (sec3 u).2 hu2⟩

/-! ### jumps in byte mode with dot-all -/
theorem rangeAny_iff (hd : fl.dotall = true) (hw : fl.wide = false) (n m : Nat) (g : Bool) (e s : Nat) :
    Re.Matches fl buf (.rangeAny n m g) e s ↔ ∃ k, n ≤ k ∧ k ≤ m ∧ s = e + k ∧ (k = 0 ∨ s ≤ buf.size) := by
  constructor
  · intro h
    obtain ⟨k, h1, h2, hp⟩ := path_of_rangeAny (g := g) h n m rfl
    have := (path_any_dotall fl buf hd hw k e s).1 hp
    exact ⟨k, h1, h2, this.1, by omega⟩
  · rintro ⟨k, h1, h2, rfl, h3⟩
    exact rangeAny_of_path k n m e (e + k) h1 h2 ((path_any_dotall fl buf hd hw k e (e + k)).2 ⟨rfl, h3⟩)

end

/-! ### one-hole contexts: where an atom sits inside a pattern -/
inductive Ctx where
  | hole
  | catL (c : Ctx) (r : Re)        -- hole in the left operand of a concatenation
  | catR (l : Re) (c : Ctx)        -- hole in the right operand
  | altL (c : Ctx) (r : Re)
  | altR (l : Re) (c : Ctx)
  | plusIn (c : Ctx) (g : Bool)    -- hole in the body of e+
  deriving Repr

def Ctx.fill : Ctx → Re → Re
  | .hole, a => a
  | .catL c r, a => .cat (c.fill a) r
  | .catR l c, a => .cat l (c.fill a)
  | .altL c r, a => .alt (c.fill a) r
  | .altR l c, a => .alt l (c.fill a)
  | .plusIn c g, a => .plus (c.fill a) g

/-- the part of the pattern BEFORE the hole matches `[p, s)` (what the backward code verifies, right to left) -/
def Ctx.Before (fl : Flags) (buf : Bytes) (a : Re) : Ctx → Nat → Nat → Prop
  | .hole, p, s => p = s
  | .catL c _, p, s => c.Before fl buf a p s
  | .catR l c, p, s => ∃ t, Re.Matches fl buf l p t ∧ c.Before fl buf a t s
  | .altL c _, p, s => c.Before fl buf a p s
  | .altR _ c, p, s => c.Before fl buf a p s
  | .plusIn c g, p, s => ∃ t, Re.Matches fl buf (.star (c.fill a) g) p t ∧ c.Before fl buf a t s

/-- the part of the pattern AFTER the hole matches `[e, q)` (what the forward code verifies after the atom) -/
def Ctx.After (fl : Flags) (buf : Bytes) (a : Re) : Ctx → Nat → Nat → Prop
  | .hole, e, q => e = q
  | .catL c r, e, q => ∃ t, c.After fl buf a e t ∧ Re.Matches fl buf r t q
  | .catR _ c, e, q => c.After fl buf a e q
  | .altL c _, e, q => c.After fl buf a e q
  | .altR _ c, e, q => c.After fl buf a e q
  | .plusIn c g, e, q => ∃ t, c.After fl buf a e t ∧ Re.Matches fl buf (.star (c.fill a) g) t q

/-- a match of the whole pattern that runs through the hole -/
def Ctx.Through (fl : Flags) (buf : Bytes) (c : Ctx) (a : Re) (p q : Nat) : Prop :=
  ∃ s e, c.Before fl buf a p s ∧ Re.Matches fl buf a s e ∧ c.After fl buf a e q

section
variable {fl : Flags} {buf : Bytes}

theorem star_trans {a : Re} {g : Bool} {p q r : Nat} (h1 : Re.Matches fl buf (.star a g) p q)
    (h2 : Re.Matches fl buf (.star a g) q r) : Re.Matches fl buf (.star a g) p r := by
  generalize hs : Re.star a g = s at h1
  induction h1 with
  | starNil => cases hs; exact h2
  | starStep hx _ _ ih => cases hs; exact .starStep hx (ih h2 rfl)
  | _ => cases hs

theorem plus_iff_star {a : Re} {g : Bool} {p q : Nat} :
    Re.Matches fl buf (.plus a g) p q ↔ ∃ t1 t2, Re.Matches fl buf (.star a g) p t1 ∧ Re.Matches fl buf a t1 t2 ∧ Re.Matches fl buf (.star a g) t2 q := by
  constructor
  · intro h
    generalize hs : Re.plus a g = s at h
    induction h with
    | plusOne h1 => cases hs; exact ⟨_, _, .starNil, h1, .starNil⟩
    | plusStep h1 _ _ ih =>
      cases hs
      obtain ⟨t1, t2, s1, m, s2⟩ := ih rfl
      exact ⟨_, _, .starNil, h1, star_trans s1 (.starStep m s2)⟩
    | _ => cases hs
  · rintro ⟨t1, t2, h1, hm, h2⟩
    -- first absorb the trailing star, then the leading one
    have tail : ∀ {x y z : Nat}, Re.Matches fl buf a x y → Re.Matches fl buf (.star a g) y z → Re.Matches fl buf (.plus a g) x z := by
      intro x y z hxy hyz
      generalize hs : Re.star a g = s at hyz
      induction hyz generalizing x with
      | starNil => cases hs; exact .plusOne hxy
      | starStep hx _ _ ih => cases hs; exact .plusStep hxy (ih hx rfl)
      | _ => cases hs
    have hp := tail hm h2
    clear h2 hm
    generalize hs : Re.star a g = s at h1
    induction h1 with
    | starNil => cases hs; exact hp
    | starStep hx _ _ ih => cases hs; exact .plusStep hx (ih hp rfl)
    | _ => cases hs

/-- soundness: what is found around an atom is a match of the whole pattern -/
theorem through_sound (c : Ctx) (a : Re) : ∀ (p q : Nat), c.Through fl buf a p q → Re.Matches fl buf (c.fill a) p q := by
  induction c with
  | hole =>
    rintro p q ⟨s, e, hb, hm, ha⟩
    simp only [Ctx.Before, Ctx.After] at hb ha
    subst hb; subst ha; exact hm
  | catL c r ih =>
    rintro p q ⟨s, e, hb, hm, t, ha, hr⟩
    exact .cat (ih p t ⟨s, e, hb, hm, ha⟩) hr
  | catR l c ih =>
    rintro p q ⟨s, e, ⟨t, hl, hb⟩, hm, ha⟩
    exact .cat hl (ih t q ⟨s, e, hb, hm, ha⟩)
  | altL c r ih =>
    rintro p q ⟨s, e, hb, hm, ha⟩
    exact .altL (ih p q ⟨s, e, hb, hm, ha⟩)
  | altR l c ih =>
    rintro p q ⟨s, e, hb, hm, ha⟩
    exact .altR (ih p q ⟨s, e, hb, hm, ha⟩)
  | plusIn c g ih =>
    rintro p q ⟨s, e, ⟨t, hs, hb⟩, hm, u, ha, hs2⟩
    exact plus_iff_star.2 ⟨t, u, hs, ih t u ⟨s, e, hb, hm, ha⟩, hs2⟩

/-- a context without alternation on the path to the hole: every match runs through the hole -/
def Ctx.linear : Ctx → Prop
  | .hole => True
  | .catL c _ => c.linear
  | .catR _ c => c.linear
  | .altL _ _ => False
  | .altR _ _ => False
  | .plusIn c _ => c.linear

theorem through_complete (c : Ctx) (a : Re) (hl : c.linear) : ∀ (p q : Nat),
    Re.Matches fl buf (c.fill a) p q → c.Through fl buf a p q := by
  induction c with
  | hole => intro p q h; exact ⟨p, q, rfl, h, rfl⟩
  | catL c r ih =>
    intro p q h
    cases h with
    | cat h1 h2 =>
      obtain ⟨s, e, hb, hm, ha⟩ := ih hl _ _ h1
      exact ⟨s, e, hb, hm, _, ha, h2⟩
  | catR l c ih =>
    intro p q h
    cases h with
    | cat h1 h2 =>
      obtain ⟨s, e, hb, hm, ha⟩ := ih hl _ _ h2
      exact ⟨s, e, ⟨_, h1, hb⟩, hm, ha⟩
  | altL c r _ => exact absurd hl (by simp [Ctx.linear])
  | altR l c _ => exact absurd hl (by simp [Ctx.linear])
  | plusIn c g ih =>
    intro p q h
    obtain ⟨t1, t2, h1, hm, h2⟩ := plus_iff_star.1 h
    obtain ⟨s, e, hb, hm', ha⟩ := ih hl _ _ hm
    exact ⟨s, e, ⟨t1, h1, hb⟩, hm', t2, ha, h2⟩

/-- atom choice over alternations (the AND/OR atom tree of atoms.c): one atom per way through the pattern -/
inductive Cover : Re → List (Ctx × Re) → Prop
  | leaf (r : Re) : Cover r [(.hole, r)]
  | catL {a b : Re} {L : List (Ctx × Re)} : Cover a L → Cover (.cat a b) (L.map fun (c, x) => (.catL c b, x))
  | catR {a b : Re} {L : List (Ctx × Re)} : Cover b L → Cover (.cat a b) (L.map fun (c, x) => (.catR a c, x))
  | alt {a b : Re} {L1 L2 : List (Ctx × Re)} : Cover a L1 → Cover b L2 →
      Cover (.alt a b) (L1.map (fun (c, x) => (.altL c b, x)) ++ L2.map (fun (c, x) => (.altR a c, x)))
  | plus {a : Re} {g : Bool} {L : List (Ctx × Re)} : Cover a L → Cover (.plus a g) (L.map fun (c, x) => (.plusIn c g, x))

theorem cover_fill {r : Re} {L : List (Ctx × Re)} (h : Cover r L) : ∀ c x, (c, x) ∈ L → c.fill x = r := by
  induction h with
  | leaf r => intro c x hm; simp at hm; obtain ⟨rfl, rfl⟩ := hm; rfl
  | catL _ ih =>
    intro c x hm
    simp only [List.mem_map] at hm
    obtain ⟨⟨c', x'⟩, hm', he⟩ := hm
    cases he; simp [Ctx.fill, ih c' x' hm']
  | catR _ ih =>
    intro c x hm
    simp only [List.mem_map] at hm
    obtain ⟨⟨c', x'⟩, hm', he⟩ := hm
    cases he; simp [Ctx.fill, ih c' x' hm']
  | alt _ _ ih1 ih2 =>
    intro c x hm
    simp only [List.mem_append, List.mem_map] at hm
    rcases hm with ⟨⟨c', x'⟩, hm', he⟩ | ⟨⟨c', x'⟩, hm', he⟩
    · cases he; simp [Ctx.fill, ih1 c' x' hm']
    · cases he; simp [Ctx.fill, ih2 c' x' hm']
  | plus _ ih =>
    intro c x hm
    simp only [List.mem_map] at hm
    obtain ⟨⟨c', x'⟩, hm', he⟩ := hm
    cases he; simp [Ctx.fill, ih c' x' hm']

theorem cover_complete {r : Re} {L : List (Ctx × Re)} (h : Cover r L) : ∀ (p q : Nat),
    Re.Matches fl buf r p q → ∃ c x, (c, x) ∈ L ∧ c.Through fl buf x p q := by
  induction h with
  | leaf r => intro p q hm; exact ⟨.hole, r, by simp, p, q, rfl, hm, rfl⟩
  | @catL a b L hc ih =>
    intro p q hm
    cases hm with
    | cat h1 h2 =>
      obtain ⟨c, x, hin, s, e, hb, hx, ha⟩ := ih _ _ h1
      exact ⟨.catL c b, x, List.mem_map.2 ⟨(c, x), hin, rfl⟩, s, e, hb, hx, _, ha, h2⟩
  | @catR a b L hc ih =>
    intro p q hm
    cases hm with
    | cat h1 h2 =>
      obtain ⟨c, x, hin, s, e, hb, hx, ha⟩ := ih _ _ h2
      exact ⟨.catR a c, x, List.mem_map.2 ⟨(c, x), hin, rfl⟩, s, e, ⟨_, h1, hb⟩, hx, ha⟩
  | @alt a b L1 L2 _ _ ih1 ih2 =>
    intro p q hm
    cases hm with
    | altL h1 =>
      obtain ⟨c, x, hin, s, e, hb, hx, ha⟩ := ih1 _ _ h1
      exact ⟨.altL c b, x, List.mem_append_left _ (List.mem_map.2 ⟨(c, x), hin, rfl⟩), s, e, hb, hx, ha⟩
    | altR h1 =>
      obtain ⟨c, x, hin, s, e, hb, hx, ha⟩ := ih2 _ _ h1
      exact ⟨.altR a c, x, List.mem_append_right _ (List.mem_map.2 ⟨(c, x), hin, rfl⟩), s, e, hb, hx, ha⟩
  | @plus a g L hc ih =>
    intro p q hm
    obtain ⟨t1, t2, h1, hmid, h2⟩ := plus_iff_star.1 hm
    obtain ⟨c, x, hin, s, e, hb, hx, ha⟩ := ih _ _ hmid
    have hfill : c.fill x = a := cover_fill hc c x hin
    refine ⟨.plusIn c g, x, List.mem_map.2 ⟨(c, x), hin, rfl⟩, s, e, ⟨t1, ?_, hb⟩, hx, t2, ha, ?_⟩
    · rw [hfill]; exact h1
    · rw [hfill]; exact h2

end

end YaraModel.Re
