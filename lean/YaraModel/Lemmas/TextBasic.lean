/- helper lemmas for Thm/C01.lean (windows, widening, case combinations, atom membership) -/
import YaraModel.Model.TextScan
namespace YaraModel.Text

theorem window_eq_some {buf : Bytes} {o n : Nat} {w : Bytes} :
    window buf o n = some w ↔ o + n ≤ buf.length ∧ w = (buf.drop o).take n := by
  unfold window
  split
  · simp_all [eq_comm]
  · simp; omega

theorem window_sub {buf : Bytes} {o n : Nat} {w : Bytes} (h : window buf o n = some w) (i k : Nat)
    (hik : i + k ≤ n) : window buf (o + i) k = some ((w.drop i).take k) := by
  rw [window_eq_some] at h ⊢
  obtain ⟨hl, rfl⟩ := h
  refine ⟨by omega, ?_⟩
  rw [List.drop_take, List.drop_drop, List.take_take]
  congr 1
  omega

theorem widen_length (s : Bytes) : (widen s).length = 2 * s.length := by
  induction s with
  | nil => rfl
  | cons c t ih => simp [widen, ih]; omega

theorem widen_drop (s : Bytes) (i : Nat) : (widen s).drop (2 * i) = widen (s.drop i) := by
  induction i generalizing s with
  | zero => simp
  | succ n ih =>
    cases s with
    | nil => simp [widen]
    | cons c t =>
      have : 2 * (n + 1) = 2 * n + 2 := by omega
      rw [this]
      simp [widen, ih]

theorem widen_take (s : Bytes) (i : Nat) : (widen s).take (2 * i) = widen (s.take i) := by
  induction i generalizing s with
  | zero => simp [widen]
  | succ n ih =>
    cases s with
    | nil => simp [widen]
    | cons c t =>
      have : 2 * (n + 1) = 2 * n + 2 := by omega
      rw [this]
      simp [widen, ih]


def sub4 (e : Bytes) (i : Nat) : Bytes := (e.drop i).take 4

theorem window_sub4 {buf e e' : Bytes} {o : Nat} (h : window buf o e.length = some e') (i : Nat) (hi : i ≤ e.length) :
    window buf (o + i) (sub4 e' i).length = some (sub4 e' i) := by
  have hlen : e'.length = e.length := by
    rw [window_eq_some] at h; rw [h.2]; simp; omega
  have := window_sub h i (sub4 e' i).length (by simp [sub4, hlen]; omega)
  rw [this]
  simp [sub4]

theorem sub4_map (f : UInt8 → UInt8) (e : Bytes) (i : Nat) : sub4 (e.map f) i = (sub4 e i).map f := by
  simp [sub4, List.map_drop, List.map_take]

theorem sub4_widen (s : Bytes) (w : Nat) : sub4 (widen s) (2 * w) = (widen (sub4 s w)).take 4 := by
  unfold sub4
  rw [widen_drop]
  have h8 : widen ((s.drop w).take 4) = (widen (s.drop w)).take (2 * 4) := (widen_take _ 4).symm
  rw [h8, List.take_take]
  simp

theorem xorKeyAt_some {pat buf : Bytes} {o : Nat} {k : UInt8} (h : xorKeyAt pat buf o = some k) :
    window buf o pat.length = some (pat.map (· ^^^ k)) := by
  unfold xorKeyAt at h
  split at h
  · rename_i p0 pt w0 wt hw
    split at h
    · rename_i heq
      have hk : p0 ^^^ w0 = k := by injection h
      rw [hk] at heq
      have := eq_of_beq heq
      rw [hw, this]
    · cases h
  · cases h

theorem mem_keys {lo hi k : UInt8} (h : inRange (lo, hi) k = true) : k ∈ keys lo hi := by
  unfold keys
  rw [List.mem_filterMap]
  refine ⟨k.toNat, ?_, ?_⟩
  · simp; exact k.toNat_lt
  · simp [inRange] at h
    simp [h]


theorem lower_eq_cases (c c' : UInt8) (h : lower c' = lower c) :
    c' = c ∨ (isLetter c = true ∧ c' = swapCase c) := by
  have hc := c.toNat_lt
  have hc' := c'.toNat_lt
  simp only [lower, swapCase, isLetter, UInt8.le_iff_toNat_le, ← UInt8.toNat_inj, Bool.or_eq_true, Bool.and_eq_true, decide_eq_true_eq] at *
  split at h <;> split at h <;> (try split) <;> (try split) <;>
    simp only [UInt8.toNat_add, UInt8.toNat_sub, UInt8.toNat_ofNat] at * <;> omega

theorem mem_caseCombos : ∀ (bs bs' : Bytes), bs'.map lower = bs.map lower → bs' ∈ caseCombos bs
  | [], [], _ => by simp [caseCombos]
  | [], _ :: _, h => by simp at h
  | _ :: _, [], h => by simp at h
  | c :: t, c' :: t', h => by
      simp only [List.map_cons, List.cons.injEq] at h
      obtain ⟨hc, ht⟩ := h
      have ih := mem_caseCombos t t' ht
      rcases lower_eq_cases c c' hc with rfl | ⟨hl, rfl⟩
      · simp only [caseCombos]; split <;> simp [ih]
      · simp [caseCombos, hl, ih]

def l0 (w : Nat) (m : Mods) (s : Bytes) : List Atom :=
  if m.wide then (if m.ascii then [baseAtom w s, wideOf (baseAtom w s)] else [wideOf (baseAtom w s)]) else [baseAtom w s]

theorem mem_atomsOf_plain {w : Nat} {m : Mods} {s : Bytes} {a : Atom} (h0 : a ∈ l0 w m s)
    (hn : m.nocase = false) (hx : m.xor = none) : a ∈ atomsOf w m s := by
  simp only [atomsOf, hn, hx]; exact h0

theorem mem_atomsOf_nocase {w : Nat} {m : Mods} {s : Bytes} {a : Atom} (h0 : a ∈ l0 w m s) (bs' : Bytes)
    (hb : bs'.map lower = a.bytes.map lower)
    (hn : m.nocase = true) (hx : m.xor = none) : ⟨bs', a.backtrack⟩ ∈ atomsOf w m s := by
  simp only [atomsOf, hn, hx, if_true]
  rw [List.mem_flatMap]
  exact ⟨a, h0, List.mem_map.mpr ⟨bs', mem_caseCombos _ _ hb, rfl⟩⟩

theorem mem_atomsOf_xor {w : Nat} {m : Mods} {s : Bytes} {a : Atom} (h0 : a ∈ l0 w m s) (lo hi k : UInt8)
    (hn : m.nocase = false) (hx : m.xor = some (lo, hi)) (hk : k ∈ keys lo hi) :
    ⟨a.bytes.map (· ^^^ k), a.backtrack⟩ ∈ atomsOf w m s := by
  simp only [atomsOf, hn, hx]
  rw [List.mem_flatMap]
  exact ⟨a, h0, List.mem_map.mpr ⟨k, hk, rfl⟩⟩

theorem mem_ite_singleton {α : Type} {c : Bool} {x v : α} (h : v ∈ (if c = true then [x] else [])) : c = true ∧ v = x := by
  cases c <;> simp_all


end YaraModel.Text
