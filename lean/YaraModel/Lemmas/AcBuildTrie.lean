/- Aho-Corasick construction, helper lemmas 2: `yr_ac_add_string` keeps the trie invariant and the per-state match lists -/
import YaraModel.Lemmas.AcBuildBase
namespace YaraModel.AC.Build
open YaraModel.Text YaraModel.AC

theorem st_push (A : Auto) (ns : State) (j : Nat) :
    ({ A with states := A.states.push ns } : Auto).st j = if j = A.states.size then ns else A.st j := by
  unfold Auto.st
  simp only [Array.getD_eq_getD_getElem?, Array.getElem?_push]
  split <;> rfl

theorem createState_size (A : Auto) (s : Nat) (c : UInt8) : (createState A s c).1.states.size = A.states.size + 1 := by
  simp [createState]

theorem createState_snd (A : Auto) (s : Nat) (c : UInt8) : (createState A s c).2 = A.states.size := rfl

theorem createState_pool (A : Auto) (s : Nat) (c : UInt8) : (createState A s c).1.pool = A.pool := rfl

theorem createState_new (A : Auto) (s : Nat) (c : UInt8) (hs : s < A.states.size) :
    (createState A s c).1.st A.states.size =
      { input := c, depth := (A.st s).depth + 1, path := (A.st s).path ++ [c] } := by
  unfold createState
  simp only
  rw [st_modify_ne _ _ _ _ (by omega), st_push]
  simp

theorem createState_parent (A : Auto) (s : Nat) (c : UInt8) (hs : s < A.states.size) :
    (createState A s c).1.st s = { A.st s with children := A.states.size :: (A.st s).children } := by
  unfold createState
  simp only
  rw [st_modify_self _ _ _ (by simp; omega), st_push]
  simp [Nat.ne_of_lt hs]

theorem createState_other (A : Auto) (s : Nat) (c : UInt8) (j : Nat) (h1 : j ≠ A.states.size) (h2 : j ≠ s) :
    (createState A s c).1.st j = A.st j := by
  unfold createState
  simp only
  rw [st_modify_ne _ _ _ _ h2, st_push]
  simp [h1]

/-- everything but the children list of an old state is untouched -/
theorem createState_old (A : Auto) (s : Nat) (c : UInt8) (hs : s < A.states.size) (j : Nat) (h1 : j ≠ A.states.size) :
    ((createState A s c).1.st j).input = (A.st j).input ∧ ((createState A s c).1.st j).depth = (A.st j).depth ∧
    ((createState A s c).1.st j).path = (A.st j).path ∧ ((createState A s c).1.st j).matchesRef = (A.st j).matchesRef ∧
    ((createState A s c).1.st j).children = if j = s then A.states.size :: (A.st j).children else (A.st j).children := by
  by_cases h2 : j = s
  · subst h2
    rw [createState_parent A j c hs]
    simp
  · rw [createState_other A s c j h1 h2]
    simp [h2]

theorem createState_trie {A : Auto} (hT : Trie A) {s : Nat} {c : UInt8} (hs : s < A.states.size)
    (hno : ∀ ch ∈ (A.st s).children, (A.st ch).input ≠ c) : Trie (createState A s c).1 := by
  have hsz := createState_size A s c
  have hnew := createState_new A s c hs
  have hold := createState_old A s c hs
  have hn0 : 0 ≠ A.states.size := Nat.ne_of_lt hT.size_pos
  constructor
  · rw [hsz]; omega
  · rw [(hold 0 hn0).2.2.1]; exact hT.root_path
  · intro s' hs' ch hch
    rw [hsz] at hs' ⊢
    by_cases e : s' = A.states.size
    · rw [e, hnew] at hch; simp at hch
    · have hs'' : s' < A.states.size := by omega
      rw [(hold s' e).2.2.2.2] at hch
      by_cases e2 : s' = s
      · rw [if_pos e2] at hch
        rcases List.mem_cons.mp hch with h | h
        · subst h; omega
        · have := hT.child_lt s' hs'' ch h; omega
      · rw [if_neg e2] at hch
        have := hT.child_lt s' hs'' ch hch; omega
  · intro s' hs' ch hch
    rw [hsz] at hs'
    by_cases e : s' = A.states.size
    · rw [e, hnew] at hch; simp at hch
    · have hs'' : s' < A.states.size := by omega
      rw [(hold s' e).2.2.2.2] at hch
      rw [(hold s' e).2.2.1]
      have oldcase : ch ∈ (A.st s').children →
          ((createState A s c).1.st ch).path = (A.st s').path ++ [((createState A s c).1.st ch).input] := by
        intro h
        have hlt := hT.child_lt s' hs'' ch h
        have hne : ch ≠ A.states.size := by omega
        rw [(hold ch hne).2.2.1, (hold ch hne).1]
        exact hT.child_path s' hs'' ch h
      by_cases e2 : s' = s
      · rw [if_pos e2] at hch
        rcases List.mem_cons.mp hch with h | h
        · subst h; rw [hnew, e2]
        · exact oldcase h
      · rw [if_neg e2] at hch
        exact oldcase hch
  · intro s' hs'
    rw [hsz] at hs'
    by_cases e : s' = A.states.size
    · rw [e, hnew]; simp [hT.depth_eq s hs]
    · rw [(hold s' e).2.1, (hold s' e).2.2.1]
      exact hT.depth_eq s' (by omega)
  · intro s' hs'
    rw [hsz] at hs'
    by_cases e : s' = A.states.size
    · rw [e, hnew]; simp
    · have hs'' : s' < A.states.size := by omega
      rw [(hold s' e).2.2.2.2]
      have oldpw : (A.st s').children.Pairwise
          (fun a b => ((createState A s c).1.st a).input ≠ ((createState A s c).1.st b).input) := by
        have hp := hT.inputs_nodup s' hs''
        have hmem : ∀ x ∈ (A.st s').children, x ≠ A.states.size := fun x hx => by
          have := hT.child_lt s' hs'' x hx; omega
        refine List.Pairwise.imp_of_mem ?_ hp
        intro a b ha hb hab
        rw [(hold a (hmem a ha)).1, (hold b (hmem b hb)).1]
        exact hab
      by_cases e2 : s' = s
      · rw [if_pos e2]
        rw [List.pairwise_cons]
        refine ⟨?_, oldpw⟩
        intro b hb
        have hlt := hT.child_lt s' hs'' b hb
        have hne : b ≠ A.states.size := by omega
        rw [hnew, (hold b hne).1]
        simp only
        rw [e2] at hb
        exact fun h => hno b hb h.symm
      · rw [if_neg e2]; exact oldpw
  · intro ch h0 hch
    rw [hsz] at hch
    by_cases e : ch = A.states.size
    · refine ⟨s, by rw [hsz]; omega, ?_⟩
      rw [(hold s (by omega)).2.2.2.2, if_pos rfl, e]
      exact List.mem_cons_self
    · obtain ⟨p, hp1, hp2⟩ := hT.has_parent ch h0 (by omega)
      refine ⟨p, by rw [hsz]; omega, ?_⟩
      rw [(hold p (by omega)).2.2.2.2]
      split
      · exact List.mem_cons_of_mem _ hp2
      · exact hp2
  · have key : ∀ j, j < A.states.size → (A.st s).path ++ [c] ≠ (A.st j).path := by
      intro j hj h
      have := hT.child_of_path hs hj h.symm
      exact hno j this.1 this.2
    intro i j hi hj hp
    rw [hsz] at hi hj
    by_cases ei : i = A.states.size
    · by_cases ej : j = A.states.size
      · rw [ei, ej]
      · exfalso
        rw [ei, hnew, (hold j ej).2.2.1] at hp
        exact key j (by omega) hp
    · by_cases ej : j = A.states.size
      · exfalso
        rw [ej, hnew, (hold i ei).2.2.1] at hp
        exact key i (by omega) hp.symm
      · rw [(hold i ei).2.2.1, (hold j ej).2.2.1] at hp
        exact hT.path_inj i j (by omega) (by omega) hp

/-- `B` is `A` with more states: old states keep path and match list, new states have no matches -/
structure Ext (A B : Auto) : Prop where
  size_le : A.states.size ≤ B.states.size
  pool_eq : B.pool = A.pool
  old : ∀ j, j < A.states.size → (B.st j).path = (A.st j).path ∧ (B.st j).matchesRef = (A.st j).matchesRef
  new : ∀ j, A.states.size ≤ j → (B.st j).matchesRef = 0
  slot0 : 0 < A.states.size → (B.st 0).slot = (A.st 0).slot

theorem Ext.refl (A : Auto) : Ext A A :=
  ⟨Nat.le_refl _, rfl, fun _ _ => ⟨rfl, rfl⟩, fun j hj => by rw [st_default A j hj]; rfl, fun _ => rfl⟩

theorem Ext.trans {A B C : Auto} (h1 : Ext A B) (h2 : Ext B C) : Ext A C := by
  refine ⟨Nat.le_trans h1.size_le h2.size_le, by rw [h2.pool_eq, h1.pool_eq], ?_, ?_, ?_⟩
  rotate_left 2
  · intro h0
    rw [h2.slot0 (Nat.lt_of_lt_of_le h0 h1.size_le), h1.slot0 h0]
  · intro j hj
    have a := h1.old j hj
    have b := h2.old j (Nat.lt_of_lt_of_le hj h1.size_le)
    exact ⟨b.1.trans a.1, b.2.trans a.2⟩
  · intro j hj
    by_cases h : j < B.states.size
    · rw [(h2.old j h).2]; exact h1.new j hj
    · exact h2.new j (by omega)

theorem createState_ext (A : Auto) (s : Nat) (c : UInt8) (hs : s < A.states.size) : Ext A (createState A s c).1 := by
  refine ⟨by rw [createState_size]; omega, rfl, ?_, ?_, ?_⟩
  rotate_left 2
  · intro h0
    by_cases e : 0 = s
    · subst e; rw [createState_parent A 0 c hs]
    · rw [createState_other A s c 0 (by omega) e]
  · intro j hj
    have := createState_old A s c hs j (by omega)
    exact ⟨this.2.2.1, this.2.2.2.1⟩
  · intro j hj
    by_cases e : j = A.states.size
    · rw [e, createState_new A s c hs]
    · rw [createState_other A s c j e (by omega), st_default A j hj]; rfl

theorem walk_spec {A : Auto} (hT : Trie A) {s : Nat} (hs : s < A.states.size) (bytes : Bytes) :
    Trie (walk A s bytes).1 ∧ Ext A (walk A s bytes).1 ∧ (walk A s bytes).2 < (walk A s bytes).1.states.size ∧
    ((walk A s bytes).1.st (walk A s bytes).2).path = (A.st s).path ++ bytes := by
  induction bytes generalizing A s with
  | nil => exact ⟨hT, Ext.refl A, hs, by simp [walk]⟩
  | cons c rest ih =>
    unfold walk
    cases h : nextState A s c with
    | some n =>
      simp only
      obtain ⟨hn, hi⟩ := nextState_some h
      have hlt := hT.child_lt s hs n hn
      have := ih hT hlt.2
      refine ⟨this.1, this.2.1, this.2.2.1, ?_⟩
      rw [this.2.2.2, hT.child_path s hs n hn, hi]
      simp
    | none =>
      simp only
      have hno := nextState_none h
      have hT' := createState_trie hT hs hno
      have hlt : (createState A s c).2 < (createState A s c).1.states.size := by
        rw [createState_snd, createState_size]; omega
      have := ih hT' hlt
      refine ⟨this.1, (createState_ext A s c hs).trans this.2.1, this.2.2.1, ?_⟩
      rw [this.2.2.2, createState_snd, createState_new A s c hs]
      simp

/-! ### the state after `yr_ac_add_string` for a list of atoms -/

structure P1 (A : Auto) (atoms : List (Nat × Atom)) : Prop where
  trie : Trie A
  pool_size : A.pool.size = atoms.length
  pool_info : ∀ (e : Nat) (a : Nat × Atom), atoms[e]? = some a → ∃ nx, A.pool[e]? = some (a.1, a.2.bytes.length + a.2.backtrack, nx)
  atoms_in : ∀ a ∈ atoms, ∃ s, s < A.states.size ∧ (A.st s).path = a.2.bytes
  chains : ∀ s, s < A.states.size → ChainSeg A.pool (A.st s).matchesRef (ownIdx atoms (A.st s).path) 0
  root_slot : (A.st 0).slot = 0

theorem poolNextAt_push (pool : Array (Nat × Nat × Nat)) (x : Nat × Nat × Nat) (e : Nat) (h : e < pool.size) :
    poolNextAt (pool.push x) e = poolNextAt pool e := by
  unfold poolNextAt
  simp only [Array.getD_eq_getD_getElem?, Array.getElem?_push]
  simp [Nat.ne_of_lt h]

theorem ChainSeg.lt_size {pool : Array (Nat × Nat × Nat)} {r tl : Nat} {l : List Nat} (h : ChainSeg pool r l tl) :
    ∀ e ∈ l, e < pool.size := by
  induction l generalizing r with
  | nil => intro e he; cases he
  | cons x l ih =>
    simp only [ChainSeg] at h
    intro e he
    rcases List.mem_cons.mp he with rfl | he
    · exact h.2.1
    · exact ih h.2.2 e he

theorem ChainSeg.push {pool : Array (Nat × Nat × Nat)} {r tl : Nat} {l : List Nat} (h : ChainSeg pool r l tl)
    (x : Nat × Nat × Nat) : ChainSeg (pool.push x) r l tl :=
  h.congr (by simp) (fun e he => poolNextAt_push pool x e (h.lt_size e he))

theorem P1_empty : P1 empty [] := by
  have hst : ∀ j, empty.st j = default := by
    intro j
    unfold Auto.st empty
    simp only [Array.getD_eq_getD_getElem?]
    cases j with
    | zero => rfl
    | succ j => rfl
  refine ⟨⟨by simp [empty], by rw [hst]; rfl, ?_, ?_, ?_, ?_, ?_, ?_⟩, rfl, ?_, ?_, ?_, by rw [hst]; rfl⟩
  · intro s _ c hc; rw [hst] at hc; cases hc
  · intro s _ c hc; rw [hst] at hc; cases hc
  · intro s _; rw [hst]; rfl
  · intro s _; rw [hst]; exact List.Pairwise.nil
  · intro c h0 hc; simp [empty] at hc; omega
  · intro i j hi hj _; simp [empty] at hi hj; omega
  · intro e a h; simp at h
  · intro a ha; cases ha
  · intro s _; rw [hst]; simp [ownIdx, ChainSeg]; rfl

theorem addAtom_P1 {A : Auto} {atoms : List (Nat × Atom)} (h : P1 A atoms) (a : Nat × Atom) :
    P1 (addAtom A a) (atoms ++ [a]) := by
  obtain ⟨hT1, hE, hs, hp⟩ := walk_spec h.trie h.trie.size_pos a.2.bytes
  rw [h.trie.root_path, List.nil_append] at hp
  unfold addAtom
  simp only
  generalize hw : walk A 0 a.2.bytes = w at hT1 hE hs hp
  obtain ⟨A1, s⟩ := w
  simp only at hT1 hE hs hp ⊢
  -- the state after pushing the pool entry and re-heading the list of `s`
  let A2 : Auto := { A1 with pool := A1.pool.push (a.1, (A1.st s).depth + a.2.backtrack, (A1.st s).matchesRef) }
  have hst2 : ∀ j, A2.st j = A1.st j := fun j => rfl
  have hsz2 : A2.states.size = A1.states.size := rfl
  have hB : ∀ j, ((A2.modify s fun x => { x with matchesRef := A1.pool.size + 1 }).st j) =
      if j = s then { A1.st j with matchesRef := A1.pool.size + 1 } else A1.st j := by
    intro j
    rw [st_modify]
    by_cases e : j = s
    · subst e; simp [hsz2, hs, hst2]
    · simp [e, hst2]
  have hpool : (A2.modify s fun x => { x with matchesRef := A1.pool.size + 1 }).pool =
      A1.pool.push (a.1, (A1.st s).depth + a.2.backtrack, (A1.st s).matchesRef) := rfl
  have hpsz : A1.pool.size = atoms.length := by rw [hE.pool_eq]; exact h.pool_size
  -- new states carry no atom yet
  have hnewown : ∀ j, A.states.size ≤ j → j < A1.states.size → ownIdx atoms (A1.st j).path = [] := by
    intro j hj1 hj2
    apply List.eq_nil_iff_forall_not_mem.mpr
    intro e he
    obtain ⟨b, hb, hbp⟩ := mem_ownIdx.mp he
    obtain ⟨i, hi1, hi2⟩ := h.atoms_in b (List.mem_of_getElem? hb)
    have : i = j := hT1.path_inj i j (Nat.lt_of_lt_of_le hi1 hE.size_le) hj2 (by rw [(hE.old i hi1).1, hi2, hbp])
    omega
  have hchain1 : ∀ j, j < A1.states.size → ChainSeg A1.pool (A1.st j).matchesRef (ownIdx atoms (A1.st j).path) 0 := by
    intro j hj
    by_cases e : j < A.states.size
    · rw [(hE.old j e).1, (hE.old j e).2, hE.pool_eq]; exact h.chains j e
    · rw [hnewown j (by omega) hj, hE.new j (by omega)]; simp [ChainSeg]
  constructor
  · refine hT1.congr (by simp) ?_
    intro i
    unfold shape
    rw [hB]
    split <;> rfl
  · rw [hpool]; simp [hpsz]
  · intro e b hb
    rw [hpool, Array.getElem?_push]
    by_cases he : e = A1.pool.size
    · rw [if_pos he]
      rw [he, hpsz, List.getElem?_append_right (Nat.le_refl _)] at hb
      simp at hb
      subst hb
      refine ⟨(A1.st s).matchesRef, ?_⟩
      rw [hT1.depth_eq s hs, hp]
    · rw [if_neg he]
      have hlt : e < atoms.length := by
        have := (List.getElem?_eq_some_iff.mp hb).1
        simp at this; omega
      rw [List.getElem?_append_left hlt] at hb
      rw [hE.pool_eq]
      exact h.pool_info e b hb
  · intro b hb
    rcases List.mem_append.mp hb with hb | hb
    · obtain ⟨i, hi1, hi2⟩ := h.atoms_in b hb
      refine ⟨i, by simp; exact Nat.lt_of_lt_of_le hi1 hE.size_le, ?_⟩
      rw [hB]
      split
      · rename_i e; rw [← hi2, ← (hE.old i hi1).1]
      · rw [← hi2, ← (hE.old i hi1).1]
    · simp at hb
      subst hb
      refine ⟨s, by simp; exact hs, ?_⟩
      rw [hB, if_pos rfl]; exact hp
  · intro j hj
    simp at hj
    rw [hpool, hB, ownIdx_snoc]
    by_cases e : j = s
    · subst e
      rw [if_pos rfl]
      simp only
      rw [if_pos hp.symm]
      simp only [ChainSeg]
      refine ⟨by rw [hpsz], by simp [hpsz], ?_⟩
      have : poolNextAt (A1.pool.push (a.1, (A1.st j).depth + a.2.backtrack, (A1.st j).matchesRef)) atoms.length =
          (A1.st j).matchesRef := by
        unfold poolNextAt
        rw [← hpsz]
        simp [Array.getD_eq_getD_getElem?]
      rw [this]
      exact (hchain1 j hj).push _
    · rw [if_neg e]
      have hne : ¬ a.2.bytes = (A1.st j).path := by
        intro hh
        exact e (hT1.path_inj j s hj hs (by rw [← hh, hp]))
      rw [if_neg hne]
      exact (hchain1 j hj).push _
  · rw [hB]
    have h0 : (A1.st 0).slot = 0 := by rw [hE.slot0 h.trie.size_pos]; exact h.root_slot
    split
    · exact h0
    · exact h0

theorem foldl_addAtom_P1 (rest : List (Nat × Atom)) : ∀ (done : List (Nat × Atom)) (A : Auto), P1 A done →
    P1 (rest.foldl addAtom A) (done ++ rest) := by
  induction rest with
  | nil => intro done A h; simpa using h
  | cons a rest ih =>
    intro done A h
    have := ih (done ++ [a]) (addAtom A a) (addAtom_P1 h a)
    simpa [List.append_assoc] using this

/-- the trie and the per-state match lists after all `yr_ac_add_string` calls -/
theorem addAtoms_P1 (atoms : List (Nat × Atom)) : P1 (addAtoms atoms) atoms := by
  have := foldl_addAtom_P1 atoms [] empty P1_empty
  simpa [addAtoms] using this

end YaraModel.AC.Build
