/-
  Preservation of the queue invariant by each of the 17 atomic actions (D11), and by reachability.
-/
import YaraModel.Lemmas.QueueInv
namespace YaraModel.Queue
variable {α : Type}
set_option linter.unusedVariables false

theorem ex_isZ (pc : CPc α) : ex pc = 0 ∨ isZ pc = true := by
  cases pc with
  | returned r => cases r <;> simp [ex, isZ]
  | _ => simp [ex, isZ]

theorem ex_zero_of_notFin {c : Cfg} {n : Nat} {input : List α} {s : State α} (h : Inv c n input s) (hp : pFin s.ppc = false) :
    wsum ex s.cs = 0 := by
  apply wsum_eq_zero
  intro x hx
  obtain ⟨i, hi, rfl⟩ := List.getElem_of_mem hx
  have hi' : s.cs[i]? = some s.cs[i] := List.getElem?_eq_getElem hi
  rcases ex_isZ s.cs[i] with h0 | hz
  · exact h0
  · have := (h.seenEmpty i _ hi' hz).2
    rw [hp] at this; cases this

/-- close every goal that is literally a field of the old invariant (unchanged components are defeq) -/
macro "old_fields" h:ident : tactic => `(tactic| all_goals try (first
  | exact ($h).len | exact ($h).lockP | exact ($h).lockC | exact ($h).lockR | exact ($h).head_lt | exact ($h).qlen | exact ($h).tail_eq
  | exact ($h).ringq | exact ($h).wrote | exact ($h).reading | exact ($h).haveRead | exact ($h).unusedEq | exact ($h).usedEq
  | exact ($h).fink | exact ($h).seenEmpty | exact ($h).finTodo | exact ($h).inputEq | exact ($h).putEq | exact ($h).takenPerm))



macro "prod_close" h:ident : tactic => `(tactic| all_goals (
        have a1 := ($h).lockP; have a2 := ($h).qlen; have a3 := ($h).unusedEq; have a4 := ($h).usedEq; have a5 := ($h).fink
        have a6 := ($h).finTodo; have a7 := ($h).inputEq; have a8 := ($h).seenEmpty; have a9 := ($h).wrote
        simp only [*, pCrit, pHold, pPend, posted, pFin, cur] at *
        try (first | omega | (simp_all; done))))

macro "lockC_close" h:ident : tactic => `(tactic| (
  all_goals try (case lockR => (intro j hj; dsimp only at hj; simp at hj))
  all_goals try (
        intro i pc hi; have := ($h).lockC i pc hi; simp_all; done)))

theorem inv_pWait {c : Cfg} {n : Nat} {input : List α} {s s' : State α} (hc : c.WF) (h : Inv c n input s)
    (hs : step c s .pWait = some s') : Inv c n input s' := by
  simp only [step] at hs
  split at hs
  · next x rest hp ht =>
    split at hs
    · next hu =>
      cases hs
      have hex := ex_zero_of_notFin h (by rw [hp]; rfl)
      constructor
      old_fields h
      prod_close h
    · simp at hs
  · simp at hs

theorem inv_pLock {c : Cfg} {n : Nat} {input : List α} {s s' : State α} (hc : c.WF) (h : Inv c n input s)
    (hs : step c s .pLock = some s') : Inv c n input s' := by
  simp only [step] at hs
  split at hs
  · next x hp hl =>
    cases hs
    constructor
    old_fields h
    prod_close h
    lockC_close h
  · simp at hs


theorem inv_pWrite {c : Cfg} {n : Nat} {input : List α} {s s' : State α} (hc : c.WF) (h : Inv c n input s)
    (hs : step c s .pWrite = some s') : Inv c n input s' := by
  simp only [step] at hs
  split at hs
  · next x hp =>
    cases hs
    constructor
    old_fields h
    prod_close h
    case ringq =>
      intro k hk
      have hq := h.qlen; have hcap := hc.cap_lt
      have hne : (s.head + k) % c.slots ≠ s.tail := by
        rw [h.tail_eq]
        intro e
        have := mod_add_inj (R := c.slots) (by omega) (by omega) e
        omega
      simp only [updRing, hne, if_false]
      exact h.ringq k hk
    case wrote =>
      intro y hy; cases hy; simp [updRing]
  · simp at hs

theorem inv_pAdvTail {c : Cfg} {n : Nat} {input : List α} {s s' : State α} (hc : c.WF) (h : Inv c n input s)
    (hs : step c s .pAdvTail = some s') : Inv c n input s' := by
  simp only [step] at hs
  split at hs
  · next x hp =>
    cases hs
    constructor
    old_fields h
    prod_close h
    case tail_eq =>
      rw [hc.putMod_eq, h.tail_eq, Nat.mod_add_mod]; simp [Nat.add_assoc]
    case ringq =>
      intro k hk
      simp only [List.length_append, List.length_cons, List.length_nil] at hk
      by_cases hlt : k < s.q.length
      · rw [List.getElem_append_left hlt]; exact h.ringq k hlt
      · have : k = s.q.length := by omega
        subst this
        rw [← h.tail_eq, h.wrote x hp]; simp
    case haveRead =>
      intro i r hi
      obtain ⟨y, rest, hq, hr⟩ := h.haveRead i r hi
      exact ⟨y, rest ++ [x], by simp [hq], hr⟩
    case unusedEq => simp only [List.length_append, List.length_cons, List.length_nil]; omega
    case seenEmpty => intro i pc hi hz; have := (h.seenEmpty i pc hi hz).2; simp [hp, pFin] at this
    case putEq => rw [h.putEq]; simp
  · simp at hs

theorem inv_pUnlock {c : Cfg} {n : Nat} {input : List α} {s s' : State α} (hc : c.WF) (h : Inv c n input s)
    (hs : step c s .pUnlock = some s') : Inv c n input s' := by
  simp only [step] at hs
  split at hs
  · next hp =>
    cases hs
    constructor
    old_fields h
    prod_close h
    lockC_close h
  · simp at hs

theorem inv_pPost {c : Cfg} {n : Nat} {input : List α} {s s' : State α} (hc : c.WF) (h : Inv c n input s)
    (hs : step c s .pPost = some s') : Inv c n input s' := by
  simp only [step] at hs
  split at hs
  · next hp =>
    cases hs
    constructor
    old_fields h
    prod_close h
  · simp at hs

theorem inv_pFinishBegin {c : Cfg} {n : Nat} {input : List α} {s s' : State α} (hc : c.WF) (h : Inv c n input s)
    (hs : step c s .pFinishBegin = some s') : Inv c n input s' := by
  simp only [step] at hs
  split at hs
  · next hp ht =>
    cases hs
    constructor
    old_fields h
    prod_close h
    case seenEmpty => intro i pc hi hz; have := (h.seenEmpty i pc hi hz).2; simp [hp, pFin] at this
  · simp at hs

theorem inv_pFinishPost {c : Cfg} {n : Nat} {input : List α} {s s' : State α} (hc : c.WF) (h : Inv c n input s)
    (hs : step c s .pFinishPost = some s') : Inv c n input s' := by
  simp only [step] at hs
  split at hs
  · next k hp =>
    cases hs
    constructor
    old_fields h
    prod_close h
    case usedEq => have := h.fink _ hp; omega
    case fink => intro k1 e; cases e; have := h.fink _ hp; omega
  · simp at hs

theorem inv_pFinishEnd {c : Cfg} {n : Nat} {input : List α} {s s' : State α} (hc : c.WF) (h : Inv c n input s)
    (hs : step c s .pFinishEnd = some s') : Inv c n input s' := by
  simp only [step] at hs
  split at hs
  · next hp =>
    cases hs
    constructor
    old_fields h
    prod_close h
  · simp at hs
theorem getElem?_set_cases {β : Type} {l : List β} {i j : Nat} {x pc : β} (h : (l.set i x)[j]? = some pc) :
    (j = i ∧ pc = x) ∨ (j ≠ i ∧ l[j]? = some pc) := by
  rw [List.getElem?_set] at h
  split at h
  · next e => split at h
              · simp at h; exact Or.inl ⟨e.symm, h.symm⟩
              · simp at h
  · next e => exact Or.inr ⟨fun e' => e e'.symm, h⟩

/-- the three sums after `cs.set i pc'` -/
theorem sums_set {s : State α} {i : Nat} {pc : CPc α} (pc' : CPc α) (hi : s.cs[i]? = some pc) :
    wsum owes (s.cs.set i pc') + owes pc = wsum owes s.cs + owes pc' ∧
    wsum ex (s.cs.set i pc') + ex pc = wsum ex s.cs + ex pc' ∧
    wsum au (s.cs.set i pc') + au pc = wsum au s.cs + au pc' :=
  ⟨wsum_set _ _ _ _ _ hi, wsum_set _ _ _ _ _ hi, wsum_set _ _ _ _ _ hi⟩


/-- default treatment of the consumer-indexed fields after `cs := cs.set i pc'` -/
macro "cons_close" h:ident hi:ident s1:ident s2:ident s3:ident : tactic => `(tactic| (
  all_goals try (case len => (dsimp only; rw [List.length_set]; exact ($h).len))
  all_goals try (case lockC =>
    (intro j pc hj; dsimp only at hj ⊢; have hl := ($h).lockC _ _ $hi
     rcases getElem?_set_cases hj with ⟨e1, e2⟩ | ⟨hne, hj'⟩
     · subst e1 e2; simp_all [cCrit]
     · have := ($h).lockC j pc hj'; simp_all [cCrit]))
  all_goals try (case lockR =>
    (intro j hj; dsimp only at hj ⊢; rw [List.length_set]; exact ($h).lockR j hj))
  all_goals try (case reading =>
    (intro j hj; dsimp only at hj ⊢
     rcases getElem?_set_cases hj with ⟨e1, e⟩ | ⟨hne, hj'⟩
     · cases e
     · exact ($h).reading j hj'))
  all_goals try (case haveRead =>
    (intro j r hj; dsimp only at hj ⊢
     rcases getElem?_set_cases hj with ⟨e1, e⟩ | ⟨hne, hj'⟩
     · cases e
     · exact ($h).haveRead j r hj'))
  all_goals try (case unusedEq =>
    (dsimp only; simp only [owes, ex, au] at $s1:ident $s2:ident $s3:ident; have := ($h).unusedEq; omega))
  all_goals try (case usedEq =>
    (dsimp only; simp only [owes, ex, au] at $s1:ident $s2:ident $s3:ident; have := ($h).usedEq; omega))
  all_goals try (case seenEmpty =>
    (intro j pc hj hz; dsimp only at hj ⊢
     rcases getElem?_set_cases hj with ⟨e1, e2⟩ | ⟨hne, hj'⟩
     · subst e1 e2
       first | (simp [isZ] at hz; done) | exact ($h).seenEmpty _ _ $hi rfl
     · exact ($h).seenEmpty j pc hj' hz))
  all_goals try (case takenPerm =>
    (dsimp only; rw [filterMap_set_same held _ _ _ _ $hi (by simp [held])]; exact ($h).takenPerm))))

theorem inv_cWait {c : Cfg} {n : Nat} {input : List α} {s s' : State α} (i : Nat) (hc : c.WF) (h : Inv c n input s)
    (hs : step c s (.cWait i) = some s') : Inv c n input s' := by
  simp only [step] at hs
  split at hs
  · next hi =>
    split at hs
    · next hu =>
      cases hs
      obtain ⟨s1, s2, s3⟩ := sums_set (.wantLock) hi
      constructor
      old_fields h
      cons_close h hi s1 s2 s3
    · simp at hs
  · simp at hs

theorem posted_pos_pFin (c : Cfg) (p : PPc α) (h : 0 < posted c p) : pFin p = true := by
  cases p <;> simp_all [posted, pFin]

theorem q_lt_slots {c : Cfg} {n : Nat} {input : List α} {s : State α} (hc : c.WF) (h : Inv c n input s) :
    s.q.length < c.slots := by
  have := h.qlen; have := hc.cap_lt; omega

theorem inv_cLock {c : Cfg} {n : Nat} {input : List α} {s s' : State α} (i : Nat) (hc : c.WF) (h : Inv c n input s)
    (hs : step c s (.cLock i) = some s') : Inv c n input s' := by
  simp only [step] at hs
  split at hs
  · next hi hl =>
    cases hs
    obtain ⟨s1, s2, s3⟩ := sums_set (.locked) hi
    constructor
    old_fields h
    cons_close h hi s1 s2 s3
    case lockP => dsimp only; have := h.lockP; rw [hl] at this; simp_all
    case lockR =>
      intro j hj; dsimp only at hj ⊢
      simp only [Option.some.injEq, Tid.cons.injEq] at hj; subst hj
      rw [List.length_set]; exact (List.getElem?_eq_some_iff.1 hi).1
    case lockC =>
      intro j pc hj; dsimp only at hj ⊢
      rcases getElem?_set_cases hj with ⟨e1, e2⟩ | ⟨hne, hj'⟩
      · subst e1 e2; simp [cCrit]
      · have := h.lockC j pc hj'; rw [hl] at this
        have hf : cCrit pc = false := by simpa using this
        simp [hf, hne.symm]
  · simp at hs

theorem inv_cTest {c : Cfg} {n : Nat} {input : List α} {s s' : State α} (i : Nat) (hc : c.WF) (h : Inv c n input s)
    (hs : step c s (.cTest i) = some s') : Inv c n input s' := by
  simp only [step] at hs
  split at hs
  · next hi =>
    split at hs
    · next he =>
      cases hs
      obtain ⟨s1, s2, s3⟩ := sums_set (.advanced none) hi
      constructor
      old_fields h
      cons_close h hi s1 s2 s3
      case seenEmpty =>
        intro j pc hj hz; dsimp only at hj ⊢
        rcases getElem?_set_cases hj with ⟨e1, e2⟩ | ⟨hne, hj'⟩
        · have hq0 : s.q.length = 0 := by
            have e := h.tail_eq; rw [← he] at e
            exact mod_add_eq_self h.head_lt (q_lt_slots hc h) e.symm
          have hq : s.q = [] := List.eq_nil_of_length_eq_zero hq0
          refine ⟨hq, ?_⟩
          apply posted_pos_pFin c
          have := h.usedEq; have := wsum_ge au _ _ _ hi; simp only [au] at this
          omega
        · exact h.seenEmpty j pc hj' hz
    · next he =>
      cases hs
      obtain ⟨s1, s2, s3⟩ := sums_set (.reading) hi
      constructor
      old_fields h
      cons_close h hi s1 s2 s3
      case reading =>
        intro j hj; dsimp only at hj ⊢
        rcases getElem?_set_cases hj with ⟨e1, _⟩ | ⟨hne, hj'⟩
        · intro hq
          apply he
          rw [h.tail_eq, hq]; simp [Nat.mod_eq_of_lt h.head_lt]
        · exact h.reading j hj'
  · simp at hs

theorem inv_cRead {c : Cfg} {n : Nat} {input : List α} {s s' : State α} (i : Nat) (hc : c.WF) (h : Inv c n input s)
    (hs : step c s (.cRead i) = some s') : Inv c n input s' := by
  simp only [step] at hs
  split at hs
  · next hi =>
    cases hs
    obtain ⟨s1, s2, s3⟩ := sums_set (.haveRead (s.ring s.head)) hi
    constructor
    old_fields h
    cons_close h hi s1 s2 s3
    case haveRead =>
      intro j r hj; dsimp only at hj ⊢
      rcases getElem?_set_cases hj with ⟨e1, e2⟩ | ⟨hne, hj'⟩
      · cases e2
        have hq := h.reading i hi
        cases hqq : s.q with
        | nil => exact absurd hqq hq
        | cons x rest =>
          refine ⟨x, rest, rfl, ?_⟩
          have := h.ringq 0 (by rw [hqq]; simp)
          simp only [Nat.add_zero, Nat.mod_eq_of_lt h.head_lt] at this
          rw [this]; simp [hqq]
      · exact h.haveRead j r hj'
  · simp at hs

theorem inv_cUnlock {c : Cfg} {n : Nat} {input : List α} {s s' : State α} (i : Nat) (h : Inv c n input s)
    (hs : step c s (.cUnlock i) = some s') : Inv c n input s' := by
  simp only [step] at hs
  split at hs
  · next r hi =>
    cases hs
    have hl : s.lock = some (.cons i) := (h.lockC i _ hi).1 rfl
    rcases r with _ | x
    · obtain ⟨s1, s2, s3⟩ := sums_set (.unlocked none) hi
      constructor
      old_fields h
      cons_close h hi s1 s2 s3
      case lockP => dsimp only; have := h.lockP; rw [hl] at this; simp_all
      case lockR => intro j hj; dsimp only at hj; simp at hj
      case lockC =>
        intro j pc hj; dsimp only at hj ⊢
        rcases getElem?_set_cases hj with ⟨e1, e2⟩ | ⟨hne, hj'⟩
        · subst e1 e2; simp [cCrit]
        · have := h.lockC j pc hj'; rw [hl] at this
          simp only [Option.some.injEq, Tid.cons.injEq, hne.symm, iff_false] at this
          simp [this]
    · obtain ⟨s1, s2, s3⟩ := sums_set (.unlocked (some x)) hi
      constructor
      old_fields h
      cons_close h hi s1 s2 s3
      case lockP => dsimp only; have := h.lockP; rw [hl] at this; simp_all
      case lockR => intro j hj; dsimp only at hj; simp at hj
      case lockC =>
        intro j pc hj; dsimp only at hj ⊢
        rcases getElem?_set_cases hj with ⟨e1, e2⟩ | ⟨hne, hj'⟩
        · subst e1 e2; simp [cCrit]
        · have := h.lockC j pc hj'; rw [hl] at this
          simp only [Option.some.injEq, Tid.cons.injEq, hne.symm, iff_false] at this
          simp [this]
  · simp at hs

theorem inv_cPost {c : Cfg} {n : Nat} {input : List α} {s s' : State α} (i : Nat) (h : Inv c n input s)
    (hs : step c s (.cPost i) = some s') : Inv c n input s' := by
  simp only [step] at hs
  split at hs
  · next r hi =>
    cases hs
    rcases r with _ | x
    · obtain ⟨s1, s2, s3⟩ := sums_set (.returned none) hi
      constructor
      old_fields h
      cons_close h hi s1 s2 s3
    · obtain ⟨s1, s2, s3⟩ := sums_set (.returned (some x)) hi
      constructor
      old_fields h
      cons_close h hi s1 s2 s3
  · simp at hs

theorem inv_cReturn {c : Cfg} {n : Nat} {input : List α} {s s' : State α} (i : Nat) (hc : c.WF) (h : Inv c n input s)
    (hs : step c s (.cReturn i) = some s') : Inv c n input s' := by
  simp only [step] at hs
  split at hs
  · next x hi =>
    cases hs
    obtain ⟨s1, s2, s3⟩ := sums_set (.idle) hi
    constructor
    old_fields h
    cons_close h hi s1 s2 s3
    case takenPerm =>
      dsimp only
      have hp := filterMap_set_lose held s.cs i _ .idle x hi rfl rfl
      refine h.takenPerm.trans ?_
      rw [List.append_assoc]
      exact List.Perm.append_left _ ((hp.symm.trans (List.perm_append_singleton ..).symm).trans (by simp))
  · next hi =>
    cases hs
    obtain ⟨s1, s2, s3⟩ := sums_set (.exited) hi
    constructor
    old_fields h
    cons_close h hi s1 s2 s3
  · simp at hs

theorem inv_cAdvHead {c : Cfg} {n : Nat} {input : List α} {s s' : State α} (i : Nat) (hc : c.WF) (h : Inv c n input s)
    (hs : step c s (.cAdvHead i) = some s') : Inv c n input s' := by
  simp only [step] at hs
  split at hs
  · next r hi =>
    cases hs
    obtain ⟨x, rest, hq, hr⟩ := h.haveRead i r hi
    subst hr
    have hl : s.lock = some (.cons i) := (h.lockC i _ hi).1 rfl
    have hR : 0 < c.slots := by have := hc.cap_lt; omega
    obtain ⟨s1, s2, s3⟩ := sums_set (.advanced (some x)) hi
    have hlen : s.q.length = rest.length + 1 := by rw [hq]; simp
    have hdrop : s.q.drop 1 = rest := by rw [hq]; simp
    have htake : s.q.take 1 = [x] := by rw [hq]; simp
    have others : ∀ (j : Nat) (pc : CPc α), j ≠ i → s.cs[j]? = some pc → cCrit pc = false := by
      intro j pc hne hj
      have := h.lockC j pc hj; rw [hl] at this
      simp only [Option.some.injEq, Tid.cons.injEq, hne.symm, iff_false] at this
      simpa using this
    constructor
    old_fields h
    cons_close h hi s1 s2 s3
    all_goals dsimp only
    all_goals try rw [hdrop]
    all_goals try rw [htake]
    case head_lt => rw [hc.getMod_eq]; exact Nat.mod_lt _ hR
    case qlen => have := h.qlen; omega
    case tail_eq => rw [hc.getMod_eq, succ_mod_add, h.tail_eq, hlen]
    case ringq =>
      intro k hk
      rw [hc.getMod_eq, succ_mod_add]
      have := h.ringq (k + 1) (by omega)
      rw [this]; simp [hq]
    case reading =>
      intro j hj
      rcases getElem?_set_cases hj with ⟨e1, e⟩ | ⟨hne, hj'⟩
      · cases e
      · have := others j _ hne hj'; simp [cCrit] at this
    case haveRead =>
      intro j r hj
      rcases getElem?_set_cases hj with ⟨e1, e⟩ | ⟨hne, hj'⟩
      · cases e
      · have := others j _ hne hj'; simp [cCrit] at this
    case unusedEq => simp only [owes, ex, au] at s1 s2 s3; have := h.unusedEq; omega
    case usedEq => simp only [owes, ex, au] at s1 s2 s3; have := h.usedEq; omega
    case seenEmpty =>
      intro j pc hj hz
      rcases getElem?_set_cases hj with ⟨e1, e2⟩ | ⟨hne, hj'⟩
      · subst e2; simp [isZ] at hz
      · have := (h.seenEmpty j pc hj' hz).1; rw [hq] at this; cases this
    case putEq => rw [h.putEq, hq]; simp
    case takenPerm =>
      have hp := filterMap_set_gain held s.cs i _ (.advanced (some x)) x hi rfl rfl
      have h1 : (s.taken ++ [x]).Perm (x :: s.taken) := List.perm_append_singleton ..
      refine h1.trans ?_
      refine (List.Perm.cons x h.takenPerm).trans ?_
      refine List.perm_middle.symm.trans ?_
      exact List.Perm.append_left _ hp.symm
  · simp at hs

theorem inv_step {c : Cfg} {n : Nat} {input : List α} {s s' : State α} (hc : c.WF) (h : Inv c n input s)
    (a : Act) (hs : step c s a = some s') : Inv c n input s' := by
  cases a with
  | pWait => exact inv_pWait hc h hs
  | pLock => exact inv_pLock hc h hs
  | pWrite => exact inv_pWrite hc h hs
  | pAdvTail => exact inv_pAdvTail hc h hs
  | pUnlock => exact inv_pUnlock hc h hs
  | pPost => exact inv_pPost hc h hs
  | pFinishBegin => exact inv_pFinishBegin hc h hs
  | pFinishPost => exact inv_pFinishPost hc h hs
  | pFinishEnd => exact inv_pFinishEnd hc h hs
  | cWait i => exact inv_cWait i hc h hs
  | cLock i => exact inv_cLock i hc h hs
  | cTest i => exact inv_cTest i hc h hs
  | cRead i => exact inv_cRead i hc h hs
  | cAdvHead i => exact inv_cAdvHead i hc h hs
  | cUnlock i => exact inv_cUnlock i h hs
  | cPost i => exact inv_cPost i h hs
  | cReturn i => exact inv_cReturn i hc h hs

theorem inv_reachable {c : Cfg} {n : Nat} {input : List α} {s : State α} (hc : c.WF)
    (hr : Reachable c n input s) : Inv c n input s := by
  induction hr with
  | init => exact inv_init c hc n input
  | step _ hs ih => obtain ⟨a, ha⟩ := hs; exact inv_step hc ih a ha

end YaraModel.Queue
