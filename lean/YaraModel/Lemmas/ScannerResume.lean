/- C13 helper lemmas: an interrupted block loop, resumed, is the uninterrupted loop. -/
import YaraModel.Lemmas.ScannerHistory
namespace YaraModel.Scan

/-! ### schedules -/

theorem stepOf_nil : stepOf [] = .go .ok [] := rfl

theorem stepOf_cons (a : Act) (t : List Act) :
    stepOf (a :: t) = match a with
      | .notReady => .notReady t
      | .fail e => .fail e t
      | a => .go a t := by
  cases a <;> rfl

theorem dropNR_cons_nr (t : List Act) : dropNR (.notReady :: t) = dropNR t := rfl
theorem countNR_cons_nr (t : List Act) : countNR (.notReady :: t) = countNR t + 1 := by simp [countNR, List.filter_cons, isNR]

/-- what `stepOf` says about the shape of the schedule -/
theorem stepOf_notReady {sched sc : List Act} (h : stepOf sched = .notReady sc) : sched = .notReady :: sc := by
  cases sched with
  | nil => cases h
  | cons a t => cases a <;> simp [stepOf_cons] at h <;> simp [h]

theorem stepOf_fail {sched sc : List Act} {e : Nat} (h : stepOf sched = .fail e sc) : sched = .fail e :: sc := by
  cases sched with
  | nil => cases h
  | cons a t => cases a <;> simp [stepOf_cons] at h <;> simp [h]

/-- a `go` step: the filtered schedule makes the same step -/
theorem stepOf_go_drop {sched sc : List Act} {a : Act} (h : stepOf sched = .go a sc) :
    stepOf (dropNR sched) = .go a (dropNR sc) ∧ countNR sched = countNR sc ∧ isNR a = false := by
  cases sched with
  | nil => cases h; exact ⟨rfl, rfl, rfl⟩
  | cons x t =>
    cases x <;> simp [stepOf_cons] at h <;> obtain ⟨rfl, rfl⟩ := h <;>
      simp [dropNR, countNR, isNR, stepOf_cons]

theorem stepOf_fail_drop {sched sc : List Act} {e : Nat} (h : stepOf sched = .fail e sc) :
    stepOf (dropNR sched) = .fail e (dropNR sc) := by
  rw [stepOf_fail h]; simp [dropNR, isNR, stepOf_cons]

/-! ### one interrupted segment -/

def LoopOut.dropNR (o : LoopOut) : LoopOut := { o with sched := Scan.dropNR o.sched }

/-- The uninterrupted loop equals: the first segment of the interrupted loop, followed — if that
    segment ended with "not ready" — by the uninterrupted loop continued from the suspension point. -/
theorem blockLoop_segment (P : Params) (cb : Nat → CbRet) (set : Settings) (rest : List Block) (sched : List Act)
    (c : Core) (w : World) :
    let o := blockLoop P cb set rest sched c w
    (o.result = .blockNotReady →
      blockLoop P cb set rest (dropNR sched) c w = (blockLoop P cb set o.rest (dropNR o.sched) o.core o.world).pre o.msgs
      ∧ countNR o.sched < countNR sched) ∧
    (o.result ≠ .blockNotReady → blockLoop P cb set rest (dropNR sched) c w = o.dropNR) := by
  induction rest generalizing sched c w with
  | nil =>
    cases hs : stepOf sched with
    | notReady sc =>
      rw [blockLoop_notReady hs, stepOf_notReady hs]
      simp [LoopOut.pre, dropNR_cons_nr, countNR_cons_nr]
    | fail e sc =>
      rw [blockLoop_fail hs, blockLoop_fail (stepOf_fail_drop hs)]
      simp [LoopOut.dropNR]
    | go a sc =>
      rw [blockLoop_nil_go hs, blockLoop_nil_go (stepOf_go_drop hs).1]
      simp [LoopOut.dropNR]
  | cons b r ih =>
    cases hs : stepOf sched with
    | notReady sc =>
      rw [blockLoop_notReady hs, stepOf_notReady hs]
      simp [LoopOut.pre, dropNR_cons_nr, countNR_cons_nr]
    | fail e sc =>
      rw [blockLoop_fail hs, blockLoop_fail (stepOf_fail_drop hs)]
      simp [LoopOut.dropNR]
    | go a sc =>
      have hd := stepOf_go_drop hs
      rcases hsb : scanBlock P cb set b c (tick w a) with ⟨c', w', ms, e⟩
      by_cases he : e = .success
      · subst he
        rw [blockLoop_cons_go_ok hs hsb, blockLoop_cons_go_ok hd.1 hsb]
        have := ih sc c' w'
        constructor
        · intro hnr
          have h1 := this.1 hnr
          rw [h1.1]
          refine ⟨?_, by rw [hd.2.1]; exact h1.2⟩
          simp [LoopOut.pre, List.append_assoc]
        · intro hnr
          rw [this.2 hnr]
          simp [LoopOut.dropNR, LoopOut.pre]
      · rw [blockLoop_cons_go_err hs hsb he, blockLoop_cons_go_err hd.1 hsb he]
        have hne : e ≠ .blockNotReady := by
          have := scanBlock_result P cb set b c (tick w a)
          rw [hsb] at this; exact this
        exact ⟨fun h => absurd h hne, fun _ => by simp [LoopOut.dropNR]⟩

/-! ### the block phase run to completion -/

/-- continue a loop outcome: if it is "not ready", repeat from the suspension point (at most `n` times) -/
def loopToEnd (P : Params) (cb : Nat → CbRet) (set : Settings) : Nat → List Block → List Act → Core → World → LoopOut
  | 0, rest, sched, c, w => ⟨c, rest, sched, .blockNotReady, .blockNotReady, w, []⟩
  | n + 1, rest, sched, c, w =>
    let o := blockLoop P cb set rest sched c w
    if o.result = .blockNotReady then (loopToEnd P cb set n o.rest o.sched o.core o.world).pre o.msgs else o

theorem pre_dropNR (ms : List Msg) (o : LoopOut) : (o.pre ms).dropNR = (o.dropNR).pre ms := rfl

theorem loopToEnd_eq (P : Params) (cb : Nat → CbRet) (set : Settings) (n : Nat) (rest : List Block) (sched : List Act)
    (c : Core) (w : World) (h : countNR sched < n) :
    (loopToEnd P cb set n rest sched c w).dropNR = blockLoop P cb set rest (dropNR sched) c w := by
  induction n generalizing rest sched c w with
  | zero => omega
  | succ n ih =>
    simp only [loopToEnd]
    have seg := blockLoop_segment P cb set rest sched c w
    split
    · rename_i hnr
      obtain ⟨h1, h2⟩ := seg.1 hnr
      rw [pre_dropNR, ih _ _ _ _ (by omega), h1]
    · rename_i hnr
      exact (seg.2 hnr).symm

/-! ### not-ready answers confined to the block phase -/

theorem nrWithin_zero (sched : List Act) (h : nrWithin 0 sched = true) : countNR sched = 0 := by
  induction sched with
  | nil => rfl
  | cons a t ih =>
    simp only [nrWithin, Bool.and_eq_true, Bool.not_eq_true'] at h
    have := ih h.2
    simp only [countNR, List.filter_cons, h.1] at this ⊢
    simpa using this

theorem nrWithin_go {sched sc : List Act} {a : Act} {n : Nat} (hs : stepOf sched = .go a sc)
    (h : nrWithin (n + 1) sched = true) : nrWithin n sc = true := by
  cases sched with
  | nil => cases hs; cases n <;> rfl
  | cons x t =>
    cases x <;> simp [stepOf_cons] at hs <;> obtain ⟨rfl, rfl⟩ := hs <;> simpa [nrWithin, isNR] using h

theorem blockLoop_nrWithin (P : Params) (cb : Nat → CbRet) (set : Settings) (rest : List Block) (sched : List Act)
    (c : Core) (w : World) (h : nrWithin (rest.length + 1) sched = true) :
    ((blockLoop P cb set rest sched c w).result = .success → countNR (blockLoop P cb set rest sched c w).sched = 0) ∧
    ((blockLoop P cb set rest sched c w).result = .blockNotReady →
      nrWithin ((blockLoop P cb set rest sched c w).rest.length + 1) (blockLoop P cb set rest sched c w).sched = true ∧
      (blockLoop P cb set rest sched c w).lastError = .blockNotReady) := by
  induction rest generalizing sched c w with
  | nil =>
    cases hs : stepOf sched with
    | notReady sc =>
      rw [blockLoop_notReady hs]
      rw [stepOf_notReady hs] at h
      exact ⟨fun hh => (by cases hh), fun _ => ⟨by simpa [nrWithin, isNR] using h, rfl⟩⟩
    | fail e sc => rw [blockLoop_fail hs]; exact ⟨fun hh => (by cases hh), fun hh => (by cases hh)⟩
    | go a sc =>
      rw [blockLoop_nil_go hs]
      exact ⟨fun _ => nrWithin_zero _ (nrWithin_go hs h), fun hh => (by cases hh)⟩
  | cons b r ih =>
    cases hs : stepOf sched with
    | notReady sc =>
      rw [blockLoop_notReady hs]
      rw [stepOf_notReady hs] at h
      exact ⟨fun hh => (by cases hh), fun _ => ⟨by simpa [nrWithin, isNR] using h, rfl⟩⟩
    | fail e sc => rw [blockLoop_fail hs]; exact ⟨fun hh => (by cases hh), fun hh => (by cases hh)⟩
    | go a sc =>
      have h' := nrWithin_go hs h
      rcases hsb : scanBlock P cb set b c (tick w a) with ⟨c', w', ms, e⟩
      by_cases he : e = .success
      · subst he
        rw [blockLoop_cons_go_ok hs hsb]
        exact ih sc c' w' h'
      · rw [blockLoop_cons_go_err hs hsb he]
        have hne : e ≠ .blockNotReady := by
          have := scanBlock_result P cb set b c (tick w a)
          rw [hsb] at this; exact this
        exact ⟨fun hh => absurd hh he, fun hh => absurd hh hne⟩

theorem loopToEnd_nrWithin (P : Params) (cb : Nat → CbRet) (set : Settings) (n : Nat) (rest : List Block) (sched : List Act)
    (c : Core) (w : World) (h : nrWithin (rest.length + 1) sched = true) :
    (loopToEnd P cb set n rest sched c w).result = .success → countNR (loopToEnd P cb set n rest sched c w).sched = 0 := by
  induction n generalizing rest sched c w with
  | zero => intro hh; cases hh
  | succ n ih =>
    simp only [loopToEnd]
    have hb := blockLoop_nrWithin P cb set rest sched c w h
    split
    · rename_i hnr
      exact ih _ _ _ _ (hb.2 hnr).1
    · exact hb.1

/-! ### `afterLoop`: what it depends on -/

theorem afterLoop0_pre (P : Params) (cb : Nat → CbRet) (stack : Nat) (s : Sc) (it : It) (o : LoopOut) (ms : List Msg) :
    afterLoop0 P cb stack s it (o.pre ms) = afterLoop0 P cb stack s it o := rfl

theorem afterLoop_pre (P : Params) (cb : Nat → CbRet) (stack : Nat) (s : Sc) (it : It) (o : LoopOut) (ms : List Msg) :
    afterLoop P cb stack s it (o.pre ms) = (afterLoop P cb stack s it o).pre ms := by
  unfold afterLoop
  rw [afterLoop0_pre]
  simp only [LoopOut.pre, CallOut.pre, List.append_assoc]

theorem afterLoop_core_irrel (P : Params) (cb : Nat → CbRet) (stack : Nat) (s : Sc) (x : Core) (it : It) (o : LoopOut) :
    afterLoop P cb stack { s with core := x } it o = afterLoop P cb stack s it o := by
  simp only [afterLoop, afterLoop0]

theorem afterLoop_it_irrel (P : Params) (cb : Nat → CbRet) (stack : Nat) (s : Sc) (it it' : It) (o : LoopOut)
    (h1 : it.all = it'.all) (h2 : it.fileSize = it'.fileSize) :
    afterLoop P cb stack s it o = afterLoop P cb stack s it' o := by
  simp only [afterLoop, afterLoop0, h1, h2]

theorem afterLoop_nr (P : Params) (cb : Nat → CbRet) (stack : Nat) (s : Sc) (it : It) (o : LoopOut)
    (h : o.result = .blockNotReady) :
    afterLoop P cb stack s it o =
      ⟨{ s with core := o.core }, { it with rest := o.rest, sched := o.sched, lastError := o.lastError }, o.world, o.msgs,
       .blockNotReady⟩ := by
  simp [afterLoop, afterLoop0, CallOut.pre, h, exitClean]

theorem afterLoop_rc_ne (P : Params) (cb : Nat → CbRet) (stack : Nat) (s : Sc) (it : It) (o : LoopOut)
    (h : o.result ≠ .blockNotReady) : (afterLoop P cb stack s it o).rc ≠ .blockNotReady :=
  fun hh => h (afterLoop_notReady P cb stack s it o hh).1

/-! ### repeating the call = running the block phase to completion, then the rest once -/

theorem blockLoop_nr_lastError (P : Params) (cb : Nat → CbRet) (set : Settings) (rest : List Block) (sched : List Act)
    (c : Core) (w : World) (h : (blockLoop P cb set rest sched c w).result = .blockNotReady) :
    (blockLoop P cb set rest sched c w).lastError = .blockNotReady := by
  induction rest generalizing sched c w with
  | nil =>
    cases hs : stepOf sched with
    | notReady sc => rw [blockLoop_notReady hs]
    | fail e sc => rw [blockLoop_fail hs] at h; cases h
    | go a sc => rw [blockLoop_nil_go hs] at h; cases h
  | cons b r ih =>
    cases hs : stepOf sched with
    | notReady sc => rw [blockLoop_notReady hs]
    | fail e sc => rw [blockLoop_fail hs] at h; cases h
    | go a sc =>
      rcases hsb : scanBlock P cb set b c (tick w a) with ⟨c', w', ms, e⟩
      by_cases he : e = .success
      · subst he
        rw [blockLoop_cons_go_ok hs hsb] at h ⊢
        exact ih sc c' w' h
      · rw [blockLoop_cons_go_err hs hsb he] at h
        have := scanBlock_result P cb set b c (tick w a)
        rw [hsb] at this
        exact absurd h this

/-- the rest of the block phase once one loop has produced `L` -/
def loopFrom (P : Params) (cb : Nat → CbRet) (set : Settings) (n : Nat) (L : LoopOut) : LoopOut :=
  if L.result = .blockNotReady then (loopToEnd P cb set n L.rest L.sched L.core L.world).pre L.msgs else L

theorem loopToEnd_succ (P : Params) (cb : Nat → CbRet) (set : Settings) (n : Nat) (rest : List Block) (sched : List Act)
    (c : Core) (w : World) :
    loopToEnd P cb set (n + 1) rest sched c w = loopFrom P cb set n (blockLoop P cb set rest sched c w) := rfl

theorem runToEnd_cont (P : Params) (v : Variant) (cb : Nat → CbRet) (stack : Nat) (n : Nat) (s : Sc) (it : It) (w : World)
    (hcb : s.set.hasCallback = true) (hle : it.lastError = .blockNotReady) (hnb : s.core.notebook = true) :
    runToEnd P v cb stack n s it w = afterLoop P cb stack s it (loopToEnd P cb s.set n it.rest it.sched s.core w) := by
  induction n generalizing s it w with
  | zero =>
    simp only [runToEnd, loopToEnd]
    rw [afterLoop_nr _ _ _ _ _ _ rfl]
    cases it; cases s
    simp_all
  | succ n ih =>
    simp only [runToEnd, loopToEnd_succ]
    have hsc : scanCall P v cb stack s it w = afterLoop P cb stack s it (blockLoop P cb s.set it.rest it.sched s.core w) := by
      simp [scanCall, hcb, hle, hnb]
    rw [hsc]
    by_cases hL : (blockLoop P cb s.set it.rest it.sched s.core w).result = .blockNotReady
    · generalize hLd : blockLoop P cb s.set it.rest it.sched s.core w = L at hL ⊢
      have hlast : L.lastError = .blockNotReady := by rw [← hLd]; exact blockLoop_nr_lastError _ _ _ _ _ _ _ (by rw [hLd]; exact hL)
      rw [afterLoop_nr _ _ _ _ _ _ hL]
      simp only [if_true]
      have hnb' : L.core.notebook = true := by
        rw [← hLd]; exact (blockLoop_frame P cb s.set it.rest it.sched s.core w).notebook.trans hnb
      rw [ih { s with core := L.core } { it with rest := L.rest, sched := L.sched, lastError := L.lastError } L.world hcb hlast hnb']
      simp only [loopFrom, if_pos hL]
      rw [afterLoop_pre, afterLoop_core_irrel,
        afterLoop_it_irrel P cb stack s { it with rest := L.rest, sched := L.sched, lastError := L.lastError } it _ rfl rfl]
      rfl
    · have hrc := afterLoop_rc_ne P cb stack s it _ hL
      simp only [if_neg hrc, loopFrom, if_neg hL]

theorem runToEnd_fresh (P : Params) (v : Variant) (cb : Nat → CbRet) (stack : Nat) (n : Nat) (s : Sc) (it : It) (w : World)
    (hcb : s.set.hasCallback = true) (hne : it.lastError ≠ .blockNotReady) :
    runToEnd P v cb stack (n + 1) s it w =
      afterLoop P cb stack s it (loopToEnd P cb s.set (n + 1) it.all it.sched (freshInit P v s.core w) w) := by
  simp only [runToEnd, loopToEnd_succ]
  have hsc : scanCall P v cb stack s it w =
      afterLoop P cb stack s it (blockLoop P cb s.set it.all it.sched (freshInit P v s.core w) w) := by
    simp [scanCall, hcb, hne]
  rw [hsc]
  by_cases hL : (blockLoop P cb s.set it.all it.sched (freshInit P v s.core w) w).result = .blockNotReady
  · generalize hLd : blockLoop P cb s.set it.all it.sched (freshInit P v s.core w) w = L at hL ⊢
    have hlast : L.lastError = .blockNotReady := by rw [← hLd]; exact blockLoop_nr_lastError _ _ _ _ _ _ _ (by rw [hLd]; exact hL)
    rw [afterLoop_nr _ _ _ _ _ _ hL]
    simp only [if_true]
    have hnb' : L.core.notebook = true := by
      rw [← hLd]
      exact (blockLoop_frame P cb s.set it.all it.sched (freshInit P v s.core w) w).notebook.trans (freshInit_notebook ..)
    rw [runToEnd_cont P v cb stack n { s with core := L.core } { it with rest := L.rest, sched := L.sched, lastError := L.lastError }
      L.world hcb hlast hnb']
    simp only [loopFrom, if_pos hL]
    rw [afterLoop_pre, afterLoop_core_irrel,
      afterLoop_it_irrel P cb stack s { it with rest := L.rest, sched := L.sched, lastError := L.lastError } it _ rfl rfl]
    rfl
  · have hrc := afterLoop_rc_ne P cb stack s it _ hL
    simp only [if_neg hrc, loopFrom, if_neg hL]

/-- `afterLoop` on a loop outcome whose remaining schedule is filtered: same messages, result, scanner
    and world, provided rule evaluation (reached only after a successful loop) sees no not-ready answer -/
theorem afterLoop_dropNR (P : Params) (cb : Nat → CbRet) (stack : Nat) (s : Sc) (it : It) (L : LoopOut)
    (h : L.result = .success → countNR L.sched = 0) :
    let a := afterLoop P cb stack s it L
    let b := afterLoop P cb stack s it L.dropNR
    a.msgs = b.msgs ∧ a.rc = b.rc ∧ a.sc = b.sc ∧ a.world = b.world := by
  by_cases hs : L.result = .success
  · have h0 := h hs
    have : L.dropNR = L := by
      simp only [LoopOut.dropNR, Scan.dropNR]
      have : L.sched.filter (fun a => !isNR a) = L.sched := by
        rw [List.filter_eq_self]
        intro a ha
        have : (L.sched.filter isNR) = [] := List.eq_nil_of_length_eq_zero h0
        have hn : a ∉ L.sched.filter isNR := by rw [this]; simp
        simp only [List.mem_filter, not_and] at hn
        simpa using hn ha
      rw [this]
    rw [this]
    exact ⟨rfl, rfl, rfl, rfl⟩
  · simp [afterLoop, afterLoop0, LoopOut.dropNR, CallOut.pre, hs]

theorem countNR_dropNR (sched : List Act) : countNR (dropNR sched) = 0 := by
  induction sched with
  | nil => rfl
  | cons a t ih =>
    cases a <;> simp_all [countNR, dropNR, isNR]

theorem blockLoop_no_nr (P : Params) (cb : Nat → CbRet) (set : Settings) (rest : List Block) (sched : List Act)
    (c : Core) (w : World) (h : countNR sched = 0) : (blockLoop P cb set rest sched c w).result ≠ .blockNotReady := by
  induction rest generalizing sched c w with
  | nil =>
    cases hs : stepOf sched with
    | notReady sc => rw [stepOf_notReady hs, countNR_cons_nr] at h; omega
    | fail e sc => rw [blockLoop_fail hs]; simp
    | go a sc => rw [blockLoop_nil_go hs]; simp
  | cons b r ih =>
    cases hs : stepOf sched with
    | notReady sc => rw [stepOf_notReady hs, countNR_cons_nr] at h; omega
    | fail e sc => rw [blockLoop_fail hs]; simp
    | go a sc =>
      rcases hsb : scanBlock P cb set b c (tick w a) with ⟨c', w', ms, e⟩
      by_cases he : e = .success
      · subst he
        rw [blockLoop_cons_go_ok hs hsb]
        exact ih sc c' w' (by rw [← (stepOf_go_drop hs).2.1]; exact h)
      · rw [blockLoop_cons_go_err hs hsb he]
        have := scanBlock_result P cb set b c (tick w a)
        rw [hsb] at this
        exact this

/-- **C13 core**: repeating the call until it no longer answers "not ready" gives what one call gives when the
    iterator never answers "not ready" -/
theorem runToEnd_eq_uninterrupted (P : Params) (v : Variant) (cb : Nat → CbRet) (stack : Nat) (s : Sc) (it : It) (w : World)
    (fuel : Nat) (hcb : s.set.hasCallback = true) (hne : it.lastError ≠ .blockNotReady)
    (hev : nrWithin (it.all.length + 1) it.sched = true) (hfuel : countNR it.sched < fuel) :
    let a := runToEnd P v cb stack fuel s it w
    let b := scanCall P v cb stack s { it with sched := dropNR it.sched } w
    a.msgs = b.msgs ∧ a.rc = b.rc ∧ a.sc = b.sc ∧ a.world = b.world ∧ a.rc ≠ .blockNotReady := by
  obtain ⟨n, rfl⟩ : ∃ n, fuel = n + 1 := ⟨fuel - 1, by omega⟩
  intro a b
  have ha : a = afterLoop P cb stack s it (loopToEnd P cb s.set (n + 1) it.all it.sched (freshInit P v s.core w) w) :=
    runToEnd_fresh P v cb stack n s it w hcb hne
  have hL := loopToEnd_eq P cb s.set (n + 1) it.all it.sched (freshInit P v s.core w) w hfuel
  have hb : b = afterLoop P cb stack s it
      (loopToEnd P cb s.set (n + 1) it.all it.sched (freshInit P v s.core w) w).dropNR := by
    have : b = afterLoop P cb stack s { it with sched := dropNR it.sched }
        (blockLoop P cb s.set it.all (dropNR it.sched) (freshInit P v s.core w) w) := by
      simp [b, scanCall, hcb, hne]
    rw [this, hL]
    exact afterLoop_it_irrel _ _ _ _ _ _ _ rfl rfl
  have hd := afterLoop_dropNR P cb stack s it (loopToEnd P cb s.set (n + 1) it.all it.sched (freshInit P v s.core w) w)
    (loopToEnd_nrWithin P cb s.set (n + 1) it.all it.sched (freshInit P v s.core w) w hev)
  rw [← ha, ← hb] at hd
  refine ⟨hd.1, hd.2.1, hd.2.2.1, hd.2.2.2, ?_⟩
  rw [hd.2.1, hb, hL]
  exact afterLoop_rc_ne _ _ _ _ _ _ (blockLoop_no_nr _ _ _ _ _ _ _ (countNR_dropNR _))

end YaraModel.Scan
