/- helper lemmas for the base64 alignment theorem of Thm/C01.lean -/
import YaraModel.Spec.Base64
namespace YaraModel.B64
open YaraModel.Text

/-- number of characters at the end of `encode s` that depend on what follows `s` (or are padding) -/
def trail0 (n : Nat) : Nat := if n % 3 = 0 then 0 else (3 - n % 3) + 1

theorem encode_length (A s : Bytes) : (encode A s).length = 4 * ((s.length + 2) / 3) := by
  fun_induction encode A s with
  | case1 a b c t ih => simp [ih]; omega
  | case2 a b => simp
  | case3 a => simp
  | case4 => simp

/-- the characters of `encode s` that are kept do not depend on what follows `s` -/
theorem encode_take_append (A s post : Bytes) :
    (encode A (s ++ post)).take ((encode A s).length - trail0 s.length) =
    (encode A s).take ((encode A s).length - trail0 s.length) := by
  fun_induction encode A s with
  | case1 a b c t ih =>
    have ht : trail0 (a :: b :: c :: t).length = trail0 t.length := by
      simp only [trail0, List.length_cons]
      have : (t.length + 1 + 1 + 1) % 3 = t.length % 3 := by omega
      rw [this]
    have hle : trail0 t.length ≤ (encode A t).length := by
      rw [encode_length]; simp only [trail0]; split <;> omega
    rw [ht]
    simp only [List.length_cons]
    have e1 : (encode A t).length + 1 + 1 + 1 + 1 - trail0 t.length = ((encode A t).length - trail0 t.length) + 1 + 1 + 1 + 1 := by omega
    rw [e1]
    simp only [List.cons_append, encode, List.take_succ_cons, ih]
  | case2 a b =>
    cases post with
    | nil => simp [encode]
    | cons p1 pt => simp [encode, trail0]
  | case3 a =>
    cases post with
    | nil => simp [encode]
    | cons p1 pt =>
      cases pt with
      | nil => simp [encode, trail0]
      | cons p2 pt2 => simp [encode, trail0]
  | case4 => simp [trail0]


theorem encode_drop_triples (A : Bytes) : ∀ (q : Nat) (x y : Bytes), x.length = 3 * q →
    (encode A (x ++ y)).drop (4 * q) = encode A y
  | 0, x, y, h => by
    have : x = [] := List.eq_nil_of_length_eq_zero (by omega)
    subst this; simp
  | q + 1, x, y, h => by
    match x, h with
    | a :: b :: c :: x', h =>
      have h' : x'.length = 3 * q := by simp at h; omega
      have e : 4 * (q + 1) = 4 * q + 1 + 1 + 1 + 1 := by omega
      simp only [List.cons_append, encode, e, List.drop_succ_cons]
      exact encode_drop_triples A q x' y h'
    | [], h => simp at h
    | [_], h => simp at h; omega
    | [_, _], h => simp at h; omega

theorem trail0_le (A s : Bytes) : trail0 s.length ≤ (encode A s).length := by
  rw [encode_length]; simp only [trail0]; split <;> omega

/-- kept part of a permutation when nothing was prepended -/
theorem kept0 (A s post : Bytes) :
    (encode A (s ++ post)).take ((encode A s).length - trail0 s.length) =
    (encode A s).take ((encode A s).length - trail0 s.length) := encode_take_append A s post

theorem permutation_zero (A s : Bytes) :
    permutation A s 0 = (encode A s).take ((encode A s).length - trail0 s.length) := by
  simp only [permutation, List.replicate_zero, List.nil_append, Nat.zero_add, List.drop_zero, if_true, trail0]
  congr 1
  by_cases h : s.length % 3 = 0
  · simp [h]
  · have : 3 - s.length % 3 ≠ 0 := by omega
    simp [h, this]


theorem trailing_eq (n : Nat) :
    (if (if n % 3 = 0 then 0 else 3 - n % 3) = 0 then 0 else (if n % 3 = 0 then 0 else 3 - n % 3) + 1) = trail0 n := by
  simp only [trail0]
  by_cases h : n % 3 = 0
  · simp [h]
  · have : 3 - n % 3 ≠ 0 := by omega
    simp [h, this]

/-- with one unknown byte in front, the first two characters are dropped; needs |s| ≥ 2 -/
theorem permutation_one (A : Bytes) (b c : UInt8) (s2 : Bytes) :
    permutation A (b :: c :: s2) 1 =
      sym A (((b &&& 15) <<< 2) ||| (c >>> 6)) :: sym A (c &&& 63) ::
        (encode A s2).take ((encode A s2).length - trail0 s2.length) := by
  have hm : (1 + (b :: c :: s2).length) % 3 = s2.length % 3 := by simp; omega
  have hle := trail0_le A s2
  simp only [permutation, hm, trailing_eq]
  simp only [List.replicate, List.cons_append, List.nil_append, encode, List.length_cons]
  have e : (encode A s2).length + 1 + 1 + 1 + 1 - ((if 1 = 0 then 0 else 1 + 1) + trail0 s2.length) =
      ((encode A s2).length - trail0 s2.length) + 1 + 1 := by simp; omega
  rw [e]
  simp [List.take_succ_cons]

/-- with two unknown bytes in front, the first three characters are dropped -/
theorem permutation_two (A : Bytes) (c : UInt8) (s1 : Bytes) :
    permutation A (c :: s1) 2 =
      sym A (c &&& 63) :: (encode A s1).take ((encode A s1).length - trail0 s1.length) := by
  have hm : (2 + (c :: s1).length) % 3 = s1.length % 3 := by simp; omega
  have hle := trail0_le A s1
  simp only [permutation, hm, trailing_eq]
  simp only [List.replicate, List.cons_append, List.nil_append, encode, List.length_cons]
  have e : (encode A s1).length + 1 + 1 + 1 + 1 - ((if 2 = 0 then 0 else 2 + 1) + trail0 s1.length) =
      ((encode A s1).length - trail0 s1.length) + 1 := by simp; omega
  rw [e]
  simp [List.take_succ_cons]

end YaraModel.B64
