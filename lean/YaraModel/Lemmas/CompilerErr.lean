/- C07 helper lemmas: one-step invariants of the error protocol and their lifting to runs. -/
import YaraModel.Model.CompilerErr
namespace YaraModel.CompilerErr

/-- errors = number of logged callbacks -/
def Counted (s : St) : Prop := s.errors = s.log.length

/-- every logged line ≥ 1 and `current_line` is unset or ≥ 1 -/
def LinesOK (s : St) : Prop := (∀ e ∈ s.log, 1 ≤ e.line) ∧ (s.curLine = 0 ∨ 1 ≤ s.curLine)

theorem yyerror_counted (ln : Nat) (s : St) (h : Counted s) : Counted (yyerror true ln s) := by
  simp only [Counted, yyerror, ite_true, List.length_append, List.length_singleton] at *
  omega

theorem yyerror_lines (ln : Nat) (s : St) (h : LinesOK s) (hl : 1 ≤ ln) : LinesOK (yyerror true ln s) := by
  refine ⟨?_, Or.inl rfl⟩
  intro e he
  simp only [yyerror, ite_true, List.mem_append, List.mem_singleton] at he
  rcases he with he | he
  · exact h.1 e he
  · subst he
    simp only
    split
    · rcases h.2 with h0 | h1
      · contradiction
      · exact h1
    · exact hl

theorem step_counted (s : St) (e : Ev) (h : Counted s) (he : isSetupFail e = false) : Counted (step true s e) := by
  unfold step
  split
  · exact h
  · cases e with
    | setupFail => simp [isSetupFail] at he
    | failWithError oom ln => have := yyerror_counted ln s h; simp only; split <;> exact this
    | syntaxError ln => simp only; split
                        · exact yyerror_counted ln s h
                        · exact h
    | lexError ln => exact yyerror_counted ln s h
    | fatal ln => exact yyerror_counted ln s h
    | _ => exact h

theorem step_lines (s : St) (e : Ev) (h : LinesOK s) (he : linesOk e = true) : LinesOK (step true s e) := by
  unfold step
  split
  · exact h
  · cases e with
    | setLine n => simp only [linesOk, decide_eq_true_eq] at he; exact ⟨h.1, Or.inr he⟩
    | failWithError oom ln =>
        simp only [linesOk, decide_eq_true_eq] at he
        have := yyerror_lines ln s h he; simp only; split <;> exact this
    | syntaxError ln =>
        simp only [linesOk, decide_eq_true_eq] at he
        simp only; split
        · exact yyerror_lines ln s h he
        · exact h
    | lexError ln => simp only [linesOk, decide_eq_true_eq] at he; exact yyerror_lines ln s h he
    | fatal ln => simp only [linesOk, decide_eq_true_eq] at he; exact yyerror_lines ln s h he
    | _ => exact h

theorem fold_inv (P : St → Prop) (ok : Ev → Bool) (hstep : ∀ s e, P s → ok e = true → P (step true s e))
    (evs : List Ev) (s : St) (hs : P s) (h : evs.all ok = true) : P (evs.foldl (step true) s) := by
  induction evs generalizing s with
  | nil => exact hs
  | cons e es ih =>
    simp only [List.all_cons, Bool.and_eq_true] at h
    exact ih (step true s e) (hstep s e hs h.1) h.2

theorem done_absorbs (cb : Bool) (s : St) (evs : List Ev) (h : s.done = true) : evs.foldl (step cb) s = s := by
  induction evs with
  | nil => rfl
  | cons e es ih =>
    simp only [List.foldl_cons]
    have : step cb s e = s := by simp [step, h]
    rw [this]; exact ih

end YaraModel.CompilerErr
