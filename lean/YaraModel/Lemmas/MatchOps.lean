/- The match-list opcodes of exec.c as regenerated (Gen/MatchOps.lean) compute what the VM model's step computes on the match views. -/
import YaraModel.Gen.MatchOps
import YaraModel.Model.CondVm
namespace YaraModel.MatchCore
open YaraModel YaraModel.Cond YaraModel.CondVm YaraModel.Gen.MatchOps

def Sorted (ms : List MatchRec) : Prop := ms.Pairwise (fun a b => (view a).1 ≤ (view b).1)

theorem found_eq (ms : List MatchRec) : OP_FOUND ms = C.b2i (!(ms.map view).isEmpty) := by
  cases ms <;> rfl

theorem count_eq (ms : List MatchRec) : OP_COUNT ms = ((ms.map view).length : Int) := by
  simp [OP_COUNT]

/-! OP_OFFSET / OP_LENGTH -/

theorem nth_loop (f : MatchRec → Int) :
    ∀ (ms : List MatchRec) (s : MS), (∀ m, m ∈ ms → f m ≠ C.UNDEF) → s.r3 = C.UNDEF →
    (whileList (fun s => decide ((s.r3 == C.UNDEF) = true)) (fun m s =>
        if decide ((s.r1 == s.i) = true) = true then
          ({ r1 := s.r1, r2 := s.r2, r3 := f m, r4 := s.r4, i := s.i + 1 }, false)
        else ({ r1 := s.r1, r2 := s.r2, r3 := s.r3, r4 := s.r4, i := s.i + 1 }, false)) ms s).r3 =
      if s.r1 ≥ s.i then ((ms[(s.r1 - s.i).toNat]?).map f).getD C.UNDEF else C.UNDEF := by
  intro ms
  induction ms with
  | nil => intro s _ h3; simp [whileList, h3]
  | cons m ms ih =>
    intro s hne h3
    have hc : decide ((s.r3 == C.UNDEF) = true) = true := by simp [h3]
    simp only [whileList, hc, if_true]
    by_cases hx : s.r1 = s.i
    · have hb : decide ((s.r1 == s.i) = true) = true := by simp [hx]
      simp only [hb, if_true, Bool.false_eq_true, if_false]
      have hm := hne m (List.mem_cons_self ..)
      have : (whileList (fun s => decide ((s.r3 == C.UNDEF) = true)) (fun m s =>
        if decide ((s.r1 == s.i) = true) = true then
          ({ r1 := s.r1, r2 := s.r2, r3 := f m, r4 := s.r4, i := s.i + 1 }, false)
        else ({ r1 := s.r1, r2 := s.r2, r3 := s.r3, r4 := s.r4, i := s.i + 1 }, false)) ms { r1 := s.r1, r2 := s.r2, r3 := f m, r4 := s.r4, i := s.i + 1 }) =
          { r1 := s.r1, r2 := s.r2, r3 := f m, r4 := s.r4, i := s.i + 1 } := by
        cases ms with
        | nil => rfl
        | cons m' ms' =>
          have : decide ((f m == C.UNDEF) = true) = false := by simp [hm]
          simp only [whileList, this, Bool.false_eq_true, if_false]
      rw [this]
      simp [hx]
    · have hb : decide ((s.r1 == s.i) = true) = false := by simp [hx]
      simp only [hb, Bool.false_eq_true, if_false]
      rw [ih { r1 := s.r1, r2 := s.r2, r3 := s.r3, r4 := s.r4, i := s.i + 1 } (fun m' hm' => hne m' (List.mem_cons_of_mem _ hm')) h3]
      simp only []
      by_cases hge : s.r1 ≥ s.i
      · have h1 : s.r1 ≥ s.i + 1 := by omega
        have h2 : (s.r1 - s.i).toNat = (s.r1 - (s.i + 1)).toNat + 1 := by omega
        simp only [hge, h1, if_true, h2, List.getElem?_cons_succ]
      · have h1 : ¬ s.r1 ≥ s.i + 1 := by omega
        simp only [hge, h1, if_false]

theorem offset_eq (ms : List MatchRec) (x : Int) (h : ∀ m, m ∈ ms → (view m).1 ≠ C.UNDEF) :
    OP_OFFSET ms x = if isU x then C.UNDEF else nthOff (ms.map view) x := by
  unfold OP_OFFSET
  by_cases hu : C.isUndef x = true
  · simp [hu, isU]
  · simp only [hu, isU, Bool.false_eq_true, if_false]
    have := nth_loop (fun m => C.add m.base m.offset) ms { r1 := x, r2 := 0, r3 := C.UNDEF, r4 := 0, i := 1 } h rfl
    simp only [] at this
    rw [this]
    simp only [nthOff, nth]
    by_cases h1 : x < 1
    · have : ¬ x ≥ 1 := by omega
      simp [h1, this]
    · have : x ≥ 1 := by omega
      simp only [h1, this, if_true, if_false, List.getElem?_map]
      cases ms[(x - 1).toNat]? <;> rfl

theorem length_eq (ms : List MatchRec) (x : Int) (h : ∀ m, m ∈ ms → (view m).2 ≠ C.UNDEF) :
    OP_LENGTH ms x = if isU x then C.UNDEF else nthLen (ms.map view) x := by
  unfold OP_LENGTH
  by_cases hu : C.isUndef x = true
  · simp [hu, isU]
  · simp only [hu, isU, Bool.false_eq_true, if_false]
    have := nth_loop (fun m => m.matchLength) ms { r1 := x, r2 := 0, r3 := C.UNDEF, r4 := 0, i := 1 } h rfl
    simp only [] at this
    rw [this]
    simp only [nthLen, nth]
    by_cases h1 : x < 1
    · have : ¬ x ≥ 1 := by omega
      simp [h1, this]
    · have : x ≥ 1 := by omega
      simp only [h1, this, if_true, if_false, List.getElem?_map]
      cases ms[(x - 1).toNat]? <;> rfl

/-! OP_FOUND_AT / OP_FOUND_IN / OP_COUNT_IN: the early `break` is sound on a list sorted by offset -/

def off (m : MatchRec) : Int := (view m).1

theorem found_at_loop (x : Int) (B : MatchRec → MS → MS × Bool)
    (hB : ∀ m s, s.r1 = x → s.r3 = 0 → B m s =
      if x = off m then ({ r1 := s.r1, r2 := s.r2, r3 := 1, r4 := s.r4, i := s.i }, true) else if x < off m then (s, true) else (s, false)) :
    ∀ (ms : List MatchRec) (s : MS), Sorted ms → s.r1 = x → s.r3 = 0 →
      (whileList (fun _ => true) B ms s).r3 = C.b2i ((ms.map view).any fun m => m.1 == x) := by
  intro ms
  induction ms with
  | nil => intro s _ _ h3; simp [whileList, h3, C.b2i]
  | cons m ms ih =>
    intro s hs h1 h3
    have hs' : Sorted ms := (List.pairwise_cons.mp hs).2
    have hle : ∀ m', m' ∈ ms → off m ≤ off m' := (List.pairwise_cons.mp hs).1
    simp only [whileList, if_true, hB m s h1 h3, List.map_cons, List.any_cons]
    by_cases c1 : x = off m
    · subst c1
      have : ((view m).1 == off m) = true := by simp [off]
      simp only [if_true, this, Bool.true_or]
      rfl
    · have hne : ((view m).1 == x) = false := by
        simp only [beq_eq_false_iff_ne, ne_eq]; intro h; exact c1 (by simp [off, h])
      simp only [c1, if_false, hne, Bool.false_or]
      by_cases c2 : x < off m
      · simp only [c2, if_true, h3]
        have : ((ms.map view).any fun m => m.1 == x) = false := by
          rw [List.any_eq_false]
          intro p hp
          obtain ⟨m', hm', rfl⟩ := List.mem_map.mp hp
          have := hle m' hm'
          simp only [beq_iff_eq]; unfold off at this c2; omega
        simp [this, C.b2i]
      · simp only [c2, if_false, Bool.false_eq_true]
        exact ih s hs' h1 h3

theorem found_in_loop (lo hi : Int) (B : MatchRec → MS → MS × Bool)
    (hB : ∀ m s, s.r1 = lo → s.r2 = hi → s.r4 = 0 → B m s =
      if lo ≤ off m ∧ off m ≤ hi then ({ r1 := s.r1, r2 := s.r2, r3 := s.r3, r4 := 1, i := s.i }, false)
      else if off m > hi then (s, true) else (s, false)) :
    ∀ (ms : List MatchRec) (s : MS), Sorted ms → s.r1 = lo → s.r2 = hi → s.r4 = 0 →
      (whileList (fun s => !decide (s.r4 ≠ 0)) B ms s).r4 = C.b2i ((ms.map view).any (inRange lo hi)) := by
  intro ms
  induction ms with
  | nil => intro s _ _ _ h4; simp [whileList, h4, C.b2i]
  | cons m ms ih =>
    intro s hs h1 h2 h4
    have hs' : Sorted ms := (List.pairwise_cons.mp hs).2
    have hle : ∀ m', m' ∈ ms → off m ≤ off m' := (List.pairwise_cons.mp hs).1
    have hc : (!decide (s.r4 ≠ 0)) = true := by simp [h4]
    simp only [whileList, hc, if_true, hB m s h1 h2 h4, List.map_cons, List.any_cons]
    by_cases c1 : lo ≤ off m ∧ off m ≤ hi
    · have hin : inRange lo hi (view m) = true := by simp [inRange]; exact c1
      simp only [c1, and_self, if_true, Bool.false_eq_true, if_false, hin, Bool.true_or]
      cases ms with
      | nil => simp [whileList, C.b2i]
      | cons m' ms' => simp [whileList, C.b2i]
    · have hin : inRange lo hi (view m) = false := by
        simp only [inRange, Bool.and_eq_false_iff, decide_eq_false_iff_not]
        unfold off at c1; omega
      simp only [c1, if_false, hin, Bool.false_or]
      by_cases c2 : off m > hi
      · simp only [c2, if_true, h4]
        have : ((ms.map view).any (inRange lo hi)) = false := by
          rw [List.any_eq_false]
          intro p hp
          obtain ⟨m', hm', rfl⟩ := List.mem_map.mp hp
          have := hle m' hm'
          simp only [inRange, Bool.and_eq_true, decide_eq_true_eq]; unfold off at this c2; omega
        simp [this, C.b2i]
      · simp only [c2, if_false, Bool.false_eq_true]
        exact ih s hs' h1 h2 h4

theorem count_in_loop (lo hi : Int) (B : MatchRec → MS → MS × Bool)
    (hB : ∀ m s, s.r1 = lo → s.r2 = hi → B m s =
      if lo ≤ off m ∧ off m ≤ hi then ({ r1 := s.r1, r2 := s.r2, r3 := s.r3, r4 := s.r4 + 1, i := s.i }, false)
      else if off m > hi then (s, true) else (s, false)) :
    ∀ (ms : List MatchRec) (s : MS), Sorted ms → s.r1 = lo → s.r2 = hi →
      (whileList (fun _ => true) B ms s).r4 = s.r4 + (((ms.map view).countP (inRange lo hi) : Nat) : Int) := by
  intro ms
  induction ms with
  | nil => intro s _ _ _; simp [whileList]
  | cons m ms ih =>
    intro s hs h1 h2
    have hs' : Sorted ms := (List.pairwise_cons.mp hs).2
    have hle : ∀ m', m' ∈ ms → off m ≤ off m' := (List.pairwise_cons.mp hs).1
    simp only [whileList, if_true, hB m s h1 h2, List.map_cons, List.countP_cons]
    by_cases c1 : lo ≤ off m ∧ off m ≤ hi
    · have hin : inRange lo hi (view m) = true := by simp [inRange]; exact c1
      simp only [c1, and_self, if_true, Bool.false_eq_true, if_false, hin]
      rw [ih { r1 := s.r1, r2 := s.r2, r3 := s.r3, r4 := s.r4 + 1, i := s.i } hs' h1 h2]
      simp only []
      omega
    · have hin : inRange lo hi (view m) = false := by
        simp only [inRange, Bool.and_eq_false_iff, decide_eq_false_iff_not]
        unfold off at c1; omega
      simp only [c1, if_false, hin, Bool.false_eq_true, Nat.add_zero]
      by_cases c2 : off m > hi
      · simp only [c2, if_true]
        have : (ms.map view).countP (inRange lo hi) = 0 := by
          rw [List.countP_eq_zero]
          intro p hp
          obtain ⟨m', hm', rfl⟩ := List.mem_map.mp hp
          have := hle m' hm'
          simp only [inRange, Bool.and_eq_true, decide_eq_true_eq]; unfold off at this c2; omega
        simp [this]
      · simp only [c2, if_false, Bool.false_eq_true]
        exact ih s hs' h1 h2

theorem found_at_eq (ms : List MatchRec) (x : Int) (hs : Sorted ms) :
    OP_FOUND_AT ms x = if isU x then C.UNDEF else C.b2i ((ms.map view).any fun m => m.1 == x) := by
  unfold OP_FOUND_AT
  by_cases hu : C.isUndef x = true
  · simp [hu, isU]
  · simp only [hu, isU, Bool.false_eq_true, if_false]
    apply found_at_loop x _ _ ms _ hs rfl rfl
    intro m s h1 h3
    simp only [h1, off, view, beq_iff_eq, decide_eq_true_eq]
    by_cases c1 : x = C.add m.base m.offset
    · simp [c1]
    · by_cases c2 : x < C.add m.base m.offset <;> simp [c1, c2]

theorem found_in_eq (ms : List MatchRec) (lo hi : Int) (hs : Sorted ms) :
    OP_FOUND_IN ms lo hi = if isU lo || isU hi then C.UNDEF else C.b2i ((ms.map view).any (inRange lo hi)) := by
  unfold OP_FOUND_IN
  by_cases hu : C.isUndef lo = true
  · simp [hu, isU]
  · by_cases hv : C.isUndef hi = true
    · simp [hu, hv, isU]
    · simp only [hu, hv, isU, Bool.false_eq_true, if_false, Bool.or_false]
      apply found_in_loop lo hi _ _ ms _ hs rfl rfl rfl
      intro m s h1 h2 h4
      simp only [h1, h2, off, view, ge_iff_le, gt_iff_lt, Bool.and_eq_true, decide_eq_true_eq]
      by_cases c1 : lo ≤ C.add m.base m.offset ∧ C.add m.base m.offset ≤ hi
      · have : ¬ hi < C.add m.base m.offset := by omega
        simp [c1, this]
      · by_cases c2 : hi < C.add m.base m.offset <;> simp [c1, c2]

theorem count_in_eq (ms : List MatchRec) (lo hi : Int) (hs : Sorted ms) :
    OP_COUNT_IN ms lo hi = if isU lo || isU hi then C.UNDEF else (((ms.map view).countP (inRange lo hi) : Nat) : Int) := by
  unfold OP_COUNT_IN
  by_cases hu : C.isUndef lo = true
  · simp [hu, isU]
  · by_cases hv : C.isUndef hi = true
    · simp [hu, hv, isU]
    · simp only [hu, hv, isU, Bool.false_eq_true, if_false, Bool.or_false]
      rw [count_in_loop lo hi _ _ ms _ hs rfl rfl]
      · simp
      · intro m s h1 h2
        simp only [h1, h2, off, view, ge_iff_le, gt_iff_lt, Bool.and_eq_true, decide_eq_true_eq]
        by_cases c1 : lo ≤ C.add m.base m.offset ∧ C.add m.base m.offset ≤ hi
        · have : ¬ hi < C.add m.base m.offset := by omega
          simp [c1, this]
        · by_cases c2 : hi < C.add m.base m.offset <;> simp [c1, c2]
end YaraModel.MatchCore
