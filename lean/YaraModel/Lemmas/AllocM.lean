/- C16 — helper lemmas about the allocation monad and the invariants of the ported functions. -/
import YaraModel.Model.AllocM
set_option linter.unusedVariables false
set_option linter.unusedSimpArgs false
namespace YaraModel.AllocM

variable (fail : Nat → Bool)

theorem alloc_none {h h1 : Heap} (e : alloc fail h = (none, h1)) : h1.live = h.live ∧ h1.next = h.next + 1 := by
  unfold alloc at e
  split at e
  · cases e; exact ⟨rfl, rfl⟩
  · cases e

theorem alloc_some {h h1 : Heap} {b : Nat} (e : alloc fail h = (some b, h1)) :
    h1.live = b :: h.live ∧ b = h.next ∧ h1.next = h.next + 1 ∧ fail h.next = false := by
  unfold alloc at e
  split at e
  · cases e
  · rename_i hf
    cases e
    exact ⟨rfl, rfl, rfl, by simpa using hf⟩

theorem free_live (b : Nat) (h : Heap) : (free b h).2.live = h.live.filter (· ≠ b) ∧ (free b h).2.next = h.next := ⟨rfl, rfl⟩

theorem freeOpt_sub (o : Option Nat) (h : Heap) : (freeOpt o h).2.live ⊆ h.live := by
  cases o with
  | none => exact fun _ h => h
  | some b => exact (List.filter_sublist).subset

theorem freeAll_mem (bs : List Nat) (h : Heap) (x : Nat) :
    x ∈ (freeAll bs h).2.live ↔ x ∈ h.live ∧ ¬ x ∈ bs := by
  induction bs generalizing h with
  | nil => simp [freeAll]
  | cons b bs ih =>
    simp only [freeAll]
    rw [ih]
    simp only [free, List.mem_filter, ne_eq, decide_not, Bool.not_eq_eq_eq_not, Bool.not_true, decide_eq_false_iff_not, List.mem_cons, not_or]
    constructor
    · rintro ⟨⟨h1, h2⟩, h3⟩; exact ⟨h1, h2, h3⟩
    · rintro ⟨h1, h2, h3⟩; exact ⟨⟨h1, h2⟩, h3⟩

theorem freeAll_next (bs : List Nat) (h : Heap) : (freeAll bs h).2.next = h.next := by
  induction bs generalizing h with
  | nil => rfl
  | cons b bs ih => simp only [freeAll]; rw [ih]; rfl

/-- the key step of every cleanup argument: freeing the owned blocks of a heap whose live set is
    covered by `owned ++ base` leaves only blocks of `base`. -/
theorem freeAll_cover (owned base : List Nat) (h : Heap) (hc : h.live ⊆ owned ++ base) :
    (freeAll owned h).2.live ⊆ base := by
  intro x hx
  have hx' := (freeAll_mem owned h x).1 hx
  have := hc hx'.1
  simp only [List.mem_append] at this
  rcases this with h1 | h1
  · exact absurd h1 hx'.2
  · exact h1

theorem free_cover (b : Nat) (owned base : List Nat) (h : Heap) (hc : h.live ⊆ b :: owned ++ base) :
    (free b h).2.live ⊆ owned ++ base := by
  rw [(free_live b h).1]
  intro x hx
  simp only [List.mem_filter, ne_eq, decide_not, Bool.not_eq_eq_eq_not, Bool.not_true, decide_eq_false_iff_not] at hx
  have := hc hx.1
  simp only [List.cons_append, List.mem_cons] at this
  rcases this with h1 | h1
  · exact absurd h1 hx.2
  · exact h1

/-! ### Aho-Corasick queue -/

/-- live blocks are covered by the queue nodes and the blocks that were live at entry -/
def QInv (q : Queue) (base : List Nat) (h : Heap) : Prop := h.live ⊆ q.map (·.1) ++ base

theorem pushAll_inv (ts : List Trie) (q : Queue) (base : List Nat) (h : Heap) (hi : QInv q base h) :
    QInv (pushAll fail ts q h).1.2 base (pushAll fail ts q h).2 := by
  induction ts generalizing q h with
  | nil => exact hi
  | cons t ts ih =>
    simp only [pushAll]
    cases e : alloc fail h with
    | mk o h1 =>
      cases o with
      | none =>
        simp only
        have := alloc_none fail e
        unfold QInv; rw [this.1]; exact hi
      | some b =>
        simp only
        apply ih
        have := alloc_some fail e
        unfold QInv; rw [this.1]
        intro x hx
        simp only [List.mem_cons] at hx
        simp only [List.map_append, List.map_cons, List.map_nil, List.append_assoc, List.mem_append, List.mem_cons, List.mem_singleton]
        rcases hx with hx | hx
        · exact Or.inr (Or.inl (Or.inl hx))
        · have := hi hx
          simp only [List.mem_append] at this
          rcases this with h1 | h1
          · exact Or.inl h1
          · exact Or.inr (Or.inr h1)

theorem bfs_inv (n : Nat) (q : Queue) (base : List Nat) (h : Heap) (hi : QInv q base h) :
    QInv (bfs fail n q h).1.2 base (bfs fail n q h).2 := by
  induction n generalizing q h with
  | zero => exact hi
  | succ n ih =>
    cases q with
    | nil => exact hi
    | cons bt q =>
      obtain ⟨b, t⟩ := bt
      simp only [bfs]
      have h1i : QInv q base (free b h).2 := by
        unfold QInv
        apply free_cover
        simpa [QInv] using hi
      have hp := pushAll_inv fail t.children q base (free b h).2 h1i
      cases e : pushAll fail t.children q (free b h).2 with
      | mk rq h2 =>
        obtain ⟨r, q'⟩ := rq
        rw [e] at hp
        cases r with
        | ok => exact ih q' h2 hp
        | insufficientMemory => exact hp

/-! ### scanner -/

def Scanner.owned (s : Scanner) : List Nat := s.table ++ s.arrays.filterMap id ++ [s.self]

theorem scannerDestroy_cover (s : Scanner) (base : List Nat) (h : Heap) (hc : h.live ⊆ s.owned ++ base) :
    (scannerDestroy s h).2.live ⊆ base := by
  unfold scannerDestroy
  simp only
  have h1 : (freeAll s.table h).2.live ⊆ (s.arrays.filterMap id ++ [s.self]) ++ base := by
    apply freeAll_cover
    simpa [Scanner.owned, List.append_assoc] using hc
  have h2 : (freeAll (s.arrays.filterMap id) (freeAll s.table h).2).2.live ⊆ [s.self] ++ base := by
    apply freeAll_cover
    simpa [List.append_assoc] using h1
  have := free_cover s.self [] base _ (by simpa using h2)
  simpa using this

theorem allocArrays_cover (n : Nat) (acc : List (Option Nat)) (rest base : List Nat) (h : Heap)
    (hc : h.live ⊆ acc.filterMap id ++ rest ++ base) :
    (allocArrays fail n acc h).2.live ⊆ (allocArrays fail n acc h).1.filterMap id ++ rest ++ base := by
  induction n generalizing acc h with
  | zero =>
    simp only [allocArrays]
    intro x hx
    have := hc hx
    simp only [List.mem_append, List.mem_filterMap, id_eq, exists_eq_right, List.mem_reverse] at this ⊢
    exact this
  | succ n ih =>
    simp only [allocArrays]
    apply ih
    cases e : alloc fail h with
    | mk o h1 =>
      cases o with
      | none =>
        have := alloc_none fail e
        simp only [List.filterMap_cons, id_eq]
        rw [this.1]; exact hc
      | some b =>
        have := alloc_some fail e
        simp only [List.filterMap_cons, id_eq]
        rw [this.1]
        intro x hx
        simp only [List.mem_cons] at hx
        simp only [List.cons_append, List.mem_cons]
        rcases hx with hx | hx
        · exact Or.inl hx
        · exact Or.inr (hc hx)

end YaraModel.AllocM
