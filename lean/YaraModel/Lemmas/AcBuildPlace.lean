/- Aho-Corasick construction, helper lemmas 9: what one iteration of the packing loop writes -/
import YaraModel.Lemmas.AcBuildPack
namespace YaraModel.AC.Build
open YaraModel.Text YaraModel.AC

/-- everything in a state but its slot -/
def noslot (s : State) : UInt8 × Nat × Nat × Nat × List Nat × Bytes := (s.input, s.depth, s.matchesRef, s.failure, s.children, s.path)

theorem placeChild_A_st (slot : Nat) (P : Pack) (ch j : Nat) :
    (placeChild slot P ch).A.st j =
      if j = ch ∧ ch < P.A.states.size then { P.A.st ch with slot := slot + (P.A.st ch).input.toNat + 1 } else P.A.st j := by
  unfold placeChild
  simp only
  rw [st_modify]

theorem placeFold_spec (slot : Nat) : ∀ (l : List Nat) (P : Pack),
    (l.foldl (placeChild slot) P).m = P.m ∧ (l.foldl (placeChild slot) P).ok = P.ok ∧
    (l.foldl (placeChild slot) P).t.size = P.t.size ∧ (l.foldl (placeChild slot) P).used.size = P.used.size ∧
    (l.foldl (placeChild slot) P).A.states.size = P.A.states.size ∧ (l.foldl (placeChild slot) P).A.pool = P.A.pool ∧
    (∀ j, noslot ((l.foldl (placeChild slot) P).A.st j) = noslot (P.A.st j)) ∧
    (∀ j, ((l.foldl (placeChild slot) P).A.st j).slot =
      if j ∈ l ∧ j < P.A.states.size then slot + (P.A.st j).input.toNat + 1 else (P.A.st j).slot) ∧
    (∀ i, (l.foldl (placeChild slot) P).t.getD i 0 =
      if (∃ y ∈ l, slot + (P.A.st y).input.toNat + 1 = i) ∧ i < P.t.size then mkTransition 0 (i - slot) else P.t.getD i 0) ∧
    (∀ i, isUsed (l.foldl (placeChild slot) P).used i =
      if (∃ y ∈ l, slot + (P.A.st y).input.toNat + 1 = i) ∧ i < P.used.size then true else isUsed P.used i) := by
  intro l
  induction l with
  | nil => intro P; simp
  | cons a l ih =>
    intro P
    rw [List.foldl_cons]
    obtain ⟨i1, i2, i3, i4, i5, i6, i7, i8, i9, i10⟩ := ih (placeChild slot P a)
    have hA := placeChild_A_st slot P a
    have hinp : ∀ j, ((placeChild slot P a).A.st j).input = (P.A.st j).input := by
      intro j; rw [hA]; split
      · rename_i e; rw [e.1]
      · rfl
    have hsz : (placeChild slot P a).A.states.size = P.A.states.size := by simp [placeChild]
    refine ⟨i1, i2, by rw [i3]; simp [placeChild], by rw [i4]; simp [placeChild], by rw [i5, hsz], by rw [i6]; rfl, ?_, ?_, ?_, ?_⟩
    · intro j
      rw [i7, hA]
      split
      · rename_i e; rw [e.1]; rfl
      · rfl
    · intro j
      rw [i8, hsz, hinp]
      by_cases hj : j < P.A.states.size
      · by_cases hjl : j ∈ l
        · simp [hjl, hj]
        · by_cases hja : j = a
          · subst hja; simp [hjl, hj, hA]
          · simp [hjl, hja, hA]
      · simp [hj]
        rw [hA]
        have : ¬ (j = a ∧ a < P.A.states.size) := fun e => hj (e.1 ▸ e.2)
        rw [if_neg this]
    · intro i
      rw [i9]
      have hts : (placeChild slot P a).t.size = P.t.size := by simp [placeChild]
      have hta : (placeChild slot P a).t.getD i 0 =
          if i = slot + (P.A.st a).input.toNat + 1 ∧ slot + (P.A.st a).input.toNat + 1 < P.t.size
          then mkTransition 0 ((P.A.st a).input.toNat + 1) else P.t.getD i 0 := by
        unfold placeChild; simp only; rw [getD_set]
      rw [hts, hta]
      simp only [hinp, List.mem_cons, exists_eq_or_imp]
      by_cases hi : i < P.t.size
      · by_cases hl : ∃ y ∈ l, slot + (P.A.st y).input.toNat + 1 = i
        · simp [hl, hi]
        · by_cases ha : slot + (P.A.st a).input.toNat + 1 = i
          · simp only [hl, hi, ha, false_and, if_false, or_false, and_self, if_true]
            rw [← ha]
            have : slot + (P.A.st a).input.toNat + 1 - slot = (P.A.st a).input.toNat + 1 := by omega
            rw [this]
          · have : ¬ (i = slot + (P.A.st a).input.toNat + 1 ∧ slot + (P.A.st a).input.toNat + 1 < P.t.size) := fun e => ha e.1.symm
            simp [hl, ha, this]
      · have : ¬ (i = slot + (P.A.st a).input.toNat + 1 ∧ slot + (P.A.st a).input.toNat + 1 < P.t.size) := fun e => hi (e.1 ▸ e.2)
        simp [hi, this]
    · intro i
      rw [i10]
      have hus : (placeChild slot P a).used.size = P.used.size := by simp [placeChild]
      have hua : isUsed (placeChild slot P a).used i =
          if i = slot + (P.A.st a).input.toNat + 1 ∧ slot + (P.A.st a).input.toNat + 1 < P.used.size
          then true else isUsed P.used i := by
        unfold placeChild isUsed; simp only; rw [getD_set]
      rw [hus, hua]
      simp only [hinp, List.mem_cons, exists_eq_or_imp]
      by_cases hi : i < P.used.size
      · by_cases hl : ∃ y ∈ l, slot + (P.A.st y).input.toNat + 1 = i
        · simp [hl, hi]
        · by_cases ha : slot + (P.A.st a).input.toNat + 1 = i
          · simp [hl, hi, ha]
          · have : ¬ (i = slot + (P.A.st a).input.toNat + 1 ∧ slot + (P.A.st a).input.toNat + 1 < P.used.size) := fun e => ha e.1.symm
            simp [hl, ha, this]
      · have : ¬ (i = slot + (P.A.st a).input.toNat + 1 ∧ slot + (P.A.st a).input.toNat + 1 < P.used.size) := fun e => hi (e.1 ▸ e.2)
        simp [hi, this]

end YaraModel.AC.Build
