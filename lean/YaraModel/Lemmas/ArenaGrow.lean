/- Growth of a buffer (realloc + fix-up loop) is invisible in the abstract arena. -/
import YaraModel.Lemmas.ArenaKeys
namespace YaraModel.Arena
open YaraModel.Gen.ArenaLayout

/-! ### the pointer-level core: converting after the move gives the reference it gave before -/

/-- what the fix-up loop does to a slot value when buffer `b` moves from `old` to `new` (nothing if the
    buffer was unallocated or realloc extended it in place) -/
def moveVal (old used new : Nat) (v : Nat) : Nat :=
  if old ≠ 0 ∧ old ≠ new then retarget old used new v else v

theorem retarget_eq (old used new p : Nat) :
    retarget old used new p = if old ≤ p ∧ p < old + used then p - old + new else p := by
  simp [retarget, geLo, ltHi, fixupLowerInclusive, fixupUpperExclusive]

theorem ptrToRef_after_move {a : Arena} (hr : RangesOk a.bufs) {b newBase nc : Nat} (hb : b < a.bufs.length)
    (hf : Fresh a b newBase nc) (d : Bool) {v : Nat} (hv : ValidPtr a.bufs v) :
    ptrToRef (placed a.bufs b newBase nc d) (moveVal (a.bufAt b).base (a.bufAt b).data.length newBase v)
      = ptrToRef a.bufs v ∧ moveVal (a.bufAt b).base (a.bufAt b).data.length newBase v < 2 ^ 64 := by
  have hr' := rangesOk_placed hr hf d
  have hget : ∀ j, (placed a.bufs b newBase nc d).getD j {} =
      if b = j ∧ j < a.bufs.length then { a.bufAt j with cap := nc, base := newBase, dirty := d } else a.bufAt j := by
    intro j; unfold placed Arena.bufAt; rw [getD_modify]
  rcases hv with rfl | ⟨j, hj, hh⟩
  · have : moveVal (a.bufAt b).base (a.bufAt b).data.length newBase 0 = 0 := by
      unfold moveVal; split
      · rw [retarget_eq]; rw [if_neg (by omega)]
      · rfl
    rw [this, ptrToRef_zero, ptrToRef_zero]; exact ⟨rfl, by decide⟩
  · have hfj := hr.fits _ (mem_iff_getD.2 ⟨j, hj, rfl⟩)
    rw [ptrToRef_hit hr hj hh]
    by_cases hjb : j = b
    · subst hjb
      have hh' := hh
      unfold Hits at hh'
      change (a.bufAt j).base ≠ 0 ∧ (a.bufAt j).base ≤ v ∧ v < (a.bufAt j).base + (a.bufAt j).data.length at hh'
      have hmv : moveVal (a.bufAt j).base (a.bufAt j).data.length newBase v = v - (a.bufAt j).base + newBase := by
        unfold moveVal
        split
        · rw [retarget_eq, if_pos ⟨hh'.2.1, hh'.2.2⟩]
        · rename_i hne
          have : (a.bufAt j).base = newBase := by omega
          omega
      rw [hmv]
      have hhit : Hits ((placed a.bufs j newBase nc d).getD j {}) (v - (a.bufAt j).base + newBase) := by
        rw [hget]; simp only [hj, and_self, if_true]
        unfold Hits; simp only
        exact ⟨hf.nonnull, by omega, by omega⟩
      rw [ptrToRef_hit hr' (by rw [placed_length]; exact hj) hhit]
      have hfit := hf.fits
      refine ⟨?_, by omega⟩
      rw [hget]; simp only [hj, and_self, if_true]
      congr 3
      show v - (a.bufAt j).base + newBase - newBase = v - (a.bufs.getD j {}).base
      unfold Arena.bufAt; omega
    · have hap := pairwise_getD hr.apart hb hj (fun e => hjb e.symm)
      have hfb := hr.fits _ (mem_iff_getD.2 ⟨b, hb, rfl⟩)
      have hmv : moveVal (a.bufAt b).base (a.bufAt b).data.length newBase v = v := by
        unfold moveVal
        split
        · rw [retarget_eq, if_neg]
          unfold Hits at hh; unfold Apart at hap
          have h1 := hfb.1; have h2 := hfj.1
          simp only [Arena.bufAt] at *
          omega
        · rfl
      rw [hmv]
      have hhit : Hits ((placed a.bufs b newBase nc d).getD j {}) v := by
        rw [hget, if_neg (by omega)]; exact hh
      rw [ptrToRef_hit hr' (by rw [placed_length]; exact hj) hhit, hget, if_neg (by omega)]
      refine ⟨rfl, ?_⟩
      unfold Hits at hh; omega

/-! ### growth as an in-place map followed by a change of the buffer's address and capacity -/

theorem setBuf_eq_setMeta (a : Arena) (b cap base : Nat) (d : Bool) :
    a.setBuf b { data := (a.bufAt b).data, cap := cap, base := base, dirty := d } = setMeta a b cap base d := by
  refine Arena.ext' ?_ (by rfl) (by rfl) (by rfl)
  simp only [Arena.setBuf, setMeta]
  apply List.ext_getElem?
  intro j
  simp only [List.getElem?_set, List.getElem?_modify, bufAt_eq]
  by_cases h : b = j
  · subst h
    by_cases hl : b < a.bufs.length
    · simp [hl]
    · simp [hl]
  · simp [h]

theorem fixups_eq (a : Arena) (old used new : Nat) : fixups a old used new = mapSlots (retarget old used new) a.relocs a := rfl

theorem growBuf_eq {a : Arena} (hs : SlotsOk a a.relocs) (b newBase nc : Nat) (zero : Bool) :
    growBuf a b newBase nc zero =
      setMeta (mapSlots (moveVal (a.bufAt b).base (a.bufAt b).data.length newBase) a.relocs a) b nc newBase (!zero) := by
  unfold growBuf
  rw [setBuf_eq_setMeta]
  congr 1
  unfold moveVal
  split
  · rw [fixups_eq]
  · rw [mapSlots_id hs (fun _ _ => rfl)]

theorem setMeta_bufs (a : Arena) (b cap base : Nat) (d : Bool) : (setMeta a b cap base d).bufs = placed a.bufs b base cap d := rfl

/-- **relocation is invisible**: after a growth (with or without a move) every registered pointer
    denotes the same (buffer, offset) and all other bytes are untouched -/
theorem abs_growBuf {a : Arena} (h : WF a) {b newBase nc : Nat} (hb : b < a.bufs.length) (hf : Fresh a b newBase nc) (zero : Bool) :
    abs (growBuf a b newBase nc zero) = abs a := by
  rw [growBuf_eq h.slots]
  unfold abs
  have hrel : (setMeta (mapSlots (moveVal (a.bufAt b).base (a.bufAt b).data.length newBase) a.relocs a) b nc newBase (!zero)).relocs = a.relocs := by
    simp [setMeta]
  rw [hrel]
  congr 1
  rw [toRefs_eq, toRefs_eq, hrel]
  -- pointer conversion only looks at addresses and lengths
  have hk : (setMeta (mapSlots (moveVal (a.bufAt b).base (a.bufAt b).data.length newBase) a.relocs a) b nc newBase (!zero)).bufs.map key
      = (placed a.bufs b newBase nc (!zero)).map key := by
    rw [← setMeta_bufs a]
    exact keys_setMeta_congr (keys_mapSlots _ _ _) _ _ _ _
  have hψ : (fun v => encRef (ptrToRef (setMeta (mapSlots (moveVal (a.bufAt b).base (a.bufAt b).data.length newBase) a.relocs a) b nc newBase (!zero)).bufs v).2)
      = (fun v => encRef (ptrToRef (placed a.bufs b newBase nc (!zero)) v).2) := by
    funext v; rw [ptrToRef_congr hk]
  rw [hψ, mapSlots_setMeta, bodies_setMeta]
  rw [mapSlots_comp _ _ h.slots (fun r hr => (ptrToRef_after_move h.ranges hb hf (!zero) (h.valid r hr)).2)]
  congr 1
  apply mapSlots_congr h.slots
  intro r hr
  show encRef (ptrToRef (placed a.bufs b newBase nc (!zero)) (moveVal (a.bufAt b).base (a.bufAt b).data.length newBase (getSlot a r))).2
    = encRef (ptrToRef a.bufs (getSlot a r)).2
  rw [(ptrToRef_after_move h.ranges hb hf (!zero) (h.valid r hr)).1]

end YaraModel.Arena
