/- Growth of a buffer (realloc + fix-up loop) is invisible in the abstract arena, and preserves the protocol. -/
import YaraModel.Lemmas.ArenaPtr
namespace YaraModel.Arena
open YaraModel.Gen.ArenaLayout

/-! ### what pointer conversion looks at -/

def key (b : Buf) : Nat × Nat := (b.base, b.data.length)

theorem findBuf_congr {l l' : List Buf} (h : l.map key = l'.map key) (p k : Nat) : findBuf p l k = findBuf p l' k := by
  induction l generalizing l' k with
  | nil =>
    cases l' with
    | nil => rfl
    | cons _ _ => simp at h
  | cons b t ih =>
    cases l' with
    | nil => simp at h
    | cons b' t' =>
      simp only [List.map_cons, List.cons.injEq] at h
      have hk : Hits b p ↔ Hits b' p := by
        have := h.1; unfold key at this; simp only [Prod.mk.injEq] at this
        unfold Hits; rw [this.1, this.2]
      rw [findBuf_cons, findBuf_cons, ih h.2]
      have hb : b.base = b'.base := by have := h.1; unfold key at this; simp only [Prod.mk.injEq] at this; exact this.1
      by_cases hh : Hits b p
      · simp [hh, hk.1 hh, hb]
      · have hh' : ¬ Hits b' p := fun x => hh (hk.2 x)
        simp [hh, hh']

theorem ptrToRef_congr {l l' : List Buf} (h : l.map key = l'.map key) (p : Nat) : ptrToRef l p = ptrToRef l' p := by
  unfold ptrToRef; rw [findBuf_congr h]

theorem keys_setSlot (a : Arena) (r : Ref) (v : Nat) : (setSlot a r v).bufs.map key = a.bufs.map key := by
  apply List.ext_getElem?
  intro i
  simp only [setSlot, List.getElem?_map, List.getElem?_modify]
  by_cases h : r.buf = i
  · subst h; cases a.bufs[r.buf]? <;> simp [key, length_wr64]
  · simp [h]

theorem keys_mapSlots (φ : Nat → Nat) (rs : List Ref) (a : Arena) : (mapSlots φ rs a).bufs.map key = a.bufs.map key := by
  induction rs generalizing a with
  | nil => simp only [mapSlots_nil]
  | cons r t ih => rw [mapSlots_cons, ih, keys_setSlot]

theorem keys_setMeta_congr {a a' : Arena} (h : a.bufs.map key = a'.bufs.map key) (i cap base : Nat) (d : Bool) :
    (setMeta a i cap base d).bufs.map key = (setMeta a' i cap base d).bufs.map key := by
  apply List.ext_getElem?
  intro j
  have hj : (a.bufs.map key)[j]? = (a'.bufs.map key)[j]? := by rw [h]
  simp only [List.getElem?_map] at hj
  simp only [setMeta, List.getElem?_map, List.getElem?_modify]
  by_cases hi : i = j
  · subst hi
    cases h1 : a.bufs[i]? <;> cases h2 : a'.bufs[i]? <;> simp [h1, h2, key] at hj ⊢
    exact hj.2
  · simpa [hi] using hj

/-! ### heap picture after a growth -/

theorem getD_modify (l : List Buf) (i : Nat) (f : Buf → Buf) (j : Nat) :
    (l.modify i f).getD j {} = if i = j ∧ j < l.length then f (l.getD j {}) else l.getD j {} := by
  simp only [List.getD_eq_getElem?_getD, List.getElem?_modify]
  by_cases h : i = j
  · subst h
    by_cases hl : i < l.length
    · simp [hl]
    · simp [hl]
  · simp [h]

theorem mem_iff_getD {l : List Buf} {x : Buf} : x ∈ l ↔ ∃ j, j < l.length ∧ l.getD j {} = x := by
  rw [List.mem_iff_getElem]
  constructor
  · rintro ⟨j, hj, rfl⟩; exact ⟨j, hj, by simp [List.getD_eq_getElem?_getD, hj]⟩
  · rintro ⟨j, hj, rfl⟩; exact ⟨j, hj, by simp [List.getD_eq_getElem?_getD, hj]⟩

theorem Apart.symm {b c : Buf} (h : Apart b c) : Apart c b := by unfold Apart at *; omega

theorem pairwise_getD {l : List Buf} (h : l.Pairwise Apart) {i j : Nat} (hi : i < l.length) (hj : j < l.length) (hne : i ≠ j) :
    Apart (l.getD i {}) (l.getD j {}) := by
  rw [List.pairwise_iff_getElem] at h
  have ei : l.getD i {} = l[i] := by simp [List.getD_eq_getElem?_getD, hi]
  have ej : l.getD j {} = l[j] := by simp [List.getD_eq_getElem?_getD, hj]
  rw [ei, ej]
  rcases Nat.lt_or_gt_of_ne hne with hlt | hgt
  · exact h i j hi hj hlt
  · exact (h j i hj hi hgt).symm

theorem pairwise_of_getD {l : List Buf} (h : ∀ i j, i < l.length → j < l.length → i < j → Apart (l.getD i {}) (l.getD j {})) :
    l.Pairwise Apart := by
  rw [List.pairwise_iff_getElem]
  intro i j hi hj hlt
  have := h i j hi hj hlt
  simpa [List.getD_eq_getElem?_getD, hi, hj] using this

/-- the buffer list after buffer `b` was placed at `newBase` with capacity `nc` -/
def placed (l : List Buf) (b newBase nc : Nat) (d : Bool) : List Buf :=
  l.modify b (fun x => { x with cap := nc, base := newBase, dirty := d })

theorem placed_length (l : List Buf) (b newBase nc : Nat) (d : Bool) : (placed l b newBase nc d).length = l.length := by
  simp [placed]

theorem rangesOk_placed {a : Arena} (h : RangesOk a.bufs) {b newBase nc : Nat} (hf : Fresh a b newBase nc) (d : Bool) :
    RangesOk (placed a.bufs b newBase nc d) := by
  have hget : ∀ j, (placed a.bufs b newBase nc d).getD j {} =
      if b = j ∧ j < a.bufs.length then { a.bufAt j with cap := nc, base := newBase, dirty := d } else a.bufAt j := by
    intro j; unfold placed Arena.bufAt; rw [getD_modify]
  constructor
  · intro x hx
    obtain ⟨j, hj, rfl⟩ := mem_iff_getD.1 hx
    rw [placed_length] at hj
    rw [hget]
    split
    · rename_i hb; obtain ⟨rfl, _⟩ := hb; exact hf.fits
    · exact h.fits _ (mem_iff_getD.2 ⟨j, hj, rfl⟩)
  · intro x hx
    obtain ⟨j, hj, rfl⟩ := mem_iff_getD.1 hx
    rw [placed_length] at hj
    rw [hget]
    split
    · intro h0; exact absurd h0 hf.nonnull
    · exact h.null _ (mem_iff_getD.2 ⟨j, hj, rfl⟩)
  · apply pairwise_of_getD
    intro i j hi hj hlt
    rw [placed_length] at hi hj
    rw [hget, hget]
    have hij : i ≠ j := by omega
    by_cases hbi : b = i
    · subst hbi
      have := hf.others j hj (by omega)
      simp only [hi, and_self, if_true]
      rw [if_neg (by omega)]
      unfold Apart; simp only; omega
    · by_cases hbj : b = j
      · subst hbj
        have := hf.others i hi (by omega)
        rw [if_neg (by omega)]
        simp only [hj, and_self, if_true]
        unfold Apart; simp only; omega
      · rw [if_neg (by omega), if_neg (by omega)]
        exact pairwise_getD h.apart hi hj hij

/-! ### the pointer-level core: converting after the move gives the reference it gave before -/

/-- what the fix-up loop does to a slot value when buffer `b` moves from `old` to `new` (nothing if the
    buffer was unallocated or realloc extended it in place) -/
def moveVal (old used new : Nat) (v : Nat) : Nat :=
  if old ≠ 0 ∧ old ≠ new then retarget old used new v else v

theorem retarget_eq (old used new p : Nat) :
    retarget old used new p = if old ≤ p ∧ p < old + used then p - old + new else p := by
  simp [retarget, geLo, ltHi, fixupLowerInclusive, fixupUpperExclusive]

theorem ptrToRef_after_move {a : Arena} (hr : RangesOk a.bufs) {b newBase nc : Nat} (hb : b < a.bufs.length)
    (hf : Fresh a b newBase nc) (d : Bool) {v : Nat} (hv : ValidPtr a.bufs v) :
    ptrToRef (placed a.bufs b newBase nc d) (moveVal (a.bufAt b).base (a.bufAt b).data.length newBase v)
      = ptrToRef a.bufs v ∧ moveVal (a.bufAt b).base (a.bufAt b).data.length newBase v < 2 ^ 64 := by
  have hr' := rangesOk_placed hr hf d
  have hget : ∀ j, (placed a.bufs b newBase nc d).getD j {} =
      if b = j ∧ j < a.bufs.length then { a.bufAt j with cap := nc, base := newBase, dirty := d } else a.bufAt j := by
    intro j; unfold placed Arena.bufAt; rw [getD_modify]
  rcases hv with rfl | ⟨j, hj, hh⟩
  · have : moveVal (a.bufAt b).base (a.bufAt b).data.length newBase 0 = 0 := by
      unfold moveVal; split
      · rw [retarget_eq]; rw [if_neg (by omega)]
      · rfl
    rw [this, ptrToRef_zero, ptrToRef_zero]; exact ⟨rfl, by decide⟩
  · have hfj := hr.fits _ (mem_iff_getD.2 ⟨j, hj, rfl⟩)
    rw [ptrToRef_hit hr hj hh]
    by_cases hjb : j = b
    · subst hjb
      have hh' := hh
      unfold Hits at hh'
      change (a.bufAt j).base ≠ 0 ∧ (a.bufAt j).base ≤ v ∧ v < (a.bufAt j).base + (a.bufAt j).data.length at hh'
      have hmv : moveVal (a.bufAt j).base (a.bufAt j).data.length newBase v = v - (a.bufAt j).base + newBase := by
        unfold moveVal
        split
        · rw [retarget_eq, if_pos ⟨hh'.2.1, hh'.2.2⟩]
        · rename_i hne
          have : (a.bufAt j).base = newBase := by omega
          omega
      rw [hmv]
      have hhit : Hits ((placed a.bufs j newBase nc d).getD j {}) (v - (a.bufAt j).base + newBase) := by
        rw [hget]; simp only [hj, and_self, if_true]
        unfold Hits; simp only
        exact ⟨hf.nonnull, by omega, by omega⟩
      rw [ptrToRef_hit hr' (by rw [placed_length]; exact hj) hhit]
      have hfit := hf.fits
      refine ⟨?_, by omega⟩
      rw [hget]; simp only [hj, and_self, if_true]
      congr 3
      show v - (a.bufAt j).base + newBase - newBase = v - (a.bufs.getD j {}).base
      unfold Arena.bufAt; omega
    · have hap := pairwise_getD hr.apart hb hj (fun e => hjb e.symm)
      have hfb := hr.fits _ (mem_iff_getD.2 ⟨b, hb, rfl⟩)
      have hmv : moveVal (a.bufAt b).base (a.bufAt b).data.length newBase v = v := by
        unfold moveVal
        split
        · rw [retarget_eq, if_neg]
          unfold Hits at hh; unfold Apart at hap
          have h1 := hfb.1; have h2 := hfj.1
          simp only [Arena.bufAt] at *
          omega
        · rfl
      rw [hmv]
      have hhit : Hits ((placed a.bufs b newBase nc d).getD j {}) v := by
        rw [hget, if_neg (by omega)]; exact hh
      rw [ptrToRef_hit hr' (by rw [placed_length]; exact hj) hhit, hget, if_neg (by omega)]
      refine ⟨rfl, ?_⟩
      unfold Hits at hh; omega

/-! ### growth as an in-place map followed by a change of the buffer's address and capacity -/

theorem setBuf_eq_setMeta (a : Arena) (b cap base : Nat) (d : Bool) :
    a.setBuf b { data := (a.bufAt b).data, cap := cap, base := base, dirty := d } = setMeta a b cap base d := by
  refine Arena.ext' ?_ (by rfl) (by rfl) (by rfl)
  simp only [Arena.setBuf, setMeta]
  apply List.ext_getElem?
  intro j
  simp only [List.getElem?_set, List.getElem?_modify, bufAt_eq]
  by_cases h : b = j
  · subst h
    by_cases hl : b < a.bufs.length
    · simp [hl]
    · simp [hl]
  · simp [h]

theorem fixups_eq (a : Arena) (old used new : Nat) : fixups a old used new = mapSlots (retarget old used new) a.relocs a := rfl

theorem growBuf_eq {a : Arena} (hs : SlotsOk a a.relocs) (b newBase nc : Nat) (zero : Bool) :
    growBuf a b newBase nc zero =
      setMeta (mapSlots (moveVal (a.bufAt b).base (a.bufAt b).data.length newBase) a.relocs a) b nc newBase (!zero) := by
  unfold growBuf
  rw [setBuf_eq_setMeta]
  congr 1
  unfold moveVal
  split
  · rw [fixups_eq]
  · rw [mapSlots_id hs (fun _ _ => rfl)]

theorem setMeta_bufs (a : Arena) (b cap base : Nat) (d : Bool) : (setMeta a b cap base d).bufs = placed a.bufs b base cap d := rfl

/-- **relocation is invisible**: after a growth (with or without a move) every registered pointer
    denotes the same (buffer, offset) and all other bytes are untouched -/
theorem abs_growBuf {a : Arena} (h : WF a) {b newBase nc : Nat} (hb : b < a.bufs.length) (hf : Fresh a b newBase nc) (zero : Bool) :
    abs (growBuf a b newBase nc zero) = abs a := by
  rw [growBuf_eq h.slots]
  unfold abs
  have hrel : (setMeta (mapSlots (moveVal (a.bufAt b).base (a.bufAt b).data.length newBase) a.relocs a) b nc newBase (!zero)).relocs = a.relocs := by
    simp [setMeta]
  rw [hrel]
  congr 1
  rw [toRefs_eq, toRefs_eq, hrel]
  -- pointer conversion only looks at addresses and lengths
  have hk : (setMeta (mapSlots (moveVal (a.bufAt b).base (a.bufAt b).data.length newBase) a.relocs a) b nc newBase (!zero)).bufs.map key
      = (placed a.bufs b newBase nc (!zero)).map key := by
    rw [← setMeta_bufs a]
    exact keys_setMeta_congr (keys_mapSlots _ _ _) _ _ _ _
  have hψ : (fun v => encRef (ptrToRef (setMeta (mapSlots (moveVal (a.bufAt b).base (a.bufAt b).data.length newBase) a.relocs a) b nc newBase (!zero)).bufs v).2)
      = (fun v => encRef (ptrToRef (placed a.bufs b newBase nc (!zero)) v).2) := by
    funext v; rw [ptrToRef_congr hk]
  rw [hψ, mapSlots_setMeta, bodies_setMeta]
  rw [mapSlots_comp _ _ h.slots (fun r hr => (ptrToRef_after_move h.ranges hb hf (!zero) (h.valid r hr)).2)]
  congr 1
  apply mapSlots_congr h.slots
  intro r hr
  show encRef (ptrToRef (placed a.bufs b newBase nc (!zero)) (moveVal (a.bufAt b).base (a.bufAt b).data.length newBase (getSlot a r))).2
    = encRef (ptrToRef a.bufs (getSlot a r)).2
  rw [(ptrToRef_after_move h.ranges hb hf (!zero) (h.valid r hr)).1]

end YaraModel.Arena
