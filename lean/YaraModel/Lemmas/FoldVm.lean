/- helper lemmas for Thm/C12.lean -/
import YaraModel.Model.FoldVm
namespace YaraModel.FoldVm
open YaraModel YaraModel.C

theorem isUndef_UNDEF : isUndef UNDEF = true := by simp [isUndef]
theorem sub_exact {a b : Int} (h : inRange (a - b)) : C.sub a b = a - b := wrap_of_inRange h
theorem add_exact {a b : Int} (h : inRange (a + b)) : C.add a b = a + b := wrap_of_inRange h

end YaraModel.FoldVm
