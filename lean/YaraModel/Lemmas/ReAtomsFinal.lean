/-
  From the chosen masked atoms to what `yr_ac_add_string` receives (Model/ReAtoms.lean `atomsOf`): wildcard expansion
  (`_yr_atoms_expand_wildcards`), widened atoms (`_yr_atoms_wide`) and case variants (`_yr_atoms_case_insensitive`).
  `atomsOf_cover`: along every match one of the FINAL byte sequences occurs literally in the buffer, at the position of a node
  of the match's trace.
-/
import YaraModel.Lemmas.ReAtoms
namespace YaraModel.ReAtoms
open YaraModel.Re

/-- two lists related element by element -/
inductive F2 {α β : Type} (R : α → β → Prop) : List α → List β → Prop
  | nil : F2 R [] []
  | cons {a b l1 l2} : R a b → F2 R l1 l2 → F2 R (a :: l1) (b :: l2)

/-- the byte sequence occurs literally at `s` -/
def BytesAt (buf : Bytes) : List UInt8 → Nat → Prop
  | [], _ => True
  | b :: t, s => buf[s]? = some b ∧ BytesAt buf t (s + 1)

theorem bytesAt_take {buf : Bytes} {l : List UInt8} {s : Nat} (h : BytesAt buf l s) : ∀ n, BytesAt buf (l.take n) s := by
  induction l generalizing s with
  | nil => intro n; simp [BytesAt]
  | cons b t ih =>
    intro n
    cases n with
    | zero => simp [BytesAt]
    | succ k => simp only [List.take_succ_cons, BytesAt]; exact ⟨h.1, ih h.2 k⟩

/-! ### facts about single bytes (256 cases each) -/
theorem all256 {P : UInt8 → Prop} (h : ∀ n, n < 256 → P (UInt8.ofNat n)) (c : UInt8) : P c := by
  have := h c.toNat c.toNat_lt
  rwa [UInt8.ofNat_toNat] at this

theorem low_nib (c : UInt8) : c = (c &&& 0x0F) ||| UInt8.ofNat ((c.toNat / 16) * 16) ∧ c.toNat / 16 < 16 :=
  all256 (P := fun c => c = (c &&& 0x0F) ||| UInt8.ofNat ((c.toNat / 16) * 16) ∧ c.toNat / 16 < 16) (by decide +kernel) c

theorem high_nib (c : UInt8) : c = (c &&& 0xF0) ||| UInt8.ofNat (c.toNat % 16) ∧ c.toNat % 16 < 16 :=
  all256 (P := fun c => c = (c &&& 0xF0) ||| UInt8.ofNat (c.toNat % 16) ∧ c.toNat % 16 < 16) (by decide +kernel) c

theorem case_facts (c : UInt8) : (lower c = c ∨ (lower c = c + 32 ∧ isLetter c = true ∧ swapCase c = c + 32 ∧ isLetter (c + 32) = true ∧
      swapCase (c + 32) = c ∧ lower (c + 32) = c + 32)) ∧ (c + 32 - 32 = c) :=
  all256 (P := fun c => (lower c = c ∨ (lower c = c + 32 ∧ isLetter c = true ∧ swapCase c = c + 32 ∧ isLetter (c + 32) = true ∧
      swapCase (c + 32) = c ∧ lower (c + 32) = c + 32)) ∧ (c + 32 - 32 = c)) (by decide +kernel) c

/-- two bytes with the same lower-case form are equal or case variants of a letter -/
theorem case_rel {c e : UInt8} (h : lower c = lower e) : c = e ∨ (isLetter e = true ∧ c = swapCase e) := by
  obtain ⟨fc, kc⟩ := case_facts c
  obtain ⟨fe, ke⟩ := case_facts e
  rcases fc with fc | ⟨fc, _, _, c4, c5, _⟩ <;> rcases fe with fe | ⟨fe, e2, e3, _, _, _⟩
  · left; rw [← fc, ← fe]; exact h
  · right; rw [fc, fe] at h; exact ⟨e2, by rw [e3]; exact h⟩
  · right; rw [fc, fe] at h; rw [← h]; exact ⟨c4, c5.symm⟩
  · left; rw [fc, fe] at h; rw [← kc, ← ke, h]

section
variable {fl : Flags} {buf : Bytes}

/-- the characters under the nodes of an atom: byte values at stride `fl.cs`, high bytes zero in wide mode -/
def CharsAt (fl : Flags) (buf : Bytes) : List UInt8 → Nat → Prop
  | [], _ => True
  | c :: t, s => buf[s]? = some c ∧ (fl.wide = true → buf[s + 1]? = some 0) ∧ CharsAt fl buf t (s + fl.cs)

def NodeRel (fl : Flags) (n : Node) (c : UInt8) : Prop :=
  MaskGood n.mask ∧ (c &&& n.mask = n.byte ∨ (fl.nocase = true ∧ n.mask = 0xFF ∧ lower c = lower n.byte))

theorem atomAt_chars {T : List (Nat × Nat)} : ∀ {a : Atom} {s : Nat}, AtomAt (rdOf fl buf T) a s →
    ∃ cs, F2 (NodeRel fl) a cs ∧ CharsAt fl buf cs s
  | [], _, _ => ⟨[], .nil, trivial⟩
  | n :: t, s, h => by
    obtain ⟨⟨⟨c, h1, h2, h3⟩, _, hg⟩, ht⟩ := h
    obtain ⟨cs, k1, k2⟩ := atomAt_chars (a := t) ht
    exact ⟨c :: cs, .cons ⟨hg, h3⟩ k1, h1, h2, k2⟩

/-- the expanded value equals the character, or (nocase) has the same lower-case form -/
def CaseRel (nc : Bool) (e c : UInt8) : Prop := c = e ∨ (nc = true ∧ lower c = lower e)

/-- `_yr_atoms_expand_wildcards` is complete: the characters under a masked atom are one of its expansions -/
theorem expand_mem : ∀ {a : Atom} {cs : List UInt8}, F2 (NodeRel fl) a cs →
    ∃ e ∈ expand a, F2 (CaseRel fl.nocase) e cs
  | [], _, h => by cases h; exact ⟨[], by simp [expand], .nil⟩
  | n :: t, _, h => by
    cases h with
    | @cons _ c _ cs' hn ht =>
      obtain ⟨e, he, hr⟩ := expand_mem ht
      obtain ⟨hg, hv⟩ := hn
      -- the value the expansion has at this position
      have hval : ∃ v, v ∈ (if n.mask == 0x00 then (List.range 256).map UInt8.ofNat
          else if n.mask == 0x0F then (List.range 16).map fun h => n.byte ||| UInt8.ofNat (h * 16)
          else if n.mask == 0xF0 then (List.range 16).map fun l => n.byte ||| UInt8.ofNat l
          else [n.byte]) ∧ CaseRel fl.nocase v c := by
        rcases hg with hm | hm | hm | hm
        · -- a literal byte
          rw [hm]
          refine ⟨n.byte, by simp, ?_⟩
          rcases hv with hv | ⟨h1, _, h3⟩
          · rw [hm, and_255] at hv; exact .inl hv
          · exact .inr ⟨h1, h3⟩
        · rw [hm]
          refine ⟨c, ?_, .inl rfl⟩
          simp only [beq_self_eq_true, if_true, List.mem_map, List.mem_range]
          exact ⟨c.toNat, c.toNat_lt, UInt8.ofNat_toNat⟩
        · rw [hm]
          rcases hv with hv | ⟨_, h2, _⟩
          · rw [hm] at hv
            refine ⟨c, ?_, .inl rfl⟩
            have hne : ((0x0F : UInt8) == 0x00) = false := by decide
            simp only [hne, Bool.false_eq_true, if_false, beq_self_eq_true, if_true, List.mem_map, List.mem_range]
            obtain ⟨k1, k2⟩ := low_nib c
            exact ⟨c.toNat / 16, k2, by rw [← hv]; exact k1.symm⟩
          · rw [hm] at h2; exact absurd h2 (by decide)
        · rw [hm]
          rcases hv with hv | ⟨_, h2, _⟩
          · rw [hm] at hv
            refine ⟨c, ?_, .inl rfl⟩
            have hne1 : ((0xF0 : UInt8) == 0x00) = false := by decide
            have hne2 : ((0xF0 : UInt8) == 0x0F) = false := by decide
            simp only [hne1, hne2, Bool.false_eq_true, if_false, beq_self_eq_true, if_true, List.mem_map, List.mem_range]
            obtain ⟨k1, k2⟩ := high_nib c
            exact ⟨c.toNat % 16, k2, by rw [← hv]; exact k1.symm⟩
          · rw [hm] at h2; exact absurd h2 (by decide)
      obtain ⟨v, hv1, hv2⟩ := hval
      refine ⟨v :: e, ?_, .cons hv2 hr⟩
      simp only [expand, List.mem_flatMap, List.mem_map]
      exact ⟨v, hv1, e, he, rfl⟩

theorem expand_length : ∀ {a : Atom} {e : List UInt8}, e ∈ expand a → e.length = a.length
  | [], e, h => by simp [expand] at h; subst h; rfl
  | n :: t, e, h => by
    simp only [expand, List.mem_flatMap, List.mem_map] at h
    obtain ⟨v, _, r, hr, rfl⟩ := h
    simp [expand_length hr]

/-- with nocase the actual bytes are one of the case variants; without, they are the bytes themselves -/
theorem caseCombos_mem : ∀ {e act : List UInt8}, F2 (CaseRel true) e act → act ∈ caseCombos e
  | [], _, h => by cases h; simp [caseCombos]
  | x :: t, _, h => by
    cases h with
    | @cons _ c _ cs' hx ht =>
      have ih := caseCombos_mem ht
      have hc : c = x ∨ (isLetter x = true ∧ c = swapCase x) := by
        rcases hx with hx | ⟨_, hx⟩
        · exact .inl hx
        · exact case_rel hx
      simp only [caseCombos]
      split
      · rcases hc with rfl | ⟨_, rfl⟩
        · exact List.mem_append_left _ (List.mem_map.2 ⟨_, ih, rfl⟩)
        · exact List.mem_append_right _ (List.mem_map.2 ⟨_, ih, rfl⟩)
      · rename_i hl
        rcases hc with rfl | ⟨h1, _⟩
        · exact List.mem_map.2 ⟨_, ih, rfl⟩
        · exact absurd h1 hl

theorem caseRel_false_eq : ∀ {e act : List UInt8}, F2 (CaseRel false) e act → act = e
  | [], _, h => by cases h; rfl
  | x :: t, _, h => by
    cases h with
    | cons hx ht =>
      rcases hx with rfl | ⟨h1, _⟩
      · rw [caseRel_false_eq ht]
      · simp at h1

theorem caseRel_weaken {nc : Bool} : ∀ {e act : List UInt8}, F2 (CaseRel nc) e act → nc = true → F2 (CaseRel true) e act
  | _, _, h, hn => by subst hn; exact h

/-! ### narrow and wide layouts -/
theorem chars_bytes_narrow (hw : fl.wide = false) : ∀ {cs : List UInt8} {s : Nat}, CharsAt fl buf cs s → BytesAt buf cs s
  | [], _, _ => trivial
  | c :: t, s, h => by
    have hcs : fl.cs = 1 := by simp [Flags.cs, hw]
    obtain ⟨h1, _, h3⟩ := h
    rw [hcs] at h3
    exact ⟨h1, chars_bytes_narrow hw h3⟩

def interleave (l : List UInt8) : List UInt8 := l.flatMap fun c => [c, 0]

theorem chars_bytes_wide (hw : fl.wide = true) : ∀ {cs : List UInt8} {s : Nat}, CharsAt fl buf cs s → BytesAt buf (interleave cs) s
  | [], _, _ => trivial
  | c :: t, s, h => by
    have hcs : fl.cs = 2 := by simp [Flags.cs, hw]
    obtain ⟨h1, h2, h3⟩ := h
    rw [hcs] at h3
    simp only [interleave, List.flatMap_cons, List.cons_append, List.nil_append, BytesAt]
    exact ⟨h1, h2 hw, chars_bytes_wide hw h3⟩

theorem caseRel_interleave {nc : Bool} : ∀ {e cs : List UInt8}, F2 (CaseRel nc) e cs →
    F2 (CaseRel nc) (interleave e) (interleave cs)
  | [], _, h => by cases h; exact .nil
  | x :: t, _, h => by
    cases h with
    | cons hx ht =>
      simp only [interleave, List.flatMap_cons, List.cons_append, List.nil_append]
      exact .cons hx (.cons (.inl rfl) (caseRel_interleave ht))

theorem forall₂_take {α β : Type} {R : α → β → Prop} : ∀ {l1 : List α} {l2 : List β}, F2 R l1 l2 → ∀ n, F2 R (l1.take n) (l2.take n)
  | [], _, h, n => by cases h; simp; exact .nil
  | x :: t, _, h, n => by
    cases h with
    | cons hx ht =>
      cases n with
      | zero => simp; exact .nil
      | succ k => simp only [List.take_succ_cons]; exact .cons hx (forall₂_take ht k)

theorem widen_eq (b : List UInt8) : widen b = (interleave b).take 4 := rfl

end


theorem F2.length_eq {α β : Type} {R : α → β → Prop} : ∀ {l1 : List α} {l2 : List β}, F2 R l1 l2 → l1.length = l2.length
  | _, _, .nil => rfl
  | _, _, .cons _ h => by simp [F2.length_eq h]

theorem interleave_length (l : List UInt8) : (interleave l).length = 2 * l.length := by
  induction l with
  | nil => rfl
  | cons x t ih => simp only [interleave, List.flatMap_cons, List.length_append, List.length_cons, List.length_nil] at ih ⊢; omega

theorem mem_if_nonempty {α : Type} (C : List α) (d : List α) {x : α} (h : x ∈ C) : x ∈ (if C.isEmpty then d else C) := by
  cases C with
  | nil => cases h
  | cons y t => simpa using h

/-- **Cover, final atoms.**  Model of `yr_atoms_extract_from_re` for a non-literal hex / regex string with modifiers `m`, for
    EVERY quality function: along every traced match [p, q') of the expression — byte or wide characters, with or without
    nocase, as the string's modifiers allow — one of the byte sequences handed to `yr_ac_add_string` occurs LITERALLY in
    the buffer inside [p, q'), at the position where the match has the node the atom begins at (leaf `x.2`); or the string
    has the zero-length atom. -/
theorem atomsOf_cover (q : Atom → Int) (m : Mods) (fl : Flags) (buf : Bytes) (hw1 : fl.wide = true → m.wide = true)
    (hw0 : fl.wide = false → (m.wide = false ∨ m.ascii = true)) (hn : m.nocase = fl.nocase) (r : Re) (hmk : MaskOK r)
    {p q' : Nat} {T : List (Nat × Nat)} (hm : Tr fl buf r 0 p q' T) :
    ∃ x ∈ atomsOf q m r, ∃ s, p ≤ s ∧ s + x.1.length ≤ q' ∧ BytesAt buf x.1 s ∧ (x.1 = [] ∨ (x.2, s) ∈ T) := by
  have hpq : p ≤ q' := (Matches.bounds hm.matches).1
  rcases chosen_cover q r hmk hm with h0 | ⟨a, ha, s, hs1, hs2, hat⟩
  · refine ⟨([], 0), ?_, p, Nat.le_refl _, by simpa using hpq, trivial, .inl rfl⟩
    simp [atomsOf, h0]
  · obtain ⟨cs, k1, k2⟩ := atomAt_chars hat
    obtain ⟨e, he, hr⟩ := expand_mem k1
    have hlen : cs.length = a.length := by rw [← F2.length_eq k1]
    have helen : e.length = a.length := expand_length he
    -- the trace entry of the first node
    have htr : a = [] ∨ ((a.headD default).id, s) ∈ T := by
      cases a with
      | nil => exact .inl rfl
      | cons n t => exact .inr hat.1.2.1
    have hbase : (e, (a.headD default).id) ∈ (chosen q r).flatMap fun a => (expand a).map fun b => (b, (a.headD default).id) :=
      List.mem_flatMap.2 ⟨a, ha, List.mem_map.2 ⟨e, he, rfl⟩⟩
    -- the model bytes and the actual bytes, in the layout of the match
    obtain ⟨mb, act, hmb, hact, hrel, hlenact⟩ : ∃ mb act : List UInt8,
        (mb, (a.headD default).id) ∈ (if m.wide then (if m.ascii then ((chosen q r).flatMap fun a => (expand a).map fun b => (b, (a.headD default).id)) else []) ++
          ((chosen q r).flatMap fun a => (expand a).map fun b => (b, (a.headD default).id)).map (fun (b, i) => (widen b, i))
          else ((chosen q r).flatMap fun a => (expand a).map fun b => (b, (a.headD default).id))) ∧
        BytesAt buf act s ∧ F2 (CaseRel fl.nocase) mb act ∧ act.length ≤ span (rdOf fl buf T) a := by
      by_cases hw : fl.wide = true
      · refine ⟨widen e, (interleave cs).take 4, ?_, bytesAt_take (chars_bytes_wide hw k2) 4, ?_, ?_⟩
        · rw [hw1 hw]; simp only [if_true]
          exact List.mem_append_right _ (List.mem_map.2 ⟨(e, _), hbase, rfl⟩)
        · rw [widen_eq]; exact forall₂_take (caseRel_interleave hr) 4
        · simp only [List.length_take, interleave_length, span, rdOf, Flags.cs, hw, if_true]; omega
      · have hw' : fl.wide = false := by cases h : fl.wide <;> simp_all
        refine ⟨e, cs, ?_, chars_bytes_narrow hw' k2, hr, ?_⟩
        · rcases hw0 hw' with h1 | h1
          · simp only [h1, Bool.false_eq_true, if_false]; exact hbase
          · by_cases h2 : m.wide = true
            · simp only [h2, h1, if_true]; exact List.mem_append_left _ hbase
            · simp only [h2]; exact hbase
        · simp only [span, rdOf, Flags.cs, hw', Bool.false_eq_true, if_false]; omega
    -- case variants
    have hfinal : (act, (a.headD default).id) ∈ atomsOf q m r := by
      unfold atomsOf
      simp only
      have hcased : (act, (a.headD default).id) ∈ (if m.nocase then
          (if m.wide then (if m.ascii then ((chosen q r).flatMap fun a => (expand a).map fun b => (b, (a.headD default).id)) else []) ++
            ((chosen q r).flatMap fun a => (expand a).map fun b => (b, (a.headD default).id)).map (fun (b, i) => (widen b, i))
            else ((chosen q r).flatMap fun a => (expand a).map fun b => (b, (a.headD default).id))).flatMap (fun (b, i) => (caseCombos b).map (·, i))
          else (if m.wide then (if m.ascii then ((chosen q r).flatMap fun a => (expand a).map fun b => (b, (a.headD default).id)) else []) ++
            ((chosen q r).flatMap fun a => (expand a).map fun b => (b, (a.headD default).id)).map (fun (b, i) => (widen b, i))
            else ((chosen q r).flatMap fun a => (expand a).map fun b => (b, (a.headD default).id)))) := by
        by_cases hnc : fl.nocase = true
        · rw [hn, hnc]; simp only [if_true]
          exact List.mem_flatMap.2 ⟨(mb, _), hmb, List.mem_map.2 ⟨act, caseCombos_mem (caseRel_weaken hrel hnc), rfl⟩⟩
        · have hnc' : fl.nocase = false := by cases h : fl.nocase <;> simp_all
          rw [hn, hnc']; simp only [Bool.false_eq_true, if_false]
          rw [hnc'] at hrel
          rw [caseRel_false_eq hrel]; exact hmb
      exact mem_if_nonempty _ _ hcased
    refine ⟨_, hfinal, s, hs1, by simp only; omega, hact, ?_⟩
    rcases htr with h | h
    · left; simp only
      have := hlenact; rw [h] at this; simp [span] at this; exact this
    · exact .inr h

end YaraModel.ReAtoms
