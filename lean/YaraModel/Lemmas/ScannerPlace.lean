/- C13 helper lemmas: the place operators and the match collection depend on (base, offset) only through base + offset. -/
import YaraModel.Spec.ScannerPlace
import YaraModel.Lemmas.ScannerFrame
namespace YaraModel.Scan

theorem aget_absT (t : MatchTable) (s : Nat) : aget (absT t) s = (tget t s).map absM := by
  simp only [aget, tget, absT, List.find?_map]
  cases h : t.find? ((fun p => p.1 == s) ∘ fun p => (p.1, p.2.map absM)) with
  | none =>
    have : t.find? (fun p => p.1 == s) = none := by simpa [Function.comp_def] using h
    simp [this]
  | some p =>
    have : t.find? (fun p => p.1 == s) = some p := by simpa [Function.comp_def] using h
    simp [this]

/-! the operators of the evaluator are the specification on the absolute view -/

theorem found_spec (t : MatchTable) (s : Nat) : PlaceOps.found t s = PlaceSpec.found (absT t) s := by
  simp [PlaceOps.found, PlaceSpec.found, aget_absT]

theorem count_spec (t : MatchTable) (s : Nat) : PlaceOps.count t s = PlaceSpec.count (absT t) s := by
  simp [PlaceOps.count, PlaceSpec.count, aget_absT]

theorem foundAt_spec (t : MatchTable) (s off : Nat) : PlaceOps.foundAt t s off = PlaceSpec.foundAt (absT t) s off := by
  simp [PlaceOps.foundAt, PlaceSpec.foundAt, aget_absT, List.any_map, Function.comp_def, absM, Match.pos]

theorem foundIn_spec (t : MatchTable) (s lo hi : Nat) : PlaceOps.foundIn t s lo hi = PlaceSpec.foundIn (absT t) s lo hi := by
  simp [PlaceOps.foundIn, PlaceSpec.foundIn, aget_absT, List.any_map, Function.comp_def, absM, Match.pos]
  rfl

theorem countIn_spec (t : MatchTable) (s lo hi : Nat) : PlaceOps.countIn t s lo hi = PlaceSpec.countIn (absT t) s lo hi := by
  simp [PlaceOps.countIn, PlaceSpec.countIn, aget_absT, List.filter_map, Function.comp_def, absM, Match.pos]
  rfl

theorem offset_spec (t : MatchTable) (s i : Nat) : PlaceOps.offset t s i = PlaceSpec.offset (absT t) s i := by
  simp only [PlaceOps.offset, PlaceSpec.offset, aget_absT]
  split
  · rfl
  · simp only [List.getElem?_map, Option.map_map]; rfl

theorem length_spec (t : MatchTable) (s i : Nat) : PlaceOps.length t s i = PlaceSpec.length (absT t) s i := by
  simp only [PlaceOps.length, PlaceSpec.length, aget_absT]
  split
  · rfl
  · simp only [List.getElem?_map, Option.map_map]; rfl

theorem ofAt_spec (t : MatchTable) (ss : List Nat) (off : Nat) : PlaceOps.ofAt t ss off = PlaceSpec.ofAt (absT t) ss off := by
  simp [PlaceOps.ofAt, PlaceSpec.ofAt, foundAt_spec]

theorem ofIn_spec (t : MatchTable) (ss : List Nat) (lo hi : Nat) : PlaceOps.ofIn t ss lo hi = PlaceSpec.ofIn (absT t) ss lo hi := by
  simp [PlaceOps.ofIn, PlaceSpec.ofIn, foundIn_spec]

/-! insertion and table update on the absolute view -/

def insA (o : Nat × Nat) : List (Nat × Nat) → List (Nat × Nat)
  | [] => [o]
  | x :: xs => if x.1 = o.1 then x :: xs else if o.1 < x.1 then o :: x :: xs else x :: insA o xs

def tsetA (t : AbsTable) (s : Nat) (l : List (Nat × Nat)) : AbsTable :=
  if t.any (fun p => p.1 == s) then t.map (fun p => if p.1 == s then (s, l) else p) else t ++ [(s, l)]

theorem insMatch_abs (m : Match) (l : List Match) : (insMatch m l).map absM = insA (absM m) (l.map absM) := by
  induction l with
  | nil => rfl
  | cons x xs ih =>
    simp only [insMatch, List.map_cons, insA, absM, Match.pos]
    split
    · rfl
    · split
      · rfl
      · simp only [List.map_cons, absM, Match.pos] at ih ⊢
        rw [ih]

theorem tset_abs (t : MatchTable) (s : Nat) (l : List Match) : absT (tset t s l) = tsetA (absT t) s (l.map absM) := by
  simp only [tset, tsetA, absT, List.any_map, Function.comp_def]
  split
  · simp only [List.map_map]
    apply List.map_congr_left
    intro p _
    simp only [Function.comp_def]
    split <;> rfl
  · simp

/-! the match collection -/

theorem Core.AbsEq.refl (c : Core) : Core.AbsEq c c := ⟨rfl, rfl⟩

theorem Core.AbsEq.tget_eq {c c' : Core} (h : Core.AbsEq c c') (s : Nat) : (tget c.found s).map absM = (tget c'.found s).map absM := by
  rw [← aget_absT, ← aget_absT, h.found]

theorem Core.AbsEq.len_eq {c c' : Core} (h : Core.AbsEq c c') (s : Nat) : (tget c.found s).length = (tget c'.found s).length := by
  have := congrArg List.length (h.tget_eq s)
  simpa using this

theorem Core.AbsEq.isEmpty_eq {c c' : Core} (h : Core.AbsEq c c') (s : Nat) : (tget c.found s).isEmpty = (tget c'.found s).isEmpty := by
  have := h.len_eq s
  cases h1 : tget c.found s <;> cases h2 : tget c'.found s <;> simp_all

theorem Core.AbsEq.strDisabled_eq {c c' : Core} (h : Core.AbsEq c c') : c.strDisabled = c'.strDisabled := by
  have := h.rest
  cases c; cases c'; simp_all

/-- one candidate at the same absolute position has the same effect on both states -/
theorem addCands_abs (P : Params) (cb : Nat → CbRet) (fast : Bool) (b b' : Block) (ks ks' : List Cand) (c c' : Core) (w : World)
    (hnc : ∀ s, P.chain s = none) (h : Core.AbsEq c c') (hk : absCands b ks = absCands b' ks') :
    Core.AbsEq (addCands P cb fast b ks c w).1 (addCands P cb fast b' ks' c' w).1 ∧
    (addCands P cb fast b ks c w).2 = (addCands P cb fast b' ks' c' w).2 := by
  induction ks generalizing ks' c c' w with
  | nil =>
    cases ks' with
    | nil => exact ⟨h, rfl⟩
    | cons _ _ => simp [absCands] at hk
  | cons k ks ih =>
    cases ks' with
    | nil => simp [absCands] at hk
    | cons k' ks' =>
      simp only [absCands, List.map_cons, List.cons.injEq, Prod.mk.injEq] at hk
      obtain ⟨⟨hs, hp, hl⟩, hrest⟩ := hk
      have hrest' : absCands b ks = absCands b' ks' := hrest
      have hd := h.strDisabled_eq
      have hlen := h.len_eq k.str
      have hemp := h.isEmpty_eq k.str
      have hmem : (k.str ∈ c'.strDisabled) = (k.str ∈ c.strDisabled) := by rw [hd]
      simp only [addCands, ← hs, hmem, ← hlen, ← hemp, hnc]
      split
      · exact ih ks' c c' w h hrest'
      · split
        · exact ih ks' c c' w h hrest'
        · -- required_eval is set in both
          have h1 : Core.AbsEq { c with reqEval := setIns (P.strRule k.str) c.reqEval }
              { c' with reqEval := setIns (P.strRule k.str) c'.reqEval } := by
            refine ⟨h.found, ?_⟩
            have := h.rest
            cases c; cases c'; simp_all
          split
          · -- limit reached: the callback decides
            cases hcb : (call cb w).1 with
            | cont =>
              simp only []
              have h2 : Core.AbsEq
                  { c with reqEval := setIns (P.strRule k.str) c.reqEval, strDisabled := setIns k.str c.strDisabled }
                  { c' with reqEval := setIns (P.strRule k.str) c'.reqEval, strDisabled := setIns k.str c'.strDisabled } := by
                refine ⟨h.found, ?_⟩
                have := h.rest
                cases c; cases c'; simp_all
              have := ih ks' _ _ (call cb w).2 h2 hrest'
              have e2 := this.2
              refine ⟨this.1, ?_⟩
              simp only [Prod.mk.injEq, List.cons.injEq, true_and]
              exact ⟨congrArg (·.1) e2, congrArg (·.2.1) e2, congrArg (·.2.2) e2⟩
            | abort => simp only []; exact ⟨h1, trivial⟩
            | error => simp only []; exact ⟨h1, trivial⟩
          · -- the match is inserted at its absolute position
            have h3 : Core.AbsEq
                { c with reqEval := setIns (P.strRule k.str) c.reqEval,
                         found := tset c.found k.str (insMatch ⟨b.base, k.off, k.len⟩ (tget c.found k.str)) }
                { c' with reqEval := setIns (P.strRule k.str) c'.reqEval,
                          found := tset c'.found k.str (insMatch ⟨b'.base, k'.off, k'.len⟩ (tget c'.found k.str)) } := by
              refine ⟨?_, ?_⟩
              · simp only [tset_abs, insMatch_abs, h.found, h.tget_eq k.str, absM, Match.pos, hp, hl]
              · have := h.rest
                cases c; cases c'; simp_all
            exact ih ks' _ _ w h3 hrest'

/-- without chained strings the unconfirmed lists are never written -/
theorem addCands_unconfirmed_nochain (P : Params) (cb : Nat → CbRet) (fast : Bool) (b : Block) (ks : List Cand) (c : Core) (w : World)
    (hnc : ∀ s, P.chain s = none) : (addCands P cb fast b ks c w).1.unconfirmed = c.unconfirmed := by
  induction ks generalizing c w with
  | nil => rfl
  | cons k ks ih =>
    simp only [addCands, hnc]
    repeat' split
    all_goals first
      | exact ih _ _
      | rfl
      | (rw [ih]; done)

theorem clear_unconfirmed_id (c : Core) (h : c.unconfirmed = []) : ({ c with unconfirmed := [] } : Core) = c := by
  cases c; simp_all

/-- candidates of one block can be fed in two portions -/
theorem addCands_append (P : Params) (cb : Nat → CbRet) (fast : Bool) (b : Block) (ks1 ks2 : List Cand) (c : Core) (w : World) :
    addCands P cb fast b (ks1 ++ ks2) c w =
      match addCands P cb fast b ks1 c w with
      | (c1, w1, ms1, .success) =>
        let r := addCands P cb fast b ks2 c1 w1
        (r.1, r.2.1, ms1 ++ r.2.2.1, r.2.2.2)
      | r => r := by
  induction ks1 generalizing c w with
  | nil => simp [addCands]
  | cons k ks ih =>
    simp only [List.cons_append, addCands]
    split
    · exact ih c w
    · split
      · exact ih c w
      · split
        · exact ih _ w
        · split
          · cases hcb : (call cb w).1 with
            | cont =>
              simp only []
              rw [ih]
              rcases addCands P cb fast b ks _ (call cb w).2 with ⟨c1, w1, ms1, e⟩
              cases e <;> simp
            | abort => simp
            | error => simp
          · exact ih _ w

/-- **Partition invariance of the collected matches.** Scanning the blocks of a partition one after the other collects,
    in absolute terms, exactly what scanning one block collects whose candidates are the concatenation of the blocks'
    candidates at their absolute offsets — same too-many-matches dialogue, same error, same final state up to how a
    position is split into base + offset. -/
theorem collect_partition (P : Params) (cb : Nat → CbRet) (fast : Bool) (parts : List (Block × List Cand))
    (whole : Block) (ksW : List Cand) (c c' : Core) (w : World)
    (hnc : ∀ s, P.chain s = none) (hu : c.unconfirmed = [])
    (h : Core.AbsEq c c') (hk : absCands whole ksW = parts.flatMap fun p => absCands p.1 p.2) :
    Core.AbsEq (collect P cb fast parts c w).1 (addCands P cb fast whole ksW c' w).1 ∧
    (collect P cb fast parts c w).2 = (addCands P cb fast whole ksW c' w).2 := by
  induction parts generalizing ksW c c' w with
  | nil =>
    have : ksW = [] := by simpa [absCands] using hk
    subst this
    exact ⟨h, rfl⟩
  | cons p rest ih =>
    obtain ⟨b, ks⟩ := p
    simp only [List.flatMap_cons, absCands] at hk
    obtain ⟨k1, k2, rfl, h1, h2⟩ := List.map_eq_append_iff.mp hk
    have ha := addCands_abs P cb fast b whole ks k1 c c' w hnc h (by simpa [absCands] using h1.symm)
    rw [addCands_append]
    simp only [collect, clear_unconfirmed_id c hu]
    have huA : (addCands P cb fast b ks c w).1.unconfirmed = [] := (addCands_unconfirmed_nochain P cb fast b ks c w hnc).trans hu
    rcases hA : addCands P cb fast b ks c w with ⟨cA, wA, msA, eA⟩
    rw [hA] at huA
    rcases hB : addCands P cb fast whole k1 c' w with ⟨cB, wB, msB, eB⟩
    rw [hA, hB] at ha
    obtain ⟨hab, heq⟩ := ha
    simp only [Prod.mk.injEq] at heq
    obtain ⟨rfl, rfl, rfl⟩ := heq
    cases eA with
    | success =>
      simp only []
      have := ih k2 cA cB wA huA hab (by simpa [absCands] using h2)
      refine ⟨this.1, ?_⟩
      have e2 := this.2
      simp only [Prod.mk.injEq]
      exact ⟨congrArg (·.1) e2, by rw [congrArg (·.2.1) e2], congrArg (·.2.2) e2⟩
    | _ => exact ⟨hab, rfl⟩

/-- a block whose scan is nothing but the collection of its candidates: data available, no verifier error, not an
    executable header (the entry point stays undefined) -/
def PlainBlock (P : Params) (set : Settings) (b : Block) : Prop :=
  ∃ d, b.data = some d ∧ P.scanErr d = none ∧ P.ep set.processMemory d b.size b.base = none

def blockCands (P : Params) (b : Block) : List Cand := match b.data with | some d => P.cands d | none => []

theorem scanBlock_plain (P : Params) (cb : Nat → CbRet) (set : Settings) (b : Block) (c : Core) (w : World)
    (ht : set.timeout = 0) (hb : PlainBlock P set b) :
    scanBlock P cb set b c w = addCands P cb set.fastMode b (blockCands P b) { c with unconfirmed := [] } w := by
  obtain ⟨d, hd, he, hep⟩ := hb
  have hto : ∀ c', timedOut set c' w = false := by intro c'; simp [timedOut, ht]
  have hc : (if c.entryPoint.isNone then ({ c with entryPoint := none } : Core) else c) = c := by
    split
    · rename_i hn
      cases c; simp only [Option.isNone_iff_eq_none] at hn; simp_all
    · rfl
  simp only [scanBlock, hd, blockCands, he, hep, hc, hto, Bool.and_false]
  simp

/-- with an iterator that is never late, no timeout and plain blocks, the block loop IS the collection -/
theorem blockLoop_collect (P : Params) (cb : Nat → CbRet) (set : Settings) (blocks : List Block) (c : Core) (w : World)
    (ht : set.timeout = 0) (hb : ∀ b ∈ blocks, PlainBlock P set b) :
    let o := blockLoop P cb set blocks [] c w
    (o.core, o.world, o.msgs, o.result) = collect P cb set.fastMode (blocks.map fun b => (b, blockCands P b)) c w := by
  induction blocks generalizing c w with
  | nil =>
    have hs : stepOf ([] : List Act) = .go .ok [] := rfl
    simp [blockLoop_nil_go hs, collect, tick]
  | cons b r ih =>
    have hs : stepOf ([] : List Act) = .go .ok [] := rfl
    have hsb := scanBlock_plain P cb set b c w ht (hb b (by simp))
    simp only [List.map_cons, collect]
    rcases hA : addCands P cb set.fastMode b (blockCands P b) { c with unconfirmed := [] } w with ⟨c1, w1, ms1, e⟩
    have hsb' : scanBlock P cb set b c (tick w .ok) = (c1, w1, ms1, e) := by
      have : tick w .ok = w := rfl
      rw [this, hsb, hA]
    by_cases he : e = .success
    · subst he
      rw [blockLoop_cons_go_ok hs hsb']
      have := ih c1 w1 (fun b' hb' => hb b' (by simp [hb']))
      simp only [LoopOut.pre] at this ⊢
      rw [← this]
    · rw [blockLoop_cons_go_err hs hsb' he]
      cases e <;> simp_all

end YaraModel.Scan
