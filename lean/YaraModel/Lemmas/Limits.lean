/-
  C15 — helper lemmas. The first section is the ONLY place that looks at the generated
  comparison operators: each guard of the C source is shown equivalent (on the reachable
  range) to its intended meaning. The scripts are written so that an equivalent rewrite of
  the guard (`==` ↔ `>=` below a maintained bound, `<` ↔ `!=`) still proves, while a
  weakened guard (`>` for `==`, `<=` for `<`) does not.
-/
import YaraModel.Model.Limits
set_option linter.unusedVariables false
set_option linter.unusedSectionVars false
namespace YaraModel.Limits
open YaraModel.Gen.Limits

/-! ### match list -/

theorem insertDesc_length (m : Match) (rep : Bool) (l : List Match) :
    (insertDesc m rep l).1.length = l.length + (if (insertDesc m rep l).2 then 1 else 0) := by
  induction l with
  | nil => simp [insertDesc]
  | cons y ys ih =>
    simp only [insertDesc]
    split
    · simp
    · split
      · simp
      · simp only [List.length_cons, ih]; omega

/-- strictly descending offsets (tail first) -/
def Desc : List Match → Prop
  | [] => True
  | [_] => True
  | a :: b :: t => a.off > b.off ∧ Desc (b :: t)

theorem Desc_tail {a : Match} {t : List Match} (h : Desc (a :: t)) : Desc t := by
  cases t with
  | nil => trivial
  | cons b t => exact h.2

theorem insertDesc_head_le (m : Match) (rep : Bool) (l : List Match) (b : Nat)
    (hm : m.off ≤ b) (hl : ∀ x ∈ l.head?, x.off ≤ b) : ∀ x ∈ (insertDesc m rep l).1.head?, x.off ≤ b := by
  cases l with
  | nil => simp [insertDesc]; exact hm
  | cons y ys =>
    simp only [insertDesc]
    have hy : y.off ≤ b := hl y (by simp)
    split
    · split <;> simp <;> exact hy
    · split
      · simp; exact hm
      · simp; exact hy

theorem insertDesc_desc (m : Match) (rep : Bool) (l : List Match) (h : Desc l) : Desc (insertDesc m rep l).1 := by
  induction l with
  | nil => simp [insertDesc, Desc]
  | cons y ys ih =>
    simp only [insertDesc]
    split
    · -- same offset: only the length of y may change
      cases ys with
      | nil => split <;> trivial
      | cons z zs => split <;> exact h
    · split
      · exact ⟨by assumption, h⟩
      · rename_i hne hgt
        have ih' := ih (Desc_tail h)
        -- y stays in front of the recursively updated tail, whose head is < y.off
        have hlt : m.off < y.off := by omega
        have hhead : ∀ x ∈ (insertDesc m rep ys).1.head?, x.off ≤ y.off - 1 := by
          apply insertDesc_head_le
          · omega
          · intro x hx
            cases ys with
            | nil => simp at hx
            | cons z zs => simp at hx; subst hx; have := h.1; omega
        cases hr : (insertDesc m rep ys).1 with
        | nil => trivial
        | cons z zs =>
          rw [hr] at ih' hhead
          have := hhead z (by simp)
          exact ⟨by omega, ih'⟩

theorem insertDesc_offsets (m : Match) (rep : Bool) (l : List Match) (o : Nat) :
    o ∈ (insertDesc m rep l).1.map (·.off) ↔ o = m.off ∨ o ∈ l.map (·.off) := by
  induction l with
  | nil => simp [insertDesc]
  | cons y ys ih =>
    simp only [insertDesc]
    split
    · rename_i heq
      have hoff : (if rep = true then { y with len := m.len } else y).off = y.off := by split <;> rfl
      simp only [List.map_cons, List.mem_cons, hoff, heq]
      constructor
      · intro h; rcases h with h | h
        · exact Or.inl h
        · exact Or.inr (Or.inr h)
      · intro h; rcases h with h | h | h
        · exact Or.inl h
        · exact Or.inl h
        · exact Or.inr h
    · split
      · simp
      · simp only [List.map_cons, List.mem_cons, ih]
        constructor <;> intro h <;> rcases h with h | h | h <;> simp_all

variable {G : Guards} (hG : G.Sound)
include hG

theorem vmTick_spec (N cycle : Nat) (h : cycle < N) :
    vmTick G N cycle = if cycle + 1 = N then (0, true) else (cycle + 1, false) := by
  unfold vmTick
  by_cases he : cycle + 1 = N
  · rw [if_pos ((hG.cycle cycle N h).2 he), if_pos he]
  · have : ¬ G.cycleHit (cycle + 1) N = true := fun hp => he ((hG.cycle cycle N h).1 hp)
    rw [if_neg this, if_neg he]

/-! ### scan-level invariants -/

/-- Invariant of a running scan: counts below the cap, every warned string is muted, no string warned twice. -/
structure SInv (MAX : Nat) (s : SState) : Prop where
  bounded : ∀ j, (s.lists j).count ≤ MAX
  warnedMuted : ∀ j, j ∈ s.warned → s.disabled j = true
  nodup : s.warned.Nodup

theorem addMatch_count_le (MAX : Nat) (m : Match) (rep : Bool) (l : MList) (h : l.count ≤ MAX) :
    (addMatch G MAX m rep l).1.count ≤ MAX := by
  unfold addMatch
  split
  · exact h
  · rename_i hc
    have : ¬ l.count = MAX := fun e => hc ((hG.cap _ _ h).2 e)
    simp only
    split <;> omega

theorem SInv_init (MAX : Nat) : SInv MAX SState.init :=
  ⟨fun _ => Nat.zero_le _, fun _ h => by simp [SState.init] at h, by simp [SState.init]⟩

theorem verifyStep_inv (MAX : Nat) (cont : Nat → Bool) (s : SState) (e : Ev) (h : SInv MAX s)
    (hok : (verifyStep G MAX cont s e).2 = none) : SInv MAX (verifyStep G MAX cont s e).1 := by
  unfold verifyStep at hok ⊢
  split
  · exact h
  · rename_i hdis
    split
    · rename_i l' heq
      refine ⟨?_, h.warnedMuted, h.nodup⟩
      intro j
      simp only [upd]
      split
      · have := addMatch_count_le hG MAX e.m false (s.lists e.sid) (h.bounded _)
        rw [heq] at this; exact this
      · exact h.bounded j
    · rename_i heq
      simp only at hok ⊢
      split
      · refine ⟨h.bounded, ?_, ?_⟩
        · intro j hj
          simp only [upd]
          split
          · rfl
          · simp only [List.mem_cons] at hj
            rcases hj with hj | hj
            · contradiction
            · exact h.warnedMuted j hj
        · simp only [List.nodup_cons]
          refine ⟨?_, h.nodup⟩
          intro hmem
          have := h.warnedMuted _ hmem
          simp_all
      · rename_i hc
        simp [hdis, heq, hc] at hok

theorem scanEvents_inv (MAX : Nat) (cont : Nat → Bool) (evs : List Ev) (s : SState) (h : SInv MAX s)
    (hok : (scanEvents G MAX cont s evs).2 = none) : SInv MAX (scanEvents G MAX cont s evs).1 := by
  induction evs generalizing s with
  | nil => exact h
  | cons e es ih =>
    simp only [scanEvents] at hok ⊢
    split
    · rename_i s' heq
      rw [heq] at hok
      simp only at hok
      have h1 := verifyStep_inv hG MAX cont s e h (by rw [heq])
      rw [heq] at h1
      exact ih s' h1 hok
    · rename_i s' err heq
      rw [heq] at hok
      simp at hok

/-- counts stay bounded and warnings stay duplicate-free even in a run that is aborted -/
theorem verifyStep_weak (MAX : Nat) (cont : Nat → Bool) (s : SState) (e : Ev) (h : SInv MAX s) :
    (∀ j, ((verifyStep G MAX cont s e).1.lists j).count ≤ MAX) ∧ (verifyStep G MAX cont s e).1.warned.Nodup := by
  by_cases hok : (verifyStep G MAX cont s e).2 = none
  · have := verifyStep_inv hG MAX cont s e h hok
    exact ⟨this.bounded, this.nodup⟩
  · unfold verifyStep at hok ⊢
    split
    · simp_all
    · rename_i hdis
      split
      · simp_all
      · simp only at hok ⊢
        split
        · simp_all
        · refine ⟨h.bounded, ?_⟩
          simp only [List.nodup_cons]
          refine ⟨?_, h.nodup⟩
          intro hmem
          have := h.warnedMuted _ hmem
          simp_all

theorem scanEvents_weak (MAX : Nat) (cont : Nat → Bool) (evs : List Ev) (s : SState) (h : SInv MAX s) :
    (∀ j, ((scanEvents G MAX cont s evs).1.lists j).count ≤ MAX) ∧ (scanEvents G MAX cont s evs).1.warned.Nodup := by
  induction evs generalizing s with
  | nil => exact ⟨h.bounded, h.nodup⟩
  | cons e es ih =>
    simp only [scanEvents]
    split
    · rename_i s' heq
      have h1 := verifyStep_inv hG MAX cont s e h (by rw [heq])
      rw [heq] at h1
      exact ih s' h1
    · rename_i s' err heq
      have := verifyStep_weak hG MAX cont s e h
      rw [heq] at this
      exact this

/-- A step on string `i ≠ j` leaves `j`'s list and mute bit alone. -/
theorem verifyStep_other (MAX : Nat) (cont : Nat → Bool) (s : SState) (e : Ev) (j : Nat) (hne : e.sid ≠ j) :
    (verifyStep G MAX cont s e).1.lists j = s.lists j ∧ (verifyStep G MAX cont s e).1.disabled j = s.disabled j := by
  unfold verifyStep
  split
  · exact ⟨rfl, rfl⟩
  · split
    · simp [upd]; intro h; exact absurd h.symm hne
    · simp only
      split
      · simp [upd]; intro h; exact absurd h.symm hne
      · exact ⟨rfl, rfl⟩

/-- A step on string `j` depends only on `j`'s list and mute bit. -/
theorem verifyStep_same (MAX : Nat) (cont : Nat → Bool) (s t : SState) (e : Ev)
    (hl : s.lists e.sid = t.lists e.sid) (hd : s.disabled e.sid = t.disabled e.sid) :
    (verifyStep G MAX cont s e).1.lists e.sid = (verifyStep G MAX cont t e).1.lists e.sid ∧
    (verifyStep G MAX cont s e).1.disabled e.sid = (verifyStep G MAX cont t e).1.disabled e.sid ∧
    (verifyStep G MAX cont s e).2 = (verifyStep G MAX cont t e).2 := by
  unfold verifyStep
  rw [← hd, ← hl]
  split
  · exact ⟨hl, hd, rfl⟩
  · split
    · exact ⟨by simp [upd], hd, rfl⟩
    · simp only
      split
      · exact ⟨hl, by simp [upd], rfl⟩
      · exact ⟨hl, hd, rfl⟩

/-! ### bounded counters -/

theorem vmRun_none_iff (cap : Nat) (ops : List StkOp) (sp : Nat) (h : sp ≤ cap) :
    vmRun G cap sp ops = none ↔ peak sp ops > cap := by
  induction ops generalizing sp with
  | nil => simp [vmRun, peak]; omega
  | cons o os ih =>
    cases o with
    | push =>
      simp only [vmRun, peak]
      by_cases hlt : sp < cap
      · rw [if_pos ((hG.push sp cap h).2 hlt), ih (sp + 1) (by omega)]
        omega
      · have : ¬ G.pushOk sp cap = true := fun hp => hlt ((hG.push sp cap h).1 hp)
        simp only [this]
        simp
        omega
    | pop =>
      simp only [vmRun, peak]
      rw [ih (sp - 1) (by omega)]
      omega

theorem vmRun_some_le (cap : Nat) (ops : List StkOp) (sp sp' : Nat) (h : sp ≤ cap)
    (hr : vmRun G cap sp ops = some sp') : sp' ≤ cap := by
  induction ops generalizing sp with
  | nil => simp [vmRun] at hr; omega
  | cons o os ih =>
    cases o with
    | push =>
      simp only [vmRun] at hr
      split at hr
      · rename_i hp
        exact ih (sp + 1) (by have := (hG.push sp cap h).1 hp; omega) hr
      · cases hr
    | pop =>
      simp only [vmRun] at hr
      exact ih (sp - 1) (by omega) hr

theorem loopRun_none_iff (MAX : Nat) (evs : List LoopEv) (d : Nat) (h : d ≤ MAX) :
    loopRun G MAX d evs = none ↔ loopPeak d evs > MAX := by
  induction evs generalizing d with
  | nil => simp [loopRun, loopPeak]; omega
  | cons o os ih =>
    cases o with
    | enter =>
      simp only [loopRun, loopPeak]
      by_cases hlt : d = MAX
      · rw [if_pos ((hG.loop d MAX h).2 hlt)]
        simp <;> omega
      · have : ¬ G.loopFull d MAX = true := fun hp => hlt ((hG.loop d MAX h).1 hp)
        simp only [this]
        rw [if_neg (by simp), ih (d + 1) (by omega)]
        omega
    | exit =>
      simp only [loopRun, loopPeak]
      rw [ih (d - 1) (by omega)]
      omega

theorem loopPeak_nested (n d : Nat) :
    loopPeak d (List.replicate n .enter ++ List.replicate n .exit) = d + n := by
  induction n generalizing d with
  | zero => simp [loopPeak]
  | succ k ih =>
    have hexits : ∀ (m e : Nat), loopPeak e (List.replicate m LoopEv.exit) = e := by
      intro m
      induction m with
      | zero => intro e; simp [loopPeak]
      | succ m ihm => intro e; simp [List.replicate_succ, loopPeak, ihm] <;> omega
    -- peak of enter^k · exit^(k+1) from d+1
    have hgen : ∀ (k m e : Nat), loopPeak e (List.replicate k LoopEv.enter ++ List.replicate m LoopEv.exit) = e + k := by
      intro k
      induction k with
      | zero => intro m e; simpa using hexits m e
      | succ k ihk => intro m e; simp [List.replicate_succ, loopPeak, ihk] <;> omega
    exact hgen (k + 1) (k + 1) d

/-! ### include stack -/

theorem pushChain_ok_iff (MAX : Nat) (names stack : List String) (hlen : stack.length ≤ MAX)
    (hnd : names.Nodup) (hdisj : ∀ n ∈ names, ¬ n ∈ stack) :
    (∃ st, pushChain G MAX stack names = .ok st ∧ st.length = stack.length + names.length) ↔
      stack.length + names.length ≤ MAX := by
  induction names generalizing stack with
  | nil => simp [pushChain]; exact hlen
  | cons n ns ih =>
    simp only [pushChain, pushFile]
    have hn : stack.contains n = false := by
      have := hdisj n (by simp)
      simpa using this
    rw [hn]
    simp only [Bool.false_eq_true, ↓reduceIte]
    by_cases hfull : stack.length = MAX
    · rw [if_pos ((hG.incl _ _ hlen).2 hfull)]
      simp; omega
    · have : ¬ G.includeFull stack.length MAX = true := fun hp => hfull ((hG.incl _ _ hlen).1 hp)
      rw [if_neg this]
      simp only
      have hnd' : ns.Nodup := (List.nodup_cons.1 hnd).2
      have hdisj' : ∀ x ∈ ns, ¬ x ∈ n :: stack := by
        intro x hx hmem
        simp only [List.mem_cons] at hmem
        rcases hmem with hmem | hmem
        · subst hmem; exact (List.nodup_cons.1 hnd).1 hx
        · exact hdisj x (by simp [hx]) hmem
      have := ih (n :: stack) (by simp; omega) hnd' hdisj'
      simp only [List.length_cons] at this ⊢
      constructor
      · rintro ⟨st, h1, h2⟩
        have := this.1 ⟨st, h1, by omega⟩
        omega
      · intro h
        obtain ⟨st, h1, h2⟩ := this.2 (by omega)
        exact ⟨st, h1, by omega⟩

theorem pushChain_error_depth (MAX : Nat) (names stack : List String) (hlen : stack.length ≤ MAX)
    (hnd : names.Nodup) (hdisj : ∀ n ∈ names, ¬ n ∈ stack) (hbig : stack.length + names.length > MAX) :
    pushChain G MAX stack names = .error .includeDepth := by
  induction names generalizing stack with
  | nil => simp at hbig; omega
  | cons n ns ih =>
    simp only [pushChain, pushFile]
    have hn : stack.contains n = false := by
      have := hdisj n (by simp)
      simpa using this
    rw [hn]
    simp only [Bool.false_eq_true, ↓reduceIte]
    by_cases hfull : stack.length = MAX
    · rw [if_pos ((hG.incl _ _ hlen).2 hfull)]
    · have : ¬ G.includeFull stack.length MAX = true := fun hp => hfull ((hG.incl _ _ hlen).1 hp)
      rw [if_neg this]
      simp only
      have hnd' : ns.Nodup := (List.nodup_cons.1 hnd).2
      have hdisj' : ∀ x ∈ ns, ¬ x ∈ n :: stack := by
        intro x hx hmem
        simp only [List.mem_cons] at hmem
        rcases hmem with hmem | hmem
        · subst hmem; exact (List.nodup_cons.1 hnd).1 hx
        · exact hdisj x (by simp [hx]) hmem
      exact ih (n :: stack) (by simp; omega) hnd' hdisj' (by simp at hbig ⊢; omega)

theorem pushChain_len_le (MAX : Nat) (names stack st : List String) (hlen : stack.length ≤ MAX)
    (h : pushChain G MAX stack names = .ok st) : st.length ≤ MAX := by
  induction names generalizing stack with
  | nil => simp [pushChain] at h; subst h; exact hlen
  | cons n ns ih =>
    simp only [pushChain, pushFile] at h
    split at h
    · rename_i st' heq
      split at heq
      · cases heq
      · split at heq
        · cases heq
        · rename_i hc hfull
          cases heq
          have hne : stack.length ≠ MAX := fun e => hfull ((hG.incl _ _ hlen).2 e)
          exact ih (n :: stack) (by simp; omega) h
    · cases h

/-! ### strings per rule -/

theorem countStrings_none_iff (M k cnt : Nat) (h : cnt ≤ M) : countStrings G M cnt k = none ↔ cnt + k > M := by
  induction k generalizing cnt with
  | zero => simp [countStrings]; omega
  | succ k ih =>
    simp only [countStrings]
    by_cases hov : cnt + 1 > M
    · rw [if_pos ((hG.strings _ _).2 hov)]; simp; omega
    · have : ¬ G.stringsOver (cnt + 1) M = true := fun hp => hov ((hG.strings _ _).1 hp)
      rw [if_neg this, ih (cnt + 1) (by omega)]
      omega

/-! ### regular-expression emitter -/

theorem emitSplit_ok (MAX : Nat) (c c' : Emit) (h : emitSplit G MAX c = .ok c') :
    c'.split = c.split + 1 ∧ c'.size = c.size + 4 := by
  unfold emitSplit at h
  split at h
  · cases h
  · cases h; exact ⟨rfl, rfl⟩

theorem emitSplit_le (MAX : Nat) (c c' : Emit) (hc : c.split ≤ MAX) (h : emitSplit G MAX c = .ok c') :
    c'.split ≤ MAX := by
  unfold emitSplit at h
  split at h
  · cases h
  · rename_i hf
    cases h
    have : c.split ≠ MAX := fun e => hf ((hG.split _ _ hc).2 e)
    simp; omega

theorem emitSplit_err (MAX : Nat) (c : Emit) (e : Err) (hc : c.split ≤ MAX) (h : emitSplit G MAX c = .error e) :
    e = .reTooComplex ∧ c.split = MAX := by
  unfold emitSplit at h
  split at h
  · rename_i hf
    cases h
    exact ⟨rfl, (hG.split _ _ hc).1 hf⟩
  · cases h

theorem emitSplit_full (MAX : Nat) (c : Emit) (hc : c.split = MAX) : emitSplit G MAX c = .error .reTooComplex := by
  unfold emitSplit
  rw [if_pos ((hG.split _ _ (by omega)).2 hc)]

/-! ### fiber pool -/

structure PoolInv (MAX : Nat) (p : Pool) : Prop where
  bound : p.allocated ≤ MAX
  conserve : p.allocated = p.free + p.live

theorem fibStep_inv (MAX : Nat) (p : Pool) (o : FibOp) (h : PoolInv MAX p) : PoolInv MAX (fibStep G MAX p o).1 := by
  cases o with
  | create =>
    simp only [fibStep]
    split
    · exact ⟨h.bound, by have := h.conserve; simp; omega⟩
    · split
      · exact h
      · rename_i hfree hfull
        have hne : p.allocated ≠ MAX := fun e => hfull ((hG.fiber _ _ h.bound).2 e)
        exact ⟨by have := h.bound; simp; omega, by have := h.conserve; simp; omega⟩
  | release =>
    simp only [fibStep]
    split
    · exact ⟨h.bound, by have := h.conserve; simp; omega⟩
    · exact h

theorem fibRun_inv (MAX : Nat) (ops : List FibOp) (p : Pool) (h : PoolInv MAX p) : PoolInv MAX (fibRun G MAX p ops).1 := by
  induction ops generalizing p with
  | nil => exact h
  | cons o os ih => simp only [fibRun]; exact ih _ (fibStep_inv hG MAX p o h)

/-! ### timeout cadence -/

theorem vmReads_eq (N : Nat) (hN : N ≥ 1) (k cycle : Nat) (h : cycle < N) :
    vmReads G N cycle k = (cycle + k) / N := by
  induction k generalizing cycle with
  | zero => simp [vmReads]; exact (Nat.div_eq_of_lt h).symm
  | succ k ih =>
    simp only [vmReads, vmTick_spec hG N cycle h]
    by_cases he : cycle + 1 = N
    · simp only [he, ↓reduceIte]
      rw [ih 0 (by omega)]
      have : cycle + (k + 1) = k + N := by omega
      rw [this, Nat.add_div_right _ (by omega)]
      simp; omega
    · simp only [he, ↓reduceIte]
      rw [ih (cycle + 1) (by omega)]
      have : cycle + 1 + k = cycle + (k + 1) := by omega
      rw [this]; simp

theorem blockReads_ge (S : Nat) (hS : S ≥ 1) (k a : Nat) : blockReads S a k ≥ k / S := by
  -- count multiples of S in [a, a+k): at least ⌊k/S⌋
  induction k using Nat.strongRecOn generalizing a with
  | _ k ih =>
    by_cases hk : k < S
    · rw [Nat.div_eq_of_lt hk]; omega
    · -- split the window into the first S positions and the rest
      have hsplit : ∀ (m a : Nat), blockReads S a (m + (k - S)) = blockReads S a m + blockReads S (a + m) (k - S) := by
        intro m
        induction m with
        | zero => intro a; simp [blockReads]
        | succ m ihm =>
          intro a
          have : m + 1 + (k - S) = (m + (k - S)) + 1 := by omega
          rw [this]
          simp only [blockReads]
          rw [ihm (a + 1)]
          have : a + 1 + m = a + (m + 1) := by omega
          rw [this]; omega
      have hfirst : ∀ (a : Nat), blockReads S a S ≥ 1 := by
        intro a
        -- the multiple of S in [a, a+S) is a + (S - a % S) % S
        have hmono : ∀ (m a : Nat), (∃ i, i < m ∧ (a + i) % S = 0) → blockReads S a m ≥ 1 := by
          intro m
          induction m with
          | zero => intro a ⟨i, hi, _⟩; omega
          | succ m ihm =>
            intro a ⟨i, hi, hz⟩
            simp only [blockReads]
            cases i with
            | zero => simp at hz; simp [hz]
            | succ i =>
              have := ihm (a + 1) ⟨i, by omega, by rw [← hz]; congr 1; omega⟩
              omega
        apply hmono
        refine ⟨(S - a % S) % S, Nat.mod_lt _ (by omega), ?_⟩
        have hlt : a % S < S := Nat.mod_lt _ (by omega)
        by_cases hz : a % S = 0
        · simp [hz]
        · have : (S - a % S) % S = S - a % S := Nat.mod_eq_of_lt (by omega)
          rw [this]
          have h1 : a + (S - a % S) = S * (a / S) + S := by
            have := Nat.div_add_mod a S
            omega
          rw [h1]; simp
      have hk' : k = S + (k - S) := by omega
      have := hsplit S a
      rw [← hk'] at this
      rw [this]
      have h2 := ih (k - S) (by omega) (a + S)
      have h3 := hfirst a
      have : k / S = (k - S) / S + 1 := by
        have : k = (k - S) + S := by omega
        rw [this, Nat.add_div_right _ (by omega)]; simp
      omega

end YaraModel.Limits
