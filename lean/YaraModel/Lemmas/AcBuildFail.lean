/- Aho-Corasick construction, helper lemmas 5: `_yr_ac_create_failure_links` — failure = longest proper path-suffix,
   match list of a state = the entries of all atoms that are suffixes of its path, longest first (`specList`), root matches
   (zero-length atoms) last -/
import YaraModel.Lemmas.AcBuildSpec
namespace YaraModel.AC.Build
open YaraModel.Text YaraModel.AC

/-- where the list of `x` must continue after its own entries -/
def RT (A : Auto) (atoms : List (Nat × Atom)) (x : Nat) : Nat := headRef (specList atoms (A.st x).path.tail)
/-- the root's match list -/
def R0 (atoms : List (Nat × Atom)) : Nat := headRef (ownIdx atoms [])

/-- match-list structure during the pass. `lk`: states already linked to their failure state's list (their parent has been
    popped), `pp`: states popped themselves. A linked state's continuation may still be NULL where the final one is the
    root's list (the failure state had not inherited it yet); popping the state repairs that. -/
structure MS (A : Auto) (atoms : List (Nat × Atom)) (lk pp : Nat → Prop) : Prop where
  trie : Trie A
  pool_size : A.pool.size = atoms.length
  pool_info : ∀ (e : Nat) (a : Nat × Atom), atoms[e]? = some a →
    ∃ nx, A.pool[e]? = some (a.1, a.2.bytes.length + a.2.backtrack, nx)
  atoms_in : ∀ a ∈ atoms, ∃ s, s < A.states.size ∧ (A.st s).path = a.2.bytes
  root_bt : ∀ a ∈ atoms, a.2.bytes = [] → a.2.backtrack = 0
  root_chain : ChainSeg A.pool (A.st 0).matchesRef (ownIdx atoms []) 0
  pp_lk : ∀ x, pp x → lk x
  lk_range : ∀ x, lk x → 0 < x ∧ x < A.states.size
  fresh : ∀ x, 0 < x → x < A.states.size → ¬ lk x → ChainSeg A.pool (A.st x).matchesRef (ownIdx atoms (A.st x).path) 0
  linked : ∀ x, lk x → ¬ pp x → ∃ tl, ChainSeg A.pool (A.st x).matchesRef (ownIdx atoms (A.st x).path) tl ∧
    (tl = RT A atoms x ∨ (tl = 0 ∧ RT A atoms x = R0 atoms))
  popped : ∀ x, pp x → ChainSeg A.pool (A.st x).matchesRef (ownIdx atoms (A.st x).path) (RT A atoms x)

structure I2 (A : Auto) (atoms : List (Nat × Atom)) (lk pp : Nat → Prop) : Prop where
  ms : MS A atoms lk pp
  root_fail : (A.st 0).failure = 0
  fail : ∀ x, lk x → (A.st x).failure < A.states.size ∧
    (A.st (A.st x).failure).path = lsuf (pathsOf A) (A.st x).path.tail

theorem Trie.path_ne_nil {A : Auto} (hT : Trie A) {x : Nat} (hx : x < A.states.size) (h0 : 0 < x) : (A.st x).path ≠ [] := by
  intro h
  have := hT.depth_pos hx h0
  rw [hT.depth_eq x hx, h] at this
  simp at this

theorem atoms_in_paths {A : Auto} {atoms : List (Nat × Atom)}
    (hin : ∀ a ∈ atoms, ∃ s, s < A.states.size ∧ (A.st s).path = a.2.bytes) :
    ∀ (e : Nat) (a : Nat × Atom), atoms[e]? = some a → a.2.bytes ∈ pathsOf A := by
  intro e a ha
  obtain ⟨s, hs, hp⟩ := hin a (List.mem_of_getElem? ha)
  exact mem_pathsOf.mpr ⟨s, hs, hp⟩

theorem specList_ends (atoms : List (Nat × Atom)) : ∀ (w : Bytes), ∃ pre, specList atoms w = pre ++ ownIdx atoms [] := by
  intro w
  induction w with
  | nil => exact ⟨[], rfl⟩
  | cons c t ih =>
    obtain ⟨pre, hp⟩ := ih
    exact ⟨ownIdx atoms (c :: t) ++ pre, by simp [specList, hp]⟩

theorem R0_of_specList_nil {atoms : List (Nat × Atom)} {w : Bytes} (h : headRef (specList atoms w) = 0) : R0 atoms = 0 := by
  obtain ⟨pre, hp⟩ := specList_ends atoms w
  rw [hp] at h
  unfold R0
  cases hpre : pre with
  | nil => rw [hpre] at h; simpa using h
  | cons a l => rw [hpre] at h; simp [headRef] at h

/-- the reference of a linked state is final, except that it may still be NULL where it will be the root's list -/
theorem MS.ref_status {A : Auto} {atoms : List (Nat × Atom)} {lk pp : Nat → Prop} (h : MS A atoms lk pp) {t : Nat} (ht : t = 0 ∨ lk t) :
    (A.st t).matchesRef = headRef (specList atoms (A.st t).path) ∨
    ((A.st t).matchesRef = 0 ∧ headRef (specList atoms (A.st t).path) = R0 atoms) := by
  rcases ht with ht | ht
  · subst ht
    left
    rw [h.trie.root_path]
    have := h.root_chain.head_eq
    rw [this]
    simp only [specList]
    split
    · rename_i e; rw [e]; rfl
    · rfl
  · have hr := h.lk_range t ht
    have hne := h.trie.path_ne_nil hr.2 hr.1
    rw [specList_of_ne_nil atoms _ hne, headRef_append]
    have key : ∀ tl, ChainSeg A.pool (A.st t).matchesRef (ownIdx atoms (A.st t).path) tl → tl = RT A atoms t →
        (A.st t).matchesRef = if ownIdx atoms (A.st t).path = [] then headRef (specList atoms (A.st t).path.tail)
          else headRef (ownIdx atoms (A.st t).path) := by
      intro tl hc htl
      rw [hc.head_eq, htl]; rfl
    by_cases hp : pp t
    · exact Or.inl (key _ (h.popped t hp) rfl)
    · obtain ⟨tl, hc, htl⟩ := h.linked t ht hp
      rcases htl with htl | ⟨htl, hst⟩
      · exact Or.inl (key _ hc htl)
      · subst htl
        by_cases ho : ownIdx atoms (A.st t).path = []
        · right
          rw [if_pos ho]
          refine ⟨?_, hst⟩
          rw [hc.head_eq, if_pos ho]
        · left
          rw [hc.head_eq, if_neg ho, if_neg ho]

/-- a popped state (or the root) whose shallower states are all popped has its complete, final match list -/
theorem MS.complete_chain {A : Auto} {atoms : List (Nat × Atom)} {lk pp : Nat → Prop} (h : MS A atoms lk pp) :
    ∀ (n y : Nat), (A.st y).path.length = n → (y = 0 ∨ pp y) → y < A.states.size →
    (∀ g, 0 < g → g < A.states.size → (A.st g).depth < (A.st y).depth → pp g) →
    ChainSeg A.pool (A.st y).matchesRef (specList atoms (A.st y).path) 0 := by
  have hT := h.trie
  intro n
  induction n using Nat.strongRecOn with
  | _ n ih =>
    intro y hn hy hys hdp
    rcases hy with hy | hy
    · subst hy
      rw [hT.root_path]; exact h.root_chain
    · have hr := h.lk_range y (h.pp_lk y hy)
      have hne := hT.path_ne_nil hr.2 hr.1
      rw [specList_of_ne_nil atoms _ hne]
      refine (h.popped y hy).append ?_
      -- the state of the longest path-suffix of the tail
      obtain ⟨f, hf, hfp⟩ := mem_pathsOf.mp (lsuf_mem (pathsOf A) hT.nil_mem (A.st y).path.tail)
      have hlen : (A.st f).path.length < (A.st y).path.length := by
        rw [hfp]
        have := lsuf_length_le (pathsOf A) (A.st y).path.tail
        cases hp : (A.st y).path with
        | nil => exact absurd hp hne
        | cons c t => rw [hp] at this; simp at this ⊢; omega
      have hdf : (A.st f).depth < (A.st y).depth := by rw [hT.depth_eq f hf, hT.depth_eq y hr.2]; exact hlen
      have hfs : f = 0 ∨ pp f := by
        rcases Nat.eq_zero_or_pos f with e | e
        · exact Or.inl e
        · exact Or.inr (hdp f e hf hdf)
      have hc := ih _ (by omega) f rfl hfs hf (fun g h0 hg hd => hdp g h0 hg (by omega))
      have hsl : specList atoms (A.st f).path = specList atoms (A.st y).path.tail := by
        rw [hfp]; exact (specList_lsuf (atoms_in_paths h.atoms_in) _).symm
      rw [hsl] at hc
      have : RT A atoms y = (A.st f).matchesRef := by
        unfold RT
        rw [hc.head_eq]
        split
        · rename_i e; rw [e]; rfl
        · rfl
      rw [this]; exact hc

/-- all non-root states of depth at most `d` are linked -/
def DC (A : Auto) (lk : Nat → Prop) (d : Nat) : Prop := ∀ g, 0 < g → g < A.states.size → (A.st g).depth ≤ d → lk g

theorem findFailure_spec {A : Auto} {atoms : List (Nat × Atom)} {lk pp : Nat → Prop} (h : I2 A atoms lk pp) {d : Nat} (hdc : DC A lk d)
    (c : UInt8) : ∀ (fuel g : Nat), g < A.states.size → (A.st g).depth + 1 ≤ d → (A.st g).depth < fuel →
    match findFailure A c fuel g with
    | some t => t < A.states.size ∧ lk t ∧ (A.st t).path = lsuf (pathsOf A) ((A.st g).path ++ [c])
    | none => lsuf (pathsOf A) ((A.st g).path ++ [c]) = [] := by
  have hT := h.ms.trie
  intro fuel
  induction fuel with
  | zero => intro g _ _ hf; omega
  | succ fuel ih =>
    intro g hg hd hf
    simp only [findFailure]
    cases hn : nextState A g c with
    | some t =>
      simp only
      obtain ⟨ht, hi⟩ := nextState_some hn
      have hlt := hT.child_lt g hg t ht
      have hp := hT.child_path g hg t ht
      rw [hi] at hp
      refine ⟨hlt.2, hdc t (by omega) hlt.2 (by rw [hT.depth_child hg ht]; omega), ?_⟩
      rw [← hp]
      exact (lsuf_of_mem _ _ (mem_pathsOf.mpr ⟨t, hlt.2, rfl⟩)).symm
    | none =>
      simp only
      have hnp := hT.not_path_of_no_child hg (nextState_none hn)
      by_cases hg0 : g = 0
      · rw [if_pos hg0]
        simp only
        subst hg0
        rw [hT.root_path] at hnp ⊢
        rw [List.nil_append] at hnp ⊢
        rw [lsuf_of_not_mem _ _ _ hnp]; rfl
      · rw [if_neg hg0]
        have hlk : lk g := hdc g (by omega) hg (by omega)
        obtain ⟨hf1, hf2⟩ := h.fail g hlk
        have hgne := hT.path_ne_nil hg (by omega)
        have hdlt : (A.st (A.st g).failure).depth < (A.st g).depth := by
          rw [hT.depth_eq _ hf1, hT.depth_eq g hg, hf2]
          have := lsuf_length_le (pathsOf A) (A.st g).path.tail
          cases hp : (A.st g).path with
          | nil => exact absurd hp hgne
          | cons a t => rw [hp] at this; simp at this ⊢; omega
        have := ih (A.st g).failure hf1 (by omega) (by omega)
        rw [lsuf_fail_step _ hT.nil_mem hT.prefixClosed _ c hgne hnp, ← hf2]
        exact this


theorem I2.congr_lk {A : Auto} {atoms : List (Nat × Atom)} {lk lk' pp pp' : Nat → Prop} (h : I2 A atoms lk pp)
    (e : ∀ x, lk x ↔ lk' x) (e2 : ∀ x, pp x ↔ pp' x) : I2 A atoms lk' pp' := by
  have : lk = lk' := funext fun x => propext (e x)
  have : pp = pp' := funext fun x => propext (e2 x)
  subst_vars; exact h

theorem DC.mono {A : Auto} {lk lk' : Nat → Prop} {d : Nat} (h : DC A lk d) (hm : ∀ x, lk x → lk' x) : DC A lk' d :=
  fun g h0 hg hd => hm g (h g h0 hg hd)

theorem shape_path {A B : Auto} {i : Nat} (h : shape B i = shape A i) : (B.st i).path = (A.st i).path := by
  simp only [shape, Prod.mk.injEq] at h; exact h.2.2.2

theorem shape_children {A B : Auto} {i : Nat} (h : shape B i = shape A i) : (B.st i).children = (A.st i).children := by
  simp only [shape, Prod.mk.injEq] at h; exact h.2.2.1

theorem shape_depth {A B : Auto} {i : Nat} (h : shape B i = shape A i) : (B.st i).depth = (A.st i).depth := by
  simp only [shape, Prod.mk.injEq] at h; exact h.2.1

theorem shape_input {A B : Auto} {i : Nat} (h : shape B i = shape A i) : (B.st i).input = (A.st i).input := by
  simp only [shape, Prod.mk.injEq] at h; exact h.1


/-- changing one state `ch` (its failure link, its match reference, the `next` of its own entries): what has to be shown -/
theorem I2_frame {A B : Auto} {atoms : List (Nat × Atom)} {lk pp lk' pp' : Nat → Prop} (h : I2 A atoms lk pp) {ch : Nat}
    (hch : 0 < ch ∧ ch < A.states.size)
    (s1 : B.states.size = A.states.size) (s2 : ∀ i, shape B i = shape A i)
    (s3 : ∀ j, j ≠ ch → (B.st j).matchesRef = (A.st j).matchesRef ∧ (B.st j).failure = (A.st j).failure)
    (s4 : B.pool.size = A.pool.size)
    (s4' : ∀ (e a b : Nat), (∃ n, A.pool[e]? = some (a, b, n)) → ∃ n, B.pool[e]? = some (a, b, n))
    (s5 : ∀ e, e ∉ ownIdx atoms (A.st ch).path → poolNextAt B.pool e = poolNextAt A.pool e)
    (hlk : ∀ x, x ≠ ch → (lk' x ↔ lk x)) (hpp : ∀ x, x ≠ ch → (pp' x ↔ pp x)) (hpl : pp' ch → lk' ch)
    (cfresh : ¬ lk' ch → ChainSeg B.pool (B.st ch).matchesRef (ownIdx atoms (A.st ch).path) 0)
    (clinked : lk' ch → ¬ pp' ch → ∃ tl, ChainSeg B.pool (B.st ch).matchesRef (ownIdx atoms (A.st ch).path) tl ∧
      (tl = RT A atoms ch ∨ (tl = 0 ∧ RT A atoms ch = R0 atoms)))
    (cpopped : pp' ch → ChainSeg B.pool (B.st ch).matchesRef (ownIdx atoms (A.st ch).path) (RT A atoms ch))
    (cfail : lk' ch → (B.st ch).failure < A.states.size ∧
      (A.st (B.st ch).failure).path = lsuf (pathsOf A) (A.st ch).path.tail) :
    I2 B atoms lk' pp' := by
  have hT := h.ms.trie
  have hP : pathsOf B = pathsOf A := pathsOf_congr s1 s2
  have hRT : ∀ x, RT B atoms x = RT A atoms x := fun x => by unfold RT; rw [shape_path (s2 x)]
  have frame : ∀ x, x < A.states.size → x ≠ ch → ∀ r tl, ChainSeg A.pool r (ownIdx atoms (A.st x).path) tl →
      ChainSeg B.pool r (ownIdx atoms (A.st x).path) tl := by
    intro x hx hxc r tl hc
    apply hc.congr (by omega)
    intro e he
    apply s5
    intro he2
    exact hxc (hT.path_inj x ch hx hch.2 (ownIdx_disjoint he he2))
  refine ⟨⟨hT.congr s1 s2, by rw [s4]; exact h.ms.pool_size, ?_, ?_, h.ms.root_bt, ?_, ?_, ?_, ?_, ?_, ?_⟩, ?_, ?_⟩
  · intro e a ha
    exact s4' e _ _ (h.ms.pool_info e a ha)
  · intro a ha
    obtain ⟨s, hs1, hs2⟩ := h.ms.atoms_in a ha
    exact ⟨s, by omega, by rw [shape_path (s2 s)]; exact hs2⟩
  · rw [(s3 0 (by omega)).1]
    have := frame 0 hT.size_pos (by omega) _ _ (by rw [hT.root_path]; exact h.ms.root_chain)
    rw [hT.root_path] at this; exact this
  · intro x hx
    by_cases e : x = ch
    · subst e; exact hpl hx
    · exact (hlk x e).mpr (h.ms.pp_lk x ((hpp x e).mp hx))
  · intro x hx
    by_cases e : x = ch
    · subst e; omega
    · have := h.ms.lk_range x ((hlk x e).mp hx); omega
  · intro x h0 hx hn
    rw [shape_path (s2 x)]
    by_cases e : x = ch
    · subst e; exact cfresh hn
    · rw [(s3 x e).1]
      exact frame x (by omega) e _ _ (h.ms.fresh x h0 (by omega) (fun hh => hn ((hlk x e).mpr hh)))
  · intro x hx hn
    rw [shape_path (s2 x), hRT]
    by_cases e : x = ch
    · subst e; exact clinked hx hn
    · obtain ⟨tl, hc, htl⟩ := h.ms.linked x ((hlk x e).mp hx) (fun hh => hn ((hpp x e).mpr hh))
      have hr := h.ms.lk_range x ((hlk x e).mp hx)
      rw [(s3 x e).1]
      exact ⟨tl, frame x hr.2 e _ _ hc, htl⟩
  · intro x hx
    rw [shape_path (s2 x), hRT]
    by_cases e : x = ch
    · subst e; exact cpopped hx
    · have hpx := (hpp x e).mp hx
      have hr := h.ms.lk_range x (h.ms.pp_lk x hpx)
      rw [(s3 x e).1]
      exact frame x hr.2 e _ _ (h.ms.popped x hpx)
  · rw [(s3 0 (by omega)).2]; exact h.root_fail
  · intro x hx
    rw [s1, hP, shape_path (s2 x)]
    by_cases e : x = ch
    · subst e
      obtain ⟨c1, c2⟩ := cfail hx
      exact ⟨c1, by rw [shape_path (s2 _)]; exact c2⟩
    · obtain ⟨g1, g2⟩ := h.fail x ((hlk x e).mp hx)
      rw [(s3 x e).2]
      exact ⟨g1, by rw [shape_path (s2 _)]; exact g2⟩

theorem shape_modify (A : Auto) (ch : Nat) (f : State → State)
    (hf : ∀ x : State, (f x).input = x.input ∧ (f x).depth = x.depth ∧ (f x).children = x.children ∧ (f x).path = x.path) (i : Nat) :
    shape (A.modify ch f) i = shape A i := by
  unfold shape
  rw [st_modify]
  split
  · rename_i e; rw [e.1]; simp [(hf (A.st ch)).1, (hf (A.st ch)).2.1, (hf (A.st ch)).2.2.1, (hf (A.st ch)).2.2.2]
  · rfl


theorem poolBt_of_info {A : Auto} {e a b n : Nat} (h : A.pool[e]? = some (a, b, n)) : poolBt A (e + 1) = b := by
  unfold poolBt
  simp [Array.getD_eq_getD_getElem?, h]

theorem last_mem_own_nil {atoms : List (Nat × Atom)} {w : Bytes} {init : List Nat} {last : Nat}
    (h : specList atoms w = init ++ [last]) (hne : ownIdx atoms [] ≠ []) : last ∈ ownIdx atoms [] := by
  obtain ⟨pre, hp⟩ := specList_ends atoms w
  rw [hp] at h
  rcases List.eq_nil_or_concat (ownIdx atoms []) with e | ⟨i2, l2, e⟩
  · exact absurd e hne
  · rw [List.concat_eq_append] at e
    rw [e, ← List.append_assoc] at h
    have := (List.append_inj' h rfl).2
    simp at this
    rw [e, ← this]; simp

/-- first part of the loop body: the popped state inherits the root's match list (where it has not got it through its
    failure state already) — afterwards its match list is final -/
theorem rootFixup_I2 {A : Auto} {atoms : List (Nat × Atom)} {lk pp : Nat → Prop} (h : I2 A atoms lk pp) {cur : Nat}
    (hcur : lk cur) (hnp : ¬ pp cur) (hdp : ∀ g, 0 < g → g < A.states.size → (A.st g).depth < (A.st cur).depth → pp g) :
    I2 (rootFixup A cur) atoms lk (fun x => pp x ∨ x = cur) := by
  have hT := h.ms.trie
  have hcr := h.ms.lk_range cur hcur
  have hcne := hT.path_ne_nil hcr.2 hcr.1
  obtain ⟨tl, hc, htl⟩ := h.ms.linked cur hcur hnp
  have hroot : (A.st 0).matchesRef = R0 atoms := by
    rw [h.ms.root_chain.head_eq]; unfold R0; split
    · rename_i e; rw [e]; rfl
    · rfl
  -- the continuation that is final for `cur`
  have hfinal : tl = 0 → R0 atoms = RT A atoms cur := by
    intro h0
    rcases htl with e | ⟨_, e⟩
    · rw [← e, h0]; exact R0_of_specList_nil (by rw [h0] at e; exact e.symm)
    · exact e.symm
  have hlk' : ∀ x, x ≠ cur → (lk x ↔ lk x) := fun _ _ => Iff.rfl
  have hpp' : ∀ x, x ≠ cur → ((pp x ∨ x = cur) ↔ pp x) := fun x e => ⟨fun hh => hh.resolve_right e, Or.inl⟩
  -- the case where nothing changes
  have nochange : tl = RT A atoms cur → I2 A atoms lk (fun x => pp x ∨ x = cur) := by
    intro e
    apply I2_frame (B := A) h hcr rfl (fun _ => rfl) (fun _ _ => ⟨rfl, rfl⟩) rfl (fun _ _ _ hh => hh) (fun _ _ => rfl) hlk' hpp' (fun _ => hcur)
    · intro hh; exact absurd hcur hh
    · intro _ hh; exact absurd (Or.inr rfl) hh
    · intro _; rw [← e]; exact hc
    · intro _; exact h.fail cur hcur
  unfold rootFixup
  by_cases hr : (A.st cur).matchesRef ≠ 0
  · rw [if_pos hr]
    simp only
    by_cases htl0 : tl = 0
    · -- the list is the own entries only: the last one gets the root's list
      subst htl0
      rcases List.eq_nil_or_concat (ownIdx atoms (A.st cur).path) with hl | ⟨init, last, hl⟩
      · rw [hl] at hc; simp only [ChainSeg] at hc; exact absurd hc hr
      · rw [List.concat_eq_append] at hl
        rw [hl] at hc
        have hlen : init.length ≤ A.pool.size := by
          have := ownIdx_length_le atoms (A.st cur).path
          rw [hl, h.ms.pool_size.symm] at this
          simp at this; omega
        rw [lastMatch_spec A init last _ _ hc hlen]
        have hlast : last ∈ ownIdx atoms (A.st cur).path := by rw [hl]; simp
        obtain ⟨a, ha, hab⟩ := mem_ownIdx.mp hlast
        obtain ⟨nx, hnx⟩ := h.ms.pool_info last a ha
        have hbt : poolBt A (last + 1) > 0 := by
          rw [poolBt_of_info hnx, hab]
          have : 0 < (A.st cur).path.length := by
            cases hp : (A.st cur).path with
            | nil => exact absurd hp hcne
            | cons _ _ => simp
          omega
        rw [if_pos hbt, hroot]
        have hnd : (init ++ [last]).Nodup := by rw [← hl]; exact ownIdx_nodup _ _
        apply I2_frame (B := setNext A (last + 1) (R0 atoms)) h hcr (by simp) (fun _ => rfl) (fun _ _ => ⟨rfl, rfl⟩) (by simp)
          (fun e a b hh => setNext_info A (last + 1) (R0 atoms) e a b hh) ?_ hlk' hpp' (fun _ => hcur)
        · intro hh; exact absurd hcur hh
        · intro _ hh; exact absurd (Or.inr rfl) hh
        · intro _
          rw [setNext_st, hl, ← hfinal rfl]
          exact ChainSeg.setNext_last hc hnd _
        · intro _; exact h.fail cur hcur
        · intro e he
          rw [setNext_next]
          have : ¬ (e = last + 1 - 1 ∧ e < A.pool.size) := by
            intro hh; apply he; rw [hh.1]; simpa using hlast
          rw [if_neg this]
    · -- the list continues into the final list of the failure state: nothing to do
      have hexact : tl = RT A atoms cur := by
        rcases htl with e | ⟨e, _⟩
        · exact e
        · exact absurd e htl0
      -- complete chain from `cur`
      have hcomplete : ChainSeg A.pool (A.st cur).matchesRef (specList atoms (A.st cur).path) 0 := by
        have h2 := nochange hexact
        exact h2.ms.complete_chain _ cur rfl (Or.inr (Or.inr rfl)) hcr.2 (fun g h0 hg hd => Or.inl (hdp g h0 hg hd))
      rcases List.eq_nil_or_concat (specList atoms (A.st cur).path) with hl | ⟨init, last, hl⟩
      · rw [hl] at hcomplete; simp only [ChainSeg] at hcomplete; exact absurd hcomplete hr
      · rw [List.concat_eq_append] at hl
        rw [hl] at hcomplete
        have hlen : init.length ≤ A.pool.size := by
          have := specList_length_le atoms (A.st cur).path
          rw [hl, h.ms.pool_size.symm] at this
          simp at this; omega
        rw [lastMatch_spec A init last _ _ hcomplete hlen]
        have hnext : poolNext A (last + 1) = 0 := by
          obtain ⟨m, _, h2⟩ := hcomplete.split
          simp only [ChainSeg] at h2
          rw [poolNext_eq]; simpa using h2.2.2
        have hsame : (if poolBt A (last + 1) > 0 then setNext A (last + 1) (A.st 0).matchesRef else A) = A := by
          split
          · rename_i hbt
            by_cases hon : ownIdx atoms [] = []
            · have : (A.st 0).matchesRef = 0 := by rw [hroot]; unfold R0; rw [hon]; rfl
              rw [this, ← hnext]; exact setNext_noop A (last + 1)
            · exfalso
              have hm := last_mem_own_nil hl hon
              obtain ⟨a, ha, hab⟩ := mem_ownIdx.mp hm
              obtain ⟨nx, hnx⟩ := h.ms.pool_info last a ha
              rw [poolBt_of_info hnx, hab, h.ms.root_bt a (List.mem_of_getElem? ha) hab] at hbt
              simp at hbt
          · rfl
        rw [hsame]
        exact nochange hexact
  · rw [if_neg hr]
    have hr' : (A.st cur).matchesRef = 0 := by omega
    have hown : ownIdx atoms (A.st cur).path = [] := by rw [hr'] at hc; exact hc.nil_of_zero
    have htl0 : tl = 0 := by
      have := hc.head_eq; rw [hown, if_pos rfl] at this; omega
    apply I2_frame (B := A.modify cur fun x => { x with matchesRef := (A.st 0).matchesRef }) h hcr (by simp)
      (shape_modify A cur (fun x => { x with matchesRef := (A.st 0).matchesRef }) (fun _ => ⟨rfl, rfl, rfl, rfl⟩))
      (fun j hj => by rw [st_modify_ne A cur j _ hj]; exact ⟨rfl, rfl⟩) rfl (fun _ _ _ hh => hh) (fun _ _ => rfl) hlk' hpp' (fun _ => hcur)
    · intro hh; exact absurd hcur hh
    · intro _ hh; exact absurd (Or.inr rfl) hh
    · intro _
      rw [st_modify_self A cur _ hcr.2, hown, hroot, hfinal htl0]
      simp [ChainSeg]
    · intro _
      rw [st_modify_self A cur _ hcr.2]
      exact h.fail cur hcur

/-- the body of the loop over the children of the popped state `cur` -/
theorem linkChild_I2 {A : Auto} {atoms : List (Nat × Atom)} {lk pp : Nat → Prop} (h : I2 A atoms lk pp) {d : Nat} (hdc : DC A lk d)
    {cur ch : Nat} (hcur : lk cur) (hd : (A.st cur).depth = d) (hch : ch ∈ (A.st cur).children) (hnl : ¬ lk ch) :
    I2 (linkChild cur A ch) atoms (fun x => lk x ∨ x = ch) pp := by
  have hT := h.ms.trie
  have hcr := h.ms.lk_range cur hcur
  have hcl := hT.child_lt cur hcr.2 ch hch
  have hch0 : 0 < ch ∧ ch < A.states.size := ⟨by omega, hcl.2⟩
  obtain ⟨hg1, hg2⟩ := h.fail cur hcur
  have hcne := hT.path_ne_nil hcr.2 hcr.1
  have hgd : (A.st (A.st cur).failure).depth + 1 ≤ d := by
    rw [hT.depth_eq _ hg1, ← hd, hT.depth_eq cur hcr.2, hg2]
    have := lsuf_length_le (pathsOf A) (A.st cur).path.tail
    cases hp : (A.st cur).path with
    | nil => exact absurd hp hcne
    | cons a t => rw [hp] at this; simp at this ⊢; omega
  have hfuel : (A.st (A.st cur).failure).depth < A.states.size := by
    have := hT.depth_le_id _ hg1; omega
  have spec := findFailure_spec h hdc (A.st ch).input A.states.size _ hg1 hgd hfuel
  have htarget : lsuf (pathsOf A) (A.st ch).path.tail = lsuf (pathsOf A) ((A.st (A.st cur).failure).path ++ [(A.st ch).input]) := by
    rw [hT.child_path cur hcr.2 ch hch, tail_append_singleton _ _ hcne, hg2]
    exact lsuf_step _ hT.nil_mem hT.prefixClosed _ _
  have hfresh := h.ms.fresh ch hch0.1 hch0.2 hnl
  have hnpp : ¬ pp ch := fun hh => hnl (h.ms.pp_lk ch hh)
  have hRT : RT A atoms ch = headRef (specList atoms (lsuf (pathsOf A) (A.st ch).path.tail)) := by
    unfold RT; rw [← specList_lsuf (atoms_in_paths h.ms.atoms_in)]
  have hlk' : ∀ x, x ≠ ch → ((lk x ∨ x = ch) ↔ lk x) := fun x e => ⟨fun hh => hh.resolve_right e, Or.inl⟩
  have hpp' : ∀ x, x ≠ ch → (pp x ↔ pp x) := fun _ _ => Iff.rfl
  unfold linkChild
  cases hff : findFailure A (A.st ch).input A.states.size (A.st cur).failure with
  | some t =>
    rw [hff] at spec
    simp only at spec ⊢
    obtain ⟨ht1, ht2, ht3⟩ := spec
    have htc : t ≠ ch := fun e => hnl (e ▸ ht2)
    have hA1ch : (A.modify ch fun x => { x with failure := t }).st ch = { A.st ch with failure := t } :=
      st_modify_self A ch _ hch0.2
    have hA1t : (A.modify ch fun x => { x with failure := t }).st t = A.st t := st_modify_ne A ch t _ htc
    rw [hA1ch, hA1t]
    simp only
    -- the reference copied from `t` is the final continuation, or NULL where the final one is the root's list
    have hreft : (A.st t).matchesRef = RT A atoms ch ∨ ((A.st t).matchesRef = 0 ∧ RT A atoms ch = R0 atoms) := by
      rw [hRT, htarget, ← ht3]
      exact h.ms.ref_status (Or.inr ht2)
    by_cases hr : (A.st ch).matchesRef = 0
    · rw [if_pos hr]
      have hst : ∀ j, ((A.modify ch fun x => { x with failure := t }).modify ch fun x => { x with matchesRef := (A.st t).matchesRef }).st j =
          if j = ch then { A.st ch with failure := t, matchesRef := (A.st t).matchesRef } else A.st j := by
        intro j
        rw [st_modify]
        by_cases e : j = ch
        · subst e; simp [hch0.2, hA1ch]
        · simp [e, st_modify_ne A ch j _ e]
      rw [hr] at hfresh
      apply I2_frame (B := (A.modify ch fun x => { x with failure := t }).modify ch fun x => { x with matchesRef := (A.st t).matchesRef })
        h hch0 (by simp) ?_ (fun j hj => by rw [hst, if_neg hj]; exact ⟨rfl, rfl⟩) rfl (fun _ _ _ hh => hh)
        (fun _ _ => rfl) hlk' hpp' (fun hh => absurd hh hnpp)
      · intro hh; exact absurd (Or.inr rfl) hh
      · intro _ _
        rw [hst, if_pos rfl, hfresh.nil_of_zero]
        exact ⟨(A.st t).matchesRef, by simp [ChainSeg], hreft⟩
      · intro hh; exact absurd hh hnpp
      · intro _
        rw [hst, if_pos rfl]
        exact ⟨ht1, by rw [ht3, htarget]⟩
      · intro i
        have e1 := shape_modify A ch (fun x => { x with failure := t }) (fun _ => ⟨rfl, rfl, rfl, rfl⟩) i
        have e2 := shape_modify (A.modify ch fun x => { x with failure := t }) ch
          (fun x => { x with matchesRef := (A.st t).matchesRef }) (fun _ => ⟨rfl, rfl, rfl, rfl⟩) i
        exact e2.trans e1
    · rw [if_neg hr]
      rcases List.eq_nil_or_concat (ownIdx atoms (A.st ch).path) with hl | ⟨init, last, hl⟩
      · rw [hl] at hfresh; simp only [ChainSeg] at hfresh; exact absurd hfresh hr
      · rw [List.concat_eq_append] at hl
        rw [hl] at hfresh
        have hlen : init.length ≤ A.pool.size := by
          have := ownIdx_length_le atoms (A.st ch).path
          rw [hl, h.ms.pool_size.symm] at this
          simp at this; omega
        have hlm : lastMatch (A.modify ch fun x => { x with failure := t }) A.pool.size (A.st ch).matchesRef = last + 1 :=
          lastMatch_spec _ init last _ _ hfresh hlen
        rw [pool_modify, hlm]
        have hnd : (init ++ [last]).Nodup := by rw [← hl]; exact ownIdx_nodup _ _
        apply I2_frame (B := setNext (A.modify ch fun x => { x with failure := t }) (last + 1) (A.st t).matchesRef)
          h hch0 (by simp) ?_ (fun j hj => by rw [setNext_st, st_modify_ne A ch j _ hj]; exact ⟨rfl, rfl⟩) (by simp)
          (fun e a b hh => setNext_info (A.modify ch fun x => { x with failure := t }) (last + 1) (A.st t).matchesRef e a b hh) ?_ hlk' hpp' (fun hh => absurd hh hnpp)
        · intro hh; exact absurd (Or.inr rfl) hh
        · intro _ _
          rw [setNext_st, hA1ch, hl]
          exact ⟨(A.st t).matchesRef, ChainSeg.setNext_last (A := A.modify ch fun x => { x with failure := t }) hfresh hnd _, hreft⟩
        · intro hh; exact absurd hh hnpp
        · intro _
          rw [setNext_st, hA1ch]
          exact ⟨ht1, by rw [ht3, htarget]⟩
        · intro i
          show shape (A.modify ch fun x => { x with failure := t }) i = shape A i
          exact shape_modify A ch (fun x => { x with failure := t }) (fun _ => ⟨rfl, rfl, rfl, rfl⟩) i
        · intro e he
          rw [setNext_next]
          have : ¬ (e = last + 1 - 1 ∧ e < (A.modify ch fun x => { x with failure := t }).pool.size) := by
            intro hh
            apply he
            rw [hl, hh.1]
            simp
          rw [if_neg this]; rfl
  | none =>
    rw [hff] at spec
    simp only at spec ⊢
    apply I2_frame (B := A.modify ch fun x => { x with failure := 0 }) h hch0 (by simp) (shape_modify A ch (fun x => { x with failure := 0 }) (fun _ => ⟨rfl, rfl, rfl, rfl⟩))
      (fun j hj => by rw [st_modify_ne A ch j _ hj]; exact ⟨rfl, rfl⟩) rfl (fun _ _ _ hh => hh) (fun _ _ => rfl) hlk' hpp'
      (fun hh => absurd hh hnpp)
    · intro hh; exact absurd (Or.inr rfl) hh
    · intro _ _
      rw [st_modify_self A ch _ hch0.2]
      refine ⟨0, hfresh, Or.inr ⟨rfl, ?_⟩⟩
      rw [hRT, htarget, spec]; rfl
    · intro hh; exact absurd hh hnpp
    · intro _
      rw [st_modify_self A ch _ hch0.2]
      exact ⟨hT.size_pos, by rw [hT.root_path, htarget, spec]⟩

end YaraModel.AC.Build
