/- Aho-Corasick construction, helper lemmas 5: `_yr_ac_create_failure_links` — failure = longest proper path-suffix,
   match list of a state = its own entries followed by the match list of its failure state -/
import YaraModel.Lemmas.AcBuildPool
namespace YaraModel.AC.Build
open YaraModel.Text YaraModel.AC

/-- the match list of `x` is its own entries, continued by the list of the state of the longest proper path-suffix -/
def MatchOK (A : Auto) (atoms : List (Nat × Atom)) (lk : Nat → Prop) (x : Nat) : Prop :=
  ∃ f, f < A.states.size ∧ (f = 0 ∨ lk f) ∧ (A.st f).path = lsuf (pathsOf A) (A.st x).path.tail ∧
    ChainSeg A.pool (A.st x).matchesRef (ownIdx atoms (A.st x).path) (A.st f).matchesRef

/-- match-list structure; `lk` = the states already linked to their failure state's list -/
structure MS (A : Auto) (atoms : List (Nat × Atom)) (lk : Nat → Prop) : Prop where
  trie : Trie A
  pool_size : A.pool.size = atoms.length
  pool_info : ∀ (e : Nat) (a : Nat × Atom), atoms[e]? = some a →
    ∃ nx, A.pool[e]? = some (a.1, a.2.bytes.length + a.2.backtrack, nx)
  atoms_in : ∀ a ∈ atoms, ∃ s, s < A.states.size ∧ (A.st s).path = a.2.bytes
  nonempty : ∀ a ∈ atoms, a.2.bytes ≠ []
  root_ref : (A.st 0).matchesRef = 0
  lk_range : ∀ x, lk x → 0 < x ∧ x < A.states.size
  matched : ∀ x, lk x → MatchOK A atoms lk x
  fresh : ∀ x, 0 < x → x < A.states.size → ¬ lk x → ChainSeg A.pool (A.st x).matchesRef (ownIdx atoms (A.st x).path) 0

structure I2 (A : Auto) (atoms : List (Nat × Atom)) (lk : Nat → Prop) : Prop where
  ms : MS A atoms lk
  root_fail : (A.st 0).failure = 0
  fail : ∀ x, lk x → (A.st x).failure < A.states.size ∧
    (A.st (A.st x).failure).path = lsuf (pathsOf A) (A.st x).path.tail

theorem Trie.path_ne_nil {A : Auto} (hT : Trie A) {x : Nat} (hx : x < A.states.size) (h0 : 0 < x) : (A.st x).path ≠ [] := by
  intro h
  have := hT.depth_pos hx h0
  rw [hT.depth_eq x hx, h] at this
  simp at this

theorem atoms_mem_paths {A : Auto} {atoms : List (Nat × Atom)} {lk : Nat → Prop} (h : MS A atoms lk) {e : Nat} {a : Nat × Atom}
    (ha : atoms[e]? = some a) : a.2.bytes ∈ pathsOf A := by
  obtain ⟨s, hs, hp⟩ := h.atoms_in a (List.mem_of_getElem? ha)
  exact mem_pathsOf.mpr ⟨s, hs, hp⟩

/-- the whole match list of a linked state: exactly the entries of the atoms that are suffixes of its path -/
theorem MS.full_chain {A : Auto} {atoms : List (Nat × Atom)} {lk : Nat → Prop} (h : MS A atoms lk) :
    ∀ (n x : Nat), (A.st x).path.length = n → (x = 0 ∨ lk x) →
    ∃ l, ChainSeg A.pool (A.st x).matchesRef l 0 ∧ l.Nodup ∧
      (∀ e, e ∈ l ↔ ∃ a, atoms[e]? = some a ∧ a.2.bytes <:+ (A.st x).path) := by
  intro n
  induction n using Nat.strongRecOn with
  | _ n ih =>
    intro x hn hx
    rcases hx with hx | hx
    · subst hx
      refine ⟨[], by simp [ChainSeg, h.root_ref], List.nodup_nil, ?_⟩
      intro e
      rw [h.trie.root_path]
      constructor
      · intro he; cases he
      · rintro ⟨a, ha, hs⟩
        exact absurd (List.eq_nil_of_suffix_nil hs) (h.nonempty a (List.mem_of_getElem? ha))
    · obtain ⟨f, hf, hfl, hfp, hch⟩ := h.matched x hx
      have hxr := h.lk_range x hx
      have hne := h.trie.path_ne_nil hxr.2 hxr.1
      have hlen : (A.st f).path.length < n := by
        rw [hfp, ← hn]
        have := lsuf_length_le (pathsOf A) (A.st x).path.tail
        have : (A.st x).path.tail.length < (A.st x).path.length := by
          cases hp : (A.st x).path with
          | nil => exact absurd hp hne
          | cons c t => simp
        omega
      obtain ⟨lf, hc, hnd, hmem⟩ := ih _ hlen f rfl hfl
      refine ⟨ownIdx atoms (A.st x).path ++ lf, hch.append hc, ?_, ?_⟩
      · rw [List.nodup_append]
        refine ⟨ownIdx_nodup _ _, hnd, ?_⟩
        intro a ha b hb e
        subst e
        obtain ⟨a1, h1, h2⟩ := mem_ownIdx.mp ha
        obtain ⟨a2, h3, h4⟩ := (hmem a).mp hb
        rw [h1] at h3; cases h3
        have := h4.length_le
        rw [h2, hn] at this
        omega
      · intro e
        rw [List.mem_append, mem_ownIdx, hmem]
        constructor
        · rintro (⟨a, ha, hp⟩ | ⟨a, ha, hs⟩)
          · exact ⟨a, ha, by rw [hp]; exact List.suffix_refl _⟩
          · refine ⟨a, ha, hs.trans ?_⟩
            rw [hfp]
            exact (lsuf_suffix _ _).trans (List.tail_suffix _)
        · rintro ⟨a, ha, hs⟩
          cases hp : (A.st x).path with
          | nil => exact absurd hp hne
          | cons c t =>
            rw [hp] at hs
            rcases List.suffix_cons_iff.mp hs with h1 | h1
            · exact Or.inl ⟨a, ha, by rw [h1]⟩
            · right
              refine ⟨a, ha, ?_⟩
              rw [hfp, hp, List.tail_cons]
              exact lsuf_max _ _ _ (atoms_mem_paths h ha) h1

theorem MS.full_chain_length {A : Auto} {atoms : List (Nat × Atom)} {lk : Nat → Prop} (_h : MS A atoms lk) {x : Nat} {l : List Nat}
    (hnd : l.Nodup) (hmem : ∀ e, e ∈ l ↔ ∃ a, atoms[e]? = some a ∧ a.2.bytes <:+ (A.st x).path) : l.length ≤ atoms.length := by
  apply nodup_length_le _ _ hnd
  intro e he
  obtain ⟨a, ha, _⟩ := (hmem e).mp he
  exact (List.getElem?_eq_some_iff.mp ha).1

/-- with no zero-length atom the root has no matches, and the "inherit the root's list" part of the loop body does nothing -/
theorem rootFixup_noop {A : Auto} {atoms : List (Nat × Atom)} {lk : Nat → Prop} (h : MS A atoms lk) {cur : Nat}
    (hc : cur = 0 ∨ lk cur) : rootFixup A cur = A := by
  unfold rootFixup
  by_cases hr : (A.st cur).matchesRef ≠ 0
  · rw [if_pos hr]
    obtain ⟨l, hch, hnd, hmem⟩ := h.full_chain _ cur rfl hc
    have hlen := h.full_chain_length hnd hmem
    rcases List.eq_nil_or_concat l with hl | ⟨init, last, hl⟩
    · subst hl; simp only [ChainSeg] at hch; exact absurd hch hr
    · subst hl
      rw [List.concat_eq_append] at hch hlen
      have hlm := lastMatch_spec A init last _ A.pool.size hch (by rw [h.pool_size]; simp at hlen; omega)
      simp only
      rw [hlm]
      split
      · obtain ⟨m, _, h2⟩ := hch.split
        simp only [ChainSeg] at h2
        have : poolNext A (last + 1) = 0 := by rw [poolNext_eq]; simpa using h2.2.2
        rw [h.root_ref, ← this]
        exact setNext_noop A (last + 1)
      · rfl
  · rw [if_neg hr]
    have hr' : (A.st cur).matchesRef = 0 := by omega
    apply modify_noop
    rw [h.root_ref]
    cases hs : A.st cur with
    | mk i d m f s c p =>
      rw [hs] at hr'
      simp only at hr'
      subst hr'
      rfl

/-- all non-root states of depth at most `d` are linked -/
def DC (A : Auto) (lk : Nat → Prop) (d : Nat) : Prop := ∀ g, 0 < g → g < A.states.size → (A.st g).depth ≤ d → lk g

theorem findFailure_spec {A : Auto} {atoms : List (Nat × Atom)} {lk : Nat → Prop} (h : I2 A atoms lk) {d : Nat} (hdc : DC A lk d)
    (c : UInt8) : ∀ (fuel g : Nat), g < A.states.size → (A.st g).depth + 1 ≤ d → (A.st g).depth < fuel →
    match findFailure A c fuel g with
    | some t => t < A.states.size ∧ lk t ∧ (A.st t).path = lsuf (pathsOf A) ((A.st g).path ++ [c])
    | none => lsuf (pathsOf A) ((A.st g).path ++ [c]) = [] := by
  have hT := h.ms.trie
  intro fuel
  induction fuel with
  | zero => intro g _ _ hf; omega
  | succ fuel ih =>
    intro g hg hd hf
    simp only [findFailure]
    cases hn : nextState A g c with
    | some t =>
      simp only
      obtain ⟨ht, hi⟩ := nextState_some hn
      have hlt := hT.child_lt g hg t ht
      have hp := hT.child_path g hg t ht
      rw [hi] at hp
      refine ⟨hlt.2, hdc t (by omega) hlt.2 (by rw [hT.depth_child hg ht]; omega), ?_⟩
      rw [← hp]
      exact (lsuf_of_mem _ _ (mem_pathsOf.mpr ⟨t, hlt.2, rfl⟩)).symm
    | none =>
      simp only
      have hnp := hT.not_path_of_no_child hg (nextState_none hn)
      by_cases hg0 : g = 0
      · rw [if_pos hg0]
        simp only
        subst hg0
        rw [hT.root_path] at hnp ⊢
        rw [List.nil_append] at hnp ⊢
        rw [lsuf_of_not_mem _ _ _ hnp]; rfl
      · rw [if_neg hg0]
        have hlk : lk g := hdc g (by omega) hg (by omega)
        obtain ⟨hf1, hf2⟩ := h.fail g hlk
        have hgne := hT.path_ne_nil hg (by omega)
        have hdlt : (A.st (A.st g).failure).depth < (A.st g).depth := by
          rw [hT.depth_eq _ hf1, hT.depth_eq g hg, hf2]
          have := lsuf_length_le (pathsOf A) (A.st g).path.tail
          cases hp : (A.st g).path with
          | nil => exact absurd hp hgne
          | cons a t => rw [hp] at this; simp at this ⊢; omega
        have := ih (A.st g).failure hf1 (by omega) (by omega)
        rw [lsuf_fail_step _ hT.nil_mem hT.prefixClosed _ c hgne hnp, ← hf2]
        exact this

theorem I2.congr_lk {A : Auto} {atoms : List (Nat × Atom)} {lk lk' : Nat → Prop} (h : I2 A atoms lk) (e : ∀ x, lk x ↔ lk' x) :
    I2 A atoms lk' := by
  have : lk = lk' := funext fun x => propext (e x)
  rw [← this]; exact h

theorem DC.mono {A : Auto} {lk lk' : Nat → Prop} {d : Nat} (h : DC A lk d) (hm : ∀ x, lk x → lk' x) : DC A lk' d :=
  fun g h0 hg hd => hm g (h g h0 hg hd)


theorem shape_path {A B : Auto} {i : Nat} (h : shape B i = shape A i) : (B.st i).path = (A.st i).path := by
  simp only [shape, Prod.mk.injEq] at h; exact h.2.2.2

theorem shape_children {A B : Auto} {i : Nat} (h : shape B i = shape A i) : (B.st i).children = (A.st i).children := by
  simp only [shape, Prod.mk.injEq] at h; exact h.2.2.1

theorem shape_depth {A B : Auto} {i : Nat} (h : shape B i = shape A i) : (B.st i).depth = (A.st i).depth := by
  simp only [shape, Prod.mk.injEq] at h; exact h.2.1

theorem shape_input {A B : Auto} {i : Nat} (h : shape B i = shape A i) : (B.st i).input = (A.st i).input := by
  simp only [shape, Prod.mk.injEq] at h; exact h.1

/-- linking one more state `ch`: what the new automaton has to satisfy -/
theorem I2_update {A B : Auto} {atoms : List (Nat × Atom)} {lk : Nat → Prop} (h : I2 A atoms lk) {ch f : Nat}
    (hch : 0 < ch ∧ ch < A.states.size) (hnl : ¬ lk ch)
    (s1 : B.states.size = A.states.size) (s2 : ∀ i, shape B i = shape A i)
    (s3 : ∀ j, j ≠ ch → (B.st j).matchesRef = (A.st j).matchesRef ∧ (B.st j).failure = (A.st j).failure)
    (s4 : B.pool.size = A.pool.size)
    (s4' : ∀ (e a b : Nat), (∃ n, A.pool[e]? = some (a, b, n)) → ∃ n, B.pool[e]? = some (a, b, n))
    (s5 : ∀ e, e ∉ ownIdx atoms (A.st ch).path → poolNextAt B.pool e = poolNextAt A.pool e)
    (s6 : (B.st ch).failure = f ∧ f < A.states.size ∧ (f = 0 ∨ lk f) ∧ (A.st f).path = lsuf (pathsOf A) (A.st ch).path.tail ∧
      ChainSeg B.pool (B.st ch).matchesRef (ownIdx atoms (A.st ch).path) (A.st f).matchesRef) :
    I2 B atoms (fun x => lk x ∨ x = ch) := by
  have hT := h.ms.trie
  have hP : pathsOf B = pathsOf A := pathsOf_congr s1 s2
  have hne : ∀ g, (g = 0 ∨ lk g) → g ≠ ch := by
    intro g hg e
    subst e
    rcases hg with hg | hg
    · omega
    · exact hnl hg
  have frame : ∀ x, x < A.states.size → x ≠ ch → ∀ r tl, ChainSeg A.pool r (ownIdx atoms (A.st x).path) tl →
      ChainSeg B.pool r (ownIdx atoms (A.st x).path) tl := by
    intro x hx hxc r tl hc
    apply hc.congr (by omega)
    intro e he
    apply s5
    intro he2
    exact hxc (hT.path_inj x ch hx hch.2 (ownIdx_disjoint he he2))
  refine ⟨⟨hT.congr s1 s2, by rw [s4]; exact h.ms.pool_size, ?_, ?_, h.ms.nonempty, ?_, ?_, ?_, ?_⟩, ?_, ?_⟩
  · intro e a ha
    exact s4' e _ _ (h.ms.pool_info e a ha)
  · intro a ha
    obtain ⟨s, hs1, hs2⟩ := h.ms.atoms_in a ha
    exact ⟨s, by omega, by rw [shape_path (s2 s)]; exact hs2⟩
  · rw [(s3 0 (by omega)).1]; exact h.ms.root_ref
  · intro x hx
    rcases hx with hx | hx
    · have := h.ms.lk_range x hx; omega
    · subst hx; omega
  · intro x hx
    by_cases hxc : x = ch
    · subst hxc
      obtain ⟨e1, e2, e3, e4, e5⟩ := s6
      refine ⟨f, by omega, e3.imp id Or.inl, ?_, ?_⟩
      · rw [shape_path (s2 f), shape_path (s2 x), hP]; exact e4
      · rw [shape_path (s2 x), (s3 f (hne f e3)).1]; exact e5
    · have hlx : lk x := by rcases hx with hx | hx; exact hx; exact absurd hx hxc
      obtain ⟨fx, g1, g2, g3, g4⟩ := h.ms.matched x hlx
      have hxr := h.ms.lk_range x hlx
      refine ⟨fx, by omega, g2.imp id Or.inl, ?_, ?_⟩
      · rw [shape_path (s2 fx), shape_path (s2 x), hP]; exact g3
      · rw [shape_path (s2 x), (s3 fx (hne fx g2)).1, (s3 x hxc).1]
        exact frame x hxr.2 hxc _ _ g4
  · intro x h0 hx hnlx
    have hxc : x ≠ ch := fun e => hnlx (Or.inr e)
    rw [shape_path (s2 x), (s3 x hxc).1]
    exact frame x (by omega) hxc _ _ (h.ms.fresh x h0 (by omega) (fun hh => hnlx (Or.inl hh)))
  · rw [(s3 0 (by omega)).2]; exact h.root_fail
  · intro x hx
    by_cases hxc : x = ch
    · subst hxc
      obtain ⟨e1, e2, e3, e4, e5⟩ := s6
      rw [e1]
      refine ⟨by omega, ?_⟩
      rw [shape_path (s2 f), shape_path (s2 x), hP]; exact e4
    · have hlx : lk x := by rcases hx with hx | hx; exact hx; exact absurd hx hxc
      obtain ⟨g1, g2⟩ := h.fail x hlx
      rw [(s3 x hxc).2]
      refine ⟨by omega, ?_⟩
      rw [shape_path (s2 _), shape_path (s2 x), hP]; exact g2


theorem shape_modify (A : Auto) (ch : Nat) (f : State → State)
    (hf : ∀ x : State, (f x).input = x.input ∧ (f x).depth = x.depth ∧ (f x).children = x.children ∧ (f x).path = x.path) (i : Nat) :
    shape (A.modify ch f) i = shape A i := by
  unfold shape
  rw [st_modify]
  split
  · rename_i e; rw [e.1]; simp [(hf (A.st ch)).1, (hf (A.st ch)).2.1, (hf (A.st ch)).2.2.1, (hf (A.st ch)).2.2.2]
  · rfl

/-- the body of the loop over the children of the popped state `cur` -/
theorem linkChild_I2 {A : Auto} {atoms : List (Nat × Atom)} {lk : Nat → Prop} (h : I2 A atoms lk) {d : Nat} (hdc : DC A lk d)
    {cur ch : Nat} (hcur : lk cur) (hd : (A.st cur).depth = d) (hch : ch ∈ (A.st cur).children) (hnl : ¬ lk ch) :
    I2 (linkChild cur A ch) atoms (fun x => lk x ∨ x = ch) := by
  have hT := h.ms.trie
  have hcr := h.ms.lk_range cur hcur
  have hcl := hT.child_lt cur hcr.2 ch hch
  have hch0 : 0 < ch ∧ ch < A.states.size := ⟨by omega, hcl.2⟩
  obtain ⟨hg1, hg2⟩ := h.fail cur hcur
  have hcne := hT.path_ne_nil hcr.2 hcr.1
  have hgd : (A.st (A.st cur).failure).depth + 1 ≤ d := by
    rw [hT.depth_eq _ hg1, ← hd, hT.depth_eq cur hcr.2, hg2]
    have := lsuf_length_le (pathsOf A) (A.st cur).path.tail
    cases hp : (A.st cur).path with
    | nil => exact absurd hp hcne
    | cons a t => rw [hp] at this; simp at this ⊢; omega
  have hfuel : (A.st (A.st cur).failure).depth < A.states.size := by
    have := hT.depth_le_id _ hg1; omega
  have spec := findFailure_spec h hdc (A.st ch).input A.states.size _ hg1 hgd hfuel
  have htarget : lsuf (pathsOf A) (A.st ch).path.tail = lsuf (pathsOf A) ((A.st (A.st cur).failure).path ++ [(A.st ch).input]) := by
    rw [hT.child_path cur hcr.2 ch hch, tail_append_singleton _ _ hcne, hg2]
    exact lsuf_step _ hT.nil_mem hT.prefixClosed _ _
  have hfresh := h.ms.fresh ch hch0.1 hch0.2 hnl
  unfold linkChild
  cases hff : findFailure A (A.st ch).input A.states.size (A.st cur).failure with
  | some t =>
    rw [hff] at spec
    simp only at spec ⊢
    obtain ⟨ht1, ht2, ht3⟩ := spec
    have htc : t ≠ ch := fun e => hnl (e ▸ ht2)
    have hA1ch : (A.modify ch fun x => { x with failure := t }).st ch = { A.st ch with failure := t } :=
      st_modify_self A ch _ hch0.2
    have hA1t : (A.modify ch fun x => { x with failure := t }).st t = A.st t := st_modify_ne A ch t _ htc
    rw [hA1ch, hA1t]
    simp only
    by_cases hr : (A.st ch).matchesRef = 0
    · rw [if_pos hr]
      have hst : ∀ j, ((A.modify ch fun x => { x with failure := t }).modify ch fun x => { x with matchesRef := (A.st t).matchesRef }).st j =
          if j = ch then { A.st ch with failure := t, matchesRef := (A.st t).matchesRef } else A.st j := by
        intro j
        rw [st_modify]
        by_cases e : j = ch
        · subst e; simp [hch0.2, hA1ch]
        · simp [e, st_modify_ne A ch j _ e]
      apply I2_update h hch0 hnl (f := t)
      · simp
      · intro i
        have e1 := shape_modify A ch (fun x => { x with failure := t }) (fun _ => ⟨rfl, rfl, rfl, rfl⟩) i
        have e2 := shape_modify (A.modify ch fun x => { x with failure := t }) ch
          (fun x => { x with matchesRef := (A.st t).matchesRef }) (fun _ => ⟨rfl, rfl, rfl, rfl⟩) i
        exact e2.trans e1
      · intro j hj; rw [hst, if_neg hj]; exact ⟨rfl, rfl⟩
      · rfl
      · intro e a b hh; exact hh
      · intro e _; rfl
      · rw [hst, if_pos rfl]
        refine ⟨rfl, ht1, Or.inr ht2, by rw [ht3, htarget], ?_⟩
        simp only
        rw [hr] at hfresh
        rw [hfresh.nil_of_zero]
        simp [ChainSeg]
    · rw [if_neg hr]
      rcases List.eq_nil_or_concat (ownIdx atoms (A.st ch).path) with hl | ⟨init, last, hl⟩
      · rw [hl] at hfresh; simp only [ChainSeg] at hfresh; exact absurd hfresh hr
      · rw [List.concat_eq_append] at hl
        rw [hl] at hfresh
        have hlen : init.length ≤ A.pool.size := by
          have := ownIdx_length_le atoms (A.st ch).path
          rw [hl, h.ms.pool_size.symm] at this
          simp at this; omega
        have hlm : lastMatch (A.modify ch fun x => { x with failure := t }) A.pool.size (A.st ch).matchesRef = last + 1 :=
          lastMatch_spec _ init last _ _ hfresh hlen
        rw [pool_modify, hlm]
        have hnd : (init ++ [last]).Nodup := by rw [← hl]; exact ownIdx_nodup _ _
        apply I2_update h hch0 hnl (f := t)
        · simp
        · intro i
          show shape (A.modify ch fun x => { x with failure := t }) i = shape A i
          exact shape_modify A ch (fun x => { x with failure := t }) (fun _ => ⟨rfl, rfl, rfl, rfl⟩) i
        · intro j hj; rw [setNext_st, st_modify_ne A ch j _ hj]; exact ⟨rfl, rfl⟩
        · simp
        · intro e a b hh; exact setNext_info _ _ _ e a b hh
        · intro e he
          rw [setNext_next]
          have : ¬ (e = last + 1 - 1 ∧ e < (A.modify ch fun x => { x with failure := t }).pool.size) := by
            intro hh
            apply he
            rw [hl, hh.1]
            simp
          rw [if_neg this]; rfl
        · rw [setNext_st, hA1ch]
          refine ⟨rfl, ht1, Or.inr ht2, by rw [ht3, htarget], ?_⟩
          simp only
          rw [hl]
          exact ChainSeg.setNext_last (A := A.modify ch fun x => { x with failure := t }) hfresh hnd _
  | none =>
    rw [hff] at spec
    simp only at spec ⊢
    apply I2_update h hch0 hnl (f := 0)
    · simp
    · exact shape_modify A ch (fun x => { x with failure := 0 }) (fun _ => ⟨rfl, rfl, rfl, rfl⟩)
    · intro j hj; rw [st_modify_ne A ch j _ hj]; exact ⟨rfl, rfl⟩
    · rfl
    · intro e a b hh; exact hh
    · intro e _; rfl
    · rw [st_modify_self A ch _ hch0.2]
      refine ⟨rfl, hT.size_pos, Or.inl rfl, by rw [hT.root_path, htarget, spec], ?_⟩
      simp only
      rw [h.ms.root_ref]
      exact hfresh

end YaraModel.AC.Build
