/- Overwriting one field of a saved image (`patch`): list algebra, the header fields, and the buffer table as a
   list of raw (offset, size) entries with the loader's table phase computed on it. -/
import YaraModel.Lemmas.ArenaRoundTrip
namespace YaraModel.Arena
open YaraModel.Gen.ArenaLayout

/-! ### patch -/

theorem patch_append_left {x : Bytes} (y : Bytes) {off : Nat} {bs : Bytes} (h : off + bs.length ≤ x.length) :
    patch (x ++ y) off bs = patch x off bs ++ y := by
  unfold patch
  rw [List.take_append, List.drop_append]
  have h1 : off - x.length = 0 := by omega
  have h2 : off + bs.length - x.length = 0 := by omega
  simp [h1, h2, List.append_assoc]

theorem patch_append_right {x : Bytes} (y : Bytes) {off : Nat} (bs : Bytes) (h : x.length ≤ off) :
    patch (x ++ y) off bs = x ++ patch y (off - x.length) bs := by
  unfold patch
  rw [List.take_append, List.drop_append, List.take_of_length_le h, List.drop_eq_nil_of_le (by omega)]
  have : off + bs.length - x.length = off - x.length + bs.length := by omega
  simp [this, List.append_assoc]

theorem patch_head (x y bs : Bytes) (h : bs.length = x.length) : patch (x ++ y) 0 bs = bs ++ y := by
  unfold patch
  simp [h]

theorem patch_tail (x y bs : Bytes) (h : bs.length = y.length) : patch (x ++ y) x.length bs = x ++ bs := by
  unfold patch
  rw [List.take_append, List.drop_append]
  simp [h]

/-! ### the header -/

theorem header_cons (n : Nat) (rest : Bytes) :
    header n ++ rest = 89 :: 65 :: 82 :: 65 :: UInt8.ofNat fileVersion :: UInt8.ofNat n :: rest := by
  simp [header, magic]

theorem parseHeader_cons6 (m0 m1 m2 m3 ver nb : UInt8) (rest : Bytes) :
    parseHeader (m0 :: m1 :: m2 :: m3 :: ver :: nb :: rest) =
      if [m0, m1, m2, m3] ≠ magic then .error .invalidFile
      else if ver.toNat ≠ fileVersion then .error .unsupportedFileVersion
      else if nb.toNat > maxBuffers then .error .invalidFile
      else .ok (nb.toNat, rest) := by
  unfold parseHeader
  have hl : ¬ (m0 :: m1 :: m2 :: m3 :: ver :: nb :: rest).length < headerSize := by
    simp only [List.length_cons, headerSize]; omega
  rw [if_neg hl]
  simp [hdrVersionOff, hdrNumBuffersOff, headerSize]

theorem load_header_error {cfg : LoaderCfg} {alloc : Nat → Nat} {s : Bytes} {e : Err} (h : parseHeader s = .error e) :
    load cfg alloc s = .error e := by
  rw [load_eq, h]

/-! ### the buffer table as raw entries -/

def rawTable (es : List (Nat × Nat)) : Bytes := es.flatMap (fun e => tableEntry e.1 e.2)

/-- the entries `save` writes: every offset is the running sum of the sizes before it -/
def entries : Nat → List Nat → List (Nat × Nat)
  | _, [] => []
  | o, u :: us => (o, u) :: entries (o + u % 2 ^ 32) us

@[simp] theorem rawTable_nil : rawTable [] = [] := rfl
theorem rawTable_cons (e : Nat × Nat) (t : List (Nat × Nat)) : rawTable (e :: t) = tableEntry e.1 e.2 ++ rawTable t := by
  simp [rawTable]
theorem rawTable_append (l1 l2 : List (Nat × Nat)) : rawTable (l1 ++ l2) = rawTable l1 ++ rawTable l2 := by
  simp [rawTable]

theorem length_rawTable (es : List (Nat × Nat)) : (rawTable es).length = tableEntrySize * es.length := by
  induction es with
  | nil => rfl
  | cons e t ih =>
    rw [rawTable_cons, List.length_append, length_tableEntry, ih, List.length_cons]
    simp only [tableEntrySize]; omega

theorem table_eq_raw (o : Nat) (us : List Nat) : table o us = rawTable (entries o us) := by
  induction us generalizing o with
  | nil => rfl
  | cons u t ih => simp only [table, entries, rawTable_cons, ih]

theorem entries_append (o : Nat) (l1 l2 : List Nat) :
    entries o (l1 ++ l2) = entries o l1 ++ entries (o + (l1.map (· % 2 ^ 32)).sum) l2 := by
  induction l1 generalizing o with
  | nil => simp [entries]
  | cons u t ih =>
    simp only [List.cons_append, entries, ih, List.map_cons, List.sum_cons]
    rw [show o + u % 2 ^ 32 + (t.map (· % 2 ^ 32)).sum = o + (u % 2 ^ 32 + (t.map (· % 2 ^ 32)).sum) from by omega]

theorem entries_length (o : Nat) (us : List Nat) : (entries o us).length = us.length := by
  induction us generalizing o with
  | nil => rfl
  | cons u t ih => simp [entries, ih]

theorem entries_sizes (o : Nat) (us : List Nat) : (entries o us).map (·.2 % 2 ^ 32) = us.map (· % 2 ^ 32) := by
  induction us generalizing o with
  | nil => rfl
  | cons u t ih => simp [entries, ih]

theorem rdLE_offset_head (o u : Nat) (x : Bytes) : rdLE tblOffsetSize (tableEntry o u ++ x) 0 = o % 2 ^ 64 := by
  simp only [tableEntry, tblOffsetSize, rdLE, List.drop_zero, List.append_assoc]
  rw [take_append_len (length_leBytes 8 o), leVal_leBytes8]

theorem rdLE_size_head (o u : Nat) (x : Bytes) : rdLE tblSizeSize (tableEntry o u ++ x) tblSizeOff = u % 2 ^ 32 := by
  simp only [tableEntry, tblOffsetSize, tblSizeSize, tblSizeOff, rdLE, List.append_assoc]
  rw [drop_append_len (length_leBytes 8 o), take_append_len (length_leBytes 4 u), leVal_leBytes4]

theorem rdLE_shift (k : Nat) (o u : Nat) (x : Bytes) (j : Nat) :
    rdLE k (tableEntry o u ++ x) (tableEntrySize + j) = rdLE k x j := by
  simp only [rdLE]
  rw [drop_append_len_add (length_tableEntry o u)]

theorem rdLE_size_raw (es : List (Nat × Nat)) (rest : Bytes) (i : Nat) (hi : i < es.length) :
    rdLE tblSizeSize (rawTable es ++ rest) (tableEntrySize * i + tblSizeOff) = (es.getD i (0, 0)).2 % 2 ^ 32 := by
  induction es generalizing i with
  | nil => cases hi
  | cons e t ih =>
    rw [rawTable_cons, List.append_assoc]
    cases i with
    | zero => simp only [Nat.mul_zero, Nat.zero_add, List.getD_cons_zero]; exact rdLE_size_head ..
    | succ i =>
      have hi' : i < t.length := by simpa using hi
      rw [show tableEntrySize * (i + 1) + tblSizeOff = tableEntrySize + (tableEntrySize * i + tblSizeOff) from by
        simp only [tableEntrySize]; omega, rdLE_shift, ih i hi']
      simp

theorem parseTable_raw (es : List (Nat × Nat)) (rest : Bytes) :
    parseTable es.length (rawTable es ++ rest) = .ok (es.map (·.2 % 2 ^ 32), rest) := by
  unfold parseTable
  have hl := length_rawTable es
  have hmin : min (tableEntrySize * es.length) (rawTable es ++ rest).length = tableEntrySize * es.length := by
    rw [List.length_append, hl]; omega
  rw [hmin, if_neg (by simp [tableEntrySize])]
  congr 2
  · apply List.ext_getElem?
    intro i
    simp only [List.getElem?_map]
    by_cases hi : i < es.length
    · rw [List.getElem?_range hi, List.getElem?_eq_getElem hi]
      simp only [Option.map_some]
      rw [rdLE_size_raw es rest i hi]
      simp [List.getD_eq_getElem?_getD, hi]
    · have h1 : (List.range es.length)[i]? = none := by simp; omega
      have h2 : es[i]? = none := by simp; omega
      simp [h1, h2]
  · exact drop_append_len hl

/-- the loader's cross-check of the table, on entries -/
def entriesOk : Nat → List (Nat × Nat) → Bool
  | _, [] => true
  | e, (o, s) :: t => (o % 2 ^ 64 == e % 2 ^ 64) && entriesOk (e + s % 2 ^ 32) t

theorem offsetsOk_shift (o u : Nat) (x : Bytes) (sizes : List Nat) : ∀ (i e : Nat),
    offsetsOk (tableEntry o u ++ x) (i + 1) e sizes = offsetsOk x i e sizes := by
  induction sizes with
  | nil => intro i e; simp [offsetsOk]
  | cons z t ih =>
    intro i e
    simp only [offsetsOk]
    rw [show tableEntrySize * (i + 1) + tblOffsetOff = tableEntrySize + (tableEntrySize * i + tblOffsetOff) from by
      simp only [tableEntrySize]; omega, rdLE_shift, ih]

theorem offsetsOk_raw (es : List (Nat × Nat)) (rest : Bytes) : ∀ e : Nat,
    offsetsOk (rawTable es ++ rest) 0 e (es.map (·.2 % 2 ^ 32)) = entriesOk e es := by
  induction es with
  | nil => intro e; simp [offsetsOk, entriesOk]
  | cons x t ih =>
    intro e
    obtain ⟨o, s⟩ := x
    rw [rawTable_cons, List.append_assoc]
    simp only [List.map_cons, offsetsOk, entriesOk, Nat.mul_zero, Nat.zero_add, tblOffsetOff]
    rw [rdLE_offset_head, offsetsOk_shift, ih]

theorem entriesOk_append (l1 l2 : List (Nat × Nat)) : ∀ e : Nat,
    entriesOk e (l1 ++ l2) = (entriesOk e l1 && entriesOk (e + (l1.map (·.2 % 2 ^ 32)).sum) l2) := by
  induction l1 with
  | nil => intro e; simp [entriesOk]
  | cons x t ih =>
    intro e
    obtain ⟨o, s⟩ := x
    simp only [List.cons_append, entriesOk, ih, List.map_cons, List.sum_cons, Bool.and_assoc]
    rw [show e + s % 2 ^ 32 + (t.map (·.2 % 2 ^ 32)).sum = e + (s % 2 ^ 32 + (t.map (·.2 % 2 ^ 32)).sum) from by omega]

theorem entriesOk_entries (o : Nat) (us : List Nat) : entriesOk o (entries o us) = true := by
  induction us generalizing o with
  | nil => rfl
  | cons u t ih => simp [entries, entriesOk, ih]

/-! ### overwriting a field of the i-th table entry of a saved image (`us = pre ++ u :: post`, `i = pre.length`) -/

theorem table_split (o : Nat) (pre : List Nat) (u : Nat) (post : List Nat) :
    table o (pre ++ u :: post) = rawTable (entries o pre) ++
      (tableEntry (o + (pre.map (· % 2 ^ 32)).sum) u ++ rawTable (entries (o + (pre.map (· % 2 ^ 32)).sum + u % 2 ^ 32) post)) := by
  rw [table_eq_raw, entries_append, rawTable_append]
  simp only [entries, rawTable_cons]

theorem patch_offset_field (n o : Nat) (pre : List Nat) (u : Nat) (post : List Nat) (rest : Bytes) (v : Nat) :
    patch (header n ++ (table o (pre ++ u :: post) ++ rest)) (offsetFieldAt pre.length) (leBytes 8 v) =
      header n ++ (rawTable (entries o pre ++ (v, u) :: entries (o + (pre.map (· % 2 ^ 32)).sum + u % 2 ^ 32) post) ++ rest) := by
  rw [table_split, rawTable_append, rawTable_cons]
  unfold offsetFieldAt
  rw [patch_append_right _ _ (by rw [length_header]; omega), length_header]
  congr 1
  simp only [List.append_assoc]
  rw [patch_append_right _ _ (by rw [length_rawTable, entries_length]; simp only [tblOffsetOff]; omega),
    length_rawTable, entries_length]
  congr 1
  have h0 : headerSize + tableEntrySize * pre.length + tblOffsetOff - headerSize - tableEntrySize * pre.length = 0 := by
    simp only [tblOffsetOff]; omega
  rw [h0]
  simp only [tableEntry, List.append_assoc]
  exact patch_head _ _ _ (by simp [length_leBytes, tblOffsetSize])

theorem patch_size_field (n o : Nat) (pre : List Nat) (u : Nat) (post : List Nat) (rest : Bytes) (z : Nat) :
    patch (header n ++ (table o (pre ++ u :: post) ++ rest)) (sizeFieldAt pre.length) (leBytes 4 z) =
      header n ++ (rawTable (entries o pre ++ (o + (pre.map (· % 2 ^ 32)).sum, z) ::
        entries (o + (pre.map (· % 2 ^ 32)).sum + u % 2 ^ 32) post) ++ rest) := by
  rw [table_split, rawTable_append, rawTable_cons]
  unfold sizeFieldAt
  rw [patch_append_right _ _ (by rw [length_header]; omega), length_header]
  congr 1
  simp only [List.append_assoc]
  rw [patch_append_right _ _ (by rw [length_rawTable, entries_length]; omega),
    length_rawTable, entries_length]
  congr 1
  have h0 : headerSize + tableEntrySize * pre.length + tblSizeOff - headerSize - tableEntrySize * pre.length = 8 := by
    simp only [tblSizeOff]; omega
  rw [h0]
  simp only [tableEntry]
  rw [patch_append_left (x := leBytes tblOffsetSize (o + (pre.map (· % 2 ^ 32)).sum) ++ leBytes tblSizeSize u) _
    (by simp [length_leBytes, tblOffsetSize, tblSizeSize])]
  congr 1

end YaraModel.Arena
