/- Aho-Corasick construction, helper lemmas 6: the whole `_yr_ac_create_failure_links` pass -/
import YaraModel.Lemmas.AcBuildFail
import YaraModel.Lemmas.AcBuildTrie
namespace YaraModel.AC.Build
open YaraModel.Text YaraModel.AC

/-- same states up to failure link, match reference and slot -/
def Same (A B : Auto) : Prop := B.states.size = A.states.size ∧ ∀ i, shape B i = shape A i

theorem Same.refl (A : Auto) : Same A A := ⟨rfl, fun _ => rfl⟩
theorem Same.trans {A B C : Auto} (h1 : Same A B) (h2 : Same B C) : Same A C :=
  ⟨h2.1.trans h1.1, fun i => (h2.2 i).trans (h1.2 i)⟩

theorem Same.kids {A B : Auto} (h : Same A B) (s : Nat) : kids B s = kids A s := shape_children (h.2 s)

theorem same_modify (A : Auto) (ch : Nat) (f : State → State)
    (hf : ∀ x : State, (f x).input = x.input ∧ (f x).depth = x.depth ∧ (f x).children = x.children ∧ (f x).path = x.path) :
    Same A (A.modify ch f) := ⟨by simp, shape_modify A ch f hf⟩

theorem same_setNext (A : Auto) (i1 nx : Nat) : Same A (setNext A i1 nx) := ⟨rfl, fun _ => rfl⟩

theorem rootFixup_same (A : Auto) (cur : Nat) : Same A (rootFixup A cur) := by
  unfold rootFixup
  split
  · simp only
    split
    · exact same_setNext _ _ _
    · exact Same.refl A
  · exact same_modify A cur _ (fun _ => ⟨rfl, rfl, rfl, rfl⟩)

theorem linkChild_same (cur : Nat) (A : Auto) (ch : Nat) : Same A (linkChild cur A ch) := by
  unfold linkChild
  split
  · rename_i t _
    simp only
    have h1 : Same A (A.modify ch fun x => { x with failure := t }) := same_modify A ch _ (fun _ => ⟨rfl, rfl, rfl, rfl⟩)
    split
    · exact h1.trans (same_modify _ ch _ (fun _ => ⟨rfl, rfl, rfl, rfl⟩))
    · exact h1.trans (same_setNext _ _ _)
  · exact same_modify A ch _ (fun _ => ⟨rfl, rfl, rfl, rfl⟩)

theorem foldl_linkChild_same (cur : Nat) : ∀ (l : List Nat) (A : Auto), Same A (l.foldl (linkChild cur) A) := by
  intro l
  induction l with
  | nil => intro A; exact Same.refl A
  | cons a l ih => intro A; exact (linkChild_same cur A a).trans (ih _)

theorem linkStep_same (A : Auto) (cur : Nat) : Same A (linkStep A cur) := by
  unfold linkStep
  exact (rootFixup_same A cur).trans (foldl_linkChild_same cur _ _)

theorem DC.congr {A B : Auto} {lk : Nat → Prop} {d : Nat} (h : DC A lk d) (hs : Same A B) : DC B lk d := by
  intro g h0 hg hd
  rw [hs.1] at hg
  rw [shape_depth (hs.2 g)] at hd
  exact h g h0 hg hd

theorem foldl_linkChild_I2 {atoms : List (Nat × Atom)} {cur d : Nat} {pp : Nat → Prop} : ∀ (l : List Nat) (A : Auto) (lk : Nat → Prop),
    I2 A atoms lk pp → DC A lk d → lk cur → (A.st cur).depth = d → (∀ ch ∈ l, ch ∈ (A.st cur).children) → l.Nodup →
    (∀ ch ∈ l, ¬ lk ch) → I2 (l.foldl (linkChild cur) A) atoms (fun x => lk x ∨ x ∈ l) pp := by
  intro l
  induction l with
  | nil => intro A lk h _ _ _ _ _ _; exact h.congr_lk (fun x => by simp) (fun _ => Iff.rfl)
  | cons a l ih =>
    intro A lk h hdc hcur hd hsub hnd hnl
    rw [List.nodup_cons] at hnd
    have h1 := linkChild_I2 h hdc hcur hd (hsub a List.mem_cons_self) (hnl a List.mem_cons_self)
    have hs := linkChild_same cur A a
    have := ih (linkChild cur A a) (fun x => lk x ∨ x = a) h1 ((hdc.mono (fun x hx => Or.inl hx)).congr hs) (Or.inl hcur)
      (by rw [shape_depth (hs.2 cur)]; exact hd)
      (fun ch hch => by rw [shape_children (hs.2 cur)]; exact hsub ch (List.mem_cons_of_mem _ hch)) hnd.2
      (fun ch hch hh => by
        rcases hh with hh | hh
        · exact hnl ch (List.mem_cons_of_mem _ hch) hh
        · subst hh; exact hnd.1 hch)
    rw [List.foldl_cons]
    exact this.congr_lk (fun x => by simp [or_assoc]) (fun _ => Iff.rfl)

theorem linkStep_I2 {A : Auto} {atoms : List (Nat × Atom)} {lk pp : Nat → Prop} (h : I2 A atoms lk pp) {cur : Nat} (hcur : lk cur)
    (hnp : ¬ pp cur) (hdp : ∀ g, 0 < g → g < A.states.size → (A.st g).depth < (A.st cur).depth → pp g)
    (hdc : DC A lk (A.st cur).depth) (hnl : ∀ ch ∈ (A.st cur).children, ¬ lk ch) :
    I2 (linkStep A cur) atoms (fun x => lk x ∨ x ∈ (A.st cur).children) (fun x => pp x ∨ x = cur) := by
  unfold linkStep
  simp only
  have h1 := rootFixup_I2 h hcur hnp hdp
  have hs := rootFixup_same A cur
  rw [shape_children (hs.2 cur)]
  exact foldl_linkChild_I2 _ (rootFixup A cur) lk h1 (hdc.congr hs) hcur (shape_depth (hs.2 cur))
    (fun _ hch => by rw [shape_children (hs.2 cur)]; exact hch) (h.ms.trie.kids_nodup (h.ms.lk_range cur hcur).2) hnl

/-- an invariant indexed by the processed prefix survives a fold -/
theorem foldl_inv_prefix {α β : Type} (f : β → α → β) (J : List α → β → Prop) (l : List α) :
    ∀ (rest pre : List α) (b : β), l = pre ++ rest → J pre b →
    (∀ pre a post b, l = pre ++ a :: post → J pre b → J (pre ++ [a]) (f b a)) → J l (rest.foldl f b) := by
  intro rest
  induction rest with
  | nil => intro pre b hl hj _; simp at hl; subst hl; exact hj
  | cons a rest ih =>
    intro pre b hl hj hstep
    rw [List.foldl_cons]
    exact ih (pre ++ [a]) (f b a) (by simp [hl]) (hstep pre a rest b hl hj) hstep

/-- states whose parent has been popped (or is the root) -/
def lkOf (K : Nat → List Nat) (pre : List Nat) (x : Nat) : Prop := x ∈ K 0 ∨ ∃ p ∈ pre, x ∈ K p

/-- in a traversal order, every state not deeper than `cur` has its parent before `cur` (or is a child of the root) -/
theorem parent_before {A : Auto} (hT : Trie A) {ord pre post : List Nat} {cur : Nat} (ho : OrderOK A ord) (hl : ord = pre ++ cur :: post)
    (g : Nat) (h0 : 0 < g) (hg : g < A.states.size) (hd : (A.st g).depth ≤ (A.st cur).depth) : lkOf (kids A) pre g := by
  obtain ⟨p, hp1, hp2⟩ := hT.has_parent g h0 hg
  by_cases hp0 : p = 0
  · subst hp0; exact Or.inl hp2
  · right
    refine ⟨p, ?_, hp2⟩
    have hpo : p ∈ ord := ho.complete p (by omega) hp1
    have hdp := hT.depth_child hp1 hp2
    rw [hl] at hpo
    rcases List.mem_append.mp hpo with h | h
    · exact h
    · exfalso
      rcases List.mem_cons.mp h with h | h
      · subst h; omega
      · have hs := ho.sorted
        rw [hl, List.pairwise_append] at hs
        have := (List.pairwise_cons.mp hs.2.1).1 p h
        omega

/-- in a traversal order, a state strictly shallower than `cur` comes before it -/
theorem before_of_depth_lt {A : Auto} {ord pre post : List Nat} {cur : Nat} (ho : OrderOK A ord) (hl : ord = pre ++ cur :: post)
    (g : Nat) (h0 : 0 < g) (hg : g < A.states.size) (hd : (A.st g).depth < (A.st cur).depth) : g ∈ pre := by
  have hgo : g ∈ ord := ho.complete g h0 hg
  rw [hl] at hgo
  rcases List.mem_append.mp hgo with h | h
  · exact h
  · exfalso
    rcases List.mem_cons.mp h with h | h
    · subst h; omega
    · have hs := ho.sorted
      rw [hl, List.pairwise_append] at hs
      have := (List.pairwise_cons.mp hs.2.1).1 g h
      omega

theorem setfail_fold (l : List Nat) : ∀ (B : Auto),
    let B' := l.foldl (fun B ch => B.modify ch fun x => { x with failure := 0 }) B
    B'.pool = B.pool ∧ Same B B' ∧ ∀ j, (B'.st j).matchesRef = (B.st j).matchesRef ∧
      (B'.st j).failure = if j ∈ l ∧ j < B.states.size then 0 else (B.st j).failure := by
  induction l with
  | nil => intro B; exact ⟨rfl, Same.refl B, fun j => ⟨rfl, by simp⟩⟩
  | cons a l ih =>
    intro B
    simp only [List.foldl_cons]
    obtain ⟨h1, h2, h3⟩ := ih (B.modify a fun x => { x with failure := 0 })
    refine ⟨h1, (same_modify B a (fun x => { x with failure := 0 }) (fun _ => ⟨rfl, rfl, rfl, rfl⟩)).trans h2, ?_⟩
    intro j
    rw [(h3 j).1, (h3 j).2, st_modify]
    simp only [size_modify, List.mem_cons]
    by_cases e : j = a
    · subst e
      by_cases hj : j < B.states.size
      · simp [hj]
      · simp [hj]
    · simp [e]


/-- **`_yr_ac_create_failure_links`**: afterwards every non-root state's failure link is the state of the longest proper
    suffix of its path that is a path, and every state's match list is the entries of the atoms that are suffixes of its
    path, longest first, the root's (zero-length atoms) last -/
theorem createFailureLinks_I2 {A : Auto} {atoms : List (Nat × Atom)} (h : P1 A atoms)
    (hbt : ∀ a ∈ atoms, a.2.bytes = [] → a.2.backtrack = 0) :
    Same A (createFailureLinks A) ∧
    I2 (createFailureLinks A) atoms (fun x => 0 < x ∧ x < A.states.size) (fun x => 0 < x ∧ x < A.states.size) := by
  have hT := h.trie
  -- the initial part: failure of the root and of its children := root
  let A1 := A.modify 0 fun x => { x with failure := 0 }
  have hs1 : Same A A1 := same_modify A 0 (fun x => { x with failure := 0 }) (fun _ => ⟨rfl, rfl, rfl, rfl⟩)
  obtain ⟨hp2, hs2, hst2⟩ := setfail_fold (A1.st 0).children A1
  generalize hA2 : (A1.st 0).children.foldl (fun B ch => B.modify ch fun x => { x with failure := 0 }) A1 = A2 at hp2 hs2 hst2
  have hsA2 : Same A A2 := hs1.trans hs2
  have hT2 : Trie A2 := hT.congr hsA2.1 hsA2.2
  have hpool : A2.pool = A.pool := hp2
  have hk0 : (A1.st 0).children = kids A 0 := shape_children (hs1.2 0)
  have hk2 : ∀ s, kids A2 s = kids A s := hsA2.kids
  have href : ∀ j, (A2.st j).matchesRef = (A.st j).matchesRef := by
    intro j
    rw [(hst2 j).1]
    show ((A.modify 0 fun x => { x with failure := 0 }).st j).matchesRef = _
    rw [st_modify]; split <;> simp_all
  have hpath : ∀ j, (A2.st j).path = (A.st j).path := fun j => shape_path (hsA2.2 j)
  have hfail0 : (A2.st 0).failure = 0 := by
    rw [(hst2 0).2]
    split
    · rfl
    · show ((A.modify 0 fun x => { x with failure := 0 }).st 0).failure = 0
      rw [st_modify_self A 0 _ hT.size_pos]
  have hfailk : ∀ x ∈ kids A 0, (A2.st x).failure = 0 := by
    intro x hx
    rw [(hst2 x).2, if_pos]
    refine ⟨by rw [hk0]; exact hx, ?_⟩
    rw [hs1.1]; exact (hT.child_lt 0 hT.size_pos x hx).2
  have hinit : I2 A2 atoms (lkOf (kids A2) []) (fun x => x ∈ ([] : List Nat)) := by
    have hlk : ∀ x, lkOf (kids A2) [] x ↔ x ∈ kids A 0 := by
      intro x; unfold lkOf; rw [hk2]; simp
    refine ⟨⟨hT2, by rw [hpool]; exact h.pool_size, ?_, ?_, hbt, ?_, ?_, ?_, ?_, ?_, ?_⟩, hfail0, ?_⟩
    · intro e a ha; rw [hpool]; exact h.pool_info e a ha
    · intro a ha
      obtain ⟨s, hs, hp⟩ := h.atoms_in a ha
      exact ⟨s, by rw [hsA2.1]; exact hs, by rw [hpath]; exact hp⟩
    · rw [hpool, href]
      have := h.chains 0 hT.size_pos
      rw [hT.root_path] at this; exact this
    · intro x hx; cases hx
    · intro x hx
      have := hT.child_lt 0 hT.size_pos x ((hlk x).mp hx)
      rw [hsA2.1]; exact this
    · intro x h0 hx hnl
      rw [hsA2.1] at hx
      rw [hpool, href, hpath]; exact h.chains x hx
    · intro x hx _
      have hxk := (hlk x).mp hx
      have hlt := hT.child_lt 0 hT.size_pos x hxk
      refine ⟨0, by rw [hpool, href, hpath]; exact h.chains x hlt.2, Or.inr ⟨rfl, ?_⟩⟩
      unfold RT R0
      rw [hpath, hT.child_path 0 hT.size_pos x hxk, hT.root_path]; rfl
    · intro x hx; cases hx
    · intro x hx
      have hxk := (hlk x).mp hx
      rw [hfailk x hxk]
      refine ⟨hT2.size_pos, ?_⟩
      rw [hT2.root_path, hpath, hT.child_path 0 hT.size_pos x hxk, hT.root_path]; rfl
  -- the loop
  have hcfl : createFailureLinks A = bfs kids linkStep A2.states.size (A2.st 0).children A2 := by
    unfold createFailureLinks
    simp only
    rw [hA2]
  rw [hcfl, bfs_eq_foldl kids linkStep (fun x s t => (linkStep_same x s).kids t)]
  have ho := order_ok hT2
  have hord : order (kids A2) A2.states.size (A2.st 0).children = order (kids A2) A2.states.size (kids A2 0) := rfl
  rw [hord]
  generalize hordl : order (kids A2) A2.states.size (kids A2 0) = ord at ho
  have key := foldl_inv_prefix linkStep (fun pre B => Same A2 B ∧ I2 B atoms (lkOf (kids A2) pre) (fun x => x ∈ pre)) ord ord [] A2 rfl
    ⟨Same.refl A2, hinit⟩ ?_
  · refine ⟨hsA2.trans key.1, key.2.congr_lk ?_ ?_⟩
    · intro x
      constructor
      · intro hx
        have := key.2.ms.lk_range x hx
        rw [key.1.1, hsA2.1] at this
        exact this
      · intro hx
        obtain ⟨p, hp1, hp2⟩ := hT2.has_parent x hx.1 (by rw [hsA2.1]; exact hx.2)
        by_cases hp0 : p = 0
        · subst hp0; exact Or.inl hp2
        · exact Or.inr ⟨p, ho.complete p (by omega) hp1, hp2⟩
    · intro x
      constructor
      · intro hx; have := ho.range x hx; rw [hsA2.1] at this; exact this
      · intro hx; exact ho.complete x hx.1 (by rw [hsA2.1]; exact hx.2)
  · intro pre cur post B hl ⟨hsB, hB⟩
    have hcm : cur ∈ ord := by rw [hl]; simp
    have hcr := ho.range cur hcm
    have hlkc : lkOf (kids A2) pre cur := parent_before hT2 ho hl cur hcr.1 hcr.2 (Nat.le_refl _)
    have hdc : DC B (lkOf (kids A2) pre) (B.st cur).depth := by
      rw [shape_depth (hsB.2 cur)]
      exact DC.congr (fun g h0 hg hd => parent_before hT2 ho hl g h0 hg hd) hsB
    have hkB : (B.st cur).children = kids A2 cur := shape_children (hsB.2 cur)
    have hnd := ho.nodup
    rw [hl, List.nodup_append] at hnd
    have hnp : cur ∉ pre := fun hh => hnd.2.2 cur hh cur List.mem_cons_self rfl
    have hdp : ∀ g, 0 < g → g < B.states.size → (B.st g).depth < (B.st cur).depth → g ∈ pre := by
      intro g h0 hg hd
      rw [hsB.1] at hg
      rw [shape_depth (hsB.2 g), shape_depth (hsB.2 cur)] at hd
      exact before_of_depth_lt ho hl g h0 hg hd
    have hnl : ∀ ch ∈ (B.st cur).children, ¬ lkOf (kids A2) pre ch := by
      intro ch hch hh
      rw [hkB] at hch
      rcases hh with hh | ⟨p, hp, hh⟩
      · have := hT2.parent_unique hT2.size_pos hcr.2 hh hch
        omega
      · have hpr := ho.range p (by rw [hl]; exact List.mem_append_left _ hp)
        have := hT2.parent_unique hpr.2 hcr.2 hh hch
        subst this
        exact hnp hp
    refine ⟨hsB.trans (linkStep_same B cur), (linkStep_I2 hB hlkc hnp hdp hdc hnl).congr_lk ?_ ?_⟩
    · intro x
      rw [hkB]
      unfold lkOf
      constructor
      · rintro ((h1 | ⟨p, hp, h1⟩) | h1)
        · exact Or.inl h1
        · exact Or.inr ⟨p, List.mem_append_left _ hp, h1⟩
        · exact Or.inr ⟨cur, by simp, h1⟩
      · rintro (h1 | ⟨p, hp, h1⟩)
        · exact Or.inl (Or.inl h1)
        · rcases List.mem_append.mp hp with hp | hp
          · exact Or.inl (Or.inr ⟨p, hp, h1⟩)
          · simp at hp; subst hp; exact Or.inr h1
    · intro x; simp

end YaraModel.AC.Build
