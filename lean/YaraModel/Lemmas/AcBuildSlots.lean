/- Aho-Corasick construction, helper lemmas 11: nothing before the packing pass writes a `t_table_slot` -/
import YaraModel.Lemmas.AcBuildOpt
namespace YaraModel.AC.Build
open YaraModel.Text YaraModel.AC

def SlotSame (A B : Auto) : Prop := ∀ j, (B.st j).slot = (A.st j).slot

theorem SlotSame.refl (A : Auto) : SlotSame A A := fun _ => rfl
theorem SlotSame.trans {A B C : Auto} (h1 : SlotSame A B) (h2 : SlotSame B C) : SlotSame A C := fun j => (h2 j).trans (h1 j)

theorem slotSame_modify (A : Auto) (i : Nat) (f : State → State) (hf : ∀ x : State, (f x).slot = x.slot) : SlotSame A (A.modify i f) := by
  intro j
  rw [st_modify]
  split
  · rename_i e; rw [hf, e.1]
  · rfl

theorem slotSame_setNext (A : Auto) (i1 nx : Nat) : SlotSame A (setNext A i1 nx) := fun _ => rfl

theorem rootFixup_slots (A : Auto) (cur : Nat) : SlotSame A (rootFixup A cur) := by
  unfold rootFixup
  split
  · simp only
    split
    · exact slotSame_setNext _ _ _
    · exact SlotSame.refl A
  · exact slotSame_modify A cur _ (fun _ => rfl)

theorem linkChild_slots (cur : Nat) (A : Auto) (ch : Nat) : SlotSame A (linkChild cur A ch) := by
  unfold linkChild
  split
  · rename_i t _
    simp only
    have h1 : SlotSame A (A.modify ch fun x => { x with failure := t }) := slotSame_modify A ch _ (fun _ => rfl)
    split
    · exact h1.trans (slotSame_modify _ ch _ (fun _ => rfl))
    · exact h1.trans (slotSame_setNext _ _ _)
  · exact slotSame_modify A ch _ (fun _ => rfl)

theorem linkStep_slots (A : Auto) (cur : Nat) : SlotSame A (linkStep A cur) := by
  unfold linkStep
  have : ∀ (l : List Nat) (B : Auto), SlotSame B (l.foldl (linkChild cur) B) := by
    intro l
    induction l with
    | nil => intro B; exact SlotSame.refl B
    | cons a l ih => intro B; exact (linkChild_slots cur B a).trans (ih _)
  exact (rootFixup_slots A cur).trans (this _ _)

theorem createFailureLinks_slots (A : Auto) : SlotSame A (createFailureLinks A) := by
  unfold createFailureLinks
  simp only
  have h1 : SlotSame A (A.modify 0 fun x => { x with failure := 0 }) := slotSame_modify A 0 _ (fun _ => rfl)
  have h2 : ∀ (l : List Nat) (B : Auto), SlotSame B (l.foldl (fun B ch => B.modify ch fun x => { x with failure := 0 }) B) := by
    intro l
    induction l with
    | nil => intro B; exact SlotSame.refl B
    | cons a l ih => intro B; exact (slotSame_modify B a (fun x => { x with failure := 0 }) (fun _ => rfl)).trans (ih _)
  apply bfs_invariant kids linkStep (fun B => SlotSame A B)
  · intro B s hB; exact hB.trans (linkStep_slots B s)
  · exact h1.trans (h2 _ _)

theorem optStep_slots (A : Auto) (cur : Nat) : SlotSame A (optStep A cur) := by
  unfold optStep
  simp only
  split
  · exact slotSame_modify A cur _ (fun _ => rfl)
  · exact SlotSame.refl A

theorem optimizeFailureLinks_slots (A : Auto) : SlotSame A (optimizeFailureLinks A) := by
  unfold optimizeFailureLinks
  apply bfs_invariant kids optStep (fun B => SlotSame A B)
  · intro B s hB; exact hB.trans (optStep_slots B s)
  · exact SlotSame.refl A

end YaraModel.AC.Build
