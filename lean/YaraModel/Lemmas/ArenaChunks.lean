/- A stream that delivers the image in arbitrary chunks (fread contract) is, for the loader, the same
   as the whole image. -/
import YaraModel.Lemmas.ArenaLoad
namespace YaraModel.Arena
open YaraModel.Gen.ArenaLayout

theorem readChunks_spec (n : Nat) (cs : List Bytes) :
    (readChunks n cs).1 = cs.flatten.take n ∧ (readChunks n cs).2.flatten = cs.flatten.drop n := by
  induction n, cs using readChunks.induct with
  | case1 cs => simp [readChunks]
  | case2 n hn => cases n <;> simp [readChunks]
  | case3 n cs ih => simpa [readChunks] using ih
  | case4 n x c cs got rest heq ih =>
    simp only [readChunks]
    constructor
    · simpa using ih.1
    · simpa using ih.2

theorem parseHeader_take (s : Bytes) :
    parseHeader (s.take headerSize) =
      match parseHeader s with
      | .error e => .error e
      | .ok (n, _) => .ok (n, (s.take headerSize).drop headerSize) := by
  unfold parseHeader
  by_cases hl : s.length < headerSize
  · have : (s.take headerSize).length < headerSize := by rw [List.length_take]; omega
    rw [if_pos this, if_pos hl]
  · have hl' : ¬ (s.take headerSize).length < headerSize := by rw [List.length_take]; omega
    rw [if_neg hl', if_neg hl]
    have h4 : (s.take headerSize).take 4 = s.take 4 := by rw [List.take_take]; simp [headerSize]
    have hg : ∀ i, i < headerSize → (s.take headerSize).getD i 0 = s.getD i 0 := by
      intro i hi
      simp only [List.getD_eq_getElem?_getD, List.getElem?_take, hi, if_true]
    rw [h4, hg hdrVersionOff (by decide), hg hdrNumBuffersOff (by decide)]
    split
    · rfl
    · split
      · rfl
      · split
        · rfl
        · rfl

theorem rdLE_take {k off m : Nat} (s : Bytes) (h : off + k ≤ m) : rdLE k (s.take m) off = rdLE k s off := by
  unfold rdLE
  congr 1
  apply List.ext_getElem?
  intro i
  simp only [List.getElem?_take, List.getElem?_drop]
  split
  · rw [if_pos (by omega)]
  · rfl

theorem parseTable_take (n : Nat) (s : Bytes) :
    parseTable n (s.take (tableEntrySize * n)) =
      match parseTable n s with
      | .error e => .error e
      | .ok (sizes, _) => .ok (sizes, (s.take (tableEntrySize * n)).drop (tableEntrySize * n)) := by
  unfold parseTable
  have hmin : min (tableEntrySize * n) (s.take (tableEntrySize * n)).length = min (tableEntrySize * n) s.length := by
    rw [List.length_take]; omega
  rw [hmin]
  split
  · rfl
  · simp only
    congr 2
    apply List.map_congr_left
    intro i hi
    have hi' : i < n := List.mem_range.1 hi
    apply rdLE_take
    simp only [tableEntrySize, tblSizeOff, tblSizeSize]; omega

theorem offsetsOk_take (n : Nat) (s : Bytes) (i expected : Nat) (sizes : List Nat) (h : i + sizes.length ≤ n) :
    offsetsOk (s.take (tableEntrySize * n)) i expected sizes = offsetsOk s i expected sizes := by
  induction sizes generalizing i expected with
  | nil => rfl
  | cons z t ih =>
    simp only [offsetsOk]
    have hlen : i + 1 + t.length ≤ n := by simp only [List.length_cons] at h; omega
    rw [ih (i + 1) (expected + z) hlen, rdLE_take]
    simp only [tableEntrySize, tblOffsetOff, tblOffsetSize]
    simp only [List.length_cons] at h
    omega

theorem bodiesVia_spec (alloc : Nat → Nat) (sizes : List Nat) (i : Nat) (cs : List Bytes) :
    readBodies alloc i sizes cs.flatten =
      match loadVia.bodiesVia alloc i sizes cs with
      | .error e => .error e
      | .ok (bufs, cs') => .ok (bufs, cs'.flatten) := by
  induction sizes generalizing i cs with
  | nil => simp [readBodies, loadVia.bodiesVia]
  | cons z t ih =>
    rw [readBodies, loadVia.bodiesVia]
    by_cases hz : z = 0
    · simp only [hz, if_true]
      rw [ih (i + 1) cs]
      cases loadVia.bodiesVia alloc (i + 1) t cs with
      | error e => rfl
      | ok p => rfl
    · simp only [hz, if_false]
      split
      · rfl
      · have hsp := readChunks_spec z cs
        have hlen : (readChunks z cs).1.length < z ↔ cs.flatten.length < z := by
          rw [hsp.1, List.length_take]; omega
        by_cases hshort : cs.flatten.length < z
        · rw [if_pos hshort, if_pos (hlen.2 hshort)]
        · rw [if_neg hshort, if_neg (fun h => hshort (hlen.1 h))]
          rw [← hsp.2, ih (i + 1) (readChunks z cs).2, hsp.1]
          cases loadVia.bodiesVia alloc (i + 1) t (readChunks z cs).2 with
          | error e => rfl
          | ok p => rfl

theorem applyRelocs_split8 (cfg : LoaderCfg) (a : Arena) (b0 b1 b2 b3 b4 b5 b6 b7 : UInt8) (rest : Bytes) :
    applyRelocs cfg a (b0 :: b1 :: b2 :: b3 :: b4 :: b5 :: b6 :: b7 :: rest) =
      match applyRelocs cfg a [b0, b1, b2, b3, b4, b5, b6, b7] with
      | .error e => .error e
      | .ok a' => applyRelocs cfg a' rest := by
  rw [applyRelocs]
  conv => rhs; rw [applyRelocs]
  cases decRef (leVal [b0, b1, b2, b3, b4, b5, b6, b7]) with
  | none => rfl
  | some r =>
    simp only
    split
    · rfl
    · split
      · rfl
      · split
        · rfl
        · cases refToPtr a.bufs (decRef (getSlot a r)) with
          | error e => rfl
          | ok p => simp only [applyRelocs]

theorem relocsVia_spec (cfg : LoaderCfg) (fuel : Nat) (a : Arena) (cs : List Bytes) (hf : cs.flatten.length / 8 < fuel) :
    loadVia.relocsVia cfg fuel a cs = applyRelocs cfg a cs.flatten := by
  induction fuel generalizing a cs with
  | zero => omega
  | succ f ih =>
    rw [loadVia.relocsVia]
    have hsp := readChunks_spec relocEntrySize cs
    simp only
    by_cases hshort : cs.flatten.length < 8
    · have h1 : (readChunks relocEntrySize cs).1 = cs.flatten := by
        rw [hsp.1]; exact List.take_of_length_le (by simp only [relocEntrySize]; omega)
      rw [if_pos (by rw [h1]; simpa [relocEntrySize] using hshort), h1]
    · have hlen : (readChunks relocEntrySize cs).1.length = 8 := by
        rw [hsp.1, List.length_take]; simp only [relocEntrySize]; omega
      rw [if_neg (by rw [hlen]; simp [relocEntrySize])]
      have hsplit : cs.flatten = (readChunks relocEntrySize cs).1 ++ (readChunks relocEntrySize cs).2.flatten := by
        rw [hsp.1, hsp.2, List.take_append_drop]
      have hrest : (readChunks relocEntrySize cs).2.flatten.length / 8 < f := by
        rw [hsp.2, List.length_drop]; simp only [relocEntrySize]; omega
      conv => rhs; rw [hsplit]
      match he : (readChunks relocEntrySize cs).1, hlen with
      | [b0, b1, b2, b3, b4, b5, b6, b7], _ =>
        simp only [List.cons_append, List.nil_append]
        have hs8 := applyRelocs_split8 cfg a b0 b1 b2 b3 b4 b5 b6 b7 (readChunks relocEntrySize cs).2.flatten
        cases hA : applyRelocs cfg a [b0, b1, b2, b3, b4, b5, b6, b7] with
        | error e => rw [hA] at hs8; rw [hs8]
        | ok a' => rw [hA] at hs8; rw [hs8]; exact ih a' _ hrest

theorem loadVia_eq (cfg : LoaderCfg) (alloc : Nat → Nat) (cs : List Bytes) :
    loadVia cfg alloc cs = load cfg alloc cs.flatten := by
  rw [load_eq]
  unfold loadVia
  have h1 := readChunks_spec headerSize cs
  simp only
  rw [h1.1, parseHeader_take]
  cases hp : parseHeader cs.flatten with
  | error e => rfl
  | ok x =>
    obtain ⟨n, s1⟩ := x
    simp only
    have hs1 : s1 = cs.flatten.drop headerSize := by
      unfold parseHeader at hp
      split at hp
      · cases hp
      · split at hp
        · cases hp
        · split at hp
          · cases hp
          · split at hp
            · cases hp
            · simp only [Except.ok.injEq, Prod.mk.injEq] at hp; exact hp.2.symm
    have h2 := readChunks_spec (tableEntrySize * n) (readChunks headerSize cs).2
    rw [h1.2, ← hs1] at h2
    rw [h2.1, parseTable_take]
    cases hq : parseTable n s1 with
    | error e => rfl
    | ok y =>
      obtain ⟨sizes, s2⟩ := y
      simp only
      have hsl : sizes.length = n ∧ s2 = s1.drop (tableEntrySize * n) := by
        unfold parseTable at hq
        split at hq
        · cases hq
        · simp only [Except.ok.injEq, Prod.mk.injEq] at hq
          exact ⟨by rw [← hq.1]; simp, hq.2.symm⟩
      rw [offsetsOk_take n s1 0 _ sizes (by omega)]
      split
      · rfl
      · have hb := bodiesVia_spec alloc sizes 0 (readChunks (tableEntrySize * n) (readChunks headerSize cs).2).2
        rw [h2.2, ← hsl.2] at hb
        rw [hb]
        cases hv : loadVia.bodiesVia alloc 0 sizes (readChunks (tableEntrySize * n) (readChunks headerSize cs).2).2 with
        | error e => rfl
        | ok z =>
          obtain ⟨bufs, cs3⟩ := z
          simp only
          apply relocsVia_spec
          have : (cs3.map (·.length)).sum = cs3.flatten.length := by rw [List.length_flatten]
          rw [this]
          simp only [relocEntrySize]; omega

end YaraModel.Arena
